#!/usr/bin/env python3
"""triage_hz.py <ID> [main hazards...]: group last run's violations by (hazard among MAIN or '-') then (clause, entry, mode, site)."""
import json,glob,collections,sys
pid=sys.argv[1]
main=sys.argv[2:] or ['seq-super(char)','seq-super(item)','seq-super(byte)','seq-sparse(char)','seq-sparse(byte)','dict-multi']
g=collections.defaultdict(collections.Counter); ex={}
for f in glob.glob('/verif/run/%s/*.jsonl'%pid):
    for ln in open(f):
        try: l=json.loads(ln)
        except Exception: continue
        if l.get('t')!='v': continue
        s=l['viol']['sig']
        allhz=[h for h in s.get('hazards',[]) if not h.startswith('rep')]
        hz=[h for h in allhz if h in main]
        k=(s['clause'],s.get('entry'),s.get('mode'),s.get('site',''),s.get('delta',''))
        for h in hz or ['-']:
            g[h][k]+=1; ex.setdefault((h,k),(allhz,l['viol']['detail'][:300]))
for h in sorted(g):
    print('==',h)
    for k,c in g[h].most_common(): print('   ',c,k,'\n         ',ex[(h,k)])
