#!/bin/bash
# Runs the repository's pinned suite with the verif guard OFF and compares with BASELINE.json's stable_pass list.
. /verif/env.sh
mkdir -p /verif/run
cd /repo && go test -json -vet=off -count=1 -timeout 25m ./... > /verif/run/baseline.gotest.json 2>/verif/run/baseline.stderr
python3 - <<'PY'
import json
base=json.load(open('/root/.vp/BASELINE.json'))
stable=set(base['stable_pass'])
res={}
for ln in open('/verif/run/baseline.gotest.json'):
    try: e=json.loads(ln)
    except Exception: continue
    if e.get('Test') and e.get('Action') in('pass','fail','skip'):
        res[e['Package']+'::'+e['Test']]=e['Action']
bad=[t for t in sorted(stable) if res.get(t)!='pass']
print('stable_pass=%d passed_now=%d not_passing=%d'%(len(stable),sum(1 for t in stable if res.get(t)=='pass'),len(bad)))
for t in bad[:40]: print('  NOT PASSING:',t,res.get(t))
import sys; sys.exit(1 if bad else 0)
PY
