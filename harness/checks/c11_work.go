package checks

import (
	"context"
	"errors"
	"fmt"
	"os"
	"runtime"
	"sort"
	"strconv"
	"strings"
	"sync"
	"sync/atomic"
	"time"

	"verif/core"

	"github.com/arr-ai/arrai/pkg/arraictx"
	"github.com/arr-ai/arrai/pkg/ctxfs"
	"github.com/arr-ai/arrai/pkg/importcache"
	"github.com/arr-ai/arrai/rel"
	"github.com/arr-ai/arrai/syntax"
	"github.com/spf13/afero"
)

// ---------------------------------------------------------------------------------------------
// primitives: goroutine id, spin barrier, goroutine-id probes
//
// Nothing between the barrier and the join may synchronise the racing goroutines with each other
// (a shared mutex or atomic would add happens-before edges and hide races from the detector):
// results go to per-goroutine slots, probes write to per-evaluation slots indexed by element id.

func c11Goid() int64 {
	var b [40]byte
	n := runtime.Stack(b[:], false)
	s := string(b[:n])
	s = strings.TrimPrefix(s, "goroutine ")
	if i := strings.IndexByte(s, ' '); i > 0 {
		id, _ := strconv.ParseInt(s[:i], 10, 64)
		return id
	}
	return -1
}

type c11Barrier struct {
	n int32
	c atomic.Int32
}

func (b *c11Barrier) wait() {
	b.c.Add(1)
	for b.c.Load() < b.n {
		runtime.Gosched()
	}
}

var c11ErrProbe = errors.New("verif: probe refuses this element")

// c11Probe is a native callback that records, per element id, the goroutine it ran on.
type c11Probe struct {
	goids []int64 // slot per element id; each element is fed at most once per evaluation
	fn    rel.Value
}

func c11NewProbe(kind string, nIDs int) *c11Probe {
	p := &c11Probe{goids: make([]int64, nIDs)}
	p.fn = rel.NewNativeFunction("verifProbe", func(_ context.Context, v rel.Value) (rel.Value, error) {
		id := -1
		if n, ok := v.(rel.Number); ok {
			id = int(n.Float64())
		}
		if id >= 0 && id < len(p.goids) {
			p.goids[id] = c11Goid()
		}
		switch kind {
		case "perr":
			if id%7 == 3 {
				return nil, c11ErrProbe
			}
			return rel.NewBool(id%2 == 0), nil
		case "pmap":
			return rel.NewNumber(float64(id * 2)), nil
		}
		return rel.NewBool(id%2 == 0), nil
	})
	return p
}

// stats returns number of callbacks, distinct goroutine ids, callbacks not on goroutine self.
func (p *c11Probe) stats(self int64) (calls, distinct, off int) {
	seen := map[int64]bool{}
	for _, g := range p.goids {
		if g == 0 {
			continue
		}
		calls++
		seen[g] = true
		if g != self {
			off++
		}
	}
	return calls, len(seen), off
}

// ---------------------------------------------------------------------------------------------
// compile cache: the wbnf parser costs 0.1-1 s per program under the race detector, so every
// program text is compiled once per worker process (used only from the case's main goroutine;
// the compiled Expr itself is then evaluated by all goroutines of all rounds).

var c11Compiled = map[string]rel.Expr{}

func c11CompileFresh(src string) rel.Expr {
	var e rel.Expr
	var err error
	func() {
		defer func() {
			if r := recover(); r != nil {
				err = fmt.Errorf("compile panic: %v", r)
			}
		}()
		e, err = syntax.Compile(core.Ctx(), "", src)
	}()
	if err != nil {
		panic(fmt.Sprintf("c11: program %q does not compile: %s", src, core.ErrText(err)))
	}
	return e
}

func c11Compile(src string) rel.Expr {
	if e, ok := c11Compiled[src]; ok {
		return e
	}
	e := c11CompileFresh(src)
	c11Compiled[src] = e
	return e
}

// ---------------------------------------------------------------------------------------------
// scenario instances and universes

type c11Bind struct {
	name string
	src  string                                    // compiled once per process, evaluated per build (closures)
	mk   func(prev map[string]rel.Value) rel.Value // built through the Go API: a fresh object graph per build
}

type c11Prog struct {
	label   string
	src     string
	errText bool   // the error text is element-independent by construction: compare it
	probe   string // "", "pred", "perr", "pmap": bind a fresh goroutine-id probe as `p`
}

type c11Inst struct {
	key       string
	binds     []c11Bind
	progs     []c11Prog
	nIDs      int
	files     map[string]string // W4: programs are compiled at evaluation time through one shared import cache
	inspect   bool              // also run the Go-level inspection vector over the bound values
	perG      int               // >0: each goroutine evaluates only this many items
	freshExpr int               // >0: this many programs (rotating) are recompiled for the shared universe every round
	singleRef bool              // only one serial reference pass (very large operands)
}

type c11Scen struct {
	name, class string
	std         bool // uses the `//` library: only scheduled on first-use shards (after their W2 case)
	gen         func(r *core.Rng, canon bool) c11Inst
}

type c11Univ struct {
	ctx   context.Context
	scope rel.Scope
	vals  []rel.Value
	exprs []rel.Expr
}

const c11MainPath = "/w/lib/main.arrai"

func c11MemCtx(files map[string]string) context.Context {
	fs := afero.NewMemMapFs()
	names := make([]string, 0, len(files))
	for p := range files {
		names = append(names, p)
	}
	sort.Strings(names)
	for _, p := range names {
		if err := afero.WriteFile(fs, p, []byte(files[p]), 0o644); err != nil {
			panic(err)
		}
	}
	ctx := arraictx.InitRunCtx(context.Background())
	ctx = ctxfs.SourceFsOnto(ctx, fs)
	return importcache.WithNewImportCache(ctx)
}

// c11Build builds one universe; fresh lists program indices to recompile instead of using the cache.
func c11Build(inst *c11Inst, fresh map[int]bool) *c11Univ {
	u := &c11Univ{scope: rel.EmptyScope}
	if inst.files != nil {
		u.ctx = c11MemCtx(inst.files)
	} else {
		u.ctx = arraictx.ContextWithIsCompiling(core.Ctx(), false)
	}
	prev := map[string]rel.Value{}
	for _, b := range inst.binds {
		var v rel.Value
		if b.mk != nil {
			v = b.mk(prev)
		} else {
			e := c11Compile(b.src)
			sc := u.scope
			o := core.Guard(func() (rel.Value, error) { return e.Eval(u.ctx, sc) })
			if !o.OK() {
				panic(fmt.Sprintf("c11: bind %s = %s failed: %s", b.name, c11Clip(b.src, 200), outcomeText(o)))
			}
			v = o.Val
		}
		prev[b.name] = v
		u.vals = append(u.vals, v)
		u.scope = u.scope.With(b.name, v)
	}
	if inst.files == nil {
		for j, p := range inst.progs {
			if fresh[j] {
				u.exprs = append(u.exprs, c11CompileFresh(p.src))
			} else {
				u.exprs = append(u.exprs, c11Compile(p.src))
			}
		}
	}
	return u
}

func c11OutStr(o core.Outcome, errText bool) string {
	switch {
	case o.Panic != nil:
		return "P " + o.Panic.Sig()
	case o.Err != nil:
		if errText {
			return "E " + core.ErrText(o.Err)
		}
		return "E"
	}
	d, pi := core.SafeDenote(o.Val)
	if pi != nil {
		return "P denote: " + pi.Sig()
	}
	r, pi := core.Repr(o.Val)
	if pi != nil {
		return "P repr: " + pi.Sig()
	}
	return "V " + d.Enc + "\x00" + r
}

type c11ProbeStats struct{ evals, fanout, calls, off, maxG int }

func (u *c11Univ) evalProg(inst *c11Inst, j int, ps *c11ProbeStats) string {
	p := inst.progs[j]
	sc := u.scope
	var pr *c11Probe
	if p.probe != "" {
		pr = c11NewProbe(p.probe, inst.nIDs)
		sc = sc.With("p", pr.fn)
	}
	var o core.Outcome
	if u.exprs != nil {
		e := u.exprs[j]
		o = core.Guard(func() (rel.Value, error) { return e.Eval(u.ctx, sc) })
	} else {
		o = core.Guard(func() (rel.Value, error) { return syntax.EvalWithScope(u.ctx, c11MainPath, p.src, sc) })
	}
	s := c11OutStr(o, p.errText)
	if pr != nil && ps != nil {
		calls, distinct, off := pr.stats(c11Goid())
		ps.evals++
		ps.calls += calls
		ps.off += off
		if distinct > 1 {
			ps.fanout++
		}
		if distinct > ps.maxG {
			ps.maxG = distinct
		}
	}
	return s
}

func c11Safe(f func() string) (s string) {
	defer func() {
		if r := recover(); r != nil {
			s = "P " + core.NewPanicInfo(r).Sig()
		}
	}()
	return f()
}

// inspect is what an embedding host does with values: print, hash, compare, enumerate.
func (u *c11Univ) inspect() []string {
	var out []string
	for i, v := range u.vals {
		v := v
		w := u.vals[(i+1)%len(u.vals)]
		out = append(out,
			c11Safe(func() string { return "S " + v.String() }),
			c11Safe(func() string { return fmt.Sprint("H ", v.Hash(0)) }),
			c11Safe(func() string { return fmt.Sprint("K ", v.Kind(), v.IsTrue()) }),
			c11Safe(func() string { return fmt.Sprint("EQ ", v.Equal(w), v.Equal(v), " LT ", v.Less(w), w.Less(v)) }),
			c11Safe(func() string { return "D " + core.Denote(v).Enc }),
		)
		switch x := v.(type) {
		case *rel.GenericTuple:
			out = append(out, c11Safe(func() string {
				return "N " + strings.Join(rel.TupleOrderedNames(x), ",") + "|" + strings.Join(x.Names().OrderedNames(), ",") + fmt.Sprint("|", x.Count())
			}))
		case rel.Tuple:
			out = append(out, c11Safe(func() string { return "N " + strings.Join(x.Names().OrderedNames(), ",") }))
		case rel.Set:
			out = append(out, c11Safe(func() string {
				n := 0
				var first rel.Value
				for e := x.ArrayEnumerator(); e.MoveNext(); n++ {
					if first == nil {
						first = e.Current()
					}
				}
				has := false
				if first != nil {
					has = x.Has(first)
				}
				return fmt.Sprint("C ", x.Count(), n, has)
			}))
		}
	}
	return out
}

// item j < len(progs): program j; item len(progs): the inspection vector.
func (u *c11Univ) evalItem(inst *c11Inst, j int, ps *c11ProbeStats) []string {
	if j < len(inst.progs) {
		return []string{u.evalProg(inst, j, ps)}
	}
	return u.inspect()
}

func c11Items(inst *c11Inst) int {
	if inst.inspect {
		return len(inst.progs) + 1
	}
	return len(inst.progs)
}

func c11ItemLabel(inst *c11Inst, j int) (label, src string) {
	if j < len(inst.progs) {
		return inst.progs[j].label, inst.progs[j].src
	}
	return "go-inspect", "String/Hash/Kind/Equal/Less/Denote/Names/Count/Has on every bound value"
}

type c11Reporter struct {
	scen  string
	seen  map[string]bool
	viols []core.Violation
}

func (rp *c11Reporter) report(mode, site, label, detail string, replay interface{}) {
	sig := core.Signature{Clause: "C11.serial-equivalence", Entry: rp.scen, Mode: mode, Site: site, Delta: label}
	k := sig.String()
	if rp.seen[k] {
		return
	}
	rp.seen[k] = true
	rp.viols = append(rp.viols, core.Violation{Sig: sig, Detail: detail, Replay: replay})
}

func c11Mode(want, got string) (mode, site string) {
	switch {
	case strings.HasPrefix(got, "P "):
		return "panic", strings.TrimPrefix(got, "P ")
	case strings.HasPrefix(want, "V ") && strings.HasPrefix(got, "E"):
		return "error-for-value", ""
	case strings.HasPrefix(want, "E") && strings.HasPrefix(got, "V "):
		return "value-for-error", ""
	case strings.HasPrefix(want, "P "):
		return "no-panic-unlike-serial", ""
	case strings.HasPrefix(want, "E") && strings.HasPrefix(got, "E"):
		return "wrong-error", ""
	case strings.HasPrefix(want, "V ") && strings.HasPrefix(got, "V "):
		we, ge := want, got
		if i := strings.IndexByte(we, 0); i >= 0 {
			we = we[:i]
		}
		if i := strings.IndexByte(ge, 0); i >= 0 {
			ge = ge[:i]
		}
		if we == ge {
			return "repr-differs", ""
		}
		return "wrong-value", ""
	}
	return "inspect-differs", ""
}

func c11Show(s string) string {
	s = strings.ReplaceAll(s, "\x00", " repr=")
	return c11Clip(s, 400)
}

// c11Round runs one round; cheapRef reuses one reference copy for both serial passes.
func c11Round(inst *c11Inst, G int, r *core.Rng, d *c11CaseData, rp *c11Reporter, round int, cheapRef bool) {
	nItems := c11Items(inst)
	var fresh map[int]bool
	if inst.freshExpr > 0 {
		fresh = map[int]bool{}
		for k := 0; k < inst.freshExpr; k++ {
			fresh[(round*inst.freshExpr+k)%len(inst.progs)] = true
		}
	}
	us := c11Build(inst, fresh)
	ua := c11Build(inst, nil)
	ub := ua
	if !cheapRef {
		ub = c11Build(inst, nil)
	}
	// per-goroutine orders: even goroutines share one order (they chase each other over the same
	// cold caches), odd ones are rotated so different first uses collide as well.
	base := make([]int, nItems)
	for j := range base {
		base[j] = j
	}
	core.Shuffle(r, base)
	perG := nItems
	if inst.perG > 0 && inst.perG < nItems {
		perG = inst.perG
	}
	orders := make([][]int, G)
	used := map[int]bool{}
	// W4: every goroutine starts with the same failing import (a different one each round), so the
	// error path of the shared import cache is always taken under contention.
	lead := -1
	if inst.files != nil {
		var failing []int
		for _, kind := range []string{"usebroken", "import-broken", "missing"} {
			for j, p := range inst.progs {
				if strings.HasSuffix(p.label, kind) {
					failing = append(failing, j)
				}
			}
		}
		if len(failing) > 0 {
			lead = failing[round%len(failing)]
		}
	}
	for g := range orders {
		o := make([]int, 0, perG+1)
		if lead >= 0 {
			o = append(o, lead)
			used[lead] = true
		}
		rot := 0
		if g%2 == 1 {
			rot = r.Intn(nItems)
		}
		for k := 0; k < perG; k++ {
			j := base[(k+rot)%nItems]
			if j == lead {
				continue
			}
			o = append(o, j)
			used[j] = true
		}
		orders[g] = o
	}
	results := make([][][]string, G)
	pstats := make([]c11ProbeStats, G)
	t0 := make([]time.Time, G)
	t1 := make([]time.Time, G)
	bar := &c11Barrier{n: int32(G)}
	var wg sync.WaitGroup
	for g := 0; g < G; g++ {
		results[g] = make([][]string, nItems)
		wg.Add(1)
		go func(g int) {
			defer wg.Done()
			bar.wait()
			t0[g] = time.Now()
			for _, j := range orders[g] {
				results[g][j] = us.evalItem(inst, j, &pstats[g])
			}
			t1[g] = time.Now()
		}(g)
	}
	wg.Wait()
	// The serial references run AFTER the concurrent phase: process-wide state (anything memoised
	// in a package-level variable) must meet the goroutines cold at least once per process, and the
	// separately built copies have their own per-object caches anyway.
	refA := make([][]string, nItems)
	refB := make([][]string, nItems)
	for j := 0; j < nItems; j++ {
		if used[j] {
			refA[j] = ua.evalItem(inst, j, nil)
		}
	}
	for j := 0; j < nItems; j++ {
		if used[j] {
			if inst.singleRef {
				refB[j] = refA[j]
			} else {
				refB[j] = ub.evalItem(inst, j, nil)
			}
		}
	}
	d.Rounds++
	d.Goroutines = G
	for g := 0; g < G; g++ {
		d.ProbeEvals += pstats[g].evals
		d.FanoutEvals += pstats[g].fanout
		d.ProbeCalls += pstats[g].calls
		d.OffCaller += pstats[g].off
		if pstats[g].maxG > d.MaxGoids {
			d.MaxGoids = pstats[g].maxG
		}
		for h := g + 1; h < G; h++ {
			d.Pairs++
			if t0[g].Before(t1[h]) && t0[h].Before(t1[g]) {
				d.OverlapPair++
			}
		}
	}
	for j := 0; j < nItems; j++ {
		label, src := c11ItemLabel(inst, j)
		for k := range refA[j] {
			stable := k < len(refB[j]) && refA[j][k] == refB[j][k]
			want := refA[j][k]
			for g := 0; g < G; g++ {
				if results[g][j] == nil {
					continue // this goroutine did not evaluate item j
				}
				d.Evals++
				if !stable {
					d.Unstable++
					continue
				}
				d.Compared++
				got := "(missing)"
				if k < len(results[g][j]) {
					got = results[g][j][k]
				}
				if got == want {
					continue
				}
				mode, site := c11Mode(want, got)
				rp.report(mode, site, label, fmt.Sprintf("scenario %s [%s] round %d goroutine %d/%d: %s (component %d): alone on a separate copy = %s ; concurrently on the shared copy = %s",
					rp.scen, inst.key, round, g, G, c11Clip(src, 300), k, c11Show(want), c11Show(got)),
					map[string]interface{}{"scenario": rp.scen, "params": inst.key, "program": src, "expected": c11Show(want), "observed": c11Show(got)})
			}
		}
	}
}

func c11RunScenario(cfg *core.Config, i int, p c11PlanT) (core.CaseResult, *c11CaseData) {
	sc := c11Scens[p.scen]
	var r *core.Rng
	if p.canon {
		r = core.NewRng(0, 11, uint64(p.scen))
	} else {
		r = core.NewRng(cfg.Seed, 11, uint64(i))
	}
	inst := sc.gen(r, p.canon)
	if !sc.std && inst.files == nil {
		for _, pr := range inst.progs {
			if strings.Contains(pr.src, "//") {
				panic("c11: scenario " + sc.name + " must not use the // library: " + pr.src)
			}
		}
	}
	G := 8
	if !p.canon {
		G = []int{4, 6, 8}[r.Intn(3)]
	}
	rounds := cfg.Pick(3, 16)
	switch {
	case sc.class == "W4":
		rounds = cfg.Pick(2, 6)
		G = cfg.Pick(4, 6)
	case sc.std:
		rounds = cfg.Pick(2, 6)
	case inst.freshExpr > 0:
		rounds = cfg.Pick(3, 8)
	}
	d := &c11CaseData{Class: sc.class, Scen: sc.name, Desc: sc.name + " " + inst.key}
	rp := &c11Reporter{scen: sc.name, seen: map[string]bool{}}
	for k := 0; k < rounds; k++ {
		c11Round(&inst, G, r, d, rp, k, sc.class == "W4")
	}
	res := core.CaseResult{Key: sc.name + "|" + inst.key + fmt.Sprint("|G", G), NonTrivial: d.OverlapPair > 0, Evals: d.Evals, Viols: rp.viols}
	res.Cover = append(res.Cover, "scen/"+sc.name, "class/"+sc.class, fmt.Sprint("G/", G))
	if d.FanoutEvals > 0 {
		res.Cover = append(res.Cover, "fanout-observed/"+sc.name)
	}
	if p.natural {
		res.Cover = append(res.Cover, "knob-unset/"+sc.name)
	}
	for _, pr := range inst.progs {
		res.SubKeys = append(res.SubKeys, sc.name+"|"+inst.key+"|"+pr.label)
	}
	if p.canon {
		res.Sample = fmt.Sprintf("%s [%s]: %d rounds x %d goroutines over %d programs, e.g. %s", sc.name, inst.key, rounds, G, len(inst.progs), c11Clip(inst.progs[0].src, 120))
	}
	return res, d
}

// ---------------------------------------------------------------------------------------------
// value construction through the Go API (what an embedding host does); every call yields a fresh
// object graph, so lazily cached state (tuple names/bucket, relation indices) is cold.

func c11V(x interface{}) rel.Value {
	switch v := x.(type) {
	case rel.Value:
		return v
	case int:
		return rel.NewNumber(float64(v))
	case string:
		return rel.NewString([]rune(v))
	}
	panic(fmt.Sprintf("c11V: %T", x))
}

// c11Tup builds a tuple from name, value pairs.
func c11Tup(kv ...interface{}) rel.Value {
	attrs := make([]rel.Attr, 0, len(kv)/2)
	for i := 0; i+1 < len(kv); i += 2 {
		attrs = append(attrs, rel.NewAttr(kv[i].(string), c11V(kv[i+1])))
	}
	return rel.NewTuple(attrs...)
}

func c11Vals(xs []interface{}) []rel.Value {
	out := make([]rel.Value, len(xs))
	for i, x := range xs {
		out[i] = c11V(x)
	}
	return out
}

func c11SetOf(xs ...interface{}) rel.Value { return rel.MustNewSet(c11Vals(xs)...) }
func c11Arr(xs ...interface{}) rel.Value   { return rel.NewArray(c11Vals(xs)...) }

func c11Dict(kv ...interface{}) rel.Value {
	var es []rel.DictEntryTuple
	for i := 0; i+1 < len(kv); i += 2 {
		es = append(es, rel.NewDictEntryTuple(c11V(kv[i]), c11V(kv[i+1])))
	}
	return rel.MustNewDict(false, es...)
}

func c11SetBy(ids []int, f func(i int) interface{}) rel.Value {
	vs := make([]rel.Value, len(ids))
	for k, i := range ids {
		vs[k] = c11V(f(i))
	}
	return rel.MustNewSet(vs...)
}

func c11Range(lo, n int) []int {
	out := make([]int, n)
	for i := range out {
		out[i] = lo + i
	}
	return out
}

func c11Rev(xs []int) []int {
	out := make([]int, len(xs))
	for i, x := range xs {
		out[len(xs)-1-i] = x
	}
	return out
}

type c11Prev = map[string]rel.Value

func c11B(name string, mk func() rel.Value) c11Bind {
	return c11Bind{name: name, mk: func(c11Prev) rel.Value { return mk() }}
}

func c11P(label, src string) c11Prog  { return c11Prog{label: label, src: src} }
func c11PE(label, src string) c11Prog { return c11Prog{label: label, src: src, errText: true} }
func c11PP(label, src, kind string) c11Prog {
	return c11Prog{label: label, src: src, probe: kind, errText: true}
}

func c11Size(r *core.Rng, canon bool, c, lo, hi int) int {
	if canon {
		return c
	}
	return r.Range(lo, hi)
}

func c11TupleBinds(k int, mixed bool) (binds []c11Bind, names []string) {
	for i := 0; i < k; i++ {
		i := i
		name := fmt.Sprintf("t%d", i)
		names = append(names, name)
		binds = append(binds, c11B(name, func() rel.Value {
			kv := []interface{}{"a", i % 3, "b", fmt.Sprintf("s%d", i), "c", c11Tup("d", i*2, "e", c11SetOf(i, i+1), "f", c11Tup("g", i))}
			if mixed && i%2 == 1 {
				kv = append(kv, fmt.Sprintf("x%d", i%3), i)
			}
			return c11Tup(kv...)
		}))
	}
	binds = append(binds, c11Bind{name: "T", mk: func(prev c11Prev) rel.Value {
		vs := make([]rel.Value, k)
		for i := range vs {
			vs[i] = prev[names[i]]
		}
		return rel.NewArray(vs...)
	}})
	return binds, names
}

// ---------------------------------------------------------------------------------------------
// scenario table

var c11Scens = []c11Scen{
	{name: "w1-tuples", class: "W1", gen: func(r *core.Rng, canon bool) c11Inst {
		k := c11Size(r, canon, 6, 4, 8)
		mixed := !canon && r.Chance(1, 3)
		in := c11Inst{key: fmt.Sprintf("k=%d mixed=%v", k, mixed), inspect: true}
		var names []string
		in.binds, names = c11TupleBinds(k, mixed)
		_ = names
		in.progs = []c11Prog{
			c11P("dot", `t0.a + t1.a`), c11P("nested-dot", `t2.c.f.g + t3.c.d`), c11P("eq", `t0 = t1`), c11P("eq-self", `t2 = t2`), c11P("lt", `t0 < t1`),
			c11P("set-build", `{t0, t1, t2, t3}`), c11P("set-build-union", `{t0, t1} | {t2, t3}`), c11P("set-where", `{t0, t1, t2, t3} where .a > 0`),
			c11P("join", `{t0, t1} <&> {t2, t3}`), c11P("join-all", `(T => .@item) <&> {t0, t3}`), c11P("merge", `t0 +> t1`), c11P("merge-lit", `t1 +> (zz: 1)`),
			c11P("project", `t2.|a, b|`), c11P("project-except", `t3.~|a|`), c11P("arr-map", `T >> .a`), c11P("arr-to-set", `T => .@item`),
			c11P("nested-set", `T => .@item.c`), c11P("pattern", `let (a: x, ...) = t3; x`), c11P("nest", `{t0, t2} nest |b, c|g`), c11P("set-of-sets", `{{t0, t1}, {t1, t2}, {t0, t1}}`),
			c11P("rank", `{t0, t1, t2} rank (n: .b)`), c11P("orderby", `(T => .@item) orderby .b`), c11P("nested-eq", `t0.c = t1.c`), c11P("tuple-in-tuple", `(k: t0, l: t1.c).k.c.f`),
		}
		return in
	}},
	{name: "w1-relation", class: "W1", gen: func(r *core.Rng, canon bool) c11Inst {
		n := c11Size(r, canon, 12, 6, 20)
		in := c11Inst{key: fmt.Sprintf("n=%d", n), inspect: true}
		in.binds = []c11Bind{
			c11B("r", func() rel.Value {
				return c11SetBy(c11Range(0, n), func(i int) interface{} { return c11Tup("a", i%4, "b", i%3, "c", i) })
			}),
			c11B("s", func() rel.Value {
				return c11SetBy(c11Range(0, 5), func(i int) interface{} { return c11Tup("b", i%3, "d", i*10) })
			}),
			c11B("q", func() rel.Value {
				return c11SetBy(c11Range(0, n), func(i int) interface{} { return c11Tup("c", i, "e", fmt.Sprintf("e%d", i%2)) })
			}),
		}
		in.progs = []c11Prog{
			c11P("join", `r <&> s`), c11P("join-self", `r <&> r`), c11P("join-rev", `s <&> r`), c11P("join3", `(r <&> s) <&> q`), c11P("join-proj", `r -&- s`),
			c11P("join-exists", `r --- s`), c11P("join-right", `r -&> s`), c11P("join-left", `r <&- s`), c11P("compose", `r <-> s`), c11P("compose2", `r <-> q`),
			c11P("eq", `r = r`), c11P("where", `r where .a = 1`), c11P("map", `r => .a`), c11P("map-tuple", `r => (:.a, x: .b + .c)`), c11P("nest", `r nest |b, c|bc`),
			c11P("orderby", `r orderby .c`), c11P("rank", `r rank (n: .c)`), c11P("count", `r count`), c11P("union", `r | s`), c11P("inter", `r & r`),
			c11P("diff", `r - (r where .a = 1)`), c11P("pattern-map", `r => \(a: x, ...) x`), c11P("sum", `r sum .c`), c11P("with", `r with (a: 9, b: 9, c: 99)`),
			c11P("has", `(a: 1, b: 1, c: 1) <: r`),
		}
		return in
	}},
	{name: "w1-dict", class: "W1", gen: func(r *core.Rng, canon bool) c11Inst {
		n := c11Size(r, canon, 6, 3, 12)
		in := c11Inst{key: fmt.Sprintf("n=%d", n), inspect: true}
		in.binds = []c11Bind{
			c11B("d", func() rel.Value {
				kv := []interface{}{}
				for i := 0; i < n; i++ {
					kv = append(kv, fmt.Sprintf("k%d", i), i)
				}
				kv = append(kv, "n", c11Dict("x", c11Arr(1, 2, c11Tup("y", 3))), 3, 4, c11Tup("a", 1), 5)
				return c11Dict(kv...)
			}),
			c11B("d2", func() rel.Value {
				kv := []interface{}{}
				for i := n / 2; i < n+n/2; i++ {
					kv = append(kv, fmt.Sprintf("k%d", i), i)
				}
				return c11Dict(kv...)
			}),
		}
		in.progs = []c11Prog{
			c11P("call", `d("k0") + d(3)`), c11P("call-nested", `d("n")("x")(2).y`), c11P("call-tuple-key", `d((a: 1))`), c11P("merge", `d +> d2`), c11P("map-values", `d2 >> . + 1`),
			c11P("keys", `d => .@`), c11P("where", `d where .@ != 3`), c11P("eq", `d = d2`), c11P("union", `d | d2`), c11P("count", `d count`),
			c11P("inter", `d & (d | d2)`), c11P("orderby", `d2 orderby .@`), c11P("without", `d without (@: 3, @value: 4)`), c11P("dict-of-dict", `{"p": d, "q": d2}("p")("k1")`),
		}
		return in
	}},
	{name: "w1-closure", class: "W1", gen: func(r *core.Rng, canon bool) c11Inst {
		k := c11Size(r, canon, 3, 1, 9)
		in := c11Inst{key: fmt.Sprintf("k=%d", k), inspect: true}
		in.binds = []c11Bind{
			c11B("k", func() rel.Value { return c11V(k) }),
			{name: "f", src: `let kk = k; \x x * 2 + kk`},
			{name: "g", src: `\(a: x, ...) x + 1`},
			{name: "fact", src: `let rec fact = \n cond {n < 2: 1, _: n * fact(n - 1)}; fact`},
			{name: "h", src: `\x \y x + y`},
			c11B("xs", func() rel.Value { return c11Arr(1, 2, 3, 4, 5, 6) }),
			{name: "m", src: `(inc: \x x + 1, twice: \f \x f(f(x)))`},
		}
		in.progs = []c11Prog{
			c11P("call", `f(3)`), c11P("arr-map", `xs >> f`), c11P("set-map", `{1, 2, 3} => f(.)`), c11P("rec", `fact(6)`), c11P("pattern-call", `g((a: 1, b: 2))`),
			c11P("curry", `h(1)(2)`), c11P("partial", `xs >> h(10)`), c11P("set-of-fn", `{f} count`), c11P("tuple-fn", `m.twice(m.inc)(5)`),
			c11P("where-fn", `{1, 2, 3, 4} where f(.) > 8`), c11P("fn-eq", `f = f`), c11P("compose", `xs >> \x fact(g((a: x)))`),
		}
		return in
	}},
	{name: "w1-seq", class: "W1", gen: func(r *core.Rng, canon bool) c11Inst {
		n := c11Size(r, canon, 3, 1, 6)
		in := c11Inst{key: fmt.Sprintf("n=%d", n), inspect: true}
		in.binds = []c11Bind{
			c11B("s", func() rel.Value { return c11V(strings.Repeat("hello world, hello arr.ai; ", n)) }),
			c11B("a", func() rel.Value { return c11Arr(1, 2, c11Arr(3, 4), "x", c11Tup("k", 1), c11SetOf(5, 6)) }),
			c11B("b", func() rel.Value { return rel.NewBytes([]byte{104, 105, 33}) }),
			c11B("o", func() rel.Value { return rel.NewOffsetArray(3, c11V(5), c11V(6), c11V(7)) }),
			c11B("so", func() rel.Value { return rel.NewOffsetString([]rune("offset"), 2) }),
		}
		in.progs = []c11Prog{
			c11P("concat", `s ++ s`), c11P("arr-map", `a >> .`), c11P("index", `a(2)(0) + a(4).k`), c11P("where", `a where .@ > 1`), c11P("chars", `s => .@char`),
			c11P("bytes-concat", `b ++ b`), c11P("offset-index", `o(3) + o(5)`), c11P("str-eq", `s = s ++ ""`), c11P("arr-eq", `a = a ++ []`), c11P("orderby", `a orderby .@`),
			c11P("str-index", `s(0) + so(2)`), c11P("arr-concat", `a ++ o`), c11P("str-where", `s where .@ < 5`), c11P("count", `(s count) + (a count) + (b count)`),
			c11P("set-of-seqs", `{s, a, b, o, so, s}`), c11P("str-lt", `s < so`),
		}
		return in
	}},
	{name: "w1-mixed", class: "W1", gen: func(r *core.Rng, canon bool) c11Inst {
		n := c11Size(r, canon, 4, 2, 8)
		in := c11Inst{key: fmt.Sprintf("n=%d", n), inspect: true}
		grp := func(i int) []interface{} {
			return []interface{}{i, fmt.Sprintf("s%d", i), c11Tup("a", i), c11Tup("b", i, "c", i+1), c11Arr(i, i+1), c11SetOf(i + 10)}
		}
		in.binds = []c11Bind{
			c11B("m", func() rel.Value {
				var xs []interface{}
				for i := 0; i < n; i++ {
					xs = append(xs, grp(i)...)
				}
				return c11SetOf(append(xs, rel.NewBytes([]byte{1}))...)
			}),
			c11B("m2", func() rel.Value {
				var xs []interface{}
				for i := 0; i < n; i += 2 {
					xs = append(xs, grp(i)[:4]...)
				}
				return c11SetOf(append(xs, 99)...)
			}),
		}
		in.progs = []c11Prog{
			c11P("union", `m | m2`), c11P("inter", `m & m2`), c11P("diff", `m - m2`), c11P("eq", `m = m2`), c11P("eq-self", `m = (m | m)`), c11P("where-eq", `m where . = 1`),
			c11P("count", `m count`), c11P("set-of", `{m, m2, m}`), c11P("with", `m with 5`), c11P("without", `m without 1`), c11P("map", `m => {.}`), c11P("subset", `m2 (<=) m`),
			c11P("where-tuple", `m where . = (a: 2)`), c11P("lt", `m < m2`),
		}
		return in
	}},
	{name: "w1-exprlit", class: "W1", gen: func(r *core.Rng, canon bool) c11Inst {
		in := c11Inst{key: "literals", freshExpr: 2}
		in.binds = []c11Bind{c11B("one", func() rel.Value { return c11V(1) })}
		rl := `{(a: 0, b: 0), (a: 1, b: 1), (a: 2, b: 2), (a: 3, b: 0), (a: 4, b: 1)}`
		sl := `{(b: 0, c: 0), (b: 1, c: 7), (b: 2, c: 14)}`
		in.progs = []c11Prog{
			c11P("lit-join", rl+` <&> `+sl), c11P("lit-nest", rl+` nest |a|g`), c11P("lit-dot", `(a: 1, b: (c: 2, d: (e: 3))).b.d.e + one`),
			c11P("lit-eq", `{(a: 1, b: 2)} = {(b: 2, a: 1)}`), c11P("lit-dict", `{"a": 1, "b": {"c": 2}}("b")("c")`), c11P("lit-arr", `[1, 2, 3] >> . + one`),
			c11P("lit-where", `{0, 1, 2, 3, 4} where . > 1`), c11P("lit-let-fn", `let f = \x x * 2; {0, 1, 2, 3} => f(.)`), c11P("lit-orderby", rl+` orderby .b`),
			c11P("lit-compose", rl+` <-> `+sl), c11P("lit-set-of-tuples", `{(a: 1, b: 2), (a: 1, c: 3), (x: (y: 1))} | {(a: 1, b: 2)}`), c11P("lit-tuple-set", `{(a: 1, b: (c: 2))} where .b.c = 2`),
		}
		return in
	}},
	// ---- W3: fan-out (FROZEN_CONCURRENCY=0) ----
	{name: "w3-numset", class: "W3", gen: func(r *core.Rng, canon bool) c11Inst {
		n := c11Size(r, canon, 40, 24, 64)
		in := c11Inst{key: fmt.Sprintf("n=%d", n), nIDs: 2 * n, inspect: true}
		ident := func(i int) interface{} { return i }
		in.binds = []c11Bind{
			c11B("N", func() rel.Value { return c11SetBy(c11Range(0, n), ident) }),
			c11B("N2", func() rel.Value { return c11SetBy(c11Range(n/2, n), ident) }),
			c11B("N3", func() rel.Value { return c11SetBy(c11Rev(c11Range(0, n)), ident) }),
			c11B("half", func() rel.Value { return c11V(n / 2) }),
		}
		in.progs = []c11Prog{
			c11P("where-ok", `N where . % 2 = 0`), c11PP("where-probe", `N where p(.)`, "pred"), c11PE("where-fail", `N where .a`), c11PP("where-probe-fail", `N where p(.)`, "perr"),
			c11PE("where-fail-some", `N where (. < half || .a)`), c11P("map", `N => . * 2`), c11PE("map-fail", `N => .a`), c11PP("map-probe", `N => p(.)`, "pmap"),
			c11P("inter", `N & N2`), c11P("diff", `N - N2`), c11P("union", `N | N2`), c11P("eq-true", `N = N3`), c11P("eq-false", `N = N2`), c11P("subset", `N2 (<=) N`),
			c11P("orderby", `N orderby .`), c11P("count-where", `(N where . > 3) count`), c11P("nested-where", `N where \x (N2 where \y y = x)`), c11P("sum", `N sum .`),
		}
		return in
	}},
	{name: "w3-relation", class: "W3", gen: func(r *core.Rng, canon bool) c11Inst {
		n := c11Size(r, canon, 36, 24, 64)
		in := c11Inst{key: fmt.Sprintf("n=%d", n), nIDs: n, inspect: true}
		row := func(i int) interface{} { return c11Tup("id", i, "a", i%5, "b", i*2) }
		in.binds = []c11Bind{
			c11B("R", func() rel.Value { return c11SetBy(c11Range(0, n), row) }),
			c11B("R3", func() rel.Value { return c11SetBy(c11Rev(c11Range(0, n)), row) }),
			c11B("R2", func() rel.Value {
				return c11SetBy(c11Range(0, 12), func(j int) interface{} { return c11Tup("a", j, "c", j*10) })
			}),
		}
		in.progs = []c11Prog{
			c11P("where-ok", `R where .a > 2`), c11PE("where-fail", `R where .zz`), c11PP("where-probe", `R where p(.id)`, "pred"), c11PP("where-probe-fail", `R where p(.id)`, "perr"),
			c11P("join", `R <&> R2`), c11P("join-left", `R <&- R2`), c11P("join-right", `R -&> R2`), c11P("compose", `R <-> R2`), c11P("join-self", `R <&> R3`),
			c11P("eq", `R = R3`), c11P("inter", `R & R3`), c11P("diff", `R - (R where .a = 1)`), c11P("union", `R | R2`), c11P("map", `R => .a`),
			c11P("map-tuple", `R => (:.id, x: .a + .b)`), c11P("nest", `R nest |id, b|g`), c11P("orderby", `R orderby .id`), c11PE("map-fail", `R => .zz`),
		}
		return in
	}},
	{name: "w3-nested-tuples", class: "W3", gen: func(r *core.Rng, canon bool) c11Inst {
		n := c11Size(r, canon, 32, 24, 48)
		in := c11Inst{key: fmt.Sprintf("n=%d", n), nIDs: n, inspect: true}
		row := func(i int) interface{} {
			return c11Tup("id", i, "t", c11Tup("x", i%3, "y", c11Tup("z", i, "w", c11SetOf(i%2))))
		}
		in.binds = []c11Bind{
			c11B("R", func() rel.Value { return c11SetBy(c11Range(0, n), row) }),
			c11B("R3", func() rel.Value { return c11SetBy(c11Rev(c11Range(0, n)), row) }),
		}
		in.progs = []c11Prog{
			c11P("where-nested", `R where .t.x > 0`), c11P("map-nested", `R => .t`), c11P("eq", `R = R3`), c11P("map-eq", `(R => .t) = (R3 => .t)`),
			c11P("where-tuple-eq", `R where .t = (x: 1, y: (z: 4, w: {0}))`), c11PE("where-fail", `R where .t.q`), c11P("map-merge", `R => (.t +> (id: .id))`),
			c11P("inter", `(R => .t) & (R3 => .t)`), c11PP("where-probe", `R where p(.id) && .t.y.z >= 0`, "pred"), c11P("nest", `(R => (:.id, x: .t.x)) nest |id|ids`),
			c11P("set-of-nested", `R => {.t, .t.y}`), c11P("join-on-tuple", `(R => (:.t, :.id)) <&> (R3 => (:.t, j: .id))`),
		}
		return in
	}},
	{name: "w3-mixed", class: "W3", gen: func(r *core.Rng, canon bool) c11Inst {
		n := c11Size(r, canon, 16, 12, 24)
		in := c11Inst{key: fmt.Sprintf("n=%d", n), nIDs: n, inspect: true}
		mk := func(ids []int) func() rel.Value {
			return func() rel.Value {
				var xs []interface{}
				for _, i := range ids {
					xs = append(xs, i, fmt.Sprintf("s%d", i), c11Tup("a", i), c11Tup("b", i, "c", i+1))
				}
				return c11SetOf(xs...)
			}
		}
		in.binds = []c11Bind{c11B("M", mk(c11Range(0, n))), c11B("M2", mk(c11Range(n/2, n))), c11B("M3", mk(c11Rev(c11Range(0, n)))),
			c11B("N", func() rel.Value { return c11SetBy(c11Range(0, n+8), func(i int) interface{} { return i }) })}
		in.progs = []c11Prog{
			c11P("union", `M | N`), c11P("inter", `M & M2`), c11P("diff", `M - M2`), c11P("eq-true", `M = M3`), c11P("eq-false", `M = M2`), c11P("where-eq", `M where . = 3`),
			c11P("where-fail-mixed", `M where .a`), c11P("count", `M count`), c11P("inter-num", `M & N`), c11P("subset", `M2 (<=) M`), c11P("map", `M => {.}`),
			c11P("where-tuple", `M where . = (a: 3)`),
		}
		return in
	}},
	{name: "w3-dict", class: "W3", gen: func(r *core.Rng, canon bool) c11Inst {
		n := c11Size(r, canon, 32, 24, 48)
		in := c11Inst{key: fmt.Sprintf("n=%d", n), nIDs: 2 * n, inspect: true}
		mk := func(ids []int) func() rel.Value {
			return func() rel.Value {
				var kv []interface{}
				for _, i := range ids {
					kv = append(kv, i, i*10)
				}
				return c11Dict(kv...)
			}
		}
		in.binds = []c11Bind{c11B("D", mk(c11Range(0, n))), c11B("D2", mk(c11Range(n/2, n))), c11B("D3", mk(c11Rev(c11Range(0, n))))}
		in.progs = []c11Prog{
			c11P("where-ok", `D where .@value > 30`), c11P("map-values", `D >> . + 1`), c11P("merge", `D +> D2`), c11P("eq-true", `D = D3`), c11P("eq-false", `D = D2`),
			c11PE("where-fail", `D where .zz`), c11P("keys", `D => .@`), c11P("call", `D(5)`), c11PP("where-probe", `D where p(.@)`, "pred"), c11PP("where-probe-fail", `D where p(.@)`, "perr"),
			c11P("inter", `D & D3`), c11P("union", `D | D2`), c11P("diff", `D - D2`),
		}
		return in
	}},
	// ---- first-use shards only (after their W2 case) ----
	{name: "w1-stdlib", class: "W1", std: true, gen: func(r *core.Rng, canon bool) c11Inst {
		k := c11Size(r, canon, 4, 2, 6)
		in := c11Inst{key: fmt.Sprintf("k=%d", k), inspect: true}
		in.binds, _ = c11TupleBinds(k, false)
		in.binds = append(in.binds,
			c11B("s", func() rel.Value { return c11V("hello world, hello arr.ai") }),
			c11B("a", func() rel.Value { return c11Arr(1, 2, c11Arr(3, 4), "x") }),
			c11B("d", func() rel.Value { return c11Dict("a", 1, "b", c11Dict("c", 2)) }),
		)
		in.progs = []c11Prog{
			c11P("dict-of", `//dict(t0)`), c11P("repr", `//str.repr(t1)`), c11P("tuple-of", `//tuple(d)`), c11P("fix", `//fn.fix(\f \n cond {n < 2: 1, _: n * f(n - 1)})(5)`),
			c11P("split", `//seq.split(" ", s)`), c11P("upper", `//str.upper(s)`), c11P("sub", `//seq.sub("hello", "bye", s)`), c11P("contains", `//seq.contains("arr", s)`),
			c11P("join", `//seq.join(",", ["a", "b", s])`), c11P("json", `//encoding.json.decode(//encoding.json.encode(a))`), c11P("fmt", `$"${t1}:${s}"`),
			c11P("rel-union", `//rel.union({{t0}, {t1}})`), c11P("eval", `//eval.value("1 + 2")`), c11P("concat", `//seq.concat([a, a])`),
		}
		return in
	}},
	// ---- W4: one shared import cache ----
	{name: "w4-imports", class: "W4", std: true, gen: func(r *core.Rng, canon bool) c11Inst {
		k := c11Size(r, canon, 20, 1, 99)
		in := c11Inst{key: fmt.Sprintf("k=%d", k), perG: 3}
		in.files = c11ImportFiles(k)
		in.progs = []c11Prog{
			c11P("import-a", `//{./a}`), c11P("import-b-c", `//{./b} + //{./c}.v`), c11P("import-root", `//{./a}.x + //{./rootrel}`), c11P("import-missing", `//{./missing}`),
			c11P("import-broken", `//{./broken}`), c11P("import-usebroken", `//{./usebroken}`), c11P("import-json", `//{./c}.w`), c11P("import-yaml", `//{./data.yaml}`),
			c11P("import-names", `//{./sub/names}`), c11P("import-twice", `//{./leaf} | //{./leaf}`),
		}
		return in
	}},
}

func c11ImportFiles(k int) map[string]string {
	return map[string]string{
		"/w/go.mod":              "module w\n",
		"/w/lib/a.arrai":         "(x: //{./c}.v + 1, y: //{./b})",
		"/w/lib/b.arrai":         "//{./c}.v * 2",
		"/w/lib/c.arrai":         fmt.Sprintf("(v: %d, w: //{./data.json})", k),
		"/w/lib/sub/names.arrai": `{"n1"} | //{./deep}`,
		"/w/lib/sub/deep.arrai":  `{"deep"}`,
		"/w/lib/leaf.arrai":      `{"leaf"}`,
		"/w/lib/data.json":       `{"k": [1, 2]}`,
		"/w/lib/data.yaml":       "a: 1\n",
		"/w/lib/broken.arrai":    "(a: ",
		"/w/lib/usebroken.arrai": "(z: //{./leaf}, q: //{./broken})",
		"/w/lib/rootrel.arrai":   "//{/lib/c}.v",
	}
}

// ---------------------------------------------------------------------------------------------
// W2: first use of process-wide lazies

var c11CanaryVar int

//go:noinline
func c11CanaryTouch(k int) { c11CanaryVar += k }

type c11FU struct {
	name string
	run  func(ctx, mem context.Context) string
}

func c11EvalStr(ctx context.Context, path, src string) string {
	return c11OutStr(core.Guard(func() (rel.Value, error) { return syntax.EvalWithScope(ctx, path, src, rel.Scope{}) }), false)
}

func c11ScopeNames(sc rel.Scope) string {
	e, ok := sc.Get("//")
	if !ok {
		return "no //"
	}
	t, ok := e.(rel.Tuple)
	if !ok {
		return fmt.Sprintf("%T", e)
	}
	return strings.Join(t.Names().OrderedNames(), ",")
}

var c11FirstUses = []c11FU{
	{"StdScope", func(ctx, mem context.Context) string {
		return c11Safe(func() string { return c11ScopeNames(syntax.StdScope()) })
	}},
	{"SafeStdScope", func(ctx, mem context.Context) string {
		return c11Safe(func() string { return c11ScopeNames(syntax.SafeStdScope()) })
	}},
	{"FixFuncs", func(ctx, mem context.Context) string {
		return c11Safe(func() string { f, ft := syntax.FixFuncs(); return f.String() + "|" + ft.String() })
	}},
	{"go-stdlib", func(ctx, mem context.Context) string { return c11EvalStr(ctx, "", `//str.upper("x")`) }},
	{"arrai-stdlib", func(ctx, mem context.Context) string { return c11EvalStr(ctx, "", `//eval.value("1")`) }},
	{"import-json", func(ctx, mem context.Context) string { return c11EvalStr(mem, c11MainPath, `//{./data.json}`) }},
	{"import-yaml", func(ctx, mem context.Context) string { return c11EvalStr(mem, c11MainPath, `//{./data.yaml}`) }},
	{"import-arrai", func(ctx, mem context.Context) string { return c11EvalStr(mem, c11MainPath, `//{./leaf}`) }},
	{"if-deprecated", func(ctx, mem context.Context) string { return c11EvalStr(ctx, "", `1 if true else 2`) }},
	{"os-stdin", func(ctx, mem context.Context) string { return c11EvalStr(ctx, "", `//os.stdin`) }},
	{"deprecated-dot", func(ctx, mem context.Context) string { return c11EvalStr(ctx, "", `{(a: 1)}.a`) }},
	{"empty-values", func(ctx, mem context.Context) string {
		return c11Safe(func() string {
			return fmt.Sprint(rel.EmptyTuple.Names().OrderedNames(), rel.EmptyTuple.String(), rel.None.String(), rel.True.String())
		})
	}},
}

const c11W2PerG = 2

// c11Linger re-reads the process-wide lazies through entry points that are cheap once initialised.
func c11Linger() int {
	_ = syntax.StdScope()
	_ = syntax.SafeStdScope()
	_, _ = syntax.FixFuncs()
	return 3
}

func c11RunFirstUse(cfg *core.Config, i int, first bool) (core.CaseResult, *c11CaseData) {
	const G = 8
	d := &c11CaseData{Class: "W2", Scen: "w2-first-use", FirstUse: first, Goroutines: G, Desc: "first use of process-wide lazies"}
	r := core.NewRng(cfg.Seed, 11, uint64(i), 2)
	ctx := core.Ctx()
	mem := c11MemCtx(c11ImportFiles(20))
	n := len(c11FirstUses)
	// goroutine g starts at entry (off+g) % n so every entry is somebody's very first call across
	// processes; its remaining entries are random.
	off := r.Intn(n)
	orders := make([][]int, G)
	used := map[int]bool{}
	for g := range orders {
		o := []int{(off + g) % n}
		for len(o) < c11W2PerG {
			o = append(o, r.Intn(n))
		}
		for _, j := range o {
			used[j] = true
		}
		orders[g] = o
	}
	results := make([][]string, G)
	t0 := make([]time.Time, G)
	t1 := make([]time.Time, G)
	bar := &c11Barrier{n: G}
	var finished atomic.Int32
	lingerReads := make([]int, G)
	var wg sync.WaitGroup
	for g := 0; g < G; g++ {
		results[g] = make([]string, n)
		wg.Add(1)
		go func(g int) {
			defer wg.Done()
			bar.wait()
			t0[g] = time.Now()
			if g < 2 {
				c11CanaryTouch(g + 1) // deliberate harness-owned race: proves detector + log pipeline are alive
			}
			for _, j := range orders[g] {
				results[g][j] = c11FirstUses[j].run(ctx, mem)
			}
			t1[g] = time.Now()
			// Linger: keep reading the process-wide lazies through their cheap Go entry points
			// until every goroutine has finished its (tens of seconds long) first uses. The race
			// runtime silently drops a report when the older access is too far back in its
			// goroutine's history, so an initialiser finishing on goroutine B must find a *recent*
			// unsynchronised read by goroutine A (or A must read right after B's write). The
			// counter is only incremented after a goroutine's own first uses, so it orders nothing
			// that happened before.
			finished.Add(1)
			for k := 0; ; k++ {
				lingerReads[g] += c11Linger()
				if finished.Load() >= G || k > 2_000_000 {
					break
				}
				time.Sleep(100 * time.Microsecond)
			}
		}(g)
	}
	wg.Wait()
	for g := 0; g < G; g++ {
		d.LingerReads += lingerReads[g] // evidence: cheap re-reads of the lazies while others were still initialising
	}
	d.Rounds = 1
	rp := &c11Reporter{scen: "w2-first-use", seen: map[string]bool{}}
	for g := 0; g < G; g++ {
		for h := g + 1; h < G; h++ {
			d.Pairs++
			if t0[g].Before(t1[h]) && t0[h].Before(t1[g]) {
				d.OverlapPair++
			}
		}
	}
	// serial reference: the same entries evaluated alone afterwards
	for j, fu := range c11FirstUses {
		if !used[j] {
			continue
		}
		a := fu.run(ctx, mem)
		for g := 0; g < G; g++ {
			if results[g][j] == "" {
				continue
			}
			d.Evals++
			d.Compared++
			if results[g][j] != a {
				mode, site := c11Mode(a, results[g][j])
				rp.report(mode, site, fu.name, fmt.Sprintf("first use %s from goroutine %d of %d (process first case: %v): alone = %s ; racing first use = %s", fu.name, g, G, first, c11Show(a), c11Show(results[g][j])),
					map[string]interface{}{"entry": fu.name, "expected": c11Show(a), "observed": c11Show(results[g][j])})
			}
		}
	}
	res := core.CaseResult{Key: fmt.Sprintf("w2|%d", i), NonTrivial: d.OverlapPair > 0 && first, Evals: d.Evals, Viols: rp.viols}
	res.Cover = append(res.Cover, "class/W2", "scen/w2-first-use")
	if first {
		res.Cover = append(res.Cover, "w2/first-case-of-process")
		for g := 0; g < G; g++ {
			res.Cover = append(res.Cover, "w2-first-entry/"+c11FirstUses[orders[g][0]].name)
			res.SubKeys = append(res.SubKeys, fmt.Sprintf("w2|%d|%s", i, c11FirstUses[orders[g][0]].name))
		}
	} else {
		res.Cover = append(res.Cover, "w2/not-first-case-of-process")
	}
	if i == 0 {
		res.Sample = fmt.Sprintf("w2-first-use: %d goroutines race first use of %d process-wide entry points (StdScope, SafeStdScope, FixFuncs, implicit decoders, embedded stdlib, deprecators, //os.stdin) in a fresh worker process, %d entries each", G, n, c11W2PerG)
	}
	return res, d
}

// ---------------------------------------------------------------------------------------------
// W3big: a genuinely large set with the knob unset

func c11RunBig(cfg *core.Config, i int) (core.CaseResult, *c11CaseData) {
	n := 1<<17 + 5000
	d := &c11CaseData{Class: "W3", Scen: "w3-big", BigN: n, Desc: fmt.Sprintf("w3-big n=%d FROZEN_CONCURRENCY=%q", n, os.Getenv("FROZEN_CONCURRENCY"))}
	mkNums := func(lo, n int) func() rel.Value {
		return func() rel.Value {
			sb := rel.NewSetBuilder()
			for k := lo; k < lo+n; k++ {
				sb.Add(rel.NewNumber(float64(k)))
			}
			s, err := sb.Finish()
			if err != nil {
				panic(err)
			}
			return s
		}
	}
	inst := c11Inst{key: fmt.Sprintf("n=%d", n), nIDs: n + n/2}
	inst.binds = []c11Bind{c11B("N", mkNums(0, n)), c11B("N2", mkNums(n/2, n)),
		c11B("R", func() rel.Value {
			sb := rel.NewSetBuilder()
			for k := 0; k < n; k++ {
				sb.Add(rel.NewTuple(rel.NewAttr("id", rel.NewNumber(float64(k))), rel.NewAttr("a", rel.NewNumber(float64(k%7)))))
			}
			s, err := sb.Finish()
			if err != nil {
				panic(err)
			}
			return s
		})}
	// results are counts, not the 10^5-element sets themselves: denoting and printing those costs
	// far more than the operation under test (measured: 24 CPU-minutes for this case otherwise).
	inst.singleRef = true
	inst.progs = []c11Prog{
		c11PP("where-probe", `(N where p(.)) count`, "pred"), c11PP("where-probe-fail", `(N where p(.)) count`, "perr"), c11PE("where-fail", `N where .a`),
		c11P("where-ok", `(N where . % 1024 = 5) count`), c11P("eq-false", `N = N2`),
		c11PE("rel-where-fail", `R where .zz`), c11PP("rel-where-probe-fail", `(R where p(.id)) count`, "perr"),
	}
	rp := &c11Reporter{scen: "w3-big", seen: map[string]bool{}}
	r := core.NewRng(cfg.Seed, 11, uint64(i), 3)
	G := 3
	c11Round(&inst, G, r, d, rp, 0, true)
	res := core.CaseResult{Key: "w3-big|" + inst.key, NonTrivial: d.OverlapPair > 0, Evals: d.Evals, Viols: rp.viols}
	res.Cover = append(res.Cover, "scen/w3-big", "class/W3")
	if d.FanoutEvals > 0 {
		res.Cover = append(res.Cover, "fanout-observed/w3-big")
	}
	res.Sample = fmt.Sprintf("w3-big: %d-element number set and relation with FROZEN_CONCURRENCY unset, %d goroutines, succeeding and failing where-callbacks; probe callbacks seen on up to %d goroutine ids in one evaluation", n, G, d.MaxGoids)
	return res, d
}
