package checks

import (
	"fmt"
	"math"
	"sort"
	"strconv"
	"strings"

	"verif/core"

	"github.com/arr-ai/arrai/rel"
)

// Value universe and construction paths (DESIGN §4.2). Model values are built for collisions
// (same indices / keys across representations); every model value can be realised through
// several construction paths (programs) so that checks quantify over representations the
// evaluator can actually produce.

type MV = core.MV

var (
	num   = core.Num
	mset  = core.Set
	mpair = core.Pair
)

func mtup(kv ...interface{}) MV { return core.T2(kv...) }

func seqOf(payload string, off int, vals ...float64) MV {
	var ms []MV
	for i, v := range vals {
		if math.IsNaN(v) {
			continue // hole
		}
		ms = append(ms, mpair(num(float64(i+off)), payload, num(v)))
	}
	return mset(ms...)
}

var hole = math.NaN()

func relOf(heading []string, rows ...[]float64) MV {
	var ms []MV
	for _, row := range rows {
		m := map[string]MV{}
		for i, n := range heading {
			m[n] = num(row[i])
		}
		ms = append(ms, core.Tup(m))
	}
	return mset(ms...)
}

// coreValues is the seed-independent list of set-valued model values (every shape class,
// collisions at index 0/1 and key 1).
func coreValues() []MV {
	var u []MV
	for _, p := range []string{"@char", "@item", "@byte"} {
		u = append(u,
			seqOf(p, 0, 97),
			seqOf(p, 0, 98),
			seqOf(p, 0, 97, 98),
			seqOf(p, 0, 97, 99),
			seqOf(p, 1, 98),
			seqOf(p, 1, 98, 99),
			seqOf(p, 0, 97, 98, 99),
			seqOf(p, 2, 99, 100),
			seqOf(p, -1, 97, 98),
			seqOf(p, 0, 97, hole, 99),  // holes
			seqOf(p, 1, 98, hole, 100), // offset + holes
			mset(append(seqOf(p, 0, 97).S, seqOf(p, 0, 98).S...)...), // superimposed at 0
			mset(append(seqOf(p, 0, 97, 98).S, seqOf(p, 1, 99).S...)...),
		)
	}
	u = append(u,
		core.MArr(num(1), core.MStr("a")), core.MArr(core.MArr(num(1)), num(2)), core.MArr(mtup("a", num(1))),
		core.MArr(num(1), num(2), num(3)), core.MArr(num(1), num(5), num(3)),
	)
	d := core.MDict
	u = append(u,
		d(num(1), num(2)), d(num(1), num(3)), d(num(1), num(2), num(3), num(4)), d(num(3), num(4)),
		d(num(1), num(2), num(1), num(3)),                 // multi-valued key
		d(num(1), num(2), num(1), num(3), num(3), num(4)), // multi + ordinary
		d(core.MStr("a"), num(1)), d(core.MStr("a"), num(1), core.MStr("b"), num(2)),
		d(core.MStr("a"), num(2)), d(core.MStr("a"), core.MStr("x")),
		d(mtup("k", num(1)), num(1)), d(mset(num(1)), num(2)),
	)
	u = append(u,
		relOf([]string{"a"}, []float64{1}), relOf([]string{"a"}, []float64{1}, []float64{2}),
		relOf([]string{"a"}, []float64{2}, []float64{3}),
		relOf([]string{"a", "b"}, []float64{1, 2}), relOf([]string{"a", "b"}, []float64{1, 2}, []float64{1, 3}),
		relOf([]string{"a", "b"}, []float64{1, 3}, []float64{2, 3}),
		relOf([]string{"b"}, []float64{1}), relOf([]string{"@", "x"}, []float64{0, 1}), relOf([]string{"@"}, []float64{0}),
		relOf([]string{"a", "b", "c"}, []float64{1, 2, 3}, []float64{4, 5, 6}), relOf([]string{"a", "b", "c"}, []float64{1, 2, 3}),
		relOf([]string{"a", "b", "c"}, []float64{1, 2, 3}, []float64{4, 5, 6}, []float64{7, 8, 3}),
		relOf([]string{"@", "x"}, []float64{0, 1}, []float64{1, 1}),
		mset(mtup("a", num(1)), mtup("b", num(1))), // mixed headings
		mset(mtup("a", num(1)), mtup("a", num(1), "b", num(2))),
	)
	u = append(u,
		mset(), mset(mtup()), mset(num(1)), mset(num(1), num(2)), mset(num(2), num(3)), mset(num(1), num(2), num(3)),
		mset(num(2), mset(num(1))), mset(mset()), mset(mset(), mset(mtup())), mset(num(0.5), num(-1)),
		mset(num(1), mtup("a", num(1))), mset(num(1), mpair(num(0), "@char", num(97))),
		mset(mtup(), num(1)), mset(mpair(num(0), "@char", num(97)), mpair(num(0), "@item", num(1))),
		mset(mpair(num(0), "@char", num(97)), mpair(num(1), "@item", num(1)), num(7)),
		mset(mtup("a", num(1)), mpair(num(0), "@item", num(1))),
		mset(core.MStr("ab"), core.MStr("a")), mset(core.MStr("a"), core.MArr(num(97))),
		mset(mpair(num(0), "@value", num(1)), mpair(num(0), "@item", num(1))),
	)
	return u
}

// randValue draws a set-valued model value; clean=true keeps it hazard-free.
func randValue(r *core.Rng, clean bool, depth int) MV {
	leaf := func() MV {
		switch r.Intn(8) {
		case 0:
			return mtup("a", num(float64(r.Intn(3))))
		case 1:
			return core.MStr(string(rune('a' + r.Intn(3))))
		case 2:
			if depth > 0 {
				return randValue(r, clean, depth-1)
			}
		}
		return num(float64(r.Range(0, 3)))
	}
	n := r.Range(0, 4)
	switch r.Intn(9) {
	case 0, 1: // sequence
		p := core.Pick(r, []string{"@char", "@item", "@byte"})
		off := 0
		if !clean && r.Chance(1, 3) {
			off = r.Range(-2, 3)
		}
		var ms []MV
		for i := 0; i < n; i++ {
			var pv MV
			if p == "@item" {
				pv = leaf()
			} else {
				pv = num(float64(97 + r.Intn(3)))
			}
			if !clean && r.Chance(1, 6) {
				continue // hole
			}
			ms = append(ms, mpair(num(float64(i+off)), p, pv))
			if !clean && r.Chance(1, 8) {
				ms = append(ms, mpair(num(float64(i+off)), p, num(float64(100+r.Intn(2)))))
			}
		}
		return mset(ms...)
	case 2: // dict
		var ms []MV
		for i := 0; i < n; i++ {
			var k MV
			if clean || r.Chance(2, 3) {
				k = core.MStr(string(rune('a' + i)))
			} else {
				k = num(float64(r.Intn(3)))
			}
			ms = append(ms, mpair(k, "@value", leaf()))
			if !clean && r.Chance(1, 6) {
				ms = append(ms, mpair(k, "@value", leaf()))
			}
		}
		return mset(ms...)
	case 3, 4: // relation
		hs := core.Pick(r, [][]string{{"a"}, {"a", "b"}, {"b", "c"}, {"a", "b", "c"}, {"x"}})
		var ms []MV
		for i := 0; i < n; i++ {
			m := map[string]MV{}
			for _, h := range hs {
				m[h] = num(float64(r.Intn(3)))
			}
			ms = append(ms, core.Tup(m))
		}
		if !clean && r.Chance(1, 5) {
			ms = append(ms, mtup("z", num(1)))
		}
		return mset(ms...)
	case 5: // mixed
		if clean {
			var ms []MV
			for i := 0; i < n; i++ {
				ms = append(ms, num(float64(r.Intn(5))))
			}
			return mset(ms...)
		}
		a, b := randValue(r, false, 0), randValue(r, false, 0)
		return mset(append(append([]MV{}, a.S...), b.S...)...)
	default: // plain set of leaves (numbers only or sets) — single bucket when clean
		var ms []MV
		kind := r.Intn(3)
		for i := 0; i < n; i++ {
			switch {
			case kind == 0 || !clean && r.Chance(1, 3):
				ms = append(ms, num(float64(r.Intn(5))))
			case kind == 1:
				ms = append(ms, mset(num(float64(r.Intn(3)))))
			default:
				ms = append(ms, mtup("a", num(float64(r.Intn(3))), "b", num(float64(r.Intn(2)))))
			}
		}
		return mset(ms...)
	}
}

// ---------------------------------------------------------------------------------------------
// sugar rendering

func strLit(rs []rune) string {
	var sb strings.Builder
	sb.WriteByte('"')
	for _, c := range rs {
		switch {
		case c == '"' || c == '\\':
			sb.WriteByte('\\')
			sb.WriteRune(c)
		case c < 32 || c == 127:
			return "" // not rendered as sugar here
		default:
			sb.WriteRune(c)
		}
	}
	sb.WriteByte('"')
	return sb.String()
}

// sugarSrc renders m with sugar where the shape allows. deep=true also sugars nested values.
func sugarSrc(m MV) (string, bool) {
	switch m.K {
	case 'n':
		return core.Src(m), true
	case 't':
		if len(m.T) == 0 {
			return "()", true
		}
		ks := make([]string, 0, len(m.T))
		for k := range m.T {
			ks = append(ks, k)
		}
		sort.Strings(ks)
		parts := []string{}
		for _, k := range ks {
			s, _ := sugarSrc(m.T[k])
			parts = append(parts, core.AttrName(k)+": "+s)
		}
		return "(" + strings.Join(parts, ", ") + ")", true
	case 'f':
		return "(\\x x)", false
	}
	cls := core.Classify(m)
	base := cls
	if i := strings.IndexByte(cls, '+'); i >= 0 {
		base = cls[:i]
	}
	if strings.Contains(cls, "+super") {
		return core.Src(m), false
	}
	switch base {
	case "empty":
		return "{}", true
	case "true":
		return "true", true
	case "str", "bytes":
		payload := map[string]string{"str": "@char", "bytes": "@byte"}[base]
		si := core.SeqShape(m, payload)
		if si.Holes || si.NonInt {
			return core.Src(m), false
		}
		vals := make([]float64, si.N)
		for _, e := range m.S {
			pv := e.T[payload]
			if pv.K != 'n' || pv.N != math.Trunc(pv.N) || pv.N < 0 || (base == "bytes" && pv.N > 255) || pv.N > 0x10ffff {
				return core.Src(m), false
			}
			vals[int(e.T["@"].N)-si.Lo] = pv.N
		}
		var body string
		if base == "str" {
			rs := make([]rune, len(vals))
			for i, v := range vals {
				rs[i] = rune(v)
			}
			body = strLit(rs)
			if body == "" {
				return core.Src(m), false
			}
		} else {
			ps := make([]string, len(vals))
			for i, v := range vals {
				ps[i] = strconv.Itoa(int(v))
			}
			body = "<<" + strings.Join(ps, ", ") + ">>"
		}
		if si.Lo != 0 {
			return fmt.Sprintf("(%d\\%s)", si.Lo, body), true
		}
		return body, true
	case "arr":
		si := core.SeqShape(m, "@item")
		if si.NonInt {
			return core.Src(m), false
		}
		items := make([]string, si.Hi-si.Lo+1)
		for _, e := range m.S {
			s, _ := sugarSrc(e.T["@item"])
			items[int(e.T["@"].N)-si.Lo] = s
		}
		body := "[" + strings.Join(items, ", ") + "]"
		if si.Lo != 0 {
			return fmt.Sprintf("(%d\\%s)", si.Lo, body), true
		}
		return body, true
	case "dict":
		if cls != "dict" {
			return core.Src(m), false
		}
		parts := []string{}
		for _, e := range m.S {
			k, _ := sugarSrc(e.T["@"])
			v, _ := sugarSrc(e.T["@value"])
			parts = append(parts, k+": "+v)
		}
		return "{" + strings.Join(parts, ", ") + "}", true
	case "rel":
		if s, ok := relLiteral(m, false); ok {
			return s, true
		}
	}
	// generic set with sugared members
	parts := []string{}
	for _, e := range m.S {
		s, _ := sugarSrc(e)
		parts = append(parts, s)
	}
	return "{" + strings.Join(parts, ", ") + "}", false
}

// relLiteral renders {|a,b| (1,2), ...}; reversed flips the column order.
func relLiteral(m MV, reversed bool) (string, bool) {
	if m.K != 's' || len(m.S) == 0 {
		return "", false
	}
	var hs []string
	for i, e := range m.S {
		if e.K != 't' || len(e.T) == 0 {
			return "", false
		}
		h := core.Heading(e)
		if i == 0 {
			for k := range e.T {
				if !simpleIdent(k) {
					return "", false
				}
				hs = append(hs, k)
			}
			sort.Strings(hs)
		} else if h != strings.Join(hs, ",") {
			return "", false
		}
	}
	if reversed {
		for i, j := 0, len(hs)-1; i < j; i, j = i+1, j-1 {
			hs[i], hs[j] = hs[j], hs[i]
		}
	}
	rows := []string{}
	for _, e := range m.S {
		cells := []string{}
		for _, h := range hs {
			cells = append(cells, core.Src(e.T[h]))
		}
		rows = append(rows, "("+strings.Join(cells, ", ")+")")
	}
	return "{|" + strings.Join(hs, ", ") + "| " + strings.Join(rows, ", ") + "}", true
}

func simpleIdent(k string) bool {
	if k == "" {
		return false
	}
	for i, r := range k {
		if !(r == '_' || r == '@' || r >= 'a' && r <= 'z' || r >= 'A' && r <= 'Z' || i > 0 && r >= '0' && r <= '9') {
			return false
		}
	}
	return core.AttrName(k) == k
}

// ---------------------------------------------------------------------------------------------
// construction paths

type Path struct {
	Kind string
	Src  string
}

// pathsFor lists programs that, by the language definition, evaluate to m.
func pathsFor(m MV) []Path {
	ps := []Path{{"spelled", core.Src(m)}}
	if m.K != 's' {
		if m.K == 't' && len(m.T) >= 2 {
			ks := make([]string, 0, len(m.T))
			for k := range m.T {
				ks = append(ks, k)
			}
			sort.Strings(ks)
			a, b := map[string]MV{}, map[string]MV{}
			for i, k := range ks {
				if i == 0 {
					a[k] = m.T[k]
				} else {
					b[k] = m.T[k]
				}
			}
			ps = append(ps, Path{"+>", core.Src(core.Tup(a)) + " +> " + core.Src(core.Tup(b))})
		}
		if m.K == 'n' {
			ps = append(ps, Path{"arith", fmt.Sprintf("(%s + 1 - 1)", core.Src(m))})
		}
		return ps
	}
	if s, ok := sugarSrc(m); ok && s != core.Src(m) {
		ps = append(ps, Path{"sugar", s})
	}
	if s, ok := relLiteral(m, false); ok {
		ps = append(ps, Path{"rel-literal", s})
		if r, ok := relLiteral(m, true); ok && r != s {
			ps = append(ps, Path{"rel-literal-rev", r})
		}
	}
	if _, ok := relLiteral(m, false); ok && len(m.S) > 0 && len(m.S[0].T) >= 3 {
		// join-built: joining the projection onto all-but-the-first attribute with the projection onto
		// the first two gives (when that decomposition is lossless) the same relation with an UNSORTED
		// internal column order (h2.., then h1) - only joins produce that layout
		hs := strings.Split(core.Heading(m.S[0]), ",")
		proj := func(names []string) MV {
			var rows []MV
			for _, e := range m.S {
				t := map[string]MV{}
				for _, n := range names {
					t[n] = e.T[n]
				}
				rows = append(rows, core.Tup(t))
			}
			return mset(rows...)
		}
		l, r := proj(hs[1:]), proj(hs[:2])
		var joined []MV
		for _, x := range l.S {
			for _, y := range r.S {
				if x.T[hs[1]].Enc == y.T[hs[1]].Enc {
					t := map[string]MV{hs[0]: y.T[hs[0]]}
					for k, v := range x.T {
						t[k] = v
					}
					joined = append(joined, core.Tup(t))
				}
			}
		}
		if mset(joined...).Enc == m.Enc {
			ll, _ := relLiteral(l, false)
			rl, _ := relLiteral(r, false)
			ps = append(ps, Path{"join-reorder", "(" + ll + " <&> " + rl + ")"})
		}
	}
	n := len(m.S)
	if n >= 2 {
		a, b := mset(m.S[:n/2]...), mset(m.S[n/2:]...)
		ps = append(ps, Path{"union", "(" + core.Src(a) + " | " + core.Src(b) + ")"})
		// overlapping union
		c := mset(m.S[:n/2+1]...)
		ps = append(ps, Path{"union-overlap", "(" + core.Src(c) + " | " + core.Src(b) + ")"})
	}
	if n >= 1 {
		w := "{}"
		for _, e := range m.S {
			w = "(" + w + " with " + core.Src(e) + ")"
		}
		ps = append(ps, Path{"with-chain", w})
		extra := num(424242)
		ps = append(ps, Path{"without", "(" + core.Src(mset(append(append([]MV{}, m.S...), extra)...)) + " without " + core.Src(extra) + ")"})
		ps = append(ps, Path{"where-true", "(" + core.Src(m) + " where true)"})
		ps = append(ps, Path{"map-id", "(" + core.Src(m) + " => .)"})
		ps = append(ps, Path{"diff", "(" + core.Src(mset(append(append([]MV{}, m.S...), num(424242), num(424243))...)) + " &~ {424242, 424243})"})
		ps = append(ps, Path{"intersect", "(" + core.Src(mset(append(append([]MV{}, m.S...), num(424242))...)) + " & " + core.Src(mset(append(append([]MV{}, m.S...), num(424243))...)) + ")"})
	}
	// sequence-specific paths
	cls := core.Classify(m)
	if cls == "str" || cls == "arr" || cls == "bytes" {
		payload := map[string]string{"str": "@char", "arr": "@item", "bytes": "@byte"}[cls]
		if n >= 2 {
			// concatenation a ++ b of sugared halves
			var first, second []MV
			for _, e := range m.S {
				if int(e.T["@"].N) < n/2 {
					first = append(first, e)
				} else {
					second = append(second, mpair(num(e.T["@"].N-float64(n/2)), payload, e.T[payload]))
				}
			}
			fs, ok1 := sugarSrc(mset(first...))
			ss, ok2 := sugarSrc(mset(second...))
			if ok1 && ok2 {
				ps = append(ps, Path{"concat", "(" + fs + " ++ " + ss + ")"})
			}
		}
		// offset there and back
		if s, ok := sugarSrc(m); ok {
			ps = append(ps, Path{"offset-roundtrip", "(-2\\(2\\" + s + "))"})
			if cls != "bytes" {
				ps = append(ps, Path{"seqmap-id", "(" + s + " >> .)"})
			}
		}
		// @-keyed relation literal
		var rows []string
		for _, e := range m.S {
			rows = append(rows, "("+core.Src(e.T["@"])+", "+core.Src(e.T[payload])+")")
		}
		ps = append(ps, Path{"at-rel-literal", "{|@, " + payload + "| " + strings.Join(rows, ", ") + "}"})
		// tuples built by merge
		var tps []string
		for _, e := range m.S {
			tps = append(tps, "((@: "+core.Src(e.T["@"])+") +> ("+payload+": "+core.Src(e.T[payload])+"))")
		}
		ps = append(ps, Path{"merge-tuples", "{" + strings.Join(tps, ", ") + "}"})
	}
	if cls == "dict" {
		if s, ok := sugarSrc(m); ok && n >= 2 {
			_ = s
			a, _ := sugarSrc(mset(m.S[:n/2]...))
			b, _ := sugarSrc(mset(m.S[n/2:]...))
			ps = append(ps, Path{"dict-union", "(" + a + " | " + b + ")"})
			ps = append(ps, Path{"dict-merge", "(" + a + " +> " + b + ")"})
		}
	}
	return ps
}

var builtCache = map[string]core.Outcome{}

// build evaluates a construction program once per process.
func build(src string) core.Outcome {
	if o, ok := builtCache[src]; ok {
		return o
	}
	o := core.EvalSrc(src)
	builtCache[src] = o
	return o
}

// Operand is a live value with its intended and actual denotation.
type Operand struct {
	Want   MV
	Got    MV
	Val    rel.Value
	Path   Path
	OK     bool
	GoType string
}

func mkOperand(m MV, p Path) (Operand, core.Outcome) {
	o := build(p.Src)
	op := Operand{Want: m, Path: p}
	if !o.OK() {
		return op, o
	}
	d, pi := core.SafeDenote(o.Val)
	if pi != nil {
		return op, core.Outcome{Panic: pi}
	}
	op.Got, op.Val, op.OK, op.GoType = d, o.Val, true, core.TypeName(o.Val)
	return op, o
}

// diffDelta describes how got differs from want in model terms and attributes the difference
// to hazards carried by the differing members themselves (DESIGN §5.2 "delta").
func diffDelta(got, want MV) (mode, delta string) {
	if got.K != 's' || want.K != 's' {
		return "altered", "kind"
	}
	var missing, extra []MV
	for _, e := range want.S {
		if !got.Has(e) {
			missing = append(missing, e)
		}
	}
	for _, e := range got.S {
		if !want.Has(e) {
			extra = append(extra, e)
		}
	}
	switch {
	case len(missing) > 0 && len(extra) == 0:
		mode = "missing-members"
	case len(extra) > 0 && len(missing) == 0:
		mode = "extra-members"
	default:
		mode = "altered-members"
	}
	// attribution: hazards of the set formed by the differing members TOGETHER WITH the members
	// of want that share their index/key (so "the other value of a multi-valued key" attributes).
	inv := append(append([]MV{}, missing...), extra...)
	keys := map[string]bool{}
	for _, e := range inv {
		if e.K == 't' {
			if at, ok := e.T["@"]; ok {
				keys[at.Enc] = true
			}
		}
	}
	ctx := append([]MV{}, inv...)
	for _, e := range append(append([]MV{}, want.S...), got.S...) {
		if e.K == 't' {
			if at, ok := e.T["@"]; ok && keys[at.Enc] {
				ctx = append(ctx, e)
			}
		}
	}
	hz := core.HazardList(mset(ctx...))
	var top []string
	for _, h := range hz {
		if strings.HasPrefix(h, "seq-super") || h == "dict-multi" || strings.HasPrefix(h, "seq-sparse") || strings.HasPrefix(h, "seq-holes") {
			top = append(top, h)
		}
	}
	if len(top) == 0 {
		return mode, "plain"
	}
	return mode, strings.Join(top, "+")
}
