package checks

import (
	"encoding/json"
	"fmt"

	"verif/core"
)

// C15: a bundle evaluates exactly like its sources and reads nothing else.
//
// Oracle (differential + recorded file access, DESIGN §7 C15):
//  (i)   value/failure of the main file evaluated from the source tree == value/failure of
//        `bundle` -> bytes -> run, with the sources present, with the sources deleted, from three
//        working directories;
//  (ii)  during a bundle run the host filesystems (source fs, runtime fs, ctxfs default fs) are
//        recorders and must see no operation at all;
//  (iii) archive audit: every file (and every module root sentinel) the source evaluation used
//        has a copy in the archive, and the bundle run opened exactly that entry;
//  (iv)  the same with the real `arrai` binaries on a real directory, bundle runs under strace:
//        no path lookup under the (former) source directory, no go.mod lookup, no
//        archive-internal or relative path on the host, no other program executed, and no other
//        host path that a plain source run of the same binary does not touch either.

type c15 struct{}

func init() { core.Register(c15{}) }

func (c15) ID() string    { return "C15" }
func (c15) Level() string { return "exploration" }
func (c15) Rule() string {
	return "core (seed-independent, exhaustive over its grid): base dir {/, /w/p} x sentinels {none, base, base+nested a, a only} x main dir {., a, a/b} x target dir {same, child, base, a} x import spelling {./x, ./x.ext, ./zz/../x, /x, /x.ext, ./../x} x target {script, script+rooted second hop, script+relative second hop, function export, json, json explicit, yaml, yml, csv, csv explicit, txt, txt explicit; the quick tier takes 6 of these 12}, with same-named decoy files in every other directory; random slice (VERIF_SEED): 2-7 files in <=5 directories of depth <=3, sentinel placement incl. nested roots and roots below a root-less main, go.mod text variants, acyclic import DAG with diamonds, every spelling family, data files with implicit/explicit decoders, deliberate failures; plus a slice of random layouts run through the real `arrai bundle`/`arrai run` binaries under strace. A case is distinct by its full file map + main and non-trivial when main reaches at least one import."
}
func (c15) Assumptions() []string {
	return []string{
		"non-local imports (module / URL) need the network and are not generated",
		"import graphs are acyclic (cycles hang on this tree; C16's subject)",
		"failures are compared by class (file-not-found, no-module-root, outside-module, sentinel-without-module, parse, eval:<first line>), not by full text: messages embed the differing file locations",
		"programs do not call //os.file & co.: reading the host deliberately is not 'needing a file of the bundle'",
		"strace route: any path-taking syscall counts as touching, successful or not",
	}
}

const (
	c15RandomQuick, c15RandomThorough = 240, 10000
	c15BinQuick, c15BinThorough       = 12, 240
)

func c15Parts(cfg *core.Config) (coreN, randN, binN int) {
	return c15CoreCount(cfg.Thorough()), cfg.Pick(c15RandomQuick, c15RandomThorough), cfg.Pick(c15BinQuick, c15BinThorough)
}

func (c15) NumCases(cfg *core.Config) int {
	a, b, c := c15Parts(cfg)
	return a + b + c
}

func (c15) HangWallSeconds() int { return 60 }

// real-binary cases start four processes (three under strace); on a loaded machine that is slow
// but not a hang
func (c15) SlowWallSeconds() int { return 1200 }

// more shards than workers: a worker process that dies loses only a small part of the evidence
// and no shard comes near the driver's per-process watchdog
func (c15) Shards(cfg *core.Config) int { return 4 * cfg.Workers }

// WorkerEnv runs in the driver before each worker starts: build the real binary once, outside
// any case, and hand its path to the workers.
func (c15) WorkerEnv(cfg *core.Config, shard int) []string {
	p, err := c15ArraiBinary(cfg)
	if err != nil {
		return []string{"GOMAXPROCS=2", "C15_ARRAI_ERR=" + err.Error()}
	}
	return []string{"GOMAXPROCS=2", "C15_ARRAI_BIN=" + p}
}

func (c15) RunCase(cfg *core.Config, i int) core.CaseResult {
	coreN, randN, _ := c15Parts(cfg)
	var l *c15Layout
	route := "mem"
	switch {
	case i < coreN:
		l = c15CoreLayout(i, cfg.Thorough())
	case i < coreN+randN:
		l = c15RandomLayout(core.NewRng(cfg.Seed, 15, uint64(i)), false)
	default:
		l = c15RandomLayout(core.NewRng(cfg.Seed, 15, uint64(i)), true)
		route = "bin"
	}
	res := core.CaseResult{Key: route + "|" + l.key(), NonTrivial: len(l.reachable()) > 1}
	if route == "bin" {
		res.Cover = append(res.Cover, "route/bin")
		c15RunBin(cfg, l, i, &res)
	} else {
		res.Cover = append(res.Cover, "route/mem")
		c15RunMem(cfg, l, i >= coreN, &res)
	}
	if res.Sample == "" && (i%997 == 5 || (i >= coreN && i%61 == 0)) {
		res.Sample = l.Desc + ": " + c15Clip(l.describe(), 500)
	}
	return res
}

func (c15) Finish(cfg *core.Config, agg *core.Aggregate) {
	var tot c15Data
	for _, d := range agg.Data {
		var x c15Data
		if json.Unmarshal(d.Data, &x) != nil {
			continue
		}
		tot.Mem += x.Mem
		tot.SrcReads += x.SrcReads
		tot.SrcSentinels += x.SrcSentinels
		tot.ZipEntries += x.ZipEntries
		tot.ZipOpens += x.ZipOpens
		tot.Audited += x.Audited
		tot.Imports += x.Imports
		tot.Bin += x.Bin
		tot.Syscalls += x.Syscalls
		tot.SrcRunOpens += x.SrcRunOpens
		tot.BundleOpens += x.BundleOpens
		tot.OtherPaths += x.OtherPaths
		tot.StracedRuns += x.StracedRuns
		tot.BinBothValue += x.BinBothValue
	}
	coreN, randN, binN := c15Parts(cfg)
	agg.Extra["exhaustive"] = true
	agg.Extra["exhaustive_scope"] = fmt.Sprintf("core grid of %d two-to-three-file layouts (see rule); random slice %d; real-binary slice %d", coreN, randN, binN)
	agg.Extra["in_process"] = map[string]int{
		"layouts_audited":                        tot.Mem,
		"files_read_by_source_evaluations":       tot.SrcReads,
		"sentinels_found_by_source_evaluation":   tot.SrcSentinels,
		"archive_entries":                        tot.ZipEntries,
		"archive_entries_opened_by_bundle_runs":  tot.ZipOpens,
		"file_and_sentinel_counterparts_checked": tot.Audited,
		"imports_reachable_from_main":            tot.Imports,
		"bundle_runs_with_recording_host_fs":     agg.Cover["bundle-run"],
	}
	agg.Extra["real_binaries"] = map[string]int{
		"layouts":                       tot.Bin,
		"straced_bundle_runs":           tot.StracedRuns,
		"file_syscalls_seen":            tot.Syscalls,
		"opens_of_the_arraiz_seen":      tot.BundleOpens,
		"source_run_opens_under_srcdir": tot.SrcRunOpens,
		"distinct_other_host_paths":     tot.OtherPaths,
		"runs_where_both_gave_a_value":  tot.BinBothValue,
	}
	// floors: an empty or blind run must fail
	floor := func(tag string, n int) {
		if agg.Cover[tag] < n {
			agg.Fail("coverage floor: %s seen %d times (< %d)", tag, agg.Cover[tag], n)
		}
	}
	floor("audited", (coreN+randN)/4)
	floor("bundle-run", (coreN+randN)/2)
	floor("source:value", (coreN+randN)/4)
	floor("source:error", 20)
	floor("bundle-step:ok", (coreN+randN)/3)
	for _, h := range []string{"mod:main-has-root", "mod:main-has-no-root", "mod:root-below-base", "mod:nested-root-reached",
		"mod:root-below-rootless-main", "base:fs-root", "import:rel", "import:rel-ext", "import:rel-dotdot", "import:rooted",
		"import:rooted-ext", "import:parent-reach", "data:json", "data:yaml", "data:yml", "data:csv", "data:txt",
		"decoder:explicit", "fn-export", "diamond", "fail:missing-import", "fail:rooted-without-root", "fail:rel-up"} {
		floor("hz/"+h, 1)
	}
	if ok, all := agg.Cover["expect-ok/source:value"], agg.Cover["expect-ok/source:value"]+agg.Cover["expect-ok/source:error"]+agg.Cover["expect-ok/source:panic"]; all == 0 || ok*10 < all*4 {
		agg.Fail("generator floor: only %d of %d layouts built to succeed evaluate to a value from source", ok, all)
	}
	if tot.ZipOpens == 0 || tot.SrcReads == 0 || tot.Audited == 0 {
		agg.Fail("observation floor: recorders saw nothing (source reads %d, archive opens %d, audited %d)", tot.SrcReads, tot.ZipOpens, tot.Audited)
	}
	if tot.StracedRuns < binN/2 || tot.BundleOpens == 0 || tot.SrcRunOpens == 0 {
		agg.Fail("observation floor (real binaries): straced bundle runs %d (< %d), opens of the archive seen %d, source-run opens seen %d",
			tot.StracedRuns, binN/2, tot.BundleOpens, tot.SrcRunOpens)
	}
	if tot.BinBothValue == 0 {
		agg.Fail("observation floor (real binaries): no layout evaluated to a value on both sides")
	}
}
