package checks

import (
	"sort"
	"strings"

	"verif/core"
)

// C09 reference model: a pattern AST, its source printer, and a structural matcher that is derived
// from the property STATEMENT only ("P matches V iff substituting the bound names back into P, read
// as an expression, rebuilds V; repeated names agree; ...rest is exactly the unmatched remainder;
// ?: fallbacks apply only to absent components"). Where the statement leaves a question open the
// matcher answers c09Open and nothing is judged.

type c09Pat struct {
	K     byte   // 'n' name, '_' wildcard, 'l' literal, 'e' (expr), 'a' array, 't' tuple, 'd' dict, 's' set
	Name  string // 'n'
	Src   string // 'l','e': source text
	Val   MV     // 'l','e': model value of the literal / expression
	Items []c09Item
}

type c09Item struct {
	Key    string // tuple attribute name
	KeyV   MV     // dict key (model)
	KeySrc string // dict key (source)
	P      *c09Pat
	Rest   bool
	RName  string // "" = anonymous ...
	FB     bool   // has a ?: fallback
	FBSrc  string
	FBVal  MV
	Short  bool // tuple shorthand (:a) / (?:a:5)
}

func (p *c09Pat) src() string {
	switch p.K {
	case 'n':
		return p.Name
	case '_':
		return "_"
	case 'l', 'e':
		return p.Src
	}
	parts := make([]string, 0, len(p.Items))
	for _, it := range p.Items {
		if it.Rest {
			parts = append(parts, "..."+it.RName)
			continue
		}
		ps := it.P.src()
		switch p.K {
		case 'a':
			if it.FB {
				parts = append(parts, "?"+ps+":"+it.FBSrc)
			} else {
				parts = append(parts, ps)
			}
		case 't':
			switch {
			case it.FB && it.Short:
				parts = append(parts, "?:"+it.Key+":"+it.FBSrc)
			case it.FB:
				parts = append(parts, it.Key+"?: "+ps+":"+it.FBSrc)
			case it.Short:
				parts = append(parts, ":"+it.Key)
			default:
				parts = append(parts, it.Key+": "+ps)
			}
		case 'd':
			if it.FB {
				parts = append(parts, it.KeySrc+"?: "+ps+":"+it.FBSrc)
			} else {
				parts = append(parts, it.KeySrc+": "+ps)
			}
		case 's':
			parts = append(parts, ps)
		}
	}
	body := strings.Join(parts, ", ")
	switch p.K {
	case 'a':
		return "[" + body + "]"
	case 't':
		return "(" + body + ")"
	}
	return "{" + body + "}"
}

// kind is the Entry vocabulary of C09 signatures.
func (p *c09Pat) kind() string {
	base := map[byte]string{'n': "name", '_': "wild", 'l': "lit", 'e': "expr", 'a': "arr", 't': "tup", 'd': "dict", 's': "set"}[p.K]
	rest, fb, nm := false, false, false
	for _, it := range p.Items {
		switch {
		case it.Rest:
			rest = true
		case it.FB:
			fb = true
		case p.K == 's' && (it.P.K == 'n' || it.P.K == '_'):
			nm = true
		}
	}
	if rest {
		base += "+rest"
	}
	if fb {
		base += "+fb"
	}
	if nm {
		base += "+name"
	}
	return base
}

// names lists the binders of p (names, named rests) sorted; roles maps each to name|rest|fallback.
func (p *c09Pat) names() []string {
	m := map[string]string{}
	p.roles(m, false)
	out := make([]string, 0, len(m))
	for k := range m {
		out = append(out, k)
	}
	sort.Strings(out)
	return out
}

func (p *c09Pat) roles(into map[string]string, underFB bool) {
	if p.K == 'n' {
		r := "name"
		if underFB {
			r = "fallback"
		}
		if old, ok := into[p.Name]; !ok || old == "name" {
			into[p.Name] = r
		}
		return
	}
	for _, it := range p.Items {
		if it.Rest {
			if it.RName != "" {
				into[it.RName] = "rest"
			}
			continue
		}
		it.P.roles(into, underFB || it.FB)
	}
}

// anon reports whether p has parts that bind nothing (wildcards, anonymous rests).
func (p *c09Pat) anon() bool {
	if p.K == '_' {
		return true
	}
	for _, it := range p.Items {
		if it.Rest {
			if it.RName == "" {
				return true
			}
		} else if it.P.anon() {
			return true
		}
	}
	return false
}

// pure: p is literally an expression (no wildcard, no rest, no fallback).
func (p *c09Pat) pure() bool {
	if p.K == '_' {
		return false
	}
	for _, it := range p.Items {
		if it.Rest || it.FB || !it.P.pure() {
			return false
		}
	}
	return true
}

func (p *c09Pat) depth() int {
	d := 0
	for _, it := range p.Items {
		if !it.Rest {
			if x := it.P.depth(); x > d {
				d = x
			}
		}
	}
	if p.K == 'a' || p.K == 't' || p.K == 'd' || p.K == 's' {
		return d + 1
	}
	return 0
}

func (p *c09Pat) container() bool { return p.K == 'a' || p.K == 't' || p.K == 'd' || p.K == 's' }

// inFragment: the pattern shapes the documentation and the repository's tests show as supported
// (DESIGN §7 C09): at most one rest-or-fallback per array / dict pattern, an array fallback only in
// the last position, set patterns with literal members plus at most one free name or one rest, a
// nested pattern inside a set pattern only as its single element.
func (p *c09Pat) inFragment() bool {
	nRest, nFB, nName, nCont := 0, 0, 0, 0
	for i, it := range p.Items {
		if it.Rest {
			nRest++
			continue
		}
		if it.FB {
			nFB++
			if p.K == 'a' && i != len(p.Items)-1 {
				return false
			}
			if p.K == 's' {
				return false
			}
		}
		if !it.P.inFragment() {
			return false
		}
		if it.P.K == 'n' || it.P.K == '_' {
			nName++
		}
		if it.P.container() {
			nCont++
		}
	}
	switch p.K {
	case 'a', 'd':
		return nRest+nFB <= 1
	case 't':
		return nRest <= 1
	case 's':
		if nCont > 0 {
			return len(p.Items) == 1
		}
		return nRest+nName <= 1
	}
	return true
}

// ---------------------------------------------------------------------------------------------
// matcher

const (
	c09Yes = iota
	c09No
	c09Open
)

type c09Res struct {
	V    int
	B    map[string]MV
	Why  string // reason for No / Open
	Kind string // kind of the pattern node at which the model rejects
	At   MV     // the sub-value at that node
}

type c09Pair struct {
	P *c09Pat
	V MV
}

func c09no(p *c09Pat, v MV, why string) *c09Res {
	return &c09Res{V: c09No, Why: why, Kind: p.kind(), At: v}
}
func c09open(p *c09Pat, v MV, why string) *c09Res {
	return &c09Res{V: c09Open, Why: why, Kind: p.kind(), At: v}
}

// c09ArrItems: v is array-shaped (every member a two-attribute tuple (@: integer, @item: x), no
// index twice). Returns the items by index.
func c09ArrItems(v MV) (map[int]MV, bool) {
	if v.K != 's' {
		return nil, false
	}
	out := map[int]MV{}
	for _, e := range v.S {
		if e.K != 't' || len(e.T) != 2 {
			return nil, false
		}
		at, ok1 := e.T["@"]
		it, ok2 := e.T["@item"]
		if !ok1 || !ok2 || at.K != 'n' || at.N != float64(int(at.N)) {
			return nil, false
		}
		if _, dup := out[int(at.N)]; dup {
			return nil, false
		}
		out[int(at.N)] = it
	}
	return out, true
}

// c09Covers: items has exactly the indices 0..n-1.
func c09Covers(items map[int]MV, n int) bool {
	if len(items) != n {
		return false
	}
	for i := 0; i < n; i++ {
		if _, ok := items[i]; !ok {
			return false
		}
	}
	return true
}

func c09ArrWhy(v MV, items map[int]MV, ok bool, lo, hi int) string {
	if v.K != 's' {
		return "not-a-set"
	}
	if !ok {
		return "not-array"
	}
	if len(items) == 0 {
		return "shorter"
	}
	mn, mx := 1<<30, -(1 << 30)
	for i := range items {
		if i < mn {
			mn = i
		}
		if i > mx {
			mx = i
		}
	}
	switch {
	case mn != 0:
		return "offset"
	case mx+1 != len(items):
		return "holes"
	case len(items) < lo:
		return "shorter"
	case len(items) > hi:
		return "longer"
	}
	return "index-set"
}

// c09Split performs the structural step of matching p against v: either a definite/open result at
// this node, or the child (pattern, value) pairs plus the bindings made at this node (rests, names).
func c09Split(p *c09Pat, v MV) (pairs []c09Pair, b map[string]MV, res *c09Res) {
	b = map[string]MV{}
	switch p.K {
	case 'n':
		b[p.Name] = v
		return nil, b, nil
	case '_':
		return nil, b, nil
	case 'l', 'e':
		if p.Val.Enc != v.Enc {
			return nil, nil, c09no(p, v, "differs")
		}
		return nil, b, nil
	case 'a':
		return c09SplitArr(p, v)
	case 't':
		return c09SplitTup(p, v)
	case 'd':
		return c09SplitDict(p, v)
	case 's':
		return c09SplitSet(p, v)
	}
	return nil, nil, c09open(p, v, "unknown-kind")
}

func c09SplitArr(p *c09Pat, v MV) (pairs []c09Pair, b map[string]MV, res *c09Res) {
	b = map[string]MV{}
	restAt, fbAt := -1, -1
	for i, it := range p.Items {
		if it.Rest {
			restAt = i
		} else if it.FB {
			fbAt = i
		}
	}
	items, ok := c09ArrItems(v)
	n := len(p.Items)
	switch {
	case restAt < 0 && fbAt < 0:
		if !ok || !c09Covers(items, n) {
			return nil, nil, c09no(p, v, c09ArrWhy(v, items, ok, n, n))
		}
		for i, it := range p.Items {
			pairs = append(pairs, c09Pair{it.P, items[i]})
		}
		return pairs, b, nil
	case restAt < 0: // one fallback, last position (inFragment); P reads as [p0..pn-1] or [p0..pn-2]
		if fbAt != n-1 {
			return nil, nil, c09open(p, v, "fallback-not-last")
		}
		if ok && c09Covers(items, n) {
			for i, it := range p.Items {
				pairs = append(pairs, c09Pair{it.P, items[i]})
			}
			return pairs, b, nil
		}
		if ok && c09Covers(items, n-1) {
			for i, it := range p.Items[:n-1] {
				pairs = append(pairs, c09Pair{it.P, items[i]})
			}
			pairs = append(pairs, c09Pair{p.Items[n-1].P, p.Items[n-1].FBVal})
			return pairs, b, nil
		}
		return nil, nil, c09no(p, v, c09ArrWhy(v, items, ok, n-1, n))
	}
	// one rest at restAt: P reads as [before...] ++ rest ++ [after...]
	if fbAt >= 0 {
		return nil, nil, c09open(p, v, "rest+fallback")
	}
	before, after := restAt, n-restAt-1
	if v.K != 's' {
		return nil, nil, c09no(p, v, "not-a-set")
	}
	canonical := ok && c09Covers(items, len(items))
	if !canonical {
		has0, anyItem := false, false
		for _, e := range v.S {
			if e.K == 't' && len(e.T) == 2 {
				if _, isItem := e.T["@item"]; isItem {
					anyItem = true
					if at, okAt := e.T["@"]; okAt && at.K == 'n' && at.N == 0 {
						has0 = true
					}
				}
			}
		}
		if before >= 1 && !has0 {
			if ok {
				return nil, nil, c09no(p, v, "offset")
			}
			return nil, nil, c09no(p, v, "not-array")
		}
		if before+after >= 1 && !anyItem {
			return nil, nil, c09no(p, v, "not-array")
		}
		// concatenation with a remainder that is not a plain array: the statement does not say
		return nil, nil, c09open(p, v, "rest-noncanonical")
	}
	l := len(items)
	if l < before+after {
		return nil, nil, c09no(p, v, "shorter")
	}
	for i := 0; i < before; i++ {
		pairs = append(pairs, c09Pair{p.Items[i].P, items[i]})
	}
	for j := 0; j < after; j++ {
		pairs = append(pairs, c09Pair{p.Items[restAt+1+j].P, items[l-after+j]})
	}
	if rn := p.Items[restAt].RName; rn != "" {
		var mid []MV
		for i := before; i < l-after; i++ {
			mid = append(mid, items[i])
		}
		b[rn] = core.MArr(mid...)
	}
	return pairs, b, nil
}

func c09SplitTup(p *c09Pat, v MV) (pairs []c09Pair, b map[string]MV, res *c09Res) {
	b = map[string]MV{}
	if v.K != 't' {
		return nil, nil, c09no(p, v, "not-a-tuple")
	}
	left := map[string]MV{}
	for k, x := range v.T {
		left[k] = x
	}
	var rest *c09Item
	for i := range p.Items {
		it := &p.Items[i]
		if it.Rest {
			rest = it
			continue
		}
		if x, has := v.T[it.Key]; has {
			pairs = append(pairs, c09Pair{it.P, x})
			delete(left, it.Key)
		} else if it.FB {
			pairs = append(pairs, c09Pair{it.P, it.FBVal})
		} else {
			return nil, nil, c09no(p, v, "missing-attr")
		}
	}
	if rest == nil {
		if len(left) > 0 {
			return nil, nil, c09no(p, v, "extra-attrs")
		}
	} else if rest.RName != "" {
		b[rest.RName] = core.Tup(left)
	}
	return pairs, b, nil
}

func c09SplitDict(p *c09Pat, v MV) (pairs []c09Pair, b map[string]MV, res *c09Res) {
	b = map[string]MV{}
	if v.K != 's' {
		return nil, nil, c09no(p, v, "not-a-set")
	}
	byKey := map[string][]int{}
	nonPair := false
	for i, e := range v.S {
		if e.K == 't' && len(e.T) == 2 {
			if at, ok := e.T["@"]; ok {
				if _, ok := e.T["@value"]; ok {
					byKey[at.Enc] = append(byKey[at.Enc], i)
					continue
				}
			}
		}
		nonPair = true
	}
	used := map[int]bool{}
	var rest *c09Item
	hasFB := false
	for i := range p.Items {
		if p.Items[i].Rest {
			rest = &p.Items[i]
		}
	}
	for i := range p.Items {
		it := &p.Items[i]
		if it.Rest {
			continue
		}
		if it.FB {
			hasFB = true
		}
		idx := byKey[it.KeyV.Enc]
		switch {
		case len(idx) == 0 && it.FB:
			pairs = append(pairs, c09Pair{it.P, it.FBVal})
		case len(idx) == 0:
			return nil, nil, c09no(p, v, "missing-key")
		case len(idx) == 1:
			pairs = append(pairs, c09Pair{it.P, v.S[idx[0]].T["@value"]})
			used[idx[0]] = true
		default:
			if rest != nil {
				return nil, nil, c09open(p, v, "multi-valued-key")
			}
			return nil, nil, c09no(p, v, "multi-valued-key")
		}
	}
	var left []MV
	for i, e := range v.S {
		if !used[i] {
			left = append(left, e)
		}
	}
	if rest == nil {
		if len(left) > 0 {
			if hasFB {
				return nil, nil, c09no(p, v, "leftover+fb")
			}
			return nil, nil, c09no(p, v, "leftover")
		}
		return pairs, b, nil
	}
	if nonPair {
		return nil, nil, c09open(p, v, "rest-nondict")
	}
	if rest.RName != "" {
		b[rest.RName] = mset(left...)
	}
	return pairs, b, nil
}

func c09SplitSet(p *c09Pat, v MV) (pairs []c09Pair, b map[string]MV, res *c09Res) {
	b = map[string]MV{}
	if v.K != 's' {
		return nil, nil, c09no(p, v, "not-a-set")
	}
	if len(p.Items) == 1 && !p.Items[0].Rest && p.Items[0].P.container() {
		if len(v.S) != 1 {
			return nil, nil, c09no(p, v, "count")
		}
		return []c09Pair{{p.Items[0].P, v.S[0]}}, b, nil
	}
	var lits []MV
	var name *c09Pat
	var rest *c09Item
	seen := map[string]bool{}
	for i := range p.Items {
		it := &p.Items[i]
		switch {
		case it.Rest:
			if rest != nil || name != nil {
				return nil, nil, c09open(p, v, "non-deterministic")
			}
			rest = it
		case it.P.K == 'n' || it.P.K == '_':
			if rest != nil || name != nil {
				return nil, nil, c09open(p, v, "non-deterministic")
			}
			name = it.P
		case it.P.K == 'l' || it.P.K == 'e':
			if seen[it.P.Val.Enc] {
				return nil, nil, c09open(p, v, "dup-literals")
			}
			seen[it.P.Val.Enc] = true
			lits = append(lits, it.P.Val)
		default:
			return nil, nil, c09open(p, v, "nested-in-set")
		}
	}
	for _, l := range lits {
		if !v.Has(l) {
			return nil, nil, c09no(p, v, "missing-member")
		}
	}
	var left []MV
	for _, e := range v.S {
		if !seen[e.Enc] {
			left = append(left, e)
		}
	}
	switch {
	case name != nil:
		switch {
		case len(left) == 1:
			pairs = append(pairs, c09Pair{name, left[0]})
		case len(left) == 0 && len(lits) > 0:
			// {1, x} = {1}: x = 1 rebuilds the value, yet no component is left to bind: open
			return nil, nil, c09open(p, v, "name-could-alias-literal")
		default:
			return nil, nil, c09no(p, v, "count")
		}
	case rest != nil:
		if rest.RName != "" {
			b[rest.RName] = mset(left...)
		}
	default:
		if len(left) > 0 {
			return nil, nil, c09no(p, v, "extra-members")
		}
	}
	return pairs, b, nil
}

// c09Match is the reference matcher.
func c09Match(p *c09Pat, v MV) c09Res {
	pairs, b, res := c09Split(p, v)
	if res != nil {
		return *res
	}
	out := c09Res{V: c09Yes, B: b}
	var open *c09Res
	for _, pr := range pairs {
		r := c09Match(pr.P, pr.V)
		switch r.V {
		case c09No:
			return r
		case c09Open:
			if open == nil {
				rr := r
				open = &rr
			}
			continue
		}
		for k, x := range r.B {
			if old, ok := out.B[k]; ok && old.Enc != x.Enc {
				return c09Res{V: c09No, Why: "repeat-disagree", Kind: "repeat", At: v}
			}
			out.B[k] = x
		}
	}
	if open != nil {
		return *open
	}
	return out
}

// ---------------------------------------------------------------------------------------------
// round trip: does P, read as an expression under the bindings beta, construct exactly v?
// Uses only constructor semantics (array literal / concatenation, tuple, dict, set union of disjoint
// parts); independent of c09Match's decomposition of v. Patterns with anonymous parts are skipped.

func c09Holds(p *c09Pat, beta map[string]MV, v MV) int {
	switch p.K {
	case 'n':
		x, ok := beta[p.Name]
		if !ok {
			return c09No
		}
		if x.Enc == v.Enc {
			return c09Yes
		}
		return c09No
	case '_':
		return c09Open
	case 'l', 'e':
		if p.Val.Enc == v.Enc {
			return c09Yes
		}
		return c09No
	}
	and := func(acc *int, r int) {
		if r == c09No || *acc == c09No {
			*acc = c09No
		} else if r == c09Open {
			*acc = c09Open
		}
	}
	res := c09Yes
	switch p.K {
	case 'a':
		items, ok := c09ArrItems(v)
		if !ok {
			return c09No
		}
		restAt, fbAt := -1, -1
		for i, it := range p.Items {
			if it.Rest {
				restAt = i
			} else if it.FB {
				fbAt = i
			}
		}
		n := len(p.Items)
		switch {
		case restAt >= 0 && fbAt >= 0:
			return c09Open
		case restAt >= 0:
			rn := p.Items[restAt].RName
			if rn == "" {
				return c09Open
			}
			r, okr := beta[rn]
			if !okr || r.K != 's' {
				return c09No
			}
			ritems, rok := c09ArrItems(r)
			if !rok || !c09Covers(ritems, len(ritems)) {
				return c09Open // a remainder that is not a plain array: concatenation not defined here
			}
			before, after := restAt, n-restAt-1
			total := before + len(ritems) + after
			if !c09Covers(items, total) {
				return c09No
			}
			for i := 0; i < before; i++ {
				and(&res, c09Holds(p.Items[i].P, beta, items[i]))
			}
			for i := 0; i < len(ritems); i++ {
				if ritems[i].Enc != items[before+i].Enc {
					return c09No
				}
			}
			for j := 0; j < after; j++ {
				and(&res, c09Holds(p.Items[restAt+1+j].P, beta, items[before+len(ritems)+j]))
			}
			return res
		case fbAt >= 0:
			if fbAt != n-1 {
				return c09Open
			}
			if c09Covers(items, n) {
				for i, it := range p.Items {
					and(&res, c09Holds(it.P, beta, items[i]))
				}
				return res
			}
			if c09Covers(items, n-1) {
				for i, it := range p.Items[:n-1] {
					and(&res, c09Holds(it.P, beta, items[i]))
				}
				and(&res, c09Holds(p.Items[n-1].P, beta, p.Items[n-1].FBVal))
				return res
			}
			return c09No
		}
		if !c09Covers(items, n) {
			return c09No
		}
		for i, it := range p.Items {
			and(&res, c09Holds(it.P, beta, items[i]))
		}
		return res
	case 't':
		if v.K != 't' {
			return c09No
		}
		handled := map[string]bool{}
		var rest *c09Item
		for i := range p.Items {
			it := &p.Items[i]
			if it.Rest {
				rest = it
				continue
			}
			handled[it.Key] = true
			if x, has := v.T[it.Key]; has {
				and(&res, c09Holds(it.P, beta, x))
			} else if it.FB {
				and(&res, c09Holds(it.P, beta, it.FBVal))
			} else {
				return c09No
			}
		}
		left := map[string]MV{}
		for k, x := range v.T {
			if !handled[k] {
				left[k] = x
			}
		}
		switch {
		case rest == nil:
			if len(left) > 0 {
				return c09No
			}
		case rest.RName == "":
			return c09Open
		default:
			r, ok := beta[rest.RName]
			if !ok || r.Enc != core.Tup(left).Enc {
				return c09No
			}
		}
		return res
	case 'd', 's':
		if v.K != 's' {
			return c09No
		}
		var want []MV
		var rest *c09Item
		for i := range p.Items {
			it := &p.Items[i]
			if it.Rest {
				rest = it
				continue
			}
			if p.K == 's' {
				switch it.P.K {
				case 'n':
					x, ok := beta[it.P.Name]
					if !ok {
						return c09No
					}
					want = append(want, x)
				case 'l', 'e':
					want = append(want, it.P.Val)
				default:
					if len(p.Items) == 1 && len(v.S) == 1 {
						return c09Holds(it.P, beta, v.S[0])
					}
					return c09Open
				}
				continue
			}
			// dict entry: find the value under the key in v
			var found []MV
			for _, e := range v.S {
				if e.K == 't' && len(e.T) == 2 {
					if at, ok := e.T["@"]; ok && at.Enc == it.KeyV.Enc {
						if x, ok := e.T["@value"]; ok {
							found = append(found, x)
						}
					}
				}
			}
			switch {
			case len(found) == 1:
				and(&res, c09Holds(it.P, beta, found[0]))
				want = append(want, mpair(it.KeyV, "@value", found[0]))
			case len(found) == 0 && it.FB:
				and(&res, c09Holds(it.P, beta, it.FBVal))
			case len(found) == 0:
				return c09No
			default:
				return c09Open
			}
		}
		explicit := mset(want...)
		if len(explicit.S) != len(want) {
			return c09Open // colliding explicit members
		}
		if rest != nil {
			if rest.RName == "" {
				return c09Open
			}
			r, ok := beta[rest.RName]
			if !ok || r.K != 's' {
				return c09No
			}
			for _, e := range r.S {
				if explicit.Has(e) {
					return c09No // the rest captured a matched component
				}
			}
			want = append(want, r.S...)
		}
		if mset(want...).Enc != v.Enc {
			return c09No
		}
		return res
	}
	return c09Open
}
