package checks

import (
	"context"
	"encoding/json"
	"fmt"
	"os"
	"sort"
	"strings"

	"verif/core"

	"github.com/arr-ai/arrai/pkg/arrai"
	"github.com/arr-ai/arrai/pkg/ctxfs"
	"github.com/arr-ai/arrai/rel"
)

// C19: --out writes exactly the described tree, or changes nothing.
//
// Runtime monitor at the filesystem boundary: the real arrai.OutputValue (the function behind
// `arrai eval/run --out=...`) is run on the value the real evaluator produced for a generated
// description, against a generated pre-existing tree, on a real directory (afero.BasePathFs over
// OsFs, the filesystem the command really uses) and, where MemMapFs's own quirks cannot matter, on
// MemMapFs as well. A wrapper fs records every operation and can fail the n-th one. The tree is
// snapshotted (paths, kinds, bytes) before and after and compared with a reference model of the
// description + ifExists rules (c19_model.go). Clauses: exact, confined, atomic, fault.

type c19 struct{}

func init() { core.Register(c19{}) }

func (c19) ID() string    { return "C19" }
func (c19) Level() string { return "fault_enumeration" }
func (c19) Rule() string {
	return "one case = one scenario (--out spelling + PATH, description, pre-existing tree). core (seed-independent): every entry shape (plain string/bytes/{}/dict, tuple with each ifExists value or none x file/dir/no payload, nested rules, every invalid member kind: number, plain set, array, function, non-string key, bad ifExists, bad dir/file payload, at the entry itself and nested) x position (depth 1-3, inside a (dir:) tuple) x pre-state of the target (PATH absent, target absent, file, empty dir, populated dir) x sibling context (none / new siblings / overwritten+removed siblings); odd keys ('', '.', '..', '../x', 'a/b', '/abs') x values; top-level values x state of PATH; --out=file: values x state x spelling. random (VERIF_SEED): depth<=3 dicts over 8 colliding names, 35% with one planted invalid member, against random pre-existing trees. fault enumeration: for the selected scenarios the fault-free run's operation count N is taken and the scenario is re-run N times on a fresh copy of the pre-state with operation n failing (EIO). distinct = scenario (and scenario x fault point); non-trivial = the run issued at least one filesystem operation."
}
func (c19) Assumptions() []string {
	return []string{
		"expected trees come from a model of docs/docs/cli/eval.md (Output controls) and the property statement, not from pkg/arrai/out.go",
		"descriptions the documents leave undetermined (tuple without payload, file and dir together, merge with file, remove with payload, unknown attributes, keys that are empty or contain '/', '.', '..', a top-level tuple, PATH whose parent is missing) are judged only on: nothing outside PATH changes, and a reported error leaves the tree unchanged",
		"an existing file where a directory is described under the default/merge rule, or an existing directory where a plain string or (file:) without ifExists is described: both readings accepted (success with the entry substituted, or error with nothing changed)",
		"ifExists:'fail' meeting an existing entry must make the command fail with nothing changed (title: '... or changes nothing')",
		"the state after an injected fault is not judged, only that the command reports an error",
		"file modes, timestamps and symlinks are not compared; strings and byte arrays are canonical (offset 0)",
		"MemMapFs is used as a second backend only for scenarios free of kind conflicts, odd keys and remove/replace targets that are string prefixes of a sibling (MemMapFs creates over directories, makes parents implicitly and removes by string prefix)",
	}
}

const c19RandQuick, c19RandThorough = 2000, 40000

// WorkerEnv: parsing the generated sources is allocation-heavy; a lazier GC saves a fifth of the CPU.
func (c19) WorkerEnv(cfg *core.Config, shard int) []string { return []string{"GOGC=400"} }

func (c19) NumCases(cfg *core.Config) int {
	return len(c19Core(cfg.Thorough())) + cfg.Pick(c19RandQuick, c19RandThorough)
}

func c19Scenario4(cfg *core.Config, i int) (*c19Scenario, bool) {
	corpus := c19Core(cfg.Thorough())
	if i < len(corpus) {
		sc := corpus[i]()
		faults := cfg.Thorough() || i%7 == 0 || (sc.Tag != "core" && i%3 == 0)
		return sc, faults
	}
	r := core.NewRng(cfg.Seed, 19, uint64(i))
	sc := c19Random(r)
	return sc, (i-len(corpus))%cfg.Pick(4, 2) == 0
}

// c19Run is one execution of the command.
type c19Run struct {
	backend string
	err     error
	panic   *core.PanicInfo
	pre     c19Tree // as read back from the backend before the run
	post    c19Tree
	fs      *c19FS
}

func c19Exec(cfg *core.Config, sc *c19Scenario, backend string, failAt int, val rel.Value) (*c19Run, error) {
	be, err := c19NewBackend(backend, cfg.RunDir)
	if err != nil {
		return nil, err
	}
	defer be.close()
	if err := be.populate(sc.Pre); err != nil {
		return nil, fmt.Errorf("populate: %v", err)
	}
	run := &c19Run{backend: backend, fs: &c19FS{be: be.fs, failAt: failAt}, pre: sc.Pre}
	if failAt == 0 {
		// the pre-state is read back once per backend: what is judged is what was really there
		if run.pre, err = be.snapshot(); err != nil {
			return nil, fmt.Errorf("pre snapshot: %v", err)
		}
		if d := c19TreeDiff(sc.Pre, run.pre); len(d) > 0 {
			return nil, fmt.Errorf("pre-state not materialised as generated: %v", d[0])
		}
	}
	ctx := ctxfs.RuntimeFsOnto(context.Background(), run.fs)
	o := core.Guard(func() (rel.Value, error) {
		return rel.None, arrai.OutputValue(ctx, val, nil, sc.out())
	})
	run.err, run.panic = o.Err, o.Panic
	if failAt != 0 {
		return run, nil // the state after an injected fault is not judged
	}
	if run.post, err = be.snapshot(); err != nil {
		return nil, fmt.Errorf("post snapshot: %v", err)
	}
	return run, nil
}

// c19Expect is what the model says about a scenario.
type c19Expect struct {
	class   string // invalid | open | refusal | conflict | valid
	entry   string // entry kind for atomic signatures
	want    c19Tree
	model   *c19Model
	hazards []string
	scan    *c19Scan
	ctx     *c19Ctx
}

func c19Expectation(sc *c19Scenario) *c19Expect {
	e := &c19Expect{ctx: c19Context(sc)}
	hz := map[string]bool{}
	_, parentOK := sc.Pre[c19PathDir(sc.Path)]
	if !sc.isDir() {
		hz["mode:file"] = true
		e.scan = &c19Scan{invalid: map[string]int{}, open: map[string]bool{}}
		switch sc.Desc.K {
		case "str", "bytes", "empty":
		default:
			e.scan.bad("file-not-bytes:"+sc.Desc.K, 0)
		}
		if !parentOK {
			e.scan.open["path-parent-missing"] = true
		}
	} else {
		hz["mode:dir"] = true
		e.scan = c19ScanTop(sc.Desc)
		if !parentOK {
			e.scan.open["path-parent-missing"] = true
		}
	}
	for k := range e.scan.invalid {
		hz["inv:"+k] = true
	}
	for k := range e.scan.open {
		hz["open:"+k] = true
	}
	if len(e.scan.invalid) > 0 {
		for k := range e.ctx.under {
			hz["under:"+k] = true
		}
	}
	switch {
	case len(e.scan.invalid) > 0:
		e.class, e.entry = "invalid", c19Keys(e.scan.invalid)[0]
	case len(e.scan.open) > 0:
		e.class, e.entry = "open", "open:"+c19BoolKeys(e.scan.open)[0]
	default:
		if sc.isDir() {
			e.model = c19Apply(sc.Pre, sc.Path, sc.Desc)
		} else {
			m := &c19Model{tree: sc.Pre.clone(), conflict: map[string]string{}, label: map[string]string{}, rules: map[string]bool{}}
			if m.existed(sc.Path) == "dir" {
				m.conflict[sc.Path] = "file-over-dir"
			}
			m.rules["file-mode/"+m.existed(sc.Path)] = true
			m.writeFile(sc.Path, sc.Desc, "file-mode:"+sc.Desc.K)
			e.model = m
		}
		e.want = e.model.tree
		switch {
		case len(e.model.refused) > 0:
			e.class, e.entry = "refusal", "fail-exists"
			hz["refusal"] = true
		case len(e.model.conflict) > 0:
			var ks []string
			for _, k := range e.model.conflict {
				ks = append(ks, k)
			}
			sort.Strings(ks)
			e.class, e.entry = "conflict", "kind-conflict:"+ks[0]
			for _, k := range ks {
				hz["conflict:"+k] = true
			}
		default:
			e.class, e.entry = "valid", "valid"
		}
	}
	for k := range hz {
		e.hazards = append(e.hazards, k)
	}
	sort.Strings(e.hazards)
	return e
}

func c19PathDir(p string) string {
	i := strings.LastIndexByte(p, '/')
	if i <= 0 {
		return "/"
	}
	return p[:i]
}

// memSafe: the scenario can also be judged on MemMapFs.
func (e *c19Expect) memSafe() bool {
	return !e.ctx.kindMismatch && !e.ctx.prefixRemove && !e.ctx.oddKeys && e.class != "conflict" && !e.scan.open["path-parent-missing"]
}

type c19Judge struct {
	res  *core.CaseResult
	sc   *c19Scenario
	exp  *c19Expect
	seen map[string]bool
}

func (j *c19Judge) viol(run *c19Run, clause, entry, mode, delta, site, detail string, failAt int) {
	sig := core.Signature{Clause: "C19." + clause, Entry: entry, Mode: mode, Site: site, Hazards: j.exp.hazards, Delta: delta}
	k := sig.String()
	if j.seen[k] {
		return
	}
	j.seen[k] = true
	errText := "nil"
	if run.err != nil {
		errText = core.ErrText(run.err)
	}
	j.res.Viols = append(j.res.Viols, core.Violation{Sig: sig,
		Detail: fmt.Sprintf("%s [%s backend] --out=%s  result=%s  pre: %s  | returned error: %s | %s", detail, run.backend, j.sc.out(),
			j.sc.Desc.src(), j.sc.Pre.String(), errText, "post: "+run.post.String()),
		Replay: map[string]interface{}{"out": j.sc.out(), "result": j.sc.Desc.src(), "pre": j.sc.Pre.String(), "backend": run.backend,
			"fail_op": failAt, "class": j.exp.class}})
}

// residues lists what a run that had to change nothing changed: residue kind -> witness path.
func c19Residues(run *c19Run, only func(p string) bool) map[string]string {
	out := map[string]string{}
	put := func(k, p string) {
		if only != nil && !only(p) {
			return
		}
		if _, ok := out[k]; !ok {
			out[k] = p
		}
	}
	for _, d := range c19TreeDiff(run.pre, run.post) {
		switch d.How {
		case "created-dir":
			put("dirs-created", d.Path)
		case "created-file":
			put("files-created", d.Path)
		case "overwritten":
			put("files-overwritten", d.Path)
		case "deleted":
			put("entries-deleted", d.Path)
		case "kind-changed":
			put("kind-changed", d.Path)
		}
	}
	for k, p := range run.fs.mutations() {
		put(k, p)
	}
	return out
}

// judge applies the clauses to a fault-free run.
func (j *c19Judge) judge(run *c19Run) {
	sc, exp := j.sc, j.exp
	if run.panic != nil {
		j.viol(run, "no-panic", exp.entry, "panic", "", run.panic.Sig(), "OutputValue panicked: "+run.panic.Msg, 0)
		return
	}
	if run.fs.guard > 0 {
		j.res.Cover = append(j.res.Cover, "guard:path-refused-by-sandbox")
	}
	errored := run.err != nil
	ret := "returned-success"
	if errored {
		ret = "returned-error"
	}
	// confined: nothing outside PATH changes, whatever the description and the outcome
	inside := func(p string) bool { return c19Under(p, sc.Path) }
	outside := func(p string) bool { return !inside(p) }
	keyEntry := "plain-keys"
	if exp.ctx.oddKeys {
		keyEntry = "odd-keys"
	}
	if !sc.isDir() {
		keyEntry = "file-mode"
	}
	if !exp.scan.open["path-parent-missing"] { // creating missing parents of PATH is not judged
		res := c19Residues(run, outside)
		for _, k := range c19SortedKeys(res) {
			j.viol(run, "confined", keyEntry, k, ret, "", fmt.Sprintf("outside PATH: %s at %s", k, res[k]), 0)
		}
	}
	switch exp.class {
	case "invalid", "refusal":
		what := "description is invalid (" + strings.Join(c19Keys(exp.scan.invalid), ",") + ")"
		if exp.class == "refusal" {
			what = "ifExists:'fail' meets existing " + strings.Join(exp.model.refused, ",")
		}
		if !errored {
			j.viol(run, "atomic", exp.entry, "accepted", ret, "", what+" but the command reported success", 0)
		}
		res := c19Residues(run, nil)
		for _, k := range c19SortedKeys(res) {
			j.viol(run, "atomic", exp.entry, k, ret, "", fmt.Sprintf("%s, yet %s at %s", what, k, res[k]), 0)
		}
	case "open":
		if errored {
			res := c19Residues(run, nil)
			for _, k := range c19SortedKeys(res) {
				j.viol(run, "atomic", exp.entry, k, ret, "", fmt.Sprintf("command reported an error, yet %s at %s", k, res[k]), 0)
			}
		}
	case "conflict", "valid":
		if errored {
			if exp.class == "valid" {
				j.viol(run, "exact", c19FirstLabel(exp.model), "error-for-success", ret, "", "valid description on a compatible pre-state, yet the command failed", 0)
			}
			res := c19Residues(run, nil)
			for _, k := range c19SortedKeys(res) {
				j.viol(run, "atomic", exp.entry, k, ret, "", fmt.Sprintf("command reported an error, yet %s at %s", k, res[k]), 0)
			}
			return
		}
		// success: the tree under PATH equals the model
		for _, p := range c19UnionPaths(exp.want, run.post) {
			if !inside(p) {
				continue
			}
			w, wok := exp.want[p]
			g, gok := run.post[p]
			_, was := run.pre[p]
			mode := ""
			switch {
			case wok && !gok && was:
				mode = "missing-deleted"
			case wok && !gok:
				mode = "missing-not-created"
			case !wok && gok && was:
				mode = "extra-kept"
			case !wok && gok:
				mode = "extra-created"
			case w.Kind != g.Kind:
				mode = "wrong-kind"
			case w.Data != g.Data:
				mode = "wrong-bytes"
			}
			if mode == "" {
				continue
			}
			j.viol(run, "exact", exp.model.labelFor(p), mode, ret, "", fmt.Sprintf("%s at %s (expected tree: %s)", mode, p, exp.want.String()), 0)
		}
	}
}

func c19FirstLabel(m *c19Model) string {
	var ls []string
	for _, l := range m.label {
		if l != "top" {
			ls = append(ls, l)
		}
	}
	sort.Strings(ls)
	if len(ls) == 0 {
		return "top"
	}
	return ls[0]
}

func c19SortedKeys(m map[string]string) []string {
	ks := make([]string, 0, len(m))
	for k := range m {
		ks = append(ks, k)
	}
	sort.Strings(ks)
	return ks
}

func c19UnionPaths(a, b c19Tree) []string {
	u := map[string]bool{}
	for k := range a {
		u[k] = true
	}
	for k := range b {
		u[k] = true
	}
	ks := make([]string, 0, len(u))
	for k := range u {
		ks = append(ks, k)
	}
	sort.Strings(ks)
	return ks
}

type c19Data struct {
	Shape  string `json:"s"`
	Faults int    `json:"f"`
	Ops    int    `json:"o"`
}

func (c c19) RunCase(cfg *core.Config, i int) core.CaseResult {
	sc, faults := c19Scenario4(cfg, i)
	res := core.CaseResult{Key: sc.key()}
	res.Evals = 0
	o := core.EvalSrc(sc.Desc.src())
	if !o.OK() {
		res.Inconclusive = "description does not evaluate: " + sc.Desc.src() + ": " + outcomeText(o)
		return res
	}
	exp := c19Expectation(sc)
	if os.Getenv("VERIF_C19_DEBUG") != "" {
		fmt.Fprintf(os.Stderr, "case %d: %s\n  class=%s entry=%s hazards=%v memSafe=%v faults=%v\n", i, sc.key(), exp.class, exp.entry, exp.hazards, exp.memSafe(), faults)
		if exp.want != nil {
			fmt.Fprintf(os.Stderr, "  want: %s\n", exp.want.String())
		}
	}
	j := &c19Judge{res: &res, sc: sc, exp: exp, seen: map[string]bool{}}
	cov := func(t string) { res.Cover = append(res.Cover, t) }
	cov("scenario")
	cov("family:" + sc.Tag)
	cov("class:" + exp.class)
	for k, d := range exp.scan.invalid {
		cov(fmt.Sprintf("invalid:%s@depth%d", k, d))
	}
	for k := range exp.scan.open {
		cov("open:" + k)
	}
	if exp.model != nil {
		for k := range exp.model.rules {
			cov("rule:" + k)
		}
		for _, k := range exp.model.conflict {
			cov("conflict:" + k)
		}
	}
	if len(exp.scan.invalid) > 0 {
		for k := range exp.ctx.under {
			cov("invalid-under:" + k)
		}
	}
	switch n, ok := sc.Pre[sc.Path]; {
	case !ok:
		cov("path:absent")
	case n.Kind == 'f':
		cov("path:file")
	default:
		cov("path:dir")
	}
	backends := []string{"os"}
	if exp.memSafe() {
		backends = append(backends, "mem")
	}
	nOps := 0
	var base *c19Run
	for _, be := range backends {
		run, err := c19Exec(cfg, sc, be, 0, o.Val)
		if err != nil {
			if be == "mem" {
				// MemMapFs can end up unreadable (its RemoveAll deletes by string prefix and leaves stale
				// directory listings); the run on the real directory has been judged already
				cov("mem:unreadable-after-run")
				continue
			}
			res.Inconclusive = "harness: " + err.Error()
			return res
		}
		res.Evals++
		cov("backend:" + be)
		if run.err != nil {
			cov("outcome:error")
		} else {
			cov("outcome:success")
		}
		if len(c19TreeDiff(run.pre, run.post)) > 0 {
			cov("outcome:tree-changed")
		}
		for _, op := range run.fs.ops {
			cov("op:" + op.Kind)
		}
		j.judge(run)
		if be == "os" {
			base = run
			nOps = len(run.fs.ops)
		}
	}
	res.NonTrivial = nOps > 0
	nFaults := 0
	if faults && base != nil && base.panic == nil {
		for n := 1; n <= nOps; n++ {
			run, err := c19Exec(cfg, sc, "os", n, o.Val)
			if err != nil {
				res.Inconclusive = "harness: " + err.Error()
				return res
			}
			res.Evals++
			if n > len(run.fs.ops) || !run.fs.ops[n-1].Faulted {
				cov("fault:not-reached")
				continue
			}
			op := run.fs.ops[n-1]
			nFaults++
			cov("fault-point")
			cov("fault-op:" + op.Kind)
			res.SubKeys = append(res.SubKeys, fmt.Sprintf("%s#fault%d", res.Key, n))
			switch {
			case run.panic != nil:
				j.viol(run, "no-panic", op.Kind, "panic", "fault", run.panic.Sig(), fmt.Sprintf("OutputValue panicked after operation %d (%s %s) failed: %s", n, op.Kind, op.Path, run.panic.Msg), n)
			case run.err == nil:
				cov("fault:swallowed")
				j.viol(run, "fault", op.Kind, "success-reported", "", "", fmt.Sprintf("operation %d of %d (%s %s) failed with EIO, yet the command reported success", n, nOps, op.Kind, op.Path), n)
			default:
				cov("fault:reported")
			}
		}
	}
	res.Data = c19Data{Shape: sc.shape(), Faults: nFaults, Ops: nOps}
	if i%211 == 5 || (i%97 == 0 && nFaults > 0) {
		res.Sample = fmt.Sprintf("--out=%s  result=%s  pre: %s  => class=%s, %d fs operations, %d fault points", sc.out(), sc.Desc.src(), sc.Pre.String(), exp.class, nOps, nFaults)
	}
	if res.Evals == 0 {
		res.Evals = 1
	}
	return res
}

func (c19) Finish(cfg *core.Config, agg *core.Aggregate) {
	shapes := map[string]bool{}
	faults, ops := 0, 0
	for _, d := range agg.Data {
		var x c19Data
		if json.Unmarshal(d.Data, &x) == nil {
			shapes[x.Shape] = true
			faults += x.Faults
			ops += x.Ops
		}
	}
	agg.Extra["scenarios"] = agg.Cover["scenario"]
	agg.Extra["distinct_prestate_x_description_shapes"] = len(shapes)
	agg.Extra["fault_points_enumerated"] = faults
	agg.Extra["fault_points_reported_error"] = agg.Cover["fault:reported"]
	agg.Extra["fault_points_swallowed"] = agg.Cover["fault:swallowed"]
	agg.Extra["fs_operations_observed_fault_free"] = ops
	agg.Extra["runs_on_real_directory"] = agg.Cover["backend:os"]
	agg.Extra["runs_on_memmapfs"] = agg.Cover["backend:mem"]
	floor := func(tag string, min int) {
		if agg.Cover[tag] < min {
			agg.Fail("coverage floor: %s seen %d times, need >= %d", tag, agg.Cover[tag], min)
		}
	}
	q := cfg.Pick(1, 4)
	floor("scenario", 4000*q)
	floor("fault-point", 3000*q)
	floor("backend:os", 4000*q)
	floor("backend:mem", 1000)
	floor("outcome:success", 1000)
	floor("outcome:error", 1000)
	floor("outcome:tree-changed", 1000)
	for _, c := range []string{"valid", "invalid", "open", "refusal", "conflict"} {
		floor("class:"+c, 50)
	}
	for _, k := range []string{"entry-num", "entry-set", "entry-arr", "entry-fn", "nonstring-key", "bad-ifExists", "bad-dir-payload", "bad-file-payload"} {
		for d := 1; d <= 3; d++ {
			floor(fmt.Sprintf("invalid:%s@depth%d", k, d), 5)
		}
	}
	for _, r := range []string{"merge:dir", "replace:dir", "replace:file", "ignore:dir", "ignore:file", "fail:dir", "fail:file", "remove"} {
		for _, ex := range []string{"absent", "file", "dir"} {
			floor("rule:"+r+"/"+ex, 5)
		}
	}
	for _, r := range []string{"plain-file", "plain-dir", "file-mode"} {
		for _, ex := range []string{"absent", "file", "dir"} {
			floor("rule:"+r+"/"+ex, 5)
		}
	}
	for _, op := range []string{"Stat", "Mkdir", "Create", "RemoveAll", "Write", "Sync", "Close"} {
		floor("fault-op:"+op, 20)
		floor("op:"+op, 100)
	}
	floor("path:absent", 100)
	floor("path:dir", 100)
	floor("path:file", 10)
	if len(shapes) < 1500*q {
		agg.Fail("coverage floor: %d distinct pre-state x description shapes, need >= %d", len(shapes), 1500*q)
	}
}
