package checks

import (
	"context"
	"fmt"
	"os"
	"path/filepath"
	"regexp"
	"sort"
	"strconv"
	"strings"
	"sync"
	"sync/atomic"
	"syscall"
	"time"

	"verif/core"

	"github.com/arr-ai/arrai/pkg/arraictx"
	"github.com/arr-ai/arrai/rel"
	"github.com/arr-ai/arrai/syntax"
	"github.com/arr-ai/wbnf/parser"
)

// C18, traced-child side: this code runs inside the strace'd sub-worker. It executes the steps of
// one case between marker syscalls, performs the in-process monitors (capability walk, canary-token
// scan) and reports one self-describing record per step. The parent joins the records with the
// syscall trace and judges.

const c18TokenPrefix = "C18SECRET"

// c18Nat identifies a native function of one of the two library instances.
type c18Nat struct {
	Lib   string `json:"lib"`   // "full" (syntax.StdScope) | "safe" (syntax.SafeStdScope)
	Path  string `json:"path"`  // os.file
	Class string `json:"class"` // file | net | exec | other
	Name  string `json:"name"`
}

func c18ClassOf(path string) string {
	path = strings.TrimPrefix(path, "std.safe.")
	switch path {
	case "os.file":
		return "file"
	case "net.http.get", "net.http.post":
		return "net"
	case "deprecated.exec":
		return "exec"
	}
	return "other"
}

type c18LibIndex struct {
	byPtr      map[*rel.NativeFunction]c18Nat
	full, safe rel.Tuple
}

var (
	c18IdxOnce sync.Once
	c18Idx     *c18LibIndex
)

var c18SimpleName = regexp.MustCompile(`^[A-Za-z_][A-Za-z0-9_]*$`)

// c18WalkLib visits every attribute path of a library tuple (depth-limited; the grammar ASTs under
// grammar.lang.* are data and are treated as leaves).
func c18WalkLib(t rel.Tuple, prefix string, depth int, visit func(path string, v rel.Value)) {
	names := t.Names().OrderedNames()
	for _, n := range names {
		v, ok := t.Get(n)
		if !ok {
			continue
		}
		p := n
		if prefix != "" {
			p = prefix + "." + n
		}
		visit(p, v)
		if sub, ok := v.(rel.Tuple); ok && depth < 6 && !strings.HasPrefix(p, "grammar.lang.") && !strings.HasSuffix(p, "grammar.lang."+n) {
			c18WalkLib(sub, p, depth+1, visit)
		}
	}
}

func c18Index() *c18LibIndex {
	c18IdxOnce.Do(func() {
		idx := &c18LibIndex{byPtr: map[*rel.NativeFunction]c18Nat{}}
		fv, _ := syntax.StdScope().Get("//")
		sv, _ := syntax.SafeStdScope().Get("//")
		idx.full, _ = fv.(rel.Tuple)
		idx.safe, _ = sv.(rel.Tuple)
		for _, l := range []struct {
			name string
			t    rel.Tuple
		}{{"full", idx.full}, {"safe", idx.safe}} {
			if l.t == nil {
				continue
			}
			c18WalkLib(l.t, "", 0, func(path string, v rel.Value) {
				if nf, ok := v.(*rel.NativeFunction); ok {
					if old, seen := idx.byPtr[nf]; !seen || len(path) < len(old.Path) {
						idx.byPtr[nf] = c18Nat{Lib: l.name, Path: path, Class: c18ClassOf(path), Name: nf.Name()}
					}
				}
			})
		}
		c18Idx = idx
	})
	return c18Idx
}

func c18Lookup(t rel.Tuple, path string) (rel.Value, bool) {
	var cur rel.Value = t
	for _, n := range strings.Split(path, ".") {
		tt, ok := cur.(rel.Tuple)
		if !ok {
			return nil, false
		}
		cur, ok = tt.Get(n)
		if !ok {
			return nil, false
		}
	}
	return cur, true
}

// ---- value walk: native functions by identity, opaque callables, text for the token scan ----

type c18Walk struct {
	natives  map[*rel.NativeFunction]bool
	closures int
	text     strings.Builder
	nodes    int
}

func c18IsCallable(v rel.Value) bool {
	switch v.(type) {
	case *rel.NativeFunction, rel.Closure, rel.ExprClosure, *rel.ExprClosure:
		return true
	}
	return false
}

func (w *c18Walk) visit(v rel.Value, depth int) {
	if v == nil || depth > 40 || w.nodes > 300000 {
		return
	}
	w.nodes++
	defer func() { _ = recover() }()
	switch x := v.(type) {
	case *rel.NativeFunction:
		w.natives[x] = true
	case rel.Closure, rel.ExprClosure, *rel.ExprClosure:
		w.closures++
	case rel.Number:
	case rel.String:
		if w.text.Len() < 4<<20 {
			w.text.WriteString(x.String())
			w.text.WriteByte('\n')
		}
	case rel.Bytes:
		if w.text.Len() < 4<<20 {
			w.text.Write(x.Bytes())
			w.text.WriteByte('\n')
		}
	case rel.Tuple:
		for e := x.Enumerator(); e.MoveNext(); {
			n, a := e.Current()
			if w.text.Len() < 4<<20 {
				w.text.WriteString(n)
				w.text.WriteByte('\n')
			}
			w.visit(a, depth+1)
		}
	case rel.Set:
		for e := x.Enumerator(); e.MoveNext(); {
			w.visit(e.Current(), depth+1)
		}
	}
}

func c18WalkValue(v rel.Value) *c18Walk {
	w := &c18Walk{natives: map[*rel.NativeFunction]bool{}}
	w.visit(v, 0)
	return w
}

var c18TokenRe = regexp.MustCompile(c18TokenPrefix + `-[a-z]+-[0-9a-f]+`)

func c18Tokens(texts ...string) []string {
	seen := map[string]bool{}
	for _, t := range texts {
		for _, m := range c18TokenRe.FindAllString(t, -1) {
			// report the place only (script|cwd|home|root|scope): stable across seeds
			parts := strings.Split(m, "-")
			seen[parts[1]] = true
		}
	}
	var out []string
	for k := range seen {
		out = append(out, k)
	}
	sort.Strings(out)
	return out
}

// c18ErrText renders an error without ever formatting a parser.ParseError (DESIGN §1).
func c18ErrText(err error) string {
	if err == nil {
		return ""
	}
	// a ParseError anywhere in the chain makes Error() unaffordable (wbnf error-tree printer)
	for e, n := err, 0; e != nil && n < 200; n++ {
		switch e.(type) {
		case parser.ParseError, *parser.ParseError:
			return "parser.ParseError (not rendered)"
		}
		if strings.Contains(fmt.Sprintf("%T", e), "ParseError") {
			return fmt.Sprintf("%T (not rendered)", e)
		}
		switch x := e.(type) {
		case rel.ContextErr:
			e = x.NextErr()
		case *rel.ContextErr:
			e = x.NextErr()
		case interface{ Unwrap() error }:
			e = x.Unwrap()
		default:
			e = nil
		}
	}
	// other wrappers hide their cause (localImportError …): render on the side and give up after 3 s.
	// Giving up only loses text for the token scan (never a verdict by itself).
	ch := make(chan string, 1)
	go func() {
		defer func() {
			if r := recover(); r != nil {
				ch <- "<Error() panicked>"
			}
		}()
		ch <- err.Error()
	}()
	var s string
	select {
	case s = <-ch:
	case <-time.After(3 * time.Second):
		return fmt.Sprintf("%T (rendering abandoned)", err)
	}
	if len(s) > 32<<10 {
		s = s[:32<<10]
	}
	return s
}

// c18Guard evaluates under recover; a panic value that is an error is rendered with c18ErrText.
func c18Guard(f func() (rel.Value, error)) (v rel.Value, err error, pmsg string) {
	defer func() {
		if r := recover(); r != nil {
			v, err = nil, nil
			switch x := r.(type) {
			case error:
				pmsg = "panic: " + c18ErrText(x)
			case string:
				pmsg = "panic: " + x
			default:
				pmsg = fmt.Sprintf("panic: %T", r)
			}
			if len(pmsg) > 32<<10 {
				pmsg = pmsg[:32<<10]
			}
		}
	}()
	v, err = f()
	return
}

// ---- what a configuration passes in ----

type c18Given struct {
	ptrs       map[*rel.NativeFunction]bool
	lib        rel.Tuple // the stdlib the sandbox is entitled to
	scopeNames map[string]bool
	File       bool `json:"file"`
	Net        bool `json:"net"`
	Exec       bool `json:"exec"`
	EvalValue  bool `json:"eval_value"` // //eval.value (of either instance) is among the given functions
	SafeLib    bool `json:"safe_lib"`   // the default safe library is given (default config, or //eval.eval|evaluator given)
}

type c18Sandbox struct {
	fn    rel.Value
	given *c18Given
	err   string
}

func c18EvalCtx() context.Context { return arraictx.ContextWithIsCompiling(core.Ctx(), false) }

func c18HostEval(src string) (rel.Value, error, string) {
	return c18Guard(func() (rel.Value, error) { return syntax.EvalWithScope(core.Ctx(), "", src, syntax.StdScope()) })
}

func (g *c18Given) addValue(v rel.Value) {
	w := c18WalkValue(v)
	for p := range w.natives {
		g.ptrs[p] = true
	}
}

func (g *c18Given) finish() {
	idx := c18Index()
	if g.lib != nil {
		for _, p := range []string{"eval.eval", "eval.evaluator"} {
			if v, ok := c18Lookup(g.lib, p); ok && c18IsCallable(v) {
				g.SafeLib = true
			}
		}
	}
	if g.SafeLib {
		g.addValue(idx.safe)
	}
	for p := range g.ptrs {
		if n, ok := idx.byPtr[p]; ok {
			switch n.Class {
			case "file":
				g.File = true
			case "net":
				g.Net = true
			case "exec":
				g.Exec = true
			}
			if strings.TrimPrefix(n.Path, "std.safe.") == "eval.value" {
				g.EvalValue = true
			}
		}
	}
}

func c18MakeSandbox(c c18Cfg) *c18Sandbox {
	idx := c18Index()
	sb := &c18Sandbox{given: &c18Given{ptrs: map[*rel.NativeFunction]bool{}, scopeNames: map[string]bool{}}}
	g := sb.given
	entry := `//eval.eval`
	if c.Src == "" {
		g.lib, g.SafeLib = idx.safe, true
	} else {
		entry = `//eval.evaluator(` + c.Src + `).eval`
		cv, err, pm := c18HostEval(c.Src)
		ct, ok := cv.(rel.Tuple)
		if err != nil || pm != "" || !ok {
			sb.err = "config does not evaluate to a tuple: " + c18ErrText(err) + pm
			return sb
		}
		if lv, has := ct.Get("stdlib"); has {
			lt, ok := lv.(rel.Tuple)
			if !ok {
				sb.err = "config stdlib is not a tuple"
				return sb
			}
			g.lib = lt
			g.addValue(lt)
		} else {
			g.lib, g.SafeLib = idx.safe, true
		}
		if sv, has := ct.Get("scope"); has {
			if st, ok := sv.(rel.Tuple); ok {
				for e := st.Enumerator(); e.MoveNext(); {
					n, a := e.Current()
					g.scopeNames[n] = true
					g.addValue(a)
				}
			}
		}
	}
	g.finish()
	fv, err, pm := c18HostEval(entry)
	if err != nil || pm != "" || fv == nil {
		sb.err = "sandbox entry does not evaluate: " + c18ErrText(err) + pm
		return sb
	}
	sb.fn = fv
	return sb
}

// ---- records ----

type c18Rec struct {
	K        int      `json:"k"`
	Kind     string   `json:"kind"` // control | prog | path | audit
	Key      string   `json:"key"`
	Entry    string   `json:"entry,omitempty"`
	Cfg      string   `json:"cfg,omitempty"`
	CfgSrc   string   `json:"cfg_src,omitempty"`
	Src      string   `json:"src,omitempty"`
	Host     string   `json:"host,omitempty"`
	Routes   []string `json:"routes,omitempty"`
	Target   string   `json:"target,omitempty"`
	Form     string   `json:"form,omitempty"`
	Chain    string   `json:"chain,omitempty"`
	Given    c18Given `json:"given"`
	Direct   string   `json:"direct,omitempty"`
	DirGiven bool     `json:"dir_given,omitempty"`
	Outcome  string   `json:"outcome"` // value | error | panic | skipped
	Text     string   `json:"text,omitempty"`
	Foreign  []c18Nat `json:"foreign,omitempty"` // identified natives that were NOT passed in
	NGiven   int      `json:"n_given,omitempty"`
	NUnknown int      `json:"n_unknown,omitempty"` // natives of neither library instance (curried partials …): opaque
	NOpaque  int      `json:"n_opaque,omitempty"`  // closures: opaque
	Tokens   []string `json:"tokens,omitempty"`    // canary places whose token appeared in the result or error text
	Calls    int      `json:"calls,omitempty"`     // audit: invocations made
	Ms       int64    `json:"ms,omitempty"`        // wall time of the step (evidence only, never judged)
}

type c18ChildOut struct {
	Recs  []c18Rec `json:"recs"`
	Notes []string `json:"notes,omitempty"`
}

// ---- the child ----

type c18Child struct {
	cfg     *core.Config
	dir     string // scratch directory
	only    int    // run only this step (-1: all)
	k       int
	out     c18ChildOut
	sbs     map[string]*c18Sandbox
	home    string
	written map[string]bool
	cur     string
	kAtomic atomic.Int64
}

func c18Mark(k int, phase string) {
	fd, err := syscall.Open(fmt.Sprintf("/c18-marker/%d/%s", k, phase), syscall.O_RDONLY, 0)
	if err == nil {
		syscall.Close(fd)
	}
}

func (c *c18Child) subst(s string) string {
	return strings.ReplaceAll(strings.ReplaceAll(s, c18PhHome, c.home), c18PhURL, c18URL)
}

func (c *c18Child) sandbox(cf c18Cfg) *c18Sandbox {
	if sb, ok := c.sbs[cf.ID]; ok {
		return sb
	}
	sb := c18MakeSandbox(cf)
	if sb.err != "" {
		c.out.Notes = append(c.out.Notes, "cfg "+cf.ID+": "+sb.err)
	}
	c.sbs[cf.ID] = sb
	return sb
}

// step runs f between the begin/end markers of the next step number (unless filtered out).
func (c *c18Child) step(f func(k int) c18Rec) {
	k := c.k
	c.k++
	c.kAtomic.Store(int64(c.k))
	if c.only >= 0 && c.only != k {
		return
	}
	c18Mark(k, "b")
	t0 := time.Now()
	r := f(k)
	c18Mark(k, "e")
	r.K = k
	r.Ms = time.Since(t0).Milliseconds()
	c.out.Recs = append(c.out.Recs, r)
}

func c18Clip(s string, n int) string {
	if len(s) > n {
		return s[:n] + "…"
	}
	return s
}

// observe fills the in-process monitors' part of a record from an evaluation outcome.
func (r *c18Rec) observe(v rel.Value, err error, pmsg string, g *c18Given) {
	idx := c18Index()
	switch {
	case pmsg != "":
		r.Outcome, r.Text = "panic", c18Clip(pmsg, 200)
		r.Tokens = c18Tokens(pmsg)
	case err != nil:
		t := c18ErrText(err)
		r.Outcome, r.Text = "error", c18Clip(strings.Join(strings.Fields(t), " "), 200)
		r.Tokens = c18Tokens(t)
	default:
		r.Outcome = "value"
		w := c18WalkValue(v)
		rep := ""
		if w.nodes < 2000 {
			rep, _ = core.Repr(v)
		}
		r.Text = c18Clip(rep, 160)
		r.Tokens = c18Tokens(w.text.String(), rep)
		r.NOpaque = w.closures
		for p := range w.natives {
			n, known := idx.byPtr[p]
			switch {
			case g != nil && g.ptrs[p]:
				r.NGiven++
			case known:
				r.Foreign = append(r.Foreign, n)
			default:
				r.NUnknown++
			}
		}
		sort.Slice(r.Foreign, func(i, j int) bool { return r.Foreign[i].Lib+r.Foreign[i].Path < r.Foreign[j].Lib+r.Foreign[j].Path })
		if len(r.Foreign) > 12 {
			// keep one per class first, then truncate (the judge needs classes, not the whole library)
			byClass := map[string]bool{}
			var keep []c18Nat
			for _, n := range r.Foreign {
				if !byClass[n.Class] {
					byClass[n.Class] = true
					keep = append(keep, n)
				}
			}
			for _, n := range r.Foreign {
				if len(keep) >= 12 {
					break
				}
				keep = append(keep, n)
			}
			r.Foreign = keep
		}
	}
}

func (c *c18Child) evalHost(host string, sb *c18Sandbox, src string) (rel.Value, error, string) {
	e, cerr := core.Compiled(host)
	if cerr != nil {
		return nil, nil, "HARNESS: host template does not compile: " + cerr.Error()
	}
	// c18srcb: the same source handed over as a byte array (the *-bytes forms): the sandbox must
	// treat every representation of its source alike
	sc := rel.EmptyScope.With("c18sb", sb.fn).With("c18src", rel.NewString([]rune(src))).
		With("c18srcb", rel.NewBytes([]byte(src))).
		With("hostBound", rel.NewString([]rune(c.token("scope"))))
	ctx := c18EvalCtx()
	return c18Guard(func() (rel.Value, error) { return e.Eval(ctx, sc) })
}

func (c *c18Child) token(place string) string { return c18Token(c.cfg.Seed, place) }

func c18Token(seed uint64, place string) string {
	return fmt.Sprintf("%s-%s-%016x", c18TokenPrefix, place, core.Hash64(fmt.Sprintf("c18/%d/%s", seed, place)))
}

func (c *c18Child) runProg(p c18Prog) {
	c.step(func(k int) c18Rec {
		sb := c.sandbox(p.Cfg)
		r := c18Rec{Kind: "prog", Key: p.Key(), Cfg: p.Cfg.ID, CfgSrc: p.Cfg.Src, Src: c.subst(p.Src), Host: c.subst(p.Host),
			Routes: p.Routes, Target: p.Target, Form: p.Form, Chain: strings.Join(p.Chain, ">"), Direct: p.Direct,
			Entry: "//eval.evaluator(cfg).eval"}
		if p.Cfg.Src == "" {
			r.Entry = "//eval.eval"
		}
		if sb.err != "" {
			r.Outcome = "skipped"
			return r
		}
		r.Given = *sb.given
		r.DirGiven = c18DirectGiven(p.Direct, sb.given)
		for name, content := range p.Files {
			if !c.written[name] {
				c.written[name] = true
				_ = os.WriteFile(filepath.Join(c.dir, "work", name), []byte(c.subst(content)), 0o644)
			}
		}
		v, err, pm := c.evalHost(r.Host, sb, r.Src)
		r.observe(v, err, pm, sb.given)
		return r
	})
}

func c18DirectGiven(direct string, g *c18Given) bool {
	switch {
	case direct == "":
		return false
	case strings.HasPrefix(direct, "name:"):
		return g.scopeNames[strings.TrimPrefix(direct, "name:")]
	}
	if g.lib == nil {
		return false
	}
	_, ok := c18Lookup(g.lib, direct)
	return ok
}

// controls: the monitors must see a real file read, connect and execve in THIS traced process.
func (c *c18Child) runControls() {
	ctl := func(id, src string) {
		c.step(func(k int) c18Rec {
			r := c18Rec{Kind: "control", Key: "control|" + id, Target: id, Src: src}
			v, err, pm := c18HostEval(src)
			r.observe(v, err, pm, nil)
			r.Foreign = nil
			return r
		})
	}
	ctl("null", `1 + 1`)
	ctl("file", `//os.file(`+c18Q(c.home)+`)`)
	ctl("net", `//net.http.get((), `+c18Q(c18URL)+`)`)
	ctl("exec", `//deprecated.exec(["true"])`)
}

// full-library paths referenced by the direct-reference enumeration
func c18FullPaths() []string {
	idx := c18Index()
	seen := map[string]bool{}
	var out []string
	add := func(p string) {
		if !seen[p] {
			seen[p] = true
			out = append(out, p)
		}
	}
	c18WalkLib(idx.full, "", 0, func(path string, v rel.Value) {
		parts := strings.Split(path, ".")
		if len(parts) > 5 {
			return
		}
		for _, s := range parts {
			if !c18SimpleName.MatchString(s) {
				return
			}
		}
		add(path)
	})
	for _, p := range []string{"c18nosuch", "os.c18nosuch", "net.http.c18nosuch", "net.c18nosuch", "std.c18nosuch", "std.unsafe", "std.safe.net", "unsafe"} {
		add(p)
	}
	return out
}

func (c *c18Child) runPaths(cfgs []c18Cfg) {
	paths := c18FullPaths()
	for _, cf := range cfgs {
		sb := c.sandbox(cf)
		entry := "//eval.evaluator(cfg).eval"
		if cf.Src == "" {
			entry = "//eval.eval"
		}
		refs := make([][2]string, 0, len(paths)+4)
		for _, p := range paths {
			refs = append(refs, [2]string{"//" + p, p})
		}
		for _, n := range []string{"x", "f", "lib", "call", "hostBound", "c18sb", "c18src"} {
			refs = append(refs, [2]string{n, "name:" + n})
		}
		for _, ref := range refs {
			ref := ref
			c.step(func(k int) c18Rec {
				r := c18Rec{Kind: "path", Key: "path|" + cf.ID + "|" + ref[0], Cfg: cf.ID, CfgSrc: cf.Src, Src: ref[0],
					Host: `c18sb(c18src)`, Direct: ref[1], Entry: entry, Target: "path", Form: "get"}
				if sb.err != "" {
					r.Outcome = "skipped"
					return r
				}
				r.Given = *sb.given
				r.DirGiven = c18DirectGiven(ref[1], sb.given)
				v, err, pm := c.evalHost(r.Host, sb, r.Src)
				r.observe(v, err, pm, sb.given)
				return r
			})
		}
	}
}

// ---- audit of the safe library: call everything callable on benign arguments ----

type c18Callable struct {
	Path string
	V    rel.Value
}

func c18SafeCallables() []c18Callable {
	idx := c18Index()
	var out []c18Callable
	seenPtr := map[*rel.NativeFunction]bool{}
	seenSrc := map[string]bool{}
	c18WalkLib(idx.safe, "", 0, func(path string, v rel.Value) {
		switch x := v.(type) {
		case *rel.NativeFunction:
			if !seenPtr[x] {
				seenPtr[x] = true
				out = append(out, c18Callable{path, v})
			}
		case rel.Closure:
			k := strings.TrimPrefix(path, "std.safe.") + "\x00" + x.String()
			if !seenSrc[k] {
				seenSrc[k] = true
				out = append(out, c18Callable{path, v})
			}
		}
	})
	sort.SliceStable(out, func(i, j int) bool { return out[i].Path < out[j].Path })
	return out
}

func (c *c18Child) auditArgs() []rel.Value {
	return []rel.Value{
		rel.NewString([]rune(c.home)),
		rel.NewArray(rel.NewString([]rune("true"))),
		rel.NewString([]rune(c18URL)),
		rel.EmptyTuple,
		rel.NewString([]rune("canary_cwd.txt")),
		rel.NewNumber(1),
	}
}

func (c *c18Child) runAudit(part, parts int) {
	calls := c18SafeCallables()
	args := c.auditArgs()
	for i, cl := range calls {
		if i%parts != part {
			continue
		}
		cl := cl
		c.step(func(k int) c18Rec {
			r := c18Rec{Kind: "audit", Key: "audit|" + cl.Path, Target: cl.Path, Entry: "safe-lib://" + cl.Path, Outcome: "value"}
			var texts []string
			budget := 400
			ctx := c18EvalCtx()
			var explore func(f rel.Value, depth int)
			explore = func(f rel.Value, depth int) {
				fs, ok := f.(rel.Set)
				if !ok || depth >= 3 {
					return
				}
				for _, a := range args {
					if budget <= 0 {
						return
					}
					budget--
					r.Calls++
					v, err, pm := c18Guard(func() (rel.Value, error) { return rel.SetCall(ctx, fs, a) })
					switch {
					case pm != "":
						texts = append(texts, pm)
					case err != nil:
						texts = append(texts, c18ErrText(err))
					default:
						w := c18WalkValue(v)
						texts = append(texts, w.text.String())
						if c18IsCallable(v) {
							explore(v, depth+1)
						} else if t, ok := v.(rel.Tuple); ok && t.Count() <= 12 {
							for e := t.Enumerator(); e.MoveNext(); {
								if _, av := e.Current(); c18IsCallable(av) {
									explore(av, depth+1)
								}
							}
						}
					}
				}
			}
			explore(cl.V, 0)
			r.Tokens = c18Tokens(texts...)
			return r
		})
	}
}

// ---- case plan (shared by parent and child) ----

// Every case is one traced child (start-up of the interpreter costs ~4 s, so there are few, large
// cases): case j runs programs j, j+N, …, path configurations j, j+N, … and safe-library callables
// j, j+N, … of the deterministic lists.
func c18NumCases(cfg *core.Config) int { return cfg.Pick(12, 96) }

// c18ChildCase is RunCase inside the traced sub-worker.
func c18ChildCase(cfg *core.Config, i int) core.CaseResult {
	dir := os.Getenv("C18_CHILD")
	c := &c18Child{cfg: cfg, dir: dir, only: -1, sbs: map[string]*c18Sandbox{}, written: map[string]bool{},
		home: filepath.Join(dir, "home", "canary_home.txt")}
	if s := os.Getenv("C18_ONLY"); s != "" {
		if n, err := strconv.Atoi(s); err == nil {
			c.only = n
		}
	}
	c18Index()
	// per-step watchdog: only bounds the run (the parent reports the case as inconclusive); generous,
	// because the machine may be heavily loaded
	go func() {
		last, since := int64(-1), time.Now()
		for {
			time.Sleep(2 * time.Second)
			if k := c.kAtomic.Load(); k != last {
				last, since = k, time.Now()
			} else if time.Since(since) > 900*time.Second {
				_ = os.WriteFile(filepath.Join(dir, "stuck-step"), []byte(fmt.Sprintf("step %d", k)), 0o644)
				os.Exit(5)
			}
		}
	}()
	c18Index()
	n := c18NumCases(cfg)
	c.runControls()
	ps := c18Programs(cfg)
	for j := i; j < len(ps); j += n {
		c.cur = ps[j].Key()
		c.runProg(ps[j])
	}
	var cs []c18Cfg
	for j, cf := range c18PathCfgs(cfg) {
		if j%n == i {
			cs = append(cs, cf)
		}
	}
	c.cur = "paths"
	c.runPaths(cs)
	c.cur = "audit"
	c.runAudit(i, n)
	return core.CaseResult{Key: fmt.Sprintf("child-%d", i), Evals: len(c.out.Recs), Data: c.out}
}
