package checks

import (
	"bufio"
	"os"
	"regexp"
	"strconv"
	"strings"
)

// C18 effect monitor: parser for `strace -f -e trace=openat,open,connect,execve,execveat` output.
// Events are attributed to steps by the marker opens (/c18-marker/<k>/b|e) the child performs.

type c18Event struct {
	Line  int
	Pid   string
	Sys   string // openat | open | connect | execve | execveat
	Arg   string // path (open*, exec*) or the sockaddr text (connect)
	Ret   int    // syscall result (-1 on error); -2 when the result line is missing
	Stray bool   // observed after the step's end marker (still attributed to that step)
}

type c18Effects struct {
	CanaryOpens []string // successfully opened canary files
	Connects    []string // inet connect attempts (address text)
	OtherConn   int      // non-inet connects (unix sockets …): counted, not judged
	Execs       []string // execve'd paths (any result)
	Strays      int
	Opens       int // all open/openat calls in the window (evidence)
}

type c18Trace struct {
	Steps      map[int]*c18Effects
	Lines      int
	Markers    int
	Opens      int
	Connects   int
	Execs      int
	Unparsed   int
	PreMarkers int // events before the first marker (process start-up), ignored
}

var (
	c18ReLine    = regexp.MustCompile(`^(\d+)\s+(.*)$`)
	c18ReCall    = regexp.MustCompile(`^(openat|open|connect|execve|execveat)\((.*)$`)
	c18ReResumed = regexp.MustCompile(`^<\.\.\. (\w+) resumed>(.*)$`)
	c18ReRet     = regexp.MustCompile(`\)\s+=\s+(-?\d+|\?)`)
	c18ReQuoted  = regexp.MustCompile(`"((?:[^"\\]|\\.)*)"`)
	c18ReMarker  = regexp.MustCompile(`^/c18-marker/(\d+)/([be])$`)
)

func c18ParseRet(s string) int {
	ms := c18ReRet.FindAllStringSubmatch(s, -1)
	if len(ms) == 0 {
		return -2
	}
	m := ms[len(ms)-1]
	if m[1] == "?" {
		return -2
	}
	n, err := strconv.Atoi(m[1])
	if err != nil {
		return -2
	}
	return n
}

func c18IsCanaryPath(p string) bool {
	b := p
	if i := strings.LastIndexByte(p, '/'); i >= 0 {
		b = p[i+1:]
	}
	return strings.HasPrefix(b, "canary_")
}

// c18ParseTrace reads a strace output file.
func c18ParseTrace(path string) (*c18Trace, error) {
	f, err := os.Open(path)
	if err != nil {
		return nil, err
	}
	defer f.Close()
	tr := &c18Trace{Steps: map[int]*c18Effects{}}
	pending := map[string]*c18Event{} // pid -> unfinished call
	cur, ended := -1, false
	sc := bufio.NewScanner(f)
	sc.Buffer(make([]byte, 1<<20), 16<<20)
	finish := func(ev *c18Event) {
		// markers
		if (ev.Sys == "openat" || ev.Sys == "open") && strings.HasPrefix(ev.Arg, "/c18-marker/") {
			if m := c18ReMarker.FindStringSubmatch(ev.Arg); m != nil {
				k, _ := strconv.Atoi(m[1])
				tr.Markers++
				if m[2] == "b" {
					cur, ended = k, false
					if tr.Steps[k] == nil {
						tr.Steps[k] = &c18Effects{}
					}
				} else if k == cur {
					ended = true
				}
			}
			return
		}
		if cur < 0 {
			tr.PreMarkers++
			return
		}
		ef := tr.Steps[cur]
		if ended {
			ef.Strays++
		}
		switch ev.Sys {
		case "openat", "open":
			tr.Opens++
			ef.Opens++
			if ev.Ret >= 0 && c18IsCanaryPath(ev.Arg) {
				ef.CanaryOpens = append(ef.CanaryOpens, ev.Arg)
			}
		case "connect":
			tr.Connects++
			if strings.Contains(ev.Arg, "AF_INET") {
				ef.Connects = append(ef.Connects, ev.Arg)
			} else {
				ef.OtherConn++
			}
		case "execve", "execveat":
			tr.Execs++
			ef.Execs = append(ef.Execs, ev.Arg)
		}
	}
	for sc.Scan() {
		tr.Lines++
		m := c18ReLine.FindStringSubmatch(sc.Text())
		if m == nil {
			tr.Unparsed++
			continue
		}
		pid, rest := m[1], m[2]
		if strings.HasPrefix(rest, "---") || strings.HasPrefix(rest, "+++") {
			continue
		}
		if r := c18ReResumed.FindStringSubmatch(rest); r != nil {
			if ev, ok := pending[pid]; ok && ev.Sys == r[1] {
				delete(pending, pid)
				ev.Ret = c18ParseRet(r[2])
				finish(ev)
			}
			continue
		}
		c := c18ReCall.FindStringSubmatch(rest)
		if c == nil {
			tr.Unparsed++
			continue
		}
		ev := &c18Event{Line: tr.Lines, Pid: pid, Sys: c[1]}
		args := c[2]
		switch ev.Sys {
		case "connect":
			if i := strings.Index(args, "{"); i >= 0 {
				j := strings.Index(args, "}")
				if j > i {
					ev.Arg = args[i : j+1]
				} else {
					ev.Arg = args[i:]
				}
			}
		default:
			if q := c18ReQuoted.FindStringSubmatch(args); q != nil {
				ev.Arg = q[1]
			}
		}
		if strings.HasSuffix(rest, "<unfinished ...>") {
			ev.Ret = -2
			pending[pid] = ev
			// markers and windows follow the order in which calls START
			if strings.HasPrefix(ev.Arg, "/c18-marker/") {
				delete(pending, pid)
				finish(ev)
			}
			continue
		}
		ev.Ret = c18ParseRet(args)
		finish(ev)
	}
	// calls that never resumed (process exec'd or died): count them as attempts
	for _, ev := range pending {
		finish(ev)
	}
	return tr, sc.Err()
}
