package checks

import (
	"bytes"
	"context"
	"encoding/json"
	"fmt"
	"os"
	"path/filepath"
	"regexp"
	"sort"
	"strconv"
	"strings"

	"verif/core"

	"github.com/arr-ai/arrai/pkg/ctxfs"
	"github.com/arr-ai/arrai/pkg/ctxrootcache"
	"github.com/arr-ai/arrai/pkg/importcache"
	"github.com/arr-ai/arrai/pkg/test"
	"github.com/arr-ai/arrai/rel"
	"github.com/arr-ai/arrai/syntax"
	"github.com/spf13/afero"
)

// C20: `arrai test` passes exactly when every leaf of every test file is the literal true.
//
// Monitor: generated result trees and directory layouts are written to an afero MemMapFs; the real
// test.RunTests(ctx, w, target) runs over it; its error and the report it writes are compared with a
// leaf census taken over the *denotation* of every test file's value (generator trees and layouts:
// c20_gen.go). Second entry: test.ForeachLeaf is called directly on the evaluated value and the
// (value, path) pairs it feeds to the callback are compared with the same census.
//
// Census (reference model, denotation level): a tuple is a container (children = attributes); a
// non-empty set whose members are all (@: integer, @item: v) with distinct indices is an array
// (children = items; holes and offsets are just missing / shifted indices); a non-empty set whose
// members are all (@: k, @value: v) with distinct keys is a dictionary; everything else is a leaf:
// {()} = true, {} = false (this is also what `[]`, `""`, an empty dict denote -- the same value as
// `false`, so it must fail the run), anything else non-boolean.

type c20 struct{}

func init() { core.Register(c20{}) }

func (c20) ID() string    { return "C20" }
func (c20) Level() string { return "exploration" }
func (c20) Rule() string {
	return "core (seed-independent): every result tree of depth<=1 (arity<=3 over leaves {true,false,1}) in every container spelling " +
		"(tuple literal/merge/tuplefn; array literal/holes/offset/relation literal/tuple set/union/concat/with/map; dict literal/union/tuple set/relation/with/dictfn/non-string keys/multi-valued), " +
		"every depth-2 tree (outer tuple|array|dict|sparse offset array, arity 1..2, children = leaf or container of arity<=2), each run as its own one-file test run and again in batches as a multi-file directory; " +
		"a fixed list of directory layouts (nested, hidden dirs at every level, non-test names, files outside the target, file / hidden / cwd / missing targets, unevaluable files); " +
		"random slice from VERIF_SEED: layouts of 0..5 test files with trees of depth<=4 mixing all spellings, computed leaves, imports, error files and distractor files. " +
		"A case is non-trivial when at least one test file with >=1 leaf was run and judged; distinct by (target, file paths, file sources)."
}
func (c20) Assumptions() []string {
	return []string{
		"the expected leaves of a file come from evaluating its source with syntax.EvalWithScope on the same filesystem and walking the denotation (core.Denote): the evaluator itself is trusted here (C01-C10 judge it)",
		"the empty set is the literal false whatever its spelling ([] / \"\" / {}): equal values get equal verdicts",
		"multi-valued dictionaries and superimposed arrays are neither clearly a container nor clearly a leaf: only the verdict (fail under both readings) is judged for files containing one",
		"zero test files under the target, a target that is itself hidden / inside a hidden directory / not named *_test.arrai, and hidden *files* are left open by statement and docs: such files may or may not be run (judged against the set of files the report lists); the verdict for zero files is not judged",
		"a reported path must be unique within its file and mention, in order, the tuple attribute names and string dictionary keys on the way to the leaf; array indices and the exact path syntax are not judged (offset arrays are reported 0-based by the code)",
		"the report is observed by parsing the text RunTests writes (file headers, PASS/FAIL/??/SKIP lines, summary line); an unparsable report is inconclusive, not a violation",
		"docs/docs/lang/testing.md fixes passed = true leaves, failed = false leaves, invalid = all other leaves, and hidden *directories* (prefix '.') as the only skipped directories",
	}
}

// ------------------------------------------------------------------------------------------
// census over denotations

type c20Leaf struct {
	Comps []string // tuple attribute names and string dict keys on the way, in order
	Class byte     // 'T' literal true, 'F' literal false, 'O' anything else
	Enc   string
	Multi bool // stands for a multi-valued dict / superimposed array (container-or-leaf left open)
}

type c20Census struct {
	Leaves []c20Leaf
	Multi  bool // some node is a multi-valued dict / superimposed array
	Weird  bool // non-integer array index: nothing is judged for this file
	Hz     map[string]bool
}

func (c *c20Census) count(class byte) int {
	n := 0
	for _, l := range c.Leaves {
		if l.Class == class {
			n++
		}
	}
	return n
}

func (c *c20Census) allTrue() bool { return c.count('T') == len(c.Leaves) }

func c20HasExactly(t MV, a, b string) bool {
	if t.K != 't' || len(t.T) != 2 {
		return false
	}
	_, ok1 := t.T[a]
	_, ok2 := t.T[b]
	return ok1 && ok2
}

// c20StrKey decodes a model value that denotes a non-empty string at offset 0.
func c20StrKey(k MV) (string, bool) {
	if k.K != 's' || len(k.S) == 0 {
		return "", false
	}
	rs := make([]rune, len(k.S))
	seen := make([]bool, len(k.S))
	for _, e := range k.S {
		if !c20HasExactly(e, "@", "@char") || e.T["@"].K != 'n' || e.T["@char"].K != 'n' {
			return "", false
		}
		i := int(e.T["@"].N)
		if float64(i) != e.T["@"].N || i < 0 || i >= len(rs) || seen[i] {
			return "", false
		}
		seen[i] = true
		rs[i] = rune(int(e.T["@char"].N))
	}
	return string(rs), true
}

func c20Walk(m MV, comps []string, c *c20Census) {
	leaf := func(multi bool) {
		cl := byte('O')
		switch m.Enc {
		case core.MTrue.Enc:
			cl = 'T'
		case core.MEmpty.Enc:
			cl = 'F'
		}
		c.Leaves = append(c.Leaves, c20Leaf{Comps: append([]string{}, comps...), Class: cl, Enc: m.Enc, Multi: multi})
	}
	switch m.K {
	case 't':
		names := make([]string, 0, len(m.T))
		for n := range m.T {
			names = append(names, n)
		}
		sort.Strings(names)
		if len(names) == 0 {
			c.Hz["empty-tuple"] = true
		}
		for _, n := range names {
			if strings.ContainsAny(n, ".()'") {
				c.Hz["name-path-syntax"] = true
			}
			c20Walk(m.T[n], append(comps, n), c)
		}
		return
	case 's':
		if len(m.S) == 0 || m.Enc == core.MTrue.Enc {
			leaf(false)
			return
		}
		isArr, isDict := true, true
		for _, e := range m.S {
			if !(c20HasExactly(e, "@", "@item") && e.T["@"].K == 'n') {
				isArr = false
			}
			if !c20HasExactly(e, "@", "@value") {
				isDict = false
			}
		}
		switch {
		case isArr:
			idx := map[float64]bool{}
			lo, hi := m.S[0].T["@"].N, m.S[0].T["@"].N
			for _, e := range m.S {
				i := e.T["@"].N
				if i != float64(int64(i)) {
					c.Weird = true
				}
				if idx[i] {
					c.Multi = true
					c.Hz["array-super"] = true
					leaf(true)
					return
				}
				idx[i] = true
				if i < lo {
					lo = i
				}
				if i > hi {
					hi = i
				}
			}
			if lo != 0 {
				c.Hz["array-offset"] = true
			}
			if int(hi-lo)+1 != len(m.S) {
				c.Hz["array-holes"] = true
			}
			items := append([]MV{}, m.S...)
			sort.Slice(items, func(a, b int) bool { return items[a].T["@"].N < items[b].T["@"].N })
			for _, e := range items {
				c20Walk(e.T["@item"], comps, c)
			}
			return
		case isDict:
			keys := map[string]bool{}
			for _, e := range m.S {
				k := e.T["@"].Enc
				if keys[k] {
					c.Multi = true
					c.Hz["dict-multi"] = true
					leaf(true)
					return
				}
				keys[k] = true
			}
			for _, e := range m.S {
				if s, ok := c20StrKey(e.T["@"]); ok {
					if strings.ContainsAny(s, ".()'") {
						c.Hz["name-path-syntax"] = true
					}
					c20Walk(e.T["@value"], append(comps, s), c)
				} else {
					c.Hz["dict-nonstring-key"] = true
					c20Walk(e.T["@value"], comps, c)
				}
			}
			return
		}
	}
	leaf(false)
}

// ------------------------------------------------------------------------------------------
// report parsing (observation of what RunTests wrote)

type c20RepResult struct {
	Tag  string // PASS | FAIL | ?? | SKIP
	Name string
}

type c20RepFile struct {
	Header  string
	Results []c20RepResult
}

type c20Report struct {
	Files                                   []c20RepFile
	HasSummary                              bool
	Failed, Invalid, Ignored, Passed, Total int
}

var (
	c20ReHeader  = regexp.MustCompile(`^=======  (.+) \(([0-9,]+)ms\)$`)
	c20ReResult  = regexp.MustCompile("^\x1b\\[38;5;255;[0-9]+;1m(PASS|FAIL| \\?\\? |SKIP)\x1b\\[0m  (.*)$")
	c20ReSummary = regexp.MustCompile(`^(?:([0-9,]+) failed, )?(?:([0-9,]+) invalid, )?(?:([0-9,]+) ignored, )?([0-9,]+) passed of ([0-9,]+) total tests\. Took [0-9,]+ms\.$`)
)

func c20Atoi(s string) int {
	if s == "" {
		return 0
	}
	n, _ := strconv.Atoi(strings.ReplaceAll(s, ",", ""))
	return n
}

// c20ParseReport returns the parsed report, or a reason why the text is not understood.
func c20ParseReport(out string) (*c20Report, string) {
	rep := &c20Report{}
	if strings.TrimSpace(out) == "" {
		return rep, ""
	}
	lines := strings.Split(out, "\n")
	inSummary := false
	for _, ln := range lines {
		switch {
		case ln == "":
			continue
		case ln == "=======  Summary":
			if inSummary {
				return nil, "two summary headers"
			}
			inSummary = true
		case inSummary:
			m := c20ReSummary.FindStringSubmatch(ln)
			if m == nil || rep.HasSummary {
				return nil, "unrecognised summary line: " + clipStr(ln, 120)
			}
			rep.HasSummary = true
			rep.Failed, rep.Invalid, rep.Ignored, rep.Passed, rep.Total = c20Atoi(m[1]), c20Atoi(m[2]), c20Atoi(m[3]), c20Atoi(m[4]), c20Atoi(m[5])
		case strings.HasPrefix(ln, "=======  "):
			m := c20ReHeader.FindStringSubmatch(ln)
			if m == nil {
				return nil, "unrecognised file header: " + clipStr(ln, 120)
			}
			rep.Files = append(rep.Files, c20RepFile{Header: m[1]})
		case strings.HasPrefix(ln, "      "):
			// message line of the preceding result
			if len(rep.Files) == 0 || len(rep.Files[len(rep.Files)-1].Results) == 0 {
				return nil, "message line without a result: " + clipStr(ln, 120)
			}
		default:
			m := c20ReResult.FindStringSubmatch(ln)
			if m == nil {
				return nil, "unrecognised line: " + clipStr(ln, 120)
			}
			if len(rep.Files) == 0 {
				return nil, "result line before any file header"
			}
			f := &rep.Files[len(rep.Files)-1]
			f.Results = append(f.Results, c20RepResult{Tag: strings.TrimSpace(m[1]), Name: strings.TrimRight(m[2], " ")})
		}
	}
	if len(rep.Files) > 0 && !rep.HasSummary {
		return nil, "file sections without a summary"
	}
	return rep, ""
}

func clipStr(s string, n int) string {
	if len(s) > n {
		return s[:n] + "…"
	}
	return s
}

// ------------------------------------------------------------------------------------------
// running one layout

type c20File struct {
	Path string `json:"path"`
	Src  string `json:"src"`
	Role string `json:"role"` // test | optional | other
	Why  string `json:"why,omitempty"`
}

type c20Layout struct {
	Target string    `json:"target"`
	Files  []c20File `json:"files"`
	Tags   []string  `json:"tags,omitempty"`
}

func c20Ctx(l *c20Layout) (context.Context, afero.Fs) {
	fs := afero.NewMemMapFs()
	for _, f := range l.Files {
		_ = fs.MkdirAll(filepath.Dir(f.Path), 0o755)
		_ = afero.WriteFile(fs, f.Path, []byte(f.Src), 0o644)
	}
	for _, t := range l.Tags {
		if strings.HasPrefix(t, "mkdir:") {
			_ = fs.MkdirAll(strings.TrimPrefix(t, "mkdir:"), 0o755)
		}
	}
	ctx := ctxfs.SourceFsOnto(context.Background(), fs)
	return ctxrootcache.WithRootCache(ctx), fs
}

// c20RefCache memoises the reference evaluation of import-free sources (per worker process).
var c20RefCache = map[string]*c20FileModel{}

type c20FileModel struct {
	File    *c20File
	Val     rel.Value
	EvalOK  bool
	EvalErr string
	Census  *c20Census
}

// c20Stats is forwarded to Finish (numbers of things actually observed).
type c20Stats struct {
	Runs, Pass, Fail, ErrNoReport, FilesRun, LeavesJudged, ResultsParsed, ForeachLeaves, Unjudged, Uneval int
}

func c20HzList(ms []*c20FileModel, extra ...string) []string {
	set := map[string]bool{}
	for _, m := range ms {
		if m.Census != nil {
			for h := range m.Census.Hz {
				set[h] = true
			}
		}
		if !m.EvalOK {
			set["uneval-file"] = true
		}
	}
	for _, e := range extra {
		if e != "" {
			set[e] = true
		}
	}
	out := make([]string, 0, len(set))
	for h := range set {
		out = append(out, h)
	}
	sort.Strings(out)
	return out
}

// c20Match finds a perfect matching between reported entries and model leaves (edge = ok(i,j)).
func c20Match(n int, ok func(i, j int) bool) bool {
	matchL := make([]int, n)
	for i := range matchL {
		matchL[i] = -1
	}
	var try func(i int, seen []bool) bool
	try = func(i int, seen []bool) bool {
		for j := 0; j < n; j++ {
			if seen[j] || !ok(i, j) {
				continue
			}
			seen[j] = true
			if matchL[j] < 0 || try(matchL[j], seen) {
				matchL[j] = i
				return true
			}
		}
		return false
	}
	for i := 0; i < n; i++ {
		if !try(i, make([]bool, n)) {
			return false
		}
	}
	return true
}

func c20Mentions(name string, comps []string) bool {
	pos := 0
	for _, c := range comps {
		i := strings.Index(name[pos:], c)
		if i < 0 {
			return false
		}
		pos += i + len(c)
	}
	return true
}

var c20TagClass = map[string]byte{"PASS": 'T', "FAIL": 'F', "??": 'O'}

// c20RunLayout runs the real code over one layout and judges it. It appends to j / res.
func c20RunLayout(l *c20Layout, j *judge, st *c20Stats) {
	res := j.res
	ctx, _ := c20Ctx(l)
	cwd, _ := os.Getwd()

	// reference: evaluate every file that may be run, take the census
	var models []*c20FileModel
	byPath := map[string]*c20FileModel{}
	for i := range l.Files {
		f := &l.Files[i]
		m := &c20FileModel{File: f}
		byPath[filepath.Clean(f.Path)] = m
		if f.Role == "other" {
			continue
		}
		models = append(models, m)
		pure := !strings.Contains(f.Src, "//{")
		if pure {
			if c, ok := c20RefCache[f.Src]; ok {
				m.Val, m.EvalOK, m.EvalErr, m.Census = c.Val, c.EvalOK, c.EvalErr, c.Census
				if !m.EvalOK {
					st.Uneval++
				}
				continue
			}
		}
		defer func() {
			if pure && (m.EvalOK || m.EvalErr != "") && len(c20RefCache) < 50000 {
				c20RefCache[f.Src] = m
			}
		}()
		o := core.Guard(func() (rel.Value, error) {
			return syntax.EvalWithScope(importcache.WithNewImportCache(ctx), f.Path, f.Src, rel.Scope{})
		})
		switch {
		case o.Panic != nil:
			m.EvalErr = "panic: " + o.Panic.Msg
			res.Cover = append(res.Cover, "ref:eval-panic")
			res.Inconclusive = "reference evaluation panicked (evaluator defect, not C20): " + o.Panic.Sig() + " on " + clipStr(f.Src, 200)
			return
		case o.Err != nil:
			m.EvalErr = core.ErrText(o.Err)
			st.Uneval++
		default:
			mv, pi := core.SafeDenote(o.Val)
			if pi != nil {
				res.Inconclusive = "denote panicked: " + pi.Sig() + " on " + clipStr(f.Src, 200)
				return
			}
			m.Val, m.EvalOK = o.Val, true
			m.Census = &c20Census{Hz: map[string]bool{}}
			c20Walk(mv, nil, m.Census)
			if !pure {
				res.Cover = append(res.Cover, "ref:import-evaluated")
			}
		}
	}
	layoutHz := ""
	for _, t := range l.Tags {
		if strings.HasPrefix(t, "hz:") {
			layoutHz = strings.TrimPrefix(t, "hz:")
		}
	}
	replay := map[string]interface{}{"layout": l}
	desc := func() string {
		var sb strings.Builder
		fmt.Fprintf(&sb, "target=%q", l.Target)
		for _, f := range l.Files {
			fmt.Fprintf(&sb, " | %s[%s]: %s", f.Path, f.Role, clipStr(f.Src, 160))
		}
		return clipStr(sb.String(), 900)
	}

	// the real thing
	var buf bytes.Buffer
	var runErr error
	var pinfo *core.PanicInfo
	func() {
		defer func() {
			if r := recover(); r != nil {
				pinfo = core.NewPanicInfo(r)
			}
		}()
		runErr = test.RunTests(ctx, &buf, l.Target)
	}()
	res.Evals++
	st.Runs++
	if pinfo != nil {
		res.Cover = append(res.Cover, "outcome:panic")
		j.report("C20.verdict", "RunTests", "panic", pinfo.Sig(), "", c20HzList(models, layoutHz),
			"RunTests panicked ("+pinfo.Msg+") instead of reporting: "+desc(), replay)
		c20Foreach(models, j, st, replay)
		return
	}
	// ---- verdict, the part that needs no report: a nil error promises that every *_test.arrai file
	// under the target was run and every leaf was true; an error needs at least one reason ----
	weirdAny, optional, allGood := false, 0, true
	for _, m := range models {
		if m.Census != nil && m.Census.Weird {
			weirdAny = true
		}
		if m.File.Role != "test" {
			optional++
		}
		if !m.EvalOK || !m.Census.allTrue() {
			allGood = false
		}
	}
	if !weirdAny {
		for _, m := range models {
			if runErr != nil || m.File.Role != "test" {
				continue
			}
			if !m.EvalOK {
				j.report("C20.verdict", "RunTests", "pass-for-unevaluable", "", "", c20HzList(models, layoutHz),
					fmt.Sprintf("run succeeded although %s does not evaluate (%s): %s", m.File.Path, clipStr(m.EvalErr, 120), desc()), replay)
			} else if !m.Census.allTrue() {
				delta := "non-boolean-leaf"
				if m.Census.count('F') > 0 {
					delta = "false-leaf"
				}
				j.report("C20.verdict", "RunTests", "pass-for-nontrue", "", delta, c20HzList(models, layoutHz),
					fmt.Sprintf("run succeeded although %s has %d false and %d non-boolean leaves: %s", m.File.Path,
						m.Census.count('F'), m.Census.count('O'), desc()), replay)
			}
		}
	}
	rep, why := c20ParseReport(buf.String())
	if rep == nil {
		if runErr != nil && !weirdAny && optional == 0 && len(models) > 0 && allGood {
			j.report("C20.verdict", "RunTests", "fail-for-all-true", "", "", c20HzList(models, layoutHz),
				"run failed ("+clipStr(core.ErrText(runErr), 100)+") although every leaf of every test file is the literal true: "+desc(), replay)
		}
		res.Inconclusive = "report not understood: " + why
		return
	}

	// which files did the run report?
	var ran []*c20FileModel
	seenHdr := map[string]bool{}
	repOf := map[*c20FileModel]*c20RepFile{}
	filesOK := true
	for k := range rep.Files {
		rf := &rep.Files[k]
		var hit *c20FileModel
		for p, m := range byPath {
			r, rerr := filepath.Rel(cwd, p)
			if rf.Header == p || (rerr == nil && rf.Header == r) {
				hit = m
			}
		}
		switch {
		case hit == nil:
			filesOK = false
			j.report("C20.files", "RunTests", "unknown-file", "", "", c20HzList(models, layoutHz),
				fmt.Sprintf("report lists %q which is not a file of the layout: %s", rf.Header, desc()), replay)
		case seenHdr[rf.Header]:
			filesOK = false
			j.report("C20.files", "RunTests", "duplicate-file", "", "", c20HzList(models, layoutHz),
				fmt.Sprintf("report lists %q twice: %s", rf.Header, desc()), replay)
		case hit.File.Role == "other":
			filesOK = false
			j.report("C20.files", "RunTests", "extra-file", "", hit.File.Why, c20HzList(models, layoutHz),
				fmt.Sprintf("%s (%s) was run as a test file: %s", hit.File.Path, hit.File.Why, desc()), replay)
		default:
			ran = append(ran, hit)
			repOf[hit] = rf
		}
		seenHdr[rf.Header] = true
	}
	hasReport := len(rep.Files) > 0 || rep.HasSummary
	nRequired, nOptional := 0, 0
	anyUneval, allEval := false, true
	for _, m := range models {
		if m.File.Role == "test" {
			nRequired++
		} else {
			nOptional++
		}
		if !m.EvalOK {
			anyUneval = true
			allEval = false
		}
	}
	if hasReport {
		for _, m := range models {
			if m.File.Role == "test" && repOf[m] == nil {
				filesOK = false
				j.report("C20.files", "RunTests", "missing-file", "", "", c20HzList(models, layoutHz),
					fmt.Sprintf("%s is a *_test.arrai file under the target but the report does not list it: %s", m.File.Path, desc()), replay)
			}
		}
	}
	st.FilesRun += len(ran)

	// ---- verdict ----
	weird := false
	for _, m := range models {
		if m.Census != nil && m.Census.Weird {
			weird = true
		}
	}
	switch {
	case weird:
		st.Unjudged++
		res.Cover = append(res.Cover, "unjudged:non-integer-index")
	case runErr == nil:
		st.Pass++
		res.Cover = append(res.Cover, "outcome:nil")
		if !hasReport || len(ran) == 0 {
			// success without any file run
			if nRequired > 0 {
				j.report("C20.verdict", "RunTests", "pass-without-running", "", "", c20HzList(models, layoutHz),
					"run succeeded but no test file was reported although the target holds test files: "+desc(), replay)
			} else {
				st.Unjudged++
				res.Cover = append(res.Cover, "unjudged:zero-files-nil")
			}
			break
		}
		for _, m := range ran {
			if !m.EvalOK {
				j.report("C20.verdict", "RunTests", "pass-for-unevaluable", "", "", c20HzList(models, layoutHz),
					fmt.Sprintf("run succeeded although %s does not evaluate (%s): %s", m.File.Path, clipStr(m.EvalErr, 120), desc()), replay)
				continue
			}
			if !m.Census.allTrue() {
				delta := "non-boolean-leaf"
				if m.Census.count('F') > 0 {
					delta = "false-leaf"
				}
				j.report("C20.verdict", "RunTests", "pass-for-nontrue", "", delta, c20HzList(models, layoutHz),
					fmt.Sprintf("run succeeded although %s has %d false and %d non-boolean leaves: %s", m.File.Path,
						m.Census.count('F'), m.Census.count('O'), desc()), replay)
			}
		}
	default: // error
		if hasReport {
			st.Fail++
			res.Cover = append(res.Cover, "outcome:error+report")
			allTrue := filesOK
			for _, m := range ran {
				if !m.EvalOK || !m.Census.allTrue() {
					allTrue = false
				}
			}
			if allTrue && len(ran) > 0 {
				j.report("C20.verdict", "RunTests", "fail-for-all-true", "", "", c20HzList(models, layoutHz),
					"run failed ("+clipStr(core.ErrText(runErr), 100)+") although every leaf of every file it ran is the literal true: "+desc(), replay)
			}
		} else {
			st.ErrNoReport++
			res.Cover = append(res.Cover, "outcome:error-no-report")
			switch {
			case anyUneval:
				res.Cover = append(res.Cover, "verdict:error-for-unevaluable")
			case nRequired == 0:
				st.Unjudged++
				res.Cover = append(res.Cover, "unjudged:zero-files-error")
			case allEval:
				every := true
				for _, m := range models {
					if !m.Census.allTrue() {
						every = false
					}
				}
				if every {
					j.report("C20.verdict", "RunTests", "fail-for-all-true", "", "no-report", c20HzList(models, layoutHz),
						"run failed ("+clipStr(core.ErrText(runErr), 160)+") with no report although every file evaluates and every leaf is the literal true: "+desc(), replay)
				} else {
					j.report("C20.once", "RunTests", "no-report", "", "", c20HzList(models, layoutHz),
						"run failed ("+clipStr(core.ErrText(runErr), 160)+") without reporting any leaf although every file evaluates: "+desc(), replay)
				}
			}
		}
	}

	// ---- once / counts (only with a report, only for files whose census is unambiguous) ----
	if hasReport && !weird {
		exact := filesOK
		wantT, wantF, wantO := 0, 0, 0
		for _, m := range ran {
			if !m.EvalOK || m.Census.Multi {
				exact = false
				continue
			}
			rf := repOf[m]
			cs := m.Census
			wantT += cs.count('T')
			wantF += cs.count('F')
			wantO += cs.count('O')
			st.LeavesJudged += len(cs.Leaves)
			st.ResultsParsed += len(rf.Results)
			hz := c20HzList([]*c20FileModel{m}, layoutHz)
			names := map[string]bool{}
			dup := ""
			for _, r := range rf.Results {
				if names[r.Name] {
					dup = r.Name
				}
				names[r.Name] = true
			}
			if dup != "" {
				j.report("C20.once", "RunTests", "duplicate-path", "", "", hz,
					fmt.Sprintf("%s: path %q is reported more than once: %s", m.File.Path, dup, desc()), replay)
			}
			if len(rf.Results) != len(cs.Leaves) {
				mode := "missing-leaves"
				if len(rf.Results) > len(cs.Leaves) {
					mode = "extra-leaves"
				}
				j.report("C20.once", "RunTests", mode, "", "", hz,
					fmt.Sprintf("%s: %d results reported for %d leaves: %s", m.File.Path, len(rf.Results), len(cs.Leaves), desc()), replay)
				continue
			}
			// outcome multiset
			gotT, gotF, gotO, gotS := 0, 0, 0, 0
			for _, r := range rf.Results {
				switch r.Tag {
				case "PASS":
					gotT++
				case "FAIL":
					gotF++
				case "??":
					gotO++
				default:
					gotS++
				}
			}
			if gotT != cs.count('T') || gotF != cs.count('F') || gotO != cs.count('O') || gotS != 0 {
				j.report("C20.once", "RunTests", "wrong-outcomes", "", "", hz,
					fmt.Sprintf("%s: reported %d PASS/%d FAIL/%d ??/%d SKIP for %d true/%d false/%d other leaves: %s", m.File.Path,
						gotT, gotF, gotO, gotS, cs.count('T'), cs.count('F'), cs.count('O'), desc()), replay)
				continue
			}
			if len(cs.Leaves) <= 64 && !c20Match(len(cs.Leaves), func(a, b int) bool {
				return c20TagClass[rf.Results[a].Tag] == cs.Leaves[b].Class && c20Mentions(rf.Results[a].Name, cs.Leaves[b].Comps)
			}) {
				j.report("C20.once", "RunTests", "path-mismatch", "", "", hz,
					fmt.Sprintf("%s: reported names/outcomes cannot be assigned one-to-one to the leaves' routes: %s", m.File.Path, desc()), replay)
			}
		}
		if rep.HasSummary {
			if rep.Failed+rep.Invalid+rep.Ignored+rep.Passed != rep.Total {
				j.report("C20.counts", "RunTests", "count-mismatch", "", "sum", c20HzList(models, layoutHz),
					fmt.Sprintf("summary %d failed + %d invalid + %d ignored + %d passed != %d total: %s", rep.Failed, rep.Invalid, rep.Ignored, rep.Passed, rep.Total, desc()), replay)
			}
			if exact {
				res.Cover = append(res.Cover, "counts:judged")
				chk := func(what string, got, want int) {
					if got != want {
						j.report("C20.counts", "RunTests", "count-mismatch", "", what, c20HzList(models, layoutHz),
							fmt.Sprintf("summary says %d %s, the files run have %d: %s", got, what, want, desc()), replay)
					}
				}
				chk("total", rep.Total, wantT+wantF+wantO)
				chk("passed", rep.Passed, wantT)
				chk("failed", rep.Failed, wantF)
				chk("invalid", rep.Invalid, wantO)
				chk("ignored", rep.Ignored, 0)
			}
		}
	}
	c20Foreach(models, j, st, replay)
}

// c20Foreach feeds each evaluated file value to test.ForeachLeaf and compares what the callback
// receives with the census.
func c20Foreach(models []*c20FileModel, j *judge, st *c20Stats, replay interface{}) {
	type fed struct {
		enc, path string
		isNil     bool
	}
	for _, m := range models {
		if !m.EvalOK || m.Census.Weird {
			continue
		}
		var got []fed
		var pinfo *core.PanicInfo
		func() {
			defer func() {
				if r := recover(); r != nil {
					pinfo = core.NewPanicInfo(r)
				}
			}()
			test.ForeachLeaf(m.Val, "", func(v rel.Value, path string) {
				if v == nil {
					got = append(got, fed{path: path, isNil: true})
					return
				}
				got = append(got, fed{enc: core.Denote(v).Enc, path: path})
			})
		}()
		j.res.Evals++
		hz := c20HzList([]*c20FileModel{m})
		src := clipStr(m.File.Src, 300)
		if pinfo != nil {
			j.report("C20.once", "ForeachLeaf", "panic", pinfo.Sig(), "", hz, "ForeachLeaf panicked ("+pinfo.Msg+") on "+src, replay)
			continue
		}
		nils := 0
		for _, g := range got {
			if g.isNil {
				nils++
			}
		}
		if nils > 0 {
			j.report("C20.once", "ForeachLeaf", "nil-leaf", "", "", hz,
				fmt.Sprintf("ForeachLeaf handed %d nil value(s) to the leaf action on %s", nils, src), replay)
			continue
		}
		if m.Census.Multi {
			continue
		}
		st.ForeachLeaves += len(got)
		cs := m.Census
		if len(got) != len(cs.Leaves) {
			mode := "missing-leaves"
			if len(got) > len(cs.Leaves) {
				mode = "extra-leaves"
			}
			j.report("C20.once", "ForeachLeaf", mode, "", "", hz,
				fmt.Sprintf("ForeachLeaf visited %d leaves, the value has %d: %s", len(got), len(cs.Leaves), src), replay)
			continue
		}
		paths := map[string]bool{}
		for _, g := range got {
			if paths[g.path] {
				j.report("C20.once", "ForeachLeaf", "duplicate-path", "", "", hz,
					fmt.Sprintf("ForeachLeaf used path %q twice on %s", g.path, src), replay)
				break
			}
			paths[g.path] = true
		}
		if len(cs.Leaves) <= 64 && !c20Match(len(cs.Leaves), func(a, b int) bool {
			return got[a].enc == cs.Leaves[b].Enc && c20Mentions(got[a].path, cs.Leaves[b].Comps)
		}) {
			j.report("C20.once", "ForeachLeaf", "path-mismatch", "", "", hz,
				"ForeachLeaf's (value, path) pairs cannot be assigned one-to-one to the leaves and their routes: "+src, replay)
		}
	}
}

// ------------------------------------------------------------------------------------------
// cases

func (c20) NumCases(cfg *core.Config) int {
	return c20NumCoreCases(cfg) + len(c20FixedLayouts()) + cfg.Pick(c20RandomQuick, c20RandomThorough)
}

const (
	c20Batch          = 24
	c20RandomQuick    = 1000
	c20RandomThorough = 20000
)

func c20NumCoreCases(cfg *core.Config) int {
	n := len(c20CoreTrees(cfg.Thorough()))
	return (n + c20Batch - 1) / c20Batch
}

func (c20) RunCase(cfg *core.Config, i int) core.CaseResult {
	res := core.CaseResult{}
	j := &judge{prop: "C20", res: &res, seen: map[string]bool{}}
	st := &c20Stats{}
	nCore := c20NumCoreCases(cfg)
	fixed := c20FixedLayouts()
	var layouts []*c20Layout
	switch {
	case i < nCore:
		trees := c20CoreTrees(cfg.Thorough())
		lo, hi := i*c20Batch, (i+1)*c20Batch
		if hi > len(trees) {
			hi = len(trees)
		}
		batch := &c20Layout{Target: "/w/t", Tags: []string{"kind:core-batch"}}
		for k := lo; k < hi; k++ {
			src := trees[k].src()
			for _, sp := range trees[k].spells(nil) {
				res.Cover = append(res.Cover, "spell:"+sp)
			}
			layouts = append(layouts, &c20Layout{Target: "/w/t", Tags: []string{"kind:core-single"},
				Files: []c20File{{Path: "/w/t/one_test.arrai", Src: src, Role: "test"}}})
			dir := []string{"", "sub/", "sub/deep/"}[k%3]
			batch.Files = append(batch.Files, c20File{Path: fmt.Sprintf("/w/t/%sc%05d_test.arrai", dir, k), Src: src, Role: "test"})
		}
		batch.Files = append(batch.Files,
			c20File{Path: "/w/t/.hid/p_test.arrai", Src: "(poison: false)", Role: "other", Why: "hidden-dir"},
			c20File{Path: "/w/t/sub/notes.arrai", Src: "(poison: false)", Role: "other", Why: "non-test-name"})
		layouts = append(layouts, batch)
		res.Cover = append(res.Cover, "case:core")
		defer func() {
			if st.Uneval > 0 { // generator self-check: every core tree must evaluate
				res.Cover = append(res.Cover, "core:unevaluable-tree")
			}
		}()
	case i < nCore+len(fixed):
		layouts = append(layouts, fixed[i-nCore])
		res.Cover = append(res.Cover, "case:fixed-layout")
	default:
		r := core.NewRng(cfg.Seed, 20, uint64(i))
		l := c20RandomLayout(r)
		layouts = append(layouts, l)
		res.Cover = append(res.Cover, "case:random")
	}
	var key strings.Builder
	for _, l := range layouts {
		for _, t := range l.Tags {
			if strings.HasPrefix(t, "kind:") || strings.HasPrefix(t, "layout:") || strings.HasPrefix(t, "file:") || strings.HasPrefix(t, "spell:") || strings.HasPrefix(t, "leaf:") {
				res.Cover = append(res.Cover, t)
			}
		}
		before := st.LeavesJudged
		c20RunLayout(l, j, st)
		if res.Inconclusive != "" {
			break
		}
		fmt.Fprintf(&key, "%s;", l.Target)
		for _, f := range l.Files {
			fmt.Fprintf(&key, "%s=%s;", f.Path, f.Src)
		}
		if st.LeavesJudged > before {
			res.NonTrivial = true
			if len(layouts) > 1 {
				res.SubKeys = append(res.SubKeys, fmt.Sprintf("%s|%s", l.Target, c20FilesKey(l)))
			}
		}
	}
	res.Key = key.String()
	res.Data = st
	if i%211 == 5 || (i >= nCore && i%53 == 7) {
		l := layouts[len(layouts)-1]
		var sb strings.Builder
		fmt.Fprintf(&sb, "arrai test %q over {", l.Target)
		for k, f := range l.Files {
			if k >= 4 {
				fmt.Fprintf(&sb, " …(%d files)", len(l.Files))
				break
			}
			fmt.Fprintf(&sb, " %s: `%s`", f.Path, clipStr(f.Src, 120))
		}
		sb.WriteString(" }")
		res.Sample = sb.String()
	}
	return res
}

func c20FilesKey(l *c20Layout) string {
	var sb strings.Builder
	for _, f := range l.Files {
		sb.WriteString(f.Path + "=" + f.Src + ";")
	}
	return sb.String()
}

func (c20) Finish(cfg *core.Config, agg *core.Aggregate) {
	var tot c20Stats
	for _, d := range agg.Data {
		var s c20Stats
		if json.Unmarshal(d.Data, &s) != nil {
			continue
		}
		tot.Runs += s.Runs
		tot.Pass += s.Pass
		tot.Fail += s.Fail
		tot.ErrNoReport += s.ErrNoReport
		tot.FilesRun += s.FilesRun
		tot.LeavesJudged += s.LeavesJudged
		tot.ResultsParsed += s.ResultsParsed
		tot.ForeachLeaves += s.ForeachLeaves
		tot.Unjudged += s.Unjudged
	}
	agg.Data = nil
	agg.Extra["runtests_runs"] = tot.Runs
	agg.Extra["runs_nil_error"] = tot.Pass
	agg.Extra["runs_failed_with_report"] = tot.Fail
	agg.Extra["runs_error_without_report"] = tot.ErrNoReport
	agg.Extra["test_files_reported"] = tot.FilesRun
	agg.Extra["leaves_judged_against_report"] = tot.LeavesJudged
	agg.Extra["result_lines_parsed"] = tot.ResultsParsed
	agg.Extra["leaves_seen_via_ForeachLeaf"] = tot.ForeachLeaves
	agg.Extra["runs_with_unjudged_verdict"] = tot.Unjudged
	agg.Extra["exhaustive"] = true
	agg.Extra["exhaustive_scope"] = "all trees of depth<=1 x every spelling (arity<=3, leaves {true,false,1}); all depth-2 trees with outer tuple/array/dict/sparse-offset-array of arity 1..2 over children {leaf | tuple/array/dict of arity<=2}"
	floor := func(tag string, n int) {
		if agg.Cover[tag] < n {
			agg.Fail("coverage floor: tag %s seen %d times (< %d)", tag, agg.Cover[tag], n)
		}
	}
	if agg.Cover["core:unevaluable-tree"] > 0 {
		agg.Fail("generator defect: %d core batches contain a tree whose source does not evaluate", agg.Cover["core:unevaluable-tree"])
	}
	floor("ref:import-evaluated", 20)
	floor("outcome:nil", 100)
	floor("outcome:error+report", 100)
	floor("outcome:error-no-report", 20)
	floor("verdict:error-for-unevaluable", 10)
	floor("counts:judged", 200)
	floor("case:core", 10)
	floor("case:fixed-layout", 10)
	floor("case:random", 100)
	for _, t := range []string{"layout:hidden-dir", "layout:non-test-name", "layout:outside-target", "layout:file-target", "layout:cwd-target",
		"layout:zero-files", "layout:nested", "layout:hidden-target", "file:import", "file:uneval", "file:unconsumed"} {
		floor(t, 2) // the fixed layouts alone guarantee 2; the random slice adds more
	}
	for _, sp := range c20AllSpells {
		floor("spell:"+sp, 5)
	}
	if tot.LeavesJudged < 5000 || tot.ResultsParsed < 5000 || tot.ForeachLeaves < 5000 {
		agg.Fail("coverage floor: leaves judged %d / result lines parsed %d / ForeachLeaf leaves %d (< 5000)", tot.LeavesJudged, tot.ResultsParsed, tot.ForeachLeaves)
	}
	if tot.Unjudged*4 > tot.Runs {
		agg.Fail("more than a quarter of the runs (%d of %d) had an unjudged verdict", tot.Unjudged, tot.Runs)
	}
}
