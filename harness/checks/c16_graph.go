package checks

import (
	"fmt"
	"os"
	"path/filepath"
	"sort"
	"strconv"
	"strings"
	"sync"

	"verif/core"

	"github.com/arr-ai/arrai/rel"
	"github.com/arr-ai/arrai/syntax"
)

// Clauses (b) consistency and (c) cycles: generated import graphs written into the world.
// Every graph file evaluates to (tok: "<unique>", deps: [<value of each import>]); the entry file
// additionally carries eqs: [ //{s1} = //{s2} ... ] for pairs of spellings of one target.

type c16GDep struct {
	Target int
	Spell  string
	Canon  bool   // plain ./seg/seg or /seg/seg spelling, optional .arrai
	Wrap   string // "", dead-branch, fn-body, unused-let: syntactic position of the import
}

type c16GFile struct {
	Dir  string // relative to B
	Name string // base name without extension
	Tok  string
	Deps []c16GDep
}

type c16Graph struct {
	Layout int
	Mode   string
	Files  []c16GFile // Files[0] is the entry
	Eqs    [][2]string
	Cyclic bool
	Canon  bool // every spelling is canonical
	Desc   string
}

func (f c16GFile) pathRel() string { return filepath.Join(f.Dir, f.Name+".arrai") }

func c16DepSrc(d c16GDep) string {
	imp := "//{" + d.Spell + "}"
	switch d.Wrap {
	case "dead-branch":
		return "cond {1 = 2: " + imp + ", _: 0}"
	case "fn-body":
		return "((\\c16z " + imp + ") -> 0)"
	case "unused-let":
		return "(let c16u = " + imp + "; 0)"
	}
	return imp
}

func (g *c16Graph) source(i int) string {
	f := g.Files[i]
	var deps []string
	for _, d := range f.Deps {
		deps = append(deps, c16DepSrc(d))
	}
	s := `(tok: "` + f.Tok + `", deps: [` + strings.Join(deps, ", ") + `]`
	if i == 0 {
		var eqs []string
		for _, e := range g.Eqs {
			eqs = append(eqs, "//{"+e[0]+"} = //{"+e[1]+"}")
		}
		s += `, eqs: [` + strings.Join(eqs, ", ") + `]`
	}
	return s + ")"
}

// expected value of file i for an acyclic, canonical graph
func (g *c16Graph) model(i int, memo map[int]core.MV) core.MV {
	if v, ok := memo[i]; ok {
		return v
	}
	f := g.Files[i]
	var deps []core.MV
	for _, d := range f.Deps {
		if d.Wrap != "" {
			deps = append(deps, core.Num(0))
		} else {
			deps = append(deps, g.model(d.Target, memo))
		}
	}
	kv := []interface{}{"tok", core.MStr(f.Tok), "deps", core.MArr(deps...)}
	if i == 0 {
		var eqs []core.MV
		for range g.Eqs {
			eqs = append(eqs, core.MTrue)
		}
		kv = append(kv, "eqs", core.MArr(eqs...))
	}
	v := core.T2(kv...)
	memo[i] = v
	return v
}

// ---- spellings ----

func c16RelSlash(from, to string) (string, bool) {
	r, err := filepath.Rel(from, to)
	if err != nil || r == ".." || strings.HasPrefix(r, "../") || r == "." {
		return "", false
	}
	return r, true
}

// canonical spellings of target (absolute path without extension) from an importer in dir with root
func c16CanonSpellings(w *c16World, importerDirAbs, targetNoExt string) []string {
	var out []string
	if r, ok := c16RelSlash(importerDirAbs, targetNoExt); ok {
		out = append(out, "./"+r)
	}
	if root, has := w.root(importerDirAbs); has {
		if r, ok := c16RelSlash(root, targetNoExt); ok {
			out = append(out, "/"+r)
		}
	}
	return out
}

// fancy rewrites of a canonical spelling that lexical cleaning maps back onto it
func c16Fancy(r *core.Rng, s string) string {
	segs := strings.Split(s, "/") // segs[0] is "." or ""
	i := 1 + r.Intn(len(segs)-1)
	switch r.Intn(6) {
	case 0: // detour through a directory name and back
		segs = append(segs[:i], append([]string{"zz", ".."}, segs[i:]...)...)
	case 1: // doubled separator
		segs = append(segs[:i], append([]string{""}, segs[i:]...)...)
	case 2:
		segs = append(segs[:i], append([]string{"."}, segs[i:]...)...)
	case 3:
		return s + " "
	case 4:
		return s + "\t"
	case 5:
		if segs[0] == "" { // rooted: climbing above the root is clamped to the root
			segs = append([]string{"", ".."}, segs[1:]...)
		} else {
			return s + ".arrai"
		}
	}
	return strings.Join(segs, "/")
}

// ---- generators ----

var c16GNames = []string{"n0", "n1", "n2", "n3"}

func c16PlaceFiles(r *core.Rng, n int, dirs []string) []c16GFile {
	used := map[string]bool{}
	var fs []c16GFile
	for len(fs) < n {
		f := c16GFile{Dir: core.Pick(r, dirs), Name: core.Pick(r, c16GNames)}
		if used[f.pathRel()] {
			continue
		}
		used[f.pathRel()] = true
		f.Tok = fmt.Sprintf("c16G%03d", len(fs))
		fs = append(fs, f)
	}
	return fs
}

func (g *c16Graph) spell(w *c16World, r *core.Rng, from, to int, fancy bool) (c16GDep, bool) {
	tgt := strings.TrimSuffix(w.abs(g.Files[to].pathRel()), ".arrai")
	opts := c16CanonSpellings(w, w.abs(g.Files[from].Dir), tgt)
	if len(opts) == 0 {
		return c16GDep{}, false
	}
	s := core.Pick(r, opts)
	d := c16GDep{Target: to, Spell: s, Canon: true}
	switch {
	case fancy && r.Chance(1, 2):
		d.Spell, d.Canon = c16Fancy(r, s), false
	case r.Chance(1, 4):
		d.Spell = s + ".arrai"
	}
	return d, true
}

// random DAG (edges only from lower to higher index)
func c16RandDAG(w *c16World, r *core.Rng, layout int, mode string, fancy bool) *c16Graph {
	g := &c16Graph{Layout: layout, Mode: mode, Canon: !fancy}
	dirs := c16TreeDirs
	if r.Chance(1, 3) { // concentrate on few directories so that downward ./ edges are common
		dirs = []string{"w/m", "w/m/sub", "w/m/sub/a"}
	}
	g.Files = c16PlaceFiles(r, r.Range(2, 7), dirs)
	// keep the entry high in the tree so that it can reach the others
	sort.SliceStable(g.Files, func(i, j int) bool { return len(g.Files[i].Dir) < len(g.Files[j].Dir) })
	for i := range g.Files {
		g.Files[i].Tok = fmt.Sprintf("c16G%03d", i)
	}
	for i := range g.Files {
		for j := i + 1; j < len(g.Files); j++ {
			if !r.Chance(3, 5) {
				continue
			}
			k := 1
			if r.Chance(1, 3) {
				k = r.Range(2, 3) // the same file through k spellings from one importer
			}
			for ; k > 0; k-- {
				if d, ok := g.spell(w, r, i, j, fancy); ok {
					g.Files[i].Deps = append(g.Files[i].Deps, d)
				}
			}
		}
	}
	// eqs: pairs of distinct canonical spellings of one target from the entry
	byT := map[int][]string{}
	for _, d := range g.Files[0].Deps {
		tgt := strings.TrimSuffix(w.abs(g.Files[d.Target].pathRel()), ".arrai")
		for _, s := range c16CanonSpellings(w, w.abs(g.Files[0].Dir), tgt) {
			byT[d.Target] = append(byT[d.Target], s, s+".arrai")
		}
	}
	var ts []int
	for t := range byT {
		ts = append(ts, t)
	}
	sort.Ints(ts)
	for _, t := range ts {
		ss := byT[t]
		a := core.Pick(r, ss)
		b := core.Pick(r, ss)
		g.Eqs = append(g.Eqs, [2]string{a, b})
	}
	g.Desc = fmt.Sprintf("dag n=%d fancy=%v", len(g.Files), fancy)
	return g
}

func (g *c16Graph) reach(from int) map[int]bool {
	seen := map[int]bool{from: true}
	stack := []int{from}
	for len(stack) > 0 {
		x := stack[len(stack)-1]
		stack = stack[:len(stack)-1]
		for _, d := range g.Files[x].Deps {
			if !seen[d.Target] {
				seen[d.Target] = true
				stack = append(stack, d.Target)
			}
		}
	}
	return seen
}

var c16Wraps = []string{"", "dead-branch", "fn-body", "unused-let"}

// closeCycle adds one back edge j -> i (i reaches j, entry reaches j); false if impossible.
func (g *c16Graph) closeCycle(w *c16World, r *core.Rng) bool {
	fromEntry := g.reach(0)
	type pr struct{ i, j int }
	var cands []pr
	for i := range g.Files {
		if !fromEntry[i] {
			continue
		}
		ri := g.reach(i)
		for j := range g.Files {
			if ri[j] {
				tgt := strings.TrimSuffix(w.abs(g.Files[i].pathRel()), ".arrai")
				if len(c16CanonSpellings(w, w.abs(g.Files[j].Dir), tgt)) > 0 {
					cands = append(cands, pr{i, j})
				}
			}
		}
	}
	if len(cands) == 0 {
		return false
	}
	c := core.Pick(r, cands)
	d, _ := g.spell(w, r, c.j, c.i, false)
	d.Wrap = core.Pick(r, c16Wraps)
	g.Files[c.j].Deps = append(g.Files[c.j].Deps, d)
	g.Cyclic = true
	g.Desc += fmt.Sprintf(" +back-edge %d->%d (%s)", c.j, c.i, d.Wrap)
	return true
}

// core cycle shapes
var c16Reaches = []string{"on-cycle", "tail", "diamond", "diamond-back"}
var c16Styles = []string{"rel", "root", "mixed"}

type c16CycleSpec struct {
	K     int
	Reach string
	Style string
	Wrap  string
	Mode  string
}

var c16CycleSpecs = func() []c16CycleSpec {
	var out []c16CycleSpec
	for k := 1; k <= 4; k++ {
		for _, rc := range c16Reaches {
			for _, st := range c16Styles {
				for _, wr := range c16Wraps {
					for _, m := range c16Modes {
						out = append(out, c16CycleSpec{k, rc, st, wr, m})
					}
				}
			}
		}
	}
	return out
}()

// c16CoreCycle builds the cyclic graph of a spec; the closing edge is the LAST dep of its file, so
// dropping it yields the acyclic twin.
func c16CoreCycle(cfg *core.Config, idx int) (*c16Graph, *c16World, int, error) {
	sp := c16CycleSpecs[idx]
	layoutName := map[string][]string{"rel": {"nomod", "mod", "nested"}, "root": {"mod", "nested", "outermod"},
		"mixed": {"mod", "nested", "submod"}}[sp.Style][idx%3]
	layout := 0
	for i, l := range c16Layouts {
		if l.Name == layoutName {
			layout = i
		}
	}
	w, err := c16WorldFor(cfg, c16Layouts[layout])
	if err != nil {
		return nil, nil, 0, err
	}
	g := &c16Graph{Layout: layout, Mode: sp.Mode, Cyclic: true, Canon: true,
		Desc: fmt.Sprintf("cycle k=%d reach=%s style=%s closing=%q layout=%s", sp.K, sp.Reach, sp.Style, sp.Wrap, layoutName)}
	r := core.NewRng(7, 16, uint64(idx)) // seed-independent: the core corpus
	// directories: rel style keeps everything in one directory; the others spread below w/m/sub
	// (inside every module root used by these layouts)
	dirOf := func(i int) string {
		if sp.Style == "rel" {
			return "w/m/sub"
		}
		return []string{"w/m/sub", "w/m/sub/a", "w/m/sub/sub", "w/m/sub/a/sub"}[i%4]
	}
	add := func(name string, i int) int {
		g.Files = append(g.Files, c16GFile{Dir: dirOf(i), Name: name, Tok: fmt.Sprintf("c16G%03d", len(g.Files))})
		return len(g.Files) - 1
	}
	edge := func(from, to int, wrap string) error {
		tgt := strings.TrimSuffix(w.abs(g.Files[to].pathRel()), ".arrai")
		opts := c16CanonSpellings(w, w.abs(g.Files[from].Dir), tgt)
		var pick string
		for _, o := range opts {
			isRel := strings.HasPrefix(o, "./")
			if (sp.Style == "rel" && isRel) || (sp.Style == "root" && !isRel) {
				pick = o
			}
		}
		if sp.Style == "mixed" && len(opts) > 0 {
			pick = core.Pick(r, opts)
		}
		if pick == "" {
			return fmt.Errorf("c16 generator: no %s spelling from %s to %s in %s", sp.Style, g.Files[from].pathRel(), g.Files[to].pathRel(), layoutName)
		}
		if r.Chance(1, 4) {
			pick += ".arrai"
		}
		g.Files[from].Deps = append(g.Files[from].Deps, c16GDep{Target: to, Spell: pick, Canon: true, Wrap: wrap})
		return nil
	}
	var es [][3]interface{}
	E := func(a, b int, wrap string) { es = append(es, [3]interface{}{a, b, wrap}) }
	closer := -1
	switch sp.Reach {
	case "on-cycle":
		for i := 0; i < sp.K; i++ {
			add("c"+strconv.Itoa(i), i)
		}
		for i := 0; i+1 < sp.K; i++ {
			E(i, i+1, "")
		}
		E(sp.K-1, 0, sp.Wrap)
		closer = sp.K - 1
	case "tail":
		add("e", 0)
		for i := 0; i < sp.K; i++ {
			add("c"+strconv.Itoa(i), i)
		}
		E(0, 1, "")
		for i := 1; i < sp.K; i++ {
			E(i, i+1, "")
		}
		E(sp.K, 1, sp.Wrap)
		closer = sp.K
	case "diamond":
		add("e", 0)
		add("l", 0)
		add("r", 1)
		for i := 0; i < sp.K; i++ {
			add("c"+strconv.Itoa(i), i)
		}
		E(0, 1, "")
		E(0, 2, "")
		E(1, 3, "")
		E(2, 3, "")
		for i := 3; i < 3+sp.K-1; i++ {
			E(i, i+1, "")
		}
		E(3+sp.K-1, 3, sp.Wrap)
		closer = 3 + sp.K - 1
	case "diamond-back": // the cycle closes back into the top of the diamond
		add("e", 0)
		add("l", 0)
		add("r", 1)
		add("j", 2)
		prev := 3
		for i := 1; i < sp.K; i++ {
			prev = add("c"+strconv.Itoa(i), i)
		}
		E(0, 1, "")
		E(0, 2, "")
		E(1, 3, "")
		E(2, 3, "")
		for i := 3; i < prev; i++ {
			E(i, i+1, "")
		}
		E(prev, 0, sp.Wrap)
		closer = prev
	}
	for _, e := range es {
		if err := edge(e[0].(int), e[1].(int), e[2].(string)); err != nil {
			return nil, nil, 0, err
		}
	}
	return g, w, closer, nil
}

// ---- running a graph ----

func (g *c16Graph) install(w *c16World) {
	for i := range g.Files {
		p := w.abs(g.Files[i].pathRel())
		_ = w.mem.MkdirAll(filepath.Dir(p), 0o755)
		w.write(p, g.source(i))
	}
}

func (g *c16Graph) uninstall(w *c16World) {
	for i := range g.Files {
		_ = w.mem.Remove(w.abs(g.Files[i].pathRel()))
	}
}

func (g *c16Graph) describe() string {
	var sb strings.Builder
	sb.WriteString(g.Desc + " layout=" + c16Layouts[g.Layout].Name + " mode=" + g.Mode + "\n")
	for i := range g.Files {
		sb.WriteString("  B/" + g.Files[i].pathRel() + ": " + g.source(i) + "\n")
	}
	return sb.String()
}

// tokGroups walks a denotation and collects, per graph token, the encodings of the tuples carrying it.
func c16TokGroups(m core.MV, tokEnc map[string]string, into map[string]map[string]bool) {
	switch m.K {
	case 't':
		if t, ok := m.T["tok"]; ok {
			if tok, ok := tokEnc[t.Enc]; ok {
				if into[tok] == nil {
					into[tok] = map[string]bool{}
				}
				into[tok][m.Enc] = true
			}
		}
		for _, v := range m.T {
			c16TokGroups(v, tokEnc, into)
		}
	case 's':
		for _, v := range m.S {
			c16TokGroups(v, tokEnc, into)
		}
	}
}

// c16RunGraph evaluates the entry of g and judges clauses (a), (b), (c).
func c16RunGraph(w *c16World, g *c16Graph, res *core.CaseResult, st c16Stats, seen map[string]bool, kind string) {
	g.install(w)
	defer g.uninstall(w)
	cwd, script := w.address(g.Mode, g.Files[0].Dir, g.Files[0].Name+".arrai")
	run := c16Eval(w, cwd, script, g.source(0))
	res.Evals++
	if run.text == "HARNESS" {
		res.Inconclusive = core.ErrText(run.out.Err)
		return
	}
	hz := []string{map[bool]string{true: "srcdir-abs", false: "srcdir-rel"}[g.Mode == c16ModeAbs]}
	if !g.Canon {
		hz = append(hz, "fancy-spelling")
	}
	sort.Strings(hz)
	replay := map[string]string{"graph": g.describe(), "entry": script, "cwd": w.rel(cwd)}
	emit := func(clause, mode, delta, detail string) {
		sig := core.Signature{Clause: clause, Entry: kind, Mode: mode, Hazards: hz, Delta: delta}
		if run.out.Panic != nil {
			sig.Site = run.out.Panic.Sig()
		}
		k := sig.String()
		if seen[k] {
			return
		}
		seen[k] = true
		res.Viols = append(res.Viols, core.Violation{Sig: sig, Detail: detail + "\n" + g.describe(), Replay: replay})
	}
	// (a) every content read is one of the graph's own files (each edge targets a file beneath its importer's root)
	own := map[string]bool{}
	for i := range g.Files {
		own[w.abs(g.Files[i].pathRel())] = true
	}
	perFile := map[string]int{}
	for _, e := range c16ContentReads(run.evs) {
		if own[e.Abs] {
			st["graph-reads"]++
			if perFile[e.Abs]++; perFile[e.Abs] == 2 {
				st["graph-files-read-more-than-once-in-one-evaluation"]++ // evidence only (one file, several cache keys)
			}
			continue
		}
		emit("C16.confinement", "read-outside-graph", "", fmt.Sprintf("evaluation read %s, which no import of the graph names", w.rel(e.Abs)))
	}
	if c16TokRe.MatchString(run.text) {
		emit("C16.confinement", "token-leak", "", "result carries a decoy token: "+c16Clip(run.text, 200))
	}
	st[kind+"-evals"]++
	if g.Cyclic {
		// (c) a cyclic import graph must be reported as an error
		switch {
		case run.out.Panic != nil:
			st["cycle-panic"]++
			emit("C16.cycle", "panic", "", "cyclic import graph panicked: "+run.out.Panic.Msg)
		case run.out.Err != nil:
			st["cycle-error"]++
			st["cycle-error/"+c16ErrClass(run.text)]++
		default:
			st["cycle-VALUE"]++
			emit("C16.cycle", "value-for-cycle", "", "cyclic import graph evaluated to "+c16Clip(run.text, 200))
		}
		return
	}
	// (b) acyclic
	switch {
	case run.out.Panic != nil:
		st[kind+"-panic"]++
		return // crashes are C10's subject
	case run.out.Err != nil:
		st[kind+"-error"]++
		if g.Canon {
			emit("C16.consistency", "error-for-value", c16ErrClass(run.text),
				"acyclic import graph with plain ./ and / spellings failed: "+c16Clip(run.text, 300))
		}
		return
	}
	st[kind+"-value"]++
	if !g.Canon {
		st["dag-fancy-spelling-value"]++
	}
	got, pi := core.SafeDenote(run.out.Val)
	if pi != nil {
		return
	}
	tokEnc := map[string]string{}
	for _, f := range g.Files {
		tokEnc[core.MStr(f.Tok).Enc] = f.Tok
	}
	groups := map[string]map[string]bool{}
	c16TokGroups(got, tokEnc, groups)
	multi := 0
	for tok, encs := range groups {
		if len(encs) > 1 {
			emit("C16.consistency", "unequal-same-file", "", fmt.Sprintf("file with token %s was imported with %d different values in one evaluation", tok, len(encs)))
		}
		_ = tok
	}
	indeg := map[int]int{}
	for _, f := range g.Files {
		for _, d := range f.Deps {
			indeg[d.Target]++
		}
	}
	for _, n := range indeg {
		if n > 1 {
			multi++
		}
	}
	st["files-imported-more-than-once"] += multi
	if multi > 0 {
		res.SubKeys = append(res.SubKeys, "g|"+g.describe())
	}
	// arr.ai's own = on spellings of one target
	if eqs, ok := got.T["eqs"]; ok {
		want := 0
		for range g.Eqs {
			want++
		}
		allTrue := core.MArr(func() []core.MV {
			var x []core.MV
			for i := 0; i < want; i++ {
				x = append(x, core.MTrue)
			}
			return x
		}()...)
		st["eq-pairs"] += want
		if eqs.Enc != allTrue.Enc {
			emit("C16.consistency", "unequal-by-arrai-eq", "", "//{s1} = //{s2} is false for two spellings of one file: eqs="+core.Src(eqs))
		}
	}
	if g.Canon {
		want := g.model(0, map[int]core.MV{})
		if got.Enc != want.Enc {
			emit("C16.consistency", "wrong-file-value", "", fmt.Sprintf("entry evaluated to %s, expected %s", c16Clip(core.Src(got), 400), c16Clip(core.Src(want), 400)))
		}
	}
}

// ---- concurrent importers sharing one import cache ----

// c16RunConcurrent: G goroutines evaluate entry scripts over ONE context (one import cache) and import
// overlapping files k, j (imports k), p (imports k and j). Variants: good (all enter at k),
// cross-acyclic (enter at p, j or k), missing-dep (k imports a missing file), cyclic (k <-> j, all
// enter at k), cross-cyclic (k <-> j, entered at k, j and p at once). Every goroutine must return;
// acyclic variants yield the entry file's own token everywhere, the others an error everywhere.
func c16RunConcurrent(cfg *core.Config, r *core.Rng, ord int, res *core.CaseResult, st c16Stats, seen map[string]bool) {
	w, err := c16WorldFor(cfg, c16Layouts[1])
	if err != nil {
		res.Inconclusive = "c16 world: " + err.Error()
		return
	}
	if err := os.Chdir(w.base); err != nil {
		res.Inconclusive = "chdir: " + err.Error()
		return
	}
	variant := []string{"good", "cross-acyclic", "cross-cyclic", "missing-dep", "cyclic", "cross-acyclic", "cross-cyclic"}[ord%7]
	G := r.Range(3, 8)
	// moderately expensive to compile so that importers overlap
	pad := func() string {
		n := r.Range(50, 400)
		var items []string
		for i := 0; i < n; i++ {
			items = append(items, strconv.Itoa(i))
		}
		return "[" + strings.Join(items, ", ") + "]"
	}
	ktail := ""
	switch variant {
	case "missing-dep":
		ktail = ", bad: //{./c16nonexistent}"
	case "cyclic", "cross-cyclic":
		ktail = ", back: //{" + core.Pick(r, []string{"./c16j", "/sub/c16j"}) + "}"
	}
	files := map[string]string{
		"c16k": `(tok: "c16G900", pad: ` + pad() + ktail + `)`,
		"c16j": `(tok: "c16G901", pad: ` + pad() + `, k: //{` + core.Pick(r, []string{"./c16k", "/sub/c16k", "./c16k.arrai"}) + `})`,
		"c16p": `(tok: "c16G902", j: //{./c16j}, k: //{/sub/c16k})`,
	}
	if r.Chance(1, 2) {
		files["c16p"] = `(tok: "c16G902", k: //{./c16k}, j: //{/sub/c16j.arrai})`
	}
	toks := map[string]string{"c16k": "c16G900", "c16j": "c16G901", "c16p": "c16G902"}
	var paths []string
	for n, src := range files {
		p := w.abs("w/m/sub/" + n + ".arrai")
		w.write(p, src)
		paths = append(paths, p)
	}
	defer func() {
		for _, p := range paths {
			_ = w.mem.Remove(p)
		}
	}()
	entries := []string{"c16k"}
	switch variant {
	case "cross-acyclic", "cross-cyclic":
		entries = []string{"c16k", "c16j", "c16p"}
	}
	rec := &c16Rec{}
	ctx := c16Ctx(w, rec, true)
	outs := make([]core.Outcome, G)
	srcs := make([]string, G)
	ents := make([]string, G)
	var wg sync.WaitGroup
	start := make(chan struct{})
	for i := 0; i < G; i++ {
		ents[i] = entries[i%len(entries)]
		srcs[i] = "//{" + core.Pick(r, []string{"./sub/", "/sub/"}) + ents[i] + core.Pick(r, []string{"", ".arrai"}) + "}.tok"
		wg.Add(1)
		go func(i int) {
			defer wg.Done()
			<-start
			outs[i] = core.Guard(func() (rel.Value, error) {
				return syntax.EvaluateExpr(ctx, w.abs("w/m/c16e"+strconv.Itoa(i)+".arrai"), srcs[i])
			})
		}(i)
	}
	close(start)
	wg.Wait() // a hang here is decided by the harness's logical hang monitor
	res.Evals += G
	res.Cover = append(res.Cover, "concurrent/"+variant)
	st["concurrent-groups/"+variant]++
	st["concurrent-evals"] += G
	reads := 0
	for _, e := range c16ContentReads(rec.events()) {
		if strings.HasSuffix(e.Abs, "/c16k.arrai") {
			reads++
		}
	}
	st["concurrent-shared-file-reads"] += reads
	emit := func(mode, detail string) {
		sig := core.Signature{Clause: "C16.consistency", Entry: "concurrent-importers", Mode: mode, Hazards: []string{"shared-cache:" + variant}}
		if mode == "value-for-cycle" {
			sig.Clause = "C16.cycle"
		}
		if seen[sig.String()] {
			return
		}
		seen[sig.String()] = true
		res.Viols = append(res.Viols, core.Violation{Sig: sig, Detail: detail,
			Replay: map[string]string{"variant": variant, "goroutines": strconv.Itoa(G), "sources": strings.Join(srcs, " | "),
				"c16k": c16Clip(files["c16k"], 60) + "…" + ktail, "c16p": files["c16p"]}})
	}
	acyclic := variant == "good" || variant == "cross-acyclic"
	for i, o := range outs {
		switch {
		case o.Panic != nil:
			st["concurrent-panic"]++
		case o.Err != nil:
			st["concurrent-error"]++
			st["concurrent-error/"+c16ErrClass(c16ErrFull(o.Err))]++
			if acyclic {
				emit("error-for-value", fmt.Sprintf("goroutine %d importing an acyclic set of valid files (%s) got error %s", i, srcs[i], c16Clip(c16ErrFull(o.Err), 300)))
			}
		default:
			st["concurrent-value"]++
			if strings.HasSuffix(variant, "cyclic") && !acyclic {
				emit("value-for-cycle", fmt.Sprintf("goroutine %d got a value from a cyclic import (%s)", i, srcs[i]))
			} else if acyclic {
				if got, pi := core.SafeDenote(o.Val); pi == nil && got.Enc != core.MStr(toks[ents[i]]).Enc {
					emit("wrong-file-value", fmt.Sprintf("goroutine %d (%s) got %s", i, srcs[i], c16Clip(core.Src(got), 200)))
				}
			}
		}
	}
	res.SubKeys = append(res.SubKeys, fmt.Sprintf("conc|%s|%d|%s|%s", variant, G, strings.Join(srcs, "|"), files["c16p"]))
}
