package checks

import (
	"encoding/json"
	"fmt"
	"sort"
	"strings"

	"verif/core"
)

// C16: local imports stay inside the module, are consistent, and cycles fail fast.
//
// Runtime monitor: the real syntax.EvaluateExpr runs over an in-memory tree behind a recording
// afero.Fs. (a) every file whose content was read must lie beneath the importing script's module root
// (own directory without module), and no decoy token may surface in the result; (b) one file imported
// through several spellings / importers in one evaluation yields equal values; (c) every cyclic import
// graph yields an error (a hang is decided by the harness's logical hang monitor, a stack overflow by
// the crash monitor).

type c16 struct{}

func init() { core.Register(c16{}) }

func (c16) ID() string    { return "C16" }
func (c16) Level() string { return "exploration" }
func (c16) Rule() string {
	return "hostile import strings './'|'/' + segments over {. .. ... a sub '' ' ' TAB %2e%2e ' ..' '.. ' '..\\'} joined by '/': exhaustive for <=2 segments (quick; +3 segments in 6 principal contexts) / <=4 segments (thorough; <=3 via helper) plus " +
		"hand-written seeds and a seeded random slice of 3-6 segments over a 38-symbol alphabet, in every context = 5 module layouts x 4 script depths x 3 script addressing modes (absolute, relative to cwd, bare name) x {direct, via helper file}; " +
		"import graphs: seeded random DAGs of 2-7 files (k spellings per edge, basename collisions across directories) and every cycle shape length 1-4 x {on-cycle, tail, diamond, diamond-back} x {./, /, mixed} x 4 syntactic positions of the closing import x 3 modes, each with an acyclic twin; concurrent importers sharing one import cache. " +
		"A hostile sub-case (context, string) is non-trivial when the import produced a value (a file was read); a graph case when some file is imported more than once; distinct by (context, string) / graph text."
}
func (c16) Assumptions() []string {
	return []string{
		"filesystem is afero.MemMapFs mirrored below a real working directory; confinement is judged on the lexically cleaned absolute path (no symlinks, no OS-level path resolution)",
		"module root = directory of the nearest regular file go.mod at or above the importing script's directory; without one, the script's own directory",
		"content was read = a successful open of a non-directory from which at least one byte was delivered; Stat and directory opens are not reads",
		"only local imports (PKGPATH starting with '/'); module and URL imports need the network and are outside this property",
		"concurrent importers are goroutines calling EvaluateExpr on one context that carries one import cache; whether they overlap is up to the scheduler (counted, not forced)",
	}
}

func (c16) HangWallSeconds() int { return 4 }

// Shards: the thorough tier is cut into many short-lived worker processes (at most cfg.Workers run
// at a time) so that no worker comes near the driver's 40-minute per-worker watchdog on a loaded machine.
func (c16) Shards(cfg *core.Config) int {
	if cfg.Thorough() {
		return 64
	}
	return cfg.Workers
}

// arrai's parser allocates heavily per evaluation; a laxer GC target saves ~20% CPU.
func (c16) WorkerEnv(cfg *core.Config, shard int) []string { return []string{"GOGC=300"} }

const c16Chunk = 300

type c16Seg struct {
	Kind     string // enum | seed | rand | dag | cycle | rcycle | conc
	Ctx      int
	From, To int // enum: index range; rand/dag/...: ordinal range
}

type c16PlanT struct {
	segs  []c16Seg
	total int
}

var c16Plans = map[string]*c16PlanT{}

func c16Plan(cfg *core.Config) *c16PlanT {
	key := fmt.Sprintf("%s/%d", cfg.Tier, cfg.Seed)
	if p, ok := c16Plans[key]; ok {
		return p
	}
	p := &c16PlanT{}
	add := func(s c16Seg) { p.segs = append(p.segs, s) }
	// graphs first: they are few and carry the hang-prone cases
	for i := 0; i < len(c16CycleSpecs); i++ {
		add(c16Seg{Kind: "cycle", From: i, To: i + 1})
	}
	for i, n := 0, cfg.Pick(150, 4000); i < n; i++ {
		add(c16Seg{Kind: "dag", From: i, To: i + 1})
	}
	for i, n := 0, cfg.Pick(100, 3000); i < n; i++ {
		add(c16Seg{Kind: "rcycle", From: i, To: i + 1})
	}
	for i, n := 0, cfg.Pick(40, 600); i < n; i++ {
		add(c16Seg{Kind: "conc", From: i, To: i + 1})
	}
	for ci, cx := range c16PCtxs {
		add(c16Seg{Kind: "seed", Ctx: ci})
		maxLen := 2
		if cfg.Thorough() {
			maxLen = 4
			if cx.Helper {
				maxLen = 3
			}
		} else if cx.principal() {
			maxLen = 3
		}
		n := c16EnumCount(maxLen)
		for from := 0; from < n; from += c16Chunk {
			add(c16Seg{Kind: "enum", Ctx: ci, From: from, To: min(from+c16Chunk, n)})
		}
		nr := cfg.Pick(180, 4500)
		for from := 0; from < nr; from += c16Chunk {
			add(c16Seg{Kind: "rand", Ctx: ci, From: from, To: min(from+c16Chunk, nr)})
		}
	}
	p.total = len(p.segs)
	c16Plans[key] = p
	return p
}

func (c16) NumCases(cfg *core.Config) int { return c16Plan(cfg).total }

type c16Data struct {
	Stats c16Stats `json:"stats"`
}

func (c16) RunCase(cfg *core.Config, i int) core.CaseResult {
	sg := c16Plan(cfg).segs[i]
	res := core.CaseResult{Key: fmt.Sprintf("%s/%d/%d-%d", sg.Kind, sg.Ctx, sg.From, sg.To), NonTrivial: true}
	res.Evals = 0
	st := c16Stats{}
	seen := map[string]bool{}
	switch sg.Kind {
	case "enum":
		cx := c16PCtxs[sg.Ctx]
		var imps []string
		for k := sg.From; k < sg.To; k++ {
			s, _, _ := c16EnumImport(k)
			imps = append(imps, s)
		}
		c16RunHostile(cfg, &res, st, cx, imps)
		if sg.From == 0 {
			res.Sample = fmt.Sprintf("hostile imports %q … in context %s", imps[:min(6, len(imps))], cx)
		}
	case "seed":
		c16RunHostile(cfg, &res, st, c16PCtxs[sg.Ctx], c16SeedImports)
	case "rand":
		cx := c16PCtxs[sg.Ctx]
		var imps []string
		for k := sg.From; k < sg.To; k++ {
			r := core.NewRng(cfg.Seed, 16, 1, uint64(sg.Ctx), uint64(k))
			s, _, _ := c16RandImport(r)
			imps = append(imps, s)
		}
		c16RunHostile(cfg, &res, st, cx, imps)
	case "cycle":
		g, w, closer, err := c16CoreCycle(cfg, sg.From)
		if err != nil {
			res.Inconclusive = err.Error()
			break
		}
		res.Cover = append(res.Cover, "cycle/"+c16CycleSpecs[sg.From].Reach+"/k"+fmt.Sprint(c16CycleSpecs[sg.From].K),
			"cycle-style/"+c16CycleSpecs[sg.From].Style, "cycle-closing/"+c16CycleSpecs[sg.From].Wrap)
		// acyclic twin first: the closing import is redirected to a fresh leaf (same syntactic position)
		twin := *g
		twin.Files = append([]c16GFile{}, g.Files...)
		cf := twin.Files[closer]
		cf.Deps = append([]c16GDep{}, cf.Deps...)
		twin.Files = append(twin.Files, c16GFile{Dir: cf.Dir, Name: "z", Tok: "c16G099"})
		last := len(cf.Deps) - 1
		cf.Deps[last] = c16GDep{Target: len(twin.Files) - 1, Spell: "./z", Canon: true, Wrap: cf.Deps[last].Wrap}
		twin.Files[closer] = cf
		twin.Cyclic = false
		twin.Desc = "acyclic twin of " + g.Desc
		c16RunGraph(w, &twin, &res, st, seen, "cycle-twin")
		c16RunGraph(w, g, &res, st, seen, "cycle")
		res.SubKeys = append(res.SubKeys, "c|"+g.describe())
		if sg.From%97 == 5 {
			res.Sample = g.describe()
		}
	case "dag", "rcycle":
		stream := uint64(2)
		if sg.Kind == "rcycle" {
			stream = 3
		}
		r := core.NewRng(cfg.Seed, 16, stream, uint64(sg.From))
		layout := core.Pick(r, []int{1, 1, 2, 2, 3, 4, 0})
		w, err := c16WorldFor(cfg, c16Layouts[layout])
		if err != nil {
			res.Inconclusive = err.Error()
			break
		}
		fancy := sg.Kind == "dag" && r.Chance(3, 10)
		g := c16RandDAG(w, r, layout, core.Pick(r, c16Modes), fancy)
		c16RunGraph(w, g, &res, st, seen, "dag")
		if sg.Kind == "rcycle" {
			if g.closeCycle(w, r) {
				c16RunGraph(w, g, &res, st, seen, "cycle")
				res.SubKeys = append(res.SubKeys, "c|"+g.describe())
			} else {
				st["rcycle-no-back-edge-possible"]++
			}
		}
		if sg.From == 3 {
			res.Sample = g.describe()
		}
	case "conc":
		r := core.NewRng(cfg.Seed, 16, 4, uint64(sg.From))
		c16RunConcurrent(cfg, r, sg.From, &res, st, seen)
	}
	if res.Evals == 0 {
		res.Evals = 1
	}
	res.Data = c16Data{Stats: st}
	return res
}

func (c16) Finish(cfg *core.Config, agg *core.Aggregate) {
	tot := c16Stats{}
	for _, d := range agg.Data {
		var cd c16Data
		if json.Unmarshal(d.Data, &cd) == nil {
			for k, v := range cd.Stats {
				tot[k] += v
			}
		}
	}
	keys := make([]string, 0, len(tot))
	for k := range tot {
		keys = append(keys, k)
	}
	sort.Strings(keys)
	obs := map[string]int{}
	for _, k := range keys {
		obs[k] = tot[k]
	}
	agg.Extra["observed"] = obs
	agg.Extra["exhaustive"] = true
	agg.Extra["exhaustive_scope"] = fmt.Sprintf("import strings of <=%s segments over %d symbols x 2 forms (./ and /) in %d contexts; all %d cycle shapes, each with an acyclic twin",
		map[bool]string{false: "2 (<=3 in the 6 principal contexts)", true: "4 (<=3 in the 60 via-helper contexts)"}[cfg.Thorough()],
		len(c16Syms), len(c16PCtxs), len(c16CycleSpecs))
	agg.Extra["contexts"] = len(c16PCtxs)
	floor := func(k string, n int) {
		if tot[k] < n {
			agg.Fail("coverage floor: %s = %d < %d", k, tot[k], n)
		}
	}
	floor("hostile-evals", cfg.Pick(60000, 2000000))
	floor("hostile-value", 2000)           // imports that really read a file
	floor("reads-inside-root", 2000)       // … and whose read was seen by the recorder
	floor("hostile-rejected-outside", 500) // the `..` rejection was exercised
	floor("hostile-no-module-root", 100)
	floor("hostile-not-found", 1000)
	floor("stat-events", 1000) // module-root search observed
	floor("dag-value", 100)
	floor("dag-fancy-spelling-value", 10)
	floor("cycle-twin-value", len(c16CycleSpecs))
	floor("files-imported-more-than-once", 50)
	floor("eq-pairs", 50)
	floor("cycle-evals", len(c16CycleSpecs))
	floor("cycle-twin-evals", len(c16CycleSpecs))
	floor("cycle-error", len(c16CycleSpecs))
	floor("concurrent-evals", 50)
	floor("concurrent-value", 10)
	for _, v := range []string{"good", "cross-acyclic", "missing-dep", "cyclic", "cross-cyclic"} {
		if tot["concurrent-groups/"+v] == 0 {
			agg.Fail("coverage floor: concurrent variant %s never run", v)
		}
	}
	// (floors read the per-case stats, which survive a worker that is killed by the driver's watchdog)
	for _, cx := range c16PCtxs {
		if tot[cx.tag()] == 0 {
			agg.Fail("coverage floor: context %s never run", cx.tag())
		}
	}
	for _, k := range keys {
		if strings.Contains(k, "OUTSIDE") && len(agg.Viols) == 0 {
			agg.Fail("internal: %s=%d but no violation was emitted", k, tot[k])
		}
	}
}
