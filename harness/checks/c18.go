package checks

import (
	"bufio"
	"encoding/json"
	"fmt"
	"os"
	"os/exec"
	"path/filepath"
	"sort"
	"strconv"
	"strings"
	"time"

	"verif/core"
)

// C18: sandboxed evaluation (//eval.eval, //eval.evaluator(config).eval) reaches only the scope and
// library it was given; the safe library contains no file-reading / network / exec function.
//
// Every case is executed in a sub-worker (this same binary) running under
//   strace -f -e trace=openat,open,connect,execve,execveat
// with canary files (secret tokens) next to the script, in the cwd, at the module root and in $HOME.
// Three monitors watch the same executions:
//   (a) capability walk  - native functions reachable in the returned value, compared BY IDENTITY with
//       the functions of the given stdlib/scope (allowed) and of the two library instances (forbidden);
//   (b) canary tokens     - must not appear in any result or error text unless file reading was given;
//   (c) syscalls          - no successful open of a canary, no inet connect, no execve, unless the
//       corresponding capability was passed in.
// Separately the safe library is audited: every callable is invoked on benign arguments (canary path,
// ["true"], loopback URL, …) under the same monitors.

type c18 struct{}

func init() { core.Register(c18{}) }

func (c18) ID() string    { return "C18" }
func (c18) Level() string { return "exploration" }
func (c18) Rule() string {
	return "every step runs inside a strace'd sub-worker between marker syscalls. Programs: 15 named sandbox configurations (thorough: + all 128 sub-tuples of the 6-member library {os,net,deprecated,eval,seq,fn} x scope with/without a name) x 8 evaluation routes (direct, //eval.value on str/bytes, nested //eval.eval, nested evaluator, macro, let-bound macro, imported code) x 28 targets (file/net/exec functions, //std.safe.* aliases, library sub-tuples, scope and host names, local/root/decoder imports of canaries, module and URL imports) x 4 forms (obtain; apply inside; return a closure the host calls later; host applies the obtained value); 8 benign wrappers (let, tuple, array, closure, cond, arrow, //fn.fix, scope-supplied caller) around and inside the direct/value/macro routes; quick tier keeps the whole direct route and a seeded 25 % of the other cells; random slice: chains of 2-4 wrappers over any configuration from VERIF_SEED. Paths: every //a.b.c attribute path of the full library (+ fake ones, + scope/host names) referenced under 24 (thorough 143) configurations. Audit: every callable of syntax.SafeStdScope invoked on 6 benign arguments, curried up to 3 deep. Distinct = (config, wrapper chain, target, form) | (config, path) | callable; all are non-trivial (each was evaluated by the real interpreter under all three monitors)."
}
func (c18) Assumptions() []string {
	return []string{
		"'given' = native functions reachable (through tuples/sets) from config.stdlib and config.scope, plus the default safe library when config.stdlib is absent or //eval.eval|evaluator itself is passed in; closures are opaque to the walk, so each target also has apply-variants judged by the effect monitors",
		"file reading = a successful open of a canary file or its token in a result/error text; metadata (//os.exists, //os.tree) is not file reading; network = any AF_INET/AF_INET6 connect attempt (nothing listens); command execution = any execve in the traced process tree",
		"a panic inside the sandbox is not a confinement breach (C10 owns crashes); it is only counted",
		"effects are attributed to a program by marker syscalls around it; an effect on a program without any escape route is re-run in isolation before it is reported",
		"native functions are recognised by pointer identity against syntax.StdScope()/SafeStdScope(); natives of neither instance (curried partial applications) are opaque",
	}
}

func (c18) HangWallSeconds() int {
	if os.Getenv("C18_CHILD") != "" {
		return 1500 // the child has its own per-step watchdog
	}
	return 1500
}

func (c18) NumCases(cfg *core.Config) int { return c18NumCases(cfg) }

// Shards: one worker process per case (a case is one traced child and may take minutes on a loaded
// machine; the driver's per-worker wall-clock watchdog then bounds a single case, not a sequence).
func (c18) Shards(cfg *core.Config) int { return c18NumCases(cfg) }

// c18Summary is forwarded to Finish.
type c18Summary struct {
	Kind       string         `json:"kind"`
	Steps      int            `json:"steps"`
	TraceLines int            `json:"trace_lines"`
	Markers    int            `json:"markers"`
	Opens      int            `json:"opens"`
	Connects   int            `json:"connects"`
	Execs      int            `json:"execs"`
	CanaryOpen int            `json:"canary_opens"`
	Strays     int            `json:"strays"`
	Controls   map[string]int `json:"controls"`
	Counts     map[string]int `json:"counts"`
	Confirmed  int            `json:"confirmed"`
	Unconfirm  int            `json:"unconfirmed"`
	ChildMs    int64          `json:"child_ms"`
}

type c18Run struct {
	out   c18ChildOut
	trace *c18Trace
	dir   string
}

// c18Spawn runs case i (optionally only step `only`) in a strace'd sub-worker.
func c18Spawn(cfg *core.Config, i, only int) (*c18Run, string) {
	base := cfg.RunDir
	if base == "" {
		base = filepath.Join(os.TempDir(), "c18-run")
	}
	tag := fmt.Sprintf("c18-%04d", i)
	if only >= 0 {
		tag += fmt.Sprintf("-only%d", only)
	}
	dir := filepath.Join(base, tag)
	os.RemoveAll(dir)
	for _, d := range []string{"work", "script", "home"} {
		if err := os.MkdirAll(filepath.Join(dir, d), 0o755); err != nil {
			return nil, "scratch: " + err.Error()
		}
	}
	tok := func(place string) string { return c18Token(cfg.Seed, place) }
	files := map[string]string{
		"go.mod":                     "module c18canary\n",
		"canary_root.arrai":          `"` + tok("root") + `"` + "\n",
		"work/canary_cwd.arrai":      `"` + tok("cwd") + `"` + "\n",
		"work/canary_cwd.json":       `{"secret": "` + tok("cwd") + `"}` + "\n",
		"work/canary_cwd.txt":        tok("cwd") + "\n",
		"script/canary_script.arrai": `"` + tok("script") + `"` + "\n",
		"script/main.arrai":          "1\n",
		"home/canary_home.txt":       tok("home") + "\n",
		"home/canary_home.arrai":     `"` + tok("home") + `"` + "\n",
		// the go tool (module imports) would otherwise start a detached telemetry sidecar whose
		// syscalls outlive the step that spawned it
		"home/.config/go/telemetry/mode": "off\n",
	}
	os.MkdirAll(filepath.Join(dir, "home", ".config", "go", "telemetry"), 0o755)
	for n, c := range files {
		if err := os.WriteFile(filepath.Join(dir, n), []byte(c), 0o644); err != nil {
			return nil, "scratch: " + err.Error()
		}
	}
	exe, err := os.Executable()
	if err != nil {
		return nil, "executable: " + err.Error()
	}
	straceBin, err := exec.LookPath("strace")
	if err != nil {
		return nil, "strace not found"
	}
	trace := filepath.Join(dir, "trace.txt")
	sub := filepath.Join(dir, "sub.jsonl")
	n := c18{}.NumCases(cfg)
	args := []string{"-f", "-qq", "--seccomp-bpf", "-e", "signal=none", "-e", "trace=openat,open,connect,execve,execveat",
		"-s", "300", "-o", trace, exe, "worker", "C18", "--tier", cfg.Tier, "--seed", strconv.FormatUint(cfg.Seed, 10),
		"--shard", "0", "--stride", strconv.Itoa(n + 1), "--start", strconv.Itoa(i), "--out", sub}
	cmd := exec.Command(straceBin, args...)
	cmd.Dir = filepath.Join(dir, "work")
	env := []string{}
	for _, e := range os.Environ() {
		if strings.HasPrefix(e, "HOME=") || strings.HasPrefix(e, "C18_") || strings.HasPrefix(e, "GODEBUG=") {
			continue
		}
		env = append(env, e)
	}
	// the go tool (spawned by module imports) keeps its real GOPATH/GOCACHE although $HOME is the canary home
	realHome, _ := os.UserHomeDir()
	for _, kv := range [][2]string{{"GOPATH", filepath.Join(realHome, "go")}, {"GOCACHE", filepath.Join(realHome, ".cache", "go-build")}} {
		if os.Getenv(kv[0]) == "" && realHome != "" {
			env = append(env, kv[0]+"="+kv[1])
		}
	}
	env = append(env, "HOME="+filepath.Join(dir, "home"), "C18_CHILD="+dir, "GODEBUG=asyncpreemptoff=1",
		"GOPROXY=off", "GOFLAGS=-mod=mod", "VERIF_ROOT="+cfg.Root)
	if only >= 0 {
		env = append(env, "C18_ONLY="+strconv.Itoa(only))
	}
	cmd.Env = env
	ef, _ := os.Create(filepath.Join(dir, "child.stderr"))
	defer ef.Close()
	cmd.Stdout, cmd.Stderr = ef, ef
	if err := cmd.Start(); err != nil {
		return nil, "cannot start strace: " + err.Error()
	}
	done := make(chan error, 1)
	go func() { done <- cmd.Wait() }()
	var werr error
	select {
	case werr = <-done:
	case <-time.After(35 * time.Minute):
		cmd.Process.Kill()
		<-done
		return nil, "traced child exceeded the 35 min wall-clock bound (no verdict)"
	}
	run := &c18Run{dir: dir}
	f, err := os.Open(sub)
	if err != nil {
		return nil, fmt.Sprintf("traced child produced no output (%v): %s", werr, c18Tail(filepath.Join(dir, "child.stderr"), 600))
	}
	defer f.Close()
	rd := bufio.NewReaderSize(f, 1<<20)
	got, complete := false, false
	for {
		line, err := rd.ReadBytes('\n')
		if len(line) > 0 {
			var l struct {
				T    string          `json:"t"`
				Data json.RawMessage `json:"data"`
				Note string          `json:"note"`
				Sum  *struct {
					Done bool `json:"done"`
				} `json:"sum"`
			}
			if json.Unmarshal(line, &l) == nil {
				switch l.T {
				case "d":
					if json.Unmarshal(l.Data, &run.out) == nil {
						got = true
					}
				case "inc":
					return nil, "traced child: " + c18Clip(l.Note, 1500)
				case "hang":
					return nil, "traced child met the hang criterion (C10's domain; no C18 verdict)"
				case "sum":
					complete = l.Sum != nil && l.Sum.Done
				}
			}
		}
		if err != nil {
			break
		}
	}
	if !got || !complete {
		if b, err := os.ReadFile(filepath.Join(dir, "stuck-step")); err == nil {
			return nil, "traced child: one step exceeded 900 s wall (no C18 verdict; crashes/hangs are C10's domain): " + string(b)
		}
		return nil, fmt.Sprintf("traced child died before reporting (%v): %s", werr, c18Tail(filepath.Join(dir, "child.stderr"), 800))
	}
	tr, err := c18ParseTrace(trace)
	if err != nil {
		return nil, "trace: " + err.Error()
	}
	run.trace = tr
	return run, ""
}

func c18Tail(path string, n int) string {
	b, _ := os.ReadFile(path)
	if len(b) > n {
		b = b[len(b)-n:]
	}
	return string(b)
}

// c18Finding is one judged discrepancy of a step.
type c18Finding struct {
	sig    core.Signature
	detail string
	effect bool // produced by the syscall monitor (eligible for isolated confirmation)
}

func c18Hazards(r *c18Rec) []string {
	hz := append([]string{}, r.Routes...)
	if r.Given.EvalValue {
		hz = append(hz, "given:eval.value")
	}
	sort.Strings(hz)
	return hz
}

// c18Judge applies the oracle to one step (record + effects in its marker window).
func c18Judge(r *c18Rec, ef *c18Effects) []c18Finding {
	var out []c18Finding
	if ef == nil {
		ef = &c18Effects{}
	}
	add := func(clause, mode, delta, detail string, effect bool) {
		out = append(out, c18Finding{sig: core.Signature{Clause: clause, Entry: r.Entry, Mode: mode, Hazards: c18Hazards(r), Delta: delta},
			detail: detail, effect: effect})
	}
	switch r.Kind {
	case "prog", "path":
		if r.Outcome == "skipped" {
			return nil
		}
		g := r.Given
		given := map[string]bool{"file": g.File, "net": g.Net, "exec": g.Exec}
		// (a) capability walk
		for _, n := range r.Foreign {
			if n.Class == "other" {
				add("C18.reference", "foreign-native", "other",
					fmt.Sprintf("result contains native %s of the %s library instance (//%s), which is not among the functions passed in", n.Name, n.Lib, n.Path), false)
			} else if !given[n.Class] {
				add("C18.capability", "native-obtained", n.Class,
					fmt.Sprintf("result contains the %s function %s (//%s of the %s library), not passed in", n.Class, n.Name, n.Path, n.Lib), false)
			} else {
				add("C18.reference", "foreign-native", n.Class,
					fmt.Sprintf("result contains native %s (//%s, %s instance) which is not the instance passed in", n.Name, n.Path, n.Lib), false)
			}
		}
		// (b) canary tokens
		for _, place := range r.Tokens {
			if place == "scope" {
				add("C18.reference", "host-value-leak", "scope", "the value of a host-scope name that was not passed in appeared in the "+r.Outcome, false)
			} else if !g.File {
				add("C18.capability", "token-in-"+r.Outcome, "file", "secret token of the "+place+" canary appeared in the "+r.Outcome+" text", false)
			}
		}
		// (c) syscalls
		if len(ef.CanaryOpens) > 0 && !g.File {
			add("C18.capability", "openat-canary", "file", "successful open of "+c18Base(ef.CanaryOpens[0]), true)
		}
		if len(ef.Connects) > 0 && !g.Net {
			add("C18.capability", "connect", "net", "connect attempt "+ef.Connects[0], true)
		}
		if len(ef.Execs) > 0 && !g.Exec {
			add("C18.capability", "execve", "exec", "execve "+ef.Execs[0], true)
		}
		// reference clause: a plain reference to something not passed in must fail
		if r.Direct != "" && !r.DirGiven && r.Outcome == "value" {
			add("C18.reference", "value-for-error", "", "reference to "+r.Direct+" (not a member of the given library/scope) evaluated to "+r.Text, false)
		}
	case "audit":
		for _, place := range r.Tokens {
			add("C18.safe-library", "token-in-result", "file", "secret token of the "+place+" canary in a result of //"+r.Target, false)
		}
		if len(ef.CanaryOpens) > 0 {
			add("C18.safe-library", "openat-canary", "file", "successful open of "+c18Base(ef.CanaryOpens[0]), true)
		}
		if len(ef.Connects) > 0 {
			add("C18.safe-library", "connect", "net", "connect attempt "+ef.Connects[0], true)
		}
		if len(ef.Execs) > 0 {
			add("C18.safe-library", "execve", "exec", "execve "+ef.Execs[0], true)
		}
	}
	return out
}

func c18Base(p string) string {
	if i := strings.LastIndexByte(p, '/'); i >= 0 {
		return p[i+1:]
	}
	return p
}

func (c18) RunCase(cfg *core.Config, i int) core.CaseResult {
	if os.Getenv("C18_CHILD") != "" {
		return c18ChildCase(cfg, i)
	}
	kind := "mixed"
	res := core.CaseResult{Key: fmt.Sprintf("C18/%s/%d", kind, i), NonTrivial: true}
	t0 := time.Now()
	only := -1
	if s := os.Getenv("C18_REPLAY_STEP"); s != "" { // C18_REPLAY_STEP=<step> ./check C18 --replay <file>: that step alone
		if n, err := strconv.Atoi(s); err == nil {
			only = n
		}
	}
	if only >= 0 {
		run, inc := c18Spawn(cfg, i, only)
		if inc != "" {
			res.Inconclusive = inc
			return res
		}
		for k := range run.out.Recs {
			r := &run.out.Recs[k]
			for _, f := range c18Judge(r, run.trace.Steps[r.K]) {
				res.Viols = append(res.Viols, core.Violation{Sig: f.sig, Detail: f.detail + " | " + r.Src + " | " + r.Outcome + " " + c18Clip(r.Text, 200)})
			}
		}
		return res
	}
	run, inc := c18Spawn(cfg, i, -1)
	if inc != "" {
		res.Inconclusive = inc
		return res
	}
	sum := c18Summary{Kind: kind, Controls: map[string]int{}, Counts: map[string]int{}, ChildMs: time.Since(t0).Milliseconds(),
		TraceLines: run.trace.Lines, Markers: run.trace.Markers, Opens: run.trace.Opens, Connects: run.trace.Connects, Execs: run.trace.Execs}
	for _, n := range run.out.Notes {
		res.Cover = append(res.Cover, "note:"+c18Clip(n, 80))
	}
	// controls first: the effect monitor must have seen what it is supposed to see in this very process
	blind := []string{}
	for k := range run.out.Recs {
		r := &run.out.Recs[k]
		if r.Kind != "control" {
			continue
		}
		ef := run.trace.Steps[r.K]
		if ef == nil {
			ef = &c18Effects{}
		}
		ok := false
		switch r.Target {
		case "null":
			ok = len(ef.CanaryOpens) == 0 && len(ef.Connects) == 0 && len(ef.Execs) == 0 && len(r.Tokens) == 0
		case "file":
			ok = len(ef.CanaryOpens) > 0 && len(r.Tokens) > 0
		case "net":
			ok = len(ef.Connects) > 0
		case "exec":
			ok = len(ef.Execs) > 0
		}
		if ok {
			sum.Controls[r.Target]++
			res.Cover = append(res.Cover, "control-seen:"+r.Target)
		} else {
			blind = append(blind, r.Target)
		}
	}
	if len(blind) > 0 || len(sum.Controls) < 4 {
		res.Inconclusive = fmt.Sprintf("effect monitor failed its controls %v in case %d (trace lines %d, markers %d)", blind, i, run.trace.Lines, run.trace.Markers)
		return res
	}
	seen := map[string]bool{}
	notRepro := map[string]int{} // effect signatures that did not reproduce in isolation (bounded retries)
	tags := map[string]bool{}
	for k := range run.out.Recs {
		r := &run.out.Recs[k]
		if r.Kind == "control" {
			continue
		}
		ef := run.trace.Steps[r.K]
		if ef == nil {
			res.Inconclusive = fmt.Sprintf("step %d of case %d has no marker in the trace", r.K, i)
			return res
		}
		sum.Steps++
		res.Evals++
		sum.CanaryOpen += len(ef.CanaryOpens)
		sum.Strays += ef.Strays
		res.SubKeys = append(res.SubKeys, r.Key)
		tags["kind:"+r.Kind] = true
		sum.Counts["outcome:"+r.Outcome]++
		if r.Kind == "prog" {
			tags["target:"+r.Target] = true
			tags["form:"+r.Form] = true
			tags["cfg:"+r.Cfg] = true
			for _, w := range strings.Split(r.Chain, ">") {
				tags["wrap:"+w] = true
			}
			if len(r.Routes) == 0 {
				sum.Counts["prog-no-route"]++
			}
			for _, rt := range r.Routes {
				sum.Counts[rt]++
			}
		}
		if r.Kind == "path" {
			sum.Counts[fmt.Sprintf("path:given=%v:%s", r.DirGiven, r.Outcome)]++
		}
		if r.Kind == "audit" {
			sum.Counts["audit-calls"] += r.Calls
		}
		sum.Counts["natives-given"] += r.NGiven
		sum.Counts["natives-foreign"] += len(r.Foreign)
		sum.Counts["natives-unknown"] += r.NUnknown
		sum.Counts["closures-opaque"] += r.NOpaque
		if len(ef.CanaryOpens) > 0 {
			sum.Counts["steps-with-canary-open"]++
		}
		if len(ef.Connects) > 0 {
			sum.Counts["steps-with-connect"]++
		}
		if len(ef.Execs) > 0 {
			sum.Counts["steps-with-execve"]++
		}
		if len(r.Tokens) > 0 {
			sum.Counts["steps-with-token"]++
		}
		all := c18Judge(r, ef)
		var fs []c18Finding
		for _, f := range all { // one witness per signature per case
			if !seen[f.sig.String()] && notRepro[f.sig.String()] < 2 {
				fs = append(fs, f)
			}
		}
		if len(fs) == 0 {
			continue
		}
		// an effect on a program that uses no escape route at all is confirmed in isolation first
		needConfirm := false
		for _, f := range fs {
			if f.effect && len(r.Routes) == 0 {
				needConfirm = true
			}
		}
		if needConfirm {
			iso, inc := c18Spawn(cfg, i, r.K)
			if inc != "" {
				res.Inconclusive = "isolated confirmation failed: " + inc
				return res
			}
			var ir *c18Rec
			for q := range iso.out.Recs {
				if iso.out.Recs[q].K == r.K {
					ir = &iso.out.Recs[q]
				}
			}
			if ir == nil {
				res.Inconclusive = fmt.Sprintf("isolated confirmation: step %d not found", r.K)
				return res
			}
			confirmed := map[string]bool{}
			for _, f := range c18Judge(ir, iso.trace.Steps[r.K]) {
				confirmed[f.sig.String()] = true
			}
			os.RemoveAll(iso.dir)
			var kept []c18Finding
			for _, f := range fs {
				if !f.effect || confirmed[f.sig.String()] {
					kept = append(kept, f)
					if f.effect {
						sum.Confirmed++
					}
				} else {
					sum.Unconfirm++
					notRepro[f.sig.String()]++
				}
			}
			fs = kept
		}
		for _, f := range fs {
			k := f.sig.String()
			if seen[k] {
				continue
			}
			seen[k] = true
			detail := fmt.Sprintf("%s | config %s = %s | sandboxed source: %s | host: %s | outcome: %s %s", f.detail, r.Cfg, c18Or(r.CfgSrc, "(default //eval.eval)"), r.Src, r.Host, r.Outcome, c18Clip(r.Text, 120))
			if r.Kind == "audit" {
				detail = fmt.Sprintf("%s | safe-library audit: //%s (of syntax.SafeStdScope) invoked %d times on benign arguments (canary path, [\"true\"], loopback URL, (), 1; curried up to 3 deep)", f.detail, r.Target, r.Calls)
			}
			res.Viols = append(res.Viols, core.Violation{Sig: f.sig,
				Detail: detail,
				Replay: map[string]interface{}{"case": i, "step": r.K, "rerun": fmt.Sprintf("C18_REPLAY_STEP=%d ./check C18 --replay <this file>", r.K), "kind": r.Kind, "cfg": r.CfgSrc, "src": r.Src, "host": r.Host, "target": r.Target}})
		}
	}
	for t := range tags {
		res.Cover = append(res.Cover, t)
	}
	sort.Strings(res.Cover)
	if len(run.out.Recs) > 8 {
		r := run.out.Recs[len(run.out.Recs)/2]
		res.Sample = fmt.Sprintf("[%s] cfg %s=%s sandbox source %s host %s => %s %s", r.Kind, r.Cfg, c18Or(r.CfgSrc, "default"), r.Src, r.Host, r.Outcome, c18Clip(r.Text, 80))
	}
	res.Data = sum
	if os.Getenv("C18_KEEP") == "" {
		os.RemoveAll(run.dir)
	}
	return res
}

func c18Or(s, d string) string {
	if s == "" {
		return d
	}
	return s
}

func (c18) Finish(cfg *core.Config, agg *core.Aggregate) {
	tot := c18Summary{Controls: map[string]int{}, Counts: map[string]int{}}
	kinds := map[string]int{}
	for _, d := range agg.Data {
		var s c18Summary
		if json.Unmarshal(d.Data, &s) != nil {
			continue
		}
		kinds[s.Kind]++
		tot.Steps += s.Steps
		tot.TraceLines += s.TraceLines
		tot.Markers += s.Markers
		tot.Opens += s.Opens
		tot.Connects += s.Connects
		tot.Execs += s.Execs
		tot.CanaryOpen += s.CanaryOpen
		tot.Strays += s.Strays
		tot.Confirmed += s.Confirmed
		tot.Unconfirm += s.Unconfirm
		tot.ChildMs += s.ChildMs
		for k, v := range s.Controls {
			tot.Controls[k] += v
		}
		for k, v := range s.Counts {
			tot.Counts[k] += v
		}
	}
	agg.Extra["traced_children"] = kinds
	agg.Extra["steps_under_effect_monitor"] = tot.Steps
	agg.Extra["strace"] = map[string]int{"lines": tot.TraceLines, "markers": tot.Markers, "open_calls": tot.Opens,
		"connect_calls": tot.Connects, "execve_calls": tot.Execs, "canary_opens": tot.CanaryOpen, "events_after_end_marker": tot.Strays}
	agg.Extra["controls_seen"] = tot.Controls
	agg.Extra["counts"] = tot.Counts
	agg.Extra["isolated_confirmations"] = map[string]int{"confirmed": tot.Confirmed, "not_reproduced": tot.Unconfirm}
	agg.Extra["child_cpu_wall_ms"] = tot.ChildMs
	agg.Extra["plan"] = map[string]int{"programs": len(c18Programs(cfg)), "path_configurations": len(c18PathCfgs(cfg)), "cases": c18NumCases(cfg)}
	// floors: an empty or blind run must fail
	for _, k := range []string{"kind:prog", "kind:path", "kind:audit"} {
		if agg.Cover[k] == 0 {
			agg.Fail("coverage floor: no %s step ran", k)
		}
	}
	for _, c := range []string{"null", "file", "net", "exec"} {
		if tot.Controls[c] == 0 {
			agg.Fail("coverage floor: control %q never observed by the effect monitor", c)
		}
	}
	if tot.Steps < cfg.Pick(5000, 40000) {
		agg.Fail("coverage floor: only %d steps ran under the effect monitor", tot.Steps)
	}
	if tot.Counts["audit-calls"] < 1000 {
		agg.Fail("coverage floor: safe-library audit made only %d calls", tot.Counts["audit-calls"])
	}
	if tot.Counts["path:given=false:error"] < 500 || tot.Counts["path:given=true:value"] < 500 {
		agg.Fail("coverage floor: direct-reference enumeration too small: %v", tot.Counts)
	}
	for _, w := range c18Routes {
		if agg.Cover["wrap:"+w.ID] == 0 {
			agg.Fail("coverage floor: route %s never exercised", w.ID)
		}
	}
	for _, t := range c18Targets {
		if agg.Cover["target:"+t.ID] == 0 {
			agg.Fail("coverage floor: target %s never exercised", t.ID)
		}
	}
	if tot.Counts["natives-given"] == 0 {
		agg.Fail("coverage floor: capability walk never saw a native function")
	}
}
