package checks

import (
	"bufio"
	"fmt"
	"net"
	"os"
	"os/exec"
	"path/filepath"
	"regexp"
	"runtime"
	"strconv"
	"strings"
	"sync"
	"sync/atomic"
	"syscall"
	"time"

	"verif/core"

	"github.com/arr-ai/arrai/rel"
)

// System layer of C17: the real `arrai serve` process (built from the working tree) driven by
// `arrai update` / `arrai observe` client processes over loopback gRPC. Observers' stdout lines are
// the callback log; "disconnect" = SIGKILL of an observe process. The wire format (rel/json.go) turns
// arrays into sets, so the state here is a *string* of comma-terminated ids (`$ ++ "7,"`): strings
// survive the wire and still spell out the order in which updates took effect. The same c17Judge runs.

const (
	c17SysQuick     = 2 // CLI client processes: a second of start-up per operation
	c17SysThorough  = 20
	c17GrpcQuick    = 90 // in-process gRPC clients against the same real server process
	c17GrpcThorough = 1000
)

func c17SysUpd(ids ...int) c17Op {
	return c17Op{Kind: "upd", IDs: ids, Src: `$ ++ "` + c17SysIDs(ids) + `"`, Obs: -1}
}

func c17SysUpdFail(flavor int, ids ...int) c17Op {
	src, fl := `$ ++ "`+c17SysIDs(ids)+`" ++ (a: 1).b`, ""
	switch flavor % 3 {
	case 1:
		src = `($ ++ "` + c17SysIDs(ids) + `") ++ 1`
	case 2: // the evaluator panics; were it to yield a value, this is `$ ++ "ids"`
		src, fl = `cond {(`+c17PanicSrc+`) = 0: $ ++ "`+c17SysIDs(ids)+`", _: $ ++ "`+c17SysIDs(ids)+`"}`, "panic"
	}
	return c17Op{Kind: "updfail", IDs: ids, Src: src, Flavor: fl, Obs: -1}
}

func c17SysIDs(ids []int) string {
	var sb strings.Builder
	for _, id := range ids {
		fmt.Fprintf(&sb, "%d,", id)
	}
	return sb.String()
}

func c17SysObs(idx int, flavor string, k int) c17Op {
	src := ""
	switch flavor {
	case "identity":
		src = "$"
	case "count":
		src = "$ count"
	case "tuple":
		src = "(n: $ count, s: $)"
	case "const":
		src = "42"
	case "fail-now":
		src = "(a: 1).b"
	case "fail-later":
		src = c17ObsSrc("fail-later", 2*k)
	case "fail-until":
		src = "$(" + fmt.Sprint(2*k-1) + ")"
	case "panic":
		src = c17ObsSrc("panic", 0)
	}
	return c17Op{Kind: "obs", Obs: idx, Src: src, Flavor: flavor}
}

var c17SysFlavors = []string{"identity", "identity", "identity", "count", "tuple", "const", "fail-now", "fail-later", "fail-until", "panic"}

// c17SysPlan: CLI mode 2-3 clients, 5-9 operations; gRPC mode 2-4 clients, 10-30 operations; observers
// get killed / disconnected; the history always ends with a few
// more updates (the unchanged tree answered one update after a kill and wedged on the next).
func c17SysPlan(cfg *core.Config, i int) c17Plan {
	if i >= cfg.Pick(c17SysQuick+c17GrpcQuick, c17SysThorough+c17GrpcThorough) {
		return c17WSPlan(cfg, i)
	}
	r := core.NewRng(cfg.Seed, 1700, uint64(i))
	layer, lo, hi, maxc := "grpc", 10, 30, 4
	if i < cfg.Pick(c17SysQuick, c17SysThorough) {
		layer, lo, hi, maxc = "system", 5, 9, 3
	}
	nc := r.Range(2, maxc)
	p := c17Plan{Layer: layer, Name: layer + "-random", Clients: make([][]c17Op, nc)}
	own := make([][]int, nc)
	next := 1
	ids := func() []int {
		n := 1
		if r.Chance(1, 5) {
			n = 2
		}
		out := make([]int, n)
		for k := range out {
			out[k] = next
			next++
		}
		return out
	}
	p.Clients[0] = append(p.Clients[0], c17SysObs(0, "identity", 0))
	own[0] = append(own[0], 0)
	p.NObs = 1
	total := r.Range(lo, hi)
	for n := 0; n < total; n++ {
		c := r.Intn(nc)
		x := r.Intn(100)
		var op c17Op
		switch {
		case x < 40:
			op = c17SysUpd(ids()...)
		case x < 50:
			op = c17SysUpdFail(r.Intn(3), ids()...)
		case x < 78:
			op = c17SysObs(p.NObs, core.Pick(r, c17SysFlavors), r.Range(1, 4))
			own[c] = append(own[c], p.NObs)
			p.NObs++
		default:
			if len(own[c]) == 0 {
				op = c17SysUpd(ids()...)
			} else {
				op = c17Op{Kind: "kill", Obs: core.Pick(r, own[c])}
			}
		}
		if layer == "grpc" {
			switch y := r.Intn(100); {
			case y < 20:
				op.Pre = 1
			case y < 35:
				op.Pre = 2 + r.Intn(300)
			}
		}
		p.Clients[c] = append(p.Clients[c], op)
	}
	c := r.Intn(nc)
	for n := 0; n < 3; n++ {
		p.Clients[c] = append(p.Clients[c], c17SysUpd(ids()...))
	}
	return p
}

// c17SysRender: what `arrai observe` prints for a value (JSON over the wire, then String()).
func c17SysRender(v rel.Value) (s string) {
	defer func() {
		if r := recover(); r != nil {
			s = fmt.Sprintf("<render panicked: %v>", r)
		}
	}()
	back, err := rel.UnmarshalFromJSON(rel.MarshalToJSON(v))
	if err != nil {
		return "<unmarshal: " + err.Error() + ">"
	}
	return c17Str(back)
}

// ---------------------------------------------------------------------------------------------
// the arrai binary: built once per run directory from the tree the harness is compiled against

func c17RepoDir(cfg *core.Config) string {
	b, err := os.ReadFile(filepath.Join(cfg.Root, "harness", "go.mod"))
	if err == nil {
		if m := regexp.MustCompile(`(?m)^replace github.com/arr-ai/arrai => (\S+)`).FindSubmatch(b); m != nil {
			return string(m[1])
		}
	}
	return "/repo"
}

var (
	c17BuildOnce sync.Once
	c17BuildBin  string
	c17BuildErr  error
)

// c17ArraiBinary builds cmd/arrai from the working tree, once per process. The driver does it before
// the first worker starts (WorkerEnv) and hands the path down in C17_ARRAI, so that no build ever
// runs inside a case (a cold build takes minutes and would trip the per-case watchdog); a replay
// builds for itself.
func c17ArraiBinary(cfg *core.Config) (string, error) {
	if p := os.Getenv("C17_ARRAI"); p != "" {
		if strings.HasPrefix(p, "error:") {
			return "", fmt.Errorf("%s", p)
		}
		return p, nil
	}
	c17BuildOnce.Do(func() {
		os.MkdirAll(cfg.RunDir, 0o755)
		bin := filepath.Join(cfg.RunDir, fmt.Sprintf("c17-arrai-%d", os.Getpid()))
		cmd := exec.Command("go", "build", "-o", bin, "./cmd/arrai")
		cmd.Dir = c17RepoDir(cfg)
		if out, err := cmd.CombinedOutput(); err != nil {
			c17BuildErr = fmt.Errorf("go build ./cmd/arrai in %s: %v: %s", cmd.Dir, err, c17Clip(string(out), 300))
			return
		}
		c17BuildBin = bin
	})
	return c17BuildBin, c17BuildErr
}

// c17OwnsPort reports whether process pid holds the listening socket on 127.0.0.1:port. Another
// worker's server may have taken a port between c17FreePort and our server's bind; a successful
// connect alone would then attach this history's clients to a foreign server.
func c17OwnsPort(pid, port int) bool {
	b, err := os.ReadFile("/proc/net/tcp")
	if err != nil {
		return true // cannot tell (no procfs): fall back on the connect test
	}
	want := fmt.Sprintf("0100007F:%04X", port)
	inode := ""
	for _, ln := range strings.Split(string(b), "\n")[1:] {
		f := strings.Fields(ln)
		if len(f) > 9 && f[1] == want && f[3] == "0A" {
			inode = f[9]
		}
	}
	if inode == "" {
		return false
	}
	fds, _ := filepath.Glob(fmt.Sprintf("/proc/%d/fd/*", pid))
	for _, fd := range fds {
		if l, err := os.Readlink(fd); err == nil && l == "socket:["+inode+"]" {
			return true
		}
	}
	return false
}

func c17FreePort() (int, error) {
	l, err := net.Listen("tcp", "127.0.0.1:0")
	if err != nil {
		return 0, err
	}
	defer l.Close()
	return l.Addr().(*net.TCPAddr).Port, nil
}

// ---------------------------------------------------------------------------------------------

type c17SysObserver struct {
	kill  func()        // SIGKILL of the observe process / reset of the observer's connection
	first chan struct{} // closed at the first value or at the end of the stream
	done  chan struct{} // closed when the stream ended
	once  sync.Once
}

type c17SysRun struct {
	bin, addr string
	rec       *c17Rec
	mu        sync.Mutex
	procs     map[int]*os.Process // live client processes
	server    *exec.Cmd
	serverErr string     // path of the server's stderr
	grpc      bool       // clients are in-process gRPC connections instead of CLI processes
	conns     []*c17Conn // gRPC mode: every connection opened, for teardown
	wsAddr    string
	wsConns   []*c17WSConn
	t0        time.Time // start of the case: everything together must stay below the per-case watchdog
	// pending = client operations begun and not finished; waiting = those of them that are parked in a
	// pure wait on a client process. The hang criterion is only evaluated while pending == waiting
	// (otherwise the harness itself is still working, e.g. forking a client on a loaded machine).
	pending, waiting atomic.Int64
}

func (s *c17SysRun) track(p *os.Process) {
	s.mu.Lock()
	s.procs[p.Pid] = p
	s.mu.Unlock()
}

func (s *c17SysRun) untrack(p *os.Process) {
	s.mu.Lock()
	delete(s.procs, p.Pid)
	s.mu.Unlock()
}

func (s *c17SysRun) update(src string) string {
	if s.grpc {
		return s.grpcUpdate(src)
	}
	cmd := exec.Command(s.bin, "update", s.addr, src)
	var sb strings.Builder
	cmd.Stderr = &sb
	if err := cmd.Start(); err != nil {
		return "spawn: " + err.Error()
	}
	s.track(cmd.Process)
	s.waiting.Add(1)
	err := cmd.Wait()
	s.waiting.Add(-1)
	s.untrack(cmd.Process)
	if err != nil {
		msg := strings.TrimSpace(sb.String())
		if i := strings.LastIndexByte(msg, '\n'); i >= 0 {
			msg = msg[i+1:]
		}
		return c17Clip(err.Error()+": "+msg, 200)
	}
	return ""
}

func (s *c17SysRun) observe(obs int, src string) (*c17SysObserver, error) {
	if s.grpc {
		return s.grpcObserve(obs, src)
	}
	cmd := exec.Command(s.bin, "observe", s.addr, src)
	out, err := cmd.StdoutPipe()
	if err != nil {
		return nil, err
	}
	var sb strings.Builder
	cmd.Stderr = &sb
	if err := cmd.Start(); err != nil {
		return nil, err
	}
	s.track(cmd.Process)
	o := &c17SysObserver{kill: func() { cmd.Process.Kill() }, first: make(chan struct{}), done: make(chan struct{})}
	go func() {
		sc := bufio.NewScanner(out)
		sc.Buffer(make([]byte, 1<<16), 1<<22)
		for sc.Scan() {
			ln := sc.Text()
			if ln == "" {
				ln = "{}"
			}
			s.rec.add(c17Ev{E: "val", Client: -1, Op: -1, Obs: obs, Val: ln})
			o.once.Do(func() { close(o.first) })
		}
		werr := cmd.Wait()
		s.untrack(cmd.Process)
		msg := strings.TrimSpace(sb.String())
		if i := strings.LastIndexByte(msg, '\n'); i >= 0 {
			msg = msg[i+1:]
		}
		s.rec.add(c17Ev{E: "close", Client: -1, Op: -1, Obs: obs, Err: c17Clip(fmt.Sprint(werr)+": "+msg, 200)})
		o.once.Do(func() { close(o.first) })
		close(o.done)
	}()
	return o, nil
}

// c17ProcState is the process state letter from /proc/<pid>/stat ("" if the process is gone).
func c17ProcState(pid int) string {
	b, err := os.ReadFile(fmt.Sprintf("/proc/%d/stat", pid))
	if err != nil {
		return ""
	}
	s := string(b)
	if i := strings.LastIndexByte(s, ')'); i >= 0 {
		if f := strings.Fields(s[i+1:]); len(f) > 0 {
			return f[0]
		}
	}
	return ""
}

// c17ProcQuiet reads a process's CPU ticks (utime+stime, 10 ms units) and whether every one of its
// threads is sleeping (a runnable thread that is merely starved of CPU on a loaded machine is work in
// progress, not a hang). ok=false: the process is gone.
func c17ProcQuiet(pid int) (ticks int64, quiet, ok bool) {
	parse := func(path string) (int64, string, bool) {
		b, err := os.ReadFile(path)
		if err != nil {
			return 0, "", false
		}
		s := string(b)
		i := strings.LastIndexByte(s, ')')
		if i < 0 {
			return 0, "", false
		}
		f := strings.Fields(s[i+1:])
		if len(f) < 14 {
			return 0, "", false
		}
		ut, _ := strconv.ParseInt(f[11], 10, 64)
		st, _ := strconv.ParseInt(f[12], 10, 64)
		return ut + st, f[0], true
	}
	ticks, _, ok = parse(fmt.Sprintf("/proc/%d/stat", pid))
	if !ok {
		return 0, false, false
	}
	quiet = true
	tasks, _ := filepath.Glob(fmt.Sprintf("/proc/%d/task/*/stat", pid))
	for _, t := range tasks {
		if _, st, ok := parse(t); ok && st != "S" && st != "Z" && st != "X" && st != "I" {
			quiet = false
		}
	}
	return ticks, quiet, true
}

var c17ReGo = regexp.MustCompile(`(?m)^goroutine (\d+)[^\[\n]*\[([^\]]*)\]:`)

// c17SysHangProbe is the logical hang criterion at the process boundary: the server and every
// pending client process consumed (next to) no CPU for over a second and none is runnable, while an
// operation is pending. Only then the server is sent SIGQUIT to obtain the blocked engine frame.
func (s *c17SysRun) hangProbe() *core.HangInfo {
	pids := []int{s.server.Process.Pid}
	s.mu.Lock()
	for pid := range s.procs {
		pids = append(pids, pid)
	}
	s.mu.Unlock()
	// 24 samples over 6 s: every thread of every process asleep in each sample, < 50 ms CPU in total.
	// (A wedge lasts forever, so a long window costs only time; it keeps timers such as connection
	// back-off and CPU starvation on a loaded machine from looking like a hang.)
	before := map[int]int64{}
	var delta int64
	for n := 0; n < 24; n++ {
		if s.pending.Load() != s.waiting.Load() || s.pending.Load() == 0 {
			return nil
		}
		s.mu.Lock()
		np := len(s.procs)
		s.mu.Unlock()
		if np != len(pids)-1 {
			return nil // client processes came or went: progress
		}
		delta = 0
		for _, pid := range pids {
			t, quiet, ok := c17ProcQuiet(pid)
			if !ok {
				if pid == s.server.Process.Pid {
					return nil
				}
				continue
			}
			if !quiet {
				return nil
			}
			if n == 0 {
				before[pid] = t
			}
			delta += t - before[pid]
		}
		if delta > 5 {
			return nil
		}
		time.Sleep(250 * time.Millisecond)
	}
	s.server.Process.Signal(syscall.SIGQUIT)
	done := make(chan struct{})
	go func() { s.server.Wait(); close(done) }()
	select {
	case <-done:
	case <-time.After(5 * time.Second):
		s.server.Process.Kill()
		<-done
	}
	b, _ := os.ReadFile(s.serverErr)
	dump := string(b)
	if i := strings.Index(dump, "SIGQUIT"); i >= 0 {
		dump = dump[i:]
	}
	// what is the server blocked in? A wedge needs a server-side goroutine stuck inside the engine (or
	// the actor itself anywhere but its idle select); an idle server means the pending request never
	// reached it (client stalled), which is not the property's concern => inconclusive.
	hi := &core.HangInfo{Kind: "client-stall", Site: "(server idle)", State: "idle", CPUms: delta * 10}
	for _, blk := range strings.Split(dump, "\n\n") {
		m := c17ReGo.FindStringSubmatch(blk)
		if m == nil || !(strings.Contains(blk, "github.com/arr-ai/arrai/engine.") || strings.Contains(blk, "main.(*arraiServer)")) {
			continue
		}
		state := m[2]
		if i := strings.IndexByte(state, ','); i >= 0 {
			state = state[:i]
		}
		var frames []string
		site := ""
		for _, ln := range strings.Split(blk, "\n")[1:] {
			if strings.HasPrefix(ln, "\t") || strings.HasPrefix(ln, "created by") {
				continue
			}
			if i := strings.LastIndexByte(ln, '('); i > 0 {
				ln = ln[:i]
			}
			frames = append(frames, ln)
			if site == "" && (strings.HasPrefix(ln, "github.com/arr-ai/arrai/") || strings.HasPrefix(ln, "main.")) {
				site = core.NormFrame(ln)
			}
		}
		actor := strings.Contains(blk, "arrai/engine.Start.func1")
		switch {
		case actor && state == "select" && site == "engine.Start":
			continue // the actor idles in its select
		case actor, strings.HasPrefix(site, "engine."),
			strings.HasPrefix(site, "main.(*arraiServer).Observe") && state == "chan send": // (its idle state is `<-retch`)
			if hi.Kind != "blocked" || actor {
				hi.Kind, hi.State, hi.Site, hi.Stack = "blocked", state, site, strings.Join(frames, "\n")
			}
		}
	}
	return hi
}

func (s *c17SysRun) await(done <-chan struct{}, h *c17Hist) bool {
	last, lastChange, start := s.rec.n(), time.Now(), s.t0
	tick := time.NewTicker(20 * time.Millisecond)
	defer tick.Stop()
	for {
		select {
		case <-done:
			return true
		case <-tick.C:
		}
		if n := s.rec.n(); n != last {
			last, lastChange = n, time.Now()
			continue
		}
		if time.Since(lastChange) > 4*time.Second {
			if hi := s.hangProbe(); hi != nil {
				if hi.Kind != "blocked" {
					h.Slow = "client processes stalled while the server was idle (request never reached it); server stopped for its goroutine dump"
					return false
				}
				h.Hang = hi
				return false
			}
			lastChange = time.Now()
		}
		if time.Since(start) > 105*time.Second { // (the worker's per-case watchdog stops a case at 150 s)
			h.Slow = "system history not finished after 105 s and the logical hang criterion is not met"
			return false
		}
	}
}

func c17RunSystem(cfg *core.Config, p c17Plan, i int) *c17Hist {
	runtime.LockOSThread() // see Pdeathsig below; RunCase runs on the worker's main goroutine
	h := &c17Hist{Plan: p}
	bin, err := c17ArraiBinary(cfg)
	if err != nil {
		h.Slow = "setup: " + err.Error()
		return h
	}
	s := &c17SysRun{bin: bin, rec: &c17Rec{}, procs: map[int]*os.Process{}, grpc: p.Layer != "system", t0: time.Now()}
	s.serverErr = filepath.Join(cfg.RunDir, fmt.Sprintf("c17-serve-%d-%d.stderr", os.Getpid(), i))
	// start the server (retry on a port collision)
	ready := false
	for attempt := 0; attempt < 4 && !ready && time.Since(s.t0) < 40*time.Second; attempt++ {
		port, err1 := c17FreePort()
		ws, err2 := c17FreePort()
		if err1 != nil || err2 != nil {
			continue
		}
		s.addr = fmt.Sprintf("127.0.0.1:%d", port)
		s.wsAddr = fmt.Sprintf("127.0.0.1:%d", ws)
		ef, err := os.Create(s.serverErr)
		if err != nil {
			h.Slow = "setup: " + err.Error()
			return h
		}
		s.server = exec.Command(bin, "serve", "--listen", s.addr, "--ws", s.wsAddr)
		s.server.Stdout, s.server.Stderr = ef, ef
		s.server.Env = append(os.Environ(), "GOTRACEBACK=all")
		// the server must not outlive a worker that is killed mid-history (the parent-death signal is
		// tied to the forking thread, hence the LockOSThread in c17RunSystem)
		s.server.SysProcAttr = &syscall.SysProcAttr{Pdeathsig: syscall.SIGKILL}
		if err := s.server.Start(); err != nil {
			ef.Close()
			h.Slow = "setup: " + err.Error()
			return h
		}
		ef.Close()
		for n := 0; n < 300 && !ready && time.Since(s.t0) < 45*time.Second; n++ {
			// both listeners come up on goroutines of their own; each must be *this* server's
			if c17OwnsPort(s.server.Process.Pid, port) && c17OwnsPort(s.server.Process.Pid, ws) {
				if c, err := net.DialTimeout("tcp", s.addr, 200*time.Millisecond); err == nil {
					c.Close()
					ready = true
					break
				}
			}
			if st := c17ProcState(s.server.Process.Pid); st == "" || st == "Z" || st == "X" {
				break // the server exited (e.g. its port was taken meanwhile): try other ports
			}
			time.Sleep(50 * time.Millisecond)
		}
		if !ready {
			s.server.Process.Kill()
			s.server.Wait()
		}
	}
	if !ready {
		h.Slow = "setup: arrai serve did not come up on loopback"
		return h
	}
	serverGone := false
	defer func() {
		s.mu.Lock()
		for _, pr := range s.procs {
			pr.Kill()
		}
		conns, wsConns := s.conns, s.wsConns
		s.mu.Unlock()
		for _, c := range conns {
			c.reset()
		}
		for _, c := range wsConns {
			c.reset()
		}
		if !serverGone && h.Hang == nil {
			s.server.Process.Kill()
			s.server.Wait()
		}
		if len(h.Viols()) == 0 && h.Hang == nil {
			os.Remove(s.serverErr)
		}
	}()

	observers := make([]*c17SysObserver, p.NObs)
	wsConns := make([]*c17WSConn, p.NConn) // each slot is used by the client that opened it only
	var wg sync.WaitGroup
	for c := range p.Clients {
		wg.Add(1)
		go func(c int) {
			defer wg.Done()
			for k, o := range p.Clients[c] {
				c17Delay(o.Pre)
				s.pending.Add(1)
				s.rec.add(c17Ev{E: "call", Client: c, Op: k, Obs: o.Obs})
				errs := ""
				switch o.Kind {
				case "upd", "updfail":
					errs = s.update(o.Src)
				case "obs", "resub":
					var ob *c17SysObserver
					var err error
					switch {
					case o.Via == "ws" && o.Kind == "obs":
						var wc *c17WSConn
						if wc, err = s.wsDial(); err == nil {
							wsConns[o.Conn] = wc
							ob, err = wc.subscribe(o.Obs, strings.TrimPrefix(o.Flavor, "ws-"), o.Src)
						}
					case o.Via == "ws":
						if wc := wsConns[o.Conn]; wc != nil {
							ob, err = wc.subscribe(o.Obs, strings.TrimPrefix(o.Flavor, "ws-"), o.Src)
						} else {
							err = fmt.Errorf("connection %d was never opened", o.Conn)
						}
					default:
						ob, err = s.observe(o.Obs, o.Src)
					}
					if err != nil {
						errs = "spawn: " + err.Error()
					} else {
						observers[o.Obs] = ob
						s.waiting.Add(1)
						<-ob.first // subscribed (first value) or ended
						s.waiting.Add(-1)
					}
				case "kill":
					if ob := observers[o.Obs]; ob != nil {
						ob.kill()
						s.waiting.Add(1)
						<-ob.done
						s.waiting.Add(-1)
					}
				}
				s.rec.add(c17Ev{E: "ret", Client: c, Op: k, Obs: o.Obs, Err: errs})
				s.pending.Add(-1)
			}
		}(c)
	}
	done := make(chan struct{})
	go func() { wg.Wait(); close(done) }()
	if !s.await(done, h) {
		h.Events = s.rec.snapshot()
		serverGone = h.Hang != nil
		return h
	}
	fin := make(chan struct{})
	go func() {
		defer close(fin)
		nc := len(p.Clients)
		s.pending.Add(1)
		defer s.pending.Add(-1)
		s.rec.add(c17Ev{E: "call", Client: nc, Op: 0, Obs: c17FinalObs})
		if ob, err := s.observe(c17FinalObs, "$"); err == nil {
			s.waiting.Add(1)
			<-ob.first
			s.waiting.Add(-1)
		}
		s.rec.add(c17Ev{E: "ret", Client: nc, Op: 0, Obs: c17FinalObs})
		s.rec.add(c17Ev{E: "call", Client: nc, Op: 1, Obs: -1})
		errs := s.update(c17Barrier(p.Layer).Src)
		s.rec.add(c17Ev{E: "ret", Client: nc, Op: 1, Obs: -1, Err: errs})
		s.rec.add(c17Ev{E: "call", Client: nc, Op: 2, Obs: -1})
		errs = s.update("(sync: 1).nope")
		s.rec.add(c17Ev{E: "ret", Client: nc, Op: 2, Obs: -1, Err: errs})
	}()
	if !s.await(fin, h) {
		h.Events = s.rec.snapshot()
		serverGone = h.Hang != nil
		h.Notes = append(h.Notes, "wedged in the final witness/barrier phase")
		return h
	}
	// deliveries (also the final witness's) travel through client connections / processes: poll until
	// the record explains itself or nothing has arrived for 8 s (more time can only remove an alarm about a value
	// that has not arrived yet, never create one)
	lastN, lastChange := -1, time.Now()
	for {
		h.Events = s.rec.snapshot()
		if len(c17Judge(h).Viols) == 0 {
			break
		}
		if len(h.Events) != lastN {
			lastN, lastChange = len(h.Events), time.Now()
		}
		if time.Since(lastChange) > 8*time.Second {
			break // nothing has arrived for 8 s: the alarm stands
		}
		if time.Since(s.t0) > 125*time.Second {
			h.Slow = "values were still arriving at the case deadline (slow machine)"
			break
		}
		time.Sleep(100 * time.Millisecond)
	}
	return h
}

// Viols is a convenience for teardown decisions only.
func (h *c17Hist) Viols() []core.Violation {
	if h.Events == nil {
		return nil
	}
	return c17Judge(h).Viols
}
