package checks

import (
	"fmt"
	"path"
	"sort"
	"strings"

	"verif/core"
)

// C15 layout model and generators. A layout is a directory tree (paths relative to an absolute
// base directory) with go.mod sentinels, .arrai scripts and data files, an acyclic import graph
// over the files and a main file. Everything is value-determined from (tier, seed, case index).

// c15Edge is one import statement inside an .arrai file.
type c15Edge struct {
	To       int    // target node index; -1 = a file that does not exist
	Spelling string // text inside //{...}
	Explicit string // "" = implicit decoder, else the decoder expression for //[...]{...}
	Kind     string // spelling family: rel | rel-ext | rel-dotdot | rel-up | rooted | rooted-ext | missing
}

// c15Node is one non-sentinel file.
type c15Node struct {
	Dir   string // directory relative to the base ("" = base itself)
	Name  string // file name incl. extension
	Kind  string // arrai | json | yaml | yml | csv | txt
	ID    int    // unique small number carried by the file's value and content
	Form  string // arrai only: tuple | let | fn | num
	Fail  string // arrai only: "" | runtime
	Edges []c15Edge
}

type c15Layout struct {
	Base  string            // absolute, "/" or "/x/y"
	Mods  map[string]string // directory (relative to base) -> go.mod content
	Nodes []c15Node
	Main  int
	Desc  string
}

func (n c15Node) rel() string { return path.Join(n.Dir, n.Name) }

func (l *c15Layout) abs(rel string) string { return path.Join(l.Base, rel) }

func (l *c15Layout) mainPath() string { return l.abs(l.Nodes[l.Main].rel()) }

// c15Under reports whether directory d equals or lies beneath directory root (both relative).
func c15Under(d, root string) bool {
	return root == "" || d == root || strings.HasPrefix(d, root+"/")
}

// moduleRoot is the nearest directory at or above dir that has a sentinel (documented rule).
func (l *c15Layout) moduleRoot(dir string) (string, bool) {
	for d := dir; ; d = path.Dir(d) {
		if d == "." {
			d = ""
		}
		if _, ok := l.Mods[d]; ok {
			return d, true
		}
		if d == "" {
			return "", false
		}
	}
}

func c15RelFrom(fromDir, toRel string) string {
	if fromDir == "" {
		return toRel
	}
	return strings.TrimPrefix(toRel, fromDir+"/")
}

// c15Spell renders the import path text of family kind from node s to node t ("" if the family
// cannot express the edge).
func (l *c15Layout) c15Spell(s, t c15Node, kind string) string {
	target := t.rel()
	noext := target
	if t.Kind == "arrai" {
		noext = strings.TrimSuffix(target, ".arrai")
	}
	switch kind {
	case "rel", "rel-ext", "rel-dotdot":
		if !c15Under(t.Dir, s.Dir) {
			return ""
		}
		p := c15RelFrom(s.Dir, noext)
		if kind == "rel-ext" {
			p = c15RelFrom(s.Dir, target)
		}
		if kind == "rel-dotdot" {
			return "./zz/../" + p
		}
		return "./" + p
	case "rel-up": // textual parent reach; the language rejects it
		return "./../" + path.Base(noext)
	case "rooted", "rooted-ext":
		root, ok := l.moduleRoot(s.Dir)
		if !ok {
			root = "" // still spelled; expected to fail on both sides
		}
		if !c15Under(t.Dir, root) {
			return ""
		}
		p := c15RelFrom(root, noext)
		if kind == "rooted-ext" {
			p = c15RelFrom(root, target)
		}
		return "/" + p
	}
	return ""
}

var c15ExplicitDecoder = map[string]string{
	"json": "//encoding.json", "yaml": "//encoding.yaml", "yml": "//encoding.yaml",
	"csv": "//encoding.csv", "txt": "//encoding.bytes", "arrai": "//encoding.bytes",
}

// content renders the file text of node k. Every file's content is unique (it carries the id).
func (l *c15Layout) content(k int) string {
	n := l.Nodes[k]
	switch n.Kind {
	case "json":
		return fmt.Sprintf(`{"id": %d, "list": [1, 2, {"x": null}], "s": "j%d"}`, n.ID, n.ID)
	case "yaml", "yml":
		return fmt.Sprintf("id: %d\nitems:\n  - a%d\n  - 2\n", n.ID, n.ID)
	case "csv":
		return fmt.Sprintf("id,name\n%d,n%d\n", n.ID, n.ID)
	case "txt":
		return fmt.Sprintf("text %d\n", n.ID)
	}
	imp := make([]string, len(n.Edges))
	for j, e := range n.Edges {
		x := "//{" + e.Spelling + "}"
		if e.Explicit != "" {
			x = "//[" + e.Explicit + "]{" + e.Spelling + "}"
		}
		if e.To >= 0 && l.Nodes[e.To].Kind == "arrai" && l.Nodes[e.To].Form == "fn" && e.Explicit == "" {
			x += fmt.Sprintf("(%d)", n.ID)
		}
		imp[j] = x
	}
	var sb strings.Builder
	fmt.Fprintf(&sb, "# node %d (%s)\n", n.ID, n.rel())
	attrs := []string{fmt.Sprintf("id: %d", n.ID)}
	switch n.Form {
	case "num":
		fmt.Fprintf(&sb, "%d * 100 + 7\n", n.ID)
		return sb.String()
	case "let":
		for j, x := range imp {
			fmt.Fprintf(&sb, "let a%d = %s;\n", j, x)
			attrs = append(attrs, fmt.Sprintf("e%d: a%d", j, j))
		}
	default:
		for j, x := range imp {
			attrs = append(attrs, fmt.Sprintf("e%d: %s", j, x))
		}
	}
	if n.Fail == "runtime" {
		attrs = append(attrs, "bad: (a: 1).b")
	}
	if n.Form == "fn" {
		sb.WriteString("\\arg ")
		attrs = append(attrs, "arg: arg")
	}
	sb.WriteString("(" + strings.Join(attrs, ", ") + ")\n")
	return sb.String()
}

// files renders every file of the layout: absolute path -> content (sentinels included).
func (l *c15Layout) files() map[string]string {
	out := map[string]string{}
	for d, c := range l.Mods {
		out[l.abs(path.Join(d, "go.mod"))] = c
	}
	for k, n := range l.Nodes {
		out[l.abs(n.rel())] = l.content(k)
	}
	return out
}

// reachable returns the node indexes reachable from main through the import graph.
func (l *c15Layout) reachable() []int {
	seen := map[int]bool{}
	var walk func(k int)
	walk = func(k int) {
		if seen[k] {
			return
		}
		seen[k] = true
		for _, e := range l.Nodes[k].Edges {
			if e.To >= 0 {
				walk(e.To)
			}
		}
	}
	walk(l.Main)
	var out []int
	for k := range seen {
		out = append(out, k)
	}
	sort.Ints(out)
	return out
}

// c15SentinelHazard classifies go.mod content (a feature of the input).
func c15SentinelHazard(content string) string {
	switch {
	case !strings.Contains(content, "module "):
		return "sentinel:no-module-line"
	case !strings.HasPrefix(content, "module "):
		return "sentinel:module-not-first-line"
	case !strings.Contains(content, "\n"):
		return "sentinel:no-trailing-newline"
	}
	return ""
}

// hazards lists the model-level features of the part of the layout that main can reach.
func (l *c15Layout) hazards() []string {
	hz := map[string]bool{}
	m := l.Nodes[l.Main]
	mainRoot, hasRoot := l.moduleRoot(m.Dir)
	if hasRoot {
		hz["mod:main-has-root"] = true
		if mainRoot != "" {
			hz["mod:root-below-base"] = true
		}
		if h := c15SentinelHazard(l.Mods[mainRoot]); h != "" {
			hz["main-"+h] = true
		}
	} else {
		hz["mod:main-has-no-root"] = true
	}
	if l.Base == "/" {
		hz["base:fs-root"] = true
	}
	if strings.HasPrefix(l.Base, "/module") || strings.HasPrefix(l.Base, "/unnamed") {
		hz["base:archive-like"] = true
	}
	reach := l.reachable()
	if len(reach) > 1 {
		hz["imports"] = true
	}
	indeg := map[int]int{}
	for _, k := range reach {
		n := l.Nodes[k]
		if strings.Contains(n.rel(), " ") {
			hz["path:space"] = true
		}
		if strings.Contains(n.Dir, ".") {
			hz["path:dot-dir"] = true
		}
		if n.Fail != "" {
			hz["fail:"+n.Fail] = true
		}
		if n.Kind != "arrai" {
			hz["data:"+n.Kind] = true
		}
		if n.Kind == "arrai" && n.Form == "fn" && k != l.Main {
			hz["fn-export"] = true
		}
		// a sentinel strictly below the main file's root (or below a root-less main) that
		// governs a reachable file
		if r, ok := l.moduleRoot(n.Dir); ok && (!hasRoot || r != mainRoot) {
			if hasRoot {
				hz["mod:nested-root-reached"] = true
			} else {
				hz["mod:root-below-rootless-main"] = true
			}
			if h := c15SentinelHazard(l.Mods[r]); h != "" {
				hz["nested-"+h] = true
			}
		}
		for _, e := range n.Edges {
			hz["import:"+e.Kind] = true
			if e.Explicit != "" {
				hz["decoder:explicit"] = true
			}
			if e.To < 0 {
				hz["fail:missing-import"] = true
				continue
			}
			indeg[e.To]++
			t := l.Nodes[e.To]
			if strings.HasPrefix(e.Kind, "rooted") {
				if _, ok := l.moduleRoot(n.Dir); !ok {
					hz["fail:rooted-without-root"] = true
				} else if !c15Under(t.Dir, n.Dir) {
					hz["import:parent-reach"] = true
				}
			}
			if e.Kind == "rel-up" {
				hz["fail:rel-up"] = true
			}
			if e.Explicit == "//encoding.json" && t.Kind != "json" {
				hz["fail:decoder-mismatch"] = true
			}
		}
	}
	for _, d := range indeg {
		if d > 1 {
			hz["diamond"] = true
		}
	}
	var out []string
	for h := range hz {
		out = append(out, h)
	}
	sort.Strings(out)
	return out
}

// expectFail reports whether the generator deliberately built a failing program.
func c15ExpectFail(hz []string) bool {
	for _, h := range hz {
		if strings.HasPrefix(h, "fail:") {
			return true
		}
	}
	return false
}

func (l *c15Layout) describe() string {
	fs := l.files()
	var ps []string
	for p := range fs {
		ps = append(ps, p)
	}
	sort.Strings(ps)
	var sb strings.Builder
	fmt.Fprintf(&sb, "main=%s", l.mainPath())
	for _, p := range ps {
		fmt.Fprintf(&sb, " | %s: %q", p, fs[p])
	}
	return sb.String()
}

// key is the canonical encoding of the layout (distinct-case counting).
func (l *c15Layout) key() string { return l.describe() }

// ---------------------------------------------------------------------------------------------
// seed-independent core corpus (small-scope exhaustive)

var (
	c15CoreBases    = []string{"/", "/w/p"}
	c15CoreMods     = []string{"none", "base", "base+a", "a-only"}
	c15CoreMainDirs = []string{"", "a", "a/b"}
	// where the import target lives, relative to the main file's directory or absolute in the tree
	c15CoreTargets = []string{"same", "child", "base", "a"}
	c15CoreSpell   = []string{"rel", "rel-ext", "rel-dotdot", "rooted", "rooted-ext", "rel-up"}
	// target kind x decoder x second hop
	c15CoreKinds = []string{"arrai", "arrai+rooted-hop", "arrai+rel-hop", "arrai-fn", "json", "json-explicit",
		"yaml", "yml", "csv", "csv-explicit", "txt", "txt-explicit"}
)

// the quick tier's core uses half of the target kinds (one per decoder route and hop shape)
var c15CoreKindsQuick = []string{"arrai+rooted-hop", "arrai+rel-hop", "arrai-fn", "json", "csv-explicit", "txt"}

func c15CoreKindList(thorough bool) []string {
	if thorough {
		return c15CoreKinds
	}
	return c15CoreKindsQuick
}

func c15CoreCount(thorough bool) int {
	return len(c15CoreBases) * len(c15CoreMods) * len(c15CoreMainDirs) * len(c15CoreTargets) * len(c15CoreSpell) * len(c15CoreKindList(thorough))
}

func c15ModContent(name string, id int, variant int) string {
	switch variant {
	case 1:
		return fmt.Sprintf("module %s\n\ngo 1.24\n\n// sentinel %d\n", name, id)
	case 2: // valid go.mod whose module line is not the first line
		return fmt.Sprintf("// sentinel %d\nmodule %s\n", id, name)
	case 3: // valid go.mod without a trailing newline
		return fmt.Sprintf("module %s/s%d", name, id)
	case 4: // bare sentinel: marks a root, names no module
		return fmt.Sprintf("// sentinel %d\n", id)
	}
	return fmt.Sprintf("module %s\n// sentinel %d\n", name, id)
}

// c15CoreLayout builds core case k: main imports one target through one spelling; decoy files
// with the target's name sit in every other directory so that a mis-resolved import still finds
// a file (with a different value).
func c15CoreLayout(k int, thorough bool) *c15Layout {
	pick := func(xs []string) string {
		v := xs[k%len(xs)]
		k /= len(xs)
		return v
	}
	kind := pick(c15CoreKindList(thorough))
	spell := pick(c15CoreSpell)
	target := pick(c15CoreTargets)
	mainDir := pick(c15CoreMainDirs)
	mods := pick(c15CoreMods)
	base := pick(c15CoreBases)

	l := &c15Layout{Base: base, Mods: map[string]string{}}
	switch mods {
	case "base":
		l.Mods[""] = c15ModContent("example.com/top", 901, 0)
	case "base+a":
		l.Mods[""] = c15ModContent("example.com/top", 901, 1)
		l.Mods["a"] = c15ModContent("example.com/nested", 902, 0)
	case "a-only":
		l.Mods["a"] = c15ModContent("nested", 902, 0)
	}
	tdir := mainDir
	switch target {
	case "child":
		tdir = path.Join(mainDir, "c")
	case "base":
		tdir = ""
	case "a":
		tdir = "a"
	}
	ext := map[string]string{"arrai": "arrai", "arrai+rooted-hop": "arrai", "arrai+rel-hop": "arrai", "arrai-fn": "arrai",
		"json": "json", "json-explicit": "json", "yaml": "yaml", "yml": "yml", "csv": "csv", "csv-explicit": "csv",
		"txt": "txt", "txt-explicit": "txt"}[kind]
	tname := "t." + ext
	l.Nodes = append(l.Nodes, c15Node{Dir: mainDir, Name: "main.arrai", Kind: "arrai", ID: 1, Form: "tuple"})
	tn := c15Node{Dir: tdir, Name: tname, Kind: ext, ID: 2, Form: "tuple"}
	if kind == "arrai-fn" {
		tn.Form = "fn"
	}
	l.Nodes = append(l.Nodes, tn)
	// decoys: same name in every other directory of the small tree
	id := 10
	for _, d := range []string{"", "a", "a/b", "a/c", "a/b/c", "c"} {
		if d != tdir {
			l.Nodes = append(l.Nodes, c15Node{Dir: d, Name: tname, Kind: ext, ID: id, Form: "num"})
		}
		id++
	}
	e := c15Edge{To: 1, Kind: spell}
	e.Spelling = l.c15Spell(l.Nodes[0], l.Nodes[1], spell)
	if e.Spelling == "" {
		// the family cannot express this edge: spell the target's name in that family anyway
		// (resolves to a decoy or to nothing; same on both sides is all that is required)
		fake := c15Node{Dir: mainDir, Name: tname, Kind: ext}
		if strings.HasPrefix(spell, "rooted") {
			if r, ok := l.moduleRoot(mainDir); ok {
				fake.Dir = r
			}
		}
		e.Spelling = l.c15Spell(l.Nodes[0], fake, spell)
		e.Kind = spell
	}
	if strings.HasSuffix(kind, "-explicit") {
		e.Explicit = c15ExplicitDecoder[ext]
	}
	l.Nodes[0].Edges = []c15Edge{e}
	// second hop from the target
	if kind == "arrai+rooted-hop" || kind == "arrai+rel-hop" {
		leaf := c15Node{Dir: tdir, Name: "leaf.arrai", Kind: "arrai", ID: 3, Form: "num"}
		hk := "rel"
		if kind == "arrai+rooted-hop" {
			hk = "rooted"
			if r, ok := l.moduleRoot(tdir); ok {
				leaf.Dir = r
			}
		}
		l.Nodes = append(l.Nodes, leaf)
		li := len(l.Nodes) - 1
		// decoy leaves elsewhere
		for j, d := range []string{"", "a", "a/b", "c"} {
			if d != leaf.Dir {
				l.Nodes = append(l.Nodes, c15Node{Dir: d, Name: "leaf.arrai", Kind: "arrai", ID: 30 + j, Form: "num"})
			}
		}
		l.Nodes[1].Edges = []c15Edge{{To: li, Kind: hk, Spelling: l.c15Spell(l.Nodes[1], l.Nodes[li], hk)}}
	}
	l.Desc = fmt.Sprintf("core base=%s mods=%s mainDir=%q target=%s spelling=%s kind=%s", base, mods, mainDir, target, spell, kind)
	return l
}

// ---------------------------------------------------------------------------------------------
// seeded random layouts

var (
	c15Bases    = []string{"/", "/w", "/src/proj", "/a/b/c", "/module/m", "/unnamed", "/w/go.mod.d"}
	c15DirNames = []string{"a", "b", "lib", "sub", "v1.2", "x y", "m", "module", "unnamed"}
	c15Stems    = []string{"x", "y", "z", "util", "data", "main", "index", "go"}
	c15ModNames = []string{"m", "github.com/org/repo", "example.com/a/b/v2", "a", "lib", "module", "unnamed"}
)

// c15RandomLayout draws a layout. forDisk restricts it to what a real directory can hold.
func c15RandomLayout(r *core.Rng, forDisk bool) *c15Layout {
	l := &c15Layout{Mods: map[string]string{}}
	l.Base = core.Pick(r, c15Bases)
	if forDisk && l.Base == "/" {
		l.Base = "/w"
	}
	// directories
	dirs := []string{""}
	for n := r.Range(1, 4); n > 0; n-- {
		parent := core.Pick(r, dirs)
		if strings.Count(parent, "/") >= 2 && parent != "" {
			continue
		}
		d := path.Join(parent, core.Pick(r, c15DirNames))
		dup := false
		for _, x := range dirs {
			dup = dup || x == d
		}
		if !dup {
			dirs = append(dirs, d)
		}
	}
	sub := func() string {
		if len(dirs) == 1 {
			return ""
		}
		return dirs[1+r.Intn(len(dirs)-1)]
	}
	// sentinels
	variant := func() int {
		switch x := r.Intn(20); {
		case x < 10:
			return 0
		case x < 15:
			return 1
		case x < 17:
			return 2
		case x < 19:
			return 3
		}
		return 4
	}
	cfg := r.Intn(100)
	mainInNested := false
	switch {
	case cfg < 30: // no sentinel anywhere
	case cfg < 60:
		l.Mods[""] = c15ModContent(core.Pick(r, c15ModNames), 900, variant())
	case cfg < 75:
		l.Mods[""] = c15ModContent(core.Pick(r, c15ModNames), 900, variant())
		l.Mods[sub()] = c15ModContent(core.Pick(r, c15ModNames), 901, variant())
	case cfg < 85:
		l.Mods[""] = c15ModContent(core.Pick(r, c15ModNames), 900, variant())
		l.Mods[sub()] = c15ModContent(core.Pick(r, c15ModNames), 901, variant())
		mainInNested = true
	default: // a root only below the base
		l.Mods[sub()] = c15ModContent(core.Pick(r, c15ModNames), 901, variant())
	}
	// files
	n := r.Range(2, 7)
	used := map[string]bool{}
	dataKinds := []string{"json", "yaml", "yml", "csv", "txt"}
	for k := 0; k < n; k++ {
		nd := c15Node{ID: k + 1, Dir: core.Pick(r, dirs)}
		nd.Kind = "arrai"
		if k > 0 && r.Chance(2, 5) {
			nd.Kind = core.Pick(r, dataKinds)
		}
		nd.Name = core.Pick(r, c15Stems) + "." + nd.Kind
		if used[nd.rel()] {
			nd.Name = fmt.Sprintf("%s%d.%s", core.Pick(r, c15Stems), k, nd.Kind)
		}
		used[nd.rel()] = true
		if nd.Kind == "arrai" {
			nd.Form = []string{"tuple", "tuple", "let", "fn", "num"}[r.Intn(5)]
			if r.Chance(1, 25) {
				nd.Fail = "runtime"
			}
		}
		l.Nodes = append(l.Nodes, nd)
	}
	// topological order: by depth (needed for root-less trees, where imports only go down) or random
	order := make([]int, n)
	for i := range order {
		order[i] = i
	}
	core.Shuffle(r, order)
	if len(l.Mods) == 0 || r.Chance(1, 2) {
		sort.SliceStable(order, func(i, j int) bool {
			di, dj := l.Nodes[order[i]].Dir, l.Nodes[order[j]].Dir
			return len(strings.Split(di, "/"))-c15btoi(di == "") < len(strings.Split(dj, "/"))-c15btoi(dj == "")
		})
	}
	pos := make([]int, n)
	for p, k := range order {
		pos[k] = p
	}
	relKinds := []string{"rel", "rel", "rel-ext", "rel-dotdot"}
	rootKinds := []string{"rooted", "rooted", "rooted-ext"}
	for _, s := range order {
		if l.Nodes[s].Kind != "arrai" || l.Nodes[s].Form == "num" {
			continue
		}
		for _, t := range order[pos[s]+1:] {
			if len(l.Nodes[s].Edges) >= 3 || !r.Chance(4, 5) {
				continue
			}
			var cands []c15Edge
			for _, kd := range append(append([]string{}, relKinds...), rootKinds...) {
				if strings.HasPrefix(kd, "rooted") {
					if _, ok := l.moduleRoot(l.Nodes[s].Dir); !ok {
						continue
					}
				}
				if sp := l.c15Spell(l.Nodes[s], l.Nodes[t], kd); sp != "" {
					cands = append(cands, c15Edge{To: t, Spelling: sp, Kind: kd})
				}
			}
			if len(cands) == 0 {
				continue
			}
			e := core.Pick(r, cands)
			tk := l.Nodes[t].Kind
			if tk != "arrai" && r.Chance(2, 5) {
				e.Explicit = c15ExplicitDecoder[tk]
			} else if r.Chance(1, 30) {
				e.Explicit = "//encoding.json" // decoder that does not fit the file: both sides must fail
				if tk == "json" {
					e.Explicit = "//encoding.bytes"
				}
			}
			l.Nodes[s].Edges = append(l.Nodes[s].Edges, e)
		}
		// deliberate failures, rarely
		switch x := r.Intn(60); x {
		case 0:
			l.Nodes[s].Edges = append(l.Nodes[s].Edges, c15Edge{To: -1, Spelling: "./nope", Kind: "missing"})
		case 1:
			l.Nodes[s].Edges = append(l.Nodes[s].Edges, c15Edge{To: -1, Spelling: "/nope/x.json", Kind: "missing"})
		case 2:
			if len(l.Nodes[s].Edges) > 0 {
				e := l.Nodes[s].Edges[0]
				e.Kind, e.Spelling = "rel-up", "./../"+path.Base(e.Spelling)
				l.Nodes[s].Edges = append(l.Nodes[s].Edges, e)
			}
		case 3:
			if _, ok := l.moduleRoot(l.Nodes[s].Dir); !ok && len(l.Nodes[s].Edges) > 0 {
				e := l.Nodes[s].Edges[0]
				if t := l.Nodes[e.To]; c15Under(t.Dir, "") {
					e.Kind = "rooted"
					e.Spelling = l.c15Spell(l.Nodes[s], t, "rooted")
					l.Nodes[s].Edges = append(l.Nodes[s].Edges, e)
				}
			}
		}
	}
	// main: usually the file that reaches the most, sometimes any script
	var scripts []int
	best, bestN := 0, -1
	for k, nd := range l.Nodes {
		if nd.Kind != "arrai" {
			continue
		}
		scripts = append(scripts, k)
		l.Main = k
		if c := len(l.reachable()); c > bestN || (c == bestN && r.Chance(1, 2)) {
			best, bestN = k, c
		}
	}
	l.Main = best
	if r.Chance(1, 4) {
		l.Main = core.Pick(r, scripts)
	}
	if mainInNested {
		for _, k := range scripts {
			for d := range l.Mods {
				if d != "" && c15Under(l.Nodes[k].Dir, d) && len(l.Nodes[k].Edges) > 0 {
					l.Main = k
				}
			}
		}
	}
	if l.Nodes[l.Main].Form == "fn" {
		l.Nodes[l.Main].Form = "tuple"
		// importers of main do not exist in what main reaches (acyclic), so no call site changes
	}
	l.Desc = fmt.Sprintf("random base=%s dirs=%d sentinels=%d files=%d", l.Base, len(dirs), len(l.Mods), n)
	return l
}

func c15btoi(b bool) int {
	if b {
		return 1
	}
	return 0
}
