package checks

import (
	"sort"
	"strings"
)

// C08 owns a small AST of the core expression language. Programs are generated as trees,
// rewritten as trees and printed by c08_print.go; the real parser/compiler/evaluator only ever
// sees the printed text.

type c08K int

const (
	c08KNum   c08K = iota // Op = decimal text
	c08KChar              // Op = one ASCII letter: %a
	c08KStr               // Op = content ([a-z0-9 ]*)
	c08KBool              // Op = "true" | "false"
	c08KArr               // Ch = items
	c08KSet               // Ch = members
	c08KTup               // Ops = attr names, Ch = values
	c08KDict              // Ch = k0,v0,k1,v1,...
	c08KRel               // Ops = heading, Ch = cells row-major (>=1 row)
	c08KVar               // Op = name ("." allowed)
	c08KBin               // Op, Ch[0], Ch[1]
	c08KUn                // Op in - + !, Ch[0]
	c08KPost              // Op = count, Ch[0]
	c08KCmp               // Ops = comparison operators, Ch = len(Ops)+1 operands (n-ary chain)
	c08KIf                // Ch = then, test, else:   then if test else else
	c08KCond              // Ch = c0,v0,c1,v1,...[,default]; Def => last child is the `_:` value
	c08KCondV             // Ch[0] = control, Ps[i] / Ch[1+i] arms
	c08KLet               // P, Ch[0] = bound expr, Ch[1] = body:  let P = e1; e2
	c08KArrow             // P (nil => default binder .), Ch[0], Ch[1]:  e1 -> \P e2  |  e1 -> e2
	c08KLam               // P, Ch[0] = body
	c08KCall              // Ch[0] = callee, Ch[1] = argument
	c08KXform             // Op in => >> where :> ; P (nil => default binder .), Ch[0] = lhs, Ch[1] = body
	c08KDot               // Op = attribute, Ch[0] = subject (Var "." prints as .attr)
	c08KParen             // Ch[0]; explicit redundant parentheses (only produced by rewrites)
)

var c08KindName = map[c08K]string{c08KNum: "Num", c08KChar: "Char", c08KStr: "Str", c08KBool: "Bool", c08KArr: "Arr",
	c08KSet: "Set", c08KTup: "Tup", c08KDict: "Dict", c08KRel: "Rel", c08KVar: "Var", c08KBin: "Bin", c08KUn: "Un",
	c08KPost: "Post", c08KCmp: "Cmp", c08KIf: "If", c08KCond: "Cond", c08KCondV: "CondV", c08KLet: "Let",
	c08KArrow: "Arrow", c08KLam: "Lam", c08KCall: "Call", c08KXform: "Xform", c08KDot: "Dot", c08KParen: "Paren"}

type c08N struct {
	K   c08K
	Op  string
	Ops []string
	Ch  []*c08N
	P   *c08P
	Ps  []*c08P
	Def bool
}

// pattern kinds
const (
	c08PIdent = iota // Name
	c08PWild         // _
	c08PNum          // Name = decimal text
	c08PArr          // Sub, Rest ("" | "..." | "...name")
	c08PTup          // Names, Sub, Rest ("" | "...")
)

type c08P struct {
	K     int
	Name  string
	Names []string
	Sub   []*c08P
	Rest  string
}

func c08PI(name string) *c08P { return &c08P{K: c08PIdent, Name: name} }

func (p *c08P) binds(into map[string]bool) {
	if p == nil {
		into["."] = true
		return
	}
	switch p.K {
	case c08PIdent:
		into[p.Name] = true
	case c08PArr, c08PTup:
		for _, s := range p.Sub {
			s.binds(into)
		}
		if strings.HasPrefix(p.Rest, "...") && len(p.Rest) > 3 {
			into[p.Rest[3:]] = true
		}
	}
}

func c08Binds(p *c08P) map[string]bool {
	m := map[string]bool{}
	p.binds(m)
	return m
}

func (p *c08P) clone() *c08P {
	if p == nil {
		return nil
	}
	q := *p
	q.Names = append([]string(nil), p.Names...)
	q.Sub = make([]*c08P, len(p.Sub))
	for i, s := range p.Sub {
		q.Sub[i] = s.clone()
	}
	return &q
}

func (p *c08P) names(into map[string]bool) {
	if p == nil {
		return
	}
	p.binds(into)
}

func (n *c08N) clone() *c08N {
	if n == nil {
		return nil
	}
	m := *n
	m.Ops = append([]string(nil), n.Ops...)
	m.Ch = make([]*c08N, len(n.Ch))
	for i, c := range n.Ch {
		m.Ch[i] = c.clone()
	}
	m.P = n.P.clone()
	if n.Ps != nil {
		m.Ps = make([]*c08P, len(n.Ps))
		for i, p := range n.Ps {
			m.Ps[i] = p.clone()
		}
	}
	return &m
}

// ---- constructors ----

func c08Num(s string) *c08N { return &c08N{K: c08KNum, Op: s} }
func c08Str(s string) *c08N { return &c08N{K: c08KStr, Op: s} }
func c08Bool(b bool) *c08N {
	return &c08N{K: c08KBool, Op: map[bool]string{true: "true", false: "false"}[b]}
}
func c08Var(s string) *c08N   { return &c08N{K: c08KVar, Op: s} }
func c08Arr(e ...*c08N) *c08N { return &c08N{K: c08KArr, Ch: e} }
func c08Set(e ...*c08N) *c08N { return &c08N{K: c08KSet, Ch: e} }
func c08Tup(names []string, vals ...*c08N) *c08N {
	return &c08N{K: c08KTup, Ops: names, Ch: vals}
}
func c08Dict(kv ...*c08N) *c08N { return &c08N{K: c08KDict, Ch: kv} }
func c08Rel(heading []string, cells ...*c08N) *c08N {
	return &c08N{K: c08KRel, Ops: heading, Ch: cells}
}
func c08Bin(op string, a, b *c08N) *c08N { return &c08N{K: c08KBin, Op: op, Ch: []*c08N{a, b}} }
func c08Un(op string, a *c08N) *c08N     { return &c08N{K: c08KUn, Op: op, Ch: []*c08N{a}} }
func c08Count(a *c08N) *c08N             { return &c08N{K: c08KPost, Op: "count", Ch: []*c08N{a}} }
func c08Cmp(ops []string, e ...*c08N) *c08N {
	return &c08N{K: c08KCmp, Ops: ops, Ch: e}
}
func c08If(t, c, f *c08N) *c08N { return &c08N{K: c08KIf, Ch: []*c08N{t, c, f}} }
func c08Cond(def bool, ch ...*c08N) *c08N {
	return &c08N{K: c08KCond, Def: def, Ch: ch}
}
func c08CondV(ctrl *c08N, ps []*c08P, vals ...*c08N) *c08N {
	return &c08N{K: c08KCondV, Ps: ps, Ch: append([]*c08N{ctrl}, vals...)}
}
func c08Let(p *c08P, e1, e2 *c08N) *c08N   { return &c08N{K: c08KLet, P: p, Ch: []*c08N{e1, e2}} }
func c08Arrow(p *c08P, e1, e2 *c08N) *c08N { return &c08N{K: c08KArrow, P: p, Ch: []*c08N{e1, e2}} }
func c08Lam(p *c08P, body *c08N) *c08N     { return &c08N{K: c08KLam, P: p, Ch: []*c08N{body}} }
func c08Call(f, a *c08N) *c08N             { return &c08N{K: c08KCall, Ch: []*c08N{f, a}} }
func c08Xform(op string, p *c08P, lhs, body *c08N) *c08N {
	return &c08N{K: c08KXform, Op: op, P: p, Ch: []*c08N{lhs, body}}
}
func c08Dot(s *c08N, attr string) *c08N { return &c08N{K: c08KDot, Op: attr, Ch: []*c08N{s}} }
func c08Paren(e *c08N) *c08N            { return &c08N{K: c08KParen, Ch: []*c08N{e}} }

// the two failing expressions used by R8
func c08FailCall() *c08N { return c08Call(c08Set(), c08Num("1")) }
func c08FailDot() *c08N  { return c08Dot(c08Tup([]string{"a"}, c08Num("1")), "b") }

// ---- scoping ----

// childScope returns the names that child i of n sees in addition to n's own scope
// (nil when none). The binding structure of the fragment lives here and only here.
func (n *c08N) childBinds(i int) map[string]bool {
	switch n.K {
	case c08KLet, c08KArrow:
		if i == 1 {
			return c08Binds(n.P)
		}
	case c08KLam:
		return c08Binds(n.P)
	case c08KXform:
		if i == 1 {
			return c08Binds(n.P)
		}
	case c08KCondV:
		if i >= 1 {
			m := map[string]bool{}
			n.Ps[i-1].names(m)
			return m
		}
	}
	return nil
}

// c08FV returns the free variables of n.
func c08FV(n *c08N) map[string]bool {
	out := map[string]bool{}
	var walk func(n *c08N, bound map[string]int)
	walk = func(n *c08N, bound map[string]int) {
		if n.K == c08KVar {
			if bound[n.Op] == 0 {
				out[n.Op] = true
			}
			return
		}
		for i, c := range n.Ch {
			b := n.childBinds(i)
			for k := range b {
				bound[k]++
			}
			walk(c, bound)
			for k := range b {
				bound[k]--
			}
		}
	}
	walk(n, map[string]int{})
	return out
}

// c08AllNames returns every identifier occurring anywhere (variables and binders).
func c08AllNames(n *c08N, into map[string]bool) {
	if n.K == c08KVar {
		into[n.Op] = true
	}
	if n.K == c08KLet || n.K == c08KArrow || n.K == c08KLam || n.K == c08KXform {
		n.P.names(into)
	}
	for _, p := range n.Ps {
		p.names(into)
	}
	for _, c := range n.Ch {
		c08AllNames(c, into)
	}
}

// c08Fresh returns an identifier that occurs nowhere in root.
func c08Fresh(root *c08N, base string) string {
	used := map[string]bool{}
	c08AllNames(root, used)
	for i := 0; ; i++ {
		name := base
		if i > 0 {
			name = base + string(rune('0'+i%10))
			if i >= 10 {
				name = base + string(rune('0'+i/10)) + string(rune('0'+i%10))
			}
		}
		if !used[name] {
			return name
		}
	}
}

// c08Subst replaces the free occurrences of name in n by copies of repl (capture-avoiding:
// ok=false when an occurrence sits under a binder that would capture a free variable of repl).
func c08Subst(n *c08N, name string, repl *c08N) (out *c08N, ok bool) {
	rfv := c08FV(repl)
	ok = true
	var walk func(n *c08N, captured bool) *c08N
	walk = func(n *c08N, captured bool) *c08N {
		if n.K == c08KVar {
			if n.Op == name {
				if captured {
					ok = false
				}
				return repl.clone()
			}
			return n.clone()
		}
		m := *n
		m.Ops = append([]string(nil), n.Ops...)
		m.P = n.P.clone()
		if n.Ps != nil {
			m.Ps = make([]*c08P, len(n.Ps))
			for i, p := range n.Ps {
				m.Ps[i] = p.clone()
			}
		}
		m.Ch = make([]*c08N, len(n.Ch))
		for i, c := range n.Ch {
			b := n.childBinds(i)
			if b[name] {
				m.Ch[i] = c.clone() // shadowed
				continue
			}
			cap2 := captured
			for k := range b {
				if rfv[k] {
					cap2 = true
				}
			}
			m.Ch[i] = walk(c, cap2)
		}
		return &m
	}
	out = walk(n, false)
	return out, ok
}

// c08Preorder lists the nodes of the tree in preorder.
func c08Preorder(root *c08N) []*c08N {
	var out []*c08N
	var walk func(n *c08N)
	walk = func(n *c08N) {
		out = append(out, n)
		for _, c := range n.Ch {
			walk(c)
		}
	}
	walk(root)
	return out
}

// c08IsLit: a term built only from literal syntax (no names, no operators).
func c08IsLit(n *c08N) bool {
	switch n.K {
	case c08KNum, c08KChar, c08KStr, c08KBool:
		return true
	case c08KArr, c08KSet, c08KTup, c08KDict, c08KRel:
		for _, c := range n.Ch {
			if !c08IsLit(c) {
				return false
			}
		}
		return true
	}
	return false
}

// c08Shape is the program with literal payloads and identifiers erased (distinct-shape counting).
func c08Shape(n *c08N) string {
	var sb strings.Builder
	var walk func(n *c08N)
	walk = func(n *c08N) {
		sb.WriteString(c08KindName[n.K])
		switch n.K {
		case c08KBin, c08KUn, c08KXform, c08KPost:
			sb.WriteString(n.Op)
		case c08KCmp:
			sb.WriteString(strings.Join(n.Ops, ""))
		case c08KLet, c08KArrow, c08KLam:
			if n.P == nil {
				sb.WriteByte('.')
			} else {
				sb.WriteByte(byte('0' + n.P.K))
			}
		}
		if len(n.Ch) > 0 {
			sb.WriteByte('(')
			for _, c := range n.Ch {
				walk(c)
				sb.WriteByte(',')
			}
			sb.WriteByte(')')
		}
	}
	walk(n)
	return sb.String()
}

func c08SortedKeys(m map[string]bool) []string {
	out := make([]string, 0, len(m))
	for k := range m {
		out = append(out, k)
	}
	sort.Strings(out)
	return out
}
