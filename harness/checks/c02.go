package checks

import (
	"fmt"
	"sort"
	"strings"
	"sync"

	"verif/core"
)

// C02: equality is extensional and equal values are interchangeable. Reference-model monitor over
// pairs of construction paths: `a = b` must hold exactly when Denote(a) = Denote(b); equal values
// must collapse in a set, select the same dict entry, print identically, be unordered by <, and
// give equal results under sampled contexts.

type c02 struct{}

func init() { core.Register(c02{}) }

func (c02) ID() string    { return "C02" }
func (c02) Level() string { return "exploration" }
func (c02) Rule() string {
	return "values: every core model value (all shape classes) + tuples/numbers + seeded random values, each realised through every applicable construction path (spelled-out tuples, sugar, relation literal in both column orders, union of halves, overlapping union, with-chain, superset-without, where-true, map-identity, difference, intersection, concatenation, offset round trip, >> identity, @-relation literal, +>-merged tuples, dict union/merge); case = one model value: all unordered pairs of its paths (same denotation expected) x {=, !=, {a,b} count, {a:1}(b), repr, <, 10 congruence contexts}, plus near-miss pairs against the paths of the next 6 model values (different denotation => must be unequal). Each pair is judged on the ACTUAL denotations of the two live values. Distinct by (path kind a, path kind b, denotation); non-trivial when the two values were built by different path kinds."
}
func (c02) Assumptions() []string {
	return []string{"Denote (exported enumerators only) defines 'denote the same set'; a value whose own enumeration/count/Has disagree is judged by C01",
		"interchangeability is sampled over 10 contexts, not all operators"}
}

var (
	c02Once sync.Once
	c02Vals []MV
)

func c02Values(cfg *core.Config) []MV {
	c02Once.Do(func() {
		seen := map[string]bool{}
		add := func(m MV) {
			if !seen[m.Enc] {
				seen[m.Enc] = true
				c02Vals = append(c02Vals, m)
			}
		}
		for _, m := range coreValues() {
			add(m)
		}
		// tuples and numbers (incl. sugar tuples and tuples holding sets)
		for _, m := range []MV{num(0), num(1), num(-1), num(0.5), num(97),
			mtup("a", num(1)), mtup("a", num(1), "b", num(2)), mtup("a", num(2), "b", num(1)), mtup("b", num(1)),
			mpair(num(0), "@char", num(97)), mpair(num(1), "@char", num(97)), mpair(num(0), "@item", num(97)),
			mpair(num(0), "@byte", num(97)), mpair(num(0), "@value", num(97)), mpair(core.MStr("a"), "@value", num(1)),
			mtup("a", core.MStr("ab")), mtup("a", core.MArr(num(1), num(2))), mtup("a", mset(num(1), num(2)), "b", core.MDict(num(1), num(2))),
			mtup("@", num(0)), mtup("@", num(0), "x", num(1)), mtup(),
			mset(core.MStr("ab")), mset(core.MArr(num(1), num(2)), core.MStr("ab")), core.MArr(core.MStr("ab"), core.MStr("")),
			core.MDict(core.MStr("k"), core.MStr("ab")), core.MDict(core.MStr("k"), core.MArr(num(1)), core.MStr("l"), mset(num(1))),
		} {
			add(m)
		}
		// look-alikes across kinds and offsets (same text / same numbers, different denotation)
		for _, m := range []MV{core.MStr("a"), core.MBytesOff(0, 97), core.MArr(num(97)), core.MStrOff("a", 3), core.MBytesOff(3, 97), core.MArrOff(3, num(97)),
			core.MDict(num(0), num(97)), relOf([]string{"@", "x"}, []float64{0, 97}), mset(num(97)), mset(mset(num(97))), mset(mset(mset(num(97)))),
			mset(mset()), mset(mset(mset())), mset(mtup()), mset(mset(mtup())), core.MStr("ab"), core.MBytesOff(0, 97, 98), core.MArr(num(97), num(98)),
			core.MStrOff("ab", 1), mtup("a", core.MStr("a")), mtup("a", core.MBytesOff(0, 97)), num(97), mset(core.MStr("a")), mset(core.MBytesOff(0, 97))} {
			add(m)
		}
		r := core.NewRng(cfg.Seed, 202)
		for i := 0; i < cfg.Pick(40, 600); i++ {
			add(randValue(r, i%5 < 3, 1))
		}
	})
	return c02Vals
}

func (c02) NumCases(cfg *core.Config) int { return len(c02Values(cfg)) }

// c02Contexts are congruence contexts f(x); z is a companion value derived from the model value.
var c02Contexts = []string{"{x}", "(k: x)", "[x, 1]", "{x: 1}", "x | z", "x & z", "x &~ z", "z with x", "x => .", "x where true", "x count", "{x, z} count"}

// c02Nested are placements of two different values a, b that must not make them equal.
var c02Nested = []string{"{A} = {B}", "{A, 1} = {B, 1}", "(k: A) = (k: B)", "[A] = [B]", "{A: 1} = {B: 1}", "{{A}} = {{B}}", "{A} <: {{B}}"}

func c02Operands(m MV) []Operand {
	var ops []Operand
	for _, p := range pathsFor(m) {
		op, _ := mkOperand(m, p)
		if op.OK {
			ops = append(ops, op)
		}
	}
	return ops
}

func (c02) RunCase(cfg *core.Config, i int) core.CaseResult {
	vals := c02Values(cfg)
	m := vals[i]
	res := core.CaseResult{Key: "m:" + m.Enc}
	res.Evals = 0
	j := &judge{prop: "C02", res: &res, seen: map[string]bool{}}
	ops := c02Operands(m)
	res.Cover = append(res.Cover, "class:"+core.Classify(m))
	// companion z: first half of the members (for set values), else a fixed set
	z := mset(num(1), num(2))
	if m.K == 's' && len(m.S) > 0 {
		z = mset(m.S[:(len(m.S)+1)/2]...)
	}
	zv, zok := mvValue(z)
	truth := func(o core.Outcome) (bool, bool) {
		if !o.OK() {
			return false, false
		}
		d, pi := core.SafeDenote(o.Val)
		if pi != nil {
			return false, false
		}
		switch d.Enc {
		case core.MTrue.Enc:
			return true, true
		case core.MEmpty.Enc:
			return false, true
		}
		return false, false
	}
	evalBool := func(clause, entry, tmpl string, a, b Operand, want bool, hz []string, wrongMode string) {
		res.Evals++
		o := core.EvalT(tmpl, "a", a.Val, "b", b.Val)
		desc := fmt.Sprintf("%s with a=%s [%s], b=%s [%s]", tmpl, a.Path.Src, a.Path.Kind, b.Path.Src, b.Path.Kind)
		got, ok := truth(o)
		switch {
		case o.Panic != nil:
			j.report(clause, entry, "panic", o.Panic.Sig(), "", hz, desc+" => panic: "+o.Panic.Msg, map[string]string{"expr": desc})
		case !ok:
			j.report(clause, entry, "error-for-value", "", "", hz, desc+" => "+outcomeText(o), map[string]string{"expr": desc})
		case got != want:
			j.report(clause, entry, wrongMode, "", "", hz, fmt.Sprintf("%s => %v, want %v (denotations %s vs %s)", desc, got, want, core.Src(a.Got), core.Src(b.Got)), map[string]string{"expr": desc})
		}
	}
	judgePair := func(a, b Operand) {
		same := a.Got.Enc == b.Got.Enc
		hz := mergeHz(core.HazardList(a.Got, b.Got, a.Want, b.Want), repTags(a, b))
		if a.Path.Kind != b.Path.Kind {
			ks := []string{a.Path.Kind, b.Path.Kind}
			sort.Strings(ks)
			res.SubKeys = append(res.SubKeys, strings.Join(ks, "~")+"|"+a.Got.Enc+"|"+b.Got.Enc)
			res.Cover = append(res.Cover, "path:"+a.Path.Kind, "path:"+b.Path.Kind)
		}
		wrong := "unequal-same-denotation"
		if !same {
			wrong = "equal-different-denotation"
			res.Cover = append(res.Cover, "unequal-pair")
		} else {
			res.Cover = append(res.Cover, "equal-pair")
		}
		evalBool("C02.eq", "=", "a = b", a, b, same, hz, wrong)
		evalBool("C02.eq", "=", "b = a", a, b, same, hz, wrong)
		evalBool("C02.eq", "!=", "a != b", a, b, !same, hz, wrong)
		// set collapse / dict key
		res.Evals++
		oc := core.EvalT("{a, b} count", "a", a.Val, "b", b.Val)
		wantN := 2.0
		if same {
			wantN = 1
		}
		desc := fmt.Sprintf("{a, b} count with a=%s [%s], b=%s [%s]", a.Path.Src, a.Path.Kind, b.Path.Src, b.Path.Kind)
		if !oc.OK() {
			mode, site := "error-for-value", ""
			if oc.Panic != nil {
				mode, site = "panic", oc.Panic.Sig()
			}
			j.report("C02.set-collapse", "{a,b} count", mode, site, "", hz, desc+" => "+outcomeText(oc), map[string]string{"expr": desc})
		} else if d, _ := core.SafeDenote(oc.Val); d.Enc != num(wantN).Enc {
			j.report("C02.set-collapse", "{a,b} count", wrong, "", "", hz, fmt.Sprintf("%s => %s, want %v", desc, core.Src(d), wantN), map[string]string{"expr": desc})
		}
		res.Evals++
		od := core.EvalT("{a: 1}(b) ?: 0", "a", a.Val, "b", b.Val)
		desc = fmt.Sprintf("{a: 1}(b) ?: 0 with a=%s [%s], b=%s [%s]", a.Path.Src, a.Path.Kind, b.Path.Src, b.Path.Kind)
		wantN = 0
		if same {
			wantN = 1
		}
		if !od.OK() {
			mode, site := "error-for-value", ""
			if od.Panic != nil {
				mode, site = "panic", od.Panic.Sig()
			}
			j.report("C02.dict-key", "{a:1}(b)", mode, site, "", hz, desc+" => "+outcomeText(od), map[string]string{"expr": desc})
		} else if d, _ := core.SafeDenote(od.Val); d.Enc != num(wantN).Enc {
			j.report("C02.dict-key", "{a:1}(b)", wrong, "", "", hz, fmt.Sprintf("%s => %s, want %v", desc, core.Src(d), wantN), map[string]string{"expr": desc})
		}
		if !same {
			// nested placement: values that differ must still differ when buried one level down
			// (the trie library trusts member hashes, so a weak Hash shows up exactly here)
			for _, ctx := range c02Nested {
				evalBool("C02.eq-nested", ctx, strings.ReplaceAll(strings.ReplaceAll(ctx, "A", "a"), "B", "b"), a, b, false, hz, wrong)
			}
			return
		}
		// printed form
		ra, pa := core.Repr(a.Val)
		rb, pb := core.Repr(b.Val)
		res.Evals += 2
		if pa != nil || pb != nil {
			pi := pa
			if pi == nil {
				pi = pb
			}
			j.report("C02.repr", "repr", "panic", pi.Sig(), "", hz, fmt.Sprintf("printing %s / %s panics: %s", a.Path.Src, b.Path.Src, pi.Msg), nil)
		} else if ra != rb {
			j.report("C02.repr", "repr", "prints-differently", "", "", hz, fmt.Sprintf("%s [%s] prints %s but %s [%s] prints %s", a.Path.Src, a.Path.Kind, ra, b.Path.Src, b.Path.Kind, rb), nil)
		}
		// order: equal values are unordered
		evalBool("C02.order", "<", "a < b", a, b, false, hz, "equal-but-less")
		evalBool("C02.order", "<", "b < a", a, b, false, hz, "equal-but-less")
		// congruence
		if !zok {
			return
		}
		for _, ctx := range c02Contexts {
			if (strings.Contains(ctx, "|") || strings.Contains(ctx, "&") || strings.Contains(ctx, "=>") || strings.Contains(ctx, "where") || ctx == "x count") && a.Got.K != 's' {
				continue
			}
			res.Evals += 2
			fa := core.EvalT(ctx, "x", a.Val, "z", zv)
			fb := core.EvalT(ctx, "x", b.Val, "z", zv)
			desc := fmt.Sprintf("%s with x=%s [%s] vs x=%s [%s], z=%s", ctx, a.Path.Src, a.Path.Kind, b.Path.Src, b.Path.Kind, core.Src(z))
			hzc := mergeHz(hz, core.HazardList(z))
			if fa.Mode() != fb.Mode() {
				site := ""
				if fa.Panic != nil {
					site = fa.Panic.Sig()
				} else if fb.Panic != nil {
					site = fb.Panic.Sig()
				}
				j.report("C02.congruence", "ctx:"+ctx, "outcome-kind-differs", site, "", hzc, fmt.Sprintf("%s => %s vs %s", desc, outcomeText(fa), outcomeText(fb)), map[string]string{"expr": desc})
				continue
			}
			if !fa.OK() {
				continue // both fail alike; C01/C10 judge the operator itself
			}
			da, p1 := core.SafeDenote(fa.Val)
			db, p2 := core.SafeDenote(fb.Val)
			if p1 != nil || p2 != nil {
				continue
			}
			if da.Enc != db.Enc {
				j.report("C02.congruence", "ctx:"+ctx, "results-differ", "", "", hzc, fmt.Sprintf("%s => %s vs %s", desc, core.Src(da), core.Src(db)), map[string]string{"expr": desc})
				continue
			}
			res.Evals++
			oe := core.EvalT("p = q", "p", fa.Val, "q", fb.Val)
			if t, ok := truth(oe); !ok || !t {
				j.report("C02.congruence", "ctx:"+ctx, "results-not-equal", "", "", mergeHz(hzc, core.HazardList(da)), fmt.Sprintf("%s: both denote %s but are not = (%s)", desc, core.Src(da), outcomeText(oe)), map[string]string{"expr": desc})
			}
		}
	}
	for x := 0; x < len(ops); x++ {
		for y := x; y < len(ops); y++ {
			judgePair(ops[x], ops[y])
		}
	}
	// near misses: paths of the following model values (different denotation by construction)
	for k := 1; k <= 6 && len(ops) > 0; k++ {
		n := vals[(i+k)%len(vals)]
		if n.Enc == m.Enc {
			continue
		}
		nops := c02Operands(n)
		for yi, b := range nops {
			a := ops[(yi+k)%len(ops)]
			judgePair(a, b)
		}
	}
	res.NonTrivial = len(ops) >= 2
	if i%11 == 0 {
		var ks []string
		for _, o := range ops {
			ks = append(ks, o.Path.Kind+":"+o.GoType)
		}
		res.Sample = fmt.Sprintf("model %s (%s) via %d paths [%s]; e.g. %s", clipS(core.Src(m), 80), core.Classify(m), len(ops), strings.Join(ks, ", "), clipS(ops[len(ops)-1].Path.Src, 100))
	}
	return res
}

func (c02) Finish(cfg *core.Config, agg *core.Aggregate) {
	paths, classes := 0, 0
	for k := range agg.Cover {
		if strings.HasPrefix(k, "path:") {
			paths++
		}
		if strings.HasPrefix(k, "class:") {
			classes++
		}
	}
	agg.Extra["path_kinds"] = paths
	agg.Extra["shape_classes"] = classes
	agg.Extra["equal_pairs"] = agg.Cover["equal-pair"]
	agg.Extra["unequal_pairs"] = agg.Cover["unequal-pair"]
	if paths < 6 {
		agg.Fail("coverage floor: only %d construction path kinds compared (<6)", paths)
	}
	if classes < 8 {
		agg.Fail("coverage floor: only %d shape classes (<8)", classes)
	}
	if agg.Cover["unequal-pair"] < 300 {
		agg.Fail("coverage floor: only %d unequal pairs judged (<300)", agg.Cover["unequal-pair"])
	}
}
