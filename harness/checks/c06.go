package checks

import (
	"encoding/json"
	"fmt"
	"math/bits"
	"os"
	"sort"
	"strings"

	"verif/core"
)

// C06: `<` is a strict total order consistent with `=`, and sorting follows it.
//
// Oracle = axioms only (no opinion on WHICH order): trichotomy, transitivity, derived operators,
// and every sort-based construct agreeing with the implementation's own `<`.
//
// Case layout (a function of tier+seed only):
//   [0, N)            row cases: operand i against every operand j, six comparisons per ordered pair
//                     evaluated on live values (a<b, a=b, a<=b, a>b, a>=b, b<a): trichotomy and the
//                     derived operators are judged in the worker; the row of observations is
//                     forwarded to the driver, which assembles the N x N matrix and judges ALL
//                     triples (transitivity) and that `b<a` seen from row a equals `b<a` seen from
//                     row b (two evaluations, usually in two worker processes = two hash seeds);
//   [N, N+2S)         sort cases: S member lists, each run twice (2 adjacent cases => two worker
//                     processes) - orderby / order / keyed orderby / max / min / rank / printed
//                     member order, on the same members built 3 different ways;
//   [N+2S, N+2S+1)    tuple attribute print order.

type c06 struct{}

func init() { core.Register(c06{}) }

func (c06) ID() string    { return "C06" }
func (c06) Level() string { return "exploration" }
func (c06) Rule() string {
	return "universe: fixed list of model values of every kind (numbers, tuples incl. @neg wrappers and sugar tuples, strings/bytes/arrays with offsets and holes, dicts, relations differing only in heading or column order, {} / true, nested, mixed) + seeded random values, each realised by several construction programs (slots). Row case i: operand i against ALL operands (ordered pairs: a<b, a=b, a<=b, a>b, a>=b, b<a on live values); the driver then judges ALL triples of the assembled matrix. Sort case: a seeded member list built 3 ways, sorted by orderby/order/keyed orderby/max/min/rank/printed order, run in two processes. A pair is non-trivial when the two slots differ; distinct by (slot,slot)."
}
func (c06) Assumptions() []string {
	return []string{
		"operands are whatever the construction program evaluates to (a constructor defect is C01/C02's business); hazards are computed from the ACTUAL denotation, plus a built-wrong:<hazard> tag when it differs from the program's definitional meaning",
		"<= and >= are judged against (< or =) only on pairs where trichotomy holds; > is always judged against the swapped <",
		"a sort construct that returns an arr.ai error (not a panic) is not judged (C10 decides value-or-error); floors make sure each construct was judged often",
		"a set whose construction deviates from the member list (denotation or count) is not sorted here (C01)",
		"printed member order is read back by splitting the printed text at top level and mapping each element to a live member by denotation; a print-out that cannot be read back that way is not judged here (C12)",
		"functions, NaN and infinities are not data",
	}
}

func (c06) sortLists(cfg *core.Config) int { return cfg.Pick(260, 4000) }

// NumCases also builds the operands of this process: the harness calls it before the first
// case, i.e. outside the per-case wall-clock watchdog (building ~3000 operands takes ~10 CPU-s,
// which a loaded machine can stretch beyond the watchdog if it happened inside the first case).
func (c c06) NumCases(cfg *core.Config) int { return c06GetWorld(cfg).n + 2*c.sortLists(cfg) + 1 }

type c06Data struct {
	Kind string `json:"kind"`
	// row cases
	Row      int    `json:"row,omitempty"` // slot+1
	Cells    string `json:"cells,omitempty"`
	Got      uint64 `json:"got,omitempty"`
	Pairs    int    `json:"pairs,omitempty"`
	Skipped  int    `json:"skipped,omitempty"`
	DerivedN int    `json:"derived,omitempty"`
	ReprOwn  int    `json:"repr_own,omitempty"`
	// sort cases
	List    int               `json:"list,omitempty"`
	Run     int               `json:"run,omitempty"`
	Seqs    map[string]string `json:"seqs,omitempty"` // entry -> sequence of member slots
	Via     string            `json:"via,omitempty"`
	Hz      []string          `json:"hz,omitempty"`
	Members []string          `json:"members,omitempty"`
	Counts  map[string]int    `json:"counts,omitempty"`
}

var c06IsReplay = len(os.Args) > 1 && os.Args[1] == "replay"

func (c c06) RunCase(cfg *core.Config, i int) core.CaseResult {
	w := c06GetWorld(cfg)
	switch {
	case i < w.n:
		return c06RowCase(cfg, w, i)
	case i < w.n+2*c.sortLists(cfg):
		k := i - w.n
		return c06SortCase(cfg, w, k/2, k%2)
	}
	return c06AttrCase(cfg, w, 0)
}

// c06Fail classifies the trichotomy outcome of a pair from (a<b, a=b, b<a); "" when it holds.
func c06Fail(same bool, lt, eq, rl uint8) string {
	if lt >= 2 || eq >= 2 || rl >= 2 {
		return "panic"
	}
	if same {
		switch {
		case lt == 1:
			return "self-less"
		case eq == 0:
			return "self-unequal"
		}
		return ""
	}
	switch {
	case lt == 1 && rl == 1:
		return "both-less"
	case eq == 1 && (lt == 1 || rl == 1):
		return "less-and-equal"
	case lt == 0 && rl == 0 && eq == 0:
		return "none-of-three"
	}
	return ""
}

// pairFail returns "" when trichotomy holds for the unordered pair, else the failure mode.
func (w *c06World) pairFail(i, j int) string {
	if i > j {
		i, j = j, i
	}
	k := i*w.n + j
	if f, ok := w.pairF[k]; ok {
		return f
	}
	c := w.cellGet(i, j)
	f := c06Fail(i == j, c.v[0], c.v[1], c.v[5])
	w.pairF[k] = f
	return f
}

// c06ViaList names the attribution of a group of operands: the smallest "via:mode:hazard" over
// the pairs among them that fail trichotomy themselves, or "pairs-ok".
func c06ViaList(w *c06World, idx []int, fail func(i, j int) string) (string, []string) {
	best := ""
	var bestHz []string
	for x := 0; x < len(idx); x++ {
		for y := x + 1; y < len(idx); y++ {
			f := fail(idx[x], idx[y])
			if f == "" {
				continue
			}
			hz := c06PairHzOps(w.ops[idx[x]], w.ops[idx[y]])
			s := "via:" + f + ":" + c06MainHz(hz)
			if best == "" || s < best {
				best, bestHz = s, hz
			}
		}
	}
	if best == "" {
		return "pairs-ok", nil
	}
	return best, bestHz
}

func (w *c06World) via(idx []int) (string, []string) { return c06ViaList(w, idx, w.pairFail) }

// c06MainHz picks the most specific hazard of a pair for attribution strings.
func c06MainHz(hz []string) string {
	best := ""
	rank := func(h string) int {
		switch {
		case strings.HasPrefix(h, "built-wrong:"):
			return 6
		case h == "singleton-nesting":
			return 5
		case strings.Contains(h, ":") && !strings.HasPrefix(h, "in:"):
			return 4
		case !strings.HasPrefix(h, "in:"):
			return 3
		}
		return 1
	}
	for _, h := range hz {
		if best == "" || rank(h) > rank(best) || rank(h) == rank(best) && h < best {
			best = h
		}
	}
	return best
}

func c06RowCase(cfg *core.Config, w *c06World, i int) core.CaseResult {
	a := w.ops[i]
	res := core.CaseResult{Key: "row:" + a.src(), NonTrivial: a.OK}
	data := &c06Data{Kind: "row", Row: i + 1}
	res.Data = data
	if !a.OK {
		res.Cover = append(res.Cover, "slot/dead", "dead/"+strings.SplitN(a.Dead, ":", 2)[0])
		res.NonTrivial = false
		res.Evals = 1
		return res
	}
	data.Got = core.Hash64(a.Got.Enc) | 1
	res.Cover = append(res.Cover, "slot/live", "class/"+a.Class, "go/"+a.GoType, "path/"+a.Path.Kind)
	if a.Got.Enc != a.Want.Enc {
		res.Cover = append(res.Cover, "slot/built-wrong")
	}
	j := &judge{prop: "C06", res: &res, seen: map[string]bool{}}
	seenKP := map[string]bool{}
	cells := make([]byte, w.n)
	for x := range cells {
		cells[x] = '~' // not observed (dead slot)
	}
	for _, bi := range w.live {
		b := w.ops[bi]
		c := w.cellGet(i, bi)
		cells[bi] = '0' + c.v[0] + 4*c.v[1] + 16*c.v[5]
		res.Evals += 6
		data.Pairs++
		if len(res.SubKeys) < 400 && bi != i {
			res.SubKeys = append(res.SubKeys, fmt.Sprintf("pair:%d:%d", i, bi))
		}
		kp := c06Times(a.Class, b.Class)
		if !seenKP[kp] {
			seenKP[kp] = true
			res.Cover = append(res.Cover, "kp/"+kp)
		}
		desc := func() string {
			return fmt.Sprintf("a = %s [%s]; b = %s [%s]: a<b=%s a=b=%s b<a=%s a<=b=%s a>b=%s a>=b=%s", a.src(), a.GoType, b.src(), b.GoType,
				c06St(c.v[0]), c06St(c.v[1]), c06St(c.v[5]), c06St(c.v[2]), c06St(c.v[3]), c06St(c.v[4]))
		}
		replay := func() interface{} { return map[string]string{"a": a.src(), "b": b.src()} }
		lt, eq, rl := c.v[0], c.v[1], c.v[5]
		// --- trichotomy
		f := c06Fail(bi == i, lt, eq, rl)
		if f != "" {
			site, entry := "", "<"
			if f == "panic" {
				for _, k := range []int{0, 5, 1} {
					if c.v[k] >= 2 {
						site = w.site(i, bi, k)
						if k == 1 {
							entry = "="
						}
						break
					}
				}
			}
			delta := ""
			if f == "less-and-equal" {
				// which of the two answers contradicts the model: `=` on different denotations, or `<` on one denotation
				if a.Got.Enc != b.Got.Enc {
					delta = "equal-on-different-denotations"
				} else {
					delta = "less-on-same-denotation"
				}
			}
			j.report("C06.trichotomy", entry, f, site, delta, c06PairHzOps(a, b), desc(), replay())
		}
		// --- derived
		for k := 2; k < 5; k++ {
			if c.v[k] >= 2 && f == "" {
				// a derived operator fails although its base operators answered
				j.report("C06.derived", c06OpNames[k], "panic", w.site(i, bi, k), "", c06PairHzOps(a, b), desc(), replay())
			}
		}
		if c.v[3] < 2 && rl < 2 {
			data.DerivedN++
			if c.v[3] != rl {
				j.report("C06.derived", ">", "differs-from-swapped-less", "", "", c06PairHzOps(a, b), desc(), replay())
			}
		}
		switch {
		case f != "":
			data.Skipped++
		case bi != i:
			if c.v[2] < 2 {
				data.DerivedN++
				if (c.v[2] == 1) != (lt == 1 || eq == 1) {
					j.report("C06.derived", "<=", "not-less-or-equal", "", "", c06PairHzOps(a, b), desc(), replay())
				}
			}
			if c.v[4] < 2 {
				data.DerivedN++
				if (c.v[4] == 1) != (rl == 1 || eq == 1) {
					j.report("C06.derived", ">=", "not-greater-or-equal", "", "", c06PairHzOps(a, b), desc(), replay())
				}
			}
		default: // a against itself: a <= a and a >= a must hold
			data.DerivedN++
			if c.v[2] == 0 || c.v[4] == 0 {
				j.report("C06.derived", "<=", "self-not-le", "", "", c06PairHzOps(a, b), desc(), replay())
			}
		}
	}
	data.Cells = string(cells)
	// --- printed member order of the operand itself, when it is a set with >= 2 members
	if a.Got.K == 's' && len(a.Got.S) >= 2 {
		pr, pi := c06JudgePrinted(a.Val)
		res.Evals += pr.Evals
		switch {
		case pi != nil:
			j.report("C06.sort", "repr", "panic", pi.Sig(), "", []string{"kinds:" + a.Class}, "printing "+a.src()+" panics: "+pi.Msg, map[string]string{"a": a.src()})
		case pr.Status != "judged":
			res.Cover = append(res.Cover, "repr-own/"+pr.Status)
		default:
			res.Cover = append(res.Cover, "repr-own/"+pr.Form)
			data.ReprOwn = 1
			if pr.BadP >= 0 {
				j.report("C06.sort", "repr", "not-sorted", "", pr.Delta, pr.Hz,
					fmt.Sprintf("%s prints as %s: printed member %d is not < printed member %d", a.src(), clipS(pr.Repr, 200), pr.BadP, pr.BadQ), map[string]string{"a": a.src()})
			}
		}
	}
	if c06IsReplay {
		c06ReplayTriples(w, i, j)
	}
	if i%37 == 5 {
		res.Sample = fmt.Sprintf("row %d: %s [%s, %s] compared with all %d live operands (a<b, a=b, a<=b, a>b, a>=b, b<a)",
			i, a.src(), a.Class, a.GoType, len(w.live))
	}
	return res
}

// c06ReplayTriples re-judges, inside the replayed row case, the triples starting at operand i
// (in a normal run the driver judges all triples over the assembled matrix).
func c06ReplayTriples(w *c06World, i int, j *judge) {
	for _, bi := range w.live {
		if bi == i || w.lt(i, bi) != 1 {
			continue
		}
		for _, ci := range w.live {
			if ci == i || ci == bi || w.lt(bi, ci) != 1 || w.lt(i, ci) != 0 {
				continue
			}
			via, hz := w.via([]int{i, bi, ci})
			c06ReportTriple(w, j.report, via, hz, i, bi, ci)
		}
	}
}

func c06ReportTriple(w *c06World, report func(clause, entry, mode, site, delta string, hz []string, detail string, replay interface{}),
	via string, hz []string, i, bi, ci int) {
	a, b, c := w.ops[i], w.ops[bi], w.ops[ci]
	if hz == nil {
		hz = []string{"kinds:" + c06Times(c06Times(a.Class, b.Class), c.Class)}
	}
	report("C06.transitivity", "<", "intransitive", "", via, hz,
		fmt.Sprintf("a<b and b<c but not a<c: a = %s [%s]; b = %s [%s]; c = %s [%s]", a.src(), a.GoType, b.src(), b.GoType, c.src(), c.GoType),
		map[string]string{"a": a.src(), "b": b.src(), "c": c.src()})
}

func c06St(s uint8) string { return [...]string{"false", "true", "PANIC", "ERROR"}[s&3] }

// ---------------------------------------------------------------------------------------------

type c06Bits []uint64

func (b c06Bits) set(i int)      { b[i>>6] |= 1 << (uint(i) & 63) }
func (b c06Bits) has(i int) bool { return b[i>>6]&(1<<(uint(i)&63)) != 0 }

func (c c06) Finish(cfg *core.Config, agg *core.Aggregate) {
	w := c06GetWorld(cfg)
	n := w.n
	tot := map[string]int{}
	type runRec struct {
		d    c06Data
		cse  int
		seen bool
	}
	runs := map[int]*[2]runRec{}
	rows := make([]string, n)
	rowShard := make([]int, n)
	for _, rec := range agg.Data {
		var d c06Data
		if json.Unmarshal(rec.Data, &d) != nil {
			continue
		}
		switch d.Kind {
		case "row":
			tot["pairs"] += d.Pairs
			tot["derived_judged"] += d.DerivedN
			tot["derived_skipped_pair_fails"] += d.Skipped
			tot["printed_order_of_operand_judged"] += d.ReprOwn
			if d.Row >= 1 && d.Row <= n && len(d.Cells) == n {
				op := w.ops[d.Row-1]
				// only rows whose operand denotes the same value in the driver are assembled
				if op.OK && core.Hash64(op.Got.Enc)|1 == d.Got {
					rows[d.Row-1] = d.Cells
					rowShard[d.Row-1] = rec.Shard
				} else {
					tot["rows_dropped_operand_differs_across_processes"]++
				}
			}
		case "sort":
			for k, v := range d.Counts {
				tot["sort."+k] += v
			}
			rr := runs[d.List]
			if rr == nil {
				rr = &[2]runRec{}
				runs[d.List] = rr
			}
			rr[d.Run%2] = runRec{d: d, cse: rec.Case, seen: true}
		case "attrs":
			for k, v := range d.Counts {
				tot["attrs."+k] += v
			}
		}
	}
	seenSig := map[string]bool{}
	report := func(cse int) func(clause, entry, mode, site, delta string, hz []string, detail string, replay interface{}) {
		return func(clause, entry, mode, site, delta string, hz []string, detail string, replay interface{}) {
			sig := core.Signature{Clause: clause, Entry: entry, Mode: mode, Site: site, Hazards: hz, Delta: delta}
			if seenSig[sig.String()] {
				return
			}
			seenSig[sig.String()] = true
			agg.Viols = append(agg.Viols, core.Violation{Case: cse, Sig: sig, Detail: detail, Replay: replay})
		}
	}
	// ---- assemble the matrix
	st := func(i, j, k int) uint8 { // k: 0 lt, 1 eq, 2 swapped lt
		ch := rows[i][j]
		if ch == '~' {
			return 2
		}
		return (ch - '0') >> (2 * uint(k)) & 3
	}
	words := (n + 63) / 64
	L := make([]c06Bits, n)   // L[i] = {k : i<k observed true}
	Unk := make([]c06Bits, n) // i<k not observed as a boolean
	have := 0
	for i := 0; i < n; i++ {
		if rows[i] == "" {
			continue
		}
		have++
		L[i], Unk[i] = make(c06Bits, words), make(c06Bits, words)
		for k := 0; k < n; k++ {
			switch st(i, k, 0) {
			case 1:
				L[i].set(k)
			case 0:
			default:
				Unk[i].set(k)
			}
		}
	}
	tot["rows_assembled"] = have
	failOf := func(i, j int) string {
		if rows[i] == "" {
			i, j = j, i
		}
		if rows[i] == "" || rows[i][j] == '~' {
			return ""
		}
		return c06Fail(i == j, st(i, j, 0), st(i, j, 1), st(i, j, 2))
	}
	// ---- b<a seen from row a must equal b<a seen from row b
	reeval, crossProc := 0, 0
	for i := 0; i < n; i++ {
		if rows[i] == "" {
			continue
		}
		for j := 0; j < n; j++ {
			if rows[j] == "" || i == j {
				continue
			}
			x, y := st(i, j, 2), st(j, i, 0)
			if x >= 2 || y >= 2 {
				continue
			}
			reeval++
			if rowShard[i] != rowShard[j] {
				crossProc++
			}
			if x != y {
				a, b := w.ops[i], w.ops[j]
				f := failOf(i, j)
				if f == "" {
					f = "pair-ok"
				} else {
					f = "pair-fails:" + f
				}
				report(i)("C06.sort", "<", "answer-differs-on-reevaluation", "", f, c06PairHzOps(a, b),
					fmt.Sprintf("a = %s; b = %s: b<a evaluated as %s in row a (worker %d) and %s in row b (worker %d)", a.src(), b.src(), c06St(x), rowShard[i], c06St(y), rowShard[j]),
					map[string]string{"a": a.src(), "b": b.src()})
			}
		}
	}
	tot["less_reevaluated_pairs"] = reeval
	tot["less_reevaluated_in_another_process"] = crossProc
	// ---- transitivity: all triples (i,j,k): i<j, j<k observed => i<k must be observed
	premises, judged, bad := 0, 0, 0
	for i := 0; i < n; i++ {
		if L[i] == nil {
			continue
		}
		for j := 0; j < n; j++ {
			if j == i || L[j] == nil || !L[i].has(j) {
				continue
			}
			for wd := 0; wd < words; wd++ {
				p := L[j][wd]
				if wd == i>>6 {
					p &^= 1 << (uint(i) & 63)
				}
				premises += bits.OnesCount64(p)
				p &^= Unk[i][wd]
				judged += bits.OnesCount64(p)
				p &^= L[i][wd]
				for p != 0 {
					k := wd*64 + bits.TrailingZeros64(p)
					p &= p - 1
					bad++
					if bad > 20000 {
						continue // counted; attribution of the first 20000 is enough to name every signature that matters
					}
					via, hz := c06ViaList(w, []int{i, j, k}, failOf)
					c06ReportTriple(w, report(i), via, hz, i, j, k)
				}
			}
		}
	}
	tot["triples_premise_observed"] = premises
	tot["triples_judged"] = judged
	tot["triples_intransitive"] = bad
	// ---- same members sorted in two runs (two worker processes when workers>1) => same sequence
	compared := 0
	lists := make([]int, 0, len(runs))
	for l := range runs {
		lists = append(lists, l)
	}
	sort.Ints(lists)
	for _, l := range lists {
		rr := runs[l]
		if !rr[0].seen || !rr[1].seen {
			continue
		}
		entries := make([]string, 0, len(rr[0].d.Seqs))
		for e := range rr[0].d.Seqs {
			entries = append(entries, e)
		}
		sort.Strings(entries)
		for _, entry := range entries {
			s0 := rr[0].d.Seqs[entry]
			s1, ok := rr[1].d.Seqs[entry]
			if !ok {
				continue
			}
			compared++
			if s0 != s1 {
				report(rr[0].cse)("C06.sort", entry, "differs-across-runs", "", rr[0].d.Via, rr[0].d.Hz,
					fmt.Sprintf("members %v sorted by %s in two runs: slots %s vs %s", rr[0].d.Members, entry, s0, s1),
					map[string]interface{}{"members": rr[0].d.Members, "run0": s0, "run1": s1})
			}
		}
	}
	tot["sort.sequences_compared_across_runs"] = compared
	tot["slots"] = n
	tot["live_operands"] = len(w.live)
	agg.Extra["c06_observed"] = tot
	classes, gotypes, kps := 0, 0, 0
	for k := range agg.Cover {
		switch {
		case strings.HasPrefix(k, "class/"):
			classes++
		case strings.HasPrefix(k, "go/"):
			gotypes++
		case strings.HasPrefix(k, "kp/"):
			kps++
		}
	}
	agg.Extra["c06_model_classes"] = classes
	agg.Extra["c06_go_types"] = gotypes
	agg.Extra["c06_kind_pairs"] = kps
	agg.Extra["exhaustive"] = true
	agg.Extra["exhaustive_scope"] = "all ordered pairs and all triples of the live operands of this run's universe"
	// floors: an empty run must fail
	floor := func(name string, got, want int) {
		if got < want {
			agg.Fail("coverage floor: %s = %d < %d", name, got, want)
		}
	}
	floor("live operands", len(w.live), cfg.Pick(250, 800))
	floor("rows assembled", have, len(w.live)*9/10)
	floor("pairs judged", tot["pairs"], cfg.Pick(60000, 600000))
	floor("triples judged", judged, cfg.Pick(3000000, 100000000))
	floor("derived judged", tot["derived_judged"], cfg.Pick(100000, 1000000))
	floor("b<a evaluated twice", reeval, cfg.Pick(60000, 600000))
	floor("model classes", classes, 12)
	floor("kind pairs", kps, 60)
	floor("go types (evidence only)", gotypes, 12)
	for _, e := range []string{"orderby", "order", "orderby-key", "max", "min", "max-key", "min-key", "rank", "repr", "rebuild"} {
		floor("sort."+e+" judged", tot["sort."+e], cfg.Pick(100, 1500))
	}
	floor("sort sequences compared across runs", compared, cfg.Pick(200, 3000))
	floor("printed member order of set operands judged", tot["printed_order_of_operand_judged"], cfg.Pick(60, 300))
	floor("tuple attribute print orders judged", tot["attrs.judged"], 20)
}
