package checks

import (
	"fmt"
	"math"
	"sort"
	"strconv"
	"strings"
	"sync"

	"verif/core"

	"github.com/arr-ai/arrai/rel"
)

// Value model for the wire format (e) and the "reject or represent" clause (f): a small AST that
// is realised through the exported rel constructors (so that strings with control characters,
// holes, offsets, NaN/Inf and functions are all constructible without going through the parser).
// The oracle never uses this AST as truth: it compares Denote(result) with Denote(the live input).

type c13Val struct {
	K     byte // 'n' num, 's' string, 'a' array, 't' tuple, 'S' set, 'd' dict, 'y' bytes, 'b' bool, 'f' function
	N     float64
	R     []rune
	Off   int
	Items []*c13Val // array items (nil = hole), set members, dict values, tuple values
	Keys  []*c13Val // dict keys
	Names []string  // tuple attribute names
	B     bool
	Y     []byte
}

var (
	c13FnOnce sync.Once
	c13FnVal  rel.Value
)

func c13Function() rel.Value {
	c13FnOnce.Do(func() {
		o := core.EvalSrc(`\x x`)
		if o.OK() {
			c13FnVal = o.Val
		}
	})
	return c13FnVal
}

func (v *c13Val) build() (out rel.Value, err error) {
	defer func() {
		if r := recover(); r != nil {
			err = fmt.Errorf("constructor panicked: %v", r)
		}
	}()
	switch v.K {
	case 'n':
		return rel.NewNumber(v.N), nil
	case 's':
		if v.Off != 0 {
			return rel.NewOffsetString(v.R, v.Off), nil
		}
		return rel.NewString(v.R), nil
	case 'y':
		if v.Off != 0 {
			return rel.NewOffsetBytes(v.Y, v.Off), nil
		}
		return rel.NewBytes(v.Y), nil
	case 'b':
		return rel.NewBool(v.B), nil
	case 'f':
		f := c13Function()
		if f == nil {
			return nil, fmt.Errorf("no function value")
		}
		return f, nil
	case 'a':
		items := make([]rel.Value, len(v.Items))
		for i, it := range v.Items {
			if it == nil {
				continue
			}
			x, err := it.build()
			if err != nil {
				return nil, err
			}
			items[i] = x
		}
		if v.Off != 0 {
			return rel.NewOffsetArray(v.Off, items...), nil
		}
		return rel.NewArray(items...), nil
	case 't':
		attrs := make([]rel.Attr, len(v.Items))
		for i, it := range v.Items {
			x, err := it.build()
			if err != nil {
				return nil, err
			}
			attrs[i] = rel.NewAttr(v.Names[i], x)
		}
		return rel.NewTuple(attrs...), nil
	case 'S':
		ms := make([]rel.Value, len(v.Items))
		for i, it := range v.Items {
			x, err := it.build()
			if err != nil {
				return nil, err
			}
			ms[i] = x
		}
		return rel.NewSet(ms...)
	case 'd':
		es := make([]rel.DictEntryTuple, len(v.Items))
		for i, it := range v.Items {
			k, err := v.Keys[i].build()
			if err != nil {
				return nil, err
			}
			x, err := it.build()
			if err != nil {
				return nil, err
			}
			es[i] = rel.NewDictEntryTuple(k, x)
		}
		return rel.NewDict(false, es...)
	}
	return nil, fmt.Errorf("bad kind %q", v.K)
}

// String is a literal, arr.ai-like description (for samples and replay; not parsed back).
func (v *c13Val) String() string {
	if v == nil {
		return ""
	}
	off := func(s string) string {
		if v.Off != 0 {
			return fmt.Sprintf("(%d\\%s)", v.Off, s)
		}
		return s
	}
	list := func(vs []*c13Val) string {
		ps := make([]string, len(vs))
		for i, x := range vs {
			ps[i] = x.String()
		}
		return strings.Join(ps, ", ")
	}
	switch v.K {
	case 'n':
		return strconv.FormatFloat(v.N, 'g', -1, 64)
	case 's':
		return off(strconv.QuoteToASCII(string(v.R)))
	case 'y':
		return off(fmt.Sprintf("<<%v>>", v.Y))
	case 'b':
		return fmt.Sprint(v.B)
	case 'f':
		return `\x x`
	case 'a':
		return off("[" + list(v.Items) + "]")
	case 'S':
		return "{" + list(v.Items) + "}"
	case 't':
		ps := make([]string, len(v.Items))
		for i, x := range v.Items {
			ps[i] = strconv.QuoteToASCII(v.Names[i]) + ": " + x.String()
		}
		return "(" + strings.Join(ps, ", ") + ")"
	case 'd':
		ps := make([]string, len(v.Items))
		for i, x := range v.Items {
			ps[i] = v.Keys[i].String() + ": " + x.String()
		}
		return "{" + strings.Join(ps, ", ") + "}"
	}
	return "?"
}

func c13VNum(f float64) *c13Val        { return &c13Val{K: 'n', N: f} }
func c13VStr(s string) *c13Val         { return &c13Val{K: 's', R: []rune(s)} }
func c13VBool(b bool) *c13Val          { return &c13Val{K: 'b', B: b} }
func c13VArr(items ...*c13Val) *c13Val { return &c13Val{K: 'a', Items: items} }
func c13VSet(items ...*c13Val) *c13Val { return &c13Val{K: 'S', Items: items} }
func c13VTag(tag string, x *c13Val) *c13Val {
	return &c13Val{K: 't', Names: []string{tag}, Items: []*c13Val{x}}
}
func c13VTup(kv ...interface{}) *c13Val {
	t := &c13Val{K: 't'}
	for i := 0; i+1 < len(kv); i += 2 {
		t.Names = append(t.Names, kv[i].(string))
		t.Items = append(t.Items, kv[i+1].(*c13Val))
	}
	return t
}
func c13VDict(kv ...*c13Val) *c13Val {
	d := &c13Val{K: 'd'}
	for i := 0; i+1 < len(kv); i += 2 {
		d.Keys = append(d.Keys, kv[i])
		d.Items = append(d.Items, kv[i+1])
	}
	return d
}

// ---------------------------------------------------------------------------------------------
// model-level classification of values (hazards and deltas)

// c13Coarse maps core.Classify classes to the vocabulary used in hazards/deltas.
func c13Coarse(m core.MV) string {
	switch m.K {
	case 'n':
		if math.IsNaN(m.N) || math.IsInf(m.N, 0) {
			return "nonfinite"
		}
		return "num"
	case 't':
		return "tuple"
	case 'f':
		return "fn"
	}
	c := core.Classify(m)
	switch {
	case strings.Contains(c, "+super"):
		return "set"
	case strings.HasPrefix(c, "str+") && strings.Contains(c, "holes"), strings.HasPrefix(c, "bytes+") && strings.Contains(c, "holes"):
		return "set"
	case c == "plain-set" || c == "rel" || c == "mixed" || c == "tuples-mixed-headings" || c == "dict+multi" || c == "?":
		return "set"
	}
	return c // empty true str str+off arr arr+off arr+holes arr+off+holes bytes bytes+off dict
}

// c13TagOf: a tuple with exactly one attribute named s/a/b (the strict translators' tagging).
func c13TagOf(m core.MV) (string, core.MV, bool) {
	if m.K == 't' && len(m.T) == 1 {
		for _, n := range []string{"s", "a", "b"} {
			if x, ok := m.T[n]; ok {
				return n, x, true
			}
		}
	}
	return "", core.MV{}, false
}

// c13Untag removes strict tags whose payload is a set ((s: x) -> x etc.), recursively.
func c13Untag(m core.MV) core.MV {
	switch m.K {
	case 't':
		if _, x, ok := c13TagOf(m); ok && x.K == 's' {
			return c13Untag(x)
		}
		o := map[string]core.MV{}
		for k, x := range m.T {
			o[k] = c13Untag(x)
		}
		return core.Tup(o)
	case 's':
		ms := make([]core.MV, len(m.S))
		for i, x := range m.S {
			ms[i] = c13Untag(x)
		}
		return core.Set(ms...)
	}
	return m
}

// c13ValHazards: for every node of the value, "<ctx>:<class>" where ctx is the strict tag the
// node sits under (s/a/b) or "bare"; plus fn / nonfinite / tuple:generic / key:<class>.
func c13ValHazards(m core.MV, ctx string, into map[string]bool) {
	switch m.K {
	case 'n':
		if math.IsNaN(m.N) || math.IsInf(m.N, 0) {
			into["nonfinite"] = true
		}
		if ctx != "bare" {
			into[ctx+":num"] = true
		}
	case 'f':
		into["fn"] = true
		if ctx != "bare" {
			into[ctx+":fn"] = true
		}
	case 't':
		if ctx != "bare" {
			into[ctx+":tuple"] = true
		}
		if tag, x, ok := c13TagOf(m); ok {
			c13ValHazards(x, tag, into)
			return
		}
		if len(m.T) > 0 {
			into["tuple:generic"] = true
		}
		for _, x := range m.T {
			c13ValHazards(x, "bare", into)
		}
	case 's':
		c := c13Coarse(m)
		if !(ctx == "bare" && (c == "empty" || c == "dict")) {
			into[ctx+":"+c] = true
		}
		switch {
		case c == "dict":
			for _, e := range m.S {
				k := e.T["@"]
				if kc := c13Coarse(k); kc != "str" && kc != "empty" {
					into["key:"+kc] = true
				} else if kc == "empty" {
					into["key:empty"] = true
				}
				c13ValHazards(e.T["@value"], "bare", into)
			}
		case strings.HasPrefix(c, "arr"):
			for _, e := range m.S {
				c13ValHazards(e.T["@item"], "bare", into)
			}
		case c == "set":
			for _, e := range m.S {
				c13ValHazards(e, "bare", into)
			}
		}
	}
}

// c13StrOf reads a canonical string (offset 0, no holes) back from its denotation.
func c13StrOf(m core.MV) (string, bool) {
	if c := c13Coarse(m); c != "str" {
		return "", c == "empty"
	}
	rs := make([]rune, len(m.S))
	for _, e := range m.S {
		rs[int(e.T["@"].N)] = rune(e.T["@char"].N)
	}
	return string(rs), true
}

// c13ValYAMLHazards adds the string classes yaml.v3's emitter mishandles (see c13YAMLStrHazards).
func c13ValYAMLHazards(m core.MV, into map[string]bool) {
	switch m.K {
	case 't':
		for _, x := range m.T {
			c13ValYAMLHazards(x, into)
		}
	case 's':
		if s, ok := c13StrOf(m); ok {
			c13YAMLStrHazards(s, into)
			return
		}
		for _, e := range m.S {
			if e.K == 't' {
				if k, ok := e.T["@"]; ok {
					if s, ok := c13StrOf(k); ok && s == "<<" {
						into["yaml:key-merge"] = true
					}
				}
			}
			c13ValYAMLHazards(e, into)
		}
	}
}

func c13ValHazardList(m core.MV) []string {
	h := map[string]bool{}
	c13ValHazards(m, "bare", h)
	return c13HazardList(h)
}

// c13Walk finds the first differing node pair (a = input, b = output) and returns
// "<class of b><-<class of a>"; same-class pairs mean the content changed inside that class.
func c13Walk(a, b core.MV) string {
	if a.Enc == b.Enc {
		return ""
	}
	ca, cb := c13Coarse(a), c13Coarse(b)
	if a.K != b.K || ca != cb {
		d := cb + "<-" + ca
		// a collection that came back as an array/string must still hold the same members:
		// otherwise the change is more than lost set-ness / offset / holes.
		if a.K == 's' && b.K == 's' && (cb == "arr" || cb == "str") && c13Forget(a) != c13Forget(b) {
			d = "content!" + d
		}
		return d
	}
	switch a.K {
	case 't':
		if core.Heading(a) != core.Heading(b) {
			return "tuple<-tuple:attrs"
		}
		ks := make([]string, 0, len(a.T))
		for k := range a.T {
			ks = append(ks, k)
		}
		sort.Strings(ks)
		for _, k := range ks {
			if d := c13Walk(a.T[k], b.T[k]); d != "" {
				return d
			}
		}
	case 's':
		switch {
		case ca == "arr":
			if len(a.S) != len(b.S) {
				return "arr<-arr:length"
			}
			ia, ib := c13Items(a, "@item"), c13Items(b, "@item")
			for i := range ia {
				if d := c13Walk(ia[i], ib[i]); d != "" {
					return d
				}
			}
		case ca == "dict":
			ka, kb := map[string]core.MV{}, map[string]core.MV{}
			for _, e := range a.S {
				ka[e.T["@"].Enc] = e.T["@value"]
			}
			for _, e := range b.S {
				kb[e.T["@"].Enc] = e.T["@value"]
			}
			if len(ka) != len(kb) {
				return "dict<-dict:keys"
			}
			ks := make([]string, 0, len(ka))
			for k := range ka {
				if _, ok := kb[k]; !ok {
					return "dict<-dict:keys"
				}
				ks = append(ks, k)
			}
			sort.Strings(ks)
			for _, k := range ks {
				if d := c13Walk(ka[k], kb[k]); d != "" {
					return d
				}
			}
		}
		return cb + "<-" + ca + ":content"
	}
	return cb + "<-" + ca + ":content"
}

// c13Forget canonicalises a value up to what the lossy-but-known conversions forget: whether a
// collection is a set or an array, array offsets and holes, string offsets. Members are kept.
func c13Forget(m core.MV) string {
	switch m.K {
	case 'n', 'f':
		return m.Enc
	case 't':
		ks := make([]string, 0, len(m.T))
		for k := range m.T {
			ks = append(ks, k)
		}
		sort.Strings(ks)
		var sb strings.Builder
		sb.WriteString("t(")
		for _, k := range ks {
			sb.WriteString(strconv.Quote(k) + ":" + c13Forget(m.T[k]) + ",")
		}
		return sb.String() + ")"
	}
	c := c13Coarse(m)
	if strings.HasPrefix(c, "str") {
		si := core.SeqShape(m, "@char")
		rs := make([]rune, len(m.S))
		for _, e := range m.S {
			rs[int(e.T["@"].N)-si.Lo] = rune(e.T["@char"].N)
		}
		return "str" + strconv.Quote(string(rs))
	}
	var ms []string
	for _, e := range m.S {
		if strings.HasPrefix(c, "arr") {
			ms = append(ms, c13Forget(e.T["@item"]))
		} else {
			ms = append(ms, c13Forget(e))
		}
	}
	sort.Strings(ms)
	return "bag{" + strings.Join(ms, ",") + "}"
}

// c13Items lists the payloads of a canonical sequence (offset 0, no holes) in index order.
func c13Items(m core.MV, payload string) []core.MV {
	out := make([]core.MV, len(m.S))
	for _, e := range m.S {
		i := int(e.T["@"].N)
		if i >= 0 && i < len(out) {
			out[i] = e.T[payload]
		}
	}
	return out
}

// ---------------------------------------------------------------------------------------------
// generators

type c13VGen struct {
	r *core.Rng
}

func (g *c13VGen) str() *c13Val {
	r := g.r
	if r.Chance(1, 2) {
		return c13VStr(core.Pick(r, c13CornerStrings))
	}
	n := r.Range(1, 6)
	rs := make([]rune, n)
	for i := range rs {
		rs[i] = c13RandRune(r)
	}
	return &c13Val{K: 's', R: rs}
}

func (g *c13VGen) num() *c13Val {
	r := g.r
	if r.Chance(1, 2) {
		f, _ := strconv.ParseFloat(core.Pick(r, c13CornerNumbers), 64)
		if math.IsInf(f, 0) {
			f = 7
		}
		return c13VNum(f)
	}
	return c13VNum(float64(r.Range(-50, 50)) / float64(core.Pick(r, []int{1, 1, 2, 10})))
}

// strictImage draws a value in the image of the strict decoders.
func (g *c13VGen) strictImage(depth int) *c13Val {
	r := g.r
	if depth >= 3 || r.Chance(1, 3) {
		switch r.Intn(6) {
		case 0:
			return c13VTup()
		case 1:
			return c13VTag("b", c13VBool(r.Chance(1, 2)))
		case 2, 3:
			return g.num()
		}
		return c13VTag("s", g.str())
	}
	n := r.Range(0, 3)
	if r.Chance(1, 2) {
		items := make([]*c13Val, n)
		for i := range items {
			items[i] = g.strictImage(depth + 1)
		}
		return c13VTag("a", c13VArr(items...))
	}
	d := &c13Val{K: 'd'}
	for i := 0; i < n; i++ {
		d.Keys = append(d.Keys, c13VStr(core.Pick(r, []string{"a", "b", "c", "s", "@", "k" + strconv.Itoa(i), "é", "x y"})+strings.Repeat("_", i)))
		d.Items = append(d.Items, g.strictImage(depth+1))
	}
	return d
}

// hostile draws one value from the classes a strict codec may not be able to represent.
func (g *c13VGen) hostile(depth int) *c13Val {
	r := g.r
	small := func() *c13Val {
		if depth >= 2 || r.Chance(1, 2) {
			return g.num()
		}
		return g.strictImage(depth + 1)
	}
	switch r.Intn(30) {
	case 0:
		return c13VSet(g.num(), g.num(), g.num())
	case 1:
		return c13VSet(small(), small())
	case 2:
		return c13VBool(true)
	case 3:
		return c13VBool(false)
	case 4:
		return g.str() // bare string
	case 5:
		return c13VArr(small(), small()) // bare array
	case 6:
		return c13VArr(small(), nil, small()) // holes
	case 7:
		return &c13Val{K: 'a', Off: r.Range(1, 3), Items: []*c13Val{small(), small()}}
	case 8:
		return &c13Val{K: 's', Off: r.Range(1, 3), R: []rune("ab")}
	case 9:
		return &c13Val{K: 'y', Y: []byte{1, 2, 250}}
	case 10:
		return &c13Val{K: 'f'}
	case 11:
		return c13VNum(math.Inf(1))
	case 12:
		return c13VNum(math.NaN())
	case 13:
		return c13VNum(math.Inf(-1))
	case 14:
		return c13VDict(g.num(), small())
	case 15:
		return c13VDict(c13VTag("s", c13VStr("k")), small())
	case 16:
		return c13VTup("x", small())
	case 17:
		return c13VTup("s", c13VStr("v"), "a", c13VArr())
	case 18:
		return c13VTag("a", c13VSet(g.num(), g.num()))
	case 19:
		return c13VTag("a", c13VArr(small(), nil, small()))
	case 20:
		return c13VTag("a", &c13Val{K: 'a', Off: 2, Items: []*c13Val{small()}})
	case 21:
		return c13VTag("a", core.Pick(r, []*c13Val{g.str(), g.num(), c13VBool(true), {K: 'y', Y: []byte{65}}, c13VTup(), c13VDict(c13VStr("k"), g.num())}))
	case 22:
		return c13VTag("s", core.Pick(r, []*c13Val{g.num(), c13VArr(g.num()), c13VBool(true), c13VSet(g.num()), c13VTup(), {K: 's', Off: 1, R: []rune("xy")}, {K: 'y', Y: []byte{65}}}))
	case 23:
		return c13VTag("b", core.Pick(r, []*c13Val{g.num(), c13VSet(g.num()), c13VStr("true"), c13VArr(c13VTup()), c13VTup(), c13VSet(c13VTup(), g.num())}))
	case 24:
		return c13VSet(c13VTup("a", g.num()), c13VTup("a", g.num()))
	case 25:
		return c13VDict(c13VStr(""), small())
	case 26:
		return c13VTag("a", c13VArr(&c13Val{K: 'f'}))
	case 27:
		return c13VTag("v", g.num())
	case 28:
		return c13VSet(c13VTup())
	}
	return c13VTag("s", c13VStr(""))
}

// perturbed: a strict-image value with hostile sub-values spliced in at random positions.
func (g *c13VGen) perturbed(depth int, p int) *c13Val {
	r := g.r
	if r.Chance(p, 10) {
		return g.hostile(depth)
	}
	if depth >= 3 || r.Chance(1, 3) {
		return g.strictImage(3)
	}
	n := r.Range(1, 3)
	if r.Chance(1, 2) {
		items := make([]*c13Val, n)
		for i := range items {
			items[i] = g.perturbed(depth+1, p)
		}
		return c13VTag("a", c13VArr(items...))
	}
	d := &c13Val{K: 'd'}
	for i := 0; i < n; i++ {
		d.Keys = append(d.Keys, c13VStr("k"+strconv.Itoa(i)))
		d.Items = append(d.Items, g.perturbed(depth+1, p))
	}
	return d
}

// data draws an arbitrary data value for the wire format.
func (g *c13VGen) data(depth int, hostileP int) *c13Val {
	r := g.r
	if hostileP > 0 && r.Chance(hostileP, 20) {
		switch r.Intn(12) {
		case 0:
			return c13VSet(g.num(), g.num())
		case 1:
			return c13VSet(g.str(), g.data(depth+2, 0))
		case 2:
			return c13VDict(g.str(), g.data(depth+2, 0))
		case 3:
			return &c13Val{K: 'y', Y: []byte{0, 127, 255}}
		case 4:
			return c13VArr(g.num(), nil, g.num())
		case 5:
			return &c13Val{K: 'a', Off: r.Range(-2, 3), Items: []*c13Val{g.num(), g.num()}}
		case 6:
			return &c13Val{K: 's', Off: r.Range(1, 4), R: []rune("off")}
		case 7:
			return &c13Val{K: 'f'}
		case 8:
			return c13VNum(core.Pick(r, []float64{math.Inf(1), math.Inf(-1), math.NaN()}))
		case 9:
			return c13VSet(c13VTup("a", g.num(), "b", g.num()), c13VTup("a", g.num(), "b", g.num()))
		case 10:
			return c13VTup("{||}", g.data(depth+2, 0))
		case 11:
			return c13VSet(c13VSet(), c13VSet(c13VTup()))
		}
	}
	if depth >= 4 || r.Chance(1, 3) {
		switch r.Intn(8) {
		case 0:
			return c13VBool(r.Chance(1, 2))
		case 1:
			return c13VTup()
		case 2, 3, 4:
			return g.num()
		case 5:
			return c13VSet()
		}
		return g.str()
	}
	n := r.Range(0, 3)
	if r.Chance(1, 2) {
		items := make([]*c13Val, n)
		for i := range items {
			items[i] = g.data(depth+1, hostileP)
		}
		return c13VArr(items...)
	}
	t := &c13Val{K: 't'}
	names := []string{"a", "b", "s", "@", "@item", "x y", "", "é", "😀", "{||", "\"", "\\", "\n", "\x00", "A", "true", "0"}
	core.Shuffle(r, names)
	for i := 0; i < n; i++ {
		t.Names = append(t.Names, names[i])
		t.Items = append(t.Items, g.data(depth+1, hostileP))
	}
	return t
}

// c13CoreVals: seed-independent corpus for (e)/(f): one of every hostile class and every small
// strict-image shape.
func c13CoreVals() []*c13Val {
	n1, n2 := c13VNum(1), c13VNum(2)
	s := c13VStr
	fn := &c13Val{K: 'f'}
	out := []*c13Val{
		n1, c13VNum(0), c13VNum(-1.5), c13VNum(1e300), c13VNum(12345678901234567890), c13VNum(math.Copysign(0, -1)), c13VNum(5e-324),
		c13VNum(math.Inf(1)), c13VNum(math.Inf(-1)), c13VNum(math.NaN()),
		c13VTup(), c13VSet(), c13VBool(true), c13VBool(false), s(""), s("abc"), s("a\x00b"), s("😀 \"\\"), c13VArr(), c13VArr(n1, n2), c13VArr(c13VArr(n1), c13VArr()),
		c13VTag("s", s("")), c13VTag("s", s("abc")), c13VTag("b", c13VBool(true)), c13VTag("b", c13VBool(false)), c13VTag("a", c13VArr()), c13VTag("a", c13VArr(n1, c13VTag("s", s("x")))),
		c13VDict(), c13VDict(s("k"), n1), c13VDict(s("k"), c13VTag("a", c13VArr(c13VTup()))), c13VDict(s(""), n1), c13VDict(s("a"), n1, s("b"), c13VDict(s("c"), c13VTag("b", c13VBool(true)))),
		// hostile classes
		c13VSet(n1, n2), c13VSet(n1), c13VSet(s("a")), c13VSet(c13VTup()), c13VSet(c13VTup(), n1), c13VSet(c13VArr(n1)), c13VSet(c13VSet()),
		c13VSet(c13VTup("a", n1), c13VTup("a", n2)), c13VSet(c13VTup("a", n1, "b", n2)),
		c13VArr(n1, nil, n2), c13VArr(nil, n1), &c13Val{K: 'a', Off: 2, Items: []*c13Val{n1, n2}}, &c13Val{K: 'a', Off: -1, Items: []*c13Val{n1}}, &c13Val{K: 'a', Off: 1, Items: []*c13Val{n1, nil, n2}},
		{K: 's', Off: 2, R: []rune("ab")}, {K: 's', Off: -1, R: []rune("z")},
		{K: 'y', Y: []byte{1, 2}}, {K: 'y', Y: []byte("hi")}, {K: 'y', Off: 3, Y: []byte{9}},
		fn, c13VArr(fn), c13VTup("f", fn), c13VTag("a", c13VArr(fn)), c13VDict(s("f"), fn), c13VSet(fn),
		c13VDict(n1, n2), c13VDict(n1, n2, n2, n1), c13VDict(c13VTag("s", s("k")), n1), c13VDict(c13VArr(n1), n1), c13VDict(c13VTup(), n1),
		c13VTup("x", n1), c13VTup("x", n1, "y", s("v")), c13VTup("s", s("v"), "a", c13VArr()), c13VTup("{||}", c13VArr(n1)), c13VTup("{||}", n1), c13VTup("{||}", n1, "a", n2), c13VTup("", n1),
		c13VTag("a", c13VSet(n1, n2)), c13VTag("a", c13VSet(c13VTup())), c13VTag("a", c13VArr(n1, nil, n2)), c13VTag("a", &c13Val{K: 'a', Off: 2, Items: []*c13Val{n1}}),
		c13VTag("a", s("abc")), c13VTag("a", n1), c13VTag("a", c13VTup()), c13VTag("a", &c13Val{K: 'y', Y: []byte{65}}), c13VTag("a", c13VDict(s("k"), n1)), c13VTag("a", c13VBool(true)),
		c13VTag("s", n1), c13VTag("s", c13VArr(n1)), c13VTag("s", c13VBool(true)), c13VTag("s", c13VSet(n1)), c13VTag("s", c13VTup()), c13VTag("s", &c13Val{K: 's', Off: 1, R: []rune("xy")}), c13VTag("s", &c13Val{K: 'y', Y: []byte{65}}),
		c13VTag("b", n1), c13VTag("b", c13VNum(0)), c13VTag("b", c13VSet(n1)), c13VTag("b", s("true")), c13VTag("b", c13VArr(c13VTup())), c13VTag("b", c13VTup()), c13VTag("b", c13VSet(c13VTup(), n1)),
		c13VTag("a", fn), c13VTag("s", fn), c13VTag("b", fn),
		c13VTag("s", s("\n\nx")), c13VTag("a", c13VArr(c13VTag("s", s(" x\ny")))), c13VTag("s", s("\u2028\n")), c13VDict(s("<<"), c13VTag("s", s("x"))), c13VDict(s("<<"), c13VDict(s("k"), n1)),
		c13VTag("v", n1), c13VTag("a", c13VArr(c13VNum(math.NaN()))), c13VDict(s("n"), c13VNum(math.Inf(1))),
		c13VArr(c13VSet(n1, n2)), c13VTup("a", c13VSet(n1, n2), "b", n1), c13VTag("a", c13VArr(c13VSet(n1, n2))), c13VDict(s("k"), c13VSet(n1, n2)), c13VDict(s("k"), c13VBool(true)), c13VDict(s("k"), s("bare")), c13VDict(s("k"), c13VArr(n1)),
	}
	return out
}
