package checks

import (
	"strconv"
	"strings"

	"verif/core"
)

// One application of one documented equivalence at one position.
type c08RW struct {
	Clause string // R1..R9
	Entry  string // sub-kind, stable across seeds
	Pos    int    // preorder index of the rewritten node (token boundary for R4, -1 for whole-program)
	At     string // kind of the node at Pos / token class (signature hazard)
	Root   *c08N  // rewritten tree (nil for print-level rewrites R4/R6)
	Src    string // rewritten source text
}

// c08At replaces node number pos (preorder) of a clone of root by f(node) and returns the new root.
func c08At(root *c08N, pos int, f func(n *c08N) *c08N) *c08N {
	nr := root.clone()
	t := c08Preorder(nr)[pos]
	*t = *f(t)
	return nr
}

func c08IdentP(p *c08P) (string, bool) {
	if p == nil {
		return ".", true
	}
	if p.K == c08PIdent {
		return p.Name, true
	}
	return "", false
}

func c08PatOrDot(p *c08P) *c08P {
	if p == nil {
		return c08PI(".")
	}
	return p
}

func c08AtTag(n *c08N) string {
	switch n.K {
	case c08KBin, c08KUn, c08KXform, c08KPost:
		return c08KindName[n.K] + "(" + n.Op + ")"
	}
	return c08KindName[n.K]
}

func c08CharCode(s string) []int {
	var out []int
	for _, r := range s {
		out = append(out, int(r))
	}
	return out
}

// c08Spelled returns the spelled-out set-of-tuples and relation-literal forms of a sugared literal
// (literals.md: strings are {|@, @char|...}, arrays {|@, @item|...}, dictionaries {|@, @value|...}).
func c08Spelled(n *c08N) (tuples, relation *c08N, kind string) {
	var payload string
	var ats, vals []*c08N
	switch n.K {
	case c08KStr:
		kind, payload = "str", "@char"
		for i, c := range c08CharCode(n.Op) {
			ats = append(ats, c08Num(strconv.Itoa(i)))
			vals = append(vals, c08Num(strconv.Itoa(c)))
		}
	case c08KArr:
		kind, payload = "arr", "@item"
		for i, c := range n.Ch {
			ats = append(ats, c08Num(strconv.Itoa(i)))
			vals = append(vals, c.clone())
		}
	case c08KDict:
		kind, payload = "dict", "@value"
		for i := 0; i+1 < len(n.Ch); i += 2 {
			ats = append(ats, n.Ch[i].clone())
			vals = append(vals, n.Ch[i+1].clone())
		}
	default:
		return nil, nil, ""
	}
	tuples = c08Set()
	for i := range ats {
		tuples.Ch = append(tuples.Ch, c08Tup([]string{"@", payload}, ats[i], vals[i]))
	}
	if len(ats) > 0 {
		relation = c08Rel([]string{"@", payload})
		for i := range ats {
			relation.Ch = append(relation.Ch, ats[i].clone(), vals[i].clone())
		}
	}
	return tuples, relation, kind
}

// c08Uses counts the free occurrences of name in n, and how many of them are the callee of a call.
func c08Uses(n *c08N, name string) (occ, calls int) {
	var walk func(n *c08N, callee bool)
	walk = func(n *c08N, callee bool) {
		if n.K == c08KVar {
			if n.Op == name {
				occ++
				if callee {
					calls++
				}
			}
			return
		}
		for i, c := range n.Ch {
			if n.childBinds(i)[name] {
				continue
			}
			walk(c, n.K == c08KCall && i == 0)
		}
	}
	walk(n, false)
	return
}

// c08TreeRewrites enumerates R1, R2, R3, R5, R7, R9 (tree-level, no evaluation needed).
func c08TreeRewrites(root *c08N) []c08RW {
	var out []c08RW
	nodes := c08Preorder(root)
	add := func(clause, entry string, pos int, repl func(n *c08N) *c08N) {
		out = append(out, c08RW{Clause: clause, Entry: entry, Pos: pos, At: c08AtTag(nodes[pos]), Root: c08At(root, pos, repl)})
	}
	for pos, n := range nodes {
		pos, n := pos, n
		// ---- R1: let p = e1; e2  ==  e1 -> \p e2  ==  (\p e2)(e1)
		switch {
		case n.K == c08KLet:
			add("R1", "let->arrow", pos, func(m *c08N) *c08N { return c08Arrow(m.P, m.Ch[0], m.Ch[1]) })
			add("R1", "let->apply", pos, func(m *c08N) *c08N { return c08Call(c08Lam(m.P, m.Ch[1]), m.Ch[0]) })
		case n.K == c08KArrow && n.P != nil:
			add("R1", "arrow->let", pos, func(m *c08N) *c08N { return c08Let(m.P, m.Ch[0], m.Ch[1]) })
			add("R1", "arrow->apply", pos, func(m *c08N) *c08N { return c08Call(c08Lam(m.P, m.Ch[1]), m.Ch[0]) })
		case n.K == c08KArrow && n.P == nil:
			// transforms.md: `lhs -> expr` binds the name . to lhs; `let . = ...` is allowed
			add("R1", "dotarrow->let", pos, func(m *c08N) *c08N { return c08Let(c08PI("."), m.Ch[0], m.Ch[1]) })
			add("R1", "dotarrow->apply", pos, func(m *c08N) *c08N { return c08Call(c08Lam(c08PI("."), m.Ch[1]), m.Ch[0]) })
		case n.K == c08KCall && n.Ch[0].K == c08KLam:
			add("R1", "apply->let", pos, func(m *c08N) *c08N { return c08Let(m.Ch[0].P, m.Ch[1], m.Ch[0].Ch[0]) })
			add("R1", "apply->arrow", pos, func(m *c08N) *c08N { return c08Arrow(m.Ch[0].P, m.Ch[1], m.Ch[0].Ch[0]) })
		}
		// ---- R3: lhs op body-with-.  ==  lhs op \x body[x/.]
		if n.K == c08KXform || n.K == c08KArrow {
			op := n.Op
			if n.K == c08KArrow {
				op = "->"
			}
			if n.P == nil {
				x := c08Fresh(root, "q")
				if body, ok := c08Subst(n.Ch[1], ".", c08Var(x)); ok {
					add("R3", op+":default->explicit", pos, func(m *c08N) *c08N {
						r := m.clone()
						r.P, r.Ch[1] = c08PI(x), body
						return r
					})
				}
			} else if n.P.K == c08PIdent && n.P.Name != "." && !c08FV(n.Ch[1])["."] {
				if body, ok := c08Subst(n.Ch[1], n.P.Name, c08Var(".")); ok {
					add("R3", op+":explicit->default", pos, func(m *c08N) *c08N {
						r := m.clone()
						r.P, r.Ch[1] = nil, body
						return r
					})
				}
			}
		}
		// ---- R2: sugar literal == spelled-out set of tuples == relation literal
		if tu, re, kind := c08Spelled(n); kind != "" {
			add("R2", kind+"->tuples", pos, func(*c08N) *c08N { return tu })
			if re != nil {
				add("R2", kind+"->rel", pos, func(*c08N) *c08N { return re })
			}
		}
		switch n.K {
		case c08KBool:
			add("R2", "bool->set", pos, func(m *c08N) *c08N {
				if m.Op == "true" {
					return c08Set(c08Tup(nil))
				}
				return c08Set()
			})
		case c08KRel:
			add("R2", "rel->tuples", pos, func(m *c08N) *c08N {
				s := c08Set()
				w := len(m.Ops)
				for r := 0; r*w < len(m.Ch); r++ {
					s.Ch = append(s.Ch, c08Tup(append([]string(nil), m.Ops...), m.Ch[r*w:r*w+w]...))
				}
				return s
			})
		case c08KSet:
			if len(n.Ch) > 0 && n.Ch[0].K == c08KTup && len(n.Ch[0].Ops) > 0 {
				names := n.Ch[0].Ops
				same := true
				for _, c := range n.Ch {
					if c.K != c08KTup || strings.Join(c.Ops, ",") != strings.Join(names, ",") {
						same = false
					}
				}
				if same {
					add("R2", "tuples->rel", pos, func(m *c08N) *c08N {
						r := c08Rel(append([]string(nil), names...))
						for _, c := range m.Ch {
							r.Ch = append(r.Ch, c.Ch...)
						}
						return r
					})
				}
			}
		case c08KNum:
			if v, err := strconv.Atoi(n.Op); err == nil && v >= 'a' && v <= 'z' {
				add("R2", "num->char", pos, func(*c08N) *c08N { return &c08N{K: c08KChar, Op: string(rune(v))} })
			}
		case c08KChar:
			add("R2", "char->num", pos, func(m *c08N) *c08N { return c08Num(strconv.Itoa(int(m.Op[0]))) })
		}
		// ---- R5: redundant parentheses
		if n.K != c08KParen {
			add("R5", "paren", pos, func(m *c08N) *c08N { return c08Paren(m.clone()) })
		}
		// ---- R7: capture-avoiding inlining of a let-bound name whose right-hand side is a value
		if n.K == c08KLet && n.P.K == c08PIdent {
			e1 := n.Ch[0]
			kind := ""
			switch {
			case c08IsLit(e1):
				kind = "lit"
			case e1.K == c08KVar:
				kind = "var"
			case e1.K == c08KLam:
				kind = "lam"
			}
			if kind == "lam" {
				// function equality is intensional (two copies of one lambda need not be equal), so a
				// lambda is copied to several places only when every use is a call
				occ, calls := c08Uses(n.Ch[1], n.P.Name)
				if occ > 1 && occ != calls {
					kind = ""
				}
			}
			if kind != "" {
				if body, ok := c08Subst(n.Ch[1], n.P.Name, e1); ok {
					add("R7", "inline:"+kind, pos, func(*c08N) *c08N { return body })
				}
			}
		}
		// ---- R9: defeat compile-time constant folding of a literal sub-term
		if c08IsLit(n) {
			z := c08Fresh(root, "k")
			add("R9", "wrap:"+c08KindName[n.K], pos, func(m *c08N) *c08N {
				return c08Call(c08Lam(c08PI(z), m.clone()), c08Num("0"))
			})
		}
	}
	return out
}

// ---------------------------------------------------------------------------------------------
// R8 laziness: which branches are not selected is decided by evaluating the (closed) condition in
// its static let-context with the real evaluator, never guessed.

type c08Frame struct {
	static bool
	p      *c08P
	e1     *c08N
	names  map[string]bool
}

type c08Ctx struct {
	n      *c08N
	pos    int
	frames []c08Frame
}

// c08Contexts lists every node with the binder frames on the path from the root.
func c08Contexts(root *c08N) []c08Ctx {
	var out []c08Ctx
	var walk func(n *c08N, frames []c08Frame, applied *c08N)
	walk = func(n *c08N, frames []c08Frame, applied *c08N) {
		out = append(out, c08Ctx{n: n, pos: len(out), frames: frames})
		for i, c := range n.Ch {
			fr := frames
			var app *c08N
			switch {
			case (n.K == c08KLet || n.K == c08KArrow) && i == 1:
				fr = append(append([]c08Frame(nil), frames...), c08Frame{static: true, p: c08PatOrDot(n.P), e1: n.Ch[0]})
			case n.K == c08KCall && i == 0 && c.K == c08KLam:
				app = n.Ch[1]
			case n.K == c08KLam && applied != nil:
				fr = append(append([]c08Frame(nil), frames...), c08Frame{static: true, p: n.P, e1: applied})
			default:
				if b := n.childBinds(i); len(b) > 0 {
					fr = append(append([]c08Frame(nil), frames...), c08Frame{names: b})
				}
			}
			walk(c, fr, app)
		}
	}
	walk(root, nil, nil)
	return out
}

// c08Closed wraps e in the chain of static lets it depends on; ok=false when a free variable of e
// is bound dynamically (lambda parameter, transform binder, cond pattern) or depends on one.
func c08Closed(e *c08N, frames []c08Frame) (*c08N, bool) {
	status := map[string]bool{} // name -> resolvable
	var chain []c08Frame
	for _, f := range frames {
		if !f.static {
			for k := range f.names {
				status[k] = false
			}
			continue
		}
		good := true
		for v := range c08FV(f.e1) {
			if !status[v] {
				good = false
			}
		}
		for k := range c08Binds(f.p) {
			status[k] = good
		}
		if good {
			chain = append(chain, f)
		}
	}
	for v := range c08FV(e) {
		if !status[v] {
			return nil, false
		}
	}
	out := e.clone()
	for i := len(chain) - 1; i >= 0; i-- {
		out = c08Let(chain[i].p.clone(), chain[i].e1.clone(), out)
	}
	return out, true
}

type c08Evals struct {
	cache map[string]core.Outcome
	n     int
}

func (ev *c08Evals) eval(src string) core.Outcome {
	if o, ok := ev.cache[src]; ok {
		return o
	}
	ev.n++
	o := core.EvalSrc(src)
	ev.cache[src] = o
	return o
}

// truth evaluates e in its static context: known=false when not decidable.
func (ev *c08Evals) truth(e *c08N, frames []c08Frame) (val, known bool) {
	prog, ok := c08Closed(e, frames)
	if !ok {
		return false, false
	}
	o := ev.eval(c08Src(prog))
	if !o.OK() {
		return false, false
	}
	t := false
	func() {
		defer func() { recover() }()
		t = o.Val.IsTrue()
		known = true
	}()
	return t, known
}

// c08LazyRewrites enumerates R8: each sub-expression that the selected semantics never evaluates is
// replaced by an expression that fails ({}(1) or (a: 1).b).
func c08LazyRewrites(root *c08N, ev *c08Evals) []c08RW {
	var out []c08RW
	ctxs := c08Contexts(root)
	posOf := map[*c08N]int{}
	for _, c := range ctxs {
		posOf[c.n] = c.pos
	}
	dead := func(entry string, victim *c08N) {
		pos := posOf[victim]
		for _, f := range []struct {
			tag string
			mk  func() *c08N
		}{{"call", c08FailCall}, {"dot", c08FailDot}} {
			f := f
			out = append(out, c08RW{Clause: "R8", Entry: entry + "/" + f.tag, Pos: pos, At: c08AtTag(victim),
				Root: c08At(root, pos, func(*c08N) *c08N { return f.mk() })})
		}
	}
	for _, c := range ctxs {
		n := c.n
		switch n.K {
		case c08KBin:
			if n.Op != "&&" && n.Op != "||" {
				continue
			}
			if v, known := ev.truth(n.Ch[0], c.frames); known && v == (n.Op == "||") {
				dead(map[string]string{"&&": "and:rhs", "||": "or:rhs"}[n.Op], n.Ch[1])
			}
		case c08KIf:
			if v, known := ev.truth(n.Ch[1], c.frames); known {
				if v {
					dead("if:else", n.Ch[2])
				} else {
					dead("if:then", n.Ch[0])
				}
			}
		case c08KCond:
			arms := len(n.Ch) / 2
			sel := -1
			i := 0
			for ; i < arms; i++ {
				v, known := ev.truth(n.Ch[2*i], c.frames)
				if !known {
					break
				}
				if v {
					sel = i
					break
				}
				dead("cond:value-of-false", n.Ch[2*i+1])
			}
			if sel >= 0 {
				for j := sel + 1; j < arms; j++ {
					dead("cond:later-condition", n.Ch[2*j])
					dead("cond:later-value", n.Ch[2*j+1])
				}
				if n.Def {
					dead("cond:default", n.Ch[len(n.Ch)-1])
				}
			}
		case c08KCondV:
			// selection is read off a probe `cond ctrl {p1: 1, p2: 2, ...}` in the same static context
			probe := n.clone()
			for i := range probe.Ps {
				probe.Ch[1+i] = c08Num(strconv.Itoa(i + 1))
			}
			prog, ok := c08Closed(probe, c.frames)
			if !ok {
				continue
			}
			o := ev.eval(c08Src(prog))
			if !o.OK() {
				continue
			}
			m, perr := core.SafeDenote(o.Val)
			if perr != nil {
				continue
			}
			sel := -1
			switch {
			case m.K == 'n':
				sel = int(m.N) - 1
			case m.Enc == core.MEmpty.Enc:
			default:
				continue
			}
			for i := range n.Ps {
				if i != sel {
					dead("condv:value", n.Ch[1+i])
				}
			}
		}
	}
	return out
}

// ---------------------------------------------------------------------------------------------
// R4 / R6: print-level rewrites

var c08Delims = map[string]bool{"(": true, ")": true, "[": true, "]": true, "{": true, "}": true, ",": true, ";": true}

func c08TokClass(s string) string {
	switch {
	case c08Delims[s] || s == ":" || s == "|" || s == "." || s == "\\":
		return s
	case s == "let" || s == "cond" || s == "if" || s == "else" || s == "count" || s == "where" || s == "with" || s == "without" || s == "true" || s == "false":
		return "kw"
	case s[0] == '"':
		return "str"
	case s[0] >= '0' && s[0] <= '9':
		return "num"
	case s[0] == '%' && len(s) == 2:
		return "char"
	case s[0] == '_' || s[0] == '@' || s[0] >= 'a' && s[0] <= 'z':
		return "ident"
	}
	return "op"
}

// c08LayoutRewrites: comments only where the documented grammar has C*, whitespace anywhere between
// tokens; spaces are only ever removed next to a bracket, comma or semicolon.
func c08LayoutRewrites(root *c08N, r *core.Rng, perKind int) []c08RW {
	toks := c08Print(root, false)
	var out []c08RW
	add := func(entry string, pos int, sep map[int]string, pre, post string) {
		at := "program"
		if pos > 0 {
			at = c08TokClass(toks[pos-1].S) + "|" + c08TokClass(toks[pos].S)
		}
		out = append(out, c08RW{Clause: "R4", Entry: entry, Pos: pos, At: at, Src: pre + c08Render(toks, sep) + post})
	}
	// whole-program variants
	all := map[int]string{}
	allC := map[int]string{}
	nC := 0
	for i := 1; i < len(toks); i++ {
		all[i] = "\n"
		if toks[i].COK {
			allC[i] = " # c" + strconv.Itoa(i) + "\n"
			nC++
		}
	}
	add("edges", -1, nil, "# head\n\n  ", "  # tail")
	if len(toks) > 1 {
		add("all-newlines", -1, all, "", "\n")
	}
	if nC > 0 {
		add("all-comments", -1, allC, "", "")
	}
	// single boundaries
	var idx, cidx, tight, loose []int
	for i := 1; i < len(toks); i++ {
		idx = append(idx, i)
		if toks[i].COK {
			cidx = append(cidx, i)
		}
		if !toks[i].NoSp && (c08Delims[toks[i-1].S] || c08Delims[toks[i].S]) {
			tight = append(tight, i)
		}
		if toks[i].NoSp {
			loose = append(loose, i)
		}
	}
	pick := func(xs []int) []int {
		xs = append([]int(nil), xs...)
		core.Shuffle(r, xs)
		if perKind > 0 && len(xs) > perKind {
			xs = xs[:perKind]
		}
		return xs
	}
	for _, i := range pick(idx) {
		add("newline", i, map[int]string{i: "\n"}, "", "")
	}
	for _, i := range pick(idx) {
		add("blanks", i, map[int]string{i: " \t  "}, "", "")
	}
	for _, i := range pick(cidx) {
		add("comment", i, map[int]string{i: " # x + (1\n"}, "", "")
	}
	for _, i := range pick(tight) {
		add("tighten", i, map[int]string{i: ""}, "", "")
	}
	for _, i := range pick(loose) {
		add("loosen", i, map[int]string{i: " "}, "", "")
	}
	return out
}

func c08FullParens(root *c08N) c08RW {
	return c08RW{Clause: "R6", Entry: "minimal->full", Pos: -1, At: "program", Src: c08Render(c08Print(root, true), nil)}
}
