package checks

import (
	"bytes"
	"fmt"
	"os"
	"os/exec"
	"path/filepath"
	"regexp"
	"sort"
	"strconv"
	"strings"
	"sync"

	"verif/core"
)

// Real-binary route (observation point (iv)): `arrai bundle` + `arrai run x.arraiz` built from
// the repository working tree, on a real directory under the run directory, under strace.

var (
	c15BinOnce sync.Once
	c15BinPath string
	c15BinErr  error
)

var c15ReReplace = regexp.MustCompile(`(?m)^replace github.com/arr-ai/arrai => (\S+)`)

// c15ArraiBinary returns the cmd/arrai binary built from the repository the harness compiles
// against. The driver builds it once before it starts workers (WorkerEnv) and hands the path down
// in the environment; a process without that environment (replay) builds it itself.
func c15ArraiBinary(cfg *core.Config) (string, error) {
	if p := os.Getenv("C15_ARRAI_BIN"); p != "" {
		return p, nil
	}
	if e := os.Getenv("C15_ARRAI_ERR"); e != "" {
		return "", fmt.Errorf("%s", e)
	}
	c15BinOnce.Do(func() {
		gm, err := os.ReadFile(filepath.Join(cfg.Root, "harness", "go.mod"))
		if err != nil {
			c15BinErr = err
			return
		}
		m := c15ReReplace.FindSubmatch(gm)
		if m == nil {
			c15BinErr = fmt.Errorf("no replace line for arrai in harness/go.mod")
			return
		}
		repo := string(m[1])
		binDir := filepath.Join(cfg.Root, "bin")
		_ = os.MkdirAll(binDir, 0o755)
		bin := filepath.Join(binDir, "c15-arrai")
		cmd := exec.Command("go", "build", "-o", bin, "./cmd/arrai")
		cmd.Dir = repo
		out, err := cmd.CombinedOutput()
		if err != nil {
			c15BinErr = fmt.Errorf("go build ./cmd/arrai in %s: %v: %s", repo, err, c15Clip(string(out), 600))
			return
		}
		c15BinPath = bin
	})
	return c15BinPath, c15BinErr
}

func c15Clip(s string, n int) string {
	if len(s) > n {
		return s[:n]
	}
	return s
}

type c15Proc struct {
	Exit   int
	Stdout string
	Stderr string
	Trace  string // strace output file ("" = not traced)
	Cwd    string
	Err    error // could not run at all
}

func c15Exec(cwd string, trace string, stdoutTo string, argv ...string) c15Proc {
	full := argv
	if trace != "" {
		full = append([]string{"strace", "-f", "--seccomp-bpf", "-qq", "-e", "trace=%file", "-o", trace, "--"}, argv...)
	}
	cmd := exec.Command(full[0], full[1:]...)
	cmd.Dir = cwd
	cmd.Env = append(os.Environ(), "NO_COLOR=1")
	var so, se bytes.Buffer
	cmd.Stdout, cmd.Stderr = &so, &se
	err := cmd.Run()
	p := c15Proc{Stdout: so.String(), Stderr: se.String(), Trace: trace, Cwd: cwd}
	if err != nil {
		if ee, ok := err.(*exec.ExitError); ok {
			p.Exit = ee.ExitCode()
		} else {
			p.Err = err
		}
	}
	if stdoutTo != "" && p.Err == nil && p.Exit == 0 {
		p.Err = os.WriteFile(stdoutTo, so.Bytes(), 0o644)
	}
	return p
}

var c15ReLogMsg = regexp.MustCompile(`msg="((?:[^"\\]|\\.)*)"`)

func (p c15Proc) outcome() c15Outcome {
	if p.Exit == 0 {
		r := p.Stdout
		if len(r) > 300 {
			r = r[:300] + "…"
		}
		return c15Outcome{Mode: "value", Enc: p.Stdout, Repr: strings.TrimSpace(r)}
	}
	text := p.Stderr
	if strings.Contains(text, "goroutine ") && (strings.Contains(text, "panic:") || strings.Contains(text, "fatal error:")) {
		first := text
		if i := strings.Index(first, "panic:"); i >= 0 {
			first = first[i:]
		}
		if i := strings.IndexByte(first, '\n'); i >= 0 {
			first = first[:i]
		}
		return c15Outcome{Mode: "panic", Text: c15Clip(first, 200), Site: "process: " + core.MsgClass(first)}
	}
	var msgs []string
	for _, m := range c15ReLogMsg.FindAllStringSubmatch(text, -1) {
		if u, err := strconv.Unquote(`"` + m[1] + `"`); err == nil {
			msgs = append(msgs, u)
		}
	}
	if len(msgs) > 0 {
		text = msgs[len(msgs)-1] // the error is the last thing logged before exit 1
	}
	cl, first := c15FailClass(text)
	return c15Outcome{Mode: "error", Class: cl, Text: c15Clip(first, 240)}
}

type c15Sys struct {
	Call  string
	Paths []string
	OK    bool
}

var (
	c15ReStraceLine = regexp.MustCompile(`^(\d+)\s+([a-z_0-9]+)\((.*)$`)
	c15ReResumed    = regexp.MustCompile(`^(\d+)\s+<\.\.\. ([a-z_0-9]+) resumed>(.*)$`)
	c15ReQuoted     = regexp.MustCompile(`"((?:[^"\\]|\\.)*)"`)
	c15ReResult     = regexp.MustCompile(`\)\s+= (-?[0-9a-fx?]+)`)
)

// c15ParseStrace reads an `strace -f -o` file into path-taking syscalls.
func c15ParseStrace(file string) ([]c15Sys, error) {
	b, err := os.ReadFile(file)
	if err != nil {
		return nil, err
	}
	var out []c15Sys
	pending := map[string]int{} // pid+call -> index in out
	paths := func(s string) []string {
		var ps []string
		for _, m := range c15ReQuoted.FindAllStringSubmatch(s, -1) {
			if u, err := strconv.Unquote(`"` + m[1] + `"`); err == nil {
				ps = append(ps, u)
			} else {
				ps = append(ps, m[1])
			}
		}
		return ps
	}
	okOf := func(s string) bool { // strace pads short lines: ")      = 3"
		m := c15ReResult.FindAllStringSubmatch(s, -1)
		if len(m) == 0 {
			return false
		}
		return !strings.HasPrefix(m[len(m)-1][1], "-")
	}
	for _, ln := range strings.Split(string(b), "\n") {
		if m := c15ReResumed.FindStringSubmatch(ln); m != nil {
			if k, ok := pending[m[1]+m[2]]; ok {
				out[k].Paths = append(out[k].Paths, paths(m[3])...)
				out[k].OK = okOf(ln)
				delete(pending, m[1]+m[2])
			}
			continue
		}
		m := c15ReStraceLine.FindStringSubmatch(ln)
		if m == nil {
			continue
		}
		args := m[3]
		if m[2] == "execve" { // argv/env strings are not paths: keep the program only
			if i := strings.Index(args, ", ["); i >= 0 {
				args = args[:i] + ln[strings.LastIndex(ln, ")"):]
			}
		}
		if loc := c15ReResult.FindAllStringIndex(args, -1); len(loc) > 0 {
			args = args[:loc[len(loc)-1][0]] // drop the result part
		}
		s := c15Sys{Call: m[2], Paths: paths(args)}
		if strings.Contains(ln, "<unfinished ...>") {
			out = append(out, s)
			pending[m[1]+m[2]] = len(out) - 1
			continue
		}
		s.OK = okOf(ln)
		out = append(out, s)
	}
	return out, nil
}

var c15SystemPrefixes = []string{"/proc/", "/sys/", "/dev/", "/etc/", "/lib/", "/lib64/", "/usr/lib", "/usr/local/lib", "/usr/share/zoneinfo"}

func c15IsSystemPath(p string) bool {
	for _, pre := range c15SystemPrefixes {
		if strings.HasPrefix(p, pre) {
			return true
		}
	}
	return false
}

type c15TraceStats struct {
	Syscalls    int
	BundleOpens int
	UnderSrc    int
	Other       map[string]bool
}

// c15AuditTrace judges one straced bundle run: nothing outside the archive file may be looked at
// that could stand for a file of the program (source tree, sentinels, archive-internal paths on
// the host, relative paths, other programs).
func c15AuditTrace(j *c15Judge, entry string, sys []c15Sys, cwd, srcDir, bundleFile, arraiBin string, baseline map[string]bool, st *c15TraceStats) {
	for _, s := range sys {
		st.Syscalls++
		for _, p := range s.Paths {
			if p == "" { // AT_EMPTY_PATH: the call is about an already open descriptor
				continue
			}
			abs := p
			if !filepath.IsAbs(p) {
				abs = filepath.Join(cwd, p)
			}
			abs = filepath.Clean(abs)
			how := "host-access-attempt"
			if s.OK {
				how = "host-access"
			}
			detail := fmt.Sprintf("%s: %s(%q) ok=%v while running the bundle (cwd=%s, former source dir=%s)", entry, s.Call, p, s.OK, cwd, srcDir)
			switch {
			case abs == bundleFile:
				if s.OK && strings.HasPrefix(s.Call, "open") {
					st.BundleOpens++
				}
			case s.Call == "execve":
				if abs != arraiBin && filepath.Base(abs) != "strace" {
					j.viol("C15.strace", entry, "exec", "", filepath.Base(abs), detail)
				}
			case abs == srcDir || strings.HasPrefix(abs, srcDir+"/"):
				st.UnderSrc++
				j.viol("C15.strace", entry, how, "", "source-tree", detail)
			case filepath.Base(abs) == "go.mod":
				j.viol("C15.strace", entry, how, "", "host-sentinel", detail)
			case strings.HasPrefix(abs, "/module/") || strings.HasPrefix(abs, "/unnamed/") || abs == "/module" || abs == "/unnamed" || abs == "/config.arrai":
				j.viol("C15.strace", entry, how, "", "archive-path-on-host", detail)
			case abs == filepath.Clean(cwd) || abs == arraiBin:
				st.Other[abs] = true
			case !filepath.IsAbs(p):
				j.viol("C15.strace", entry, how, "", "relative-host-path", detail)
			case baseline[abs] || c15IsSystemPath(abs):
				// also touched by a plain source run of the same binary (runtime, loader, time zone ...)
				st.Other[abs] = true
			default:
				j.viol("C15.strace", entry, how, "", "unexpected-host-path", detail+"; not touched by the source run of the same program and not a system path")
			}
		}
	}
}

func c15AncestorSentinel(dir string) string {
	for d := dir; ; d = filepath.Dir(d) {
		if _, err := os.Stat(filepath.Join(d, "go.mod")); err == nil {
			return filepath.Join(d, "go.mod")
		}
		if d == "/" || d == "." {
			return ""
		}
	}
}

// c15RunBin runs one layout through the real binaries and judges it.
func c15RunBin(cfg *core.Config, l *c15Layout, caseNo int, res *core.CaseResult) {
	hz := l.hazards()
	files := l.files()
	j := &c15Judge{res: res, hz: hz, seen: map[string]bool{}, rep: map[string]interface{}{"main": l.mainPath(), "files": files, "route": "real binaries + strace"}}
	for _, h := range hz {
		res.Cover = append(res.Cover, "hz/"+h)
	}
	arrai, err := c15ArraiBinary(cfg)
	if err != nil {
		res.Inconclusive = "cannot build cmd/arrai: " + err.Error()
		return
	}
	caseDir := filepath.Join(cfg.RunDir, "fs", fmt.Sprintf("c%d", caseNo))
	_ = os.RemoveAll(caseDir)
	srcDir, outDir, cwdDir, trDir := filepath.Join(caseDir, "src"), filepath.Join(caseDir, "out"), filepath.Join(caseDir, "cwd"), filepath.Join(caseDir, "trace")
	for _, d := range []string{srcDir, outDir, cwdDir, trDir} {
		if err := os.MkdirAll(d, 0o755); err != nil {
			res.Inconclusive = err.Error()
			return
		}
	}
	keep := false
	defer func() {
		if !keep && len(res.Viols) == 0 {
			_ = os.RemoveAll(caseDir)
		}
	}()
	if s := c15AncestorSentinel(caseDir); s != "" {
		res.Inconclusive = "a go.mod above the scratch directory would change root lookup: " + s
		return
	}
	for p, c := range files {
		hp := filepath.Join(srcDir, p)
		if err := os.MkdirAll(filepath.Dir(hp), 0o755); err != nil {
			res.Inconclusive = err.Error()
			return
		}
		if err := os.WriteFile(hp, []byte(c), 0o644); err != nil {
			res.Inconclusive = err.Error()
			return
		}
	}
	mainAbs := filepath.Join(srcDir, l.mainPath())
	baseAbs := filepath.Join(srcDir, l.Base)
	// how the user names the main file
	var cwd, mainArg, variant string
	switch caseNo % 3 {
	case 0:
		cwd, variant = baseAbs, "relative-from-base"
		mainArg, _ = filepath.Rel(baseAbs, mainAbs)
	case 1:
		cwd, mainArg, variant = filepath.Dir(mainAbs), filepath.Base(mainAbs), "basename-in-own-dir"
	default:
		cwd, mainArg, variant = cwdDir, mainAbs, "absolute-from-elsewhere"
	}
	res.Cover = append(res.Cover, "bin/main-arg:"+variant)
	bundleFile := filepath.Join(outDir, "x.arraiz")

	// source run (straced: canary that strace sees arrai's file access at all), twice for determinism
	src := c15Exec(cwd, filepath.Join(trDir, "source.txt"), "", arrai, "run", mainArg)
	res.Evals++
	if src.Err != nil {
		res.Inconclusive = fmt.Sprintf("cannot execute arrai under strace: %v", src.Err)
		return
	}
	so := src.outcome()
	res.Cover = append(res.Cover, "bin/source:"+so.Mode)
	data := c15Data{Bin: 1}
	baseline := map[string]bool{} // host paths outside this case's directory that a plain source run touches
	if sys, err := c15ParseStrace(src.Trace); err == nil {
		for _, s := range sys {
			for _, p := range s.Paths {
				a := p
				if !filepath.IsAbs(a) {
					a = filepath.Join(cwd, a)
				}
				a = filepath.Clean(a)
				if s.OK && strings.HasPrefix(s.Call, "open") && strings.HasPrefix(a, srcDir+"/") {
					data.SrcRunOpens++
				}
				if !strings.HasPrefix(a, caseDir+"/") && a != caseDir {
					baseline[a] = true
				}
			}
		}
	}
	if data.SrcRunOpens == 0 {
		res.Inconclusive = "strace did not show the source run opening its own main file (monitor blind)"
		keep = true
		return
	}

	// bundle
	var bp c15Proc
	if caseNo%2 == 0 {
		bp = c15Exec(cwd, "", bundleFile, arrai, "bundle", mainArg)
		res.Cover = append(res.Cover, "bin/bundle:stdout")
	} else {
		bp = c15Exec(cwd, "", "", arrai, "bundle", "--out", filepath.Join(outDir, "x"), mainArg)
		res.Cover = append(res.Cover, "bin/bundle:--out")
	}
	res.Evals++
	if bp.Err != nil {
		res.Inconclusive = "cannot execute arrai bundle: " + bp.Err.Error()
		return
	}
	if bo := bp.outcome(); bo.Mode != "value" {
		res.Cover = append(res.Cover, "bin/bundle-step:"+bo.Mode)
		j.compare("bin:bundle", so, bo, fmt.Sprintf("`arrai bundle %s` in %s", mainArg, cwd))
		res.Data = data
		return
	}
	if fi, err := os.Stat(bundleFile); err != nil || fi.Size() == 0 {
		j.viol("C15.archive", "bin:bundle", "no-archive-written", "", "", fmt.Sprintf("`arrai bundle` exited 0 but %s is missing or empty", bundleFile))
		res.Data = data
		return
	}
	res.Cover = append(res.Cover, "bin/bundle-step:ok")

	st := &c15TraceStats{Other: map[string]bool{}}
	judgeRun := func(entry string, p c15Proc, desc string, again func() c15Proc) {
		res.Evals++
		if p.Err != nil {
			res.Inconclusive = "cannot execute arrai run: " + p.Err.Error()
			return
		}
		o := p.outcome()
		if so.Mode == "value" && o.Mode == "value" && so.Enc != o.Enc {
			// printed output that differs between two identical runs is not C15's subject
			res.Evals++
			if o2 := again().outcome(); o2.Mode != o.Mode || o2.Enc != o.Enc {
				res.Inconclusive = "bundle run output is not deterministic across processes: " + o.String() + " vs " + o2.String()
				return
			}
		}
		j.compare(entry, so, o, desc)
		if so.Mode == "value" && o.Mode == "value" {
			data.BinBothValue++
		}
		if p.Trace != "" {
			sys, err := c15ParseStrace(p.Trace)
			if err != nil {
				res.Inconclusive = "no strace output: " + err.Error()
				return
			}
			before := st.BundleOpens
			c15AuditTrace(j, entry, sys, p.Cwd, srcDir, bundleFile, arrai, baseline, st)
			if st.BundleOpens == before {
				res.Inconclusive = "strace did not show the bundle run opening the .arraiz (monitor blind)"
				keep = true
				return
			}
			data.StracedRuns++
		}
	}
	// A: sources still in place, absolute bundle path, cwd elsewhere
	judgeRun("bin:run:sources-present", c15Exec(cwdDir, filepath.Join(trDir, "runA.txt"), "", arrai, "run", bundleFile),
		"`arrai run "+bundleFile+"` in "+cwdDir, func() c15Proc { return c15Exec(cwdDir, "", "", arrai, "run", bundleFile) })
	// B: sources deleted; the bundle is named relatively, from its own directory or from a sibling
	if err := os.RemoveAll(srcDir); err != nil {
		res.Inconclusive = err.Error()
		return
	}
	bCwd, bArg := outDir, "x.arraiz"
	if caseNo%4 >= 2 {
		bCwd, bArg = cwdDir, "../out/x.arraiz"
	}
	judgeRun("bin:run:sources-deleted", c15Exec(bCwd, filepath.Join(trDir, "runB.txt"), "", arrai, "run", bArg),
		"`arrai run "+bArg+"` in "+bCwd+" after removing "+srcDir, func() c15Proc { return c15Exec(bCwd, "", "", arrai, "run", bArg) })
	data.Syscalls, data.BundleOpens, data.OtherPaths = st.Syscalls, st.BundleOpens, len(st.Other)
	if caseNo%16 == 0 {
		var xs []string
		for p := range st.Other {
			xs = append(xs, p)
		}
		sort.Strings(xs)
		res.Sample = fmt.Sprintf("[real binaries] %s; main arg %q; source: %s; other host paths seen by strace during bundle runs: %v", l.Desc, mainArg, so, xs)
	}
	res.Data = data
}
