package checks

import (
	"encoding/json"
	"fmt"
	"sort"
	"strings"
	"sync"

	"verif/core"

	"github.com/arr-ai/arrai/rel"
	"github.com/arr-ai/wbnf/parser"
)

// C04: join family, nest/unnest and rank obey their relational definitions. Reference-model monitor:
// every operator application is evaluated on LIVE operand values (built through many construction
// paths, hence many representations and internal column orders) and judged locally against the
// documented set-comprehension meaning of the operator on the operands' ACTUAL denotations. Results
// are cross-examined through Enumerator / Count / Has / `=`, re-examined after later joins on the
// same operand (history), and fed back as operands (chains).

type c04 struct{}

func init() { core.Register(c04{}) }

func (c04) ID() string    { return "C04" }
func (c04) Level() string { return "exploration" }
func (c04) Rule() string {
	return "core (seed-independent): every heading of <=3 attributes over {a,b,c,@,@item,@char,@value} (64 headings, 1 row set each in quick / 3 in thorough, 2-4 rows from 3-value domains built from shared universe rows + noise so joins are neither empty nor full) + {} + {()} + 6 hazardous sugar-shaped relations; each realised as spelled-out tuple set, sugar (array/string/dict), relation literal in EVERY column permutation, computed set (=>), union of halves, with-chain, where, and join-chains giving every internal attribute order; case = one left relation x 12 right relations x realisation pairs (all literal-permutation pairs for {a,b,c} headings in quick / for all headings in thorough; 1/16 resp. 1/5 of the other pairs, rotating) x 8 join operators, then re-examination of all results after the later joins, then chains (A <&> B) op C; nest cases = one relation x all realisations x every `nest |N| n` (both listing orders), `nest ~|K| n`, `nest a`, unnest of each nest result through rel.NewUnnestExpr / rel.Unnest (and the `unnest` syntax when it compiles) + unnest of independently built nested relations (incl. empty groups), rank by every attribute asc/desc/pairs/expressions/constant with an orderby cross-check. Random slice (VERIF_SEED): headings over the alphabet + @byte, 0-4 rows, tied row values, random realisations. Distinct by (operator, left denotation+Go type, right denotation+Go type); non-trivial when both operands are non-empty."
}
func (c04) Assumptions() []string {
	return []string{
		"the eight join operators mean the projections tabulated in docs/docs/lang/relops.md (drop left-only / common / right-only attributes where '<' / '&' / '>' is replaced by '-')",
		"Denote trusts Set.Enumerator; every result is cross-examined through Count(), Has() (members and a non-member) and the `=` operator against an independently constructed value",
		"operands are relations (sets of tuples with one heading) or {}; non-relations and nest/unnest/rank attribute errors are the business of C10",
		"rank keys are numbers, so the implementation's `<` on keys is the usual order",
		"`nest ~|K|` with K = whole heading and attribute clashes between key and nested name are left open by the statement and not judged",
		"Go representation types and the positional createMode branch are coverage tags only (the branch is inferred from the documented output partition, not observed)",
	}
}

// WorkerEnv: the workload allocates many small short-lived values; a laxer GC target halves CPU.
func (c04) WorkerEnv(cfg *core.Config, shard int) []string { return []string{"GOGC=400"} }

// ---------------------------------------------------------------------------------------------
// pool

var (
	c04Once   sync.Once
	c04Pool   []c04Model
	c04OpMu   sync.Mutex
	c04OpCach = map[int][]c04Opnd{}
	c04OpBad  = map[int][]core.Violation{}
)

func c04Models(cfg *core.Config) []c04Model {
	c04Once.Do(func() { c04Pool = c04CoreModels(cfg.Pick(1, 3)) })
	return c04Pool
}

func c04RandomCases(cfg *core.Config) int { return cfg.Pick(40, 1000) }

func (c04) NumCases(cfg *core.Config) int {
	return len(c04Models(cfg))*c04Chunks(cfg) + len(c04Models(cfg)) + c04RandomCases(cfg)
}

// c04MkOperands realises m through every construction path. Only constructors that themselves run
// join operators are judged here (clause C04.members, entry path:<kind>); a literal / union / with
// path that builds something else is C01's business and the operand is simply used with its actual
// denotation.
func c04MkOperands(m MV, h []string) (ops []c04Opnd, bad []core.Violation) {
	for _, p := range c04Paths(m, h) {
		op, o := mkOperand(m, p)
		kind := p.Kind
		if i := strings.IndexByte(kind, ':'); i >= 0 {
			kind = kind[:i]
		}
		joinBuilt := kind == "join-chain" || kind == "empty-join" || kind == "exists-join"
		hz := core.HazardList(m)
		if !op.OK {
			if joinBuilt {
				mode, site := "error-for-value", ""
				if o.Panic != nil {
					mode, site = "panic", o.Panic.Sig()
				}
				bad = append(bad, core.Violation{Sig: core.Signature{Clause: "C04.members", Entry: "path:" + kind, Mode: mode, Site: site, Hazards: hz},
					Detail: fmt.Sprintf("%s => %s", p.Src, outcomeText(o)), Replay: map[string]string{"expr": p.Src}})
			}
			continue
		}
		if op.Got.Enc != m.Enc && joinBuilt {
			mode, delta := c04Diff(op.Got, m)
			bad = append(bad, core.Violation{Sig: core.Signature{Clause: "C04.members", Entry: "path:" + kind, Mode: mode, Hazards: hz, Delta: delta},
				Detail: fmt.Sprintf("%s => %s, want %s", p.Src, core.Src(op.Got), core.Src(m)), Replay: map[string]string{"expr": p.Src}})
		}
		if _, isRel := c04HeadingOf(op.Got); !isRel {
			continue // a constructor that did not even yield a relation: not an operand for this property
		}
		if _, isSet := op.Val.(rel.Set); !isSet {
			continue
		}
		ops = append(ops, c04NewOpnd(op))
	}
	return
}

func c04NewOpnd(op Operand) c04Opnd {
	at := c04AttrOrder(op.Val)
	h, _ := c04HeadingOf(op.Got)
	_, isRel := op.Val.(rel.Relation)
	return c04Opnd{Operand: op, Attrs: at, Rep: op.GoType + "[" + at + "]", H: h, Hz: core.HazardList(op.Got, op.Want),
		Hash: core.Hash64(op.Got.Enc + "|" + op.GoType), IsRel: isRel}
}

func c04Operands(cfg *core.Config, mi int) ([]c04Opnd, []core.Violation) {
	c04OpMu.Lock()
	defer c04OpMu.Unlock()
	if ops, ok := c04OpCach[mi]; ok {
		return ops, c04OpBad[mi]
	}
	m := c04Models(cfg)[mi]
	ops, bad := c04MkOperands(m.M, m.H)
	c04OpCach[mi], c04OpBad[mi] = ops, bad
	return ops, bad
}

// ---------------------------------------------------------------------------------------------
// judging

type c04Ctx struct {
	j   *judge
	res *core.CaseResult
	cnt map[string]int
	cov map[string]bool
}

func c04NewCtx(res *core.CaseResult) *c04Ctx {
	return &c04Ctx{j: &judge{prop: "C04", res: res, seen: map[string]bool{}}, res: res, cnt: map[string]int{}, cov: map[string]bool{}}
}

func (c *c04Ctx) tag(t string) { c.cov[t] = true }

func (c *c04Ctx) finish() {
	for t := range c.cov {
		c.res.Cover = append(c.res.Cover, t)
	}
	sort.Strings(c.res.Cover)
	c.res.Data = c.cnt
}

type c04Stored struct {
	val   rel.Value
	want  MV
	entry string
	hz    []string
	a, b  *c04Opnd
}

func (r c04Stored) describe() string { return r.a.Path.Src + " " + r.entry + " " + r.b.Path.Src }

// c04NonMember derives from a member a tuple that is certainly not in want (one attribute set to a
// value outside every domain), for the negative half of the Has() cross-examination.
func c04NonMember(want MV) (MV, bool) {
	for _, e := range want.S {
		if e.K != 't' || len(e.T) == 0 {
			return MV{}, false
		}
		names := make([]string, 0, len(e.T))
		for n := range e.T {
			names = append(names, n)
		}
		sort.Strings(names)
		m := map[string]MV{}
		for n, v := range e.T {
			m[n] = v
		}
		pick := names[0]
		for _, n := range names {
			if n != "@byte" && n != "@char" { // those payloads are narrowed by the tuple constructors
				pick = n
				break
			}
		}
		m[pick] = num(424242)
		t := core.Tup(m)
		if want.Has(t) {
			return MV{}, false
		}
		return t, true
	}
	return MV{}, false
}

// judgeSet compares one set-valued result with the model through every access path.
func (c *c04Ctx) judgeSet(entry string, o core.Outcome, want MV, hz []string, desc string) (rel.Value, bool) {
	return c.judgeSetL(entry, o, want, hz, func() string { return desc })
}

func (c *c04Ctx) judgeSetL(entry string, o core.Outcome, want MV, hz []string, descFn func() string) (rel.Value, bool) {
	if o.OK() { // fast path: everything agrees, nothing to describe
		if v, ok := c.judgeQuiet(o, want); ok {
			return v, true
		}
	}
	desc := descFn()
	j := c.j
	replay := map[string]string{"expr": desc}
	switch {
	case o.Panic != nil:
		j.report("C04.members", entry, "panic", o.Panic.Sig(), "", hz, desc+" => panic: "+o.Panic.Msg, replay)
		return nil, false
	case o.Err != nil:
		j.report("C04.members", entry, "error-for-value", c04ErrSite(o.Err), "", hz, desc+" => error: "+core.ErrText(o.Err), replay)
		return nil, false
	}
	got, pi := core.SafeDenote(o.Val)
	if pi != nil {
		j.report("C04.members", entry, "panic", "enumerate: "+pi.Sig(), "", hz, desc+" => result cannot be enumerated: "+pi.Msg, replay)
		return nil, false
	}
	if got.Enc != want.Enc {
		mode, delta := c04Diff(got, want)
		j.report("C04.members", entry, mode, "", delta, hz, fmt.Sprintf("%s => %s, want %s", desc, core.Src(got), core.Src(want)), replay)
		return o.Val, false
	}
	s, isSet := o.Val.(rel.Set)
	if !isSet {
		return o.Val, true
	}
	ok := true
	cnt, pi := safeCount(s)
	if pi != nil {
		j.report("C04.count", entry, "panic", pi.Sig(), "", hz, desc+" => Count() panics: "+pi.Msg, replay)
		ok = false
	} else if cnt != len(want.S) {
		_, delta := c04Diff(mset(), want)
		j.report("C04.count", entry, "count-mismatch", "", delta, hz, fmt.Sprintf("%s => Count() %d but %d distinct members %s", desc, cnt, len(want.S), core.Src(want)), replay)
		ok = false
	}
	for _, e := range want.S {
		ev, built := c04ValCached(e)
		if !built {
			continue
		}
		has, pi := safeHas(s, ev)
		if pi != nil {
			j.report("C04.has", entry, "panic", pi.Sig(), "", hz, desc+" => Has() panics: "+pi.Msg, replay)
			ok = false
			break
		}
		if !has {
			j.report("C04.has", entry, "has-false-for-member", "", c04HasDelta(e, want), hz, fmt.Sprintf("%s enumerates %s but Has() denies it", desc, core.Src(e)), replay)
			ok = false
			break
		}
	}
	if nm, okNM := c04NonMember(want); okNM {
		if nv, built := c04ValCached(nm); built {
			if has, pi := safeHas(s, nv); pi != nil {
				j.report("C04.has", entry, "panic", pi.Sig(), "", hz, desc+" => Has(non-member) panics: "+pi.Msg, replay)
				ok = false
			} else if has {
				j.report("C04.has", entry, "has-true-for-non-member", "", "plain", hz, fmt.Sprintf("%s: Has(%s) is true but it is not enumerated", desc, core.Src(nm)), replay)
				ok = false
			}
		}
	}
	// `=` against an independently constructed value of the expected denotation
	if wv, built := c04ValCached(want); built {
		eq := core.EvalT("r = w", "r", o.Val, "w", wv)
		switch {
		case eq.Panic != nil:
			j.report("C04.eq", entry, "panic", eq.Panic.Sig(), "", hz, desc+" => comparing the result with `=` panics: "+eq.Panic.Msg, replay)
			ok = false
		case eq.Err != nil:
			j.report("C04.eq", entry, "error-for-value", c04ErrSite(eq.Err), "", hz, desc+" => `=` fails: "+core.ErrText(eq.Err), replay)
			ok = false
		default:
			if d, _ := core.SafeDenote(eq.Val); d.Enc != core.MTrue.Enc {
				_, delta := c04Diff(mset(), want)
				j.report("C04.eq", entry, "unequal-same-denotation", "", delta, hz, fmt.Sprintf("%s enumerates exactly %s yet is not `=` to that set (result %s, reference %s)", desc, core.Src(want), core.TypeName(o.Val), core.TypeName(wv)), replay)
				ok = false
			}
		}
	}
	return o.Val, ok
}

// judgeQuiet runs the same examinations as judgeSetL without reporting; ok only if all of them hold.
func (c *c04Ctx) judgeQuiet(o core.Outcome, want MV) (rel.Value, bool) {
	got, pi := core.SafeDenote(o.Val)
	if pi != nil || got.Enc != want.Enc {
		return nil, false
	}
	s, isSet := o.Val.(rel.Set)
	if !isSet {
		return o.Val, true
	}
	if cnt, pi := safeCount(s); pi != nil || cnt != len(want.S) {
		return nil, false
	}
	for _, e := range want.S {
		ev, built := c04ValCached(e)
		if !built {
			continue
		}
		if has, pi := safeHas(s, ev); pi != nil || !has {
			return nil, false
		}
	}
	if nm, okNM := c04NonMember(want); okNM {
		if nv, built := c04ValCached(nm); built {
			if has, pi := safeHas(s, nv); pi != nil || has {
				return nil, false
			}
		}
	}
	if wv, built := c04ValCached(want); built {
		c.res.Evals++
		eq := core.EvalT("r = w", "r", o.Val, "w", wv)
		if !eq.OK() {
			return nil, false
		}
		if d, _ := core.SafeDenote(eq.Val); d.Enc != core.MTrue.Enc {
			return nil, false
		}
	}
	return o.Val, true
}

// reexamine re-checks stored results after later operations on the same live operands.
func (c *c04Ctx) reexamine(st []c04Stored) (alive []bool) {
	alive = make([]bool, len(st))
	for i, r := range st {
		c.cnt["reexamined"]++
		got, pi := r.want, (*core.PanicInfo)(nil)
		if i%4 == 0 { // full re-enumeration for a quarter, Count()+Has() for all
			got, pi = core.SafeDenote(r.val)
		} else if s, is := r.val.(rel.Set); is {
			if n, pc := safeCount(s); pc != nil || n != len(r.want.S) {
				got, pi = core.SafeDenote(r.val)
			}
		}
		switch {
		case pi != nil:
			c.j.report("C04.stable", r.entry, "panic", "enumerate: "+pi.Sig(), "", r.hz, r.describe()+": result can no longer be enumerated after later joins on the same operand: "+pi.Msg, map[string]string{"expr": r.describe()})
			continue
		case got.Enc != r.want.Enc:
			c.j.report("C04.stable", r.entry, "denotation-changed", "", "plain", r.hz, fmt.Sprintf("%s: result was %s, after later joins on the same operand it is %s", r.describe(), core.Src(r.want), core.Src(got)), map[string]string{"expr": r.describe()})
			continue
		}
		okHas := true
		if s, is := r.val.(rel.Set); is && len(r.want.S) > 0 {
			if ev, built := c04ValCached(r.want.S[0]); built {
				has, pi := safeHas(s, ev)
				if pi != nil {
					c.j.report("C04.stable", r.entry, "panic", pi.Sig(), "", r.hz, r.describe()+": Has() panics after later joins on the same operand: "+pi.Msg, map[string]string{"expr": r.describe()})
					okHas = false
				} else if !has {
					c.j.report("C04.stable", r.entry, "has-false-after-later-join", "", "plain", r.hz, fmt.Sprintf("%s: Has(%s) was true, after later joins on the same left operand it is false", r.describe(), core.Src(r.want.S[0])), map[string]string{"expr": r.describe()})
					okHas = false
				}
			}
		}
		alive[i] = okHas
	}
	return alive
}

func c04Hz(vals ...MV) []string { return core.HazardList(vals...) }

// c04Primary reduces a diffDelta attribution ("seq-holes(item)+seq-super(item)") to the single most
// specific hazard carried by the discrepancy, so that known findings can name it exactly.
func c04Primary(delta string) string {
	parts := strings.Split(delta, "+")
	for _, pre := range []string{"seq-super", "dict-multi", "seq-sparse", "seq-holes"} {
		for _, p := range parts {
			if strings.HasPrefix(p, pre) {
				return p
			}
		}
	}
	return delta
}

// c04HasDelta attributes a Has() denial: to the hazards of the member's own index/key group if it
// has any, else to those of the whole expected set (a sparse sequence denies all its members).
func c04HasDelta(e, want MV) string {
	if d := memberDelta(e, want, "plain"); d != "plain" {
		return c04Primary(d)
	}
	_, d := c04Diff(mset(), want)
	return d
}

// c04Diff is diffDelta with the attribution reduced to its primary hazard.
func c04Diff(got, want MV) (mode, delta string) {
	mode, delta = diffDelta(got, want)
	if delta == "plain" && mode == "extra-members" && c04ZeroFill(got, want) {
		return mode, "seq-sparse(byte)"
	}
	return mode, c04Primary(delta)
}

// c04ZeroFill: is every extra member of got a zero byte sitting in a hole of the expected byte
// sequence (the signature of asBytes filling gaps)? Such a member shares its index with nothing,
// so diffDelta alone cannot attribute it.
func c04ZeroFill(got, want MV) bool {
	if got.K != 's' || want.K != 's' {
		return false
	}
	si := core.SeqShape(want, "@byte")
	if !si.Holes || si.N != len(want.S) {
		return false
	}
	n := 0
	for _, e := range got.S {
		if want.Has(e) {
			continue
		}
		at, b := e.T["@"], e.T["@byte"]
		if e.K != 't' || len(e.T) != 2 || at.K != 'n' || b.K != 'n' || b.N != 0 || int(at.N) <= si.Lo || int(at.N) >= si.Hi {
			return false
		}
		n++
	}
	return n > 0
}

func c04ErrSite(err error) string { return "error: " + core.MsgClass(core.ErrText(err)) }

// sugarOut names the hazard-vocabulary tag for a result whose heading is {@, @payload}.
func c04SugarOut(want MV) string {
	h, ok := c04HeadingOf(want)
	if !ok || len(h) != 2 || h[0] != "@" {
		return ""
	}
	switch h[1] {
	case "@item", "@char", "@byte", "@value":
		return h[1][1:]
	}
	return ""
}

// c04Pair is what is common to the eight applications on one (left, right) operand pair.
type c04Pair struct {
	a, b    *c04Opnd
	ok      bool // both are relations
	pat     string
	path    string // pos | gen | empty  (coverage only)
	baseHz  []string
	proper  bool // the natural join is neither empty nor the full product
	x, y, z []string
	joined  []map[string]MV // the natural join, one merged row per agreeing (t, u)
}

func c04NewPair(a, b *c04Opnd) c04Pair {
	p := c04Pair{a: a, b: b}
	if _, ok := c04HeadingOf(a.Got); !ok {
		return p
	}
	if _, ok := c04HeadingOf(b.Got); !ok {
		return p
	}
	p.ok = true
	p.pat = c04Pattern(c04Partition(a.H, b.H))
	switch {
	case len(a.Got.S) == 0 || len(b.Got.S) == 0:
		p.path = "empty"
	case a.IsRel && b.IsRel:
		p.path = "pos"
	default:
		p.path = "gen"
	}
	p.baseHz = mergeHz(a.Hz, b.Hz)
	p.x, p.y, p.z = c04Partition(a.H, b.H)
	p.joined = c04JoinedRows(a.Got, b.Got, p.y)
	p.proper = len(p.joined) > 0 && len(p.joined) < len(a.Got.S)*len(b.Got.S)
	return p
}

// joinOne evaluates and judges `a op b`.
func (c *c04Ctx) joinOne(op, entry string, p *c04Pair) (rel.Value, MV, []string, bool) {
	if !p.ok {
		c.cnt["skipped-not-relations"]++
		return nil, MV{}, nil, false
	}
	a, b := p.a, p.b
	want := c04ProjectJoin(op, p.joined, p.x, p.y, p.z)
	if c.cnt["join-evals"]%64 == 0 { // harness self-check against the plainly written model
		if ref, ok := c04ModelJoin(op, a.Got, b.Got); !ok || ref.Enc != want.Enc {
			panic("c04: reference models disagree on " + a.Path.Src + " " + op + " " + b.Path.Src)
		}
		c.cnt["model-selfcheck"]++
	}
	hz := p.baseHz
	if wh := core.HazardList(want); len(wh) > 0 {
		hz = mergeHz(hz, wh)
	}
	c.res.Evals++
	o := core.EvalT("x "+op+" y", "x", a.Val, "y", b.Val)
	v, good := c.judgeSetL(entry, o, want, hz, func() string { return a.Path.Src + " " + op + " " + b.Path.Src })
	// evidence
	if p.path == "pos" {
		c.cnt["posmode:"+c04PosMode(op, a.H, b.H)]++
	}
	c.cnt["cell:"+p.path+":"+op+":"+p.pat]++
	c.cnt["join-evals"]++
	if c04Hazardous(hz) {
		c.cnt["join-hazardous"]++
	} else {
		c.cnt["join-hazard-free"]++
	}
	if len(want.S) > 0 {
		c.cnt["join-result-nonempty"]++
	}
	if p.proper {
		c.cnt["join-neither-empty-nor-full"]++
	}
	if o.OK() {
		tn := core.TypeName(o.Val)
		c.cnt["out:"+tn]++
		if so := c04SugarOut(want); so != "" {
			c.cnt["resugar:"+so+":"+tn]++
		}
	}
	return v, want, hz, good
}

const c04Chunk = 12 // right relations per join case

func c04Chunks(cfg *core.Config) int {
	n := len(c04Models(cfg))
	return (n + c04Chunk - 1) / c04Chunk
}

func c04PlainHeading(h []string) bool {
	for _, n := range h {
		if strings.HasPrefix(n, "@") {
			return false
		}
	}
	return true
}

// c04KeepPair samples realisation pairs (deterministically). Relation literals in every column
// permutation always meet each other in the thorough tier, and for the {a,b,c} headings (every
// partition pattern) in the quick tier.
func c04KeepPair(cfg *core.Config, i, j, ai, bi int, a, b *c04Opnd) bool {
	if strings.HasPrefix(a.Path.Kind, "lit:") && strings.HasPrefix(b.Path.Kind, "lit:") {
		if cfg.Thorough() || c04PlainHeading(a.H) && c04PlainHeading(b.H) {
			return true
		}
	}
	if cfg.Thorough() {
		return (ai+bi+i+j)%5 == 0
	}
	return (ai*5+bi+i+j)%16 == 0
}

func (c04) RunCase(cfg *core.Config, i int) (res core.CaseResult) {
	nm, nc := len(c04Models(cfg)), c04Chunks(cfg)
	c := c04NewCtx(&res)
	defer c.finish()
	switch {
	case i < nm*nc:
		c04JoinCase(cfg, c, i/nc, i%nc)
	case i < nm*nc+nm:
		c04NestCase(cfg, c, i-nm*nc)
	default:
		c04RandomCase(cfg, c, i-nm*nc-nm)
	}
	return res
}

func c04JoinCase(cfg *core.Config, c *c04Ctx, i, chunk int) {
	models := c04Models(cfg)
	res := c.res
	left := models[i]
	lops, bad := c04Operands(cfg, i)
	if chunk == 0 {
		res.Viols = append(res.Viols, bad...)
	}
	res.Key = fmt.Sprintf("join-left:%s:%d", left.M.Enc, chunk)
	res.NonTrivial = len(left.M.S) > 0
	c.tag("model:" + left.Tag)
	lo, hi := chunk*c04Chunk, (chunk+1)*c04Chunk
	if hi > len(models) {
		hi = len(models)
	}
	sub := map[string]bool{}
	for ai := range lops {
		a := &lops[ai]
		c.tag("rep:" + a.GoType)
		c.tag("path:" + strings.SplitN(a.Path.Kind, ":", 2)[0])
		if a.Attrs != "" {
			if sort.StringsAreSorted(strings.Split(a.Attrs, ",")) {
				c.cnt["left-attrs-sorted"]++
			} else {
				c.cnt["left-attrs-unsorted"]++
			}
		}
		var stored []c04Stored
		var chainFrom []int
		for j := lo; j < hi; j++ {
			rops, _ := c04Operands(cfg, j)
			for bi := range rops {
				b := &rops[bi]
				if !c04KeepPair(cfg, i, j, ai, bi, a, b) {
					continue
				}
				pr := c04NewPair(a, b)
				c.tag("rep:" + b.GoType)
				for _, op := range c04JoinOps {
					v, want, hz, good := c.joinOne(op, op, &pr)
					if good && v != nil {
						stored = append(stored, c04Stored{val: v, want: want, entry: op, hz: hz, a: a, b: b})
						if op == "<&>" && (i+j+ai+bi)%cfg.Pick(24, 8) == 0 {
							chainFrom = append(chainFrom, len(stored)-1)
						}
					}
				}
				if len(a.Got.S) > 0 && len(b.Got.S) > 0 {
					sub[fmt.Sprintf("%x|%x", a.Hash, b.Hash)] = true
				}
			}
		}
		// history: every earlier result must be unaffected by the later joins on the same operand
		alive := c.reexamine(stored)
		// chains: results of <&> (Relations with computed internal column orders) as left operands
		for _, si := range chainFrom {
			if !alive[si] {
				continue
			}
			st := stored[si]
			ro := c04NewOpnd(Operand{Want: st.want, Got: st.want, Val: st.val, OK: true, GoType: core.TypeName(st.val), Path: Path{"chain", "(" + st.describe() + ")"}})
			k := lo + (si*7+i)%(hi-lo) // a right relation of this chunk (already built)
			cops, _ := c04Operands(cfg, k)
			if len(cops) == 0 {
				continue
			}
			cb := &cops[(si+ai)%len(cops)]
			pr := c04NewPair(&ro, cb)
			for _, op := range c04JoinOps {
				c.cnt["chain-evals"]++
				c.joinOne(op, "<&>;"+op, &pr)
			}
		}
	}
	for k := range sub {
		for _, op := range c04JoinOps {
			res.SubKeys = append(res.SubKeys, op+"|"+k)
		}
	}
	if i%9 == 0 && chunk == 1 && len(lops) > 0 {
		res.Sample = fmt.Sprintf("left = %s realised %d ways (e.g. %s [%s]) x right relations %d..%d x their realisations x 8 join operators, results re-examined afterwards, <&> results chained", core.Src(left.M), len(lops), lops[len(lops)-1].Path.Src, lops[len(lops)-1].Rep, lo, hi-1)
	}
}

// ---------------------------------------------------------------------------------------------
// nest / unnest / rank

var (
	c04UnnestSyntaxOnce sync.Once
	c04UnnestSyntax     bool
)

func c04HasUnnestSyntax() bool {
	c04UnnestSyntaxOnce.Do(func() {
		_, err := core.Compiled("x unnest n")
		c04UnnestSyntax = err == nil
	})
	return c04UnnestSyntax
}

func c04UnnestExpr(v rel.Value, attr string) core.Outcome {
	return core.Guard(func() (rel.Value, error) {
		e := rel.NewUnnestExpr(*parser.NewScanner(""), v, attr)
		return e.Eval(core.Ctx(), rel.EmptyScope)
	})
}

func c04UnnestFunc(v rel.Value, attr string) core.Outcome {
	return core.Guard(func() (rel.Value, error) {
		s, is := v.(rel.Set)
		if !is {
			return nil, fmt.Errorf("verif: not a set")
		}
		r, err := rel.Unnest(s, attr)
		if err != nil {
			return nil, err
		}
		return r, nil
	})
}

// unnestAll drives unnest through every reachable entry and judges each against want.
func (c *c04Ctx) unnestAll(entry string, v rel.Value, attr string, want MV, hz []string, desc string) {
	c.res.Evals += 2
	c.cnt["unnest:api-expr"]++
	c.judgeSet(entry, c04UnnestExpr(v, attr), want, hz, "rel.NewUnnestExpr("+desc+", "+attr+")")
	c.cnt["unnest:api-func"]++
	c.judgeSet(entry, c04UnnestFunc(v, attr), want, hz, "rel.Unnest("+desc+", "+attr+")")
	if c04HasUnnestSyntax() {
		c.res.Evals++
		c.cnt["unnest:syntax"]++
		c.judgeSet(entry, core.EvalT("x unnest "+attr, "x", v), want, hz, desc+" unnest "+attr)
	}
}

// conserve checks on the ACTUAL nest result that no row was lost or invented and keys are distinct.
func (c *c04Ctx) conserve(entry string, got MV, a MV, name string, hz []string, desc string) {
	sum := 0
	keys := map[string]bool{}
	dup := false
	for _, t := range got.S {
		if t.K != 't' {
			return
		}
		n, has := t.T[name]
		if !has || n.K != 's' {
			return
		}
		sum += len(n.S)
		km := map[string]MV{}
		for k, v := range t.T {
			if k != name {
				km[k] = v
			}
		}
		ke := core.Tup(km).Enc
		if keys[ke] {
			dup = true
		}
		keys[ke] = true
	}
	replay := map[string]string{"expr": desc}
	switch {
	case dup:
		c.j.report("C04.nest-conserve", entry, "duplicate-keys", "", "plain", hz, fmt.Sprintf("%s => %s: one key appears in two result rows", desc, core.Src(got)), replay)
	case sum < len(a.S):
		c.j.report("C04.nest-conserve", entry, "rows-lost", "", "plain", hz, fmt.Sprintf("%s => %s: nested sets hold %d rows, the relation has %d", desc, core.Src(got), sum, len(a.S)), replay)
	case sum > len(a.S):
		c.j.report("C04.nest-conserve", entry, "rows-invented", "", "plain", hz, fmt.Sprintf("%s => %s: nested sets hold %d rows, the relation has %d", desc, core.Src(got), sum, len(a.S)), replay)
	}
}

func c04NonEmptySubsets(h []string) [][]string {
	var out [][]string
	for _, s := range c04Subsets(h, len(h)) {
		if len(s) > 0 {
			out = append(out, s)
		}
	}
	return out
}

func c04Minus(h, k []string) []string {
	in := c04NameSet(k)
	var out []string
	for _, n := range h {
		if !in[n] {
			out = append(out, n)
		}
	}
	return out
}

// nestRankOne runs every nest / unnest / rank form on one live relation.
func (c *c04Ctx) nestRankOne(a c04Opnd, full bool) {
	h, ok := c04HeadingOf(a.Got)
	if !ok {
		return
	}
	src := a.Path.Src
	base := c04Hz(a.Got, a.Want)
	c.tag("nest-rep:" + a.GoType)
	if len(a.Got.S) == 0 || len(h) == 0 {
		// degenerate operands: {} stays {}; {()} has nothing to nest; rank still applies
		if len(a.Got.S) == 0 {
			c.res.Evals += 3
			c.judgeSet("nest", core.EvalT("x nest |a| n", "x", a.Val), core.MEmpty, base, src+" nest |a| n")
			c.judgeSet("nest-single", core.EvalT("x nest a", "x", a.Val), core.MEmpty, base, src+" nest a")
			c.judgeSet("rank", core.EvalT("x rank (r: .a)", "x", a.Val), core.MEmpty, base, src+" rank (r: .a)")
			c.cnt["nest-rank-degenerate"] += 3
		} else {
			c.res.Evals++
			sp := c04RankSpec{Src: "(r: 7)", Keys: map[string]func(MV) float64{"r": func(MV) float64 { return 7 }}}
			c.judgeSet("rank", core.EvalT("x rank (r: 7)", "x", a.Val), c04ModelRank(a.Got, sp), base, src+" rank (r: 7)")
			c.cnt["nest-rank-degenerate"]++
		}
		return
	}
	nestOne := func(entry, tmpl string, attrs []string, single bool, name string) {
		want := c04ModelNest(a.Got, attrs, name, single)
		hz := c04Hz(a.Got, a.Want, want)
		desc := strings.Replace(tmpl, "x ", src+" ", 1)
		c.res.Evals++
		c.cnt["nest:"+entry]++
		if c04Hazardous(hz) {
			c.cnt["nest-hazardous"]++
		} else {
			c.cnt["nest-hazard-free"]++
		}
		o := core.EvalT(tmpl, "x", a.Val)
		v, good := c.judgeSet(entry, o, want, hz, desc)
		if o.OK() {
			if got, pi := core.SafeDenote(o.Val); pi == nil && got.Enc != want.Enc {
				c.conserve(entry, got, a.Got, name, hz, desc)
			} else if pi == nil {
				c.cnt["nest-conserve-held"]++
			}
		}
		if single || !good || v == nil {
			return
		}
		// unnest inverts nest: on the LIVE nest result
		c.cnt["roundtrip"]++
		c.unnestAll("unnest.nest", v, name, a.Got, hz, "("+desc+")")
	}
	for _, n := range c04NonEmptySubsets(h) {
		nestOne("nest", "x nest |"+strings.Join(n, ", ")+"| n", n, false, "n")
		if len(n) >= 2 && full {
			rev := append([]string{}, n...)
			for p, q := 0, len(rev)-1; p < q; p, q = p+1, q-1 {
				rev[p], rev[q] = rev[q], rev[p]
			}
			nestOne("nest", "x nest |"+strings.Join(rev, ", ")+"| n", n, false, "n")
		}
		if k := c04Minus(h, n); len(k) > 0 { // inverse form: name the key, nest the complement
			nestOne("nest~", "x nest ~|"+strings.Join(k, ", ")+"| n", n, false, "n")
		}
	}
	for _, n := range h {
		nestOne("nest-single", "x nest "+n, []string{n}, true, n)
	}
	// unnest of independently built nested relations (not produced by nest), incl. an empty group
	for ni, n := range c04NonEmptySubsets(h) {
		if !full && ni%2 == 1 {
			continue
		}
		nested := c04ModelNest(a.Got, n, "n", false)
		extra := map[string]MV{"n": core.MEmpty}
		for _, k := range c04Minus(h, n) {
			extra[k] = num(9)
		}
		rows := append(append([]MV{}, nested.S...), core.Tup(extra))
		nm := mset(rows...)
		want, ok := c04ModelUnnest(nm, "n")
		if !ok {
			continue
		}
		hz := c04Hz(nm, want)
		if o := build(core.Src(nm)); o.OK() {
			if d, pi := core.SafeDenote(o.Val); pi == nil && d.Enc == nm.Enc {
				c.cnt["unnest-independent"]++
				c.unnestAll("unnest", o.Val, "n", want, hz, core.Src(nm))
			}
		}
		if v, built := c04ValCached(nm); built {
			if d, pi := core.SafeDenote(v); pi == nil && d.Enc == nm.Enc {
				c.cnt["unnest-independent"]++
				c.unnestAll("unnest", v, "n", want, hz, "<Go-API built "+core.Src(nm)+">")
			}
		}
	}
	// rank
	for si, sp := range c04RankSpecs(h) {
		if !full && si%2 == 1 && si > 2 {
			continue
		}
		want := c04ModelRank(a.Got, sp)
		hz := c04Hz(a.Got, a.Want, want)
		desc := src + " rank " + sp.Src
		c.res.Evals++
		c.cnt["rank"]++
		o := core.EvalT("x rank "+sp.Src, "x", a.Val)
		_, good := c.judgeSet("rank", o, want, hz, desc)
		if good {
			c.cnt["rank-held"]++
		}
		if sp.Ord == "" || !o.OK() {
			continue
		}
		// cross-check against orderby: the rank of a row is the first position of its key in the ordering
		c.res.Evals++
		oo := core.EvalT("x orderby "+sp.Ord, "x", a.Val)
		if !oo.OK() {
			c.cnt["orderby-unusable"]++
			continue
		}
		od, pi := core.SafeDenote(oo.Val)
		gd, pi2 := core.SafeDenote(o.Val)
		if pi != nil || pi2 != nil {
			c.cnt["orderby-unusable"]++
			continue
		}
		key := sp.Keys[sp.Ord1]
		seq := make([]MV, len(od.S))
		usable := len(od.S) == len(a.Got.S)
		for _, e := range od.S {
			at, item := e.T["@"], e.T["@item"]
			if e.K != 't' || at.K != 'n' || int(at.N) < 0 || int(at.N) >= len(seq) || item.K != 't' || !a.Got.Has(item) {
				usable = false
				break
			}
			seq[int(at.N)] = item
		}
		for p := 1; usable && p < len(seq); p++ {
			if seq[p].K != 't' || seq[p-1].K != 't' || key(seq[p]) < key(seq[p-1]) {
				usable = false
			}
		}
		if !usable {
			c.cnt["orderby-unusable"]++ // orderby's own correctness is C06's business
			continue
		}
		c.cnt["orderby-xcheck"]++
		for _, t := range gd.S {
			if t.K != 't' || t.T[sp.Ord1].K != 'n' {
				continue
			}
			first := -1
			for p, row := range seq {
				if key(row) == key(t) {
					first = p
					break
				}
			}
			if first >= 0 && float64(first) != t.T[sp.Ord1].N {
				c.j.report("C04.rank-orderby", "rank", "rank-disagrees-with-orderby", "", "plain", hz,
					fmt.Sprintf("%s gives %s rank %v, but the first row with that key stands at position %d of %s orderby %s", desc, core.Src(t), t.T[sp.Ord1].N, first, src, sp.Ord),
					map[string]string{"expr": desc})
				break
			}
		}
	}
}

func c04NestCase(cfg *core.Config, c *c04Ctx, i int) {
	models := c04Models(cfg)
	m := models[i]
	ops, _ := c04Operands(cfg, i)
	c.res.Key = "nest:" + m.M.Enc
	c.res.NonTrivial = len(m.M.S) > 1
	for _, a := range ops {
		c.nestRankOne(a, true)
		if len(a.Got.S) > 0 {
			c.res.SubKeys = append(c.res.SubKeys, "nest|"+a.Got.Enc+"|"+a.Rep)
		}
	}
	if i%11 == 0 && len(ops) > 0 {
		c.res.Sample = fmt.Sprintf("nest/unnest/rank: %s realised %d ways; every `nest |N| n`, `nest ~|K| n`, `nest a`, unnest of each nest result and of independently built nested relations, rank by every attribute with orderby cross-check", core.Src(m.M), len(ops))
	}
}

// ---------------------------------------------------------------------------------------------
// seeded random slice

var c04RandAlphabet = []string{"a", "b", "c", "@", "@item", "@char", "@value", "@byte"}

func c04RandHeading(r *core.Rng, max int) []string {
	n := r.Range(0, max)
	names := append([]string{}, c04RandAlphabet...)
	core.Shuffle(r, names)
	h := append([]string{}, names[:n]...)
	sort.Strings(h)
	return h
}

// c04RandOperand realises m through one randomly chosen construction path.
func c04RandOperand(r *core.Rng, m MV, h []string) (*c04Opnd, bool) {
	if r.Chance(1, 2) { // built through the Go API (no parser involved)
		if v, ok := c04ValCached(m); ok {
			o := c04NewOpnd(Operand{Want: m, Got: m, Val: v, OK: true, GoType: core.TypeName(v), Path: Path{"go-api", "<Go-API built " + core.Src(m) + ">"}})
			return &o, true
		}
	}
	ps := c04Paths(m, h)
	p := ps[r.Intn(len(ps))]
	op, _ := mkOperand(m, p)
	if !op.OK {
		return nil, false
	}
	if _, isRel := c04HeadingOf(op.Got); !isRel {
		return nil, false
	}
	if _, isSet := op.Val.(rel.Set); !isSet {
		return nil, false
	}
	o := c04NewOpnd(op)
	return &o, true
}

func c04RandomCase(cfg *core.Config, c *c04Ctx, k int) {
	r := core.NewRng(cfg.Seed, 4, uint64(k))
	c.res.Key = fmt.Sprintf("rand:%d:%d", cfg.Seed, k)
	c.res.NonTrivial = true
	n := cfg.Pick(12, 30)
	for t := 0; t < n; t++ {
		// choose a partition pattern first so that every pattern stays frequent
		all := append([]string{}, c04RandAlphabet...)
		core.Shuffle(r, all)
		nx, ny, nz := r.Range(0, 2), r.Range(0, 2), r.Range(0, 2)
		if r.Chance(1, 6) {
			nx, ny, nz = r.Range(0, 3), 0, r.Range(0, 3)
		}
		if nx+ny > 3 {
			nx = 3 - ny
		}
		if ny+nz > 3 {
			nz = 3 - ny
		}
		ha := append(append([]string{}, all[:nx]...), all[nx:nx+ny]...)
		hb := append(append([]string{}, all[nx:nx+ny]...), all[nx+ny:nx+ny+nz]...)
		sort.Strings(ha)
		sort.Strings(hb)
		am := c04RandModel(r, ha, nil)
		bm := c04RandModel(r, hb, &am)
		a, ok1 := c04RandOperand(r, am, ha)
		b, ok2 := c04RandOperand(r, bm, hb)
		if !ok1 || !ok2 {
			c.cnt["random-skipped"]++
			continue
		}
		c.tag("rep:" + a.GoType)
		var stored []c04Stored
		pr := c04NewPair(a, b)
		for _, op := range c04JoinOps {
			v, want, hz, good := c.joinOne(op, op, &pr)
			if good && v != nil {
				stored = append(stored, c04Stored{val: v, want: want, entry: op, hz: hz, a: a, b: b})
			}
			if len(a.Got.S) > 0 && len(b.Got.S) > 0 {
				c.res.SubKeys = append(c.res.SubKeys, fmt.Sprintf("%s|%x|%x", op, a.Hash, b.Hash))
			}
		}
		// a second right operand on the same live left one, then the history check
		cm := c04RandModel(r, c04RandHeading(r, 3), &am)
		if hc, ok := c04HeadingOf(cm); ok {
			if cc, ok := c04RandOperand(r, cm, hc); ok {
				pr2 := c04NewPair(a, cc)
				for _, op := range c04JoinOps {
					c.joinOne(op, op, &pr2)
				}
			}
		}
		c.reexamine(stored)
		if t%3 == 0 {
			c.nestRankOne(*a, false)
			c.nestRankOne(*b, false)
		}
		if t == 0 && k%8 == 0 {
			c.res.Sample = fmt.Sprintf("random: %s [%s]  op  %s [%s] for all 8 join operators, then nest/rank of both", a.Path.Src, a.Rep, b.Path.Src, b.Rep)
		}
	}
}

// ---------------------------------------------------------------------------------------------
// driver side: evidence and floors

func (c04) Finish(cfg *core.Config, agg *core.Aggregate) {
	tot := map[string]int{}
	for _, d := range agg.Data {
		var m map[string]int
		if json.Unmarshal(d.Data, &m) == nil {
			for k, v := range m {
				tot[k] += v
			}
		}
	}
	cells := map[string]int{"pos": 0, "gen": 0, "empty": 0}
	posmodes, outs, resugar := 0, []string{}, []string{}
	for k, v := range tot {
		switch {
		case strings.HasPrefix(k, "cell:"):
			cells[strings.SplitN(k, ":", 3)[1]]++
		case strings.HasPrefix(k, "posmode:"):
			posmodes++
			agg.Extra[k] = v
		case strings.HasPrefix(k, "out:"):
			outs = append(outs, fmt.Sprintf("%s=%d", k[4:], v))
		case strings.HasPrefix(k, "resugar:"):
			resugar = append(resugar, fmt.Sprintf("%s=%d", k[8:], v))
		case strings.HasPrefix(k, "nest:") || strings.HasPrefix(k, "unnest"):
			agg.Extra[k] = v
		}
	}
	sort.Strings(outs)
	sort.Strings(resugar)
	agg.Extra["join_evaluations"] = tot["join-evals"]
	agg.Extra["join_chain_evaluations"] = tot["chain-evals"]
	agg.Extra["join_hazard_free"] = tot["join-hazard-free"]
	agg.Extra["join_hazardous"] = tot["join-hazardous"]
	agg.Extra["join_result_nonempty"] = tot["join-result-nonempty"]
	agg.Extra["join_neither_empty_nor_full"] = tot["join-neither-empty-nor-full"]
	agg.Extra["op_x_partition_cells_positional_of_40"] = cells["pos"]
	agg.Extra["op_x_partition_cells_generic_of_64"] = cells["gen"]
	agg.Extra["positional_branches_of_5"] = posmodes
	agg.Extra["result_types"] = outs
	agg.Extra["resugared_results"] = resugar
	agg.Extra["left_relations_attrs_sorted"] = tot["left-attrs-sorted"]
	agg.Extra["left_relations_attrs_unsorted"] = tot["left-attrs-unsorted"]
	agg.Extra["results_reexamined_after_later_joins"] = tot["reexamined"]
	agg.Extra["nest_hazard_free"] = tot["nest-hazard-free"]
	agg.Extra["nest_hazardous"] = tot["nest-hazardous"]
	agg.Extra["nest_unnest_roundtrips"] = tot["roundtrip"]
	agg.Extra["unnest_independent_operands"] = tot["unnest-independent"]
	agg.Extra["rank_evaluations"] = tot["rank"]
	agg.Extra["rank_orderby_crosschecks"] = tot["orderby-xcheck"]
	agg.Extra["rank_orderby_unusable"] = tot["orderby-unusable"]
	agg.Extra["unnest_syntax_available"] = tot["unnest:syntax"] > 0
	agg.Extra["skipped_not_relations"] = tot["skipped-not-relations"]
	agg.Extra["model_selfchecks"] = tot["model-selfcheck"]

	floor := func(name string, got, min int) {
		if got < min {
			agg.Fail("coverage floor: %s = %d (< %d)", name, got, min)
		}
	}
	floor("join evaluations", tot["join-evals"], 100000)
	floor("operator x partition-pattern cells on the positional path (5 patterns with two non-empty headings x 8)", cells["pos"], 40)
	floor("operator x partition-pattern cells on the generic path", cells["gen"], 64)
	floor("positional join branches", posmodes, 5)
	floor("left Relation operands with unsorted internal attribute order", tot["left-attrs-unsorted"], 50)
	floor("results re-examined after later joins", tot["reexamined"], 50000)
	floor("chained joins", tot["chain-evals"], 10000)
	for _, k := range []string{"nest:nest", "nest:nest~", "nest:nest-single", "roundtrip", "unnest:api-expr", "unnest:api-func", "unnest-independent", "rank", "orderby-xcheck"} {
		floor(k, tot[k], 500)
	}
	for _, so := range []string{"item", "char", "value"} {
		n := 0
		for k, v := range tot {
			if strings.HasPrefix(k, "resugar:"+so+":") {
				n += v
			}
		}
		floor("results with heading {@,@"+so+"}", n, 20)
	}
	if hf, hz := tot["join-hazard-free"], tot["join-hazardous"]; hf*10 < (hf+hz)*6 {
		agg.Fail("coverage floor: only %d of %d join evaluations hazard-free (<60%%)", hf, hf+hz)
	}
	reps := 0
	for k := range agg.Cover {
		if strings.HasPrefix(k, "rep:") {
			reps++
		}
	}
	floor("operand Go representations", reps, 5)
}
