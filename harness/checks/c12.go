package checks

import (
	"bytes"
	"fmt"
	"regexp"
	"sort"
	"strconv"
	"strings"
	"sync"
	"time"

	"verif/core"

	"github.com/arr-ai/arrai/pkg/arrai"
	"github.com/arr-ai/arrai/rel"
)

// C12: printed values read back as the same value.
//
// Oracle (statement): for a data value v (all of whose numbers have a shortest decimal form under
// 15 characters) the text t that arr.ai prints for v (fu.Repr = shell echo, //str.repr, the
// non-raw branch of arrai.OutputValue = `arrai eval/run` output, the bundle config written by
// bundleConfig.String) is arr.ai source that evaluates to a value with the same denotation as v.
// Values are built by the real evaluator / host API through several construction paths, then
// printed live, both at top level and nested in containers (each container is itself a printed
// data value). Sections of the case list: model values, string contents (as string, bytes,
// attribute name, dict key, ...), numbers, bundle configs.

type c12 struct{}

func init() { core.Register(c12{}) }

func (c12) ID() string    { return "C12" }
func (c12) Level() string { return "exploration" }
func (c12) Rule() string {
	return "sections: (A) every core model value + C12 extras (nesting, offsets, holes, multi-valued keys, @neg, odd attribute names) + seeded random values, each realised through all construction paths (pathsFor) and printed at top level, inside 9 container contexts (array item, set member, tuple attribute, dict key/value, relation cell, mixed set, negated, sparse array) and after 4 operators (joins, =>, union) that produce other internal layouts; (B) string contents: every code point 0..0x2FF alone and between two letters, surrogate-adjacent/astral/format code points, all ordered pairs of 19 special characters, ~110 hand-picked escape look-alikes, seeded random strings; each realised by host API, spelled-out char tuples, raw double-quoted literal, concatenation, offsets and used as string, bytes, attribute name (tuple, relation heading), dict key/value, array item, set member; (C) numbers whose 'G' shortest form is < 15 chars (integers, decimal mantissa x exponent, dyadic fractions, extremes, negatives) printed singly, in arrays (batches) and in key/attribute/offset positions; (D) bundle configs for hostile module names / main paths through bundle.BundledScripts -> GetModuleFromBundle / EvaluateBundleCtx. A sub-case is distinct by (entry, context, Go representation, printed text); non-trivial when the value is not the empty set."
}
func (c12) Assumptions() []string {
	return []string{
		"equality of values is equality of denotations (Number.Float64 / Tuple.Enumerator / Set.Enumerator); -0 and 0 are the same number in arr.ai and are not distinguished",
		"precondition on numbers: len(strconv.FormatFloat(n,'G',-1,64)) < 15 for every number in the value (the threshold formatFloat64 uses); other values are skipped, not judged",
		"functions are not data; strings range over Unicode scalar values only (no lone surrogates, nothing above U+10FFFF); bytes are 0..255",
		"arrai.OutputValue prints top-level strings, byte arrays and the empty set raw by design; that branch is recorded, not judged",
		"a construction path whose result does not denote the intended model value is C01/C02's business; the value actually built is still printed and judged against its own denotation",
		"re-print stability (Repr(read(Repr(v))) = Repr(v)) is judged only as a consequence of the statement: when the text differs the second-generation text must still read back to v",
	}
}

// ---------------------------------------------------------------------------------------------
// plan

type c12Content struct {
	rs    []rune
	class string
	roles int // 0 light, 1 medium, 2 full
}

type c12Plan struct {
	models   []MV
	contents [][]c12Content // chunks
	nNum     int
	bundles  [][2]string // module name (or "\x00none"), relative main path
}

var (
	c12PlanMu sync.Mutex
	c12Plans  = map[string]*c12Plan{}
)

const (
	c12NumPerCase = 250
	c12NumBatch   = 50
)

func c12PlanFor(cfg *core.Config) *c12Plan {
	c12PlanMu.Lock()
	defer c12PlanMu.Unlock()
	k := cfg.Tier + "/" + strconv.FormatUint(cfg.Seed, 10)
	if p, ok := c12Plans[k]; ok {
		return p
	}
	p := &c12Plan{}
	p.models = append(coreValues(), c12ExtraValues()...)
	r := core.NewRng(cfg.Seed, 12, 1)
	for i, n := 0, cfg.Pick(70, 2500); i < n; i++ {
		if i%2 == 0 {
			p.models = append(p.models, randValue(r, i%5 < 3, 2))
			continue
		}
		m := c12RandValue(r, 3)
		for depth := 2; len(m.Enc) > 1500; depth-- { // keep single cases small (parse time is super-linear)
			m = c12RandValue(r, depth)
		}
		p.models = append(p.models, m)
	}
	p.contents = c12Contents(cfg)
	p.nNum = cfg.Pick(80, 800)
	p.bundles = c12Bundles(cfg)
	c12Plans[k] = p
	return p
}

// Shards: the thorough tier is cut into more worker processes than run at once, so that no
// single process comes near the driver's per-process watchdog on a loaded machine.
func (c12) Shards(cfg *core.Config) int {
	if cfg.Thorough() {
		return 4 * cfg.Workers
	}
	return cfg.Workers
}

func (c12) NumCases(cfg *core.Config) int {
	p := c12PlanFor(cfg)
	return len(p.models) + len(p.contents) + p.nNum + len(p.bundles)
}

// ---------------------------------------------------------------------------------------------
// judge

type c12J struct {
	res   *core.CaseResult
	seen  map[string]bool // violation signatures already reported in this case
	done  map[string]bool // (entry, ctx, go type, text) already judged in this case
	pairs map[string]int  // shape class x representation observed
	cps   map[rune]bool
	attrs map[string]int
	stat  map[string]int
}

func c12NewJ(res *core.CaseResult) *c12J {
	return &c12J{res: res, seen: map[string]bool{}, done: map[string]bool{}, pairs: map[string]int{},
		cps: map[rune]bool{}, attrs: map[string]int{}, stat: map[string]int{}}
}

type c12Data struct {
	Pairs map[string]int `json:"pairs,omitempty"`
	CPs   []int          `json:"cps,omitempty"`
	Attrs map[string]int `json:"attrs,omitempty"`
	Stat  map[string]int `json:"stat,omitempty"`
}

func (j *c12J) finish() {
	d := c12Data{Pairs: j.pairs, Attrs: j.attrs, Stat: j.stat}
	for c := range j.cps {
		d.CPs = append(d.CPs, int(c))
	}
	sort.Ints(d.CPs)
	j.res.Data = d
	if j.res.Evals == 0 {
		j.res.Evals = 1
	}
}

func (j *c12J) cover(tag string) { j.res.Cover = append(j.res.Cover, tag) }

func (j *c12J) viol(clause, entry, mode, site string, hz []string, delta, detail string, replay map[string]string) {
	sig := core.Signature{Clause: clause, Entry: entry, Mode: mode, Site: site, Hazards: hz, Delta: delta}
	k := sig.String()
	if j.seen[k] {
		return
	}
	j.seen[k] = true
	j.res.Viols = append(j.res.Viols, core.Violation{Sig: sig, Detail: detail, Replay: replay})
}

// c12NumOK is the precondition of the statement on one number.
func c12NumOK(f float64) bool {
	if f != f || f > 1.7976931348623157e308 || f < -1.7976931348623157e308 {
		return false
	}
	return len(strconv.FormatFloat(f, 'G', -1, 64)) < 15
}

func c12Precond(m MV) bool {
	switch m.K {
	case 'n':
		return c12NumOK(m.N)
	case 't':
		for _, v := range m.T {
			if !c12Precond(v) {
				return false
			}
		}
	case 's':
		for _, v := range m.S {
			if !c12Precond(v) {
				return false
			}
		}
	case 'f':
		return false
	}
	return true
}

// c12Leaf names the class of a differing member (delta vocabulary).
func c12Leaf(m MV) string {
	switch m.K {
	case 'n':
		return "num"
	case 'f':
		return "fn"
	case 't':
		if len(m.T) == 2 {
			if _, ok := m.T["@"]; ok {
				for _, p := range []string{"@char", "@byte", "@item", "@value"} {
					if _, ok := m.T[p]; ok {
						return p[1:]
					}
				}
			}
		}
		return "tuple"
	}
	return core.Classify(m)
}

// c12SeqLeaf refines the class of a differing sequence member by where it sits in the ORIGINAL
// set: a member missing from an index that holds several payloads ("@super"), or an extra filler
// (U+FFFD / 0) at an index that is a hole of the original ("@hole"). This is the attribution of
// the discrepancy to the hazard it stems from (DESIGN 5.2 "delta").
func c12SeqLeaf(e MV, isExtra bool, want MV) string {
	cls := c12Leaf(e)
	if cls != "char" && cls != "byte" && cls != "item" {
		return cls
	}
	payload := "@" + cls
	at := e.T["@"]
	if at.K != 'n' {
		return cls
	}
	n, lo, hi := 0, 0.0, 0.0
	first := true
	for _, w := range want.S {
		if w.K != 't' || len(w.T) != 2 {
			continue
		}
		if _, ok := w.T[payload]; !ok {
			continue
		}
		wa, ok := w.T["@"]
		if !ok || wa.K != 'n' {
			continue
		}
		if first || wa.N < lo {
			lo = wa.N
		}
		if first || wa.N > hi {
			hi = wa.N
		}
		first = false
		if wa.N == at.N {
			n++
		}
	}
	pv := e.T[payload]
	switch {
	case !isExtra && n >= 2:
		return cls + "@super"
	case isExtra && n == 0 && !first && at.N > lo && at.N < hi && pv.K == 'n' && (cls == "char" && pv.N == 0xFFFD || cls == "byte" && pv.N == 0):
		return cls + "-filler@hole"
	}
	return cls
}

// c12Diff descends to the innermost places where got and want differ and collects the labels of
// the differing leaves (so the delta does not depend on the container a value was printed in).
func c12Diff(got, want MV, out map[string]bool) {
	if got.Enc == want.Enc {
		return
	}
	if got.K != want.K || got.K == 'n' || got.K == 'f' {
		out["-"+c12Leaf(want)] = true
		out["+"+c12Leaf(got)] = true
		return
	}
	if got.K == 't' {
		if core.Heading(got) != core.Heading(want) {
			out["-"+c12Leaf(want)] = true
			out["+"+c12Leaf(got)] = true
			return
		}
		for k, w := range want.T {
			c12Diff(got.T[k], w, out)
		}
		return
	}
	var ms, es []MV
	for _, e := range want.S {
		if !got.Has(e) {
			ms = append(ms, e)
		}
	}
	for _, e := range got.S {
		if !want.Has(e) {
			es = append(es, e)
		}
	}
	// align differing members pairwise (both lists are in canonical order) and descend when every
	// pair is a pair of containers of the same kind; otherwise the members themselves are the leaves
	if len(ms) == len(es) && len(ms) > 0 {
		ok := true
		for i := range ms {
			if !c12Descend(es[i], ms[i]) {
				ok = false
			}
		}
		if ok {
			for i := range ms {
				c12Diff(es[i], ms[i], out)
			}
			return
		}
	}
	for _, m := range ms {
		out["-"+c12SeqLeaf(m, false, want)] = true
	}
	for _, e := range es {
		out["+"+c12SeqLeaf(e, true, want)] = true
	}
}

// c12Descend reports whether a differing pair of members should be diffed member-wise.
func c12Descend(a, b MV) bool {
	switch {
	case a.K == 's' && b.K == 's':
		return true
	case a.K == 't' && b.K == 't' && core.Heading(a) == core.Heading(b):
		switch c12Leaf(a) {
		case "tuple", "item", "value":
			return true
		}
	}
	return false
}

// c12Deltas returns the sorted labels of the differing leaves; each is reported as its own violation.
func c12Deltas(got, want MV) []string {
	set := map[string]bool{}
	c12Diff(got, want, set)
	out := make([]string, 0, len(set))
	for k := range set {
		out = append(out, k)
	}
	sort.Strings(out)
	return out
}

// c12Hazards is the shared model-level hazard vocabulary plus one C12-specific tag.
func c12Hazards(m MV) []string {
	hz := core.HazardList(m)
	if c12HasStarAttr(m) {
		hz = append(hz, "attr-star")
	}
	if c12NegNested(m, 0) {
		hz = append(hz, "neg-nested")
	}
	sort.Strings(hz)
	return hz
}

// c12NegNested: a tuple (@neg: (@neg: x)) occurs somewhere (its Kind() collides with x's kind).
func c12NegNested(m MV, depth int) bool {
	switch m.K {
	case 't':
		if v, ok := m.T["@neg"]; ok && len(m.T) == 1 {
			if depth >= 1 {
				return true
			}
			return c12NegNested(v, depth+1)
		}
		for _, v := range m.T {
			if c12NegNested(v, 0) {
				return true
			}
		}
	case 's':
		for _, v := range m.S {
			if c12NegNested(v, 0) {
				return true
			}
		}
	}
	return false
}

func c12HasStarAttr(m MV) bool {
	switch m.K {
	case 't':
		for k, v := range m.T {
			if k == "*" || c12HasStarAttr(v) {
				return true
			}
		}
	case 's':
		for _, v := range m.S {
			if c12HasStarAttr(v) {
				return true
			}
		}
	}
	return false
}

var c12ReDigits = strings.NewReplacer("0", "N", "1", "N", "2", "N", "3", "N", "4", "N", "5", "N", "6", "N", "7", "N", "8", "N", "9", "N")

var c12ReQuoted = regexp.MustCompile(`"[^"]*"|'[^']*'`)

// c12ErrClass reduces an error to a seed-stable class (text before the first ':' / newline).
func c12ErrClass(err error) string {
	s := core.ErrText(err)
	if i := strings.IndexAny(s, ":\n"); i >= 0 {
		s = s[:i]
	}
	s = c12ReQuoted.ReplaceAllString(s, "<q>") // names / keys quoted in the message are case data
	s = c12ReDigits.Replace(strings.TrimSpace(s))
	if len(s) > 48 {
		s = s[:48]
	}
	return s
}

func c12Clip(s string) string {
	if len(s) > 300 {
		return s[:300] + "…"
	}
	return s
}

// readBack evaluates printed text and compares with the denotation of the printed value.
// Returns the value read (nil if none).
func (j *c12J) readBack(entry, text string, want MV, hz []string, origin string) rel.Value {
	j.res.Evals++
	j.stat["texts-read"]++
	o := core.EvalSrc(text)
	rep := map[string]string{"origin": origin, "printed": text, "entry": entry}
	switch {
	case o.Panic != nil:
		j.viol("C12.readback", entry, "read-panic", o.Panic.Sig(), hz, "",
			fmt.Sprintf("%s printed %s ; reading it back panics: %s", origin, c12Clip(strconv.Quote(text)), o.Panic.Msg), rep)
		return nil
	case o.Err != nil:
		j.viol("C12.readback", entry, "read-error", "", hz, c12ErrClass(o.Err),
			fmt.Sprintf("%s printed %s ; reading it back fails: %s", origin, c12Clip(strconv.Quote(text)), core.ErrText(o.Err)), rep)
		return nil
	}
	got, pi := core.SafeDenote(o.Val)
	if pi != nil {
		j.viol("C12.readback", entry, "read-panic", pi.Sig(), hz, "",
			fmt.Sprintf("%s printed %s ; enumerating the value read back panics: %s", origin, c12Clip(strconv.Quote(text)), pi.Msg), rep)
		return nil
	}
	if got.Enc != want.Enc {
		for _, delta := range c12Deltas(got, want) {
			j.viol("C12.readback", entry, "wrong-value", "", hz, delta,
				fmt.Sprintf("%s printed %s ; read back as %s, original is %s", origin, c12Clip(strconv.Quote(text)), c12Clip(core.Src(got)), c12Clip(core.Src(want))), rep)
		}
		return nil
	}
	return o.Val
}

// value judges one live value through the printing entries. ctx names the container context
// ("" for top level); all=true also runs //str.repr and OutputValue.
func (j *c12J) value(v rel.Value, ctx, origin string, all bool) (fresh bool) {
	d, pi := core.SafeDenote(v)
	if pi != nil {
		j.cover("skip:denote-panic")
		return false
	}
	if !c12Precond(d) {
		j.cover("skip:precondition")
		return false
	}
	hz := c12Hazards(d)
	gt := core.TypeName(v)
	text, pi := core.Repr(v)
	entry := "fu.Repr"
	if ctx != "" {
		entry += "[" + ctx + "]"
	}
	if pi != nil {
		j.viol("C12.print", entry, "print-panic", pi.Sig(), hz, "", fmt.Sprintf("%s: printing panics: %s", origin, pi.Msg), map[string]string{"origin": origin})
		return true
	}
	key := entry + "|" + gt + "|" + text
	if j.done[key] {
		return false
	}
	j.done[key] = true
	if j.fmtPanic(entry, text, hz, origin, v) {
		j.stat["values-printed"]++
		return true
	}
	cls := core.Classify(d)
	j.pairs[cls+" x "+gt]++
	j.stat["values-printed"]++
	if len(hz) == 0 {
		j.stat["hazard-free"]++
	}
	if len(d.S) > 0 || d.K != 's' {
		j.res.SubKeys = append(j.res.SubKeys, key)
	}
	j.cover("entry:fu.Repr")
	if ctx != "" {
		j.cover("ctx:" + ctx)
	}
	v2 := j.readBack(entry, text, d, hz, origin)
	if v2 != nil {
		if t2, pi := core.Repr(v2); pi == nil && t2 != text {
			// equal values that print differently: the statement still requires the second text to read back
			j.cover("reprint-differs")
			j.cover("reprint-differs:" + cls + " x " + gt + " -> " + core.TypeName(v2))
			if j.fmtPanic(entry+"/2nd-generation", t2, hz, origin+" (re-printed after reading "+c12Clip(strconv.Quote(text))+")", v2) {
				return true
			}
			j.readBack(entry+"/2nd-generation", t2, d, hz, origin+" (re-printed after reading "+c12Clip(strconv.Quote(text))+")")
		} else if pi != nil {
			j.viol("C12.print", entry+"/2nd-generation", "print-panic", pi.Sig(), hz, "", fmt.Sprintf("%s: printing the value read back panics: %s", origin, pi.Msg), map[string]string{"origin": origin, "printed": text})
		}
	}
	if !all {
		return true
	}
	// //str.repr evaluated in arr.ai
	j.res.Evals++
	o := core.EvalT("//str.repr(x)", "x", v)
	j.cover("entry://str.repr")
	switch {
	case o.Panic != nil:
		j.viol("C12.print", "//str.repr", "print-panic", o.Panic.Sig(), hz, "", origin+": //str.repr panics: "+o.Panic.Msg, map[string]string{"origin": origin})
	case o.Err != nil:
		j.viol("C12.print", "//str.repr", "print-error", "", hz, c12ErrClass(o.Err), origin+": //str.repr fails: "+core.ErrText(o.Err), map[string]string{"origin": origin})
	default:
		sd, pi := core.SafeDenote(o.Val)
		s, ok := "", false
		if pi == nil {
			s, ok = c12ModelString(sd)
		}
		switch {
		case !ok:
			j.viol("C12.print", "//str.repr", "not-a-string", "", hz, "", origin+": //str.repr did not return a string: "+c12Clip(outcomeText(o)), map[string]string{"origin": origin})
		case s == text:
			j.stat["str.repr-same-text"]++
		default:
			j.stat["str.repr-other-text"]++
			j.readBack("//str.repr", s, d, hz, origin)
		}
	}
	// arrai.OutputValue (arrai eval / run)
	j.res.Evals++
	var buf bytes.Buffer
	oo := core.Guard(func() (rel.Value, error) { return rel.None, arrai.OutputValue(core.Ctx(), v, &buf, "") })
	j.cover("entry:OutputValue")
	out := buf.String()
	switch {
	case oo.Panic != nil:
		j.viol("C12.print", "OutputValue", "print-panic", oo.Panic.Sig(), hz, "", origin+": OutputValue panics: "+oo.Panic.Msg, map[string]string{"origin": origin})
	case oo.Err != nil:
		j.viol("C12.print", "OutputValue", "print-error", "", hz, c12ErrClass(oo.Err), origin+": OutputValue fails: "+core.ErrText(oo.Err), map[string]string{"origin": origin})
	case out == text+"\n":
		j.stat["output-same-text"]++
	case strings.HasPrefix(cls, "str") || strings.HasPrefix(cls, "bytes") || cls == "empty":
		j.stat["output-raw-branch"]++ // strings / bytes / {} are written raw by design: not judged
	default:
		j.stat["output-other-text"]++
		j.readBack("OutputValue", strings.TrimSuffix(out, "\n"), d, hz, origin)
	}
	return true
}

// fmtPanic reports a Format method that panicked: package fmt recovers such panics and writes a
// %!v(PANIC=...) marker into the output instead. Printing a set / dict / relation orders its
// members with Value.Less; if ordering the members of v directly (same API, outside fmt) panics,
// the violation is attributed to that Less frame, otherwise the site is the bare message.
func (j *c12J) fmtPanic(entry, text string, hz []string, origin string, v rel.Value) bool {
	k := strings.Index(text, "%!v(PANIC=")
	if k < 0 {
		return false
	}
	msg := strings.TrimPrefix(text[k+len("%!v(PANIC="):], "Format method: ")
	if e := strings.IndexByte(msg, ')'); e >= 0 {
		msg = msg[:e]
	}
	site := c12ReDigits.Replace(msg)
	if len(site) > 90 {
		site = site[:90]
	}
	budget := 4000
	if pi := c12LessPanic(v, &budget); pi != nil {
		site = "ordering members (Value.Less) panics @ " + pi.Site + ": " + pi.Class
	}
	j.viol("C12.print", entry, "print-panic", site, hz, "",
		fmt.Sprintf("%s: a Format method panicked while printing (recovered by package fmt): output is %s", origin, c12Clip(strconv.Quote(text))), map[string]string{"origin": origin, "printed": text})
	return true
}

// c12LessPanic orders the members of every set inside v pairwise with Value.Less, the way the
// printers do, and returns the first panic.
func c12LessPanic(v rel.Value, budget *int) (pi *core.PanicInfo) {
	switch x := v.(type) {
	case rel.Tuple:
		for e := x.Enumerator(); e.MoveNext(); {
			_, a := e.Current()
			if pi := c12LessPanic(a, budget); pi != nil {
				return pi
			}
		}
	case rel.Set:
		if core.IsFn(v) {
			return nil
		}
		var ms []rel.Value
		func() {
			defer func() { _ = recover() }()
			for e := x.Enumerator(); e.MoveNext() && len(ms) < 64; {
				ms = append(ms, e.Current())
			}
		}()
		for _, m := range ms {
			if pi := c12LessPanic(m, budget); pi != nil {
				return pi
			}
		}
		for _, a := range ms {
			for _, b := range ms {
				if *budget <= 0 {
					return nil
				}
				*budget--
				if pi := func() (pi *core.PanicInfo) {
					defer func() {
						if r := recover(); r != nil {
							pi = core.NewPanicInfo(r)
						}
					}()
					a.Less(b)
					return nil
				}(); pi != nil {
					return pi
				}
			}
		}
	}
	return nil
}

// c12ModelString decodes a denotation that is a gap-free string at offset 0.
func c12ModelString(m MV) (string, bool) {
	if m.K != 's' {
		return "", false
	}
	if len(m.S) == 0 {
		return "", true
	}
	si := core.SeqShape(m, "@char")
	if si.N != len(m.S) || si.Lo != 0 || si.Holes || si.Super || si.NonInt {
		return "", false
	}
	rs := make([]rune, si.N)
	for _, e := range m.S {
		c := e.T["@char"]
		if c.K != 'n' {
			return "", false
		}
		rs[int(e.T["@"].N)] = rune(c.N)
	}
	return string(rs), true
}

// container contexts: templates with the live value bound to x.
var c12Ctxs = []struct{ name, tmpl string }{
	{"array-item", "[x]"},
	{"set-member", "{x}"},
	{"tuple-attr", "(a: x)"},
	{"dict-key", "{x: 1}"},
	{"dict-value", "{1: x}"},
	{"relation-cell", "{(a: x, b: 1), (a: x, b: 2)}"},
	{"mixed-set", "{x, 1, (k: x)}"},
	{"negated", "-x"},
	{"sparse-array", "[x, , x]"},
}

// inContexts prints v nested in each container (built by the evaluator from the live value).
func (j *c12J) inContexts(v rel.Value, origin string, which []int) {
	for _, ci := range which {
		c := c12Ctxs[ci]
		o := core.EvalT(c.tmpl, "x", v)
		if !o.OK() {
			j.cover("skip:ctx-construct-fail:" + c.name)
			continue
		}
		j.value(o.Val, c.name, c.tmpl+" where x = "+origin, false)
	}
}

// derived values: results of operators applied to the live value (other internal layouts of
// relations: join output keeps the operands' column order, => rebuilds through the set builder).
var c12Derived = []struct{ name, tmpl string }{
	{"join-right", "x <&> {|aa| (1)}"},
	{"join-left", "{|zz| (1), (2)} <&> x"},
	{"map-wrap", "x => (k: ., j: 1)"},
	{"union-self-shift", "x | (x => (w: .))"},
}

func (j *c12J) derived(v rel.Value, origin string) {
	if _, ok := v.(rel.Set); !ok || core.IsFn(v) {
		return
	}
	for _, c := range c12Derived {
		o := core.EvalT(c.tmpl, "x", v)
		if !o.OK() {
			j.cover("skip:derived-fail:" + c.name)
			continue
		}
		j.cover("derived:" + c.name)
		j.value(o.Val, "", c.tmpl+" where x = "+origin, false)
	}
}

var (
	c12AllCtx    = []int{0, 1, 2, 3, 4, 5, 6, 7, 8}
	c12MediumCtx = []int{0, 2, 3, 5}
	c12LightCtx  = []int{0}
)

// ---------------------------------------------------------------------------------------------
// RunCase

func (c12) RunCase(cfg *core.Config, i int) core.CaseResult {
	p := c12PlanFor(cfg)
	res := core.CaseResult{}
	j := c12NewJ(&res)
	t0 := time.Now()
	switch {
	case i < len(p.models):
		c12ModelCase(j, p.models[i], i)
	case i < len(p.models)+len(p.contents):
		c12ContentCase(j, p.contents[i-len(p.models)], i)
	case i < len(p.models)+len(p.contents)+p.nNum:
		c12NumberCase(cfg, j, i-len(p.models)-len(p.contents), i)
	default:
		c12BundleCase(j, p.bundles[i-len(p.models)-len(p.contents)-p.nNum], i)
	}
	sec := "model"
	switch {
	case i >= len(p.models)+len(p.contents)+p.nNum:
		sec = "bundle"
	case i >= len(p.models)+len(p.contents):
		sec = "number"
	case i >= len(p.models):
		sec = "content"
	}
	j.stat["evals:"+sec] += res.Evals
	j.stat["cpu-ms:"+sec] += int(time.Since(t0).Milliseconds())
	j.finish()
	return res
}

func c12ModelCase(j *c12J, m MV, i int) {
	j.res.Key = "model:" + m.Enc
	j.res.NonTrivial = !(m.K == 's' && len(m.S) == 0)
	j.cover("section:model")
	for _, p := range pathsFor(m) {
		if len(p.Src) > 500 && p.Kind != "spelled" && p.Kind != "sugar" {
			j.cover("skip:path-program-too-long") // the wbnf parser is super-linear on deeply nested programs
			continue
		}
		op, _ := mkOperand(m, p)
		if !op.OK {
			j.cover("skip:construct-fail")
			continue
		}
		if op.Got.Enc != m.Enc {
			j.cover("construct-other-denotation") // C01/C02's finding; the value built is still judged
		}
		j.cover("path:" + p.Kind)
		origin := p.Src
		if j.value(op.Val, "", origin, true) {
			j.inContexts(op.Val, origin, c12AllCtx)
			j.derived(op.Val, origin)
		}
	}
	if i%7 == 0 {
		s, _ := sugarSrc(m)
		j.res.Sample = fmt.Sprintf("model value %s through %d construction paths x (top level + %d containers) x (fu.Repr, //str.repr, OutputValue)", c12Clip(s), len(pathsFor(m)), len(c12Ctxs))
	}
}
