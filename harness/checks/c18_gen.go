package checks

import (
	"fmt"
	"sort"
	"strings"

	"verif/core"
)

// C18 program generator: sandbox configurations x escape routes x targets x forms.
// Pure string manipulation (no arrai calls) so that driver, worker and traced child derive the
// identical list from (tier, seed).

// placeholders substituted by the traced child (the scratch directory is only known at run time)
const (
	c18PhHome = "@C18HOME@" // absolute path of the $HOME canary
	c18PhURL  = "@C18URL@"  // loopback URL (nothing listens; the connect attempt is the event)
	c18URL    = "http://127.0.0.1:9/c18"
)

// c18Cfg is one sandbox configuration. Src is arr.ai source evaluated in the HOST scope (full
// library); "" means the default entry point //eval.eval (safe library, empty scope).
type c18Cfg struct {
	ID  string
	Src string
}

var c18NamedCfgs = []c18Cfg{
	{"default", ""},
	{"empty", `()`},
	{"scope-x", `(scope: (x: 1))`},
	{"lib-none", `(stdlib: ())`},
	{"lib-seq", `(stdlib: (seq: //seq))`},
	{"lib-seq-fn-eval", `(stdlib: (seq: //seq, fn: //fn, eval: //eval))`},
	{"lib-seq-fn-evalnovalue", `(stdlib: (seq: //seq, fn: //fn, eval: //eval.~|value|))`},
	{"lib-safe", `(stdlib: //std.safe)`},
	{"lib-safe-strict", `(stdlib: //std.safe.~|deprecated, eval|)`},
	{"lib-os-full", `(stdlib: (os: //os, fn: //fn))`},
	{"lib-osnofile-net", `(stdlib: (os: //os.~|file|, net: //net))`},
	{"lib-exec-seq", `(stdlib: (deprecated: //deprecated, seq: //seq))`},
	{"lib-seq+scope-file", `(stdlib: (seq: //seq), scope: (f: //os.file))`},
	{"lib-fn-seq+scope-call", `(stdlib: (fn: //fn, seq: //seq), scope: (call: \f \x f(x), x: 1))`},
	{"lib-safe-strict+scope-net", `(stdlib: //std.safe.~|deprecated, eval|, scope: (lib: //net))`},
}

// the 6-member library of DESIGN §7 C18: every sub-tuple is a configuration
var c18SubMembers = []string{"os", "net", "deprecated", "eval", "seq", "fn"}

func c18SubsetCfgs() []c18Cfg {
	var out []c18Cfg
	for m := 0; m < 1<<len(c18SubMembers); m++ {
		var ids, parts []string
		for b, name := range c18SubMembers {
			if m&(1<<b) != 0 {
				ids = append(ids, name)
				parts = append(parts, name+": //"+name)
			}
		}
		for _, sc := range []struct{ id, src string }{{"", ""}, {"+x", ", scope: (x: 1)"}} {
			out = append(out, c18Cfg{ID: "sub:" + strings.Join(ids, "+") + sc.id,
				Src: "(stdlib: (" + strings.Join(parts, ", ") + ")" + sc.src + ")"})
		}
	}
	return out
}

// c18Target is what the sandboxed source tries to reach.
type c18Target struct {
	ID     string
	Ref    string   // source of the reference
	Args   []string // arguments of the "apply" forms (Ref(a0, a1, …)); nil => not a function target
	Routes []string // escape mechanisms inherent in the reference (import syntax)
	Path   string   // library path when Ref is a plain //a.b.c reference
	Name   string   // scope name when Ref is a plain identifier
}

var c18Targets = []c18Target{
	{ID: "file", Ref: `//os.file`, Args: []string{`"` + c18PhHome + `"`}, Path: "os.file"},
	{ID: "file-cwd", Ref: `//os.file`, Args: []string{`"canary_cwd.txt"`}, Path: "os.file"},
	{ID: "get", Ref: `//net.http.get`, Args: []string{`()`, `"` + c18PhURL + `"`}, Path: "net.http.get"},
	{ID: "post", Ref: `//net.http.post`, Args: []string{`()`, `"` + c18PhURL + `"`, `"b"`}, Path: "net.http.post"},
	{ID: "exec", Ref: `//deprecated.exec`, Args: []string{`["true"]`}, Path: "deprecated.exec"},
	{ID: "safe.file", Ref: `//std.safe.os.file`, Args: []string{`"` + c18PhHome + `"`}, Path: "std.safe.os.file"},
	{ID: "safe.exec", Ref: `//std.safe.deprecated.exec`, Args: []string{`["true"]`}, Path: "std.safe.deprecated.exec"},
	{ID: "join", Ref: `//seq.join`, Args: []string{`","`, `["a", "b"]`}, Path: "seq.join"},
	{ID: "os", Ref: `//os`, Path: "os"},
	{ID: "net", Ref: `//net`, Path: "net"},
	{ID: "net.http", Ref: `//net.http`, Path: "net.http"},
	{ID: "deprecated", Ref: `//deprecated`, Path: "deprecated"},
	{ID: "eval", Ref: `//eval`, Path: "eval"},
	{ID: "nosuch", Ref: `//c18nosuch`, Path: "c18nosuch"},
	{ID: "scope-x", Ref: `x`, Name: "x"},
	{ID: "host-bound", Ref: `hostBound`, Name: "hostBound"},
	{ID: "host-local", Ref: `hostLocal`, Name: "hostLocal"},
	{ID: "scope-f", Ref: `f`, Args: []string{`"` + c18PhHome + `"`}, Name: "f"},
	{ID: "scope-lib", Ref: `lib.http.get`, Args: []string{`()`, `"` + c18PhURL + `"`}, Name: "lib"},
	{ID: "imp-arrai", Ref: `//{./canary_cwd}`, Routes: []string{"route:import-local"}},
	{ID: "imp-json", Ref: `//{./canary_cwd.json}`, Routes: []string{"route:import-local"}},
	{ID: "imp-txt", Ref: `//{./canary_cwd.txt}`, Routes: []string{"route:import-local"}},
	{ID: "imp-dec", Ref: `//[//encoding.bytes]{./canary_cwd.txt}`, Routes: []string{"route:import-local"}},
	{ID: "imp-root", Ref: `//{/canary_root}`, Routes: []string{"route:import-local"}},
	{ID: "imp-script", Ref: `//{./canary_script}`, Routes: []string{"route:import-local"}},
	{ID: "imp-up", Ref: `//{./../home/canary_home.txt}`, Routes: []string{"route:import-local"}},
	{ID: "imp-module", Ref: `//{github.com/c18none/x}`, Routes: []string{"route:import-module"}},
	{ID: "imp-url", Ref: `//{http://127.0.0.1:9/c18.arrai}`, Routes: []string{"route:import-url"}},
}

func c18TargetByID(id string) c18Target {
	for _, t := range c18Targets {
		if t.ID == id {
			return t
		}
	}
	panic("c18: unknown target " + id)
}

// forms: how the sandboxed source uses the target, and what the host does with the result
//
//	get        sandbox returns Ref                         host: keeps it
//	apply      sandbox evaluates Ref(args)                 host: keeps the result
//	later      sandbox returns \u Ref(args)                host: calls it with 0 afterwards
//	host-apply sandbox returns Ref                         host: calls it with args afterwards
//	get-bytes / apply-bytes: as get / apply, but the source is passed to the sandbox as a byte array
var c18FnForms = []string{"get", "apply", "later", "host-apply", "get-bytes", "apply-bytes"}

func c18Call(ref string, args []string) string { return ref + "(" + strings.Join(args, ", ") + ")" }

// c18Q renders s as an arr.ai double-quoted string literal.
func c18Q(s string) string {
	return `"` + strings.ReplaceAll(strings.ReplaceAll(s, `\`, `\\`), `"`, `\"`) + `"`
}

// c18Wrap is one indirection applied around an expression inside the sandbox.
type c18Wrap struct {
	ID     string
	Routes []string
	F      func(e string, p *c18Prog) string
}

const c18MacroHead = `(@grammar: {://grammar.lang.wbnf: a -> 'x'; :}, @transform: (a: \ast `

// escape routes (each evaluates e through a mechanism that may resolve `//` on its own) …
var c18Routes = []c18Wrap{
	{ID: "direct", F: func(e string, _ *c18Prog) string { return e }},
	{ID: "value", Routes: []string{"route:eval.value"}, F: func(e string, _ *c18Prog) string { return `//eval.value(` + c18Q(e) + `)` }},
	{ID: "value-bytes", Routes: []string{"route:eval.value"}, F: func(e string, _ *c18Prog) string {
		if strings.ContainsAny(e, "'\\") {
			return `//eval.value(` + c18Q(e) + `)`
		}
		return `//eval.value(<<'` + e + `'>>)`
	}},
	{ID: "nested-eval", F: func(e string, _ *c18Prog) string { return `//eval.eval(` + c18Q(e) + `)` }},
	{ID: "nested-evaluator", F: func(e string, _ *c18Prog) string {
		return `//eval.evaluator((stdlib: //std.safe)).eval(` + c18Q(e) + `)`
	}},
	{ID: "macro", Routes: []string{"route:macro"}, F: func(e string, _ *c18Prog) string {
		return `{:` + c18MacroHead + e + `)):x:}`
	}},
	{ID: "macro-let", Routes: []string{"route:macro"}, F: func(e string, _ *c18Prog) string {
		return `let m = ` + c18MacroHead + e + `)); {:m:x:}`
	}},
	{ID: "import-code", Routes: []string{"route:import-code"}, F: func(e string, p *c18Prog) string {
		name := fmt.Sprintf("lib_%016x", core.Hash64(e))
		if p.Files == nil {
			p.Files = map[string]string{}
		}
		p.Files[name+".arrai"] = e
		return `//{./` + name + `}`
	}},
}

// … and benign wrappers (ordinary language constructs; no route of their own)
var c18Benign = []c18Wrap{
	{ID: "let", F: func(e string, _ *c18Prog) string { return `let v = ` + e + `; v` }},
	{ID: "tuple", F: func(e string, _ *c18Prog) string { return `(a: ` + e + `).a` }},
	{ID: "array", F: func(e string, _ *c18Prog) string { return `[` + e + `](0)` }},
	{ID: "closure", F: func(e string, _ *c18Prog) string { return `(\u ` + e + `)(0)` }},
	{ID: "cond", F: func(e string, _ *c18Prog) string { return `cond 1 {1: ` + e + `}` }},
	{ID: "arrow", F: func(e string, _ *c18Prog) string { return `(` + e + `) -> .` }},
	{ID: "fix", F: func(e string, _ *c18Prog) string {
		return `//fn.fix(\self \n cond n {0: ` + e + `, _: self(n - 1)})(2)`
	}},
	{ID: "scope-call", F: func(e string, _ *c18Prog) string { return `call(\u ` + e + `)(0)` }},
}

func c18WrapByID(id string) c18Wrap {
	for _, w := range c18Routes {
		if w.ID == id {
			return w
		}
	}
	for _, w := range c18Benign {
		if w.ID == id {
			return w
		}
	}
	panic("c18: unknown wrapper " + id)
}

// c18Prog is one sandbox program: host calls SANDBOX(Src) and then applies Host.
type c18Prog struct {
	Cfg    c18Cfg
	Target string
	Form   string
	Chain  []string // wrapper ids, outermost first
	Src    string   // sandboxed source (placeholders unsubstituted)
	Host   string   // host template over c18sb (sandbox function) and c18src (source string)
	Routes []string // sorted union of escape mechanisms syntactically present
	Direct string   // library path (or "name:<ident>") when Src is a plain reference; "" otherwise
	Files  map[string]string
}

func (p *c18Prog) Key() string {
	return p.Cfg.ID + "|" + strings.Join(p.Chain, ">") + "|" + p.Target + "|" + p.Form
}

// c18Build composes a program. chain is applied innermost-last: chain[0] is the outermost wrapper.
func c18Build(cfg c18Cfg, chain []string, target, form string) c18Prog {
	t := c18TargetByID(target)
	p := c18Prog{Cfg: cfg, Target: target, Form: form, Chain: chain, Host: `c18sb(c18src)`}
	routes := map[string]bool{}
	for _, r := range t.Routes {
		routes[r] = true
	}
	e := t.Ref
	switch form {
	case "apply":
		e = c18Call(t.Ref, t.Args)
	case "get-bytes":
		p.Host = `c18sb(c18srcb)`
	case "apply-bytes":
		e = c18Call(t.Ref, t.Args)
		p.Host = `c18sb(c18srcb)`
	case "later":
		e = `\u ` + c18Call(t.Ref, t.Args)
		p.Host = `c18sb(c18src)(0)`
	case "host-apply":
		p.Host = c18Call(`c18sb(c18src)`, t.Args)
	}
	if target == "host-local" {
		p.Host = `let hostLocal = 4242; ` + p.Host
	}
	for i := len(chain) - 1; i >= 0; i-- {
		w := c18WrapByID(chain[i])
		// a "later" closure must stay the outermost value: wrappers that call (0) on it still return it
		e = w.F(e, &p)
		for _, r := range w.Routes {
			routes[r] = true
		}
	}
	p.Src = e
	for r := range routes {
		p.Routes = append(p.Routes, r)
	}
	sort.Strings(p.Routes)
	if form == "get" && len(p.Routes) == 0 && (len(chain) == 0 || (len(chain) == 1 && chain[0] == "direct")) {
		if t.Path != "" {
			p.Direct = t.Path
		} else if t.Name != "" {
			p.Direct = "name:" + t.Name
		}
	}
	return p
}

func c18FormsOf(t c18Target) []string {
	if t.Args != nil {
		return c18FnForms
	}
	return []string{"get", "get-bytes"}
}

var c18ProgCache = map[string][]c18Prog{}

var c18ModuleCfgs = map[string]bool{"default": true, "lib-none": true, "lib-exec-seq": true, "lib-osnofile-net": true}

// c18Programs is the deterministic program list of (tier, seed): core corpus first, then the
// seeded random slice.
func c18Programs(cfg *core.Config) []c18Prog {
	ck := fmt.Sprintf("%s/%d", cfg.Tier, cfg.Seed)
	if ps, ok := c18ProgCache[ck]; ok {
		return ps
	}
	var ps []c18Prog
	cfgs := append([]c18Cfg{}, c18NamedCfgs...)
	subs := c18SubsetCfgs()
	if cfg.Thorough() {
		cfgs = append(cfgs, subs...)
	}
	// quick tier: the direct route is always complete; the other (route, target, form) cells are a
	// seeded 40 % sample (thorough: everything)
	smp := core.NewRng(cfg.Seed, 18, 4242)
	keep := func(always bool) bool { return always || cfg.Thorough() || smp.Chance(1, 4) }
	// core 1: every configuration x every route x every target x every form
	for _, c := range cfgs {
		for _, w := range c18Routes {
			if strings.HasPrefix(c.ID, "sub:") && (w.ID == "value-bytes" || w.ID == "macro-let" || w.ID == "nested-evaluator") {
				continue // variants of value / macro / nested-eval: named configurations only
			}
			for _, t := range c18Targets {
				for _, f := range c18FormsOf(t) {
					if strings.HasSuffix(f, "-bytes") && w.ID != "direct" && w.ID != "nested-eval" {
						continue // byte-array sources: direct and nested-eval routes
					}
					if strings.HasPrefix(c.ID, "sub:") && (f == "later" || f == "host-apply") {
						continue // the two deferred-call forms: named configurations only
					}
					if f == "host-apply" && (w.ID == "nested-eval" || w.ID == "nested-evaluator" || w.ID == "value-bytes" || w.ID == "macro-let") {
						continue
					}
					if strings.HasPrefix(t.ID, "imp-") && (w.ID == "value-bytes" || w.ID == "macro-let") {
						continue
					}
					if t.ID == "imp-module" { // each one spawns the go tool (~0.3 s)
						if !cfg.Thorough() && !c18ModuleCfgs[c.ID] {
							continue // quick tier keeps four configurations
						}
						if strings.HasPrefix(c.ID, "sub:") && !smp.Chance(1, 8) {
							continue // thorough: all named configurations + 1/8 of the sub-tuple ones
						}
					}
					if keep(w.ID == "direct") {
						ps = append(ps, c18Build(c, []string{w.ID}, t.ID, f))
					}
				}
			}
		}
	}
	// core 2: benign wrappers around and inside the direct / eval.value routes
	for _, cid := range []string{"default", "lib-seq-fn-eval", "lib-fn-seq+scope-call", "lib-seq"} {
		c := c18CfgByID(cid)
		for _, b := range c18Benign {
			for _, r := range []string{"direct", "value", "macro"} {
				for _, tid := range []string{"file", "exec", "get", "imp-arrai", "join"} {
					t := c18TargetByID(tid)
					for _, f := range c18FormsOf(t) {
						if f == "host-apply" || strings.HasSuffix(f, "-bytes") {
							continue
						}
						if keep(r == "direct") {
							ps = append(ps, c18Build(c, []string{b.ID, r}, tid, f))
						}
						if r != "direct" && keep(false) {
							ps = append(ps, c18Build(c, []string{r, b.ID}, tid, f))
						}
					}
				}
			}
		}
	}
	// random slice: chains of 2..4 wrappers over any configuration (incl. the 128 sub-tuple ones)
	all := append(append([]c18Cfg{}, c18NamedCfgs...), subs...)
	var wr []string
	for _, w := range c18Routes {
		wr = append(wr, w.ID)
	}
	for _, w := range c18Benign {
		wr = append(wr, w.ID)
	}
	n := cfg.Pick(600, 12000)
	for j := 0; j < n; j++ {
		r := core.NewRng(cfg.Seed, 18, uint64(j))
		c := core.Pick(r, all)
		t := core.Pick(r, c18Targets)
		f := core.Pick(r, c18FormsOf(t))
		depth := r.Range(2, 4)
		chain := make([]string, depth)
		for k := range chain {
			chain[k] = core.Pick(r, wr)
		}
		ps = append(ps, c18Build(c, chain, t.ID, f))
	}
	c18ProgCache[ck] = ps
	return ps
}

func c18CfgByID(id string) c18Cfg {
	for _, c := range c18NamedCfgs {
		if c.ID == id {
			return c
		}
	}
	for _, c := range c18SubsetCfgs() {
		if c.ID == id {
			return c
		}
	}
	panic("c18: unknown cfg " + id)
}

// c18PathCfgs are the configurations used by the direct-reference enumeration (every //a.b.c path
// of the full library is referenced under each of them).
func c18PathCfgs(cfg *core.Config) []c18Cfg {
	out := append([]c18Cfg{}, c18NamedCfgs...)
	subs := c18SubsetCfgs()
	if cfg.Thorough() {
		return append(out, subs...)
	}
	r := core.NewRng(cfg.Seed, 18, 7777)
	core.Shuffle(r, subs)
	return append(out, subs[:9]...)
}
