package checks

import (
	"context"
	"fmt"
	"io"
	"os"
	"path/filepath"
	"regexp"
	"runtime"
	"sort"
	"strings"
	"sync"
	"syscall"

	"verif/core"

	"github.com/arr-ai/arrai/pkg/arrai"
	"github.com/arr-ai/arrai/pkg/arraictx"
	"github.com/arr-ai/arrai/rel"
	"github.com/arr-ai/arrai/syntax"
	"github.com/arr-ai/wbnf/parser"
)

// C10: every program ends in a value or an error, never a crash or a hang.
//
// The deciding monitors are the process-boundary ones of the core: every execution of arrai code
// runs under recover() (a recovered panic is what would have brought a host without recover down),
// a child that dies is attributed to its case (no-crash/fatal), and the logical hang criterion
// (blocked / spin) is applied per case. This file supplies the workloads (DESIGN §7 C10):
//
//	(a) operator x operand-kind matrix   (c10.go: c10Tmpls x c10Kinds, live-bound and as source text)
//	(b) safe-stdlib function x argument-kind matrix (walks syntax.SafeStdScopeTuple())
//	(c) source-text fuzz                 (c10_fuzz.go: harvested corpus + mutations + generated programs)
//	    and import trees incl. cycles.
//
// Signature = (panic | fatal | hang, site); site = message class + innermost arrai frame.

type c10 struct{}

func init() { core.Register(c10{}) }

func (c10) ID() string    { return "C10" }
func (c10) Level() string { return "exploration" }
func (c10) Rule() string {
	return "core (seed-independent): every operator/postfix/call/pattern/literal template x every pair (triple: reduced) of operand kinds, " +
		"evaluated with live operands bound by name and again as substituted source text; every function reachable in " +
		"syntax.SafeStdScopeTuple() (minus those with outside effects, by name) curried to a non-function result x argument kinds; " +
		"import trees (cycle a->a, a<->b, a->b->c->a, diamond control); every harvested corpus program unmutated. " +
		"Seeded slice: templates x random model values through random construction paths; depth-2/3 template compositions; " +
		"mutated corpus programs (byte/token/number/escape/delimiter/nesting mutations) and generated programs. " +
		"A program is distinct by its text (matrix: template+operand kinds) and non-trivial when the real compiler/evaluator was " +
		"executed on it; every execution runs under recover and inside the per-case hang monitor."
}
func (c10) Assumptions() []string {
	return []string{
		"a panic recovered by the worker is what would have brought a host without its own recover (CLI, embedding program) down; site = message class + innermost arrai frame, closure suffixes and line numbers stripped",
		"'the host can report' is checked by calling Error() on every non-parse error and pkg/arrai.OutputValue (what `arrai eval` does) on every value, both under recover",
		"inputs are finite and non-recursive: programs containing rec / fix / self-application are compiled but not evaluated; //fn.fix and //fn.fixt are not applied",
		"bounds: operands <= 6 members, numbers fed to //seq.repeat and power sets are small; fuzz inputs <= 1200 bytes; generators exclude //log //os //deprecated.exec //archive //test //eval //net and non-local imports (outside effects; C18 handles the sandbox)",
		"not generated because slow-but-terminating on the pinned tree (counted under 'skipped'): brace nesting > 5, call nesting > 7, more than 4 'cond' (a failing parse backtracks exponentially in wbnf), numeric literals in (2e6, 1e18) (dense sequence representations allocate index-proportional storage: 2^32 as an index = 4 GiB); Error() of wbnf parse errors (30-60 CPU-s) is never called",
		"known findings are keyed by panic site and, for the seed-independent matrix, by the operator template / stdlib function through which the site was reached (entry); in the seeded slices (random operands, source-text fuzz) a new program that reaches an already listed site is not reported",
		"hash seeds of github.com/arr-ai/hash are random per process, so order-dependent operators (order, set operations) can reach a different listed site on a rerun of the same VERIF_SEED",
		"hang verdicts use only the logical criterion of the core monitor (blocked: identical blocked stacks and no CPU; spin: >=30 CPU-s and identical stacks); slow cases are inconclusive",
	}
}

// HangWallSeconds: generated programs take milliseconds; the criterion itself is logical.
func (c10) HangWallSeconds() int { return 10 }

// ---------------------------------------------------------------------------------------------
// operand kinds

type c10Kind struct {
	Name string
	Src  string
	Tri  bool // member of the reduced set used for third operands / third arguments
}

var c10Kinds = []c10Kind{
	{"n0", "0", true}, {"n1", "1", true}, {"n2", "2", false}, {"nneg", "-1", true}, {"nfrac", "1.5", true},
	{"nbig", "1e300", false}, {"n97", "97", false}, {"n70000", "70000", false},
	{"none", "{}", true}, {"true", "true", true},
	{"t0", "()", false}, {"ta", "(a: 1)", true}, {"tab", `(a: 1, b: "x")`, false}, {"tnest", "(a: (b: 2), c: [1])", false},
	{"titem", "(@: 1, @item: 2)", false}, {"tchar", "(@: 0, @char: 97)", false}, {"tneg", "(@neg: {1})", false},
	{"s", `"ab"`, true}, {"s1", `"a"`, false}, {"sfmt", `"%d-%s"`, false}, {"soff", `2\"ab"`, false},
	{"sholes", "{(@: 0, @char: 97), (@: 2, @char: 99)}", false},
	{"b", "<<97, 98>>", true}, {"boff", `1\<<97, 98>>`, false},
	{"a", "[1, 2]", true}, {"aholes", "[1, , 3]", true}, {"aoff", `2\[1, 2]`, false}, {"astr", `["a", "b"]`, false},
	{"aarr", "[[1], [2, 3]]", false}, {"amix", `[1, "a", (a: 1), {2}]`, false}, {"atup", "[(a: 1), (a: 2)]", false},
	{"afn", `[\x x, \x 1]`, false}, {"asetmix", `[[1], 2, "a"]`, false},
	{"d", `{"a": 1, "b": 2}`, true}, {"dnum", "{1: 2, 3: 4}", false}, {"dnest", `{"a": {"b": 1}}`, false},
	{"dmulti", "{(@: 1, @value: 2), (@: 1, @value: 3)}", false},
	{"set", "{1, 2, 3}", true}, {"sset", "{{1}, {2}}", false}, {"sstr", `{"a", "b"}`, false},
	{"rel", "{(a: 1, b: 2), (a: 2, b: 3)}", true}, {"rel1", "{(a: 1)}", false}, {"relx", "{|a, x| (1, {(b: 1)}), (2, {})}", false},
	{"relmix", "{(a: 1), (b: 2)}", false}, {"relat", "{(@: 0, x: 1), (@: 1, x: 2)}", false},
	{"mixed", `{1, "a", (a: 1)}`, false}, {"mixseq", `{(@: 0, @char: 97), (@: 0, @item: 1)}`, false},
	{"fn", `\x x`, true}, {"fn2", `\x \y x`, false}, {"fnpat", `\(a: a) a`, false}, {"fnerr", `\x x.nosuch`, false}, {"fnlit", `\x [1, 2]`, false},
	{"fnnat", "//seq.concat", true}, {"fnpart", `//seq.join(",")`, false},
}

var c10KindIdx = func() map[string]int {
	m := map[string]int{}
	for i, k := range c10Kinds {
		m[k.Name] = i
	}
	return m
}()

var c10TriKinds = func() []int {
	var out []int
	for i, k := range c10Kinds {
		if k.Tri {
			out = append(out, i)
		}
	}
	return out
}()

// ---------------------------------------------------------------------------------------------
// operator templates (free names x, y, z are the operands; other names are never x/y/z)

type c10Tmpl struct {
	Src   string
	Arity int
}

var c10Tmpls = func() []c10Tmpl {
	var ts []c10Tmpl
	add := func(ar int, srcs ...string) {
		for _, s := range srcs {
			ts = append(ts, c10Tmpl{s, ar})
		}
	}
	for _, op := range []string{"with", "without", "&&", "||", "+>", "+", "-", "++", "|", "-%", "&~", "&", "~~", "~",
		"<&>", "<->", "-&-", "---", "-&>", "<&-", "-->", "<--", "//", "*", "/", "%", `\`, "^",
		"<:", "!<:", "=", "!=", "<", ">", "<=", ">=", "(<)", "(>)", "(<=)", "(>=)", "(<>)", "(<>=)", "!(<)", "!(<=)", "!(<>)", "!(<>=)"} {
		add(2, "x "+op+" y")
	}
	for _, op := range []string{"->", "=>", ">>", ">>>", ":>", "orderby", "order", "where", "sum", "max", "mean", "median", "min"} {
		add(2, "x "+op+" y")
	}
	add(1, "-x", "+x", "!x", "*x", "^x", "x count", "x single", "=> x", ">> x", ":> x",
		"x.a", `x."a"`, "x.&a", "x.|a, b|", "x.~|a|", "x -> .a", "x => .a", "x => (@: ., @item: .)", "x => (@: ., @char: .)",
		"x => .", "x >> .", "x :> .", "x >>> \\i \\v [i, v]", "x orderby .", "x orderby -.", "x order \\a \\b a < b", "x rank (r: .)", "x rank (r: .a)",
		"x where .", "x where .a = 1", "x sum .", "x max .", "x mean .", "x median .", "x min .", "x sum .a",
		"x nest n", "x nest |a|n", "x nest ~|a|n", "x nest |a, b|n", "x unnest a", "x unnest x", "x filter . {(a: v): v}", "x filter . {[a, ...]: a, _: 0}",
		"x -> \\[a, b] a", "x -> \\(a: a) a", "x -> \\{\"a\": v, ...} v", "x -> \\[a, ...t] t", "x -> \\(a: a, ...t) t", "x -> \\{v, ...} v",
		"x -> \\1 1", "x -> \\\"ab\" 1", "x -> \\[] 1", "x -> \\() 1", "x -> \\{} 1",
		"let [a, ...t] = x; t", "let (a: a, ...) = x; a", "let {\"a\": a, ...} = x; a", "let {a, ...r} = x; r", "let [a, b] = x; a", "let [a, [b, c]] = x; b",
		"let (:a, :b) = x; a", "let {(a: a), ...} = x; a", "let a = x; a", "let (a?: a:0) = x; a", "let [a, b?:0] = x; b", "let {\"a\"?: v:0} = x; v",
		"cond x {[a, b]: a, (a: a): a, {\"a\": v, ...}: v, _: 0}", "cond x {1: 1, \"ab\": 2, {}: 3, (): 4, _: 5}", "cond {x: 1, _: 2}", "cond {x: 1}",
		"cond x {[a, ...]: a}", "cond x {(a): 1, _: 2}",
		"x()", "x(0)", "x(1)", "x(-1)", "x(0:1)", "x(1:)", "x(:1)", "x(:)", "x(::2)", "x(::-1)", "x(::0)", "x(0:5:2)", "x(5:0:-1)", "x(-1:-3:-1)", "x(1.5)", "x(0:1.5)", "x(0, 1)", `x("a")`,
		"x?(0):9", "x.a?:9", "x.a?.b:9", `x("a")?:9`, "x?(0)?(1):9", "x?.a:9",
		"[x]", "{x}", "(a: x)", "{x: 1}", "{1: x}", "{|a| (x)}", "<<x>>", "<<(x)>>", "<<1, x>>", "[x, , x]", "{x, x}", "(@: x, @item: 1)", "(@: 0, @char: x)", "(@: x, @byte: x)", "(@: x, @value: x)",
		"{(@: x, @item: 1)}", "{(@: 0, @char: x)}", "{(@: 0, @byte: x)}", "{(@: x, @value: 1)}",
		`$"${x}"`, `$"${x:s}"`, `$"${x:d}"`, `$"${x:5.2f}"`, `$"${x:q}"`, `$"${x:x}"`, `$"${x::, }"`, `$"${x:s:, }"`, `$"${x::, :\n}"`, `$"${x:d:}"`, `$"a${x}b"`, "$\"\n  ${x}\n  b\"",
		`x->*a(1)`, `x->*"a"(1)`, `x->*a->*b(1)`, "x +> (a: 1)", "(a: 1) +> x", "(a +>: x)", "{\"a\" +>: x}",
		"x if 1 else 2", "1 if x else 2", "1 if x", "\\a x", "(\\a a)(x)", "(\\a a + 1)(x)", "(\\(a: a) a)(x)", "(\\[a] a)(x)", "//seq.concat(x)", "x && x", "x = x", "x < x", "x | x", "x <&> x", "x ++ x", "x with x", "x without x", "x <: x", "x ^ 2", "2 ^ x",
		"1 \\ x", "x \\ x", "-1 \\ x", "1.5 \\ x", "x -> . + 1", "x -> \\a a", "&x", "x -> *.",
	)
	add(2, "x(y)", "x(y:)", "x(:y)", "x(y:y)", "x(::y)", "x(0:y:1)", "x(y, y)", "x?(y):0", "x(y)?:0", "x.a?:y", "x(y)(y)",
		"x => y(.)", "x >> y(.)", "x :> y(.)", "x >>> \\i \\v y(v)", "x >>> \\i \\v y", "x orderby y(.)", "x order \\a \\b y", "x rank (r: y(.))", "x rank (r: y)", "x where y(.)", "x where . = y", "x where .a = y",
		"x sum y(.)", "x max y(.)", "x min y(.)", "x mean y(.)", "x median y(.)", "x -> \\a y", "x -> \\(y) 1", "x -> y(.)", "y(x)",
		"[x, y]", "{x, y}", "{x: y}", "(a: x, b: y)", "{|a, b| (x, y)}", "{|@, @item| (x, y)}", "{|@, @char| (x, y)}", "{|@, @value| (x, y)}", "<<x, y>>", "[x, , y]", "{(@: x, @item: y)}", "{(@: x, @char: y)}", "{(@: x, @byte: y)}", "{(@: x, @value: y)}",
		"(@: x, @item: y)", "(@: x, @char: y)", "(@: x, @byte: y)", "{x: 1, y: 2}", "{x: 1} | {y: 2}", "{x: 1} +> {y: 2}",
		`$"${x}${y}"`, `$"${x::${y}}"`, `$"${x:s:${y}}"`, "x->*a(y)", "cond {x: y, _: 0}", "cond x {y: 1, _: 2}", "cond x {(y): 1, _: 2}", "cond x {[y, ...]: y, _: 0}", "cond x {{(y): v, ...}: v, _: 0}", "cond x {(a: (y)): 1, _: 2}",
		"let [a, ...] = x; a + y", "let [a, b?:y] = x; b", "let (a?: a:y) = x; a", "let {\"a\"?: v:y} = x; v", "let (y) = x; 1", "let [(y), ...] = x; 1", "let y = x; y",
		"x if y", "x with y with y", "{x} | {y}", "{x} & {y}", "{x} <&> {y}", "[x] ++ [y]", "{x} = {y}", "[x] < [y]", "{x} < {y}", "(a: x) < (a: y)", "{x: 1} < {y: 1}", "(a: x) +> (a: y)",
		"x nest |a|n <&> y", "(x <&> y) nest |a|n", "x => (a: ., b: y)", "(x | y) count", "(x ++ y) count", "x <&> y <&> x", "(x | y) => .", "(x | y) orderby .", "(x & y) where .", "(x with y) >> .", "(x +> y) :> .", "(x ++ y)(0)", "(x | y)(0)",
		"y \\ x", "(y \\ x) ++ x", "(y \\ x) | x", "(y \\ x)(0)", "(y \\ x)(y)", "(y \\ x) >> .", "(y \\ x) => .", "y \\ (y \\ x)",
	)
	add(3, "x if y else z", "x(y:z)", "x(y:z:1)", "x(0:y:z)", "x(y, z)", "x(y)?:z", "x?(y):z", "x.a?:y?:z", "cond {x: y, _: z}", "cond x {y: 1, _: z}", "cond x {(y): z}", "[x, y, z]", "{x: y, z: y}", "(a: x, b: y, c: z)",
		"x with y without z", "x | y | z", "x <&> y <&> z", "x ++ y ++ z", "x +> y +> z", "x -> \\y z", "x => y(z)", "x >>> \\i \\v y(i, z)", "x(y)(z)", `$"${x:s:${y}:${z}}"`, "{|a, b, c| (x, y, z)}", "x where y(z)", "x orderby y(z)",
		"x && y || z", "x = y = z", "x < y < z", "x ^ y ^ z", "x - y - z", "x // y // z", "x \\ y \\ z", "x nest |a|n unnest n <&> y <&> z", "<<x, y, z>>",
	)
	return ts
}()

var c10ReOperand = regexp.MustCompile(`\b[xyz]\b`)

// c10Subst renders a template with operand source text substituted (each operand parenthesised).
func c10Subst(tmpl string, ops map[string]string) string {
	return c10ReOperand.ReplaceAllStringFunc(tmpl, func(n string) string {
		if s, ok := ops[n]; ok {
			return "(" + s + ")"
		}
		return n
	})
}

// ---------------------------------------------------------------------------------------------
// guarded execution: compile / eval / report, each under recover

type c10Out struct {
	Mode  string // value | error | panic | nilnil
	Phase string // compile | eval | print | errtext
	Val   rel.Value
	Err   error
	Panic *core.PanicInfo
}

func c10Guard(phase string, f func() (rel.Value, error)) (o c10Out) {
	defer func() {
		if r := recover(); r != nil {
			o = c10Out{Mode: "panic", Phase: phase, Panic: c10NewPanic(r)}
		}
	}()
	v, err := f()
	switch {
	case err != nil:
		return c10Out{Mode: "error", Phase: phase, Err: err}
	case v == nil:
		return c10Out{Mode: "nilnil", Phase: phase}
	}
	return c10Out{Mode: "value", Phase: phase, Val: v}
}

var (
	c10ReClosure = regexp.MustCompile(`(\.func[0-9]+|\.[0-9]+|\.gowrap[0-9]+)+$`)
	c10ReSkel    = regexp.MustCompile(`^[A-Za-z][A-Za-z \-/]*`)
)

const c10ArraiPkg = "github.com/arr-ai/arrai/"

// c10NewPanic builds the crash signature. Must be called from the deferred function that
// recovered. Site = innermost arrai frame (closure suffixes and line numbers stripped; closures of
// package-level initialisers are named by their file, since "pkg.init" alone would lump every
// stdlib function of the package together). Class = what kind of panic it was, free of operand
// data: the runtime error class, "error" for panic(err) with a non-runtime error value (its text is
// whatever error was propagated), or the leading words of an explicit panic message.
func c10NewPanic(r interface{}) *core.PanicInfo {
	msg := func() (m string) {
		defer func() {
			if recover() != nil {
				m = "<panic value cannot be printed>"
			}
		}()
		return fmt.Sprintf("%v", r)
	}()
	if len(msg) > 300 {
		msg = msg[:300]
	}
	pcs := make([]uintptr, 160)
	n := runtime.Callers(2, pcs)
	frames := runtime.CallersFrames(pcs[:n])
	site := ""
	var sb strings.Builder
	afterPanic := false
	for {
		f, more := frames.Next()
		if f.Function == "runtime.gopanic" || strings.HasPrefix(f.Function, "runtime.panic") ||
			strings.HasPrefix(f.Function, "runtime.goPanic") || f.Function == "runtime.sigpanic" {
			afterPanic = true
		} else if afterPanic {
			if sb.Len() < 1500 {
				fmt.Fprintf(&sb, "%s:%d\n", f.Function, f.Line)
			}
			if site == "" && strings.HasPrefix(f.Function, c10ArraiPkg) {
				fn := strings.TrimPrefix(f.Function, c10ArraiPkg)
				fn = c10ReClosure.ReplaceAllString(fn, "")
				fn = strings.ReplaceAll(fn, "[...]", "")
				if strings.HasSuffix(fn, ".init") || strings.Contains(fn, ".init.") || strings.HasSuffix(fn, ".glob") {
					fn += "[" + filepath.Base(f.File) + "]"
				}
				site = fn
			}
		}
		if !more {
			break
		}
	}
	if site == "" {
		site = "(no arrai frame)"
	}
	class := ""
	switch e := r.(type) {
	case runtime.Error:
		class = core.MsgClass(msg)
		if strings.HasPrefix(class, "runtime error: ") {
			class = strings.TrimPrefix(c10ReSkel.FindString(strings.TrimPrefix(msg, "runtime error: ")), " ")
		}
	case error:
		_ = e
		class = "error"
	default:
		class = strings.TrimSpace(c10ReSkel.FindString(msg))
		if len(class) > 32 {
			class = strings.TrimSpace(class[:32])
		}
		if class == "" {
			class = "explicit"
		}
	}
	return &core.PanicInfo{Msg: msg, Class: class, Site: site, Stack: sb.String()}
}

// c10Sig renders the site field: frame first so that known findings can group by function prefix.
func c10Sig(p *core.PanicInfo) string { return p.Site + " :: " + p.Class }

func c10IsParseErr(err error) bool {
	switch err.(type) {
	case parser.ParseError, *parser.ParseError:
		return true
	}
	t := fmt.Sprintf("%T", err)
	return strings.Contains(t, "ParseError") || strings.Contains(t, "parser.")
}

// c10Report does what a host does with the outcome: prints the value the way `arrai eval` does,
// or renders the error. Returns a panic outcome if that crashes. Error() is only called on
// evaluation errors of programs that cannot carry a wbnf parser error (errText): the parser's
// ParseError / FatalError Error() takes 30-60 CPU-s in wbnf's tree printer on many inputs and the
// arrai wrappers (localImportError, ContextErr) hide it behind unexported fields. That is slow but
// terminating, so it is not judged.
func c10Report(ctx context.Context, o c10Out, errText bool) c10Out {
	switch o.Mode {
	case "value":
		if p := c10Guard("print", func() (rel.Value, error) {
			return o.Val, arrai.OutputValue(ctx, o.Val, io.Discard, "")
		}); p.Mode == "panic" {
			return p
		}
	case "error":
		if !errText || o.Phase != "eval" || c10IsParseErr(o.Err) {
			return o
		}
		if p := c10Guard("errtext", func() (rel.Value, error) {
			_ = o.Err.Error()
			return rel.None, nil
		}); p.Mode == "panic" {
			return p
		}
	}
	return o
}

var (
	c10CompMu    sync.Mutex
	c10CompCache = map[string]c10Compiled{}
)

type c10Compiled struct {
	expr rel.Expr
	out  c10Out
}

// c10Compile compiles source under recover (cached for templates).
func c10Compile(ctx context.Context, src string, cache bool) (rel.Expr, c10Out) {
	if cache {
		c10CompMu.Lock()
		c, ok := c10CompCache[src]
		c10CompMu.Unlock()
		if ok {
			return c.expr, c.out
		}
	}
	var e rel.Expr
	o := c10Guard("compile", func() (rel.Value, error) {
		var err error
		e, err = syntax.Compile(ctx, "", src)
		if err == nil && e == nil {
			return nil, nil
		}
		return rel.None, err
	})
	if o.Mode != "value" {
		e = nil
	}
	if cache {
		c10CompMu.Lock()
		c10CompCache[src] = c10Compiled{e, o}
		c10CompMu.Unlock()
	}
	return e, o
}

// c10Run compiles (unless cached) and evaluates src under scope, then reports the outcome.
func c10Run(ctx context.Context, src string, scope rel.Scope, cacheCompile, evaluate bool) c10Out {
	return c10RunX(ctx, src, scope, cacheCompile, evaluate, true)
}

func c10RunX(ctx context.Context, src string, scope rel.Scope, cacheCompile, evaluate, errText bool) c10Out {
	e, o := c10Compile(ctx, src, cacheCompile)
	if o.Mode != "value" {
		return o
	}
	if !evaluate {
		o.Val = rel.None
		return o
	}
	ectx := arraictx.ContextWithIsCompiling(ctx, false)
	o = c10Guard("eval", func() (rel.Value, error) { return e.Eval(ectx, scope) })
	return c10Report(ctx, o, errText)
}

// ---------------------------------------------------------------------------------------------
// per-case recorder

type c10Data struct {
	Gen     string         `json:"g"`
	Modes   map[string]int `json:"m"`           // outcome tallies "phase/mode"
	Sites   []string       `json:"s,omitempty"` // distinct panic signatures reached
	Skipped map[string]int `json:"k,omitempty"`
	Mut     map[string]int `json:"u,omitempty"` // mutation operators applied
	Fns     int            `json:"f,omitempty"` // stdlib: applications whose result was again a function
	Tags    []string       `json:"t,omitempty"` // coverage tags (also in CaseResult.Cover; kept here because Data lines survive a worker death)
	CPUms   int64          `json:"c,omitempty"` // process CPU spent in the case (evidence only, never a verdict)
}

type c10Rec struct {
	res  *core.CaseResult
	data *c10Data
	seen map[string]bool
	site map[string]bool
	cpu0 int64
}

func c10ProcCPU() int64 {
	var ru syscall.Rusage
	_ = syscall.Getrusage(syscall.RUSAGE_SELF, &ru)
	return ru.Utime.Nano() + ru.Stime.Nano()
}

func c10NewRec(gen, key string) *c10Rec {
	r := &c10Rec{res: &core.CaseResult{Key: key}, data: &c10Data{Gen: gen, Modes: map[string]int{}, Skipped: map[string]int{}, Mut: map[string]int{}},
		seen: map[string]bool{}, site: map[string]bool{}, cpu0: c10ProcCPU()}
	r.res.Evals = 0
	return r
}

// note records one execution of the real code and emits a violation for crash outcomes.
func (r *c10Rec) note(entry, program string, o c10Out, replay map[string]string) {
	r.res.Evals++
	r.res.NonTrivial = true
	r.data.Modes[o.Phase+"/"+o.Mode]++
	var sig core.Signature
	var detail string
	switch o.Mode {
	case "panic":
		clause := "C10.no-panic"
		if o.Phase == "print" || o.Phase == "errtext" {
			clause = "C10.report"
		}
		sig = core.Signature{Clause: clause, Entry: entry, Mode: "panic", Site: c10Sig(o.Panic)}
		detail = fmt.Sprintf("%s: panic in %s: %s\n%s", program, o.Phase, o.Panic.Msg, clip10(o.Panic.Stack, 700))
		if !r.site[sig.Site] {
			r.site[sig.Site] = true
			r.data.Sites = append(r.data.Sites, sig.Site)
		}
	case "nilnil":
		sig = core.Signature{Clause: "C10.value-or-error", Entry: entry, Mode: "nil-value-nil-error"}
		detail = fmt.Sprintf("%s: %s returned neither a value nor an error", program, o.Phase)
	default:
		return
	}
	k := sig.String()
	if r.seen[k] {
		return
	}
	r.seen[k] = true
	if replay == nil {
		replay = map[string]string{}
	}
	replay["program"] = program
	r.res.Viols = append(r.res.Viols, core.Violation{Sig: sig, Detail: detail, Replay: replay})
}

func (r *c10Rec) finish() core.CaseResult {
	if r.res.Evals == 0 {
		r.res.Evals = 1
	}
	sort.Strings(r.data.Sites)
	r.data.Tags = r.res.Cover
	r.data.CPUms = (c10ProcCPU() - r.cpu0) / 1e6
	r.res.Data = r.data
	return *r.res
}

func clip10(s string, n int) string {
	if len(s) > n {
		return s[:n]
	}
	return s
}

// ---------------------------------------------------------------------------------------------
// operands

var (
	c10LitMu sync.Mutex
	c10Lits  = map[string]c10Out{}
)

// c10Lit evaluates a literal/construction program once per process (under recover).
func c10Lit(src string) c10Out {
	c10LitMu.Lock()
	o, ok := c10Lits[src]
	c10LitMu.Unlock()
	if ok {
		return o
	}
	o = c10Run(core.Ctx(), src, rel.EmptyScope, false, true)
	c10LitMu.Lock()
	c10Lits[src] = o
	c10LitMu.Unlock()
	return o
}

type c10Operand struct {
	Name string
	Src  string
	Val  rel.Value // nil when construction did not yield a value
}

// c10KindOperand builds kind k; a construction that crashes is itself recorded.
func c10KindOperand(r *c10Rec, k int) c10Operand {
	kd := c10Kinds[k]
	o := c10Lit(kd.Src)
	if o.Mode != "value" {
		r.note("literal", kd.Src, o, map[string]string{"kind": kd.Name})
		r.res.Evals-- // cached construction, not a fresh execution
		return c10Operand{Name: kd.Name, Src: kd.Src}
	}
	return c10Operand{Name: kd.Name, Src: kd.Src, Val: o.Val}
}

// c10RandOperand draws a model value and one of its construction paths (universe.go).
func c10RandOperand(r *c10Rec, rng *core.Rng) c10Operand {
	var m MV
	switch rng.Intn(10) {
	case 0, 1, 2:
		m = core.Pick(rng, c10CoreValues())
	case 3:
		m = num([]float64{0, 1, 2, -1, 0.5, 97, 255, 256}[rng.Intn(8)])
	case 4:
		m = mtup("a", randValue(rng, false, 1), "b", num(float64(rng.Intn(3))))
	default:
		m = randValue(rng, rng.Chance(1, 2), 2)
	}
	ps := pathsFor(m)
	p := core.Pick(rng, ps)
	o := c10Lit(p.Src)
	name := "rand:" + core.Classify(m) + "/" + p.Kind
	if o.Mode != "value" {
		r.note("construct", p.Src, o, map[string]string{"path": p.Kind})
		// fall back to the spelled-out form so the case still exercises the template
		o = c10Lit(core.Src(m))
		if o.Mode != "value" {
			return c10Operand{Name: name, Src: core.Src(m)}
		}
		return c10Operand{Name: name, Src: core.Src(m), Val: o.Val}
	}
	return c10Operand{Name: name, Src: p.Src, Val: o.Val}
}

var (
	c10CoreOnce sync.Once
	c10CoreVals []MV
)

func c10CoreValues() []MV {
	c10CoreOnce.Do(func() { c10CoreVals = coreValues() })
	return c10CoreVals
}

// ---------------------------------------------------------------------------------------------
// safe stdlib walk

type c10Fn struct {
	Path string
	Val  rel.Value
}

var c10ExcludedStd = []string{"//log.", "//os.", "//deprecated.", "//archive.", "//test.", "//eval.", "//net.", "//fn.fix", "//std.", "//@internal.eval."}

func c10StdExcluded(path string) bool {
	for _, p := range c10ExcludedStd {
		if strings.HasPrefix(path, p) || path+"." == p {
			return true
		}
	}
	return false
}

var (
	c10StdOnce  sync.Once
	c10StdFns   []c10Fn
	c10StdSkips []string
	c10StdTuple rel.Tuple // filtered safe library bound as "//" for fuzz evaluation
)

func c10WalkStd(prefix string, t rel.Tuple, depth int) rel.Tuple {
	names := t.Names().OrderedNames()
	sort.Strings(names)
	var attrs []rel.Attr
	for _, n := range names {
		v, _ := t.Get(n)
		p := prefix + "." + n
		if prefix == "//" {
			p = prefix + n
		}
		if c10StdExcluded(p) {
			c10StdSkips = append(c10StdSkips, p)
			continue
		}
		switch x := v.(type) {
		case rel.Tuple:
			if depth < 6 {
				sub := c10WalkStd(p, x, depth+1)
				attrs = append(attrs, rel.NewAttr(n, sub))
				continue
			}
		default:
			if core.IsFn(v) {
				c10StdFns = append(c10StdFns, c10Fn{p, v})
			}
		}
		attrs = append(attrs, rel.NewAttr(n, v))
	}
	return rel.NewTuple(attrs...)
}

func c10Std() []c10Fn {
	c10StdOnce.Do(func() {
		c10StdTuple = c10WalkStd("//", syntax.SafeStdScopeTuple(), 0)
		sort.Slice(c10StdFns, func(i, j int) bool { return c10StdFns[i].Path < c10StdFns[j].Path })
	})
	return c10StdFns
}

func c10SafeScope() rel.Scope {
	c10Std()
	return rel.EmptyScope.With("//", c10StdTuple)
}

// c10StdArgOK bounds arguments so that legitimate evaluation stays small.
func c10StdArgOK(path string, argNo int, kind string) bool {
	if strings.HasSuffix(path, "seq.repeat") && argNo == 0 && (kind == "nbig" || kind == "n70000") {
		return false // repeat(n, s) is linear in n by definition; bounded by the generator
	}
	return true
}

// c10Apply applies fn to successive argument kinds until the result is no longer a function
// (or a tuple holding functions), at most 4 applications deep.
func (r *c10Rec) c10Apply(ctx context.Context, fnPath string, fv rel.Value, expr string, depth int, firstKind int, nargs *int) {
	kinds := make([]int, 0, len(c10Kinds))
	switch {
	case depth == 0:
		kinds = append(kinds, firstKind)
	case depth == 1:
		for i := range c10Kinds {
			kinds = append(kinds, i)
		}
	default:
		kinds = append(kinds, c10TriKinds...)
	}
	for _, k := range kinds {
		if !c10StdArgOK(fnPath, depth, c10Kinds[k].Name) {
			r.data.Skipped["std-arg-bound"]++
			continue
		}
		arg := c10KindOperand(r, k)
		if arg.Val == nil {
			continue
		}
		prog := expr + "(" + arg.Src + ")"
		sc := rel.EmptyScope.With("f", fv).With("x", arg.Val)
		o := c10RunX(ctx, "f(x)", sc, true, true, !strings.Contains(fnPath, "grammar"))
		r.note(fnPath, prog, o, map[string]string{"fn": fnPath})
		r.res.SubKeys = append(r.res.SubKeys, "std:"+prog)
		if o.Mode != "value" {
			continue
		}
		if depth+1 > *nargs {
			*nargs = depth + 1
		}
		if depth >= 3 {
			continue
		}
		switch res := o.Val.(type) {
		case rel.Tuple:
			for e := res.Enumerator(); e.MoveNext(); {
				n, a := e.Current()
				if core.IsFn(a) {
					r.data.Fns++
					r.c10Apply(ctx, fnPath, a, "("+prog+")."+n, depth+1, 0, nargs)
				}
			}
		default:
			if core.IsFn(o.Val) {
				r.data.Fns++
				r.c10Apply(ctx, fnPath, o.Val, prog, depth+1, 0, nargs)
			}
		}
	}
}

// ---------------------------------------------------------------------------------------------
// import trees

type c10ImpTree struct {
	Name  string
	Files map[string]string
	Main  string
	Cycle bool
}

var c10ImpTrees = []c10ImpTree{
	{"diamond", map[string]string{"main.arrai": "//{./b}.v + //{./c}.v", "b.arrai": "(v: //{./d} + 1)", "c.arrai": "(v: //{./d} + 2)", "d.arrai": "40"}, "main.arrai", false},
	{"missing", map[string]string{"main.arrai": "//{./nosuch}"}, "main.arrai", false},
	{"badchild", map[string]string{"main.arrai": "//{./b}", "b.arrai": "(1 +"}, "main.arrai", false},
	{"panicchild", map[string]string{"main.arrai": "//{./b}", "b.arrai": `"\q"`}, "main.arrai", false},
	{"panicgrandchild", map[string]string{"main.arrai": "[//{./b}, //{./b}]", "b.arrai": "(x: //{./c})", "c.arrai": `"\q"`}, "main.arrai", false},
	{"self", map[string]string{"main.arrai": "//{./main}"}, "main.arrai", true},
	{"two", map[string]string{"main.arrai": "//{./b}", "b.arrai": "//{./main}"}, "main.arrai", true},
	{"three", map[string]string{"main.arrai": "(a: //{./b})", "b.arrai": "[//{./c}]", "c.arrai": "{//{./main}}"}, "main.arrai", true},
	{"rootcycle", map[string]string{"go.mod": "module x\n", "main.arrai": "//{/b}", "b.arrai": "//{/main}"}, "main.arrai", true},
}

func c10RunImport(cfg *core.Config, i int) core.CaseResult {
	t := c10ImpTrees[i]
	r := c10NewRec("imp", "imp:"+t.Name)
	dir := filepath.Join(cfg.RunDir, "c10-imp", fmt.Sprintf("%s-%d", t.Name, os.Getpid()))
	os.RemoveAll(dir)
	if err := os.MkdirAll(dir, 0o755); err != nil {
		r.res.Inconclusive = "mkdir: " + err.Error()
		return r.finish()
	}
	for n, s := range t.Files {
		if err := os.WriteFile(filepath.Join(dir, n), []byte(s), 0o644); err != nil {
			r.res.Inconclusive = "write: " + err.Error()
			return r.finish()
		}
	}
	c10Cur(cfg, "import tree "+t.Name+" in "+dir)
	main := filepath.Join(dir, t.Main)
	ctx := core.Ctx()
	o := c10Guard("eval", func() (rel.Value, error) {
		return syntax.EvalWithScope(ctx, main, t.Files[t.Main], rel.Scope{})
	})
	o = c10Report(ctx, o, false)
	r.note("import", "import tree "+t.Name, o, map[string]string{"tree": t.Name})
	// A host that keeps one import cache and recovers from panics (shell, server) evaluates the same
	// script again through the SAME cache: whatever the first attempt did (value, error, panic), the
	// second must also end - an entry left "in flight" would block it forever (hang monitor).
	c10Cur(cfg, "import tree "+t.Name+" (second evaluation, same import cache) in "+dir)
	o2 := c10Guard("eval", func() (rel.Value, error) {
		return syntax.EvalWithScope(ctx, main, t.Files[t.Main], rel.Scope{})
	})
	o2 = c10Report(ctx, o2, false)
	r.note("import", "import tree "+t.Name+" again", o2, map[string]string{"tree": t.Name, "attempt": "2"})
	r.res.Cover = append(r.res.Cover, "imp2/"+t.Name+"/"+o2.Mode)
	r.res.Cover = append(r.res.Cover, "imp/"+t.Name+"/"+o.Mode)
	if t.Name == "diamond" && o.Mode == "value" {
		if n, ok := o.Val.(rel.Number); ok && n.Float64() == 83 {
			r.res.Cover = append(r.res.Cover, "imp/control-ok")
		}
	}
	r.res.Sample = fmt.Sprintf("import tree %s %v -> %s", t.Name, t.Files, o.Mode)
	os.RemoveAll(dir)
	return r.finish()
}

// c10Cur records the program about to run in a side file so that a child death / hang can be
// attributed to a program (read back by Finish). One pwrite per program.
var (
	c10CurFile *os.File
	c10CurCase int
	c10CurLen  int
)

func c10Cur(cfg *core.Config, program string) {
	if c10CurFile == nil {
		dir := filepath.Join(cfg.RunDir, "c10-cur")
		os.MkdirAll(dir, 0o755)
		f, err := os.OpenFile(filepath.Join(dir, fmt.Sprintf("%d.txt", os.Getpid())), os.O_CREATE|os.O_WRONLY|os.O_TRUNC, 0o644)
		if err != nil {
			return
		}
		c10CurFile = f
	}
	b := []byte(fmt.Sprintf("[case %d] %s\x00", c10CurCase, clip10(program, 3000)))
	n := len(b)
	for len(b) < c10CurLen { // overwrite the tail of a longer previous record
		b = append(b, 0)
	}
	c10CurLen = n
	c10CurFile.WriteAt(b, 0)
}

// ---------------------------------------------------------------------------------------------
// plan

type c10Plan struct {
	nSelf, nImp      int
	opCaseT, opCaseX []int // op core: case -> template, x kind (-1: unary, all kinds in one case)
	nStd             int   // fns x kinds
	nOpRand          int   // templates x R
	opRandPer        int
	nComp            int
	nCorpus          int // unmutated corpus batches
	corpusBatch      int
	nFuzz, fuzzBatch int
	nGen             int
	starts           [8]int
	total            int
}

var (
	c10PlanMu sync.Mutex
	c10Plans  = map[string]*c10Plan{}
)

func c10GetPlan(cfg *core.Config) *c10Plan {
	k := fmt.Sprintf("%s/%d", cfg.Tier, cfg.Seed)
	c10PlanMu.Lock()
	defer c10PlanMu.Unlock()
	if p, ok := c10Plans[k]; ok {
		return p
	}
	p := &c10Plan{nSelf: 1, nImp: len(c10ImpTrees)}
	for ti, t := range c10Tmpls {
		if t.Arity == 1 {
			p.opCaseT = append(p.opCaseT, ti)
			p.opCaseX = append(p.opCaseX, -1)
			continue
		}
		for k := range c10Kinds {
			p.opCaseT = append(p.opCaseT, ti)
			p.opCaseX = append(p.opCaseX, k)
		}
	}
	p.nStd = len(c10Std()) * len(c10Kinds)
	p.opRandPer = cfg.Pick(1, 6)
	p.nOpRand = len(c10Tmpls) * p.opRandPer
	p.nComp = cfg.Pick(80, 1500)
	p.corpusBatch = 20
	p.nCorpus = (len(c10Corpus()) + p.corpusBatch - 1) / p.corpusBatch
	p.fuzzBatch = cfg.Pick(25, 100)
	p.nFuzz = cfg.Pick(320, 2500)
	p.nGen = cfg.Pick(80, 600)
	if os.Getenv("VERIF_C10_SLICE") == "random" {
		// sweep aid (never set by ./check): only the seeded slice, for triage sweeps over many seeds
		p.nImp, p.opCaseT, p.opCaseX, p.nStd, p.nCorpus = 0, nil, nil, 0, 0
	}
	sizes := []int{p.nSelf, p.nImp, len(p.opCaseT), p.nStd, p.nOpRand, p.nComp, p.nCorpus, p.nFuzz + p.nGen}
	acc := 0
	for i, s := range sizes {
		p.starts[i] = acc
		acc += s
	}
	p.total = acc
	c10Plans[k] = p
	return p
}

func (c10) NumCases(cfg *core.Config) int { return c10GetPlan(cfg).total }

func (c10) RunCase(cfg *core.Config, i int) core.CaseResult {
	p := c10GetPlan(cfg)
	c10CurCase = i
	sec := 0
	for s := len(p.starts) - 1; s >= 0; s-- {
		if i >= p.starts[s] {
			sec = s
			break
		}
	}
	k := i - p.starts[sec]
	switch sec {
	case 0:
		return c10SelfTest(cfg)
	case 1:
		return c10RunImport(cfg, k)
	case 2:
		return c10RunOpCore(cfg, p, k)
	case 3:
		return c10RunStd(cfg, k)
	case 4:
		return c10RunOpRand(cfg, p, i, k)
	case 5:
		return c10RunFuzz(cfg, "comp", i, k)
	case 6:
		return c10RunFuzz(cfg, "corpus", i, k)
	default:
		if k < p.nFuzz {
			return c10RunFuzz(cfg, "mut", i, k)
		}
		return c10RunFuzz(cfg, "gen", i, k-p.nFuzz)
	}
}

// c10NilExpr is an expression whose Eval returns neither a value nor an error (self-test only).
type c10NilExpr struct{}

func (c10NilExpr) String() string                                     { return "nothing" }
func (c10NilExpr) Eval(context.Context, rel.Scope) (rel.Value, error) { return nil, nil }
func (c10NilExpr) Source() parser.Scanner                             { return *parser.NewScanner("nothing") }

// c10SelfTest proves in every run that the monitor sees what it is there to see: a native
// function that panics / returns (nil, nil) when called from arr.ai must come back as such.
func c10SelfTest(cfg *core.Config) core.CaseResult {
	r := c10NewRec("self", "selftest")
	boom := rel.NewNativeFunction("boom", func(_ context.Context, v rel.Value) (rel.Value, error) {
		if _, isNum := v.(rel.Number); isNum {
			panic("verif-selftest-panic")
		}
		return v, nil
	})
	sc := rel.EmptyScope.With("f", boom)
	o := c10Run(core.Ctx(), "[f(1)]", sc, false, true)
	r.res.Evals++
	if o.Mode == "panic" && strings.Contains(o.Panic.Msg, "verif-selftest-panic") {
		r.res.Cover = append(r.res.Cover, "selftest/panic-caught")
	}
	o = c10Run(core.Ctx(), "nothing", rel.EmptyScope.With("nothing", c10NilExpr{}), false, true)
	r.res.Evals++
	if o.Mode == "nilnil" {
		r.res.Cover = append(r.res.Cover, "selftest/nil-nil-caught")
	}
	o = c10Run(core.Ctx(), "1 +", rel.EmptyScope, false, true)
	if o.Mode == "error" && o.Phase == "compile" {
		r.res.Cover = append(r.res.Cover, "selftest/parse-error-is-error")
	}
	o = c10Run(core.Ctx(), "1 + 2", rel.EmptyScope, false, true)
	if o.Mode == "value" && o.Phase == "eval" {
		r.res.Cover = append(r.res.Cover, "selftest/value-is-value")
	}
	r.res.NonTrivial = true
	return r.finish()
}

func c10RunOpCore(cfg *core.Config, p *c10Plan, k int) core.CaseResult {
	t := c10Tmpls[p.opCaseT[k]]
	xk := p.opCaseX[k]
	r := c10NewRec("op", fmt.Sprintf("op:%s:%d", t.Src, xk))
	ctx := core.Ctx()
	r.res.Cover = append(r.res.Cover, "tmpl-case")
	// source-text mode exercises the compile-time paths (literal construction, constant folding,
	// pattern compilation) with ill-typed literal operands; a compile costs ~2-5 ms, so it is sampled:
	// every 42nd (quick) / 2nd (thorough) combination for literal/pattern templates, every 152nd /
	// 8th for the others (the quick sample is a subset of the thorough one); the live-operand mode covers every combination in both tiers.
	srcEvery := cfg.Pick(152, 8)
	if strings.ContainsAny(t.Src, "{[<$") || strings.Contains(t.Src, "(@") || strings.Contains(t.Src, "let ") {
		srcEvery = cfg.Pick(42, 2)
	}
	run := func(ops []c10Operand, salt int) {
		names := []string{"x", "y", "z"}
		sc := rel.EmptyScope
		subst := map[string]string{}
		desc := t.Src + " where"
		key := "op:" + t.Src
		for j, o := range ops {
			if o.Val == nil {
				return
			}
			sc = sc.With(names[j], o.Val)
			subst[names[j]] = o.Src
			desc += " " + names[j] + "=" + o.Src
			key += ":" + o.Name
		}
		r.res.SubKeys = append(r.res.SubKeys, key)
		c10Cur(cfg, desc)
		out := c10Run(ctx, t.Src, sc, true, true)
		r.note(t.Src, desc, out, map[string]string{"template": t.Src, "mode": "live operands"})
		if salt%srcEvery == 0 {
			src := c10Subst(t.Src, subst)
			out = c10Run(ctx, src, rel.EmptyScope, false, true)
			r.note(t.Src, src, out, map[string]string{"template": t.Src, "mode": "source text"})
		}
	}
	switch t.Arity {
	case 1:
		for xi := range c10Kinds {
			run([]c10Operand{c10KindOperand(r, xi)}, xi*3)
		}
	case 2:
		x := c10KindOperand(r, xk)
		for yi := range c10Kinds {
			run([]c10Operand{x, c10KindOperand(r, yi)}, xk*5+yi)
		}
	default:
		x := c10KindOperand(r, xk)
		for _, yi := range c10TriKinds {
			for _, zi := range c10TriKinds {
				run([]c10Operand{x, c10KindOperand(r, yi), c10KindOperand(r, zi)}, xk*5+yi*3+zi)
			}
		}
	}
	if k%211 == 5 {
		r.res.Sample = fmt.Sprintf("template %q, x kind %d, all y kinds (%d evaluations)", t.Src, xk, r.res.Evals)
	}
	return r.finish()
}

func c10RunStd(cfg *core.Config, k int) core.CaseResult {
	fns := c10Std()
	fn := fns[k/len(c10Kinds)]
	kind := k % len(c10Kinds)
	r := c10NewRec("std", fmt.Sprintf("std:%s:%d", fn.Path, kind))
	nargs := 0
	c10Cur(cfg, fn.Path+" first arg "+c10Kinds[kind].Src)
	r.c10Apply(core.Ctx(), fn.Path, fn.Val, fn.Path, 0, kind, &nargs)
	r.res.Cover = append(r.res.Cover, "fn:"+fn.Path)
	if nargs > 0 {
		r.res.Cover = append(r.res.Cover, fmt.Sprintf("fn-value-at-arity-%d", nargs))
	}
	if k%97 == 11 {
		r.res.Sample = fmt.Sprintf("%s(%s)(all kinds)(reduced kinds)...: %d applications", fn.Path, c10Kinds[kind].Src, r.res.Evals)
	}
	return r.finish()
}

func c10RunOpRand(cfg *core.Config, p *c10Plan, i, k int) core.CaseResult {
	t := c10Tmpls[k/p.opRandPer]
	rng := core.NewRng(cfg.Seed, 10, uint64(i))
	r := c10NewRec("oprand", fmt.Sprintf("oprand:%d:%d", cfg.Seed, i))
	ctx := core.Ctx()
	names := []string{"x", "y", "z"}
	m := cfg.Pick(5, 8)
	pool := make([]c10Operand, 0, m)
	for len(pool) < m {
		var o c10Operand
		if rng.Chance(1, 4) {
			o = c10KindOperand(r, rng.Intn(len(c10Kinds)))
		} else {
			o = c10RandOperand(r, rng)
		}
		if o.Val == nil {
			m--
			continue
		}
		pool = append(pool, o)
	}
	n := 0
	for xi := range pool {
		for yi := range pool {
			if t.Arity == 1 && yi > 0 {
				break
			}
			ops := []c10Operand{pool[xi], pool[yi], pool[rng.Intn(len(pool))]}[:t.Arity]
			sc := rel.EmptyScope
			subst := map[string]string{}
			desc := t.Src + " where"
			for j, o := range ops {
				sc = sc.With(names[j], o.Val)
				subst[names[j]] = o.Src
				desc += " " + names[j] + "=" + o.Src
			}
			r.res.SubKeys = append(r.res.SubKeys, desc)
			c10Cur(cfg, desc)
			// entry is coarse here on purpose: known findings pin the (site, template) pairs of the
			// seed-independent core matrix; which template a random operand reaches a site through
			// varies with the seed and must not raise an alarm on the unchanged tree.
			out := c10Run(ctx, t.Src, sc, true, true)
			r.note("random-operands", desc, out, map[string]string{"template": t.Src, "mode": "live operands"})
			if n%cfg.Pick(6, 2) == 0 {
				src := c10Subst(t.Src, subst)
				out = c10Run(ctx, src, rel.EmptyScope, false, true)
				r.note("random-operands", src, out, map[string]string{"template": t.Src, "mode": "source text"})
			}
			n++
		}
	}
	if k%173 == 1 {
		r.res.Sample = fmt.Sprintf("template %q x all pairs of %d random operands (seed %d), e.g. %s", t.Src, len(pool), cfg.Seed, clip10(pool[0].Src, 120))
	}
	return r.finish()
}

// ---------------------------------------------------------------------------------------------
// Finish: aggregate what was observed, floors

func (c10) Finish(cfg *core.Config, agg *core.Aggregate) {
	modes := map[string]map[string]int{}
	sites := map[string]bool{}
	skipped := map[string]int{}
	mut := map[string]int{}
	fnres := 0
	tags := map[string]int{}
	cpu := map[string]int64{}
	casesSeen := 0
	for _, d := range agg.Data {
		var cd c10Data
		if err := jsonUnmarshal10(d.Data, &cd); err != nil {
			continue
		}
		if modes[cd.Gen] == nil {
			modes[cd.Gen] = map[string]int{}
		}
		for k, v := range cd.Modes {
			modes[cd.Gen][k] += v
		}
		for _, s := range cd.Sites {
			sites[s] = true
		}
		for k, v := range cd.Skipped {
			skipped[k] += v
		}
		for k, v := range cd.Mut {
			mut[k] += v
		}
		fnres += cd.Fns
		for _, t := range cd.Tags {
			tags[t]++
		}
		cpu[cd.Gen] += cd.CPUms
		casesSeen++
	}
	agg.Extra["cpu_ms_by_generator"] = cpu
	agg.Extra["cases_with_data"] = casesSeen
	var siteList []string
	for s := range sites {
		siteList = append(siteList, s)
	}
	sort.Strings(siteList)
	agg.Extra["outcomes_by_generator"] = modes
	agg.Extra["distinct_panic_sites_reached"] = len(siteList)
	agg.Extra["panic_sites_reached"] = siteList
	agg.Extra["skipped"] = skipped
	agg.Extra["mutations_applied"] = mut
	agg.Extra["templates"] = len(c10Tmpls)
	agg.Extra["operand_kinds"] = len(c10Kinds)
	fns := c10Std()
	agg.Extra["stdlib_functions_walked"] = len(fns)
	agg.Extra["stdlib_excluded_by_name"] = c10StdSkips
	agg.Extra["stdlib_function_valued_results_applied_further"] = fnres
	agg.Extra["corpus_programs"] = len(c10Corpus())
	agg.Extra["corpus_sources"] = c10CorpusStats
	agg.Extra["exhaustive"] = false

	// attribute child deaths / hangs to the program that was running; demote stack exhaustion of
	// fuzz programs that define functions (self-application cannot be excluded syntactically)
	p := c10GetPlan(cfg)
	kept := agg.Viols[:0]
	for _, v := range agg.Viols {
		if v.Sig.Clause == "no-crash" || v.Sig.Clause == "no-hang" {
			prog := c10LastProgram(cfg, v)
			if prog != "" {
				v.Detail = "program: " + clip10(prog, 600) + "\n" + v.Detail
			}
			if v.Case >= p.starts[5] && strings.Contains(v.Sig.Site, "stack") && strings.Contains(prog, `\`) {
				agg.Inconclusive = append(agg.Inconclusive, fmt.Sprintf("case %d: stack exhaustion in a fuzz program with function literals (possible self-application): %s", v.Case, clip10(prog, 200)))
				continue
			}
		}
		kept = append(kept, v)
	}
	agg.Viols = kept

	if os.Getenv("VERIF_C10_SLICE") == "random" {
		agg.Extra["sweep_mode"] = "seeded slice only (VERIF_C10_SLICE=random); floors not applied"
		return
	}
	// floors: an empty or crippled run must not pass
	for _, tag := range []string{"selftest/panic-caught", "selftest/nil-nil-caught", "selftest/parse-error-is-error", "selftest/value-is-value", "imp/control-ok"} {
		if tags[tag] == 0 {
			agg.Fail("floor: %s not observed (the monitor's own self-test failed)", tag)
		}
	}
	if tags["tmpl-case"] < len(p.opCaseT)*98/100 {
		agg.Fail("floor: only %d of %d operator-matrix cases ran", tags["tmpl-case"], len(p.opCaseT))
	}
	if len(fns) < 40 {
		agg.Fail("floor: only %d safe stdlib functions found by the walk", len(fns))
	}
	missing := 0
	for _, f := range fns {
		if tags["fn:"+f.Path] == 0 {
			missing++
		}
	}
	if missing > len(fns)/10 {
		agg.Fail("floor: %d of %d stdlib functions were never applied", missing, len(fns))
	}
	if len(c10Corpus()) < 300 {
		agg.Fail("floor: corpus has only %d programs", len(c10Corpus()))
	}
	for _, g := range []string{"op", "std", "oprand", "comp", "corpus", "mut", "gen"} {
		m := modes[g]
		if m["eval/value"] == 0 || m["eval/error"] == 0 {
			agg.Fail("floor: generator %s produced no value (%d) or no error (%d) outcome", g, m["eval/value"], m["eval/error"])
		}
	}
	for _, g := range []string{"corpus", "mut", "gen"} {
		if modes[g]["compile/error"] == 0 && g != "gen" {
			agg.Fail("floor: generator %s produced no compile error", g)
		}
	}
	if m := modes["mut"]; m["eval/value"]+m["eval/error"] < (m["compile/error"]+1)/20 {
		agg.Fail("floor: fewer than 5%% of mutated programs reached evaluation (%v)", m)
	}
}

// c10LastProgram finds the side file left by the worker that ran case v.Case.
func c10LastProgram(cfg *core.Config, v core.Violation) string {
	dir := filepath.Join(cfg.RunDir, "c10-cur")
	ents, _ := os.ReadDir(dir)
	tag := fmt.Sprintf("[case %d] ", v.Case)
	for _, e := range ents {
		b, err := os.ReadFile(filepath.Join(dir, e.Name()))
		if err == nil && strings.HasPrefix(string(b), tag) {
			s := strings.TrimPrefix(string(b), tag)
			if i := strings.IndexByte(s, 0); i >= 0 {
				s = s[:i]
			}
			return s
		}
	}
	return ""
}
