package checks

import (
	"context"
	"fmt"
	"net"
	"sync"

	pb "github.com/arr-ai/proto"
	"google.golang.org/grpc"
	"google.golang.org/grpc/credentials/insecure"

	"github.com/arr-ai/arrai/rel"
)

// gRPC client mode of the system layer: the server is still the real `arrai serve` process, but the
// clients are gRPC connections opened by the worker itself (what cmd/arrai/update.go and observe.go
// do, minus a second of process start-up each), one connection per operation like the CLI. An
// observer "dies" by having its TCP connection reset under the gRPC client (SO_LINGER 0 + close),
// which is what the kernel does to a SIGKILLed client process.

type c17Conn struct {
	cc  *grpc.ClientConn
	mu  sync.Mutex
	raw []net.Conn
}

func (s *c17SysRun) grpcDial() (*c17Conn, error) {
	c := &c17Conn{}
	cc, err := grpc.Dial(s.addr, grpc.WithTransportCredentials(insecure.NewCredentials()),
		grpc.WithContextDialer(func(ctx context.Context, addr string) (net.Conn, error) {
			nc, err := (&net.Dialer{}).DialContext(ctx, "tcp", addr)
			if err == nil {
				c.mu.Lock()
				c.raw = append(c.raw, nc)
				c.mu.Unlock()
			}
			return nc, err
		}))
	if err != nil {
		return nil, err
	}
	c.cc = cc
	s.mu.Lock()
	s.conns = append(s.conns, c)
	s.mu.Unlock()
	return c, nil
}

// reset tears the connection down the way a killed process's kernel does.
func (c *c17Conn) reset() {
	c.mu.Lock()
	for _, nc := range c.raw {
		if tc, ok := nc.(*net.TCPConn); ok {
			tc.SetLinger(0)
		}
		nc.Close()
	}
	c.mu.Unlock()
	c.cc.Close()
}

func (s *c17SysRun) grpcUpdate(src string) string {
	c, err := s.grpcDial()
	if err != nil {
		return "dial: " + err.Error()
	}
	defer c.cc.Close()
	stream, err := pb.NewArraiClient(c.cc).Update(context.Background())
	if err != nil {
		return c17ErrStr(err)
	}
	if err := stream.Send(&pb.UpdateReq{Expr: src}); err != nil {
		return c17ErrStr(err)
	}
	s.waiting.Add(1)
	_, err = stream.Recv()
	s.waiting.Add(-1)
	return c17ErrStr(err)
}

func (s *c17SysRun) grpcObserve(obs int, src string) (*c17SysObserver, error) {
	c, err := s.grpcDial()
	if err != nil {
		return nil, err
	}
	stream, err := pb.NewArraiClient(c.cc).Observe(context.Background(), &pb.ObserveReq{Expr: src})
	if err != nil {
		c.cc.Close()
		return nil, err
	}
	o := &c17SysObserver{first: make(chan struct{}), done: make(chan struct{}), kill: c.reset}
	go func() {
		var end error
		for {
			resp, err := stream.Recv()
			if err != nil {
				end = err
				break
			}
			// what cmd/arrai/observe.go prints
			line := ""
			if j, ok := resp.GetValue().GetChoice().(*pb.Value_Json); ok {
				if v, err := rel.UnmarshalFromJSON([]byte(j.Json)); err == nil {
					line = c17Str(v)
				} else {
					line = "<unmarshal: " + err.Error() + ">"
				}
			} else {
				line = fmt.Sprintf("<unexpected response %T>", resp.GetValue().GetChoice())
			}
			s.rec.add(c17Ev{E: "val", Client: -1, Op: -1, Obs: obs, Val: line})
			o.once.Do(func() { close(o.first) })
		}
		s.rec.add(c17Ev{E: "close", Client: -1, Op: -1, Obs: obs, Err: c17ErrStr(end)})
		o.once.Do(func() { close(o.first) })
		close(o.done)
	}()
	return o, nil
}
