package checks

import (
	"fmt"
	"sort"
	"strconv"
	"strings"

	"verif/core"

	"github.com/arr-ai/arrai/rel"
)

// C09 workload: pattern enumeration (small-scope exhaustive core + structured nesting + seeded
// random), values derived from each pattern (instances, one-step near misses, wrong kinds) and the
// construction paths through which each value is realised.

// ---- constructors ----

func c09N(name string) *c09Pat { return &c09Pat{K: 'n', Name: name} }
func c09W() *c09Pat            { return &c09Pat{K: '_'} }
func c09L(src string, v MV) *c09Pat {
	return &c09Pat{K: 'l', Src: src, Val: v}
}
func c09E(src string, v MV) *c09Pat { return &c09Pat{K: 'e', Src: src, Val: v} }

func c09I(p *c09Pat) c09Item           { return c09Item{P: p} }
func c09R(name string) c09Item         { return c09Item{Rest: true, RName: name} }
func c09A(k string, p *c09Pat) c09Item { return c09Item{Key: k, P: p} }
func c09AS(k string) c09Item           { return c09Item{Key: k, P: c09N(k), Short: true} }
func c09D(k c09Lit, p *c09Pat) c09Item {
	return c09Item{KeySrc: k.Src, KeyV: k.Val, P: p}
}
func (it c09Item) fb(f c09Lit) c09Item {
	it.FB, it.FBSrc, it.FBVal = true, f.Src, f.Val
	return it
}

func c09Arr(items ...c09Item) *c09Pat  { return &c09Pat{K: 'a', Items: items} }
func c09Tup(items ...c09Item) *c09Pat  { return &c09Pat{K: 't', Items: items} }
func c09Dict(items ...c09Item) *c09Pat { return &c09Pat{K: 'd', Items: items} }
func c09Set(items ...c09Item) *c09Pat  { return &c09Pat{K: 's', Items: items} }

type c09Lit struct {
	Src string
	Val MV
}

// outer scope available to (expr) patterns: k = 2, k2 = [1, 2]
var (
	c09K  = num(2)
	c09K2 = core.MArr(num(1), num(2))

	c09FB5  = c09Lit{"5", num(5)}
	c09FBs  = c09Lit{`"d"`, core.MStr("d")}
	c09FBa  = c09Lit{"[7]", core.MArr(num(7))}
	c09FBt  = c09Lit{"(q: 1)", mtup("q", num(1))}
	c09FBe  = c09Lit{"{}", mset()}
	c09Keys = []c09Lit{{`"p"`, core.MStr("p")}, {"1", num(1)}, {`"q"`, core.MStr("q")}, {"[1]", core.MArr(num(1))}}
)

func c09Leaves(level int) []*c09Pat {
	ls := []*c09Pat{c09N("a"), c09N("b"), c09W(), c09L("1", num(1))}
	if level >= 1 {
		ls = append(ls, c09E("(k)", c09K), c09L(`"s"`, core.MStr("s")))
	}
	if level >= 2 {
		ls = append(ls, c09L("true", core.MTrue), c09E("(1 + 1)", num(2)), c09E("(k2)", c09K2), c09N("c"),
			c09E("(-1)", num(-1)), c09L("0.5", num(0.5)))
	}
	return ls
}

// c09Seqs: all sequences over xs with length lo..hi.
func c09Seqs(xs []*c09Pat, lo, hi int) [][]*c09Pat {
	var out [][]*c09Pat
	cur := [][]*c09Pat{{}}
	for l := 0; l <= hi; l++ {
		if l >= lo {
			out = append(out, cur...)
		}
		var next [][]*c09Pat
		for _, s := range cur {
			for _, x := range xs {
				next = append(next, append(append([]*c09Pat{}, s...), x))
			}
		}
		cur = next
	}
	return out
}

func c09Items(ps []*c09Pat) []c09Item {
	out := make([]c09Item, len(ps))
	for i, p := range ps {
		out[i] = c09I(p)
	}
	return out
}

func c09InsertAt(items []c09Item, at int, x c09Item) []c09Item {
	out := append([]c09Item{}, items[:at]...)
	out = append(out, x)
	return append(out, items[at:]...)
}

// c09Flat enumerates the depth-1 patterns (seed-independent). big widens the alphabets.
func c09Flat(big bool) []*c09Pat {
	var out []*c09Pat
	l0, l1 := c09Leaves(0), c09Leaves(1)
	if big {
		l0, l1 = c09Leaves(1), c09Leaves(2)
	}
	// atoms
	out = append(out, c09Leaves(2)...)
	out = append(out, c09L("{}", mset()), c09L("()", mtup()), c09L(`"ab"`, core.MStr("ab")), c09L("2", num(2)))

	// arrays
	for _, s := range c09Seqs(l1, 0, 2) {
		out = append(out, c09Arr(c09Items(s)...))
	}
	for _, s := range c09Seqs(l0, 3, 3) {
		out = append(out, c09Arr(c09Items(s)...))
	}
	for _, s := range c09Seqs(l0, 0, 2) {
		for at := 0; at <= len(s); at++ {
			for _, rn := range []string{"r", ""} {
				out = append(out, c09Arr(c09InsertAt(c09Items(s), at, c09R(rn))...))
			}
		}
		for _, fn := range []*c09Pat{c09N("b"), c09N("c"), c09W()} {
			out = append(out, c09Arr(append(c09Items(s), c09I(fn).fb(c09FB5))...))
		}
	}
	// tuples: attribute names x, y (, z)
	tl := l1
	for _, p := range tl {
		out = append(out, c09Tup(c09A("x", p)))
		for _, q := range tl {
			out = append(out, c09Tup(c09A("x", p), c09A("y", q)))
		}
		for at := 0; at <= 1; at++ {
			for _, rn := range []string{"r", ""} {
				out = append(out, c09Tup(c09InsertAt([]c09Item{c09A("x", p)}, at, c09R(rn))...))
			}
		}
		// fallbacks (tuples accept several, and together with a rest)
		out = append(out,
			c09Tup(c09A("x", p).fb(c09FB5)),
			c09Tup(c09A("x", p).fb(c09FB5), c09A("y", c09N("b"))),
			c09Tup(c09A("y", c09N("b")), c09A("x", p).fb(c09FBs)),
			c09Tup(c09A("x", p).fb(c09FB5), c09R("r")),
			c09Tup(c09A("x", p).fb(c09FB5), c09A("y", c09N("b")).fb(c09FBa)),
		)
	}
	for _, p := range l0 {
		for _, q := range l0 {
			for at := 0; at <= 2; at++ {
				out = append(out, c09Tup(c09InsertAt([]c09Item{c09A("x", p), c09A("y", q)}, at, c09R("r"))...))
			}
			for _, w := range l0 {
				if big || (p.K == 'n' && w.K != '_') {
					out = append(out, c09Tup(c09A("x", p), c09A("y", q), c09A("z", w)))
				}
			}
		}
	}
	out = append(out, c09Tup(), c09Tup(c09R("r")), c09Tup(c09R("")), c09Tup(c09AS("x")), c09Tup(c09AS("x"), c09AS("y")),
		c09Tup(c09AS("x"), c09R("r")), c09Tup(c09AS("x").fb(c09FB5)), c09Tup(c09AS("x").fb(c09FB5), c09AS("y").fb(c09FBs)),
		c09Tup(c09AS("x").fb(c09FB5), c09A("y", c09L("2", num(2)))), c09Tup(c09AS("x").fb(c09FB5), c09A("y", c09L("2", num(2))), c09R("r")),
		c09Tup(c09AS("x").fb(c09FB5), c09AS("y").fb(c09FBs), c09AS("z").fb(c09FBa)))

	// dicts: keys "p", 1 (, "q", [1])
	keys := c09Keys[:2]
	if big {
		keys = c09Keys[:3]
	}
	dl0 := c09Leaves(0)
	for _, p := range c09Leaves(1) {
		for ki, k := range keys {
			out = append(out, c09Dict(c09D(k, p)))
			out = append(out, c09Dict(c09D(k, p).fb(c09FB5)))
			for _, rn := range []string{"r", ""} {
				out = append(out, c09Dict(c09D(k, p), c09R(rn)), c09Dict(c09R(rn), c09D(k, p)))
			}
			for kj, k2 := range keys {
				if ki == kj {
					continue
				}
				for _, q := range dl0 {
					out = append(out, c09Dict(c09D(k, p), c09D(k2, q)))
					if q.K != '_' {
						out = append(out, c09Dict(c09D(k, p), c09D(k2, q).fb(c09FBs)), c09Dict(c09D(k2, q).fb(c09FBs), c09D(k, p)))
						out = append(out, c09Dict(c09D(k, p), c09D(k2, q), c09R("r")), c09Dict(c09D(k, p), c09R("r"), c09D(k2, q)),
							c09Dict(c09R("r"), c09D(k, p), c09D(k2, q)))
					}
				}
			}
		}
	}

	// sets: literal members + at most one free name or one rest
	slits := []*c09Pat{c09L("1", num(1)), c09L(`"s"`, core.MStr("s")), c09E("(k)", c09K), c09L("3", num(3))}
	if big {
		slits = append(slits, c09L("true", core.MTrue), c09E("(k2)", c09K2))
	}
	var subsets [][]*c09Pat
	for mask := 0; mask < 1<<len(slits); mask++ {
		var ss []*c09Pat
		for i, l := range slits {
			if mask&(1<<i) != 0 {
				ss = append(ss, l)
			}
		}
		if len(ss) <= 2 || (big && len(ss) <= 3) {
			subsets = append(subsets, ss)
		}
	}
	for _, ss := range subsets {
		if len(ss) > 0 {
			out = append(out, c09Set(c09Items(ss)...))
		}
		for _, ex := range []c09Item{c09I(c09N("a")), c09I(c09W()), c09R("r"), c09R("")} {
			out = append(out, c09Set(append(c09Items(ss), ex)...))
			if len(ss) > 0 {
				out = append(out, c09Set(append([]c09Item{ex}, c09Items(ss)...)...))
			}
		}
	}
	return out
}

// c09Children: representative depth-1 patterns used as children when nesting.
func c09Children(big bool) []*c09Pat {
	a, b, one := c09N("a"), c09N("b"), c09L("1", num(1))
	p, q := c09Keys[0], c09Keys[1]
	cs := []*c09Pat{
		c09Arr(), c09Arr(c09I(a)), c09Arr(c09I(a), c09I(b)), c09Arr(c09I(one), c09I(a)), c09Arr(c09I(a), c09I(a)),
		c09Arr(c09I(a), c09R("r")), c09Arr(c09R("r"), c09I(a)), c09Arr(c09I(a), c09R("")), c09Arr(c09I(a), c09I(b).fb(c09FB5)),
		c09Tup(), c09Tup(c09A("x", a)), c09Tup(c09A("x", a), c09A("y", b)), c09Tup(c09A("x", a), c09R("r")), c09Tup(c09A("x", a).fb(c09FB5)),
		c09Tup(c09AS("x")), c09Tup(c09A("x", one), c09R("")),
		c09Dict(c09D(p, a)), c09Dict(c09D(p, a), c09D(q, b)), c09Dict(c09D(p, a), c09R("r")), c09Dict(c09D(p, a).fb(c09FB5)),
		c09Set(c09I(one), c09I(a)), c09Set(c09I(one), c09R("r")), c09Set(c09I(a)), c09Set(c09I(one)),
	}
	if big {
		cs = append(cs, c09Arr(c09I(a), c09I(b), c09I(c09N("c"))), c09Arr(c09I(a), c09R("r"), c09I(b)), c09Arr(c09I(c09W()), c09I(b).fb(c09FBa)),
			c09Tup(c09A("x", a).fb(c09FB5), c09R("r")), c09Tup(c09R("r"), c09A("y", b)), c09Dict(c09R("r"), c09D(q, b)),
			c09Dict(c09D(p, c09W()), c09D(q, b).fb(c09FBs)), c09Set(c09I(c09E("(k)", c09K)), c09I(c09W())), c09Set(c09R("r")))
	}
	return cs
}

type c09Frame struct {
	slots int
	mk    func(s ...*c09Pat) *c09Pat
}

func c09Frames() []c09Frame {
	b, c, one := c09N("b"), c09N("c"), c09L("1", num(1))
	p, q := c09Keys[0], c09Keys[1]
	return []c09Frame{
		{1, func(s ...*c09Pat) *c09Pat { return c09Arr(c09I(s[0])) }},
		{1, func(s ...*c09Pat) *c09Pat { return c09Arr(c09I(s[0]), c09I(b)) }},
		{1, func(s ...*c09Pat) *c09Pat { return c09Arr(c09I(c), c09I(s[0])) }},
		{1, func(s ...*c09Pat) *c09Pat { return c09Arr(c09I(s[0]), c09R("t")) }},
		{1, func(s ...*c09Pat) *c09Pat { return c09Arr(c09R("t"), c09I(s[0])) }},
		{1, func(s ...*c09Pat) *c09Pat { return c09Arr(c09I(one), c09I(s[0]), c09R("")) }},
		{1, func(s ...*c09Pat) *c09Pat { return c09Arr(c09I(s[0]), c09I(c).fb(c09FBs)) }},
		{1, func(s ...*c09Pat) *c09Pat { return c09Tup(c09A("x", s[0])) }},
		{1, func(s ...*c09Pat) *c09Pat { return c09Tup(c09A("w", s[0]), c09A("y", b)) }},
		{1, func(s ...*c09Pat) *c09Pat { return c09Tup(c09A("w", s[0]), c09R("t")) }},
		{1, func(s ...*c09Pat) *c09Pat { return c09Tup(c09A("w", s[0]).fb(c09FBt), c09A("y", b)) }},
		{1, func(s ...*c09Pat) *c09Pat { return c09Dict(c09D(p, s[0])) }},
		{1, func(s ...*c09Pat) *c09Pat { return c09Dict(c09D(q, s[0]), c09R("t")) }},
		{1, func(s ...*c09Pat) *c09Pat { return c09Dict(c09D(p, s[0]), c09D(q, c)) }},
		{1, func(s ...*c09Pat) *c09Pat { return c09Dict(c09D(p, s[0]).fb(c09FBe)) }},
		{1, func(s ...*c09Pat) *c09Pat { return c09Set(c09I(s[0])) }},
		{2, func(s ...*c09Pat) *c09Pat { return c09Arr(c09I(s[0]), c09I(s[1])) }},
		{2, func(s ...*c09Pat) *c09Pat { return c09Tup(c09A("x", s[0]), c09A("y", s[1])) }},
		{2, func(s ...*c09Pat) *c09Pat { return c09Dict(c09D(p, s[0]), c09D(q, s[1])) }},
		{2, func(s ...*c09Pat) *c09Pat { return c09Arr(c09I(s[0]), c09R("t"), c09I(s[1])) }},
	}
}

// c09Nested: depth-2 and depth-3 patterns from frames x children.
func c09Nested(big bool) []*c09Pat {
	var out []*c09Pat
	ch := c09Children(big)
	frames := c09Frames()
	for _, f := range frames {
		if f.slots == 1 {
			for _, c := range ch {
				out = append(out, f.mk(c))
			}
			continue
		}
		for i, c := range ch {
			step := 5
			if big {
				step = 1
			}
			for j := i % step; j < len(ch); j += step {
				out = append(out, f.mk(c, ch[j]))
			}
		}
	}
	// depth 3: frame(frame(child)) on a sub-sample
	one := []c09Frame{}
	for _, f := range frames {
		if f.slots == 1 {
			one = append(one, f)
		}
	}
	for i, f := range one {
		for j, g := range one {
			step := 6
			if big {
				step = 2
			}
			for k := (i + 2*j) % step; k < len(ch); k += step {
				out = append(out, f.mk(g.mk(ch[k])))
			}
		}
	}
	return out
}

// c09Outside: shapes the implementation refuses by design ("non-deterministic pattern is not
// supported yet"); the statement is silent on them. Observed for coverage (`refused`), never judged.
func c09Outside() []*c09Pat {
	a, b := c09N("a"), c09N("b")
	p, q := c09Keys[0], c09Keys[1]
	return []*c09Pat{
		c09Arr(c09R("r"), c09I(a), c09R("t")),
		c09Arr(c09R(""), c09R("")),
		c09Arr(c09I(a), c09R("r"), c09I(b).fb(c09FB5)),
		c09Arr(c09I(a).fb(c09FB5), c09I(b).fb(c09FB5)),
		c09Arr(c09I(a).fb(c09FB5), c09I(b)),
		c09Dict(c09D(p, a).fb(c09FB5), c09R("r")),
		c09Dict(c09D(p, a).fb(c09FB5), c09D(q, b).fb(c09FB5)),
		c09Dict(c09R("r"), c09R("t")),
		c09Tup(c09R("r"), c09R("t")),
		c09Set(c09I(a), c09I(b)),
		c09Set(c09I(a), c09R("r")),
		c09Set(c09R("r"), c09R("t")),
		c09Set(c09I(c09L("1", num(1))), c09I(a), c09I(b)),
		c09Set(c09I(c09Arr(c09I(a), c09I(c09L("1", num(1))))), c09I(c09L("5", num(5)))),
	}
}

func c09Dedupe(ps []*c09Pat) []*c09Pat {
	seen := map[string]bool{}
	var out []*c09Pat
	for _, p := range ps {
		s := p.src()
		if seen[s] {
			continue
		}
		seen[s] = true
		out = append(out, p)
	}
	return out
}

// ---- random patterns ----

func c09RandPat(r *core.Rng, depth int) *c09Pat {
	leaves := c09Leaves(2)
	if depth <= 0 || r.Chance(1, 4) {
		return core.Pick(r, leaves)
	}
	sub := func() *c09Pat {
		if r.Chance(2, 5) {
			return c09RandPat(r, depth-1)
		}
		return core.Pick(r, leaves)
	}
	fbs := []c09Lit{c09FB5, c09FBs, c09FBa, c09FBt, c09FBe}
	restName := func() string { return core.Pick(r, []string{"r", "t", ""}) }
	switch r.Intn(4) {
	case 0: // array
		n := r.Range(0, 4)
		var items []c09Item
		for i := 0; i < n; i++ {
			items = append(items, c09I(sub()))
		}
		switch r.Intn(4) {
		case 0:
			items = c09InsertAt(items, r.Intn(len(items)+1), c09R(restName()))
		case 1:
			items = append(items, c09I(core.Pick(r, []*c09Pat{c09N("b"), c09N("c"), c09N("d"), c09W()})).fb(core.Pick(r, fbs)))
		}
		return c09Arr(items...)
	case 1: // tuple
		attrs := []string{"x", "y", "z", "w"}
		core.Shuffle(r, attrs)
		n := r.Range(0, 3)
		var items []c09Item
		for i := 0; i < n; i++ {
			var it c09Item
			if r.Chance(1, 5) {
				it = c09AS(attrs[i])
			} else {
				it = c09A(attrs[i], sub())
			}
			if r.Chance(1, 4) {
				it = it.fb(core.Pick(r, fbs))
			}
			items = append(items, it)
		}
		if r.Chance(1, 3) {
			items = c09InsertAt(items, r.Intn(len(items)+1), c09R(restName()))
		}
		return c09Tup(items...)
	case 2: // dict
		keys := append([]c09Lit{}, c09Keys...)
		core.Shuffle(r, keys)
		n := r.Range(1, 3)
		var items []c09Item
		for i := 0; i < n; i++ {
			items = append(items, c09D(keys[i], sub()))
		}
		switch r.Intn(4) {
		case 0:
			items = c09InsertAt(items, r.Intn(len(items)+1), c09R(restName()))
		case 1:
			k := r.Intn(len(items))
			if items[k].P.K == 'n' || items[k].P.K == '_' || items[k].P.container() {
				items[k] = items[k].fb(core.Pick(r, fbs))
			}
		}
		return c09Dict(items...)
	}
	// set
	if r.Chance(1, 4) {
		return c09Set(c09I(c09RandPat(r, depth-1)))
	}
	lits := []*c09Pat{c09L("1", num(1)), c09L(`"s"`, core.MStr("s")), c09E("(k)", c09K), c09L("3", num(3)), c09E("(k2)", c09K2), c09L("true", core.MTrue)}
	core.Shuffle(r, lits)
	items := c09Items(lits[:r.Range(0, 3)])
	switch r.Intn(4) {
	case 0:
		items = c09InsertAt(items, r.Intn(len(items)+1), c09I(c09N(core.Pick(r, []string{"a", "b"}))))
	case 1:
		items = c09InsertAt(items, r.Intn(len(items)+1), c09R(restName()))
	case 2:
		items = c09InsertAt(items, r.Intn(len(items)+1), c09I(c09W()))
	}
	if len(items) == 0 {
		items = append(items, c09R("r"))
	}
	return c09Set(items...)
}

// ---- values ----

// c09Inst builds a value that p matches by construction; variant selects name values, the size
// of rests and whether fallback components are present.
type c09Inst struct {
	variant int
	r       *core.Rng
	wild    int
}

var c09Pools = [][]MV{
	{num(1), num(2), num(3), num(4)},
	{core.MStr("s"), core.MArr(num(1), num(2)), mtup("x", num(1)), mset()},
	{num(1), num(1), core.MBytesOff(0, 1), core.MStr("1")},
	{core.MArr(num(1), num(2)), num(2), core.MDict(core.MStr("p"), num(1)), mset(num(1), num(2))},
}

func (c *c09Inst) nameVal(name string) MV {
	idx := 3
	switch name {
	case "a":
		idx = 0
	case "b":
		idx = 1
	case "c":
		idx = 2
	}
	if c.r != nil && c.r.Chance(1, 3) {
		return c09RandLeafVal(c.r)
	}
	pool := c09Pools[c.variant%len(c09Pools)]
	return pool[idx%len(pool)]
}

func c09RandLeafVal(r *core.Rng) MV {
	switch r.Intn(7) {
	case 0:
		return core.MStr(string(rune('a' + r.Intn(3))))
	case 1:
		return core.MArr(num(float64(r.Intn(3))), num(float64(r.Intn(3))))
	case 2:
		return mtup("x", num(float64(r.Intn(3))))
	case 3:
		return randValue(r, r.Chance(2, 3), 1)
	}
	return num(float64(r.Range(0, 4)))
}

func (c *c09Inst) build(p *c09Pat) MV {
	switch p.K {
	case 'n':
		return c.nameVal(p.Name)
	case '_':
		c.wild++
		return []MV{num(7), core.MStr("w"), mtup("zz", num(1)), core.MArr(num(7))}[(c.variant+c.wild)%4]
	case 'l', 'e':
		return p.Val
	}
	nExtra := c.variant % 3
	present := c.variant%3 != 0
	switch p.K {
	case 'a':
		var items []MV
		for _, it := range p.Items {
			switch {
			case it.Rest:
				for i := 0; i < nExtra; i++ {
					items = append(items, []MV{num(9), core.MStr("s")}[i%2])
				}
			case it.FB:
				if present {
					if c.variant%3 == 2 {
						items = append(items, it.FBVal)
					} else {
						items = append(items, c.build(it.P))
					}
				}
			default:
				items = append(items, c.build(it.P))
			}
		}
		return core.MArr(items...)
	case 't':
		m := map[string]MV{}
		for _, it := range p.Items {
			switch {
			case it.Rest:
				for i := 0; i < nExtra; i++ {
					m[[]string{"zz", "yy"}[i%2]] = []MV{num(1), core.MArr(num(1))}[i%2]
				}
			case it.FB:
				if present {
					m[it.Key] = c.build(it.P)
				}
			default:
				m[it.Key] = c.build(it.P)
			}
		}
		return core.Tup(m)
	case 'd':
		var ms []MV
		for _, it := range p.Items {
			switch {
			case it.Rest:
				for i := 0; i < nExtra; i++ {
					ms = append(ms, mpair(core.MStr([]string{"zz", "yy"}[i%2]), "@value", num(float64(i+1))))
				}
			case it.FB:
				if present {
					ms = append(ms, mpair(it.KeyV, "@value", c.build(it.P)))
				}
			default:
				ms = append(ms, mpair(it.KeyV, "@value", c.build(it.P)))
			}
		}
		return mset(ms...)
	}
	var ms []MV
	for _, it := range p.Items {
		switch {
		case it.Rest:
			for i := 0; i < nExtra; i++ {
				ms = append(ms, num(float64(8+i)))
			}
		case it.P.K == 'n' || it.P.K == '_':
			ms = append(ms, []MV{num(41), core.MStr("z"), core.MArr(num(4))}[c.variant%3])
		default:
			ms = append(ms, c.build(it.P))
		}
	}
	return mset(ms...)
}

// c09SeqPayload: v is a non-empty set whose members are all (@: int, <payload>: x) for one payload.
func c09SeqPayload(v MV) string {
	if v.K != 's' || len(v.S) == 0 {
		return ""
	}
	pay := ""
	for _, e := range v.S {
		if e.K != 't' || len(e.T) != 2 {
			return ""
		}
		at, ok := e.T["@"]
		if !ok || at.K != 'n' || at.N != float64(int(at.N)) {
			return ""
		}
		found := ""
		for _, p := range []string{"@item", "@char", "@byte"} {
			if _, ok := e.T[p]; ok {
				found = p
			}
		}
		if found == "" || (pay != "" && pay != found) {
			return ""
		}
		pay = found
	}
	return pay
}

// c09Mutants: one-step edits of v (near misses), recursive down to depth.
func c09Mutants(v MV, depth int) []MV {
	var out []MV
	switch v.K {
	case 'n':
		out = append(out, num(v.N+1), core.MStr(strconv.FormatFloat(v.N, 'g', -1, 64)))
	case 't':
		ks := make([]string, 0, len(v.T))
		for k := range v.T {
			ks = append(ks, k)
		}
		sort.Strings(ks)
		cp := func() map[string]MV {
			m := map[string]MV{}
			for k, x := range v.T {
				m[k] = x
			}
			return m
		}
		for _, k := range ks {
			m := cp()
			delete(m, k)
			out = append(out, core.Tup(m))
		}
		m := cp()
		m["zz"] = num(1)
		out = append(out, core.Tup(m))
		if len(ks) > 0 {
			m := cp()
			m[ks[0]+"2"] = m[ks[0]]
			delete(m, ks[0])
			out = append(out, core.Tup(m))
		}
		if depth > 0 {
			for _, k := range ks {
				for _, mu := range c09Mutants(v.T[k], depth-1) {
					m := cp()
					m[k] = mu
					out = append(out, core.Tup(m))
				}
			}
		}
	case 's':
		if len(v.S) == 0 {
			return []MV{core.MArr(num(7)), mset(num(7))}
		}
		without := func(i int) MV {
			ms := append([]MV{}, v.S[:i]...)
			return mset(append(ms, v.S[i+1:]...)...)
		}
		replace := func(i int, e MV) MV {
			ms := append([]MV{}, v.S...)
			ms[i] = e
			return mset(ms...)
		}
		if pay := c09SeqPayload(v); pay != "" {
			idx := make([]int, len(v.S))
			order := make([]int, len(v.S))
			for i, e := range v.S {
				idx[i] = int(e.T["@"].N)
				order[i] = i
			}
			sort.Slice(order, func(a, b int) bool { return idx[order[a]] < idx[order[b]] })
			first, last := order[0], order[len(order)-1]
			extra := MV(num(9))
			if pay != "@item" {
				extra = num(99)
			}
			out = append(out, without(last))
			if len(v.S) > 1 {
				out = append(out, without(first)) // offset
			}
			if len(v.S) > 2 {
				out = append(out, without(order[1])) // hole
			}
			out = append(out, mset(append(append([]MV{}, v.S...), mpair(num(float64(idx[last]+1)), pay, extra))...)) // longer
			out = append(out, mset(append(append([]MV{}, v.S...), mpair(num(float64(idx[last]+2)), pay, extra))...)) // longer, with hole
			for _, d := range []int{1, -1} {
				var ms []MV
				for _, e := range v.S {
					ms = append(ms, mpair(num(e.T["@"].N+float64(d)), pay, e.T[pay]))
				}
				out = append(out, mset(ms...)) // offset
			}
			if len(v.S) > 1 && v.S[first].T[pay].Enc != v.S[order[1]].T[pay].Enc {
				ms := append([]MV{}, v.S...)
				ms[first] = mpair(num(float64(idx[first])), pay, v.S[order[1]].T[pay])
				ms[order[1]] = mpair(num(float64(idx[order[1]])), pay, v.S[first].T[pay])
				out = append(out, mset(ms...)) // swapped
			}
			if pay == "@item" {
				var ms []MV
				for _, e := range v.S {
					ms = append(ms, mpair(e.T["@"], "@value", e.T[pay]))
				}
				out = append(out, mset(ms...)) // dict with the same keys
				if depth > 0 {
					for _, i := range order {
						for _, mu := range c09Mutants(v.S[i].T[pay], depth-1) {
							out = append(out, replace(i, mpair(v.S[i].T["@"], pay, mu)))
						}
					}
				}
			}
			return out
		}
		isDict := true
		for _, e := range v.S {
			if e.K != 't' || len(e.T) != 2 {
				isDict = false
				break
			}
			_, ok1 := e.T["@"]
			_, ok2 := e.T["@value"]
			if !ok1 || !ok2 {
				isDict = false
				break
			}
		}
		if isDict {
			for i := range v.S {
				out = append(out, without(i))
			}
			out = append(out, mset(append(append([]MV{}, v.S...), mpair(core.MStr("zz"), "@value", num(1)))...))
			k0 := v.S[0].T["@"]
			var k1 MV
			if k0.K == 'n' {
				k1 = num(k0.N + 1)
			} else {
				k1 = core.MStr("p2")
			}
			out = append(out, replace(0, mpair(k1, "@value", v.S[0].T["@value"])))
			out = append(out, mset(append(append([]MV{}, v.S...), mpair(k0, "@value", num(77)))...)) // multi-valued key
			if depth > 0 {
				for i, e := range v.S {
					for _, mu := range c09Mutants(e.T["@value"], depth-1) {
						out = append(out, replace(i, mpair(e.T["@"], "@value", mu)))
					}
				}
			}
			return out
		}
		out = append(out, without(0), mset(append(append([]MV{}, v.S...), num(99))...))
		if len(v.S) > 1 {
			out = append(out, without(len(v.S)-1))
		}
		if depth > 0 {
			for i := 0; i < len(v.S) && i < 2; i++ {
				for _, mu := range c09Mutants(v.S[i], depth-1) {
					out = append(out, replace(i, mu))
				}
			}
		}
	}
	return out
}

var c09Generic = []MV{
	num(1), core.MStr("s"), core.MStr("ab"), mtup(), mset(), core.MArr(num(1), num(2)), core.MDict(num(1), num(2)),
	mset(num(1), num(2)), mtup("x", num(1)), core.MTrue, core.MBytesOff(0, 1), core.MArr(num(1), MV{}, num(2)),
	core.MArrOff(1, num(1), num(2)), core.MDict(core.MStr("p"), num(1)), core.MArr(num(1)),
}

// c09ValuesFor: the value workload of one case (patterns ps share it). Deterministic; r adds
// seeded variation for the random slice.
func c09ValuesFor(ps []*c09Pat, r *core.Rng, maxN int) []MV {
	seen := map[string]bool{}
	var out []MV
	add := func(v MV) {
		if !seen[v.Enc] && len(v.Enc) < 1500 {
			seen[v.Enc] = true
			out = append(out, v)
		}
	}
	var insts []MV
	for _, p := range ps {
		for variant := 0; variant < 4; variant++ {
			in := (&c09Inst{variant: variant}).build(p)
			insts = append(insts, in)
			add(in)
		}
		if r != nil {
			for k := 0; k < 3; k++ {
				in := (&c09Inst{variant: r.Intn(12), r: r}).build(p)
				insts = append(insts, in)
				add(in)
			}
		}
	}
	// near misses: interleave the mutants of the instances so that every instance contributes
	var muts [][]MV
	for i, in := range insts {
		if i < 8 || r != nil {
			muts = append(muts, c09Mutants(in, 2))
		}
	}
	for k := 0; len(out) < maxN; k++ {
		any := false
		for _, m := range muts {
			if k < len(m) {
				any = true
				add(m[k])
			}
		}
		if !any {
			break
		}
	}
	for _, g := range c09Generic {
		add(g)
	}
	if r != nil {
		for k := 0; k < 4; k++ {
			add(randValue(r, k%2 == 0, 1))
		}
	}
	return out
}

// ---- construction paths ----
//
// Parsing closed source text costs milliseconds per value, so most values are realised through
// compiled TEMPLATES evaluated by the real evaluator with the already-built children bound by name:
// `[x0__, x1__]`, `{(@: 0, @item: x0__), ...}`, `(a: x0__) +> (b: x1__)`, `x0__ where true`,
// `x0__ with x1__`, ... (the same path kinds as universe.go pathsFor, applied at every nesting level).
// The equivalent closed source text is assembled alongside for details and replays. A rotating
// pathsFor program (closed text, parsed) is added at a lower rate.

type c09Built struct {
	Val rel.Value
	Src string
}

func c09Ph(i int) string { return "x" + strconv.Itoa(i) + "__" }

// c09EvalNode evaluates template tmpl (placeholders x0__..) over the built children.
func c09EvalNode(tmpl string, kids []c09Built) (c09Built, error) {
	binds := make([]interface{}, 0, 2*len(kids))
	src := tmpl
	for i := len(kids) - 1; i >= 0; i-- {
		binds = append(binds, c09Ph(i), kids[i].Val)
		src = strings.ReplaceAll(src, c09Ph(i), kids[i].Src)
	}
	o := core.EvalT(tmpl, binds...)
	if !o.OK() {
		return c09Built{}, fmt.Errorf("%s: %s", src, outcomeText(o))
	}
	return c09Built{o.Val, src}, nil
}

// c09Build realises m bottom-up. alt=false: sugar literals at every level; alt=true: h selects an
// alternative construction per node.
func c09Build(m MV, h uint64, alt, top bool) (c09Built, error) {
	h2 := h*0x9E3779B97F4A7C15 + 0x7F4A7C15
	kidsOf := func(ms []MV) ([]c09Built, error) {
		out := make([]c09Built, len(ms))
		for i, k := range ms {
			b, err := c09Build(k, h2+uint64(i)*0x51ED27, alt, false)
			if err != nil {
				return nil, err
			}
			out[i] = b
		}
		return out, nil
	}
	switch m.K {
	case 'n':
		b := c09Built{rel.NewNumber(m.N), core.Src(m)}
		if alt && !top && h%4 == 1 {
			return c09EvalNode("(x0__ + 1 - 1)", []c09Built{b})
		}
		return b, nil
	case 't':
		if len(m.T) == 0 {
			return c09EvalNode("()", nil)
		}
		ks := make([]string, 0, len(m.T))
		ms := make([]MV, 0, len(m.T))
		for k := range m.T {
			ks = append(ks, k)
		}
		sort.Strings(ks)
		for _, k := range ks {
			ms = append(ms, m.T[k])
		}
		kids, err := kidsOf(ms)
		if err != nil {
			return c09Built{}, err
		}
		parts := make([]string, len(ks))
		for i, k := range ks {
			parts[i] = core.AttrName(k) + ": " + c09Ph(i)
		}
		if alt && len(parts) >= 2 && h%2 == 1 {
			return c09EvalNode("(("+parts[0]+") +> ("+strings.Join(parts[1:], ", ")+"))", kids)
		}
		return c09EvalNode("("+strings.Join(parts, ", ")+")", kids)
	case 's':
	default:
		return c09Built{}, fmt.Errorf("cannot build %s", m.Enc)
	}
	if len(m.S) == 0 {
		return c09EvalNode("{}", nil)
	}
	var base c09Built
	var err error
	cls := core.Classify(m)
	mode := h % 3
	if !alt {
		mode = 0
	}
	switch {
	case strings.HasPrefix(cls, "arr") && !strings.Contains(cls, "super") && !core.SeqShape(m, "@item").NonInt:
		si := core.SeqShape(m, "@item")
		ms := make([]MV, len(m.S))
		for i, e := range m.S {
			ms[i] = e.T["@item"]
		}
		kids, kerr := kidsOf(ms)
		if kerr != nil {
			return c09Built{}, kerr
		}
		if mode != 2 {
			slots := make([]string, si.Hi-si.Lo+1)
			for i, e := range m.S {
				slots[int(e.T["@"].N)-si.Lo] = c09Ph(i)
			}
			t := "[" + strings.Join(slots, ", ") + "]"
			if si.Lo != 0 {
				t = "(" + strconv.Itoa(si.Lo) + "\\" + t + ")"
			}
			base, err = c09EvalNode(t, kids)
		} else {
			parts := make([]string, len(m.S))
			for i, e := range m.S {
				parts[i] = "(@: " + core.Src(e.T["@"]) + ", @item: " + c09Ph(i) + ")"
			}
			base, err = c09EvalNode("{"+strings.Join(parts, ", ")+"}", kids)
		}
	case cls == "dict":
		ms := make([]MV, 0, 2*len(m.S))
		for _, e := range m.S {
			ms = append(ms, e.T["@"], e.T["@value"])
		}
		kids, kerr := kidsOf(ms)
		if kerr != nil {
			return c09Built{}, kerr
		}
		parts := make([]string, len(m.S))
		for i := range m.S {
			if mode != 2 {
				parts[i] = c09Ph(2*i) + ": " + c09Ph(2*i+1)
			} else {
				parts[i] = "(@: " + c09Ph(2*i) + ", @value: " + c09Ph(2*i+1) + ")"
			}
		}
		base, err = c09EvalNode("{"+strings.Join(parts, ", ")+"}", kids)
	case cls == "str" || cls == "bytes" || cls == "str+off" || cls == "bytes+off" || cls == "true":
		s, _ := sugarSrc(m)
		if mode == 2 {
			s = core.Src(m)
		}
		v, lerr := lit(s)
		if lerr != nil {
			return c09Built{}, lerr
		}
		base = c09Built{v, s}
	default:
		kids, kerr := kidsOf(m.S)
		if kerr != nil {
			return c09Built{}, kerr
		}
		parts := make([]string, len(m.S))
		for i := range m.S {
			parts[i] = c09Ph(i)
		}
		base, err = c09EvalNode("{"+strings.Join(parts, ", ")+"}", kids)
	}
	if err != nil || !alt {
		return base, err
	}
	switch (h / 3) % 6 {
	case 1:
		return c09EvalNode("(x0__ where true)", []c09Built{base})
	case 2:
		return c09EvalNode("(x0__ => .)", []c09Built{base})
	case 3:
		return c09EvalNode("(x0__ | {})", []c09Built{base})
	case 4: // superset without the extra member
		return c09EvalNode("((x0__ with 424242) without 424242)", []c09Built{base})
	}
	return base, nil
}

// c09Operands: the live operands for value m in a case: template-built sugar, template-built
// alternative, and (textPaths > 0) rotating closed-text programs from pathsFor.
func c09Operands(m MV, h uint64, textPaths int) []Operand {
	var ops []Operand
	seen := map[string]bool{}
	add := func(kind string, b c09Built, err error) {
		op := Operand{Want: m, Path: Path{kind, b.Src}}
		if err == nil && !seen[b.Src] {
			seen[b.Src] = true
			if d, pi := core.SafeDenote(b.Val); pi == nil {
				op.Got, op.Val, op.OK, op.GoType = d, b.Val, true, core.TypeName(b.Val)
			}
		} else if err == nil {
			return
		}
		ops = append(ops, op)
	}
	b, err := c09Build(m, h, false, true)
	add("tmpl-sugar", b, err)
	b, err = c09Build(m, h|1, true, true)
	add("tmpl-alt", b, err)
	if textPaths > 0 {
		all := pathsFor(m)
		for k := 0; k < textPaths; k++ {
			p := all[int((h/8+uint64(k)*5)%uint64(len(all)))]
			if seen[p.Src] {
				continue
			}
			seen[p.Src] = true
			op, _ := mkOperand(m, p)
			op.Path.Kind = "text:" + p.Kind
			ops = append(ops, op)
		}
	}
	return ops
}
