package checks

import (
	"fmt"
	"os"
	"path"
	"path/filepath"
	"sort"
	"strconv"
	"strings"
	"sync"
	"syscall"
	"time"

	"github.com/spf13/afero"
)

// ---------------------------------------------------------------------------------------------
// C19 filesystem side: the observed tree (snapshot), the two backends (a real directory under a
// sandbox root through afero.BasePathFs(OsFs) — the filesystem the command really uses — and
// afero.MemMapFs, the one the repo's own tests use), and the recording / fault-injecting wrapper
// that is handed to arrai.OutputValue through ctxfs.RuntimeFsOnto.

// c19Node is one entry of a tree snapshot: kind 'd' directory, 'f' regular file, 'l' symlink,
// '?' anything else. Data is the file's bytes.
type c19Node struct {
	Kind byte
	Data string
}

// c19Tree maps a clean absolute virtual path ("/w/out/a") to its node. "/" itself is implicit.
type c19Tree map[string]c19Node

func (t c19Tree) clone() c19Tree {
	o := make(c19Tree, len(t))
	for k, v := range t {
		o[k] = v
	}
	return o
}

func (t c19Tree) paths() []string {
	ks := make([]string, 0, len(t))
	for k := range t {
		ks = append(ks, k)
	}
	sort.Strings(ks)
	return ks
}

// under reports whether p is root or below root (path-wise, not string-wise).
func c19Under(p, root string) bool {
	return p == root || strings.HasPrefix(p, strings.TrimSuffix(root, "/")+"/")
}

func (t c19Tree) removeAll(p string) {
	for k := range t {
		if c19Under(k, p) {
			delete(t, k)
		}
	}
}

// mkdirAll makes p and every missing ancestor a directory (used only to build pre-states/models).
func (t c19Tree) mkdirAll(p string) {
	for p != "/" && p != "." && p != "" {
		if _, ok := t[p]; !ok {
			t[p] = c19Node{Kind: 'd'}
		}
		p = path.Dir(p)
	}
}

func (t c19Tree) String() string {
	var sb strings.Builder
	for _, k := range t.paths() {
		n := t[k]
		switch n.Kind {
		case 'd':
			fmt.Fprintf(&sb, "%s/ ", k)
		case 'f':
			fmt.Fprintf(&sb, "%s=%s ", k, strconv.Quote(n.Data))
		default:
			fmt.Fprintf(&sb, "%s<%c> ", k, n.Kind)
		}
	}
	return strings.TrimSpace(sb.String())
}

// c19Diff is one differing path between two trees.
type c19Diff struct {
	Path string
	How  string // created-dir | created-file | deleted | overwritten | kind-changed
}

func c19TreeDiff(pre, post c19Tree) []c19Diff {
	var out []c19Diff
	for _, p := range post.paths() {
		b, had := pre[p]
		a := post[p]
		switch {
		case !had && a.Kind == 'd':
			out = append(out, c19Diff{p, "created-dir"})
		case !had:
			out = append(out, c19Diff{p, "created-file"})
		case a.Kind != b.Kind:
			out = append(out, c19Diff{p, "kind-changed"})
		case a.Data != b.Data:
			out = append(out, c19Diff{p, "overwritten"})
		}
	}
	for _, p := range pre.paths() {
		if _, ok := post[p]; !ok {
			out = append(out, c19Diff{p, "deleted"})
		}
	}
	return out
}

// ---- backends ----

type c19Backend struct {
	name string   // "os" | "mem"
	fs   afero.Fs // unwrapped backend
	base string   // real directory of the os backend
}

var (
	c19TmpOnce sync.Once
	c19TmpRoot string
	c19TmpSeq  int
)

// c19Scratch picks the sandbox root for the os backend: tmpfs if available (f.Sync() on a disk
// costs ~1 ms and other checks share it), else the run directory.
func c19Scratch(runDir string) string {
	c19TmpOnce.Do(func() {
		cands := []string{os.Getenv("VERIF_C19_TMP"), "/dev/shm", runDir}
		for _, c := range cands {
			if c == "" {
				continue
			}
			root := filepath.Join(c, "verif-C19")
			if err := os.MkdirAll(root, 0o755); err != nil {
				continue
			}
			// drop leftovers of dead workers
			if ents, err := os.ReadDir(root); err == nil {
				for _, e := range ents {
					pid, _ := strconv.Atoi(strings.TrimPrefix(e.Name(), "p"))
					if pid > 0 && syscall.Kill(pid, 0) != nil {
						os.RemoveAll(filepath.Join(root, e.Name()))
					}
				}
			}
			d := filepath.Join(root, "p"+strconv.Itoa(os.Getpid()))
			os.RemoveAll(d)
			if err := os.MkdirAll(d, 0o755); err == nil {
				c19TmpRoot = d
				return
			}
		}
	})
	return c19TmpRoot
}

func c19NewBackend(name, runDir string) (*c19Backend, error) {
	if name == "mem" {
		return &c19Backend{name: name, fs: afero.NewMemMapFs()}, nil
	}
	root := c19Scratch(runDir)
	if root == "" {
		return nil, fmt.Errorf("no scratch directory for the os backend")
	}
	c19TmpSeq++
	base := filepath.Join(root, "t"+strconv.Itoa(c19TmpSeq))
	os.RemoveAll(base)
	if err := os.MkdirAll(base, 0o755); err != nil {
		return nil, err
	}
	return &c19Backend{name: name, fs: afero.NewBasePathFs(afero.NewOsFs(), base), base: base}, nil
}

func (b *c19Backend) close() {
	if b.base != "" {
		os.RemoveAll(b.base)
	}
}

// populate writes the pre-state (parents first).
func (b *c19Backend) populate(t c19Tree) error {
	for _, p := range t.paths() {
		n := t[p]
		if n.Kind == 'd' {
			if err := b.fs.MkdirAll(p, 0o755); err != nil {
				return err
			}
			continue
		}
		if err := b.fs.MkdirAll(path.Dir(p), 0o755); err != nil {
			return err
		}
		if err := afero.WriteFile(b.fs, p, []byte(n.Data), 0o644); err != nil {
			return err
		}
	}
	return nil
}

// snapshot reads the whole tree back. The os backend is read with os.* directly (not through
// afero) so that the observation is independent of the library under the wrapper.
func (b *c19Backend) snapshot() (c19Tree, error) {
	t := c19Tree{}
	if b.base != "" {
		err := filepath.Walk(b.base, func(p string, fi os.FileInfo, err error) error {
			if err != nil {
				return err
			}
			rel := filepath.ToSlash(strings.TrimPrefix(p, b.base))
			if rel == "" {
				return nil
			}
			switch {
			case fi.IsDir():
				t[rel] = c19Node{Kind: 'd'}
			case fi.Mode().IsRegular():
				data, err := os.ReadFile(p)
				if err != nil {
					return err
				}
				t[rel] = c19Node{Kind: 'f', Data: string(data)}
			case fi.Mode()&os.ModeSymlink != 0:
				l, _ := os.Readlink(p)
				t[rel] = c19Node{Kind: 'l', Data: l}
			default:
				t[rel] = c19Node{Kind: '?'}
			}
			return nil
		})
		return t, err
	}
	err := afero.Walk(b.fs, "/", func(p string, fi os.FileInfo, err error) error {
		if err != nil {
			return err
		}
		if p == "/" {
			return nil
		}
		if fi.IsDir() {
			t[p] = c19Node{Kind: 'd'}
			return nil
		}
		data, err := afero.ReadFile(b.fs, p)
		if err != nil {
			return err
		}
		t[p] = c19Node{Kind: 'f', Data: string(data)}
		return nil
	})
	return t, err
}

// ---- recording / fault-injecting wrapper ----

// c19Op is one filesystem operation issued by the code under test.
type c19Op struct {
	Kind    string // Stat Mkdir MkdirAll Create Open OpenFile Remove RemoveAll Rename Chmod Chtimes Write Sync Close Truncate
	Path    string
	Mut     bool // the operation can change the tree (fs-level operations only)
	Existed bool // target existed before the operation (mutating fs-level operations only)
	OK      bool // the operation was carried out and returned nil
	Faulted bool // the operation was replaced by the injected error
}

var c19ErrInjected = syscall.EIO

type c19FS struct {
	be     afero.Fs
	ops    []c19Op
	failAt int // 1-based index of the operation to fail; 0 = none
	guard  int // operations refused because the path left the sandbox
}

var _ afero.Fs = (*c19FS)(nil)

func (f *c19FS) Name() string { return "c19FS" }

// step records the operation and decides whether it is the one to fail. Names must be clean
// absolute virtual paths: anything else would be resolved against the harness's own working
// directory (MemMapFs) or could leave the sandbox, so it is refused (and counted).
func (f *c19FS) step(kind, name string, mutating bool) (idx int, err error) {
	op := c19Op{Kind: kind, Path: name, Mut: mutating}
	if !path.IsAbs(name) || path.Clean(name) != name || strings.Contains(name, "\x00") {
		f.guard++
		f.ops = append(f.ops, op)
		return len(f.ops) - 1, &os.PathError{Op: strings.ToLower(kind), Path: name, Err: syscall.EPERM}
	}
	if mutating {
		if fi, e := f.be.Stat(name); e == nil && fi != nil {
			op.Existed = true
		}
	}
	f.ops = append(f.ops, op)
	idx = len(f.ops) - 1
	if f.failAt == len(f.ops) {
		f.ops[idx].Faulted = true
		return idx, &os.PathError{Op: strings.ToLower(kind), Path: name, Err: c19ErrInjected}
	}
	return idx, nil
}

func (f *c19FS) done(idx int, err error) error {
	if err == nil {
		f.ops[idx].OK = true
	}
	return err
}

func (f *c19FS) Create(name string) (afero.File, error) {
	i, err := f.step("Create", name, true)
	if err != nil {
		return nil, err
	}
	fl, err := f.be.Create(name)
	if f.done(i, err) != nil {
		return nil, err
	}
	return &c19File{File: fl, fs: f, path: name}, nil
}

func (f *c19FS) Mkdir(name string, perm os.FileMode) error {
	i, err := f.step("Mkdir", name, true)
	if err != nil {
		return err
	}
	return f.done(i, f.be.Mkdir(name, perm))
}

func (f *c19FS) MkdirAll(name string, perm os.FileMode) error {
	i, err := f.step("MkdirAll", name, true)
	if err != nil {
		return err
	}
	return f.done(i, f.be.MkdirAll(name, perm))
}

func (f *c19FS) Open(name string) (afero.File, error) {
	i, err := f.step("Open", name, false)
	if err != nil {
		return nil, err
	}
	fl, err := f.be.Open(name)
	if f.done(i, err) != nil {
		return nil, err
	}
	return &c19File{File: fl, fs: f, path: name}, nil
}

func (f *c19FS) OpenFile(name string, flag int, perm os.FileMode) (afero.File, error) {
	i, err := f.step("OpenFile", name, flag&(os.O_WRONLY|os.O_RDWR|os.O_CREATE|os.O_TRUNC|os.O_APPEND) != 0)
	if err != nil {
		return nil, err
	}
	fl, err := f.be.OpenFile(name, flag, perm)
	if f.done(i, err) != nil {
		return nil, err
	}
	return &c19File{File: fl, fs: f, path: name}, nil
}

func (f *c19FS) Remove(name string) error {
	i, err := f.step("Remove", name, true)
	if err != nil {
		return err
	}
	return f.done(i, f.be.Remove(name))
}

func (f *c19FS) RemoveAll(name string) error {
	i, err := f.step("RemoveAll", name, true)
	if err != nil {
		return err
	}
	return f.done(i, f.be.RemoveAll(name))
}

func (f *c19FS) Rename(o, n string) error {
	if !path.IsAbs(n) || path.Clean(n) != n {
		f.guard++
		return &os.PathError{Op: "rename", Path: n, Err: syscall.EPERM}
	}
	i, err := f.step("Rename", o, true)
	if err != nil {
		return err
	}
	return f.done(i, f.be.Rename(o, n))
}

func (f *c19FS) Stat(name string) (os.FileInfo, error) {
	i, err := f.step("Stat", name, false)
	if err != nil {
		return nil, err
	}
	fi, err := f.be.Stat(name)
	// a Stat that answers "does not exist" was still carried out
	if err == nil || os.IsNotExist(err) {
		f.ops[i].OK = true
	}
	return fi, err
}

func (f *c19FS) Chmod(name string, mode os.FileMode) error {
	i, err := f.step("Chmod", name, true)
	if err != nil {
		return err
	}
	return f.done(i, f.be.Chmod(name, mode))
}

func (f *c19FS) Chtimes(name string, a, m time.Time) error {
	i, err := f.step("Chtimes", name, true)
	if err != nil {
		return err
	}
	return f.done(i, f.be.Chtimes(name, a, m))
}

// c19File counts and can fail the operations on an open file.
type c19File struct {
	afero.File
	fs   *c19FS
	path string
}

func (fl *c19File) Write(b []byte) (int, error) {
	i, err := fl.fs.step("Write", fl.path, false)
	if err != nil {
		return 0, err
	}
	n, err := fl.File.Write(b)
	return n, fl.fs.done(i, err)
}

func (fl *c19File) WriteString(s string) (int, error) {
	i, err := fl.fs.step("Write", fl.path, false)
	if err != nil {
		return 0, err
	}
	n, err := fl.File.WriteString(s)
	return n, fl.fs.done(i, err)
}

func (fl *c19File) WriteAt(b []byte, off int64) (int, error) {
	i, err := fl.fs.step("Write", fl.path, false)
	if err != nil {
		return 0, err
	}
	n, err := fl.File.WriteAt(b, off)
	return n, fl.fs.done(i, err)
}

func (fl *c19File) Truncate(sz int64) error {
	i, err := fl.fs.step("Truncate", fl.path, false)
	if err != nil {
		return err
	}
	return fl.fs.done(i, fl.File.Truncate(sz))
}

func (fl *c19File) Sync() error {
	i, err := fl.fs.step("Sync", fl.path, false)
	if err != nil {
		return err
	}
	return fl.fs.done(i, fl.File.Sync())
}

func (fl *c19File) Close() error {
	i, err := fl.fs.step("Close", fl.path, false)
	if err != nil {
		fl.File.Close() // do not leak the descriptor; the caller is told the close failed
		return err
	}
	return fl.fs.done(i, fl.File.Close())
}

// mutations lists what the recorded operations did to the tree, by residue kind. It complements
// the snapshot diff: a file truncated and rewritten with the same bytes, or a directory removed
// and re-created, leaves no difference between two snapshots but was still overwritten / deleted.
func (f *c19FS) mutations() map[string]string {
	m := map[string]string{}
	put := func(k, p string) {
		if _, ok := m[k]; !ok {
			m[k] = p
		}
	}
	for _, op := range f.ops {
		if !op.OK || !op.Mut {
			continue
		}
		switch op.Kind {
		case "Mkdir", "MkdirAll":
			if !op.Existed {
				put("dirs-created", op.Path)
			}
		case "Create", "OpenFile":
			if op.Existed {
				put("files-overwritten", op.Path)
			} else {
				put("files-created", op.Path)
			}
		case "Remove", "RemoveAll", "Rename":
			if op.Existed {
				put("entries-deleted", op.Path)
			}
		}
	}
	return m
}
