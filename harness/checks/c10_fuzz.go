package checks

import (
	"encoding/json"
	"fmt"
	"go/scanner"
	"go/token"
	"os"
	"path/filepath"
	"reflect"
	"regexp"
	"runtime"
	"sort"
	"strconv"
	"strings"
	"sync"
	"unicode/utf8"

	"verif/core"

	"github.com/arr-ai/arrai/rel"
	"github.com/arr-ai/arrai/syntax"
)

func jsonUnmarshal10(b []byte, v interface{}) error { return json.Unmarshal(b, v) }

// ---------------------------------------------------------------------------------------------
// corpus: every *.arrai file of the tree under test and every Go string literal of the syntax /
// rel / cmd test files (the expression strings of the suite), plus a built-in list that covers
// each grammar production. Harvested from the working tree the harness was compiled against.

var (
	c10CorpusOnce  sync.Once
	c10CorpusList  []string
	c10CorpusStats = map[string]int{}
)

// c10RepoRoot locates the arrai working tree from the debug info of the linked package.
func c10RepoRoot() string {
	if d := os.Getenv("VERIF_REPO"); d != "" {
		return d
	}
	if f := runtime.FuncForPC(reflect.ValueOf(syntax.Compile).Pointer()); f != nil {
		file, _ := f.FileLine(f.Entry())
		if d := filepath.Dir(filepath.Dir(file)); d != "" {
			if _, err := os.Stat(filepath.Join(d, "syntax", "arrai.wbnf")); err == nil {
				return d
			}
		}
	}
	return "/repo"
}

var c10Builtin = []string{
	`1 + 2 * 3`, `"hello" ++ " world"`, `[1, 2, 3] >> . * 2`, `{1, 2, 3} => . + 1`, `(a: 1, b: 2).a`, `{"a": 1}("a")`,
	`let x = 1; x + 1`, `let [a, ...t] = [1, 2, 3]; t`, `cond {1 > 2: "a", _: "b"}`, `cond [1, 2] {[a, b]: a + b, _: 0}`,
	`{|a, b| (1, 2), (3, 4)} <&> {|b, c| (2, 5)}`, `{(a: 1, b: 2)} nest |b|n`, `{(a: 1, n: {(b: 2)})} unnest n`, `{1, 2} where . > 1`,
	`[3, 1, 2] orderby .`, `{1, 2, 3} sum .`, `{(a: 1)} rank (r: .a)`, `$"a${1 + 2}b"`, `$"${[1, 2]::, }"`, `$"${1.5:05.2f}"`, `<<1, 2, "ab">>`,
	`%a`, `2 \ "ab"`, `"abc"(1:)`, `[1, 2, 3](::-1)`, `(a: 1) +> (b: 2)`, `(a: (b: 1))->*a->*b(2)`, `{"a": 1} +> {"b": 2}`, `\x x + 1`, `(\x \y x + y)(1)(2)`,
	`//seq.join(",", ["a", "b"])`, `//str.upper("a")`, `//encoding.json.decode('{"a": [1, null]}')`, `//math.sin(1)`, `//re.compile("a+").match("caab")`,
	`{:: :}`, `1 if true else 2`, `{1, 2} with 3 without 1`, `{1} (<) {1, 2}`, `1 <: {1}`, `^{1, 2}`, `-1`, `!true`, `{1, 2} count`, `{5} single`,
	`(a?: 1:2)`, `[1, 2]?(5):0`, `(a: 1).b?:3`, `{"k"?: 1:2}`, `"\x41\u0042\103\n"`, `'single'`, "`back`", `1e3`, `.5`, `1.`, `0x10`, `{} = false`, `(@: 0, @char: 97)`,
	`{(@: "x", @char: 1)}`, `[1] | [2]`, `{('a, b': 1), (a: 1, b: 2)}`, `//seq.split({}, [1, , 3])`, `<<1>> < <<2>>`, `"\101"`, `{(@: 1, @value: 2), (@: 1, @value: 3)} => .@value`,
	`let (a: x, ...r) = (a: 1, b: 2); r`, `let {"a": x, ...r} = {"a": 1, "b": 2}; r`, `[1, 2, 3] -> \[a, ...t] t`, `{1, 2} -> \{a, ...t} t`, `(\(a: [x, y]) x)((a: [1, 2]))`,
	`1 -> . + 1 -> . * 2`, `[[1, 2], [3]] >> (. >> . + 1)`, `{(a: 1)} => (. +> (b: 2))`, `[1, 2] >>> \i \v i + v`, `(a: 1, b: 2) :> . + 1`, `{1, 2} filter . {1: "a"}`,
	"# comment\n1", "1 # trailing", "(\n  a: 1,\n  b: 2,\n)", `{|a| }`, `{||}`, `()`, `{}`, `[]`, `<<>>`, `""`, `{:}`,
}

func c10Corpus() []string {
	c10CorpusOnce.Do(func() {
		seen := map[string]bool{}
		add := func(src, from string) {
			if len(src) == 0 || len(src) > 1500 || seen[src] {
				return
			}
			seen[src] = true
			c10CorpusList = append(c10CorpusList, src)
			c10CorpusStats[from]++
		}
		for _, s := range c10Builtin {
			add(s, "builtin")
		}
		root := c10RepoRoot()
		var arrai, tests []string
		filepath.Walk(root, func(p string, info os.FileInfo, err error) error {
			if err != nil {
				return nil
			}
			if info.IsDir() {
				if n := info.Name(); n == ".git" || n == "node_modules" {
					return filepath.SkipDir
				}
				return nil
			}
			rp, _ := filepath.Rel(root, p)
			switch {
			case strings.HasSuffix(p, ".arrai"):
				arrai = append(arrai, rp)
			case strings.HasSuffix(p, "_test.go") && (strings.HasPrefix(rp, "syntax/") || strings.HasPrefix(rp, "rel/") || strings.HasPrefix(rp, "cmd/arrai/") || strings.HasPrefix(rp, "pkg/shell/")):
				tests = append(tests, rp)
			}
			return nil
		})
		sort.Strings(arrai)
		sort.Strings(tests)
		for _, rp := range arrai {
			if b, err := os.ReadFile(filepath.Join(root, rp)); err == nil && utf8.Valid(b) {
				add(string(b), "arrai-files")
			}
		}
		for _, rp := range tests {
			b, err := os.ReadFile(filepath.Join(root, rp))
			if err != nil {
				continue
			}
			fset := token.NewFileSet()
			f := fset.AddFile(rp, fset.Base(), len(b))
			var sc scanner.Scanner
			sc.Init(f, b, nil, 0)
			for {
				_, tok, lit := sc.Scan()
				if tok == token.EOF {
					break
				}
				if tok != token.STRING {
					continue
				}
				s, err := strconv.Unquote(lit)
				if err != nil || len(s) < 2 || len(s) > 600 {
					continue
				}
				if !strings.ContainsAny(s, "(){}[]<>+*|&=:.\\$\"'") {
					continue // plain words (test names, messages)
				}
				add(s, "test-strings:"+strings.SplitN(rp, "/", 2)[0])
			}
		}
		c10CorpusStats["root:"+root] = 1
	})
	return c10CorpusList
}

// ---------------------------------------------------------------------------------------------
// admission: what may be compiled / evaluated at all (outside effects, recursion, blow-up bounds)

var (
	c10ReEffects = regexp.MustCompile(`//\s*(os|net|log|deprecated|archive|test|eval|std|@internal)\b|exec|//\s*[\[{]|stdin|get_env`)
	c10ReRec     = regexp.MustCompile(`\brec\b|fix`)
	c10ReNumLit  = regexp.MustCompile(`\d+(\.\d*)?([eE][-+]?\d+)?`)
	c10ReStrLit  = regexp.MustCompile(`"(\\.|[^"\\])*"|'(\\.|[^'\\])*'`)
	c10ReCall    = regexp.MustCompile(`([A-Za-z_][A-Za-z_0-9]*)\s*\(\s*([A-Za-z_][A-Za-z_0-9]*)\b`)
)

// c10Admit returns (compile?, evaluate?, reason-if-restricted).
func c10Admit(src string) (bool, bool, string) {
	if c10ReEffects.MatchString(src) {
		return false, false, "outside-effects-by-name"
	}
	if c10BraceDepth(src) > c10MaxBraceDepth || strings.Count(src, "cond") > c10MaxCond || strings.Count(src, "{") > 40 || c10CallDepth(src) > c10MaxCallDepth {
		return false, false, "brace-depth-bound (exponential failing parse)"
	}
	maxNum := 0.0
	for _, n := range c10ReNumLit.FindAllString(src, -1) {
		f, err := strconv.ParseFloat(n, 64)
		if err != nil {
			f = 1e308
		}
		if f > 2e6 && f < 1e18 {
			// dense sequence representations (asBytes/asString/asArray) allocate storage proportional
			// to the index span, already while compiling a literal: 2^32 as an index is a 4 GiB
			// allocation per worker. Bounded by the generator; the makeslice panics of the same
			// code for spans beyond the address space are still generated (>= 1e18).
			return false, false, "mid-range number (dense-allocation bound)"
		}
		if f > maxNum {
			maxNum = f
		}
	}
	if c10ReRec.MatchString(src) {
		return true, false, "rec/fix: compile only"
	}
	for _, m := range c10ReCall.FindAllStringSubmatch(src, -1) {
		if m[1] == m[2] {
			return true, false, "self-application: compile only"
		}
	}
	maxStr := 0
	for _, s := range c10ReStrLit.FindAllString(src, -1) {
		if len(s) > maxStr {
			maxStr = len(s)
		}
	}
	if strings.Contains(src, "repeat") && (maxNum > 1000 || strings.ContainsAny(src, "^*")) {
		return true, false, "repeat with large count: compile only"
	}
	if n := strings.Count(src, "^"); n > 0 {
		if n > 1 || strings.Count(src, ",") > 10 || maxStr > 12 || strings.Contains(src, "++") || strings.Contains(src, "repeat") {
			return true, false, "power set of a large set: compile only"
		}
	}
	return true, true, ""
}

// ---------------------------------------------------------------------------------------------
// tokens and mutations

var c10ReTok = regexp.MustCompile(`[A-Za-z_@$][A-Za-z0-9_@$]*|\d+(?:\.\d+)?(?:[eE][-+]?\d+)?|"(?:\\.|[^"\\])*"|'(?:\\.|[^'\\])*'|\s+|[-+*/%<>=!&|~^\\:.?]+|.`)

func c10Tokens(s string) []string {
	if !utf8.ValidString(s) {
		return []string{s}
	}
	return c10ReTok.FindAllString(s, -1)
}

var (
	c10HostileBytes = []string{"(", ")", "{", "}", "[", "]", "<<", ">>", `"`, "'", "`", "$", `\`, ",", ";", ":", ".", "@", "%", "#", "\x00", "\xff", "\n", "?", "|", "^", "*", "${", "{:", ":}", "{|", "|}", "...", "\u2035"}
	c10Operators    = []string{"+", "-", "*", "/", "%", "//", "^", `\`, "++", "|", "&", "&~", "~~", "<&>", "<->", "-&-", "---", "-&>", "<&-", "-->", "<--", "+>", "&&", "||", "=", "!=", "<", ">", "<=", ">=", "<:", "!<:", "(<)", "(<=)", "->", "=>", ">>", ">>>", ":>", "with", "without", "where", "orderby", "order", "rank", "sum", "max", "min", "mean", "median", "nest", "unnest", "count", "single", "if", "else", ".", "?:", "->*", "filter"}
	c10HostileNums  = []string{"1e999", "1e-999", "1e300", "-0", "0.1", "1.5", "9223372036854775807", "9223372036854775808", "18446744073709551616", "0.0000001", "255", "256", "65536", "1114112", "55296", "00", "1e", "1.e1", ".e1", "0x1", "1_0"}
	c10BadEscapes   = []string{`\101`, `\x4`, `\u12`, `\U0010FFFFF`, `\q`, `\`, `\0`, `\400`, `\xZZ`, `\u{41}`, `\777`, `\x41\x42`, `\u0041b`, `\1`, `\08`, `\x`, `\u`, "\\\n", `\${`, `${`, `${x`, `%`}
	c10Keywords     = []string{".", "@", "$", "x", "let", "cond", "where", "nest", "unnest", "if", "else", "true", "false", "rec", "_", "...", "@item", "@char", "@byte", "@value", "@", "count", "single", "with", "import", "a"}
	c10Wraps        = [][2]string{{"(", ")"}, {"[", "]"}, {"{", "}"}, {`\a `, ""}, {"-", ""}, {"!", ""}, {"(a: ", ")"}, {`$"${`, `}"`}, {"<<(", ")>>"}, {"{1: ", "}"}, {"(", ")(1)"}, {"(", ").a"}, {"let a = ", "; a"}, {"cond {", ": 1}"}}
)

func c10Mutate(rng *core.Rng, src string, corpus []string, mut map[string]int) string {
	n := 1 + rng.Intn(3)
	for k := 0; k < n; k++ {
		toks := c10Tokens(src)
		pick := func(pred func(string) bool) int {
			var idx []int
			for i, t := range toks {
				if pred(t) {
					idx = append(idx, i)
				}
			}
			if len(idx) == 0 {
				return -1
			}
			return idx[rng.Intn(len(idx))]
		}
		isNum := func(t string) bool { return t[0] >= '0' && t[0] <= '9' }
		isStr := func(t string) bool { return len(t) >= 2 && (t[0] == '"' || t[0] == '\'') }
		isOp := func(t string) bool { return strings.ContainsAny(t[:1], `-+*/%<>=!&|~^\:.?`) }
		isIdent := func(t string) bool {
			c := t[0]
			return c == '_' || c == '@' || c == '$' || c >= 'a' && c <= 'z' || c >= 'A' && c <= 'Z'
		}
		isDelim := func(t string) bool { return strings.ContainsAny(t, "(){}[]\"'") && len(t) == 1 }
		name := ""
		switch rng.Intn(17) {
		case 0:
			if len(src) > 0 {
				b := []byte(src)
				i := rng.Intn(len(b))
				b[i] ^= 1 << uint(rng.Intn(8))
				src, name = string(b), "bitflip"
			}
		case 1:
			i := rng.Intn(len(src) + 1)
			src, name = src[:i]+core.Pick(rng, c10HostileBytes)+src[i:], "insert-hostile"
		case 2:
			if len(src) > 1 {
				i := rng.Intn(len(src))
				j := i + 1 + rng.Intn(4)
				if j > len(src) {
					j = len(src)
				}
				src, name = src[:i]+src[j:], "delete-bytes"
			}
		case 3:
			if len(src) > 1 {
				src, name = src[:rng.Intn(len(src))], "truncate"
			}
		case 4:
			if len(toks) > 1 {
				i := rng.Intn(len(toks))
				toks = append(toks[:i:i], toks[i+1:]...)
				src, name = strings.Join(toks, ""), "delete-token"
			}
		case 5:
			if len(toks) > 0 {
				i := rng.Intn(len(toks))
				src, name = strings.Join(toks[:i+1], "")+toks[i]+strings.Join(toks[i+1:], ""), "duplicate-token"
			}
		case 6:
			if len(toks) > 1 {
				i, j := rng.Intn(len(toks)), rng.Intn(len(toks))
				toks[i], toks[j] = toks[j], toks[i]
				src, name = strings.Join(toks, ""), "swap-tokens"
			}
		case 7:
			if i := pick(isOp); i >= 0 {
				toks[i] = " " + core.Pick(rng, c10Operators) + " "
				src, name = strings.Join(toks, ""), "replace-operator"
			}
		case 8:
			other := c10Tokens(core.Pick(rng, corpus))
			if len(toks) > 0 && len(other) > 0 {
				i := rng.Intn(len(toks))
				j := i + rng.Intn(min(4, len(toks)-i)+1)
				a := rng.Intn(len(other))
				b := a + 1 + rng.Intn(min(8, len(other)-a))
				src, name = strings.Join(toks[:i], "")+strings.Join(other[a:b], "")+strings.Join(toks[j:], ""), "splice"
			}
		case 9:
			if i := pick(isNum); i >= 0 {
				toks[i] = core.Pick(rng, c10HostileNums)
				src, name = strings.Join(toks, ""), "hostile-number"
			}
		case 10:
			if i := pick(isStr); i >= 0 {
				t := toks[i]
				p := 1 + rng.Intn(len(t)-1)
				toks[i] = t[:p] + core.Pick(rng, c10BadEscapes) + t[p:]
				src, name = strings.Join(toks, ""), "bad-escape"
			}
		case 11:
			w := core.Pick(rng, c10Wraps)
			d := 1
			if rng.Chance(1, 3) {
				d = 2 + rng.Intn(c10MaxNest-1)
				if strings.Contains(w[0], "{") && d > c10MaxBraceDepth-1 {
					d = 2 + rng.Intn(c10MaxBraceDepth-2)
				}
				if strings.HasPrefix(w[1], ")(") || strings.HasPrefix(w[1], ").") {
					d = 2 + rng.Intn(c10MaxCallDepth-2)
				}
			}
			src, name = strings.Repeat(w[0], d)+src+strings.Repeat(w[1], d), "nest"
		case 12:
			if i := pick(isDelim); i >= 0 {
				toks = append(toks[:i:i], toks[i+1:]...)
				src, name = strings.Join(toks, ""), "unbalance"
			}
		case 13:
			if i := pick(isIdent); i >= 0 {
				toks[i] = core.Pick(rng, c10Keywords)
				src, name = strings.Join(toks, ""), "replace-ident"
			}
		case 14:
			if len(toks) > 0 {
				i := rng.Intn(len(toks))
				j := i + 1 + rng.Intn(min(6, len(toks)-i))
				span := strings.Join(toks[i:j], "")
				rep := 2 + rng.Intn(6)
				src, name = strings.Join(toks[:j], "")+strings.Repeat(span, rep)+strings.Join(toks[j:], ""), "repeat-span"
			}
		case 15:
			t := core.Pick(rng, c10Tmpls)
			ops := map[string]string{"x": src, "y": c10Kinds[rng.Intn(len(c10Kinds))].Src, "z": c10Kinds[rng.Intn(len(c10Kinds))].Src}
			if rng.Chance(1, 3) {
				ops["y"], ops["x"] = ops["x"], ops["y"]
			}
			src, name = c10Subst(t.Src, ops), "into-template"
		case 16:
			if i := pick(isOp); i >= 0 {
				toks[i] = toks[i] + toks[i]
				src, name = strings.Join(toks, ""), "double-operator"
			}
		}
		if name != "" {
			mut[name]++
		}
		if len(src) > c10MaxFuzzLen {
			src = src[:c10MaxFuzzLen]
			mut["clipped"]++
		}
	}
	return src
}

const (
	c10MaxFuzzLen = 1200
	c10MaxNest    = 48
	// A failing parse below nested braces backtracks exponentially in wbnf (measured on the pinned
	// tree: x1.8 per "{" level, x4 per "cond {" level; 12 levels of "{" around `1 'abc'` = 3.5 s,
	// 7 levels of "cond {" = 3.6 s). It terminates, so it is not a hang by the logical criterion;
	// `{"a"(` nests at x5 per level: 6 levels = 13 s, 7 levels > 60 s.) The generators bound the
	// depth instead and count what they skip.
	c10MaxBraceDepth = 5
	c10MaxCond       = 4
	c10MaxCallDepth  = 7
)

// c10CallDepth is the deepest nesting of call parentheses ("(" directly after an identifier,
// literal or closing bracket). A failing parse below nested calls backtracks x2 per level
// (measured: a(a(a(...a: 1) 12 levels = 5 s, 16 levels > 80 s).
func c10CallDepth(s string) int {
	var stack []bool
	calls, mx := 0, 0
	prev := byte(' ')
	for i := 0; i < len(s); i++ {
		c := s[i]
		switch c {
		case '(':
			isCall := prev == '_' || prev == ')' || prev == ']' || prev == '}' || prev == '"' || prev == '\'' ||
				prev >= 'a' && prev <= 'z' || prev >= 'A' && prev <= 'Z' || prev >= '0' && prev <= '9'
			stack = append(stack, isCall)
			if isCall {
				calls++
				if calls > mx {
					mx = calls
				}
			}
		case ')':
			if n := len(stack); n > 0 {
				if stack[n-1] {
					calls--
				}
				stack = stack[:n-1]
			}
		}
		if c != ' ' && c != '\n' && c != '\t' {
			prev = c
		}
	}
	return mx
}

func c10BraceDepth(s string) int {
	d, mx := 0, 0
	for i := 0; i < len(s); i++ {
		switch s[i] {
		case '{':
			d++
			if d > mx {
				mx = d
			}
		case '}':
			if d > 0 {
				d--
			}
		}
	}
	return mx
}

// c10Gen builds a well-formed (by construction) random program: templates composed to depth d
// over operand kinds, random model values and (rarely) corpus programs.
func c10Gen(rng *core.Rng, depth int, corpus []string, rich bool) string {
	if depth <= 0 || rng.Chance(1, 5) {
		switch {
		case rich && rng.Chance(1, 3):
			m := randValue(rng, rng.Chance(1, 2), 1)
			if s, ok := sugarSrc(m); ok && rng.Chance(1, 2) {
				return s
			}
			return core.Src(m)
		case rich && rng.Chance(1, 12):
			s := core.Pick(rng, corpus)
			if len(s) < 120 {
				return s
			}
		}
		return c10Kinds[rng.Intn(len(c10Kinds))].Src
	}
	t := core.Pick(rng, c10Tmpls)
	ops := map[string]string{}
	for _, n := range []string{"x", "y", "z"} {
		ops[n] = c10Gen(rng, depth-1-rng.Intn(2), corpus, rich)
	}
	return c10Subst(t.Src, ops)
}

// c10RunFuzz runs one batch of source-text programs of the given flavour.
func c10RunFuzz(cfg *core.Config, flavour string, i, k int) core.CaseResult {
	p := c10GetPlan(cfg)
	corpus := c10Corpus()
	rng := core.NewRng(cfg.Seed, 10, uint64(i))
	r := c10NewRec(flavour, fmt.Sprintf("%s:%d:%d", flavour, cfg.Seed, i))
	var progs []string
	switch flavour {
	case "corpus":
		r.res.Key = fmt.Sprintf("corpus:%d", k)
		for j := k * p.corpusBatch; j < (k+1)*p.corpusBatch && j < len(corpus); j++ {
			progs = append(progs, corpus[j])
		}
	case "mut":
		for j := 0; j < p.fuzzBatch; j++ {
			seed := core.Pick(rng, corpus)
			for tries := 0; !cfg.Thorough() && len(seed) > 240 && tries < 8; tries++ {
				seed = core.Pick(rng, corpus) // quick tier: short seeds (a parse costs ~ms per 100 bytes)
			}
			progs = append(progs, c10Mutate(rng, seed, corpus, r.data.Mut))
		}
	case "comp":
		for j := 0; j < cfg.Pick(30, 40); j++ {
			progs = append(progs, c10Gen(rng, 2, corpus, false))
		}
	case "gen":
		for j := 0; j < p.fuzzBatch; j++ {
			s := c10Gen(rng, 2+rng.Intn(2), corpus, true)
			if rng.Chance(1, 4) {
				s = c10Mutate(rng, s, corpus, r.data.Mut)
			}
			if len(s) > c10MaxFuzzLen {
				r.data.Skipped["generated-too-long"]++
				continue
			}
			progs = append(progs, s)
		}
	}
	scope := c10SafeScope()
	ctx := core.Ctx()
	for _, src := range progs {
		compile, evaluate, why := c10Admit(src)
		if why != "" {
			r.data.Skipped[why]++
		}
		if !compile {
			continue
		}
		c10Cur(cfg, src)
		r.res.SubKeys = append(r.res.SubKeys, "src:"+src)
		errText := !strings.Contains(src, "grammar") && !strings.Contains(src, "{:") && !strings.Contains(src, "parse")
		o := c10RunX(ctx, src, scope, false, evaluate, errText)
		entry := "source:" + o.Phase
		r.note(entry, src, o, map[string]string{"flavour": flavour})
	}
	if k%53 == 7 && len(progs) > 0 {
		r.res.Sample = fmt.Sprintf("%s batch of %d programs, e.g. %q", flavour, len(progs), clip10(progs[0], 200))
	}
	_ = rel.None
	return r.finish()
}
