package checks

// Seed-independent core corpus of C08: small-scope systematic programs, every applicable rewrite at
// every position (no sampling). Part A enumerates all ordered pairs of operators of the documented
// precedence table in both nestings; parts B.. target each rewrite family.

type c08Spec struct {
	op    string // operator (binary, or prefix "u-" "u!" "u+", postfix "count", transforms "=>" ...)
	arity int
	class string // operand class: num set bool arr tup
}

var c08Specs = []c08Spec{
	{"+", 2, "num"}, {"-", 2, "num"}, {"*", 2, "num"}, {"/", 2, "num"}, {"%", 2, "num"}, {"^", 2, "num"},
	{"//", 2, "num"}, {"-%", 2, "num"},
	{"|", 2, "set"}, {"&", 2, "set"}, {"&~", 2, "set"}, {"~~", 2, "set"}, {"with", 2, "setnum"}, {"without", 2, "setnum"},
	{"&&", 2, "bool"}, {"||", 2, "bool"}, {"++", 2, "arr"}, {"+>", 2, "tup"},
	{"<", 2, "num"}, {"=", 2, "num"}, {"<:", 2, "numset"}, {"(<=)", 2, "set"},
	{"if", 2, "num"},
	{"u-", 1, "num"}, {"u!", 1, "bool"}, {"u+", 1, "num"}, {"count", 1, "set"},
	{"=>", 2, "xset"}, {"where", 2, "xset"}, {"->", 2, "xnum"}, {">>", 2, "xarr"}, {":>", 2, "xtup"},
}

func c08Leaf(class string, k int) *c08N {
	switch class {
	case "num":
		return c08Num([]string{"2", "3", "5"}[k%3])
	case "bool":
		return c08Bool(k%2 == 0)
	case "set":
		return []*c08N{c08Set(c08Num("1"), c08Num("2")), c08Set(c08Num("2"), c08Num("3")), c08Set(c08Num("3"))}[k%3]
	case "arr":
		return []*c08N{c08Arr(c08Num("1"), c08Num("2")), c08Arr(c08Num("3")), c08Arr()}[k%3]
	case "tup":
		return []*c08N{c08Tup([]string{"a", "b"}, c08Num("1"), c08Num("2")), c08Tup([]string{"a"}, c08Num("3")), c08Tup([]string{"b"}, c08Num("4"))}[k%3]
	}
	return c08Num("1")
}

// c08Mk builds one application of spec s: operands a (and b). For transforms b is ignored and a
// documented default-binder body is used.
func c08Mk(s c08Spec, a, b *c08N) *c08N {
	switch s.op {
	case "u-", "u!", "u+":
		return c08Un(s.op[1:], a)
	case "count":
		return c08Count(a)
	case "if":
		return c08If(a, c08Bool(true), b)
	case "<", "=", "<:", "(<=)":
		return c08Cmp([]string{s.op}, a, b)
	case "=>", ">>", ":>":
		return c08Xform(s.op, nil, a, c08Bin("+", c08Var("."), c08Num("1")))
	case "where":
		return c08Xform(s.op, nil, a, c08Cmp([]string{">"}, c08Var("."), c08Num("1")))
	case "->":
		return c08Arrow(nil, a, c08Bin("*", c08Var("."), c08Num("2")))
	}
	return c08Bin(s.op, a, b)
}

func c08Operands(s c08Spec) (string, string) {
	switch s.class {
	case "setnum":
		return "set", "num"
	case "numset":
		return "num", "set"
	case "xset":
		return "set", "num"
	case "xnum":
		return "num", "num"
	case "xarr":
		return "arr", "num"
	case "xtup":
		return "tup", "num"
	}
	return s.class, s.class
}

func c08PrecedenceCorpus() []*c08N {
	var out []*c08N
	for _, outer := range c08Specs {
		ol, or := c08Operands(outer)
		for _, inner := range c08Specs {
			il, ir := c08Operands(inner)
			in := func() *c08N { return c08Mk(inner, c08Leaf(il, 0), c08Leaf(ir, 1)) }
			// inner as the left operand, and (for binary outers) as the right operand
			out = append(out, c08Mk(outer, in(), c08Leaf(or, 2)))
			if outer.arity == 2 && outer.class[0] != 'x' {
				out = append(out, c08Mk(outer, c08Leaf(ol, 2), in()))
			}
		}
	}
	// associativity of same-level chains incl. the n-ary comparison chain, which is never re-associated
	n := func(s string) *c08N { return c08Num(s) }
	out = append(out,
		c08Cmp([]string{"<", "<"}, n("1"), n("2"), n("3")),
		c08Cmp([]string{"<", "<"}, n("3"), n("2"), n("1")),
		c08Cmp([]string{"<"}, c08Cmp([]string{"<"}, n("1"), n("2")), n("3")),
		c08Cmp([]string{"<"}, n("1"), c08Cmp([]string{"<"}, n("2"), n("3"))),
		c08Cmp([]string{"<", "<:"}, n("1"), n("2"), c08Set(n("2"), n("3"))),
		c08Cmp([]string{"=", "!="}, n("1"), n("1"), n("2")),
		c08Bin("-", n("9"), c08Bin("-", n("4"), n("3"))), c08Bin("-", c08Bin("-", n("9"), n("4")), n("3")),
		c08Bin("/", n("8"), c08Bin("/", n("4"), n("2"))), c08Bin("/", c08Bin("/", n("8"), n("4")), n("2")),
		c08Bin("^", n("2"), c08Bin("^", n("3"), n("2"))), c08Bin("^", c08Bin("^", n("2"), n("3")), n("2")),
		c08Bin("-", n("9"), c08Bin("+", n("4"), n("3"))), c08Bin("-%", n("9"), c08Bin("-", n("4"), n("3"))),
		c08Bin("&~", c08Leaf("set", 0), c08Bin("&~", c08Leaf("set", 1), c08Leaf("set", 2))),
		c08Bin("without", c08Bin("with", c08Leaf("set", 0), n("3")), n("1")),
		c08Bin("with", c08Leaf("set", 0), c08Bin("+", n("3"), n("1"))),
		c08Un("-", c08Un("-", n("3"))), c08Un("!", c08Un("!", n("3"))), c08Un("-", c08Bin("^", n("2"), n("2"))),
		c08Bin("^", c08Un("-", n("2")), n("2")), c08Bin("^", n("2"), c08Un("-", n("2"))),
		c08Count(c08Count(c08Set(c08Set(n("1"))))),
	)
	return out
}

func c08FamilyCorpus() []*c08N {
	n := func(s string) *c08N { return c08Num(s) }
	v := c08Var
	ab := []string{"a", "b"}
	tupAB := func(a, b string) *c08N { return c08Tup(ab, n(a), n(b)) }
	pTup := &c08P{K: c08PTup, Names: ab, Sub: []*c08P{c08PI("x"), c08PI("y")}}
	pTupRest := &c08P{K: c08PTup, Names: []string{"a"}, Sub: []*c08P{c08PI("x")}, Rest: "..."}
	pArr := &c08P{K: c08PArr, Sub: []*c08P{c08PI("x"), c08PI("y")}}
	pArrRest := &c08P{K: c08PArr, Sub: []*c08P{c08PI("x")}, Rest: "...t"}
	pArrWild := &c08P{K: c08PArr, Sub: []*c08P{{K: c08PWild}, c08PI("y")}}
	var out []*c08N

	// ---- R1 (and R7): every binder pattern, shadowing, bodies that close over the bound name
	xy := c08Bin("-", v("x"), v("y"))
	out = append(out,
		c08Let(c08PI("x"), n("1"), c08Bin("+", v("x"), n("1"))),
		c08Let(pTup, tupAB("4", "7"), xy),
		c08Let(pTupRest, tupAB("4", "7"), v("x")),
		c08Let(pArr, c08Arr(n("1"), n("2")), xy),
		c08Let(pArr, c08Arr(n("1"), n("2"), n("3")), xy), // pattern mismatch: must fail in all three forms
		c08Let(pArrRest, c08Arr(n("1"), n("2"), n("3")), c08Arr(v("x"), v("t"))),
		c08Let(pArrWild, c08Arr(n("1"), n("2")), v("y")),
		c08Let(&c08P{K: c08PWild}, n("1"), n("2")),
		c08Let(&c08P{K: c08PNum, Name: "3"}, c08Bin("+", n("1"), n("2")), n("5")),
		c08Let(&c08P{K: c08PNum, Name: "4"}, c08Bin("+", n("1"), n("2")), n("5")),
		c08Let(c08PI("."), tupAB("3", "4"), c08Bin("+", c08Dot(v("."), "a"), n("1"))),
		c08Let(c08PI("x"), n("1"), c08Let(c08PI("x"), c08Bin("+", v("x"), n("1")), v("x"))),
		c08Let(c08PI("x"), n("1"), c08Let(c08PI("y"), n("2"), c08Let(c08PI("x"), n("3"), c08Arr(v("x"), v("y"))))),
		c08Let(c08PI("x"), n("1"), c08Call(c08Lam(c08PI("x"), v("x")), n("2"))),
		c08Let(c08PI("y"), n("5"), c08Let(c08PI("f"), c08Lam(c08PI("z"), c08Bin("+", v("y"), v("z"))),
			c08Let(c08PI("y"), n("7"), c08Call(v("f"), n("1"))))),
		c08Let(c08PI("f"), c08Lam(c08PI("y"), c08Bin("+", v("y"), n("1"))), c08Call(v("f"), n("2"))),
		c08Let(c08PI("f"), c08Lam(c08PI("y"), c08Bin("+", v("y"), n("1"))), c08Xform("=>", nil, c08Leaf("set", 0), v("f"))),
		c08Let(c08PI("f"), c08Lam(c08PI("y"), c08Bin("+", v("y"), n("1"))), c08Xform(">>", nil, c08Leaf("arr", 0), c08Call(v("f"), v(".")))),
		c08Let(c08PI("x"), c08Arr(n("1"), n("2")), c08Xform(">>", nil, v("x"), c08Bin("+", v("."), c08Count(v("x"))))),
		c08Let(c08PI("x"), n("2"), c08Xform("=>", c08PI("x"), c08Leaf("set", 0), c08Bin("*", v("x"), n("2")))),
		c08Let(c08PI("x"), n("2"), c08Xform("=>", nil, c08Leaf("set", 0), c08Bin("*", v("x"), v(".")))),
		c08Let(c08PI("y"), v("x"), v("y")), // open program: fails on both sides
		c08Arrow(c08PI("x"), n("1"), c08Arrow(c08PI("y"), n("2"), c08Bin("+", v("x"), v("y")))),
		c08Arrow(c08PI("x"), c08Arrow(c08PI("y"), n("2"), c08Bin("+", v("y"), n("1"))), c08Bin("*", v("x"), n("2"))),
		c08Arrow(pTup, tupAB("1", "2"), c08Bin("+", v("x"), v("y"))),
		c08Arrow(pArr, c08Arr(n("1"), n("2")), c08Bin("+", v("x"), v("y"))),
		c08Arrow(nil, n("42"), c08Bin("+", v("."), n("1"))),
		c08Arrow(nil, tupAB("2", "3"), c08Bin("*", c08Dot(v("."), "a"), c08Dot(v("."), "b"))),
		c08Call(c08Lam(pArr, c08Bin("+", v("x"), v("y"))), c08Arr(n("1"), n("2"))),
		c08Call(c08Lam(c08PI("x"), c08Lam(c08PI("y"), c08Bin("-", v("x"), v("y")))), n("5")),
		c08Call(c08Call(c08Lam(c08PI("x"), c08Lam(c08PI("y"), c08Bin("-", v("x"), v("y")))), n("5")), n("3")),
		c08Bin("+", c08Let(c08PI("x"), n("1"), v("x")), c08Let(c08PI("x"), n("2"), v("x"))),
		c08Bin("*", n("2"), c08Let(c08PI("x"), n("1"), c08Bin("+", v("x"), n("1")))),
	)

	// ---- R2 / R9: every literal kind, bare and under operators that look at the representation
	str := c08Str("ab")
	arr := c08Arr(n("1"), n("2"))
	dict := c08Dict(c08Str("a"), n("1"), c08Str("b"), n("2"))
	rel := c08Rel(ab, n("1"), n("2"), n("3"), n("4"))
	lits := []*c08N{str, c08Str(""), c08Str("a"), arr, c08Arr(), c08Arr(arr.clone(), c08Arr(n("3"))), dict, c08Dict(),
		c08Dict(c08Str("k"), arr.clone()), rel, c08Bool(true), c08Bool(false), c08Set(n("1"), n("1"), n("2")),
		c08Set(tupAB("1", "2"), tupAB("1", "2"), tupAB("3", "4")), tupAB("1", "2"), c08Tup(nil), n("97"),
		{K: c08KChar, Op: "a"}, c08Set(str.clone(), arr.clone()), c08Tup([]string{"a"}, dict.clone())}
	for _, l := range lits {
		out = append(out, l.clone(), c08Count(l.clone()), c08Cmp([]string{"="}, l.clone(), l.clone()),
			c08Set(l.clone(), l.clone()), c08Arr(l.clone()), c08Tup([]string{"a"}, l.clone()), c08Dict(c08Str("k"), l.clone()),
			c08Let(c08PI("x"), l.clone(), c08Cmp([]string{"="}, v("x"), l.clone())))
	}
	out = append(out,
		c08Bin("++", str.clone(), c08Str("cd")), c08Bin("++", arr.clone(), c08Arr(n("3"))),
		c08Call(str.clone(), n("1")), c08Call(arr.clone(), n("1")), c08Call(dict.clone(), c08Str("b")),
		c08Call(arr.clone(), n("5")), c08Call(dict.clone(), c08Str("z")),
		c08Xform(">>", nil, str.clone(), c08Bin("+", v("."), n("1"))),
		c08Xform(">>", nil, arr.clone(), c08Bin("+", v("."), n("1"))),
		c08Xform(">>", nil, dict.clone(), c08Bin("+", v("."), n("1"))),
		c08Xform("=>", nil, arr.clone(), c08Dot(v("."), "@item")),
		c08Xform("=>", nil, dict.clone(), c08Dot(v("."), "@value")),
		c08Xform("where", nil, rel.clone(), c08Cmp([]string{">"}, c08Dot(v("."), "a"), n("1"))),
		c08Xform("=>", nil, rel.clone(), c08Dot(v("."), "b")),
		c08Bin("|", rel.clone(), c08Set(tupAB("5", "6"))),
		c08Bin("+>", dict.clone(), c08Dict(c08Str("c"), n("3"))),
		c08Cmp([]string{"<:"}, tupAB("1", "2"), rel.clone()),
		c08Cmp([]string{"(<)"}, c08Arr(n("1")), c08Arr(n("1"), n("2"))),
		c08Let(c08PI("x"), n("0"), c08Arr(v("x"), c08Bin("+", v("x"), n("1")))),
		c08Let(c08PI("x"), n("7"), c08Dict(c08Str("a"), v("x"), c08Str("b"), c08Bin("+", v("x"), n("1")))),
		c08Let(c08PI("x"), n("7"), c08Rel(ab, v("x"), n("1"), n("2"), v("x"))),
		c08Bin("&&", c08Bool(true), n("3")), c08Bin("||", c08Bool(false), n("0")),
	)

	// ---- R3: each transform with bodies that use ., .attr, nest another default binder, or close over .
	dot1 := c08Bin("+", v("."), n("1"))
	set12 := c08Leaf("set", 0)
	out = append(out,
		c08Xform("=>", nil, set12, dot1), c08Xform("=>", nil, set12, v(".")), c08Xform("=>", nil, set12, n("7")),
		c08Xform("where", nil, set12, c08Cmp([]string{">"}, v("."), n("1"))),
		c08Xform(">>", nil, arr.clone(), dot1), c08Xform(":>", nil, tupAB("1", "2"), dot1), c08Arrow(nil, n("3"), dot1),
		c08Xform("=>", nil, rel.clone(), c08Dot(v("."), "a")),
		c08Xform("=>", nil, rel.clone(), c08Tup(ab, c08Dot(v("."), "b"), c08Dot(v("."), "a"))),
		c08Xform("=>", nil, c08Set(set12.clone(), c08Leaf("set", 2)), c08Xform("=>", nil, v("."), dot1)),
		c08Xform("=>", nil, c08Set(set12.clone(), c08Leaf("set", 2)), c08Xform("where", nil, v("."), c08Cmp([]string{">"}, v("."), n("1")))),
		c08Xform(">>", nil, c08Arr(set12.clone(), c08Leaf("set", 2)), c08Xform("=>", nil, v("."), c08Bin("+", n("10"), v(".")))),
		c08Xform("=>", nil, set12, c08Call(c08Lam(c08PI("y"), c08Bin("+", v("."), v("y"))), n("10"))),
		c08Xform("=>", nil, set12, c08Let(c08PI("y"), v("."), c08Bin("*", v("y"), v("y")))),
		c08Xform("=>", nil, set12, c08Arrow(nil, dot1, c08Bin("*", v("."), n("2")))),
		c08Xform("=>", nil, set12, c08Lam(c08PI("y"), v("y"))),
		c08Xform("=>", c08PI("x"), set12, c08Bin("+", v("x"), n("1"))),
		c08Xform("where", c08PI("x"), set12, c08Cmp([]string{">"}, v("x"), n("1"))),
		c08Xform(">>", c08PI("x"), arr.clone(), c08Bin("*", v("x"), v("x"))),
		c08Xform(":>", c08PI("x"), tupAB("1", "2"), c08Bin("-", n("1"), v("x"))),
		c08Xform("=>", pTup, rel.clone(), c08Bin("+", v("x"), v("y"))),
		c08Xform("=>", c08PI("x"), set12, c08Xform("=>", nil, set12, c08Bin("+", v("x"), v(".")))),
		c08Arrow(c08PI("x"), n("3"), c08Xform("=>", nil, set12, c08Bin("+", v("x"), v(".")))),
		c08Arrow(nil, n("3"), c08Xform("=>", c08PI("x"), set12, c08Bin("+", v("x"), v(".")))),
		c08Xform("where", nil, c08Xform("=>", nil, set12, dot1), c08Cmp([]string{">"}, v("."), n("2"))),
		c08Xform("=>", nil, c08Xform("where", nil, set12, c08Cmp([]string{">"}, v("."), n("1"))), dot1),
	)

	// every transform nested under every binder of `.`, and under an explicit binder that it shadows
	inner := func() []*c08N {
		return []*c08N{
			c08Xform("=>", nil, c08Leaf("set", 0), c08Bin("+", v("."), n("1"))),
			c08Xform("where", nil, c08Leaf("set", 0), c08Cmp([]string{">"}, v("."), n("1"))),
			c08Xform(">>", nil, arr.clone(), c08Bin("+", v("."), n("1"))),
			c08Xform(":>", nil, tupAB("1", "2"), c08Bin("+", v("."), n("1"))),
			c08Arrow(nil, n("5"), c08Bin("+", v("."), n("1"))),
			c08Xform("=>", c08PI("x"), c08Leaf("set", 0), c08Bin("+", v("x"), n("1"))),
			c08Xform("where", c08PI("x"), c08Leaf("set", 0), c08Cmp([]string{">"}, v("x"), n("1"))),
			c08Xform(">>", c08PI("x"), arr.clone(), c08Bin("+", v("x"), n("1"))),
			c08Xform(":>", c08PI("x"), tupAB("1", "2"), c08Bin("+", v("x"), n("1"))),
			c08Arrow(c08PI("x"), n("5"), c08Bin("+", v("x"), n("1"))),
			c08Call(c08Lam(c08PI("x"), c08Bin("+", v("x"), n("1"))), n("5")),
			c08Let(c08PI("x"), n("5"), c08Bin("+", v("x"), n("1"))),
		}
	}
	for _, in := range inner() {
		out = append(out, c08Arrow(nil, n("3"), in.clone()), c08Let(c08PI("x"), n("3"), in.clone()),
			c08Arrow(c08PI("x"), n("3"), in.clone()), c08Call(c08Lam(c08PI("x"), in.clone()), n("3")),
			c08Xform("=>", nil, c08Set(n("3"), n("4")), in.clone()), c08Xform("=>", c08PI("x"), c08Set(n("3"), n("4")), in.clone()),
			c08Xform(">>", nil, c08Arr(n("3"), n("4")), in.clone()), c08Xform(">>", c08PI("x"), c08Arr(n("3"), n("4")), in.clone()),
			c08Xform(":>", nil, tupAB("3", "4"), in.clone()), c08Xform(":>", c08PI("x"), tupAB("3", "4"), in.clone()),
			c08Let(c08PI("."), n("3"), in.clone()))
	}

	// ---- R8: each lazy construct, each selection
	t, f := c08Bool(true), c08Bool(false)
	out = append(out,
		c08Bin("&&", f, n("1")), c08Bin("&&", t, n("1")), c08Bin("||", t, n("1")), c08Bin("||", f, n("1")),
		c08Bin("&&", n("0"), n("1")), c08Bin("||", n("3"), n("1")), c08Bin("||", c08Tup(nil), n("1")), c08Bin("&&", c08Set(), n("1")),
		c08Bin("||", c08Bin("&&", f, n("1")), n("2")), c08Bin("&&", c08Bin("||", t, n("1")), n("2")),
		c08If(n("1"), t, n("2")), c08If(n("1"), f, n("2")), c08If(n("1"), c08Cmp([]string{"<"}, n("1"), n("2")), n("2")),
		c08Cond(true, t, n("1"), n("2")), c08Cond(true, f, n("1"), n("2")), c08Cond(false, f, n("1")),
		c08Cond(true, f, n("1"), t, n("2"), t, n("3"), n("4")), c08Cond(true, f, n("1"), f, n("2"), n("4")),
		c08Cond(true, c08Cmp([]string{">"}, n("1"), n("0")), n("2"), n("3")),
		c08Let(c08PI("x"), n("5"), c08Cond(true, c08Cmp([]string{">"}, v("x"), n("3")), n("1"), c08Cmp([]string{">"}, v("x"), n("1")), n("2"), n("3"))),
		c08Let(c08PI("x"), n("2"), c08Cond(true, c08Cmp([]string{">"}, v("x"), n("3")), n("1"), c08Cmp([]string{">"}, v("x"), n("1")), n("2"), n("3"))),
		c08Arrow(nil, n("2"), c08Cond(true, c08Cmp([]string{">"}, v("."), n("3")), n("1"), n("3"))),
		c08Call(c08Lam(c08PI("x"), c08Bin("||", c08Cmp([]string{"="}, v("x"), n("2")), n("9"))), n("2")),
		c08Xform("=>", nil, c08Leaf("set", 0), c08Cond(true, c08Cmp([]string{">"}, v("."), n("1")), n("10"), n("20"))),
		c08Xform("=>", nil, c08Leaf("set", 0), c08Cond(true, t, v("."), n("20"))),
		c08CondV(n("1"), []*c08P{{K: c08PNum, Name: "1"}, {K: c08PWild}}, n("2"), n("3")),
		c08CondV(n("5"), []*c08P{{K: c08PNum, Name: "1"}, {K: c08PWild}}, n("2"), n("3")),
		c08CondV(n("5"), []*c08P{{K: c08PNum, Name: "1"}}, n("2")),
		c08CondV(n("5"), []*c08P{{K: c08PNum, Name: "1"}, c08PI("x")}, n("2"), c08Bin("+", v("x"), n("1"))),
		c08CondV(c08Arr(n("1"), n("2")), []*c08P{pArr, {K: c08PWild}}, c08Bin("+", v("x"), v("y")), n("0")),
		c08CondV(tupAB("1", "2"), []*c08P{pTupRest, {K: c08PWild}}, v("x"), n("0")),
		c08CondV(c08Arr(n("1")), []*c08P{pArr, {K: c08PWild}}, c08Bin("+", v("x"), v("y")), n("0")),
	)
	return out
}

var (
	c08CorpusCache []*c08N
	c08CorpusPrecN int // the first c08CorpusPrecN programs are the precedence-pair part
)

func c08Corpus() []*c08N {
	if c08CorpusCache == nil {
		prec := c08PrecedenceCorpus()
		c08CorpusPrecN = len(prec)
		for _, n := range append(prec, c08FamilyCorpus()...) {
			c08CorpusCache = append(c08CorpusCache, n.clone()) // clones: no node is shared inside or between trees
		}
	}
	return c08CorpusCache
}
