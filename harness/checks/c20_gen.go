package checks

import (
	"fmt"
	"os"
	"path/filepath"
	"sort"
	"strings"
	"sync"

	"verif/core"
)

// Generators for C20: result trees (with a source spelling per container), the seed-independent
// core corpus, fixed directory layouts and seeded random layouts.

type c20Tree struct {
	Kind  byte       // 'l' leaf, 't' tuple, 'a' array, 'd' dict
	Leaf  string     // leaf source
	Names []string   // tuple: attribute names; dict: key sources
	Kids  []*c20Tree // array: nil = hole (never first or last)
	Off   int        // array offset
	Spell string
}

var c20AllSpells = []string{
	"tuple-lit", "tuple-merge", "tuple-fn",
	"array-lit", "array-rel", "array-tuples", "array-union", "array-concat", "array-with", "array-map", "array-holes", "array-offset",
	"dict-lit", "dict-union", "dict-tuples", "dict-rel", "dict-with", "dict-merge", "dict-fn", "dict-nonstring", "dict-multi",
	"empty-tuple", "empty-array", "empty-dict",
}

func c20L(src string) *c20Tree { return &c20Tree{Kind: 'l', Leaf: src} }

func (t *c20Tree) hasHole() bool {
	for _, k := range t.Kids {
		if k == nil {
			return true
		}
	}
	return false
}

// spells lists the coverage tags of every container in the tree.
func (t *c20Tree) spells(into []string) []string {
	if t == nil || t.Kind == 'l' {
		return into
	}
	into = append(into, t.Spell)
	switch t.Kind {
	case 't':
		if len(t.Kids) == 0 {
			into = append(into, "empty-tuple")
		}
	case 'a':
		if len(t.Kids) == 0 {
			into = append(into, "empty-array")
		}
		if t.hasHole() {
			into = append(into, "array-holes")
		}
		if t.Off != 0 {
			into = append(into, "array-offset")
		}
	case 'd':
		if len(t.Kids) == 0 {
			into = append(into, "empty-dict")
		}
		seen := map[string]bool{}
		for _, k := range t.Names {
			if !strings.HasPrefix(k, `"`) {
				into = append(into, "dict-nonstring")
			}
			if seen[k] {
				into = append(into, "dict-multi")
			}
			seen[k] = true
		}
	}
	for _, k := range t.Kids {
		into = k.spells(into)
	}
	return into
}

func (t *c20Tree) src() string {
	switch t.Kind {
	case 'l':
		return t.Leaf
	case 't':
		return t.tupleSrc()
	case 'a':
		return t.arraySrc()
	}
	return t.dictSrc()
}

func (t *c20Tree) tupleSrc() string {
	pair := func(i int) string { return core.AttrName(t.Names[i]) + ": " + t.Kids[i].src() }
	n := len(t.Kids)
	switch {
	case n == 0:
		return "()"
	case t.Spell == "tuple-merge" && n >= 2:
		parts := make([]string, n)
		for i := range parts {
			parts[i] = "(" + pair(i) + ")"
		}
		return "(" + strings.Join(parts, " +> ") + ")"
	case t.Spell == "tuple-fn":
		parts := make([]string, n)
		for i := range parts {
			parts[i] = fmt.Sprintf("%q: %s", t.Names[i], t.Kids[i].src())
		}
		return "//tuple({" + strings.Join(parts, ", ") + "})"
	}
	parts := make([]string, n)
	for i := range parts {
		parts[i] = pair(i)
	}
	return "(" + strings.Join(parts, ", ") + ")"
}

func (t *c20Tree) arrayLit() string {
	parts := make([]string, len(t.Kids))
	for i, k := range t.Kids {
		if k != nil {
			parts[i] = k.src()
		}
	}
	s := "[" + strings.Join(parts, ", ") + "]"
	if t.Off != 0 {
		s = fmt.Sprintf("%d\\%s", t.Off, s)
	}
	return s
}

func (t *c20Tree) arraySrc() string {
	type item struct {
		i int
		s string
	}
	var items []item
	for i, k := range t.Kids {
		if k != nil {
			items = append(items, item{t.Off + i, k.src()})
		}
	}
	if len(items) == 0 {
		switch t.Spell {
		case "array-concat":
			return "([] ++ [])"
		case "array-rel", "array-tuples":
			return "{}"
		case "array-map":
			return `([] >> \x x)`
		}
		return "[]"
	}
	parts := make([]string, len(items))
	switch t.Spell {
	case "array-rel":
		for k, it := range items {
			parts[k] = fmt.Sprintf("(%d, %s)", it.i, it.s)
		}
		return "{|@, @item| " + strings.Join(parts, ", ") + "}"
	case "array-tuples":
		for k, it := range items {
			parts[k] = fmt.Sprintf("(@: %d, @item: %s)", it.i, it.s)
		}
		return "{" + strings.Join(parts, ", ") + "}"
	case "array-union":
		for k, it := range items {
			parts[k] = fmt.Sprintf("(%d\\[%s])", it.i, it.s)
		}
		return "(" + strings.Join(parts, " | ") + ")"
	case "array-with":
		s := fmt.Sprintf("(%d\\[%s])", items[0].i, items[0].s)
		for _, it := range items[1:] {
			s = fmt.Sprintf("(%s with (@: %d, @item: %s))", s, it.i, it.s)
		}
		return s
	case "array-concat":
		if !t.hasHole() {
			for k, it := range items {
				parts[k] = "[" + it.s + "]"
			}
			s := "(" + strings.Join(parts, " ++ ") + ")"
			if t.Off != 0 {
				s = fmt.Sprintf("(%d\\%s)", t.Off, s)
			}
			return s
		}
	case "array-map":
		return "(" + t.arrayLit() + ` >> \x x)`
	}
	return t.arrayLit()
}

func (t *c20Tree) dictSrc() string {
	n := len(t.Kids)
	if n == 0 {
		return "{}"
	}
	entry := func(i int) string { return t.Names[i] + ": " + t.Kids[i].src() }
	parts := make([]string, n)
	switch t.Spell {
	case "dict-union", "dict-merge":
		op := map[string]string{"dict-union": " | ", "dict-merge": " +> "}[t.Spell]
		for i := range parts {
			parts[i] = "{" + entry(i) + "}"
		}
		return "(" + strings.Join(parts, op) + ")"
	case "dict-tuples":
		for i := range parts {
			parts[i] = fmt.Sprintf("(@: %s, @value: %s)", t.Names[i], t.Kids[i].src())
		}
		return "{" + strings.Join(parts, ", ") + "}"
	case "dict-rel":
		for i := range parts {
			parts[i] = fmt.Sprintf("(%s, %s)", t.Names[i], t.Kids[i].src())
		}
		return "{|@, @value| " + strings.Join(parts, ", ") + "}"
	case "dict-with":
		s := "{" + entry(0) + "}"
		for i := 1; i < n; i++ {
			s = fmt.Sprintf("(%s with (@: %s, @value: %s))", s, t.Names[i], t.Kids[i].src())
		}
		return s
	case "dict-fn":
		ok := true
		for i := range parts {
			k := strings.Trim(t.Names[i], `"`)
			if !simpleIdent(k) || !strings.HasPrefix(t.Names[i], `"`) {
				ok = false
			}
			parts[i] = k + ": " + t.Kids[i].src()
		}
		if ok {
			return "//dict((" + strings.Join(parts, ", ") + "))"
		}
	}
	for i := range parts {
		parts[i] = entry(i)
	}
	return "{" + strings.Join(parts, ", ") + "}"
}

// ------------------------------------------------------------------------------------------
// core corpus (seed-independent)

var (
	c20CoreOnce [2]sync.Once
	c20CoreMemo [2][]*c20Tree
)

func c20Tuples(alpha []string, maxLen int) [][]string {
	out := [][]string{{}}
	prev := [][]string{{}}
	for l := 1; l <= maxLen; l++ {
		var cur [][]string
		for _, p := range prev {
			for _, a := range alpha {
				cur = append(cur, append(append([]string{}, p...), a))
			}
		}
		out = append(out, cur...)
		prev = cur
	}
	return out
}

var c20TupleNames = []string{"a", "b", "c", "d"}
var c20DictKeys = []string{`"k"`, `"j"`, `"m"`, `"n"`}

func c20Mk(kind byte, spell string, kids []*c20Tree) *c20Tree {
	t := &c20Tree{Kind: kind, Spell: spell, Kids: kids}
	switch kind {
	case 't':
		t.Names = c20TupleNames[:len(kids)]
	case 'd':
		t.Names = c20DictKeys[:len(kids)]
	}
	return t
}

func c20Leaves(srcs []string) []*c20Tree {
	out := make([]*c20Tree, len(srcs))
	for i, s := range srcs {
		out[i] = c20L(s)
	}
	return out
}

func c20CoreTrees(thorough bool) []*c20Tree {
	ix := 0
	if thorough {
		ix = 1
	}
	c20CoreOnce[ix].Do(func() {
		alpha := []string{"true", "false", "1"}
		if thorough {
			alpha = append(alpha, `"s"`)
		}
		var out []*c20Tree
		for _, a := range alpha {
			out = append(out, c20L(a))
		}
		// depth 1: every spelling, arity 0..3
		for _, kids := range c20Tuples(alpha, 3) {
			ks := func() []*c20Tree { return c20Leaves(kids) }
			for _, sp := range []string{"tuple-lit", "tuple-merge", "tuple-fn"} {
				if sp != "tuple-lit" && len(kids) == 0 {
					continue
				}
				out = append(out, c20Mk('t', sp, ks()))
			}
			for _, sp := range []string{"array-lit", "array-rel", "array-tuples", "array-union", "array-concat", "array-with", "array-map"} {
				out = append(out, c20Mk('a', sp, ks()))
				if len(kids) == 0 {
					continue
				}
				off := c20Mk('a', sp, ks())
				off.Off = 2
				out = append(out, off)
				if len(kids) >= 2 && sp != "array-concat" {
					// a hole after the first item, with and without offset
					for _, o := range []int{0, 3} {
						h := c20Mk('a', sp, nil)
						l := ks()
						h.Kids = append([]*c20Tree{l[0], nil}, l[1:]...)
						h.Off = o
						out = append(out, h)
					}
				}
			}
			neg := c20Mk('a', "array-lit", ks())
			if len(kids) > 0 {
				neg.Off = -1
				out = append(out, neg)
			}
			for _, sp := range []string{"dict-lit", "dict-union", "dict-tuples", "dict-rel", "dict-with", "dict-merge", "dict-fn"} {
				if sp != "dict-lit" && len(kids) == 0 {
					continue
				}
				out = append(out, c20Mk('d', sp, ks()))
			}
			if len(kids) > 0 {
				ns := c20Mk('d', "dict-lit", ks())
				ns.Names = []string{"1", "(x: 1)", "[2]"}[:len(kids)]
				out = append(out, ns)
			}
			if len(kids) == 2 && kids[0] != kids[1] {
				for _, sp := range []string{"dict-union", "dict-tuples", "dict-rel"} {
					mu := c20Mk('d', sp, ks())
					mu.Names = []string{`"k"`, `"k"`}
					out = append(out, mu)
				}
			}
		}
		// tuples whose attribute names are the ones array items / dict entries use internally
		for _, a := range alpha {
			for _, names := range [][]string{{"@", "@item"}, {"@", "@value"}, {"@item"}, {"@x", "y"}} {
				t := &c20Tree{Kind: 't', Spell: "tuple-lit", Names: names, Kids: []*c20Tree{c20L("1"), c20L(a)}[2-len(names):]}
				out = append(out, t, c20Mk('t', "tuple-lit", []*c20Tree{t}), c20Mk('a', "array-lit", []*c20Tree{t, c20L("true")}))
			}
		}
		// depth 2: outer x children in {leaf, container of arity<=2}
		var inner []*c20Tree
		for _, a := range alpha {
			inner = append(inner, c20L(a))
		}
		alpha2 := alpha
		if !thorough {
			alpha2 = alpha[:2] // quick: grandchildren over {true,false}; children still include the non-boolean leaf
		}
		for _, kids := range c20Tuples(alpha2, 2) {
			inner = append(inner, c20Mk('t', "tuple-lit", c20Leaves(kids)), c20Mk('a', "array-lit", c20Leaves(kids)), c20Mk('d', "dict-lit", c20Leaves(kids)))
		}
		outer := func(kids []*c20Tree) {
			out = append(out, c20Mk('t', "tuple-lit", kids), c20Mk('a', "array-lit", kids), c20Mk('d', "dict-lit", kids))
			sp := c20Mk('a', "array-lit", nil)
			sp.Off = 2
			if len(kids) == 2 {
				sp.Kids = []*c20Tree{kids[0], nil, kids[1]}
			} else {
				sp.Kids = kids
			}
			out = append(out, sp)
		}
		for _, x := range inner {
			outer([]*c20Tree{x})
		}
		for _, x := range inner {
			for _, y := range inner {
				outer([]*c20Tree{x, y})
			}
		}
		c20CoreMemo[ix] = out
	})
	return c20CoreMemo[ix]
}

// ------------------------------------------------------------------------------------------
// layouts

const c20Helper = "(yes: true, no: false, num: 7, tree: (p: true, q: [true, true]), bad: (p: true, q: [true, 3]))"

// c20Role classifies a path of the layout with respect to the target (statement + docs).
func c20Role(target string, targetIsFile bool, path string) (role, why string) {
	target = filepath.Clean(target)
	path = filepath.Clean(path)
	base := filepath.Base(path)
	hiddenSeg := func(p string) bool {
		for _, s := range strings.Split(p, "/") {
			if strings.HasPrefix(s, ".") && s != "." && s != ".." {
				return true
			}
		}
		return false
	}
	if targetIsFile {
		if path != target {
			return "other", "outside-target"
		}
		if !strings.HasSuffix(base, "_test.arrai") || hiddenSeg(path) {
			return "optional", "target-file"
		}
		return "test", ""
	}
	if !strings.HasPrefix(path, target+"/") {
		return "other", "outside-target"
	}
	relp := strings.TrimPrefix(path, target+"/")
	if hiddenSeg(filepath.Dir(relp)) {
		return "other", "hidden-dir"
	}
	if !strings.HasSuffix(base, "_test.arrai") {
		return "other", "non-test-name"
	}
	if strings.HasPrefix(filepath.Base(target), ".") {
		return "optional", "hidden-target"
	}
	if strings.HasPrefix(base, ".") {
		return "optional", "hidden-file"
	}
	return "test", ""
}

func c20Poison(k int) string {
	if k%3 == 2 {
		return "(poison: undefined_poison_name)"
	}
	return "(poison: false)"
}

// c20Finish assigns roles, poisons files that must not run and derives the coverage tags.
func c20Finish(l *c20Layout, targetIsFile bool, effTarget string) *c20Layout {
	tags := map[string]bool{}
	nTest := 0
	for i := range l.Files {
		f := &l.Files[i]
		f.Role, f.Why = c20Role(effTarget, targetIsFile, f.Path)
		if f.Role == "other" {
			if strings.HasSuffix(f.Path, "/helper.arrai") {
				f.Src = c20Helper
			} else {
				f.Src = c20Poison(i)
			}
			tags["layout:"+f.Why] = true
		} else {
			if f.Role == "test" {
				nTest++
			} else {
				tags["layout:"+f.Why] = true
			}
			relp := strings.TrimPrefix(filepath.Clean(f.Path), filepath.Clean(effTarget)+"/")
			if strings.Count(relp, "/") >= 2 {
				tags["layout:nested"] = true
			}
		}
	}
	if targetIsFile {
		tags["layout:file-target"] = true
	}
	if nTest == 0 {
		tags["layout:zero-files"] = true
	}
	for t := range tags {
		l.Tags = append(l.Tags, t)
	}
	sort.Strings(l.Tags)
	return l
}

func c20Cwd() string {
	d, err := os.Getwd()
	if err != nil {
		return "/w/cwd"
	}
	return d
}

func c20FixedLayouts() []*c20Layout {
	T, F := "(t: true)", "(t: true, f: false)"
	mk := func(target string, isFile bool, eff string, tags []string, kv ...string) *c20Layout {
		l := &c20Layout{Target: target, Tags: append([]string{"kind:fixed"}, tags...)}
		for i := 0; i+1 < len(kv); i += 2 {
			l.Files = append(l.Files, c20File{Path: kv[i], Src: kv[i+1]})
		}
		return c20Finish(l, isFile, eff)
	}
	cwd := c20Cwd()
	var out []*c20Layout
	for _, body := range []string{T, F} {
		out = append(out,
			// nested directories, hidden directories at every level, names that are almost test files
			mk("/w/t", false, "/w/t", nil, "/w/t/a_test.arrai", body, "/w/t/must/go/deeper/b_test.arrai", T,
				"/w/t/.must/go/deeper/c_test.arrai", "", "/w/t/must/.go/deeper/d_test.arrai", "", "/w/t/must/go/.deeper/e_test.arrai", "",
				"/w/t/must/go/deeper/.x/f_test.arrai", ""),
			mk("/w/t", false, "/w/t", nil, "/w/t/a_test.arrai", body, "/w/t/a_test.arrai.txt", "", "/w/t/test.arrai", "", "/w/t/b_test.arr", "",
				"/w/t/c_TEST.arrai", "", "/w/t/atest.arrai", "", "/w/t/a_test.arrai~", "", "/w/t/a_test_arrai", "", "/w/t/README.md", "",
				"/w/t/_test.arrai", T, "/w/t/x_test.arrai/y_test.arrai", T, "/w/t/x_test.arrai/notes.txt", ""),
			// files outside the target: parent, sibling, sibling whose name has the target as prefix
			mk("/w/t", false, "/w/t", nil, "/w/t/a_test.arrai", body, "/w/u_test.arrai", "", "/w/other/o_test.arrai", "", "/w/t2/s_test.arrai", "",
				"/w/t_test.arrai", ""),
			mk("/w/t/sub", false, "/w/t/sub", nil, "/w/t/sub/a_test.arrai", body, "/w/t/b_test.arrai", "", "/w/t/sub/in/c_test.arrai", T, "/w/t/subx/d_test.arrai", ""),
			mk("/w/t/", false, "/w/t", []string{"layout:trailing-slash"}, "/w/t/a_test.arrai", body, "/w/t/sub/b_test.arrai", T),
			// file targets
			mk("/w/t/a_test.arrai", true, "/w/t/a_test.arrai", nil, "/w/t/a_test.arrai", body, "/w/t/b_test.arrai", "", "/w/t/sub/c_test.arrai", ""),
			mk("/w/t/.h/a_test.arrai", true, "/w/t/.h/a_test.arrai", nil, "/w/t/.h/a_test.arrai", body, "/w/t/b_test.arrai", ""),
			mk("/w/t/plain.arrai", true, "/w/t/plain.arrai", nil, "/w/t/plain.arrai", body, "/w/t/b_test.arrai", ""),
			// hidden target directory, hidden file
			mk("/w/.t", false, "/w/.t", nil, "/w/.t/a_test.arrai", body, "/w/.t/sub/b_test.arrai", T),
			mk("/w/t", false, "/w/t", nil, "/w/t/.a_test.arrai", body, "/w/t/b_test.arrai", T),
			// cwd targets
			mk("", false, cwd, []string{"layout:cwd-target"}, cwd+"/a_test.arrai", body, cwd+"/sub/b_test.arrai", T, cwd+"/.git/c_test.arrai", "", "/w/t/d_test.arrai", ""),
			mk(".", false, cwd, []string{"layout:cwd-target"}, cwd+"/a_test.arrai", body, cwd+"/notes.arrai", ""),
			// helper import next to the test file
			mk("/w/t", false, "/w/t", []string{"file:import"}, "/w/t/a_test.arrai", "let h = //{./helper}; (x: h.yes, y: h.tree, z: "+map[bool]string{true: "h.yes", false: "h.no"}[body == T]+")", "/w/t/helper.arrai", ""),
		)
	}
	// attribute names / keys that contain the characters the path notation itself uses
	for _, src := range []string{`("a.b": true, a: (b: true))`, `("a(0)": true, a: [false])`, `{"k')('j": true, "k": {"j": true}}`,
		`("a.b": true, c: (b: true))`, `{"it's": true, "p(q)": [true, 1]}`} {
		out = append(out, mk("/w/t", false, "/w/t", []string{"layout:name-path-syntax"}, "/w/t/a_test.arrai", src))
	}
	// zero test files / missing target
	out = append(out,
		mk("/w/t", false, "/w/t", nil, "/w/t/notes.arrai", "", "/w/t/.hid/a_test.arrai", ""),
		mk("/w/t", false, "/w/t", []string{"mkdir:/w/t"}),
		mk("/w/nowhere", false, "/w/nowhere", []string{"layout:missing-target"}, "/w/t/a_test.arrai", ""),
		mk("/w/t/empty", false, "/w/t/empty", []string{"mkdir:/w/t/empty/dir"}, "/w/t/a_test.arrai", ""),
	)
	// unevaluable files: first, middle, last, alone; every error kind
	for k, bad := range c20ErrFiles {
		tags := []string{"file:uneval"}
		if strings.HasSuffix(bad, " extra") {
			tags = append(tags, "file:unconsumed")
		}
		switch k % 3 {
		case 0:
			out = append(out, mk("/w/t", false, "/w/t", tags, "/w/t/a_test.arrai", bad))
		case 1:
			out = append(out, mk("/w/t", false, "/w/t", tags, "/w/t/a_test.arrai", T, "/w/t/b_test.arrai", bad, "/w/t/c_test.arrai", T))
		default:
			out = append(out, mk("/w/t", false, "/w/t", tags, "/w/t/a_test.arrai", F, "/w/t/z/b_test.arrai", bad))
		}
	}
	return out
}

var c20ErrLeaves = []string{"undefined_name", "//seq.concat(1)", "{1: 2}(3)", "(x: 1).y", "//test.assert.equal(1, 2)", "//{./nope}"}

var c20ErrFiles = []string{
	"(a: true, b: undefined_name)", "(a: true) extra", "(a: [true, //seq.concat(1)])", "{\"k\": {1: 2}(3)}", "(a: (x: 1).y)",
	"(a: //test.assert.equal(1, 2))", "(a: //{./nope})", "undefined_name", "[true] extra",
}

// ---- random ----

var (
	c20LeafT = []string{"true", "true", "true", "{()}", "1 = 1", "!false", "1 < 2", "({1} => ())", "({(), 1} &~ {1})", "({()} | {})", `//seq.has_prefix("a", "ab")`}
	c20LeafF = []string{"false", "false", "{}", "1 = 2", `""`, "[]", "({1} &~ {1})", "!true", "<<>>", "([1] where false)"}
	c20LeafO = []string{"1", "0", "-1", "0.5", `"s"`, `"true"`, "{1, 2}", "{true}", "{true, false}", "{[true]}", "{(a: true)}", "{|x| (1)}",
		`(\x x)`, `(\x true)`, "<<1>>", `{"a": 1}("a")`, "{{()}}", "(x: 1).x"}
)

type c20Gen struct {
	r       *core.Rng
	n       int
	mode    int // 0 all-true, 1 mixed
	imports bool
	tags    map[string]bool
}

func (g *c20Gen) leaf() *c20Tree {
	r := g.r
	if g.imports && r.Chance(1, 6) {
		g.tags["file:import-used"] = true
		if g.mode == 0 {
			return c20L(core.Pick(r, []string{"h.yes", "h.tree", "h.tree.q"}))
		}
		return c20L(core.Pick(r, []string{"h.yes", "h.no", "h.num", "h.tree", "h.bad"}))
	}
	if g.mode == 0 {
		return c20L(core.Pick(r, c20LeafT))
	}
	switch r.Intn(10) {
	case 0, 1, 2, 3, 4:
		return c20L(core.Pick(r, c20LeafT))
	case 5, 6:
		return c20L(core.Pick(r, c20LeafF))
	}
	return c20L(core.Pick(r, c20LeafO))
}

func (g *c20Gen) name() string {
	if g.r.Chance(3, 4) {
		g.n++
		return fmt.Sprintf("n%d", g.n)
	}
	return core.Pick(g.r, []string{"a", "b", "c", "t1", "x y", "Case", "a_b", "@x", "@item", "@value"})
}

func (g *c20Gen) tree(depth int) *c20Tree {
	r := g.r
	if depth == 0 || r.Chance(1, 4) {
		return g.leaf()
	}
	arity := r.Range(1, 3)
	if r.Chance(1, 10) {
		arity = 0
	}
	switch r.Intn(3) {
	case 0:
		t := &c20Tree{Kind: 't', Spell: core.Pick(r, []string{"tuple-lit", "tuple-lit", "tuple-merge", "tuple-fn"})}
		if arity == 0 {
			t.Spell = "tuple-lit"
		}
		seen := map[string]bool{}
		for len(t.Kids) < arity {
			n := g.name()
			if seen[n] {
				continue
			}
			seen[n] = true
			t.Names = append(t.Names, n)
			t.Kids = append(t.Kids, g.tree(depth-1))
		}
		return t
	case 1:
		t := &c20Tree{Kind: 'a', Spell: core.Pick(r, []string{"array-lit", "array-lit", "array-rel", "array-tuples", "array-union", "array-concat", "array-with", "array-map"})}
		for k := 0; k < arity; k++ {
			if k > 0 && r.Chance(1, 8) && t.Spell != "array-concat" {
				t.Kids = append(t.Kids, nil)
			}
			t.Kids = append(t.Kids, g.tree(depth-1))
		}
		if arity > 0 && r.Chance(1, 5) {
			t.Off = core.Pick(r, []int{1, 2, 5, -1})
		}
		return t
	}
	t := &c20Tree{Kind: 'd', Spell: core.Pick(r, []string{"dict-lit", "dict-lit", "dict-union", "dict-tuples", "dict-rel", "dict-with", "dict-merge", "dict-fn"})}
	if arity == 0 {
		t.Spell = "dict-lit"
	}
	seen := map[string]bool{}
	for len(t.Kids) < arity {
		var k string
		switch {
		case t.Spell != "dict-fn" && r.Chance(1, 5):
			k = core.Pick(r, []string{"1", "2.5", "(x: 1)", "[1]", "true", `"q r"`, "{1, 2}"})
		default:
			k = fmt.Sprintf("%q", g.name())
		}
		if seen[k] {
			continue
		}
		seen[k] = true
		t.Names = append(t.Names, k)
		t.Kids = append(t.Kids, g.tree(depth-1))
	}
	if g.mode == 1 && arity >= 2 && r.Chance(1, 25) && (t.Spell == "dict-union" || t.Spell == "dict-tuples" || t.Spell == "dict-rel") {
		t.Names[1] = t.Names[0] // multi-valued key (only if the two values differ; equal values just collapse)
	}
	return t
}

// fileSrc returns the source of one random test file.
func (g *c20Gen) fileSrc() string {
	r := g.r
	g.imports = r.Chance(1, 6)
	depth := r.Range(1, 4)
	var t *c20Tree
	if r.Chance(1, 12) {
		t = g.leaf()
	} else {
		t = g.tree(depth)
	}
	for _, sp := range t.spells(nil) {
		g.tags["spell:"+sp] = true
	}
	src := t.src()
	if g.imports {
		g.tags["file:import"] = true
		src = "let h = //{./helper}; " + src
	} else if r.Chance(1, 8) {
		src = "let v = 1; " + src
	}
	return src
}

// errSrc returns the source of a file that does not evaluate.
func (g *c20Gen) errSrc() string {
	r := g.r
	g.tags["file:uneval"] = true
	if r.Chance(1, 4) {
		g.tags["file:unconsumed"] = true
		return "(a: true) extra"
	}
	bad := core.Pick(r, c20ErrLeaves)
	switch r.Intn(4) {
	case 0:
		return bad
	case 1:
		return fmt.Sprintf("(a: true, b: [true, %s])", bad)
	case 2:
		return fmt.Sprintf("{\"k\": (x: %s, y: true)}", bad)
	}
	return fmt.Sprintf("(a: %s)", bad)
}

func c20RandomLayout(r *core.Rng) *c20Layout {
	g := &c20Gen{r: r, tags: map[string]bool{}}
	l := &c20Layout{Tags: []string{"kind:random"}}
	base := "/w/t"
	cwdTarget := r.Chance(1, 12)
	if cwdTarget {
		base = c20Cwd()
		l.Tags = append(l.Tags, "layout:cwd-target")
	}
	allPass := r.Chance(9, 20)
	nTest := core.Pick(r, []int{0, 1, 1, 1, 2, 2, 3, 4, 5})
	dirs := []string{"", "", "sub", "sub/deep/er", "x_test.arrai", "sub2", "sub/in"}
	names := []string{"a_test.arrai", "b_test.arrai", "_test.arrai", "zz_test.arrai", "with space_test.arrai", "c_test.arrai", "Z_test.arrai"}
	used := map[string]bool{}
	add := func(p, src string) {
		p = filepath.Clean(p)
		if used[p] {
			return
		}
		used[p] = true
		l.Files = append(l.Files, c20File{Path: p, Src: src})
	}
	// 1. paths
	for k := 0; k < nTest; k++ {
		add(filepath.Join(base, core.Pick(r, dirs), core.Pick(r, names)), "")
	}
	distract := []string{".hid/p_test.arrai", "sub/.git/q_test.arrai", ".a/b/c/r_test.arrai", "sub/deep/.x/s_test.arrai",
		"notes.arrai", "a_test.arrai.txt", "test.arrai", "b_test.arr", "c_TEST.arrai", "atest.arrai", "sub/a_test.arrai~", "README.md",
		"../u_test.arrai", "../other/o_test.arrai", "../t2/s_test.arrai", ".hidden_test.arrai", "sub/d_test.arrai", "e_test.arrai"}
	for k, n := 0, r.Range(0, 4); k < n; k++ {
		add(filepath.Join(base, core.Pick(r, distract)), "")
	}
	// 2. target
	target, eff, isFile := base, base, false
	switch {
	case cwdTarget:
		target = core.Pick(r, []string{"", "."})
	case r.Chance(1, 10) && len(l.Files) > 0:
		f := core.Pick(r, l.Files)
		target, eff, isFile = f.Path, f.Path, true
	case r.Chance(1, 12):
		target, eff = base+"/sub", base+"/sub"
	case r.Chance(1, 20):
		target, eff = base+"/.hid", base+"/.hid"
	case r.Chance(1, 20):
		target = base + "/"
		l.Tags = append(l.Tags, "layout:trailing-slash")
	}
	l.Target = target
	// 3. roles; contents only for files that may run
	c20Finish(l, isFile, eff)
	helperDirs := map[string]bool{}
	for i := range l.Files {
		f := &l.Files[i]
		if f.Role == "other" {
			continue
		}
		g.mode = 1
		if allPass || r.Chance(1, 2) {
			g.mode = 0
		}
		if !allPass && r.Chance(1, 8) {
			f.Src = g.errSrc()
			continue
		}
		f.Src = g.fileSrc()
		if g.imports {
			helperDirs[filepath.Dir(f.Path)] = true
		}
	}
	for _, d := range []string{base, base + "/sub", base + "/sub/deep/er", base + "/x_test.arrai", base + "/sub2", base + "/sub/in", base + "/.hid", filepath.Dir(base), base + "/sub/deep/.x", base + "/sub/.git", base + "/.a/b/c", filepath.Dir(base) + "/other", filepath.Dir(base) + "/t2"} {
		d = filepath.Clean(d)
		if helperDirs[d] && !used[d+"/helper.arrai"] {
			l.Files = append(l.Files, c20File{Path: d + "/helper.arrai", Src: c20Helper, Role: "other", Why: "helper"})
		}
	}
	for t := range g.tags {
		l.Tags = append(l.Tags, t)
	}
	sort.Strings(l.Tags)
	return l
}
