package checks

import (
	"bytes"
	"encoding/json"
	"fmt"
	"sort"
	"strings"

	"verif/core"

	"github.com/arr-ai/arrai/pkg/arrai"
	"github.com/arr-ai/arrai/rel"
)

// C07: evaluation is deterministic across processes and hash seeds. Differential monitor over K
// worker processes, each running under its own hash-seed vector (installed before any value is
// built), all evaluating the same programs; the driver groups the recorded outputs by program and
// requires them to be byte-identical.

type c07 struct{}

func init() { core.Register(c07{}) }

func (c07) ID() string    { return "C07" }
func (c07) Level() string { return "exploration" }
func (c07) Rule() string {
	return "K worker processes (quick 6, thorough 16), each under a distinct hash-seed vector derived from VERIF_SEED (one keeps its crypto/rand seeds); case index = program*K + replica, so every program is evaluated once in every process. Programs: ~70 templates over seeded sets/relations/dicts/tuples with 9-40 members (set algebra, => where orderby(injective keys) rank nest joins, aggregates incl. float sums, dict call/>>, printing of nested mixed sets, tuples with many attributes, //seq and //str over ordered sets, string interpolation, superimposed-sequence construction). Recorded per replica: outcome kind, fu.Repr, arrai.OutputValue bytes, and the raw Enumerator order of the program's base set. Offline oracle: all K records of a program equal. Distinct by program text; non-trivial when the base set's raw enumeration order differed between at least two processes (the seeds provably bit)."
}
func (c07) Assumptions() []string {
	return []string{"hash.SetSeeds as the first statement of main reproduces a process's seed-dependent behaviour (self-test recorded in evidence)",
		"orderby is generated with injective keys only (tied keys are documented as order-dependent)",
		"'all seeds' is sampled: K vectors per run, different per VERIF_SEED"}
}

func c07K(cfg *core.Config) int { return cfg.Pick(6, 16) }

func (c07) Shards(cfg *core.Config) int { return c07K(cfg) }

func (c07) WorkerEnv(cfg *core.Config, shard int) []string {
	if shard == 0 {
		return []string{"VERIF_HASH_SEEDS="} // natural crypto/rand seeds
	}
	return []string{"VERIF_HASH_SEEDS=" + core.SeedVectorHex(cfg.Seed, shard)}
}

func c07Programs(cfg *core.Config) int { return cfg.Pick(402, 3350) }

// WorkerWallMinutes: every worker evaluates the whole program list; do not let the driver's default
// 40-minute watchdog cut a thorough run on a loaded machine.
func (c07) WorkerWallMinutes() int { return 150 }

func (c07) NumCases(cfg *core.Config) int { return c07Programs(cfg) * c07K(cfg) }

type c07tmpl struct {
	name string
	src  string // uses S, T (sets), R, Q (relations), D (dict), U (tuple)
	hz   string // static hazard of the construction, "" if none
}

var c07Templates = []c07tmpl{
	{"repr", "S", ""}, {"repr-nested", "{S, {S}, (a: S, b: T)}", ""}, {"repr-array", "[S, T, S & T]", ""},
	{"union", "S | T", ""}, {"inter", "S & T", ""}, {"diff", "S &~ T", ""}, {"symdiff", "S ~~ T", ""},
	{"with", "S with 424242", ""}, {"without", "S without (S orderby .)(0)", ""},
	{"where", `S where \x (x count) % 2 = 0`, ""}, {"map", "S => [., .]", ""}, {"map-collapse", `S => \x (x count) % 3`, ""},
	{"orderby", "S orderby .", ""}, {"orderby-desc", `S orderby \x [x count, x]`, ""}, {"order-fn", `S order \a \b a < b`, ""},
	{"rank", "R rank (r: .a)", ""}, {"rank-ties", "R rank (r: .b)", ""}, {"rank-ties-q", "Q rank (r: .c)", ""}, {"nest", "R nest |b|bs", ""}, {"nest-inv", "R nest ~|a|rest", ""},
	{"join", "R <&> Q", ""}, {"compose", "R <-> Q", ""}, {"join-lr", "R -&> Q", ""}, {"join-rl", "R <&- Q", ""}, {"join-common", "R -&- Q", ""},
	{"rel-map", "R => .a", ""}, {"rel-where", "R where .a % 2 = 0", ""}, {"rel-orderby", "R orderby [.a, .b]", ""},
	{"count", "S count", ""}, {"sum-float", `S sum \x (x count) / 7`, "float-accumulation"}, {"sum-float-rel", "R sum .a / 10 + .b / 3", "float-accumulation"},
	{"mean", "R mean .a / 7", "float-accumulation"}, {"sum-int", "R sum .a * 3 + .b", ""}, {"mean-int", "R mean .a * 2", ""}, {"max", `S max \x x count`, ""}, {"min", "R min .a", ""},
	{"dict-repr", "D", ""}, {"dict-call", "D((D => .@ orderby .)(0))", ""}, {"dict-map", `D >> \v [v]`, ""}, {"dict-keys", "D => .@", ""},
	{"dict-merge", "D +> {\"zz\": 1}", ""}, {"dict-orderby", "D orderby .@", ""}, {"dict-where", "D where .@value % 2 = 0", ""},
	{"tuple-repr", "U", ""}, {"tuple-merge", "U +> (zz: 1, a0: 99)", ""}, {"tuple-in-set", "{U, U +> (q: 1)}", ""}, {"tuple-rest", "let (a0: x, ...r) = U; [x, r]", ""},
	{"str-repr", "//str.repr(S)", ""}, {"str-repr-rel", "//str.repr(R)", ""}, {"interp", `$"${S orderby .::, }"`, ""}, {"interp-set", `$"${S}"`, ""},
	{"seq-concat", "//seq.concat(S orderby . >> \\x [x])", ""}, {"seq-join", `//seq.join(",", S orderby . >> \x //str.repr(x))`, ""},
	{"power-small", "^{(S orderby .)(0), (S orderby .)(1), (S orderby .)(2)}", ""},
	{"subset", "[S (<) T, S (<=) (S | T), (S & T) (<=) S, S <: {S}]", ""}, {"eq", "[S = T, (S | T) = (T | S), (S & T) = (T & S)]", ""},
	{"cond-set", "cond S {{}: 0, _: S count}", ""}, {"cond-set-one", `cond S {{x}: x, _: "many"}`, ""}, {"cond-set-lit-one", `cond (S with 424242) {{424242, x}: x, _: "many"}`, ""},
	{"set-of-sets", "S => {., 1}", ""}, {"set-flatten", `(S => {.}) => \x (x orderby .)(0)`, ""},
	{"array-from-set", "(S orderby .) >> \\x {x}", ""}, {"array-index", "(S orderby .)((S count) - 1)", ""},
	{"single-where", "(S where . = (S orderby .)(0)) single", ""},
	{"rel-nest-unnest-count", "(R nest |b|bs) => (.bs count)", ""}, {"rel-project", "R => (b: .b)", ""},
	{"json", "//encoding.json.encode(S orderby .)", ""}, {"json-dict", "//encoding.json.encode(D)", ""},
	{"to-array-super", "S => (@: 0, @item: .)", "seq-super"}, {"to-str-super", `S => \x (@: (x count) % 2, @char: 97 + (x count) % 5)`, "seq-super"},
	{"to-bytes-super", `S => \x (@: (x count) % 3, @byte: 65 + (x count) % 7)`, "seq-super"},
	{"join-resugar-super", "(R => (@: .a % 2, x: .b)) <-> (R => (x: .b, @item: .a))", "seq-super"},
	{"dict-multi-call", `(S => \x (@: (x count) % 2, @value: x))(0) ?: 7`, "dict-multi"},
}

// c07Program builds program #p: a let-prefix defining S,T,R,Q,D,U from the seed, then a template.
func c07Program(cfg *core.Config, p int) (src, base string, t c07tmpl) {
	r := core.NewRng(cfg.Seed, 7, uint64(p))
	t = c07Templates[p%len(c07Templates)]
	n := r.Range(9, 40)
	elem := func(kind, i int) string {
		switch kind {
		case 0:
			return fmt.Sprintf("%d", i*7%101)
		case 1:
			return fmt.Sprintf("\"s%d\"", i)
		case 2:
			return fmt.Sprintf("(a: %d, b: %d)", i, i%3)
		case 3:
			return fmt.Sprintf("{%d, %d}", i, i+100)
		default:
			return fmt.Sprintf("[%d, \"x%d\"]", i, i%4)
		}
	}
	mk := func(kind, n, off int) string {
		var ps []string
		for i := 0; i < n; i++ {
			ps = append(ps, elem(kind, i+off))
		}
		core.Shuffle(r, ps)
		return "{" + strings.Join(ps, ", ") + "}"
	}
	kind := r.Intn(5)
	if strings.Contains(t.src, "x count") {
		kind = []int{1, 3, 4}[r.Intn(3)] // templates using `. count` need set-valued members
	}
	S := mk(kind, n, 0)
	T := mk(kind, r.Range(9, 30), n/2)
	rel1 := func(n int, a, b string, mod int) string {
		var rows []string
		for i := 0; i < n; i++ {
			rows = append(rows, fmt.Sprintf("(%s: %d, %s: %d)", a, i, b, i%mod))
		}
		core.Shuffle(r, rows)
		return "{" + strings.Join(rows, ", ") + "}"
	}
	R := rel1(r.Range(9, 30), "a", "b", r.Range(2, 5))
	Q := rel1(r.Range(9, 20), "b", "c", r.Range(2, 6))
	var dps, ups []string
	nd := r.Range(9, 30)
	for i := 0; i < nd; i++ {
		dps = append(dps, fmt.Sprintf("\"k%d\": %d", i, i*3%17))
		ups = append(ups, fmt.Sprintf("a%d: %d", i, i))
	}
	core.Shuffle(r, dps)
	core.Shuffle(r, ups)
	// bind only the names the template mentions (keeps compile cost down)
	defs := []struct{ name, val string }{{"S", S}, {"T", T}, {"R", R}, {"Q", Q}, {"D", "{" + strings.Join(dps, ", ") + "}"}, {"U", "(" + strings.Join(ups, ", ") + ")"}}
	var sb strings.Builder
	for _, d := range defs {
		if c07Mentions(t.src, d.name) {
			fmt.Fprintf(&sb, "let %s = %s; ", d.name, d.val)
		}
	}
	src = sb.String() + t.src
	return src, S, t
}

func c07Mentions(src, name string) bool {
	for i := 0; i+len(name) <= len(src); i++ {
		if src[i:i+len(name)] != name {
			continue
		}
		before := i == 0 || !isIdentByte(src[i-1])
		after := i+len(name) == len(src) || !isIdentByte(src[i+len(name)])
		if before && after {
			return true
		}
	}
	return false
}

func isIdentByte(b byte) bool {
	return b == '_' || b >= 'a' && b <= 'z' || b >= 'A' && b <= 'Z' || b >= '0' && b <= '9'
}

type c07rec struct {
	P     int    `json:"p"`
	Rep   int    `json:"rep"`
	Kind  string `json:"kind"` // value | error | panic
	Repr  string `json:"repr"`
	Out   string `json:"out"`
	Order string `json:"order"` // hash of the raw enumeration order of S
	Seeds string `json:"seeds"`
	Note  string `json:"note"`
	Site  string `json:"site,omitempty"`
}

func (c07) RunCase(cfg *core.Config, i int) core.CaseResult {
	k := c07K(cfg)
	p, rep := i/k, i%k
	src, base, t := c07Program(cfg, p)
	res := core.CaseResult{Key: "", Evals: 1}
	rec := c07rec{P: p, Rep: rep, Seeds: core.HashSeedFingerprint(), Note: core.HashSeedNote}
	o := core.EvalSrc(src)
	rec.Kind = o.Mode()
	switch {
	case o.Panic != nil:
		rec.Site = o.Panic.Sig()
		rec.Repr = o.Panic.Class
	case o.Err != nil:
		rec.Repr = "error"
	default:
		r, pi := core.Repr(o.Val)
		if pi != nil {
			rec.Kind, rec.Site, r = "panic", pi.Sig(), pi.Class
		}
		rec.Repr = r
		var buf bytes.Buffer
		func() {
			defer func() {
				if x := recover(); x != nil {
					buf.WriteString("<OutputValue panicked>")
				}
			}()
			if err := arrai.OutputValue(core.Ctx(), o.Val, &buf, ""); err != nil {
				buf.WriteString("<error>")
			}
		}()
		rec.Out = buf.String()
	}
	// raw enumeration order of the base set (evidence that the seeds bit; not part of the verdict)
	if bo := build(base); bo.OK() {
		if s, ok := bo.Val.(rel.Set); ok {
			var sb strings.Builder
			func() {
				defer func() { recover() }()
				for e := s.Enumerator(); e.MoveNext(); {
					d, _ := core.SafeDenote(e.Current())
					sb.WriteString(d.Enc)
					sb.WriteByte(';')
				}
			}()
			rec.Order = fmt.Sprintf("%x", core.Hash64(sb.String()))
		}
	}
	res.Data = rec
	res.Cover = append(res.Cover, "tmpl:"+t.name)
	if p%211 == 0 && rep == 0 {
		res.Sample = clipS(src, 500)
	}
	return res
}

func (c07) Finish(cfg *core.Config, agg *core.Aggregate) {
	k := c07K(cfg)
	byP := map[int][]c07rec{}
	seeds := map[string]bool{}
	notes := map[string]int{}
	for _, d := range agg.Data {
		var r c07rec
		if json.Unmarshal(d.Data, &r) != nil {
			continue
		}
		byP[r.P] = append(byP[r.P], r)
		seeds[r.Seeds] = true
		notes[r.Note]++
	}
	orderDiffered, complete, valued := 0, 0, 0
	ps := make([]int, 0, len(byP))
	for p := range byP {
		ps = append(ps, p)
	}
	sort.Ints(ps)
	seenSig := map[string]bool{}
	for _, p := range ps {
		rs := byP[p]
		if len(rs) < 2 {
			continue
		}
		if len(rs) == k {
			complete++
		}
		sort.Slice(rs, func(a, b int) bool { return rs[a].Rep < rs[b].Rep })
		orders := map[string]bool{}
		for _, r := range rs {
			orders[r.Order] = true
		}
		src, _, t := c07Program(cfg, p)
		if len(orders) > 1 {
			orderDiffered++
			agg.Distinct[core.Hash64(src)] = struct{}{}
		}
		if rs[0].Kind == "value" {
			valued++
		}
		for _, r := range rs[1:] {
			a := rs[0]
			mode := ""
			switch {
			case a.Kind != r.Kind:
				mode = "outcome-kind-differs"
			case a.Repr != r.Repr:
				mode = "printed-value-differs"
			case a.Out != r.Out:
				mode = "output-bytes-differ"
			}
			if mode == "" {
				continue
			}
			var hz []string
			if t.hz != "" {
				hz = []string{t.hz}
			}
			site := a.Site
			if site == "" {
				site = r.Site
			}
			sig := core.Signature{Clause: "C07.same-output", Entry: t.name, Mode: mode, Site: site, Hazards: hz}
			if seenSig[sig.String()] {
				break
			}
			seenSig[sig.String()] = true
			agg.Viols = append(agg.Viols, core.Violation{Case: p * k, Sig: sig,
				Detail: fmt.Sprintf("program %d (%s) under seeds %s gives [%s] %s but under seeds %s gives [%s] %s; source: %s", p, t.name, a.Seeds, a.Kind, clipS(a.Repr, 160), r.Seeds, r.Kind, clipS(r.Repr, 160), clipS(src, 700)),
				Replay: map[string]interface{}{"program": p, "source": src, "replica_a": a.Rep, "replica_b": r.Rep, "seed_vector_b": core.SeedVectorHex(cfg.Seed, r.Rep)}})
			break
		}
	}
	agg.Extra["processes"] = k
	agg.Extra["distinct_seed_vectors_observed"] = len(seeds)
	agg.Extra["seed_install_notes"] = notes
	agg.Extra["programs_compared"] = len(byP)
	agg.Extra["programs_with_all_replicas"] = complete
	agg.Extra["programs_whose_base_set_enumerated_differently"] = orderDiffered
	agg.Extra["programs_yielding_a_value"] = valued
	if len(seeds) < k {
		agg.Fail("coverage floor: only %d distinct seed vectors observed (<%d)", len(seeds), k)
	}
	if orderDiffered < len(byP)/2 {
		agg.Fail("coverage floor: base set enumeration order differed between processes for only %d of %d programs", orderDiffered, len(byP))
	}
	if valued < len(byP)*2/3 {
		agg.Fail("coverage floor: only %d of %d programs evaluate to a value", valued, len(byP))
	}
	for note := range notes {
		if note != "natural" && note != "installed" {
			agg.Fail("hash seed installation failed: %s", note)
		}
	}
}
