package checks

import (
	"context"
	"fmt"
	"sort"
	"strings"
	"sync"

	"verif/core"

	"github.com/arr-ai/arrai/rel"
)

// C01: set algebra exact for every mix of representations. Reference-model monitor with local
// judgement of each operator application against the ACTUAL denotations of its live operands.

type c01 struct{}

func init() { core.Register(c01{}) }

func (c01) ID() string    { return "C01" }
func (c01) Level() string { return "exploration" }
func (c01) Rule() string {
	return "operands: every core model value (all shape classes, colliding indices/keys) realised through all construction paths and de-duplicated by (denotation, Go representation) + seeded random values; each case = one left operand x all right operands x {| & &~ ~~ with without <: (<) (<=) (>) (>=) (<>) (<>=) and negations} + unary count, ^, where/=> through logging callback probes + depth-2 chains reusing results. Distinct by (op, left denotation+representation, right denotation+representation); non-trivial when both operands are non-empty and differ."
}
func (c01) Assumptions() []string {
	return []string{"Denote trusts Set.Enumerator; every result is cross-examined through Count() and Has()",
		"model operators are plain finite-set operations on canonical encodings",
		"operands are sets; ill-typed operands are the business of C10"}
}

var (
	c01Once sync.Once
	c01Ops  []Operand
	c01Bad  []core.Violation // constructor violations found while building operands
)

var c01BinOps = []string{"|", "&", "&~", "~~", "with", "without", "<:", "(<)", "(<=)", "(>)", "(>=)", "(<>)", "(<>=)", "!<:", "!(<)", "!(<=)"}

func operandPool(seed uint64, nRandom int) ([]Operand, []core.Violation) {
	var ops []Operand
	var bad []core.Violation
	seen := map[string]bool{}
	add := func(m MV, tag string) {
		for _, p := range pathsFor(m) {
			op, o := mkOperand(m, p)
			if !op.OK {
				hz := core.HazardList(m)
				mode, site := "error-for-value", ""
				if o.Panic != nil {
					mode, site = "panic", o.Panic.Sig()
				}
				bad = append(bad, core.Violation{Sig: core.Signature{Clause: "C01.construct", Entry: "path:" + p.Kind, Mode: mode, Site: site, Hazards: hz},
					Detail: fmt.Sprintf("%s => %s", p.Src, outcomeText(o)), Replay: map[string]string{"src": p.Src}})
				continue
			}
			if op.Got.Enc != m.Enc {
				mode, delta := diffDelta(op.Got, m)
				bad = append(bad, core.Violation{Sig: core.Signature{Clause: "C01.construct", Entry: "path:" + p.Kind, Mode: mode, Hazards: core.HazardList(m), Delta: delta},
					Detail: fmt.Sprintf("%s => %s, want %s", p.Src, core.Src(op.Got), core.Src(m)), Replay: map[string]string{"src": p.Src}})
			}
			k := op.Got.Enc + "|" + op.GoType
			if p.Kind == "join-reorder" {
				k += "|joined" // same Go type as the literal, but a different internal column layout
			}
			if seen[k] {
				continue
			}
			seen[k] = true
			ops = append(ops, op)
		}
	}
	for _, m := range coreValues() {
		add(m, "core")
	}
	r := core.NewRng(seed, 101)
	for i := 0; i < nRandom; i++ {
		add(randValue(r, i%5 < 3, 1), "rand")
	}
	return ops, bad
}

func c01Pool(cfg *core.Config) []Operand {
	c01Once.Do(func() { c01Ops, c01Bad = operandPool(cfg.Seed, cfg.Pick(60, 600)) })
	return c01Ops
}

func (c01) NumCases(cfg *core.Config) int { return len(c01Pool(cfg)) + 1 }

// ---- model operators ----

func mUnion(a, b MV) MV { return mset(append(append([]MV{}, a.S...), b.S...)...) }
func mInter(a, b MV) MV {
	var o []MV
	for _, x := range a.S {
		if b.Has(x) {
			o = append(o, x)
		}
	}
	return mset(o...)
}
func mDiff(a, b MV) MV {
	var o []MV
	for _, x := range a.S {
		if !b.Has(x) {
			o = append(o, x)
		}
	}
	return mset(o...)
}
func mSubsetEq(a, b MV) bool { return len(mDiff(a, b).S) == 0 }
func mProper(a, b MV) bool   { return mSubsetEq(a, b) && a.Enc != b.Enc }

func modelBin(op string, a, b MV) (MV, bool) {
	neg := false
	if strings.HasPrefix(op, "!") {
		neg, op = true, op[1:]
	}
	var r MV
	switch op {
	case "|":
		r = mUnion(a, b)
	case "&":
		r = mInter(a, b)
	case "&~":
		r = mDiff(a, b)
	case "~~":
		r = mUnion(mDiff(a, b), mDiff(b, a))
	case "with":
		r = mUnion(a, mset(b))
	case "without":
		r = mDiff(a, mset(b))
	case "<:":
		r = core.MBool(b.Has(a))
	case "(<)":
		r = core.MBool(mProper(a, b))
	case "(<=)":
		r = core.MBool(mSubsetEq(a, b))
	case "(>)":
		r = core.MBool(mProper(b, a))
	case "(>=)":
		r = core.MBool(mSubsetEq(b, a))
	case "(<>)":
		r = core.MBool(mProper(a, b) || mProper(b, a))
	case "(<>=)":
		r = core.MBool(mSubsetEq(a, b) || mSubsetEq(b, a))
	default:
		return MV{}, false
	}
	if neg {
		r = core.MBool(r.Enc == core.MEmpty.Enc)
	}
	return r, true
}

func mPower(a MV) MV {
	subs := []MV{}
	n := len(a.S)
	for mask := 0; mask < 1<<n; mask++ {
		var ms []MV
		for i := 0; i < n; i++ {
			if mask>>i&1 == 1 {
				ms = append(ms, a.S[i])
			}
		}
		subs = append(subs, mset(ms...))
	}
	return mset(subs...)
}

// mvValue realises a model value as a live value via the spelled-out literal (cached).
func mvValue(m MV) (rel.Value, bool) {
	o := build(core.Src(m))
	if !o.OK() {
		return nil, false
	}
	return o.Val, true
}

type judge struct {
	prop string
	res  *core.CaseResult
	seen map[string]bool
}

func (j *judge) report(clause, entry, mode, site, delta string, hz []string, detail string, replay interface{}) {
	sig := core.Signature{Clause: clause, Entry: entry, Mode: mode, Site: site, Hazards: hz, Delta: delta}
	k := sig.String()
	if j.seen[k] {
		return
	}
	j.seen[k] = true
	j.res.Viols = append(j.res.Viols, core.Violation{Sig: sig, Detail: detail, Replay: replay})
}

func repTags(ops ...Operand) []string {
	var out []string
	for i, o := range ops {
		out = append(out, fmt.Sprintf("rep%d:%s", i, o.GoType))
	}
	return out
}

// judgeSetResult compares a result against the expected model set through every access path.
func (j *judge) judgeSetResult(clausePrefix, entry string, o core.Outcome, want MV, hz []string, desc string) (rel.Value, bool) {
	replay := map[string]string{"expr": desc}
	switch {
	case o.Panic != nil:
		j.report(clausePrefix+".members", entry, "panic", o.Panic.Sig(), "", hz, desc+" => panic: "+o.Panic.Msg, replay)
		return nil, false
	case o.Err != nil:
		j.report(clausePrefix+".members", entry, "error-for-value", "", "", hz, desc+" => error: "+core.ErrText(o.Err), replay)
		return nil, false
	}
	got, pi := core.SafeDenote(o.Val)
	if pi != nil {
		j.report(clausePrefix+".members", entry, "panic", "enumerate: "+pi.Sig(), "", hz, desc+" => result cannot be enumerated: "+pi.Msg, replay)
		return nil, false
	}
	if got.Enc != want.Enc {
		mode, delta := diffDelta(got, want)
		j.report(clausePrefix+".members", entry, mode, "", delta, hz, fmt.Sprintf("%s => %s, want %s", desc, core.Src(got), core.Src(want)), replay)
		return o.Val, false
	}
	if s, ok := o.Val.(rel.Set); ok && want.K == 's' {
		cnt, pi := safeCount(s)
		if pi != nil {
			j.report(clausePrefix+".count", entry, "panic", pi.Sig(), "", hz, desc+" => Count() panics: "+pi.Msg, replay)
		} else if cnt != len(want.S) {
			_, delta := diffDelta(mset(), want)
			j.report(clausePrefix+".count", entry, "count-mismatch", "", delta, hz, fmt.Sprintf("%s => count %d but %d distinct members %s", desc, cnt, len(want.S), core.Src(want)), replay)
		}
		// membership cross-examination on independently constructed elements
		for _, e := range want.S {
			ev, ok := mvValue(e)
			if !ok {
				continue
			}
			has, pi := safeHas(s, ev)
			if pi != nil {
				j.report(clausePrefix+".has", entry, "panic", pi.Sig(), "", hz, desc+" => Has() panics: "+pi.Msg, replay)
				break
			}
			if !has {
				_, delta := diffDelta(mset(), mset(e))
				j.report(clausePrefix+".has", entry, "has-false-for-member", "", memberDelta(e, want, delta), hz, fmt.Sprintf("%s enumerates %s but Has() denies it", desc, core.Src(e)), replay)
				break
			}
		}
	}
	return o.Val, true
}

func memberDelta(e, ctx MV, fallback string) string {
	// attribute to hazards carried by e together with same-key members of ctx
	var same []MV
	if e.K == 't' {
		if at, ok := e.T["@"]; ok {
			for _, x := range ctx.S {
				if x.K == 't' {
					if a2, ok := x.T["@"]; ok && a2.Enc == at.Enc {
						same = append(same, x)
					}
				}
			}
		}
	}
	hz := core.HazardList(mset(same...))
	var top []string
	for _, h := range hz {
		if strings.HasPrefix(h, "seq-super") || h == "dict-multi" {
			top = append(top, h)
		}
	}
	if len(top) > 0 {
		return strings.Join(top, "+")
	}
	return "plain"
}

func safeCount(s rel.Set) (n int, p *core.PanicInfo) {
	defer func() {
		if r := recover(); r != nil {
			p = core.NewPanicInfo(r)
		}
	}()
	return s.Count(), nil
}

func safeHas(s rel.Set, v rel.Value) (b bool, p *core.PanicInfo) {
	defer func() {
		if r := recover(); r != nil {
			p = core.NewPanicInfo(r)
		}
	}()
	return s.Has(v), nil
}

// probe is a native function used as an observation point (DESIGN §4.4).
type probe struct {
	fed []MV
	bad string
}

func (p *probe) pred(keep func(MV) bool) rel.Value {
	return rel.NewNativeFunction("verifPred", func(_ context.Context, v rel.Value) (rel.Value, error) {
		d, pi := core.SafeDenote(v)
		if pi != nil {
			p.bad = pi.Msg
			return rel.NewBool(false), nil
		}
		p.fed = append(p.fed, d)
		return rel.NewBool(keep(d)), nil
	})
}

func (p *probe) mapper(img func(MV) MV) rel.Value {
	return rel.NewNativeFunction("verifMap", func(_ context.Context, v rel.Value) (rel.Value, error) {
		d, pi := core.SafeDenote(v)
		if pi != nil {
			p.bad = pi.Msg
			return rel.None, nil
		}
		p.fed = append(p.fed, d)
		out, ok := mvValue(img(d))
		if !ok {
			return nil, fmt.Errorf("verif: cannot build image")
		}
		return out, nil
	})
}

// fedExactlyOnce checks that the multiset of fed elements equals the members of want.
func fedExactlyOnce(fed []MV, want MV) string {
	cnt := map[string]int{}
	for _, f := range fed {
		cnt[f.Enc]++
	}
	for _, e := range want.S {
		switch cnt[e.Enc] {
		case 1:
		case 0:
			return "dropped " + core.Src(e)
		default:
			return fmt.Sprintf("fed %s %d times", core.Src(e), cnt[e.Enc])
		}
		delete(cnt, e.Enc)
	}
	for k := range cnt {
		for _, f := range fed {
			if f.Enc == k {
				return "altered/invented " + core.Src(f)
			}
		}
	}
	return ""
}

func (c01) RunCase(cfg *core.Config, i int) core.CaseResult {
	pool := c01Pool(cfg)
	res := core.CaseResult{}
	res.Evals = 0
	j := &judge{prop: "C01", res: &res, seen: map[string]bool{}}
	if i == len(pool) { // constructor findings (seed-independent part first)
		res.Key, res.NonTrivial = "constructors", true
		res.Viols = append(res.Viols, c01Bad...)
		res.Evals = len(c01Bad) + 1
		return res
	}
	x := pool[i]
	res.Key = "x:" + x.Got.Enc + "|" + x.GoType
	res.NonTrivial = len(x.Got.S) > 0
	res.Cover = append(res.Cover, "class:"+core.Classify(x.Got), "rep:"+x.GoType, "path:"+x.Path.Kind)
	// binary operators against every right operand
	for yi, y := range pool {
		doChain := cfg.Thorough() || (i+yi)%4 == 0
		hz0 := core.HazardList(x.Got, y.Got, x.Want, y.Want) // Want: a value built from a hazardous description may be internally inconsistent
		for _, op := range c01BinOps {
			var a, b Operand
			switch op {
			case "<:", "!<:":
				a, b = x, y // x <: y  (member test of the set x in y's members is still well-typed)
			default:
				a, b = x, y
			}
			want, _ := modelBin(op, a.Got, b.Got)
			hz := mergeHz(append(append([]string{}, hz0...), repTags(a, b)...), core.HazardList(want))
			res.Evals++
			desc := fmt.Sprintf("%s %s %s", a.Path.Src, op, b.Path.Src)
			o := core.EvalT("x "+op+" y", "x", a.Val, "y", b.Val)
			rv, ok := j.judgeSetResult("C01", op, o, want, hz, desc)
			if len(a.Got.S) > 0 && len(b.Got.S) > 0 && a.Got.Enc != b.Got.Enc {
				res.SubKeys = append(res.SubKeys, op+"|"+a.Got.Enc+"|"+a.GoType+"|"+b.Got.Enc+"|"+b.GoType)
			}
			// chains: reuse the live result as an operand of a second operator (values produced by earlier operators)
			if doChain && ok && rv != nil && (op == "|" || op == "&~" || op == "with" || op == "~~") {
				for _, op2 := range []string{"&", "|", "&~", "(<=)"} {
					w2, _ := modelBin(op2, want, a.Got)
					res.Evals++
					o2 := core.EvalT("r "+op2+" x", "r", rv, "x", a.Val)
					hz2 := mergeHz(mergeHz(hz, []string{"chain"}), core.HazardList(w2))
					j.judgeSetResult("C01", op+";"+op2, o2, w2, hz2, fmt.Sprintf("(%s) %s %s", desc, op2, a.Path.Src))
				}
			}
		}
	}
	// unary: count, power set, where / => through callback probes
	hzx := append(core.HazardList(x.Got, x.Want), repTags(x)...)
	res.Evals++
	j.judgeSetResult("C01", "count", core.EvalT("x count", "x", x.Val), num(float64(len(x.Got.S))), hzx, x.Path.Src+" count")
	if len(x.Got.S) <= 4 {
		res.Evals++
		pw := mPower(x.Got)
		j.judgeSetResult("C01", "^", core.EvalT("^x", "x", x.Val), pw, mergeHz(hzx, core.HazardList(pw)), "^"+x.Path.Src)
	}
	for variant := 0; variant < 3; variant++ {
		keep := func(m MV) bool { return (core.Hash64(m.Enc)>>uint(variant))&1 == 0 }
		if variant == 2 {
			keep = func(MV) bool { return true }
		}
		p := &probe{}
		var want []MV
		for _, e := range x.Got.S {
			if keep(e) {
				want = append(want, e)
			}
		}
		res.Evals++
		desc := fmt.Sprintf("%s where <probe#%d>", x.Path.Src, variant)
		o := core.EvalT("x where p(.)", "x", x.Val, "p", p.pred(keep))
		if _, ok := j.judgeSetResult("C01", "where", o, mset(want...), mergeHz(hzx, core.HazardList(mset(want...))), desc); ok {
			if msg := fedExactlyOnce(p.fed, x.Got); msg != "" {
				j.report("C01.fed", "where", "fed-mismatch", "", memberDelta(mset(), x.Got, "plain"), hzx, desc+": predicate "+msg, map[string]string{"expr": desc})
			}
		}
	}
	for variant := 0; variant < 3; variant++ {
		img := []func(MV) MV{
			func(m MV) MV { return m },
			func(m MV) MV { return num(float64(core.Hash64(m.Enc) % 3)) },
			func(m MV) MV { return mset(m) },
		}[variant]
		p := &probe{}
		var want []MV
		for _, e := range x.Got.S {
			want = append(want, img(e))
		}
		res.Evals++
		desc := fmt.Sprintf("%s => <probe#%d>", x.Path.Src, variant)
		o := core.EvalT("x => f(.)", "x", x.Val, "f", p.mapper(img))
		if _, ok := j.judgeSetResult("C01", "=>", o, mset(want...), mergeHz(hzx, core.HazardList(mset(want...))), desc); ok {
			if msg := fedExactlyOnce(p.fed, x.Got); msg != "" {
				j.report("C01.fed", "=>", "fed-mismatch", "", "plain", hzx, desc+": mapper "+msg, map[string]string{"expr": desc})
			}
		}
	}
	if i%17 == 0 {
		res.Sample = fmt.Sprintf("x = %s (%s, %s) against %d right operands x %d operators, then count/^/where/=> probes", x.Path.Src, core.Classify(x.Got), x.GoType, len(pool), len(c01BinOps))
	}
	return res
}

func mergeHz(a, b []string) []string {
	m := map[string]bool{}
	for _, x := range a {
		m[x] = true
	}
	for _, x := range b {
		m[x] = true
	}
	out := make([]string, 0, len(m))
	for k := range m {
		out = append(out, k)
	}
	sort.Strings(out)
	return out
}

func (c01) Finish(cfg *core.Config, agg *core.Aggregate) {
	classes, reps := 0, 0
	for k := range agg.Cover {
		if strings.HasPrefix(k, "class:") {
			classes++
		}
		if strings.HasPrefix(k, "rep:") {
			reps++
		}
	}
	agg.Extra["operand_classes"] = classes
	agg.Extra["operand_representations"] = reps
	if classes < 10 {
		agg.Fail("coverage floor: only %d operand shape classes reached (<10)", classes)
	}
	if reps < 7 {
		agg.Fail("coverage floor: only %d Go representations reached (<7)", reps)
	}
}
