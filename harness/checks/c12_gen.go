package checks

import (
	"archive/zip"
	"bytes"
	"context"
	"encoding/json"
	"fmt"
	"io"
	"math"
	"path"
	"sort"
	"strconv"
	"strings"

	"verif/core"

	"github.com/arr-ai/arrai/pkg/arraictx"
	"github.com/arr-ai/arrai/pkg/bundle"
	"github.com/arr-ai/arrai/pkg/ctxfs"
	"github.com/arr-ai/arrai/rel"
	"github.com/arr-ai/arrai/syntax"
	"github.com/spf13/afero"
)

// ---------------------------------------------------------------------------------------------
// section A: extra model values

func c12ExtraValues() []MV {
	s := core.MStr
	d := core.MDict
	arr := core.MArr
	var u []MV
	u = append(u,
		// non-set values at top level
		num(0), num(-1), num(0.5), num(1e21), num(1e-7), num(123456.5), num(-2.5e-10), num(1000000),
		mtup(), mtup("a", num(1)), mtup("a", num(-1), "b", s("x")),
		mtup("@neg", num(1)), mtup("@neg", mtup("@neg", s("a"))), mtup("@neg", arr(num(1))), mtup("@neg", mset()),
		mtup("@", num(1)), mtup("@", num(0), "@char", num(97)), mtup("@", num(0), "@item", s("a")),
		mtup("@", s("k"), "@value", num(1)), mtup("@", num(2), "@byte", num(255)), mtup("@", num(-1), "@item", num(-1)),
		mtup("x y", num(1)), mtup("", num(1)), mtup("it's", num(1), `q"`, num(2)), mtup("1a", num(1)),
		mtup("true", num(1), "let", num(2), "if", num(3)), mtup("a", mtup("b", mtup("c", mset()))),
		mtup("@", num(1), "@@", num(2), "$", num(3), "_", num(4)),
		// relations with odd attribute names
		relOf([]string{"x y"}, []float64{1}, []float64{2}),
		relOf([]string{""}, []float64{1}, []float64{2}),
		relOf([]string{"it's", "a"}, []float64{1, 2}, []float64{3, 4}),
		relOf([]string{"true"}, []float64{1}, []float64{2}),
		relOf([]string{"if", "let"}, []float64{1, 2}, []float64{2, 2}),
		relOf([]string{"@", "@x"}, []float64{0, 1}, []float64{1, 2}),
		relOf([]string{"1a", "b"}, []float64{1, 2}, []float64{2, 2}),
		relOf([]string{"@", "@value", "x"}, []float64{1, 2, 3}),
		relOf([]string{"a", "b", "c"}, []float64{-1, 0.5, 1e21}, []float64{-1, -0.5, 1e-7}),
		// nesting
		mset(relOf([]string{"a"}, []float64{1}, []float64{2}), relOf([]string{"b"}, []float64{1})),
		mset(mtup("a", s("x"), "b", arr(num(1), num(2))), mtup("a", s("y"), "b", mset())),
		mset(mtup("a", relOf([]string{"p", "q"}, []float64{1, 2}, []float64{3, 4}), "b", num(1)),
			mtup("a", relOf([]string{"p", "q"}, []float64{5, 6}), "b", num(2))),
		d(s("k"), arr(d(num(1), s("v")))),
		arr(core.MStrOff("ab", 2), core.MV{}, core.MArrOff(3, num(1))),
		core.MArrOff(-2, mtup("@neg", num(1)), num(-1)),
		arr(core.MTrue, mset()), mtup("t", core.MTrue, "f", mset()),
		arr(arr(arr())), mset(mset(mset())), arr(mset(), mset()),
		// multi-valued keys
		d(s("a"), num(1), s("a"), num(2)), arr(d(num(1), num(2), num(1), num(3))),
		mtup("m", d(num(1), num(2), num(1), num(3))),
		d(num(1), d(num(1), num(2), num(1), num(3))),
		// sparse / offset
		mset(mpair(num(0), "@item", num(1)), mpair(num(40), "@item", num(2))),
		seqOf("@char", 5, 97, hole, hole, 98), seqOf("@char", -3, 97, 98, 99),
		seqOf("@byte", -3, 1, 2, 3), seqOf("@byte", 0, 0, 255, 128), seqOf("@byte", 2, 97, 98),
		seqOf("@byte", 0, 'i', 't', '\'', 's'), seqOf("@byte", 0, '"', '\'', '\\', '\n'), seqOf("@byte", 1, 'a', '\t', 'b'),
		seqOf("@byte", 3, 200, 201), seqOf("@byte", 0, 127), seqOf("@byte", 0, 27, '[', '0', 'm'),
		core.MStrOff(`it's "q"\`, 0), core.MStrOff("a\nb", 1), core.MStrOff("'", -1), core.MStrOff("\x00b", 2),
		core.MArrOff(1, num(1), core.MV{}, num(3)), core.MArrOff(7, s("a")), core.MArrOff(-1, num(1), num(2)),
		// numbers in sets
		mset(num(-1), num(-0.5), num(1e21), num(1e-7)), mset(num(-1)), arr(num(-1), num(-2)),
		d(num(-1), num(-2)), d(num(0.5), num(1e21)),
		// mixed buckets
		mset(s("a"), arr(num(1)), d(num(1), num(2)), seqOf("@byte", 0, 1), mtup("a", num(1)), num(3), mset(), core.MTrue),
		mset(mtup(), mtup("a", num(1))), mset(core.MTrue, mset()),
		// keys of every kind
		d(mtup(), num(1)), d(mset(), num(1)), d(d(num(1), num(2)), d(num(3), num(4))), d(arr(num(1), num(2)), s("a"), s("b"), arr(num(3))),
		d(core.MTrue, core.MTrue), d(core.MStrOff("ab", 1), core.MStrOff("cd", -1)),
		d(s("it's"), s(`"`), s(`\`), s("\n")),
		// non-integer index (construction is C02's; the value built is printed anyway)
		mset(mpair(num(0.5), "@char", num(97))), mset(mpair(num(0.5), "@item", num(97))),
	)
	return u
}

var c12AttrPool = []string{"a", "b", "c", "@", "@item", "@char", "@value", "x y", "it's", "", "k1", "@neg", "true", "_", "é", `q"`}
var c12NumPool = []float64{0, 1, 2, 3, -1, 0.5, 97, 255, 256, -2.5, 1e21, 1e-7, 1000000, 123456789, -0.001, 65533}
var c12CharPool = []rune{'a', 'b', 'c', '\'', '"', '\\', '\n', '\x00', 'é', '😀', ' ', '$', '{', '`', 'x', '4', '1'}

func c12RandStr(r *core.Rng, n int) string {
	rs := make([]rune, n)
	for i := range rs {
		rs[i] = core.Pick(r, c12CharPool)
	}
	return string(rs)
}

// c12RandValue draws an arbitrary nested data value (number, tuple or set).
func c12RandValue(r *core.Rng, depth int) MV {
	if depth <= 0 {
		switch r.Intn(5) {
		case 0:
			return core.MStr(c12RandStr(r, r.Range(1, 3)))
		case 1:
			return mset()
		case 2:
			return core.MTrue
		}
		return num(core.Pick(r, c12NumPool))
	}
	sub := func() MV { return c12RandValue(r, depth-1) }
	n := r.Range(1, 3)
	switch r.Intn(11) {
	case 0:
		return num(core.Pick(r, c12NumPool))
	case 1:
		m := map[string]MV{}
		for i := 0; i < n; i++ {
			m[core.Pick(r, c12AttrPool)] = sub()
		}
		return core.Tup(m)
	case 2:
		off := 0
		if r.Chance(1, 3) {
			off = r.Range(-3, 4)
		}
		return core.MStrOff(c12RandStr(r, r.Range(1, 5)), off)
	case 3:
		items := make([]MV, r.Range(1, 4))
		for i := range items {
			if i > 0 && i < len(items)-1 && r.Chance(1, 4) {
				continue // hole
			}
			items[i] = sub()
		}
		off := 0
		if r.Chance(1, 3) {
			off = r.Range(-3, 4)
		}
		return core.MArrOff(off, items...)
	case 4:
		bs := make([]byte, r.Range(1, 4))
		for i := range bs {
			if r.Chance(1, 2) {
				bs[i] = byte(core.Pick(r, []rune{'a', 'b', '\'', '"', '\\', '\n', ' ', '~'}))
			} else {
				bs[i] = byte(r.Intn(256))
			}
		}
		off := 0
		if r.Chance(1, 3) {
			off = r.Range(-3, 4)
		}
		return core.MBytesOff(off, bs...)
	case 5:
		var kv []MV
		for i := 0; i < n; i++ {
			var k MV
			if r.Chance(2, 3) {
				k = core.MStr(c12RandStr(r, r.Range(1, 2)))
			} else {
				k = sub()
			}
			kv = append(kv, k, sub())
			if r.Chance(1, 8) {
				kv = append(kv, k, sub())
			}
		}
		return core.MDict(kv...)
	case 6:
		hs := map[string]bool{}
		for i := 0; i < n; i++ {
			hs[core.Pick(r, c12AttrPool)] = true
		}
		hnames := make([]string, 0, len(hs))
		for h := range hs {
			hnames = append(hnames, h)
		}
		sort.Strings(hnames)
		var ms []MV
		for row, rows := 0, r.Range(1, 3); row < rows; row++ {
			m := map[string]MV{}
			for _, h := range hnames {
				m[h] = sub()
			}
			ms = append(ms, core.Tup(m))
		}
		return mset(ms...)
	case 7:
		var ms []MV
		for i := 0; i < n; i++ {
			ms = append(ms, sub())
		}
		return mset(ms...)
	case 8:
		rs := []rune(c12RandStr(r, r.Range(2, 5)))
		var ms []MV
		for i, c := range rs {
			if i > 0 && i < len(rs)-1 && r.Chance(1, 3) {
				continue
			}
			ms = append(ms, mpair(num(float64(i)), "@char", num(float64(c))))
		}
		return mset(ms...)
	case 9:
		return mtup("@neg", sub())
	}
	return randValue(r, r.Chance(3, 5), 1)
}

// ---------------------------------------------------------------------------------------------
// section B: string contents

var c12SpecialCPs = []rune{0xD7FF, 0xE000, 0xFFFD, 0xFFFE, 0xFFFF, 0x10000, 0x1F600, 0x10FFFF, 0x2028, 0x2029, 0xFEFF,
	0x85, 0xA0, 0xAD, 0x200B, 0x200D, 0x202E, 0x2035, 0x0300, 0x3000, 0x1D11E, 0xE0001, 0xF0000, 0x7F, 0x80, 0x9F, 0x2FF, 0x300}

var c12PairAlphabet = []rune{'\'', '"', '\\', '`', '$', '{', '}', ':', '\n', '\x00', '\x1f', 'a', 'x', '4', '1', ' ', '\x7f', 'é', '😀'}

var c12Lookalikes = []string{
	`\x41`, `A`, `\U00000041`, `\101`, `\n`, `\t`, `\e`, `\\`, `\\\\`, `\'`, `\"`, `\i`, `\:`, `\`, `\x`, `\x4`, `\u12`, `\0`, `\8`, `a\x41b`, `\x41b`,
	`${a}`, `$"`, `$'`, "$`", `:{`, `{:`, `:}`, `${`, `$$`, `$`, `'"`, `"'`, `''`, `""`, "``", "`'\"", "it's", `say "hi"`, `it's "both"`, "a\nb\tc",
	"\x00\x01\x02", "\x1b[0m", "\a\b\f\v\r", "tab\there", " lead", "trail ", " ", "", "%", "%a", "#comment", "//x", "/*", "(", ")", "[", "]", "{}", "<<", ">>",
	",", "a,b", "a: b", "|a|", "x41", "0", "1a", "-1", "1.5", "1E+21", "é", "日本語", "😀", "a😀b", "é", "\u200b", "\u2028", "\u2029", "\ufeff", "\u2035",
	"\u2035\u2035", "\ufffd", "\U0010ffff", "\ud7ff", "\x7f\x80", "a\x00", "\x00a", "\x1f1", "\x0041", "\n\n", "\r\n", "a'b\"c\\d`e$f{g}h:i",
	strings.Repeat("ab'\"\\\n\x01é😀", 24),
}

var c12IdentNames = []string{"a", "A", "_", "_1", "a1", "aB_9", "@", "@@", "@x", "@item", "@char", "@byte", "@value", "@neg", "$", "$a", "a$b", "a@b",
	"true", "false", "let", "rec", "cond", "if", "else", "where", "with", "without", "count", "single", "order", "orderby", "rank", "nest", "unnest",
	"sum", "max", "min", "mean", "median", "filter", "import", "fn", "in", "and", "or", "not", "null", "none",
	"1", "1a", "0x", "9_", "a-b", "a.b", ".", "..", "a b", "a\tb", "-", "+", "*", "|", "||", "@{x}", "a:b", "(", "é", "naïve", "日本", "😀"}

var c12Keywords = map[string]bool{"true": true, "false": true, "let": true, "rec": true, "cond": true, "if": true, "else": true, "where": true,
	"with": true, "without": true, "count": true, "single": true, "order": true, "orderby": true, "rank": true, "nest": true, "unnest": true,
	"sum": true, "max": true, "min": true, "mean": true, "median": true, "filter": true}

func c12AttrClass(name string) string {
	if name == "" {
		return "empty"
	}
	if c12Keywords[name] {
		return "keyword"
	}
	ident := true
	var ctl, sq, dq, bs, sp, uni bool
	for i, r := range name {
		ok := r == '_' || r == '@' || r == '$' || r >= 'a' && r <= 'z' || r >= 'A' && r <= 'Z' || i > 0 && r >= '0' && r <= '9'
		if !ok {
			ident = false
		}
		switch {
		case r < 32 || r == 127:
			ctl = true
		case r == '\'':
			sq = true
		case r == '"':
			dq = true
		case r == '\\':
			bs = true
		case r == ' ':
			sp = true
		case r > 127:
			uni = true
		}
	}
	switch {
	case ident && name[0] == '@':
		return "ident-at"
	case ident && strings.Contains(name, "$"):
		return "ident-dollar"
	case ident:
		return "ident"
	case ctl:
		return "control"
	case sq && dq:
		return "both-quotes"
	case bs:
		return "backslash"
	case sq:
		return "quote-single"
	case dq:
		return "quote-double"
	case name[0] >= '0' && name[0] <= '9':
		return "leading-digit"
	case sp:
		return "space"
	case uni:
		return "unicode"
	}
	return "punct"
}

var c12AttrClasses = []string{"empty", "keyword", "ident", "ident-at", "ident-dollar", "control", "both-quotes", "backslash", "quote-single",
	"quote-double", "leading-digit", "space", "unicode", "punct"}

func c12ValidScalar(r rune) bool { return r >= 0 && r <= 0x10FFFF && !(r >= 0xD800 && r <= 0xDFFF) }

func c12Contents(cfg *core.Config) [][]c12Content {
	var all []c12Content
	add := func(rs []rune, class string, roles int) {
		all = append(all, c12Content{rs: rs, class: class, roles: roles})
	}
	for cp := rune(0); cp < 0x300; cp++ {
		add([]rune{cp}, "cp-alone", 0)
		add([]rune{'a', cp, 'b'}, "cp-between", 0)
	}
	for _, cp := range c12SpecialCPs {
		add([]rune{cp}, "special-cp", 1)
		add([]rune{'a', cp, '1'}, "special-cp", 1)
	}
	for _, a := range c12PairAlphabet {
		for _, b := range c12PairAlphabet {
			add([]rune{a, b}, "pair", 1)
		}
	}
	for _, s := range c12Lookalikes {
		add([]rune(s), "lookalike", 2)
	}
	for _, s := range c12IdentNames {
		add([]rune(s), "name", 1)
	}
	r := core.NewRng(cfg.Seed, 12, 3)
	for i, n := 0, cfg.Pick(160, 8000); i < n; i++ {
		rs := make([]rune, r.Range(1, 12))
		for k := range rs {
			switch r.Intn(6) {
			case 0:
				rs[k] = rune(r.Intn(0x300))
			case 1:
				for {
					rs[k] = rune(r.Intn(0x110000))
					if c12ValidScalar(rs[k]) {
						break
					}
				}
			case 2:
				rs[k] = core.Pick(r, c12SpecialCPs)
			default:
				rs[k] = core.Pick(r, c12PairAlphabet)
			}
		}
		add(rs, "random", 1)
	}
	if cfg.Thorough() {
		// every BMP scalar and a stride through the astral planes, 16 per string, each followed by a letter
		var cur []rune
		flush := func() {
			if len(cur) > 0 {
				add(cur, "sweep-batch", 0)
				cur = nil
			}
		}
		for cp := rune(0x300); cp <= 0x10FFFF; cp++ {
			if !c12ValidScalar(cp) {
				continue
			}
			if cp > 0xFFFF && cp%0x11 != 0 {
				continue
			}
			cur = append(cur, cp, 'b')
			if len(cur) >= 32 {
				flush()
			}
		}
		flush()
	}
	// chunk by weight
	var chunks [][]c12Content
	var cur []c12Content
	w := 0
	for _, c := range all {
		cw := []int{1, 2, 4}[c.roles]
		if w+cw > 8 && len(cur) > 0 {
			chunks = append(chunks, cur)
			cur, w = nil, 0
		}
		cur = append(cur, c)
		w += cw
	}
	if len(cur) > 0 {
		chunks = append(chunks, cur)
	}
	return chunks
}

func c12RawLiteral(rs []rune, q rune) string {
	var sb strings.Builder
	sb.WriteRune(q)
	for _, c := range rs {
		if q == '`' {
			if c == '`' {
				sb.WriteRune('`')
			}
			sb.WriteRune(c)
			continue
		}
		if c == q || c == '\\' {
			sb.WriteByte('\\')
		}
		sb.WriteRune(c)
	}
	sb.WriteRune(q)
	return sb.String()
}

func c12ContentCase(j *c12J, chunk []c12Content, i int) {
	j.cover("section:content")
	j.res.Key = "content:" + string(chunk[0].rs) + "/" + strconv.Itoa(len(chunk))
	j.res.NonTrivial = true
	for _, c := range chunk {
		c12OneContent(j, c)
	}
	if i%41 == 0 {
		j.res.Sample = fmt.Sprintf("string content %+q (class %s) as string (host API, char tuples, raw literals, ++, offsets), attribute name, relation heading, dict key, bytes; printed and read back", string(chunk[0].rs), chunk[0].class)
	}
}

func c12OneContent(j *c12J, c c12Content) {
	rs := c.rs
	for _, r := range rs {
		j.cps[r] = true
	}
	j.cover("content:" + c.class)
	j.stat["contents"]++
	desc := strconv.QuoteToASCII(string(rs))
	host := rel.NewString(rs)
	type real struct {
		name string
		v    rel.Value
	}
	reals := []real{{"rel.NewString(" + desc + ")", host}}
	fromSrc := func(name, src string, want MV) {
		o := core.EvalSrc(src)
		j.res.Evals++
		if !o.OK() {
			j.cover("skip:literal-rejected:" + name)
			return
		}
		if d, pi := core.SafeDenote(o.Val); pi != nil || d.Enc != want.Enc {
			j.cover("literal-other-denotation:" + name) // input side (lexer/constructor), not printing: the value built is still judged
		}
		reals = append(reals, real{name + " " + strconv.QuoteToASCII(src), o.Val})
	}
	want := core.MStr(string(rs))
	if len(rs) == 1 || c.roles >= 1 {
		if len(rs) <= 40 {
			fromSrc("char-tuples", core.Src(want), want)
		}
	}
	if c.roles >= 1 || len(rs) == 1 {
		fromSrc("dq-literal", c12RawLiteral(rs, '"'), want)
	}
	if c.roles >= 1 {
		fromSrc("sq-literal", c12RawLiteral(rs, '\''), want)
		fromSrc("bq-literal", c12RawLiteral(rs, '`'), want)
		if len(rs) >= 2 {
			h := len(rs) / 2
			if o := core.EvalT("a ++ b", "a", rel.NewString(rs[:h]), "b", rel.NewString(rs[h:])); o.OK() {
				reals = append(reals, real{"(" + strconv.QuoteToASCII(string(rs[:h])) + " ++ " + strconv.QuoteToASCII(string(rs[h:])) + ")", o.Val})
			}
		}
		reals = append(reals, real{"rel.NewOffsetString(" + desc + ", 3)", rel.NewOffsetString(rs, 3)})
	}
	if c.roles >= 2 {
		if o := core.EvalT(`-2\x`, "x", host); o.OK() {
			reals = append(reals, real{`-2\` + desc, o.Val})
		}
	}
	for k, r := range reals {
		j.value(r.v, "", r.name, true)
		switch {
		case c.roles == 2 && k == 0:
			j.inContexts(r.v, r.name, c12AllCtx)
		case c.roles == 2 || c.roles == 1 && k == 0:
			j.inContexts(r.v, r.name, c12MediumCtx)
		case k == 0:
			j.inContexts(r.v, r.name, c12LightCtx)
		}
	}
	// attribute-name role
	name := string(rs)
	j.attrs[c12AttrClass(name)]++
	j.value(rel.NewTuple(rel.NewAttr(name, rel.NewNumber(1))), "", "rel.NewTuple with attribute "+desc, true)
	attrT := func(tmpl string) {
		o := core.EvalT(tmpl, "x", host)
		if !o.OK() {
			j.cover("skip:attr-construct-fail")
			return
		}
		j.value(o.Val, "", tmpl+" where x = "+desc, false)
	}
	attrT(`{//tuple({x: 1}), //tuple({x: 2})}`)
	if c.roles >= 1 {
		attrT(`//tuple({x: 1})`)
		attrT(`{//tuple({x: 1, 'k': 1}), //tuple({x: 2, 'k': 1})}`)
	}
	if c.roles >= 2 {
		attrT(`[(a: //tuple({x: 'v'}))]`)
		attrT(`{//tuple({x: 1}): //tuple({x: x})}`)
	}
	// bytes role (UTF-8 of the content)
	b := []byte(string(rs))
	if len(b) > 0 {
		j.value(rel.NewBytes(b), "", "rel.NewBytes(UTF-8 of "+desc+")", true)
		if c.roles >= 1 {
			bo := rel.NewOffsetBytes(b, 2)
			j.value(bo, "", "rel.NewOffsetBytes(UTF-8 of "+desc+", 2)", true)
			j.inContexts(bo, "rel.NewOffsetBytes(UTF-8 of "+desc+", 2)", c12LightCtx)
			ps := make([]string, len(b))
			for k, x := range b {
				ps[k] = strconv.Itoa(int(x))
			}
			if len(b) <= 64 {
				src := "<<" + strings.Join(ps, ", ") + ">>"
				if o := core.EvalSrc(src); o.OK() {
					j.value(o.Val, "", src, false)
				}
			}
		}
	}
}

// ---------------------------------------------------------------------------------------------
// section C: numbers

var c12CoreNumbers = []string{"0", "1", "-1", "2", "10", "100", "999999", "1000000", "1000001", "999999.5", "123456789", "1234567890", "0.1", "0.2", "0.3",
	"0.5", "0.25", "0.125", "0.0625", "0.0009765625", "1.5", "2.5", "-2.5", "0.0001", "0.00001", "0.00009999", "1e21", "1e22", "1e23", "1e100", "1e-100",
	"1e308", "1.7e308", "1e-308", "2e-308", "5e-324", "1e-323", "2.5e-320", "1e-7", "123456.5", "3.14159265", "2.71828", "1e15", "1e16", "9e15", "1e-5",
	"12345678.9", "0.000123456789", "4294967296", "65536", "16777216", "1048576", "33554432", "1e6", "1e5", "99999", "100000", "-0.001", "-1e21", "-5e-324",
	"255", "256", "65533", "1114111", "0.75", "1.25e-7", "9.99999999e99", "1.00000001", "7e-10", "8.5e200"}

func c12GenNumber(r *core.Rng) float64 {
	for try := 0; try < 200; try++ {
		var s string
		digits := func(n int) string {
			b := make([]byte, n)
			for i := range b {
				b[i] = byte('0' + r.Intn(10))
			}
			if b[0] == '0' {
				b[0] = byte('1' + r.Intn(9))
			}
			return string(b)
		}
		switch r.Intn(7) {
		case 0:
			s = strconv.Itoa(r.Range(-1000, 1000))
		case 1:
			s = digits(r.Range(1, 13))
		case 2:
			s = digits(r.Range(1, 9)) + "e" + strconv.Itoa(r.Range(-330, 308))
		case 3:
			s = digits(r.Range(1, 6)) + "." + digits(r.Range(1, 6))
		case 4:
			s = strconv.FormatFloat(float64(r.Intn(4096))/float64(int(1)<<r.Intn(13)), 'g', -1, 64)
		case 5:
			s = digits(r.Range(1, 4)) + strings.Repeat("0", r.Range(1, 18))
		default:
			s = "0." + strings.Repeat("0", r.Range(0, 8)) + digits(r.Range(1, 8))
		}
		f, err := strconv.ParseFloat(s, 64)
		if err != nil {
			continue
		}
		if r.Chance(1, 3) {
			f = -f
		}
		if f == 0 {
			f = 0
		}
		if c12NumOK(f) {
			return f
		}
	}
	return float64(r.Range(-9, 9))
}

func c12NumberCase(cfg *core.Config, j *c12J, k, i int) {
	j.cover("section:number")
	j.res.Key = "numbers:" + strconv.Itoa(k)
	j.res.NonTrivial = true
	r := core.NewRng(cfg.Seed, 12, 2, uint64(k))
	var ns []float64
	nCore := 0
	if k == 0 {
		for _, s := range c12CoreNumbers {
			f, err := strconv.ParseFloat(s, 64)
			if err == nil && c12NumOK(f) {
				ns = append(ns, f)
			}
		}
	}
	if k == 0 {
		// IEEE negative zero: equal to 0 in arr.ai; it prints as -0, which reads back as 0 (recorded, judged by denotation only)
		j.cover("neg-zero")
		j.value(rel.NewNumber(math.Copysign(0, -1)), "", "rel.NewNumber(-0)", true)
		if o := core.EvalSrc("0 * -1"); o.OK() {
			j.value(o.Val, "", "0 * -1", true)
		}
	}
	nCore = len(ns)
	for len(ns) < c12NumPerCase {
		ns = append(ns, c12GenNumber(r))
	}
	j.stat["numbers"] += len(ns)
	lens := map[int]bool{}
	for _, f := range ns {
		lens[len(strconv.FormatFloat(f, 'G', -1, 64))] = true
	}
	for l := range lens {
		j.cover(fmt.Sprintf("number-form-length:%02d", l))
	}
	for b := 0; b < len(ns); b += c12NumBatch {
		part := ns[b:min(b+c12NumBatch, len(ns))]
		vals := make([]rel.Value, len(part))
		for x, f := range part {
			vals[x] = rel.NewNumber(f)
		}
		before := len(j.res.Viols)
		j.stat["number-batches"]++
		j.value(rel.NewArray(vals...), "", fmt.Sprintf("rel.NewArray of %d numbers", len(part)), false)
		if len(j.res.Viols) > before {
			// pin down: judge each number of the failing batch on its own
			j.res.Viols = j.res.Viols[:before]
			j.seen = map[string]bool{}
			for _, f := range part {
				j.value(rel.NewNumber(f), "", "rel.NewNumber("+strconv.FormatFloat(f, 'g', -1, 64)+")", false)
			}
		}
	}
	// singles: all entries, container positions, values built by the lexer
	single := ns[:5]
	if k == 0 {
		single = ns[:nCore]
	}
	for x, f := range single {
		g := strconv.FormatFloat(f, 'g', -1, 64)
		v := rel.NewNumber(f)
		j.value(v, "", "rel.NewNumber("+g+")", true)
		if x < 2 || k == 0 {
			if x < 2 {
				j.inContexts(v, "rel.NewNumber("+g+")", c12AllCtx)
			} else {
				j.inContexts(v, "rel.NewNumber("+g+")", c12MediumCtx)
			}
			src := g
			if f < 0 {
				src = "(" + g + ")"
			}
			if o := core.EvalSrc(src); o.OK() {
				j.res.Evals++
				j.value(o.Val, "", "source "+src, false)
			}
			if f == float64(int(f)) && f > -1000 && f < 1000 {
				if o := core.EvalT(`[n\'ab', n\[1, 2], n\<<1, 2>>, (@: n, @item: n)]`, "n", v); o.OK() {
					j.value(o.Val, "offset-position", `[n\'ab', n\[1, 2], n\<<1, 2>>, (@: n, @item: n)] where n = `+g, false)
				}
			}
		}
	}
	if k%19 == 0 {
		j.res.Sample = fmt.Sprintf("%d numbers with 'G' form < 15 chars (e.g. %s, %s, %s) printed in arrays of %d, singly, nested and in offset positions, read back bit-exactly",
			len(ns), strconv.FormatFloat(ns[0], 'G', -1, 64), strconv.FormatFloat(ns[len(ns)/2], 'G', -1, 64), strconv.FormatFloat(ns[len(ns)-1], 'G', -1, 64), c12NumBatch)
	}
}

// ---------------------------------------------------------------------------------------------
// section D: bundle config

const c12NoModule = "\x00none"

func c12Bundles(cfg *core.Config) [][2]string {
	mods := []string{"example.com/m", c12NoModule, "mod with space", `mod"quote`, `mod'single`, `mod\back`, "módulo/ü", "日本/モジュール", "mod\ttab",
		"mod$dollar", "mod${x}", "a\x7fb", "a\u00adb", "a\u2028b", "😀/m", `mod\x41`, `mod\n`, "{}", "a\x01b", "x\u0080y", "tail\\", `"`, "a`b", "é"}
	files := []string{"main.arrai", "my main.arrai", `q"uote.arrai`, `it's.arrai`, "ünï.arrai", "sub dir/ma in.arrai", "tab\tname.arrai",
		"a\x7fb.arrai", "dollar$.arrai", "日本.arrai", "a\u00adb.arrai", "${x}.arrai", "a`b.arrai", "d\"q/f\"q.arrai", "\x01.arrai", "é.arrai"}
	var out [][2]string
	for _, m := range mods {
		out = append(out, [2]string{m, "main.arrai"})
	}
	for _, f := range files[1:] {
		out = append(out, [2]string{"example.com/m", f})
		out = append(out, [2]string{c12NoModule, f})
	}
	r := core.NewRng(cfg.Seed, 12, 4)
	for i, n := 0, cfg.Pick(16, 200); i < n; i++ {
		out = append(out, [2]string{core.Pick(r, mods), core.Pick(r, files)})
	}
	return out
}

func c12NameClasses(ss ...string) []string {
	set := map[string]bool{}
	for _, s := range ss {
		if s == c12NoModule {
			set["name:no-module"] = true
			continue
		}
		if s == "{}" {
			set["name:braces-literal"] = true
		}
		for _, r := range s {
			switch {
			case r < 32 || r == 127:
				set["name:control"] = true
			case r == '"':
				set["name:quote"] = true
			case r == '\'':
				set["name:single-quote"] = true
			case r == '\\':
				set["name:backslash"] = true
			case r == ' ':
				set["name:space"] = true
			case r == '$':
				set["name:dollar"] = true
			case r > 127 && !strconv.IsPrint(r):
				set["name:nonprint-unicode"] = true
			case r > 127:
				set["name:unicode"] = true
			}
		}
	}
	out := make([]string, 0, len(set))
	for k := range set {
		out = append(out, k)
	}
	sort.Strings(out)
	return out
}

func c12BundleCase(j *c12J, b [2]string, i int) {
	mod, relPath := b[0], b[1]
	j.cover("section:bundle")
	j.res.Key = "bundle:" + mod + "|" + relPath
	j.res.NonTrivial = true
	hz := c12NameClasses(mod, relPath)
	for _, h := range hz {
		j.cover(h)
	}
	desc := fmt.Sprintf("module %s main %s", strconv.QuoteToASCII(mod), strconv.QuoteToASCII(relPath))
	rep := map[string]string{"module": mod, "main": relPath}
	fs := afero.NewMemMapFs()
	root := "/w/proj"
	mainPath := root + "/" + relPath
	answer := 1000 + i
	src := strconv.Itoa(answer)
	_ = fs.MkdirAll(path.Dir(mainPath), 0o755)
	if err := afero.WriteFile(fs, mainPath, []byte(src), 0o644); err != nil {
		j.cover("skip:bundle-fs")
		return
	}
	wantRoot := ""
	if mod != c12NoModule {
		wantRoot = mod
		_ = afero.WriteFile(fs, root+"/go.mod", []byte("module "+mod+"\n"), 0o644)
	}
	ctx := ctxfs.SourceFsOnto(arraictx.InitRunCtx(context.Background()), fs)
	var buf bytes.Buffer
	j.res.Evals++
	bo := core.Guard(func() (rel.Value, error) { return rel.None, bundle.BundledScripts(ctx, mainPath, &buf) })
	if !bo.OK() {
		j.cover("skip:bundle-refused") // building the archive is C15's subject
		j.stat["bundle-refused"]++
		return
	}
	zr, err := zip.NewReader(bytes.NewReader(buf.Bytes()), int64(buf.Len()))
	if err != nil {
		j.cover("skip:bundle-unreadable")
		return
	}
	cfgText, haveCfg := "", false
	entries := map[string]string{}
	for _, f := range zr.File {
		rc, err := f.Open()
		if err != nil {
			continue
		}
		body, _ := io.ReadAll(rc)
		rc.Close()
		entries["/"+f.Name] = string(body)
		if "/"+f.Name == syntax.BundleConfig {
			cfgText, haveCfg = string(body), true
		}
	}
	if !haveCfg {
		j.cover("skip:bundle-no-config")
		return
	}
	j.stat["bundle-configs"]++
	j.res.SubKeys = append(j.res.SubKeys, "bundle-config|"+cfgText)
	rep["config"] = cfgText
	// (1) the generated config is an arr.ai expression denoting (main_root, main_file)
	j.res.Evals++
	j.cover("entry:config.arrai")
	o := core.EvalSrc(cfgText)
	switch {
	case o.Panic != nil:
		j.viol("C12.bundle-config", "config.arrai", "read-panic", o.Panic.Sig(), hz, "", desc+": config "+c12Clip(strconv.Quote(cfgText))+" panics when evaluated: "+o.Panic.Msg, rep)
	case o.Err != nil:
		j.viol("C12.bundle-config", "config.arrai", "read-error", "", hz, c12ErrClass(o.Err), desc+": config "+c12Clip(strconv.Quote(cfgText))+" does not evaluate: "+core.ErrText(o.Err), rep)
	default:
		d, pi := core.SafeDenote(o.Val)
		gotRoot, ok1, gotFile, ok2 := "", false, "", false
		if pi == nil && d.K == 't' {
			gotRoot, ok1 = c12ModelString(d.T["main_root"])
			gotFile, ok2 = c12ModelString(d.T["main_file"])
		}
		switch {
		case !ok1 || !ok2:
			j.viol("C12.bundle-config", "config.arrai", "wrong-value", "", hz, "shape", desc+": config "+c12Clip(strconv.Quote(cfgText))+" is not a (main_root, main_file) tuple of strings", rep)
		case gotRoot != wantRoot:
			j.viol("C12.bundle-config", "config.arrai", "wrong-value", "", hz, "main_root", fmt.Sprintf("%s: config %s reads back main_root %q, bundled module is %q", desc, c12Clip(strconv.Quote(cfgText)), gotRoot, wantRoot), rep)
		case entries[gotFile] != src:
			j.viol("C12.bundle-config", "config.arrai", "wrong-value", "", hz, "main_file", fmt.Sprintf("%s: config %s reads back main_file %q, which is not the archive entry holding the main source (entries: %q)", desc, c12Clip(strconv.Quote(cfgText)), gotFile, c12Keys(entries)), rep)
		}
	}
	// (2) the bundle runtime reads the config back
	j.res.Evals += 2
	j.cover("entry:bundle-runtime")
	rctx := arraictx.InitRunCtx(context.Background())
	modGot := ""
	mo := core.Guard(func() (rel.Value, error) {
		_, m, err := syntax.GetModuleFromBundle(rctx, buf.Bytes())
		modGot = m
		return rel.None, err
	})
	switch {
	case mo.Panic != nil:
		j.viol("C12.bundle-config", "GetModuleFromBundle", "read-panic", mo.Panic.Sig(), hz, "", desc+": GetModuleFromBundle panics: "+mo.Panic.Msg, rep)
	case mo.Err != nil:
		j.viol("C12.bundle-config", "GetModuleFromBundle", "read-error", "", hz, c12ErrClass(mo.Err), desc+": GetModuleFromBundle fails: "+core.ErrText(mo.Err), rep)
	case mod != c12NoModule && modGot != mod:
		j.viol("C12.bundle-config", "GetModuleFromBundle", "wrong-value", "", hz, "main_root", fmt.Sprintf("%s: runtime reads module %q from config %s", desc, modGot, c12Clip(strconv.Quote(cfgText))), rep)
	}
	eo := core.Guard(func() (rel.Value, error) {
		return syntax.EvaluateBundleCtx(arraictx.InitRunCtx(context.Background()), buf.Bytes())
	})
	switch {
	case eo.Panic != nil:
		j.viol("C12.bundle-config", "EvaluateBundle", "read-panic", eo.Panic.Sig(), hz, "", desc+": running the bundle panics: "+c12Clip(eo.Panic.Msg), rep)
	case eo.Err != nil:
		j.viol("C12.bundle-config", "EvaluateBundle", "read-error", "", hz, c12ErrClass(eo.Err), desc+": running the bundle fails: "+core.ErrText(eo.Err), rep)
	default:
		if n, ok := eo.Val.(rel.Number); !ok || n.Float64() != float64(answer) {
			j.viol("C12.bundle-config", "EvaluateBundle", "wrong-value", "", hz, "main_file", fmt.Sprintf("%s: running the bundle gives %s, main source is %s", desc, c12Clip(outcomeText(eo)), src), rep)
		} else {
			j.stat["bundle-runs-ok"]++
		}
	}
	if i%5 == 0 {
		j.res.Sample = fmt.Sprintf("bundle of %s: config %s evaluated as arr.ai and read back by GetModuleFromBundle / EvaluateBundleCtx", desc, strconv.QuoteToASCII(cfgText))
	}
}

func c12Keys(m map[string]string) []string {
	var ks []string
	for k := range m {
		ks = append(ks, k)
	}
	sort.Strings(ks)
	return ks
}

// ---------------------------------------------------------------------------------------------
// Finish: evidence + floors

func (c12) Finish(cfg *core.Config, agg *core.Aggregate) {
	pairs := map[string]int{}
	attrs := map[string]int{}
	stat := map[string]int{}
	cps := map[int]bool{}
	for _, dr := range agg.Data {
		var d c12Data
		if err := json.Unmarshal(dr.Data, &d); err != nil {
			continue
		}
		for k, v := range d.Pairs {
			pairs[k] += v
		}
		for k, v := range d.Attrs {
			attrs[k] += v
		}
		for k, v := range d.Stat {
			stat[k] += v
		}
		for _, c := range d.CPs {
			cps[c] = true
		}
	}
	low, astral := 0, 0
	for c := range cps {
		if c < 0x300 {
			low++
		}
		if c > 0xFFFF {
			astral++
		}
	}
	agg.Extra["values_printed"] = stat["values-printed"]
	agg.Extra["values_printed_hazard_free"] = stat["hazard-free"]
	agg.Extra["texts_read_back"] = stat["texts-read"]
	agg.Extra["shape_x_representation_pairs"] = len(pairs)
	agg.Extra["shape_x_representation"] = pairs
	agg.Extra["code_points_covered"] = len(cps)
	agg.Extra["code_points_below_0x300"] = low
	agg.Extra["code_points_astral"] = astral
	agg.Extra["attribute_name_classes"] = attrs
	agg.Extra["string_contents"] = stat["contents"]
	agg.Extra["numbers_printed"] = stat["numbers"]
	agg.Extra["number_batches"] = stat["number-batches"]
	agg.Extra["entries"] = map[string]int{"fu.Repr": agg.Cover["entry:fu.Repr"], "//str.repr": agg.Cover["entry://str.repr"],
		"OutputValue": agg.Cover["entry:OutputValue"], "config.arrai": agg.Cover["entry:config.arrai"], "bundle-runtime": agg.Cover["entry:bundle-runtime"]}
	agg.Extra["str_repr"] = map[string]int{"same-text-as-fu.Repr": stat["str.repr-same-text"], "other-text(read back separately)": stat["str.repr-other-text"]}
	agg.Extra["output_value"] = map[string]int{"same-text-as-fu.Repr": stat["output-same-text"], "raw-branch(not judged)": stat["output-raw-branch"],
		"other-text(read back separately)": stat["output-other-text"]}
	agg.Extra["bundle"] = map[string]int{"configs": stat["bundle-configs"], "runs-ok": stat["bundle-runs-ok"], "refused-by-bundler": stat["bundle-refused"]}
	agg.Extra["per_section"] = map[string]int{"evals:model": stat["evals:model"], "evals:content": stat["evals:content"], "evals:number": stat["evals:number"], "evals:bundle": stat["evals:bundle"],
		"wall-ms:model": stat["cpu-ms:model"], "wall-ms:content": stat["cpu-ms:content"], "wall-ms:number": stat["cpu-ms:number"], "wall-ms:bundle": stat["cpu-ms:bundle"]}
	agg.Extra["reprint_differs"] = agg.Cover["reprint-differs"]

	floor := func(ok bool, format string, args ...interface{}) {
		if !ok {
			agg.Fail("coverage floor: "+format, args...)
		}
	}
	floor(stat["values-printed"] >= cfg.Pick(20000, 150000), "only %d values printed", stat["values-printed"])
	floor(stat["hazard-free"]*10 >= stat["values-printed"]*5, "hazard-free values are %d of %d (< 50%%)", stat["hazard-free"], stat["values-printed"])
	floor(len(pairs) >= 30, "only %d (shape class x representation) pairs", len(pairs))
	floor(low == 0x300, "only %d of 768 code points below U+0300 covered", low)
	floor(astral >= 5, "only %d astral code points", astral)
	for _, c := range c12AttrClasses {
		floor(attrs[c] > 0, "attribute-name class %q never printed", c)
	}
	floor(stat["numbers"] >= cfg.Pick(15000, 150000), "only %d numbers printed", stat["numbers"])
	for _, e := range []string{"entry:fu.Repr", "entry://str.repr", "entry:OutputValue"} {
		floor(agg.Cover[e] >= 5000, "%s observed only %d times", e, agg.Cover[e])
	}
	floor(stat["output-same-text"] >= 1000 && stat["output-raw-branch"] >= 100, "OutputValue branches: same-text %d raw %d", stat["output-same-text"], stat["output-raw-branch"])
	floor(stat["bundle-configs"] >= 30, "only %d bundle configs read back", stat["bundle-configs"])
	for _, c := range c12Ctxs {
		floor(agg.Cover["ctx:"+c.name] >= 200, "container context %s printed only %d times", c.name, agg.Cover["ctx:"+c.name])
	}
	for _, want := range []string{"str x String", "bytes x Bytes", "arr x Array", "dict x Dict", "rel x Relation", "tuple x *rel.GenericTuple", "num x Number",
		"str+off x String", "bytes+off x Bytes", "arr+off x Array", "arr+holes x Array", "mixed x UnionSet"} {
		if pairs[want] == 0 {
			// representation names are evidence only: report, do not fail on a refactor that renames them
			agg.Extra["note_missing_pair:"+want] = true
		}
	}
	shapes := map[string]bool{}
	for k := range pairs {
		shapes[strings.SplitN(k, " x ", 2)[0]] = true
	}
	for _, s := range []string{"num", "tuple", "str", "str+off", "str+holes", "bytes", "bytes+off", "arr", "arr+off", "arr+holes", "dict", "dict+multi", "rel", "mixed", "plain-set", "true", "empty", "tuples-mixed-headings"} {
		floor(shapes[s], "shape class %s never printed", s)
	}
}
