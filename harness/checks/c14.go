package checks

import (
	"fmt"
	"strings"

	"verif/core"

	"github.com/arr-ai/arrai/rel"
)

// C14: //seq functions agree across string / bytes / array encodings and with the textbook
// definition. Reference model on []int; exhaustive small-scope core + seeded random slice.

type c14 struct{}

func init() { core.Register(c14{}) }

func (c14) ID() string    { return "C14" }
func (c14) Level() string { return "exploration" }
func (c14) Rule() string {
	return "core: every //seq function x every subject of length<=6 and pattern/delimiter of length<=4 over alphabet {1,2} (sub: old<=3,new<=2,subject<=5), each in 3 encodings (string, bytes, array), result denotation compared with a reference on []int; random slice: longer sequences over {1,2,3} from VERIF_SEED. A sub-case (fn,subject,pattern) is non-trivial when subject and pattern are both non-empty; distinct by (fn,subject,pattern)."
}
func (c14) Assumptions() []string {
	return []string{"reference semantics for empty delimiter/old follow the documented Go strings behaviour (explode / insert between elements)",
		"an error is accepted only where the encoding is documented unsupported: repeat on bytes, join on byte arrays",
		"operands are canonical sequences (offset 0, no holes); non-canonical operands are exercised by C05/C10"}
}

var c14Fns = []string{"contains", "has_prefix", "has_suffix", "trim_prefix", "trim_suffix", "split", "join", "sub", "concat", "repeat", "laws"}

func allSeqs(alpha, maxLen int) [][]int {
	out := [][]int{{}}
	prev := [][]int{{}}
	for l := 1; l <= maxLen; l++ {
		var cur [][]int
		for _, p := range prev {
			for a := 1; a <= alpha; a++ {
				cur = append(cur, append(append([]int{}, p...), a))
			}
		}
		out = append(out, cur...)
		prev = cur
	}
	return out
}

var (
	c14Subjects = allSeqs(2, 6)
	c14Patterns = allSeqs(2, 4)
)

const c14RandomPerFn = 40

func (c14) NumCases(cfg *core.Config) int {
	return len(c14Fns) * (len(c14Subjects) + cfg.Pick(c14RandomPerFn, 40*c14RandomPerFn))
}

// --- reference on []int ---

func seqEq(a, b []int) bool {
	if len(a) != len(b) {
		return false
	}
	for i := range a {
		if a[i] != b[i] {
			return false
		}
	}
	return true
}
func refIndex(s, p []int) int {
	for i := 0; i+len(p) <= len(s); i++ {
		if seqEq(s[i:i+len(p)], p) {
			return i
		}
	}
	return -1
}
func refSplit(d, s []int) [][]int {
	out := [][]int{}
	if len(d) == 0 {
		for _, e := range s {
			out = append(out, []int{e})
		}
		return out
	}
	for {
		i := refIndex(s, d)
		if i < 0 {
			return append(out, s)
		}
		out = append(out, s[:i])
		s = s[i+len(d):]
	}
}
func refJoin(j []int, parts [][]int) []int {
	out := []int{}
	for i, p := range parts {
		if i > 0 {
			out = append(out, j...)
		}
		out = append(out, p...)
	}
	return out
}
func refSub(old, nw, s []int) []int {
	out := []int{}
	if len(old) == 0 {
		for _, e := range s {
			out = append(append(out, nw...), e)
		}
		return append(out, nw...)
	}
	for {
		i := refIndex(s, old)
		if i < 0 {
			return append(out, s...)
		}
		out = append(append(out, s[:i]...), nw...)
		s = s[i+len(old):]
	}
}

// --- encodings ---

var c14Encs = []string{"str", "bytes", "arr"}

func encSrc(enc string, s []int) string {
	switch enc {
	case "str":
		var sb strings.Builder
		sb.WriteByte('"')
		for _, e := range s {
			sb.WriteByte(byte('a' + e - 1))
		}
		sb.WriteByte('"')
		return sb.String()
	case "bytes":
		parts := make([]string, len(s))
		for i, e := range s {
			parts[i] = fmt.Sprint(96 + e)
		}
		return "<<" + strings.Join(parts, ", ") + ">>"
	}
	parts := make([]string, len(s))
	for i, e := range s {
		parts[i] = fmt.Sprint(e)
	}
	return "[" + strings.Join(parts, ", ") + "]"
}

func encMV(enc string, s []int) core.MV {
	var ms []core.MV
	for i, e := range s {
		switch enc {
		case "str":
			ms = append(ms, core.Pair(core.Num(float64(i)), "@char", core.Num(float64(96+e))))
		case "bytes":
			ms = append(ms, core.Pair(core.Num(float64(i)), "@byte", core.Num(float64(96+e))))
		default:
			ms = append(ms, core.Pair(core.Num(float64(i)), "@item", core.Num(float64(e))))
		}
	}
	return core.Set(ms...)
}

func encListSrc(enc string, parts [][]int) string {
	ps := make([]string, len(parts))
	for i, p := range parts {
		ps[i] = encSrc(enc, p)
	}
	return "[" + strings.Join(ps, ", ") + "]"
}

func encListMV(enc string, parts [][]int) core.MV {
	items := make([]core.MV, len(parts))
	for i, p := range parts {
		items[i] = encMV(enc, p)
	}
	return core.MArr(items...)
}

var litCache = map[string]rel.Value{}

// lit evaluates literal source once per process (operands are built by the real evaluator).
func lit(src string) (rel.Value, error) {
	if v, ok := litCache[src]; ok {
		return v, nil
	}
	o := core.EvalSrc(src)
	if !o.OK() {
		return nil, fmt.Errorf("literal %s: %s %s", src, o.Mode(), outcomeText(o))
	}
	litCache[src] = o.Val
	return o.Val, nil
}

func outcomeText(o core.Outcome) string {
	switch {
	case o.Panic != nil:
		return "panic: " + o.Panic.Msg + " @ " + o.Panic.Site
	case o.Err != nil:
		return "error: " + core.ErrText(o.Err)
	}
	r, _ := core.Repr(o.Val)
	return r
}

func seqStr(s []int) string {
	var sb strings.Builder
	for _, e := range s {
		sb.WriteByte(byte('0' + e))
	}
	if len(s) == 0 {
		return "-"
	}
	return sb.String()
}

type c14judge struct {
	res  *core.CaseResult
	fn   string
	seen map[string]bool
}

// check evaluates tmpl with binds in every encoding and compares with the expected denotation.
func (j *c14judge) check(fn, tmpl string, mk func(enc string) (binds []interface{}, want core.MV, errOK bool, desc string)) {
	for _, enc := range c14Encs {
		binds, want, errOK, desc := mk(enc)
		if binds == nil {
			continue
		}
		j.res.Evals++
		o := core.EvalT(tmpl, binds...)
		j.res.Cover = append(j.res.Cover, fn+"/"+enc)
		mode, detail, delta := "", "", ""
		switch {
		case o.Panic != nil:
			mode, detail = "panic", o.Panic.Msg
		case o.Err != nil:
			if !errOK {
				mode, detail = "error-for-value", core.ErrText(o.Err)
			}
		default:
			got, pi := core.SafeDenote(o.Val)
			if pi != nil {
				mode, detail = "panic", "denote: "+pi.Msg
			} else if got.Enc != want.Enc {
				mode = "wrong-value"
				delta = map[bool]string{true: "bool", false: "seq"}[want.Enc == core.MTrue.Enc || (want.Enc == core.MEmpty.Enc && (strings.HasPrefix(fn, "has_") || fn == "contains"))]
				detail = fmt.Sprintf("got %s want %s", core.Src(got), core.Src(want))
			}
		}
		if mode == "" {
			continue
		}
		site := ""
		if o.Panic != nil {
			site = o.Panic.Sig()
		}
		sig := core.Signature{Clause: "C14.reference", Entry: "//seq." + fn, Mode: mode, Site: site, Hazards: []string{"enc:" + enc}, Delta: delta}
		k := sig.String()
		if j.seen[k] {
			continue // one witness per signature per case
		}
		j.seen[k] = true
		j.res.Viols = append(j.res.Viols, core.Violation{Sig: sig,
			Detail: fmt.Sprintf("%s [%s encoding]: %s", desc, enc, detail),
			Replay: map[string]string{"expr": desc, "encoding": enc}})
	}
}

func (c14) RunCase(cfg *core.Config, i int) core.CaseResult {
	per := len(c14Subjects) + cfg.Pick(c14RandomPerFn, 40*c14RandomPerFn)
	fn := c14Fns[i/per]
	k := i % per
	var subj []int
	pats := c14Patterns
	random := k >= len(c14Subjects)
	if !random {
		subj = c14Subjects[k]
	} else {
		r := core.NewRng(cfg.Seed, 14, uint64(i))
		subj = randSeq(r, 3, r.Range(5, 14))
		pats = nil
		for n := 0; n < 12; n++ {
			if r.Chance(1, 2) && len(subj) > 2 { // a window of the subject: guaranteed hit
				a := r.Intn(len(subj) - 1)
				b := a + 1 + r.Intn(min(4, len(subj)-a-1)+1)
				if b > len(subj) {
					b = len(subj)
				}
				pats = append(pats, append([]int{}, subj[a:b]...))
			} else {
				pats = append(pats, randSeq(r, 3, r.Range(0, 4)))
			}
		}
	}
	res := core.CaseResult{Key: fn + ":" + seqStr(subj), NonTrivial: len(subj) > 0}
	res.Evals = 0
	j := &c14judge{res: &res, fn: fn, seen: map[string]bool{}}
	val := func(src string) rel.Value {
		v, err := lit(src)
		if err != nil {
			res.Inconclusive = err.Error()
			return rel.None
		}
		return v
	}
	sub := func(p []int) {
		if len(subj) > 0 && len(p) > 0 {
			res.SubKeys = append(res.SubKeys, fn+":"+seqStr(subj)+":"+seqStr(p))
		}
	}
	two := func(fname string, p []int, want func(enc string) core.MV, errOK func(enc string) bool) {
		j.check(fname, "//seq."+fname+"(p, s)", func(enc string) ([]interface{}, core.MV, bool, string) {
			return []interface{}{"p", val(encSrc(enc, p)), "s", val(encSrc(enc, subj))}, want(enc), errOK != nil && errOK(enc),
				fmt.Sprintf("//seq.%s(%s, %s)", fname, encSrc(enc, p), encSrc(enc, subj))
		})
	}
	switch fn {
	case "contains":
		for _, p := range pats {
			sub(p)
			two(fn, p, func(string) core.MV { return core.MBool(refIndex(subj, p) >= 0) }, nil)
		}
	case "has_prefix":
		for _, p := range pats {
			sub(p)
			two(fn, p, func(string) core.MV { return core.MBool(len(p) <= len(subj) && seqEq(subj[:len(p)], p)) }, nil)
		}
	case "has_suffix":
		for _, p := range pats {
			sub(p)
			two(fn, p, func(string) core.MV { return core.MBool(len(p) <= len(subj) && seqEq(subj[len(subj)-len(p):], p)) }, nil)
		}
	case "trim_prefix":
		for _, p := range pats {
			sub(p)
			w := subj
			if len(p) <= len(subj) && seqEq(subj[:len(p)], p) {
				w = subj[len(p):]
			}
			two(fn, p, func(enc string) core.MV { return encMV(enc, w) }, nil)
		}
	case "trim_suffix":
		for _, p := range pats {
			sub(p)
			w := subj
			if len(p) <= len(subj) && seqEq(subj[len(subj)-len(p):], p) {
				w = subj[:len(subj)-len(p)]
			}
			two(fn, p, func(enc string) core.MV { return encMV(enc, w) }, nil)
		}
	case "split":
		for _, p := range pats {
			sub(p)
			w := refSplit(p, subj)
			two(fn, p, func(enc string) core.MV { return encListMV(enc, w) }, nil)
		}
	case "join":
		// subject list = split of subj by each pattern (so parts vary), joiner = another pattern
		for pi, p := range pats {
			if len(p) == 0 {
				continue
			}
			parts := refSplit(p, subj)
			for _, jn := range [][]int{p, pats[(pi*7+3)%len(pats)], {}} {
				sub(append(append([]int{9}, p...), jn...))
				w := refJoin(jn, parts)
				j.check(fn, "//seq.join(j, l)", func(enc string) ([]interface{}, core.MV, bool, string) {
					return []interface{}{"j", val(encSrc(enc, jn)), "l", val(encListSrc(enc, parts))}, encMV(enc, w), enc == "bytes",
						fmt.Sprintf("//seq.join(%s, %s)", encSrc(enc, jn), encListSrc(enc, parts))
				})
			}
		}
	case "sub":
		if len(subj) > 5 && !random {
			res.NonTrivial = false
			break
		}
		for _, old := range pats {
			if len(old) > 3 {
				continue
			}
			for _, nw := range pats {
				if len(nw) > 2 {
					continue
				}
				sub(append(append(append([]int{}, old...), 9), nw...))
				w := refSub(old, nw, subj)
				j.check(fn, "//seq.sub(o, n, s)", func(enc string) ([]interface{}, core.MV, bool, string) {
					return []interface{}{"o", val(encSrc(enc, old)), "n", val(encSrc(enc, nw)), "s", val(encSrc(enc, subj))}, encMV(enc, w), false,
						fmt.Sprintf("//seq.sub(%s, %s, %s)", encSrc(enc, old), encSrc(enc, nw), encSrc(enc, subj))
				})
			}
		}
	case "concat":
		for _, p := range pats {
			if len(p) == 0 {
				continue
			}
			sub(p)
			parts := refSplit(p, subj)
			for _, extra := range [][][]int{nil, {p}, {{}, p}} {
				l := append(append([][]int{}, parts...), extra...)
				w := refJoin(nil, l)
				j.check(fn, "//seq.concat(l)", func(enc string) ([]interface{}, core.MV, bool, string) {
					return []interface{}{"l", val(encListSrc(enc, l))}, encMV(enc, w), false,
						fmt.Sprintf("//seq.concat(%s)", encListSrc(enc, l))
				})
			}
		}
	case "repeat":
		for n := 0; n <= 3; n++ {
			sub([]int{n + 1})
			var w []int
			for x := 0; x < n; x++ {
				w = append(w, subj...)
			}
			j.check(fn, "//seq.repeat(n, s)", func(enc string) ([]interface{}, core.MV, bool, string) {
				return []interface{}{"n", rel.NewNumber(float64(n)), "s", val(encSrc(enc, subj))}, encMV(enc, w), enc == "bytes",
					fmt.Sprintf("//seq.repeat(%d, %s)", n, encSrc(enc, subj))
			})
		}
	case "laws":
		// evaluated wholly in arr.ai: join inverts split; contains <=> split has >1 part; trims compose
		for _, p := range pats {
			if len(p) == 0 {
				continue
			}
			sub(p)
			j.check("join∘split", "//seq.join(p, //seq.split(p, s)) = s", func(enc string) ([]interface{}, core.MV, bool, string) {
				if enc == "bytes" {
					return nil, core.MV{}, false, ""
				}
				return []interface{}{"p", val(encSrc(enc, p)), "s", val(encSrc(enc, subj))}, core.MTrue, false,
					fmt.Sprintf("//seq.join(p, //seq.split(p, s)) = s where p=%s s=%s", encSrc(enc, p), encSrc(enc, subj))
			})
			j.check("contains⇔split", "//seq.contains(p, s) = ((//seq.split(p, s) count) > 1)", func(enc string) ([]interface{}, core.MV, bool, string) {
				return []interface{}{"p", val(encSrc(enc, p)), "s", val(encSrc(enc, subj))}, core.MTrue, false,
					fmt.Sprintf("//seq.contains(p,s) = (//seq.split(p,s) count > 1) where p=%s s=%s", encSrc(enc, p), encSrc(enc, subj))
			})
			j.check("trim∘concat", "//seq.trim_prefix(p, //seq.concat([p, s])) = s && //seq.trim_suffix(p, //seq.concat([s, p])) = s", func(enc string) ([]interface{}, core.MV, bool, string) {
				return []interface{}{"p", val(encSrc(enc, p)), "s", val(encSrc(enc, subj))}, core.MTrue, false,
					fmt.Sprintf("trim_prefix(p, concat([p,s])) = s && trim_suffix(p, concat([s,p])) = s where p=%s s=%s", encSrc(enc, p), encSrc(enc, subj))
			})
		}
	}
	if res.Evals == 0 {
		res.Evals = 1
	}
	if k%97 == 3 {
		res.Sample = fmt.Sprintf("//seq.%s over subject %s (str %s / bytes %s / arr %s) x %d patterns", fn, seqStr(subj),
			encSrc("str", subj), encSrc("bytes", subj), encSrc("arr", subj), len(pats))
	}
	return res
}

func randSeq(r *core.Rng, alpha, n int) []int {
	s := make([]int, n)
	for i := range s {
		s[i] = 1 + r.Intn(alpha)
	}
	return s
}

func (c14) Finish(cfg *core.Config, agg *core.Aggregate) {
	agg.Extra["exhaustive"] = true
	agg.Extra["exhaustive_scope"] = "subjects len<=6 x patterns len<=4 over {1,2}, 3 encodings, all 10 functions + 3 laws"
	for _, fn := range c14Fns[:10] {
		for _, enc := range c14Encs {
			if agg.Cover[fn+"/"+enc] == 0 {
				agg.Fail("coverage floor: %s/%s never evaluated", fn, enc)
			}
		}
	}
}
