package checks

import (
	"fmt"
	"sort"
	"strings"
	"sync"

	"verif/core"

	"github.com/arr-ai/arrai/rel"
)

// C09: pattern matching binds exactly what construction would produce.
//
// Runtime monitor: every generated pattern P is compiled by the real front end into
//   let P = v0; (n1: n1, ...)      (\P (n1: n1, ...))(v0)      cond v0 {P: .., Q: .., _: ..}
// and evaluated against live values v0 that were themselves built by the real evaluator through
// several construction paths. The outcome (bindings | error | panic | arm taken) is compared with a
// structural reference matcher derived from the property statement (c09_model.go), and the
// implementation's own bindings are substituted back into P to rebuild the value (round trip).

type c09 struct{}

func init() { core.Register(c09{}) }

func (c09) ID() string    { return "C09" }
func (c09) Level() string { return "exploration" }
func (c09) Rule() string {
	return "core (seed-independent): every depth-1 array/tuple/dict/set pattern over the leaf alphabet {a, b, _, 1, \"s\", (k)} with lengths <=3, ...rest (named and anonymous) in every position, ?: fallbacks, repeated names, plus depth-2/3 patterns from 20 frames x 24 representative children (quick: every third of the enumeration; thorough: wider alphabets and child set, every sixth); each pattern is paired with a generalised partner pattern for cond. Values per pattern: instances built from the pattern (rest sizes 0..2, fallback absent/present/equal to the fallback), their one-step near misses (element changed / dropped / added / swapped, indices shifted = offset array, element removed = holey array, attribute renamed, key changed, second value under one key, array<->dict, 1 vs \"1\"), 15 wrong-kind values. Every value is realised by the real evaluator twice through compiled templates over already-built children (sugar literals; an alternative per node: spelled-out pair tuples, +>, where true, => ., | {}, with/without) and, for every fifth value (thorough: every second value), through a rotating closed-text program from pathsFor. Each (pattern, live value) runs as let, call, cond(P,Q), cond(Q,P) and a cond whose first-arm body fails. Random slice: seeded random patterns (depth <=3) with seeded values. Distinct = (pattern source, value denotation); non-trivial when the reference matcher is definite (match / no-match) and the pattern is a container or binds a name."
}
func (c09) Assumptions() []string {
	return []string{
		"P read as an expression: array pattern = array literal, [p.., ...r, q..] = [p..] ++ r ++ [q..] with r a plain array, tuple/dict/set patterns = the literal with the rest unioned in as a disjoint remainder; a ?: component is present in the value or absent with the name bound to the fallback",
		"judged fragment = what docs/docs/lang/binding.md and syntax/expr_let_test.go show as supported: <=1 rest-or-fallback per array/dict pattern, array fallback last, set patterns = literals + <=1 free name or rest; refusals ('not supported yet') outside it are counted as coverage only",
		"cases the statement leaves open are not judged: rest against an offset/holey array that still has index 0, rest against non-dict members, {1, x} = {1}, colliding literal members of a set pattern, multi-valued dict keys under a rest",
		"values are compared by denotation (core.Denote), never by Go representation; a value whose construction path fails or yields another denotation than intended is skipped (C01/C02 own construction); a live value whose Count() disagrees with its enumerated members is kept and carries the hazard count-inconsistent in every signature",
		"the round trip is computed on denotations with constructor semantics only (no use of the implementation's ++, +> or |), plus a literal re-evaluation of P for patterns that are themselves expressions",
	}
}

// ---------------------------------------------------------------------------------------------
// corpus

type c09Corpus struct {
	core    []*c09Pat
	outside []*c09Pat
}

var (
	c09CorpMu sync.Mutex
	c09Corp   = map[bool]*c09Corpus{}
)

func c09CorpusFor(thorough bool) *c09Corpus {
	c09CorpMu.Lock()
	defer c09CorpMu.Unlock()
	if c, ok := c09Corp[thorough]; ok {
		return c
	}
	var ps []*c09Pat
	ps = append(ps, c09Flat(thorough)...)
	for i, p := range c09Dedupe(c09Nested(thorough)) {
		if !thorough && i%3 == 0 || thorough && i%6 == 0 {
			ps = append(ps, p)
		}
	}
	var in []*c09Pat
	for _, p := range c09Dedupe(ps) {
		if p.inFragment() {
			in = append(in, p)
		}
	}
	c := &c09Corpus{core: in, outside: c09Dedupe(c09Outside())}
	c09Corp[thorough] = c
	return c
}

func c09Random(cfg *core.Config) int { return cfg.Pick(300, 1200) }

// Shards: the thorough tier is cut into four times as many worker processes as run concurrently, so
// that on a heavily loaded machine no single worker comes near the driver's per-process watchdog.
func (c09) Shards(cfg *core.Config) int {
	if cfg.Thorough() {
		return 4 * cfg.Workers
	}
	return cfg.Workers
}

func (c09) NumCases(cfg *core.Config) int {
	c := c09CorpusFor(cfg.Thorough())
	return len(c.core) + len(c.outside) + c09Random(cfg)
}

func c09Clone(p *c09Pat) *c09Pat {
	q := *p
	q.Items = make([]c09Item, len(p.Items))
	for i, it := range p.Items {
		q.Items[i] = it
		if it.P != nil {
			q.Items[i].P = c09Clone(it.P)
		}
	}
	return &q
}

// c09Generalise returns a partner pattern that overlaps with p: the first literal leaf becomes a
// fresh name; failing that, the first name becomes the literal 1.
func c09Generalise(p *c09Pat) *c09Pat {
	q := c09Clone(p)
	var walk func(x *c09Pat, lit bool) bool
	walk = func(x *c09Pat, lit bool) bool {
		for i := range x.Items {
			it := &x.Items[i]
			if it.Rest || it.Short {
				continue
			}
			switch {
			case lit && (it.P.K == 'l' || it.P.K == 'e') && x.K != 's':
				it.P = c09N("g")
				return true
			case !lit && it.P.K == 'n' && !it.FB && x.K != 's':
				it.P = c09L("1", num(1))
				return true
			case it.P.container():
				if walk(it.P, lit) {
					return true
				}
			}
		}
		return false
	}
	if walk(q, true) || walk(q, false) {
		return q
	}
	switch p.K {
	case 'l', 'e':
		return c09N("g")
	case 'n', '_':
		return c09L("1", num(1))
	}
	return nil
}

// ---------------------------------------------------------------------------------------------
// templates and observation

type c09Tmpl struct {
	names  []string
	roles  map[string]string
	body   string
	let    string
	probe  string
	call   string
	reeval string
	err    string // compile failure
}

func c09Body(names []string) string {
	if len(names) == 0 {
		return "()"
	}
	parts := make([]string, len(names))
	for i, n := range names {
		parts[i] = core.AttrName(n) + ": " + n
	}
	return "(" + strings.Join(parts, ", ") + ")"
}

type c09Obs struct {
	K       string // bind | unbound | reject | panic | weird
	B       map[string]MV
	Msg     string
	Site    string
	Refused bool
}

func (o c09Obs) text() string {
	switch o.K {
	case "bind":
		ks := make([]string, 0, len(o.B))
		for k := range o.B {
			ks = append(ks, k)
		}
		sort.Strings(ks)
		parts := []string{}
		for _, k := range ks {
			parts = append(parts, k+"="+core.Src(o.B[k]))
		}
		return "binds {" + strings.Join(parts, ", ") + "}"
	case "unbound":
		return "matches but leaves a name unbound (" + c09Clip(o.Msg) + ")"
	case "reject":
		return "error: " + c09Clip(o.Msg)
	case "panic":
		return "panic: " + c09Clip(o.Msg) + " @ " + o.Site
	}
	return o.K + ": " + c09Clip(o.Msg)
}

func c09Clip(s string) string {
	if i := strings.IndexByte(s, '\n'); i >= 0 {
		s = s[:i]
	}
	if len(s) > 140 {
		s = s[:140]
	}
	return s
}

type c09Disc struct {
	Clause, Mode, Delta, Site string
	Entry                     string   // "" => to be located
	Hazards                   []string // nil => to be located
	Detail                    string
}

type c09Judge struct {
	res     *core.CaseResult
	seen    map[string]bool
	env     []interface{}
	tmpl    map[*c09Pat]*c09Tmpl
	cover   map[string]int
	group   string
	extraHz []string // hazards of the operand as a live value (beyond its denotation)
}

func (j *c09Judge) tag(t string) { j.cover[t]++ }

func (j *c09Judge) binds(v rel.Value) []interface{} {
	return append([]interface{}{"v0", v}, j.env...)
}

func (j *c09Judge) tmplFor(p *c09Pat) *c09Tmpl {
	if t, ok := j.tmpl[p]; ok {
		return t
	}
	t := &c09Tmpl{names: p.names(), roles: map[string]string{}}
	p.roles(t.roles, false)
	t.body = c09Body(t.names)
	ps := p.src()
	t.let = "let " + ps + " = v0; " + t.body
	t.probe = "let " + ps + " = v0; 1"
	t.call = "(\\" + ps + " " + t.body + ")(v0)"
	if p.pure() {
		t.reeval = "let " + ps + " = v0; " + ps
	}
	for _, src := range []string{t.let, t.probe} {
		if _, err := core.Compiled(src); err != nil {
			t.err = err.Error()
			break
		}
	}
	j.tmpl[p] = t
	return t
}

// observe evaluates a binding template; on an error the probe (a body that references no name)
// tells "did not match" from "matched, but a name was left unbound".
func (j *c09Judge) observe(tmpl, probe string, nNames int, v rel.Value) c09Obs {
	j.res.Evals++
	o := core.EvalT(tmpl, j.binds(v)...)
	switch {
	case o.Panic != nil:
		return c09Obs{K: "panic", Msg: o.Panic.Msg, Site: o.Panic.Sig(), Refused: strings.Contains(o.Panic.Msg, "not supported yet")}
	case o.Err != nil:
		msg := core.ErrText(o.Err)
		if nNames > 0 && probe != "" {
			j.res.Evals++
			if o2 := core.EvalT(probe, j.binds(v)...); o2.OK() {
				return c09Obs{K: "unbound", Msg: msg}
			}
		}
		return c09Obs{K: "reject", Msg: msg, Refused: strings.Contains(msg, "not supported yet")}
	}
	d, pi := core.SafeDenote(o.Val)
	if pi != nil {
		return c09Obs{K: "panic", Msg: "denote: " + pi.Msg, Site: pi.Sig()}
	}
	if d.K != 't' {
		return c09Obs{K: "weird", Msg: "body did not yield a tuple: " + core.Src(d)}
	}
	return c09Obs{K: "bind", B: d.T}
}

// c09Compare judges one observation against the reference verdict.
func c09Compare(p *c09Pat, t *c09Tmpl, want c09Res, obs c09Obs) *c09Disc {
	if obs.K == "panic" {
		// entry / hazards / delta are filled in by emit: the culprit is the innermost sub-pattern that
		// still panics on its own sub-value (the panic site says where, not the reference's culprit)
		d := &c09Disc{Clause: "C09.rejects", Mode: "panic", Site: obs.Site}
		if want.V == c09Yes {
			d.Clause = "C09.accepts"
		}
		return d
	}
	if obs.K == "weird" {
		return &c09Disc{Clause: "C09.binds", Mode: "weird-result"}
	}
	switch want.V {
	case c09Yes:
		switch obs.K {
		case "bind":
			var bad []string
			for _, n := range t.names {
				if got, ok := obs.B[n]; !ok || got.Enc != want.B[n].Enc {
					bad = append(bad, t.roles[n])
				}
			}
			if len(bad) == 0 {
				return nil
			}
			sort.Strings(bad)
			return &c09Disc{Clause: "C09.binds", Mode: "wrong-binding", Delta: strings.Join(c09Uniq(bad), "+")}
		case "unbound":
			return &c09Disc{Clause: "C09.binds", Mode: "unbound-name"}
		case "reject":
			if obs.Refused {
				return &c09Disc{Clause: "C09.accepts", Mode: "refused-in-fragment"}
			}
			return &c09Disc{Clause: "C09.accepts", Mode: "error-for-match"}
		}
	case c09No:
		switch obs.K {
		case "bind":
			return &c09Disc{Clause: "C09.rejects", Mode: "binds-nonmatching", Delta: want.Why, Entry: want.Kind, Hazards: core.HazardList(want.At)}
		case "unbound":
			return &c09Disc{Clause: "C09.rejects", Mode: "matches-nonmatching-unbound", Delta: want.Why, Entry: want.Kind, Hazards: core.HazardList(want.At)}
		}
	}
	return nil
}

func c09Uniq(xs []string) []string {
	var out []string
	for i, x := range xs {
		if i == 0 || x != xs[i-1] {
			out = append(out, x)
		}
	}
	return out
}

func c09WantText(w c09Res) string {
	switch w.V {
	case c09Yes:
		return "match " + c09Obs{K: "bind", B: w.B}.text()
	case c09No:
		return "no match (" + w.Why + " at " + w.Kind + " pattern vs " + c09Clip(core.Src(w.At)) + ")"
	}
	return "open (" + w.Why + ")"
}

// badAlone: does the sub-pattern on its own, against a freshly built copy of the sub-value, still
// disagree with the reference? Used only to locate the culprit node of a discrepancy.
func (j *c09Judge) badAlone(p *c09Pat, v MV) bool {
	want := c09Match(p, v)
	if want.V == c09Open {
		return false
	}
	t := j.tmplFor(p)
	if t.err != "" {
		return true
	}
	srcs := []string{core.Src(v)}
	if s, ok := sugarSrc(v); ok && s != srcs[0] {
		srcs = append(srcs, s)
	}
	for _, s := range srcs {
		val, err := lit(s)
		if err != nil {
			continue
		}
		if d := c09Compare(p, t, want, j.observe(t.let, t.probe, len(t.names), val)); d != nil {
			return true
		}
	}
	return false
}

func (j *c09Judge) locate(p *c09Pat, v MV, depth int, panics bool) (*c09Pat, MV) {
	pairs, _, res := c09Split(p, v)
	if res != nil || depth > 4 {
		return p, v
	}
	for _, pr := range pairs {
		if !pr.P.container() {
			continue
		}
		if panics && j.panicsAlone(pr.P, pr.V) || !panics && j.badAlone(pr.P, pr.V) {
			return j.locate(pr.P, pr.V, depth+1, panics)
		}
	}
	return p, v
}

// panicsAlone: does the sub-pattern alone panic on a freshly built copy of the sub-value?
func (j *c09Judge) panicsAlone(p *c09Pat, v MV) bool {
	t := j.tmplFor(p)
	if t.err != "" {
		return false
	}
	for _, op := range c09Operands(v, 1, 0) {
		if op.OK && j.observe(t.let, t.probe, len(t.names), op.Val).K == "panic" {
			return true
		}
	}
	return false
}

func (j *c09Judge) emit(d *c09Disc, p *c09Pat, v MV, replay map[string]string) {
	if d.Entry == "" {
		isPanic := strings.HasPrefix(d.Mode, "panic")
		cp, cv := j.locate(p, v, 0, isPanic)
		d.Entry = cp.kind()
		if d.Hazards == nil {
			d.Hazards = core.HazardList(cv)
		}
		if isPanic && d.Delta == "" {
			if w := c09Match(cp, cv); w.V != c09Yes {
				d.Delta = w.Why
			}
		}
	}
	if d.Hazards == nil {
		d.Hazards = core.HazardList(v)
	}
	if len(j.extraHz) > 0 {
		d.Hazards = append(append([]string{}, d.Hazards...), j.extraHz...)
		sort.Strings(d.Hazards)
	}
	sig := core.Signature{Clause: d.Clause, Entry: d.Entry, Mode: d.Mode, Site: d.Site, Hazards: d.Hazards, Delta: d.Delta}
	k := sig.String()
	if j.seen[k] {
		return
	}
	j.seen[k] = true
	j.res.Viols = append(j.res.Viols, core.Violation{Sig: sig, Detail: d.Detail, Replay: replay})
}

// single judges pattern p against one live operand in the let and call forms (+ round trip).
// It returns the reference verdict and whether any discrepancy was found.
func (j *c09Judge) single(p *c09Pat, op Operand, letOnly bool) (c09Res, bool) {
	v := op.Got
	want := c09Match(p, v)
	t := j.tmplFor(p)
	if t.err != "" {
		return want, true
	}
	j.tag("model:" + [...]string{"yes", "no", "open"}[want.V])
	if want.V == c09No {
		j.tag("why:" + want.Why)
	}
	if want.V == c09Open {
		j.tag("open:" + want.Why)
	}
	obsL := j.observe(t.let, t.probe, len(t.names), op.Val)
	j.tag("form:let")
	j.tag("obs:" + obsL.K)
	obsC := obsL
	if !letOnly {
		if _, err := core.Compiled(t.call); err != nil {
			j.emit(&c09Disc{Clause: "C09.accepts", Mode: "compile-error/call-only", Entry: p.kind(), Hazards: []string{}, Detail: t.call + ": " + err.Error()}, p, v, nil)
			return want, true
		}
		obsC = j.observe(t.call, "", 0, op.Val)
		if obsC.K == "reject" && obsL.K == "unbound" {
			obsC.K = "unbound" // same match, same unbound name: the call form has no separate probe
		}
		j.tag("form:call")
	}
	dL, dC := c09Compare(p, t, want, obsL), c09Compare(p, t, want, obsC)
	replay := map[string]string{"pattern": p.src(), "value": op.Path.Src, "path": op.Path.Kind, "value_denotation": core.Src(v)}
	detail := func(form string, obs c09Obs) string {
		return fmt.Sprintf("%s form: pattern %s against %s [%s; denotes %s]: reference says %s; observed %s", form, p.src(),
			c09Clip(op.Path.Src), op.Path.Kind, c09Clip(core.Src(v)), c09WantText(want), obs.text())
	}
	found := false
	same := dL != nil && dC != nil && dL.Clause == dC.Clause && dL.Mode == dC.Mode && dL.Delta == dC.Delta && dL.Site == dC.Site
	switch {
	case same:
		dL.Detail = detail("let+call", obsL)
		j.emit(dL, p, v, replay)
		found = true
	default:
		if dL != nil {
			dL.Mode += "/let-only"
			dL.Detail = detail("let", obsL) + "; call form: " + obsC.text()
			j.emit(dL, p, v, replay)
			found = true
		}
		if dC != nil {
			dC.Mode += "/call-only"
			dC.Detail = detail("call", obsC) + "; let form: " + obsL.text()
			j.emit(dC, p, v, replay)
			found = true
		}
	}
	if found || obsL.K != "bind" {
		return want, found
	}
	// round trip on the implementation's own bindings
	if !p.anon() {
		j.tag("rebuild:checked")
		switch c09Holds(p, obsL.B, v) {
		case c09No:
			mode := "rebuild-differs"
			if want.V == c09Yes {
				mode = "oracle-self-check" // binds agreed with the matcher yet the round trip fails: harness bug
			}
			rd := &c09Disc{Clause: "C09.rebuild", Mode: mode, Delta: "model-" + [...]string{"yes", "no", "open"}[want.V]}
			if want.V == c09Open {
				rd.Entry, rd.Hazards, rd.Delta = want.Kind, core.HazardList(want.At), "model-open:"+want.Why
			}
			rd.Detail = detail("let", obsL) + "; substituting these bindings into the pattern does not rebuild the value"
			j.emit(rd, p, v, replay)
			found = true
		case c09Open:
			j.tag("rebuild:open")
		}
	}
	if t.reeval != "" && !found {
		j.res.Evals++
		o := core.EvalT(t.reeval, j.binds(op.Val)...)
		if o.OK() {
			if d, pi := core.SafeDenote(o.Val); pi == nil {
				j.tag("reeval:checked")
				if d.Enc != v.Enc {
					j.emit(&c09Disc{Clause: "C09.rebuild", Mode: "reeval-differs",
						Detail: detail("let", obsL) + fmt.Sprintf("; evaluating the pattern as an expression under these bindings gives %s", c09Clip(core.Src(d)))}, p, v, replay)
					found = true
				}
			}
		} else {
			j.tag("reeval:unavailable")
		}
	}
	return want, found
}

// cond judges `cond v0 {first: .., second: .., _: ..}`.
func (j *c09Judge) cond(first, second *c09Pat, wf, ws c09Res, op Operand) {
	tf, ts := j.tmplFor(first), j.tmplFor(second)
	tmpl := "cond v0 {" + first.src() + ": (arm: 1, b: " + tf.body + "), " + second.src() + ": (arm: 2, b: " + ts.body + "), _: (arm: 0, b: ())}"
	if _, err := core.Compiled(tmpl); err != nil {
		j.emit(&c09Disc{Clause: "C09.first-arm", Mode: "compile-error", Entry: "cond", Detail: tmpl + ": " + err.Error()}, first, op.Got, map[string]string{"template": tmpl})
		return
	}
	arm := -1
	var wb map[string]MV
	var roles map[string]string
	var names []string
	switch {
	case wf.V == c09Open:
	case wf.V == c09Yes:
		arm, wb, roles, names = 1, wf.B, tf.roles, tf.names
	case ws.V == c09Open:
	case ws.V == c09Yes:
		arm, wb, roles, names = 2, ws.B, ts.roles, ts.names
	default:
		arm = 0
	}
	if arm < 0 {
		j.tag("cond:open")
		return
	}
	j.res.Evals++
	j.tag("form:cond")
	o := core.EvalT(tmpl, j.binds(op.Val)...)
	replay := map[string]string{"template": tmpl, "value": op.Path.Src, "path": op.Path.Kind}
	detail := func(obs string) string {
		return fmt.Sprintf("%s with v0 = %s [%s; denotes %s]: reference says arm %d; observed %s", tmpl, c09Clip(op.Path.Src), op.Path.Kind,
			c09Clip(core.Src(op.Got)), arm, obs)
	}
	want := fmt.Sprintf("want-arm%d", arm)
	hz := core.HazardList(op.Got)
	switch {
	case o.Panic != nil:
		j.emit(&c09Disc{Clause: "C09.first-arm", Mode: "panic", Site: o.Panic.Sig(), Entry: "cond", Hazards: hz, Delta: want, Detail: detail("panic " + o.Panic.Msg)}, first, op.Got, replay)
		return
	case o.Err != nil:
		j.emit(&c09Disc{Clause: "C09.first-arm", Mode: "error-for-arm", Entry: "cond", Hazards: hz, Delta: want, Detail: detail("error " + c09Clip(core.ErrText(o.Err)))}, first, op.Got, replay)
		return
	}
	d, pi := core.SafeDenote(o.Val)
	if pi != nil || d.K != 't' || d.T["arm"].K != 'n' || d.T["b"].K != 't' {
		j.emit(&c09Disc{Clause: "C09.first-arm", Mode: "weird-result", Entry: "cond", Hazards: hz, Delta: want, Detail: detail(outcomeText(o))}, first, op.Got, replay)
		return
	}
	got := int(d.T["arm"].N)
	j.tag(fmt.Sprintf("arm:%d", got))
	if got != arm {
		j.emit(&c09Disc{Clause: "C09.first-arm", Mode: "wrong-arm", Entry: "cond", Hazards: hz, Delta: fmt.Sprintf("%s-got-arm%d", want, got),
			Detail: detail(fmt.Sprintf("arm %d with %s", got, core.Src(d.T["b"])))}, first, op.Got, replay)
		return
	}
	var bad []string
	for _, n := range names {
		if x, ok := d.T["b"].T[n]; !ok || x.Enc != wb[n].Enc {
			bad = append(bad, roles[n])
		}
	}
	if len(bad) > 0 {
		sort.Strings(bad)
		j.emit(&c09Disc{Clause: "C09.first-arm", Mode: "wrong-binding", Entry: "cond", Hazards: hz, Delta: strings.Join(c09Uniq(bad), "+"),
			Detail: detail(fmt.Sprintf("arm %d with %s, want %s", got, core.Src(d.T["b"]), c09Obs{K: "bind", B: wb}.text()))}, first, op.Got, replay)
	}
}

// bodyError: the first matching arm is TAKEN: an error raised by its body must surface, not fall
// through to a later arm.
func (j *c09Judge) bodyError(p *c09Pat, op Operand) {
	tmpl := "cond v0 {" + p.src() + ": (a: 1).zz, _: 0}"
	if _, err := core.Compiled(tmpl); err != nil {
		return
	}
	j.res.Evals++
	o := core.EvalT(tmpl, j.binds(op.Val)...)
	j.tag("body-error:checked")
	if o.Err != nil {
		return
	}
	mode, site := "fallthrough-on-body-error", ""
	if o.Panic != nil {
		mode, site = "panic", o.Panic.Sig()
	}
	j.emit(&c09Disc{Clause: "C09.first-arm", Mode: mode, Site: site, Entry: "cond", Hazards: core.HazardList(op.Got), Delta: "want-error",
		Detail: fmt.Sprintf("%s with v0 = %s: the first arm matches and its body fails; observed %s", tmpl, c09Clip(op.Path.Src), outcomeText(o))},
		p, op.Got, map[string]string{"template": tmpl, "value": op.Path.Src})
}

// c09Consistent cross-examines a live value: every set's Count() equals the number of members its
// enumerator yields (recursively). Failing values are still used, with the hazard count-inconsistent.
func c09Consistent(v rel.Value) (ok bool) {
	defer func() {
		if r := recover(); r != nil {
			ok = false
		}
	}()
	switch x := v.(type) {
	case rel.Tuple:
		for e := x.Enumerator(); e.MoveNext(); {
			if _, a := e.Current(); !c09Consistent(a) {
				return false
			}
		}
	case rel.Set:
		if core.IsFn(v) {
			return true
		}
		n := 0
		for e := x.Enumerator(); e.MoveNext(); {
			n++
			if !c09Consistent(e.Current()) {
				return false
			}
		}
		return n == x.Count()
	}
	return true
}

// ---------------------------------------------------------------------------------------------

func (c09) RunCase(cfg *core.Config, i int) (res core.CaseResult) {
	corp := c09CorpusFor(cfg.Thorough())
	j := &c09Judge{res: &res, seen: map[string]bool{}, tmpl: map[*c09Pat]*c09Tmpl{}, cover: map[string]int{}}
	defer func() {
		for t, n := range j.cover {
			for k := 0; k < n; k++ {
				res.Cover = append(res.Cover, t)
			}
		}
		if res.Evals == 0 {
			res.Evals = 1
		}
	}()
	kv, err1 := lit("2")
	k2v, err2 := lit("[1, 2]")
	if err1 != nil || err2 != nil {
		res.Inconclusive = "cannot build the outer scope values"
		return res
	}
	j.env = []interface{}{"k", kv, "k2", k2v}

	var p, q *c09Pat
	var r *core.Rng
	switch {
	case i < len(corp.core):
		j.group = "core"
		p = corp.core[i]
		q = c09Generalise(p)
		if q == nil || q.src() == p.src() || !q.inFragment() {
			q = corp.core[(i*7+3)%len(corp.core)]
		}
	case i < len(corp.core)+len(corp.outside):
		j.group = "outside"
		p = corp.outside[i-len(corp.core)]
	default:
		j.group = "random"
		r = core.NewRng(cfg.Seed, 9, uint64(i))
		for tries := 0; tries < 20; tries++ {
			p = c09RandPat(r, 3)
			if p.inFragment() && (p.container() || tries > 10) {
				break
			}
		}
		if !p.inFragment() {
			p = c09Arr(c09I(c09N("a")), c09R("r"))
		}
		if r.Chance(1, 2) {
			q = c09Generalise(p)
		}
		if q == nil || !q.inFragment() {
			q = c09RandPat(r, 2)
			if !q.inFragment() {
				q = c09N("g")
			}
		}
	}
	res.Key = "pat:" + p.src()
	res.NonTrivial = p.container() || len(p.names()) > 0
	j.tag("group:" + j.group)
	j.tag("kind:" + p.kind())
	j.tag(fmt.Sprintf("depth:%d", p.depth()))

	// ---- outside the judged fragment: coverage only ----
	if j.group == "outside" {
		res.NonTrivial = false
		t := j.tmplFor(p)
		if t.err != "" {
			j.tag("outside:compile-refused")
			res.Sample = fmt.Sprintf("outside fragment: %s does not compile: %s", p.src(), c09Clip(t.err))
			return res
		}
		for _, m := range c09ValuesFor([]*c09Pat{p}, nil, 10) {
			ops := c09Operands(m, 1, 0)
			if len(ops) == 0 || !ops[0].OK {
				continue
			}
			op := ops[0]
			obs := j.observe(t.let, t.probe, len(t.names), op.Val)
			switch {
			case obs.Refused:
				j.tag("refused")
			default:
				j.tag("outside:" + obs.K)
			}
		}
		res.Sample = fmt.Sprintf("outside fragment (not judged): let %s = v; refusals counted", p.src())
		return res
	}

	// ---- in fragment ----
	tp := j.tmplFor(p)
	if tp.err != "" {
		j.emit(&c09Disc{Clause: "C09.accepts", Mode: "compile-error", Entry: p.kind(), Hazards: []string{},
			Detail: fmt.Sprintf("pattern %s (inside the supported fragment) does not compile: %s", p.src(), c09Clip(tp.err))}, p, mset(),
			map[string]string{"pattern": p.src()})
		return res
	}
	if q != nil {
		if tq := j.tmplFor(q); tq.err != "" {
			q = nil
		}
	}
	pats := []*c09Pat{p}
	if q != nil {
		pats = append(pats, q)
	}
	maxVals := cfg.Pick(30, 50)
	vals := c09ValuesFor(pats, r, maxVals)
	bodyErrs := 0
	nYes, nNo := 0, 0
	for vi, m := range vals {
		h := core.Hash64(p.src()) + uint64(vi)*0x9E3779B97F4A7C15
		if r != nil {
			h += cfg.Seed
		}
		textPaths := 0
		if cfg.Thorough() && vi%2 == 0 || vi%5 == 2 {
			textPaths = 1
		}
		for _, op := range c09Operands(m, h, textPaths) {
			if !op.OK {
				j.tag("value:build-failed")
				continue
			}
			if op.Got.Enc != m.Enc {
				// the construction path did not produce the intended value: that is a C01/C02 matter, and
				// such values tend to be internally inconsistent (Count vs members); not used here
				j.tag("value:path-altered")
				continue
			}
			j.extraHz = nil
			if !c09Consistent(op.Val) {
				// Count() disagrees with the enumerated members (C01 root causes: Dict.Count ignores
				// multi-valued keys, strings with holes): kept, but flagged in every signature
				j.tag("value:count-inconsistent")
				j.extraHz = []string{"count-inconsistent"}
			}
			j.tag("path:" + op.Path.Kind)
			for _, hz := range core.HazardList(op.Got) {
				j.tag("hazard:" + hz)
			}
			wp, badP := j.single(p, op, false)
			switch wp.V {
			case c09Yes:
				nYes++
			case c09No:
				nNo++
			}
			if wp.V != c09Open {
				res.SubKeys = append(res.SubKeys, "pv:"+p.src()+"|"+op.Got.Enc)
			}
			if wp.V == c09Yes && !badP && bodyErrs < 2 {
				bodyErrs++
				j.bodyError(p, op)
			}
			if q == nil {
				continue
			}
			wq, badQ := j.single(q, op, true)
			if wq.V != c09Open {
				res.SubKeys = append(res.SubKeys, "pv:"+q.src()+"|"+op.Got.Enc)
			}
			if badP || badQ {
				j.tag("cond:skipped-after-discrepancy")
				continue
			}
			j.cond(p, q, wp, wq, op)
			j.cond(q, p, wq, wp, op)
		}
	}
	if !res.NonTrivial {
		res.SubKeys = nil
	}
	if i%53 == 7 || j.group == "random" && i%211 == 0 {
		qs := "-"
		if q != nil {
			qs = q.src()
		}
		res.Sample = fmt.Sprintf("[%s] let %s = v; %s  (+ call, cond with partner %s) x %d values (reference: %d match, %d no-match), e.g. v = %s", j.group,
			p.src(), tp.body, qs, len(vals), nYes, nNo, c09Clip(core.Src(vals[0])))
	}
	return res
}

func (c09) Finish(cfg *core.Config, agg *core.Aggregate) {
	corp := c09CorpusFor(cfg.Thorough())
	agg.Extra["core_patterns"] = len(corp.core)
	agg.Extra["outside_fragment_patterns"] = len(corp.outside)
	agg.Extra["random_patterns"] = c09Random(cfg)
	sum := func(prefix string) (n int, kinds []string) {
		for k, c := range agg.Cover {
			if strings.HasPrefix(k, prefix) {
				n += c
				kinds = append(kinds, k[len(prefix):])
			}
		}
		sort.Strings(kinds)
		return
	}
	_, paths := sum("path:")
	_, whys := sum("why:")
	_, kinds := sum("kind:")
	agg.Extra["construction_paths_seen"] = paths
	agg.Extra["no_match_reasons_seen"] = whys
	agg.Extra["pattern_kinds_seen"] = kinds
	agg.Extra["judged_match"] = agg.Cover["model:yes"]
	agg.Extra["judged_no_match"] = agg.Cover["model:no"]
	agg.Extra["not_judged_open"] = agg.Cover["model:open"]
	agg.Extra["refused_outside_fragment"] = agg.Cover["refused"]
	agg.Extra["round_trips_checked"] = agg.Cover["rebuild:checked"] + agg.Cover["reeval:checked"]
	floor := func(tag string, min int) {
		if agg.Cover[tag] < min {
			agg.Fail("coverage floor: %s observed %d times, need >= %d", tag, agg.Cover[tag], min)
		}
	}
	floor("model:yes", 20000)
	floor("model:no", 100000)
	floor("form:let", 150000)
	floor("form:call", 80000)
	floor("form:cond", 100000)
	floor("obs:bind", 20000)
	floor("obs:reject", 100000)
	floor("rebuild:checked", 12000)
	floor("reeval:checked", 3000)
	floor("arm:0", 50000)
	floor("arm:1", 15000)
	floor("arm:2", 8000)
	floor("body-error:checked", 1500)
	floor("refused", 50)
	floor("hazard:seq-offset(item)", 4000)
	floor("hazard:seq-holes(item)", 4000)
	floor("path:tmpl-sugar", 20000)
	floor("path:tmpl-alt", 20000)
	floor("group:random", 100)
	for _, k := range []string{"arr", "arr+rest", "arr+fb", "tup", "tup+rest", "tup+fb", "dict", "dict+rest", "dict+fb", "set", "set+rest", "set+name"} {
		floor("kind:"+k, 8)
	}
	for _, w := range []string{"differs", "shorter", "longer", "offset", "holes", "not-array", "not-a-set", "not-a-tuple", "missing-attr", "extra-attrs",
		"missing-key", "leftover", "missing-member", "extra-members", "count", "repeat-disagree"} {
		floor("why:"+w, 5)
	}
	if len(paths) < 6 {
		agg.Fail("coverage floor: only %d construction path kinds observed", len(paths))
	}
}
