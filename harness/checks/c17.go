package checks

import (
	"context"
	"fmt"
	"os"
	"path/filepath"
	"regexp"
	"runtime"
	"sort"
	"strings"
	"sync"
	"sync/atomic"
	"syscall"
	"time"

	"verif/core"

	"github.com/arr-ai/arrai/engine"
	"github.com/arr-ai/arrai/rel"
	"github.com/sirupsen/logrus"
)

// C17: the server engine applies updates atomically, in order, and never wedges.
//
// A case is one short history: 1-6 client goroutines issue update / observe / cancel / hang-up
// operations against a fresh engine (engine layer: engine.Start/Update/Observe/Hangup in process;
// system layer, c17_sys.go: a real `arrai serve` process with `arrai update` / `arrai observe`
// client processes). The worker only *records* (call/return of every client operation and every
// observer callback, stamped by one logical counter); c17Judge is a pure function over the recorded
// history. Updates append blocks of unique ids to an array state, so the final state spells out the
// total order in which the engine applied them.

type c17 struct{}

func init() { core.Register(c17{}) }

func (c17) ID() string    { return "C17" }
func (c17) Level() string { return "exploration" }
func (c17) Rule() string {
	return "core (seed-independent, each plan repeated with different client perturbations): scripted scenarios = every way an observer ends (expression fails at once / later / until / panics, onupdate returns error, cancel x1 x2 x3, cancel after failure, hang-up, hang-up then cancel, hang-up twice) x 1-3 concurrent clients, plus update-only races of 2-6 clients; random slice from VERIF_SEED: engine layer (in-process engine.Start/Update/Observe/cancel/Hangup): 2-6 client goroutines, 10-40 operations drawn from {update appending 1-2 unique ids, failing update, observe (10 expression flavours, optional onupdate error at the d-th delivery), cancel (own observer, may repeat), hang-up}, seeded Gosched/sleep between client operations; system layers against a real `arrai serve` process built from the working tree: grpc (worker-side gRPC clients, one connection per operation, observers disconnected by TCP reset), ws (websocket observers incl. replacing the observation on a connection, updates over gRPC), system (`arrai update`/`arrai observe` CLI processes, observers SIGKILLed). One oracle (c17Judge) for all layers. A history is non-trivial when >=2 operations of different clients overlapped in logical time or an observer ended abnormally; distinct by (plan, acknowledged order)."
}
func (c17) Assumptions() []string {
	return []string{
		"the statement obliges deliveries only for states installed after the subscription: an initial delivery of the current state is accepted (and then must be a state current between Observe's call and return) but not required",
		"what a no-longer-live observer (failed, cancelled, hung up) is sent afterwards, and how often onclose is called, is left open by the statement: recorded as evidence, not judged",
		"engine layer: an update acknowledged before cancel/hang-up was *called* must have been delivered to the observer; one acknowledged later need not. Wire layers: values sent to a client that is then killed / disconnected / replaced may be lost in flight, so for such an observer only the consecutiveness of what it did receive is judged",
		"wire layers: the state is a string of comma-terminated ids because rel/json.go turns arrays into sets on the wire (order lost); expected values are rendered through the same rel.MarshalToJSON / UnmarshalFromJSON functions the frontends use",
		"a system-layer hang verdict needs: an operation pending, every pending client parked, every thread of the server asleep in 24 samples over 6 s with < 50 ms CPU, and the server's SIGQUIT dump showing a goroutine stuck inside the engine (otherwise inconclusive)",
		"observer callbacks are invoked by the engine before it serves the next request (a failing barrier update marks quiescence); on an observer-sequence alarm the history is re-read after a grace period before it is reported",
		"Stop is used for teardown only and is not judged; a wedged engine is leaked, never waited for",
		"data races printed by the race detector while histories run are counted in evidence (C11 owns them), they do not decide C17",
	}
}

// ---------------------------------------------------------------------------------------------
// plan

type c17Op struct {
	Kind   string `json:"k"`              // upd | updfail | obs | cancel | hangup | kill
	IDs    []int  `json:"ids,omitempty"`  // upd/updfail: ids the expression appends
	Src    string `json:"src,omitempty"`  // expression source (update or observed expression)
	Obs    int    `json:"obs"`            // obs: index of the new observer; cancel/kill: target
	Tmpl   string `json:"tmpl,omitempty"` // upd/updfail: Src with the id list abstracted as `ids` (compiled once)
	FailAt int    `json:"failAt,omitempty"`
	Flavor string `json:"fl,omitempty"`
	Pre    int    `json:"pre,omitempty"` // 0 none, 1 Gosched, n>=2: sleep (n-1) microseconds
	Via    string `json:"via,omitempty"` // "ws": the observer is a websocket connection (ws layer)
	Conn   int    `json:"conn,omitempty"`
	Old    int    `json:"old,omitempty"` // resub: the observation being replaced on the same connection
}

type c17Plan struct {
	Layer   string    `json:"layer"` // engine | system
	Clients [][]c17Op `json:"clients"`
	NObs    int       `json:"nobs"`
	NConn   int       `json:"nconn,omitempty"`
	Name    string    `json:"name"`
}

func (p *c17Plan) key() string {
	var sb strings.Builder
	sb.WriteString(p.Layer)
	for _, cl := range p.Clients {
		sb.WriteByte('|')
		for _, o := range cl {
			fmt.Fprintf(&sb, "%s:%s:%d:%d;", o.Kind, o.Src, o.Obs, o.FailAt)
		}
	}
	return sb.String()
}

func c17IDList(ids []int) string {
	ss := make([]string, len(ids))
	for i, id := range ids {
		ss[i] = fmt.Sprint(id)
	}
	return strings.Join(ss, ", ")
}

func c17Upd(ids ...int) c17Op {
	return c17Op{Kind: "upd", IDs: ids, Src: "$ ++ [" + c17IDList(ids) + "]", Tmpl: "$ ++ ids", Obs: -1}
}

const c17PanicSrc = "[$ count] | [1000]" // superimposed array items: the evaluator panics

// a failing update would append its ids if it did not fail: they must never show up.
func c17UpdFail(flavor int, ids ...int) c17Op {
	src, tmpl, fl := "", "", ""
	switch flavor % 4 {
	case 0:
		src, tmpl = "$ ++ ["+c17IDList(ids)+"] ++ [(a: 1).b]", "$ ++ ids ++ [(a: 1).b]"
	case 1:
		src, tmpl = "($ ++ ["+c17IDList(ids)+"]) ++ 1", "($ ++ ids) ++ 1"
	case 2:
		src, tmpl = "$ ++ ["+c17IDList(ids)+"] ++ [$(1000)]", "$ ++ ids ++ [$(1000)]"
	default: // the evaluator panics (superimposed array items); were it to yield a value, this is `$ ++ ids`
		src = "cond {(" + c17PanicSrc + ") = 0: $ ++ [" + c17IDList(ids) + "], _: $ ++ [" + c17IDList(ids) + "]}"
		tmpl, fl = "cond {("+c17PanicSrc+") = 0: $ ++ ids, _: $ ++ ids}", "panic"
	}
	return c17Op{Kind: "updfail", IDs: ids, Src: src, Tmpl: tmpl, Flavor: fl, Obs: -1}
}

// observer expression flavours: name -> source (k = threshold for the fail-later flavour)
func c17ObsSrc(flavor string, k int) string {
	switch flavor {
	case "identity":
		return "$"
	case "count":
		return "$ count"
	case "pair":
		return "[$ count, $]"
	case "evens":
		return "$ where .@item % 2 = 0"
	case "const":
		return "42"
	case "double":
		return "$ >> . * 2"
	case "fail-now":
		return "(a: 1).b"
	case "fail-later": // value while count < k, error from count >= k on
		xs := make([]string, k)
		for i := range xs {
			xs[i] = fmt.Sprint(i)
		}
		return "[" + strings.Join(xs, ", ") + "]($ count)"
	case "fail-until": // error while count < k, then the k-th element
		return "$(" + fmt.Sprint(k-1) + ")"
	case "panic":
		return c17PanicSrc
	}
	panic("c17: unknown flavour " + flavor)
}

// c17Bound is a compiled template evaluated with one extra name bound: `$ ++ ids` with ids = [5, 6]
// is the expression `$ ++ [5, 6]` without paying a compilation per id list.
type c17Bound struct {
	rel.Expr
	name string
	val  rel.Value
}

func (b c17Bound) Eval(ctx context.Context, local rel.Scope) (rel.Value, error) {
	return b.Expr.Eval(ctx, local.With(b.name, b.val))
}

// c17Expr returns the expression of an operation.
func c17Expr(o c17Op) (rel.Expr, error) {
	if o.Tmpl == "" {
		return core.Compiled(o.Src)
	}
	t, err := core.Compiled(o.Tmpl)
	if err != nil {
		return nil, err
	}
	vals := make([]rel.Value, len(o.IDs))
	for i, id := range o.IDs {
		vals[i] = rel.NewNumber(float64(id))
	}
	return c17Bound{Expr: t, name: "ids", val: rel.NewArray(vals...)}, nil
}

// c17Barrier is the last successful update of every history (sentinel id 0), issued by the harness.
func c17Barrier(layer string) c17Op {
	if layer == "engine" {
		return c17Upd(0)
	}
	return c17SysUpd(0)
}

func c17Obs(idx int, flavor string, k, failAt int) c17Op {
	return c17Op{Kind: "obs", Obs: idx, Src: c17ObsSrc(flavor, k), Flavor: flavor, FailAt: failAt}
}

// --- core corpus: scripted scenarios ---

var c17Endings = []string{"fail-now", "fail-later1", "fail-later2", "fail-until2", "panic", "onupdate-err1", "onupdate-err2",
	"cancel1", "cancel2", "cancel3", "fail-then-cancel", "onupdate-err-then-cancel", "hangup", "hangup-then-cancel", "hangup-twice", "none"}

// c17Scenario: client 0 subscribes a witness on `$` and a victim observer, updates, ends the
// victim in the given way, and keeps updating/observing; 0-2 further clients race with it.
func c17Scenario(ending string, extraClients int) c17Plan {
	p := c17Plan{Layer: "engine", Name: fmt.Sprintf("core:%s+%d", ending, extraClients)}
	nobs := 0
	newObs := func(flavor string, k, failAt int) c17Op {
		o := c17Obs(nobs, flavor, k, failAt)
		nobs++
		return o
	}
	var a []c17Op
	a = append(a, newObs("identity", 0, 0)) // witness 0
	victim := nobs
	var end []c17Op
	switch ending {
	case "fail-now":
		a = append(a, newObs("fail-now", 0, 0))
	case "fail-later1":
		a = append(a, newObs("fail-later", 1, 0))
	case "fail-later2":
		a = append(a, newObs("fail-later", 2, 0))
	case "fail-until2":
		a = append(a, newObs("fail-until", 2, 0))
	case "panic":
		a = append(a, newObs("panic", 0, 0))
	case "onupdate-err1":
		a = append(a, newObs("identity", 0, 1))
	case "onupdate-err2":
		a = append(a, newObs("count", 0, 2))
	case "cancel1", "cancel2", "cancel3":
		a = append(a, newObs("pair", 0, 0))
		for n := 0; n < int(ending[6]-'0'); n++ {
			end = append(end, c17Op{Kind: "cancel", Obs: victim})
		}
	case "fail-then-cancel":
		a = append(a, newObs("fail-later", 1, 0))
		end = append(end, c17Op{Kind: "cancel", Obs: victim}, c17Op{Kind: "cancel", Obs: victim})
	case "onupdate-err-then-cancel":
		a = append(a, newObs("identity", 0, 2))
		end = append(end, c17Op{Kind: "cancel", Obs: victim})
	case "hangup":
		a = append(a, newObs("count", 0, 0))
		end = append(end, c17Op{Kind: "hangup", Obs: -1})
	case "hangup-then-cancel":
		a = append(a, newObs("count", 0, 0))
		end = append(end, c17Op{Kind: "hangup", Obs: -1}, c17Op{Kind: "cancel", Obs: victim}, c17Op{Kind: "cancel", Obs: 0})
	case "hangup-twice":
		a = append(a, newObs("identity", 0, 0))
		end = append(end, c17Op{Kind: "hangup", Obs: -1}, c17Op{Kind: "hangup", Obs: -1})
	case "none":
		a = append(a, newObs("evens", 0, 0))
	}
	a = append(a, c17Upd(1), c17Upd(2, 3), c17UpdFail(0, 4))
	a = append(a, end...)
	a = append(a, c17Upd(5), newObs("identity", 0, 0), c17UpdFail(1, 6), c17Upd(7), newObs("count", 0, 0), c17UpdFail(3, 10), c17Upd(8, 9))
	p.Clients = append(p.Clients, a)
	id := 20
	for c := 0; c < extraClients; c++ {
		var b []c17Op
		b = append(b, c17Upd(id), newObs("identity", 0, 0), c17Upd(id+1), c17UpdFail(2, id+2), newObs("double", 0, 0),
			c17Upd(id+3, id+4), c17Op{Kind: "cancel", Obs: nobs - 1}, c17Upd(id+5))
		id += 10
		p.Clients = append(p.Clients, b)
	}
	p.NObs = nobs
	return p
}

// update-only races: n clients x m updates each, one witness.
func c17RacePlan(n, m int) c17Plan {
	p := c17Plan{Layer: "engine", Name: fmt.Sprintf("core:race%dx%d", n, m)}
	id := 1
	for c := 0; c < n; c++ {
		var ops []c17Op
		if c == 0 {
			ops = append(ops, c17Obs(0, "identity", 0, 0))
		}
		for k := 0; k < m; k++ {
			if k%4 == 3 {
				ops = append(ops, c17UpdFail(k, id))
			} else {
				ops = append(ops, c17Upd(id))
			}
			id++
		}
		p.Clients = append(p.Clients, ops)
	}
	p.NObs = 1
	return p
}

func c17CorePlans() []c17Plan {
	var out []c17Plan
	for _, e := range c17Endings {
		for extra := 0; extra <= 2; extra++ {
			out = append(out, c17Scenario(e, extra))
		}
	}
	for n := 2; n <= 6; n++ {
		out = append(out, c17RacePlan(n, 6))
	}
	return out
}

var c17CoreOnce sync.Once
var c17CoreList []c17Plan

func c17Core() []c17Plan {
	c17CoreOnce.Do(func() { c17CoreList = c17CorePlans() })
	return c17CoreList
}

// --- random slice ---

var c17Flavors = []struct {
	name string
	w    int
}{{"identity", 30}, {"count", 14}, {"pair", 10}, {"evens", 8}, {"const", 5}, {"double", 5}, {"fail-now", 7}, {"fail-later", 12}, {"fail-until", 5}, {"panic", 4}}

func c17RandomPlan(r *core.Rng) c17Plan {
	nc := r.Range(2, 6)
	total := r.Range(10, 40)
	p := c17Plan{Layer: "engine", Name: "random", Clients: make([][]c17Op, nc)}
	nextID := 1
	own := make([][]int, nc) // observers created by each client
	hangups := r.Chance(1, 4)
	calm := r.Chance(1, 3) // fewer perturbations: longer sequential stretches
	// a witness on `$` subscribed by client 0 first (DESIGN C17 O4)
	p.Clients[0] = append(p.Clients[0], c17Obs(0, "identity", 0, 0))
	own[0] = append(own[0], 0)
	p.NObs = 1
	ids := func() []int {
		n := 1
		if r.Chance(1, 5) {
			n = 2
		}
		out := make([]int, n)
		for i := range out {
			out[i] = nextID
			nextID++
		}
		return out
	}
	for n := 0; n < total; n++ {
		c := r.Intn(nc)
		var op c17Op
		x := r.Intn(100)
		switch {
		case x < 42:
			op = c17Upd(ids()...)
		case x < 50:
			op = c17UpdFail(r.Intn(4), ids()...)
		case x < 74:
			w := r.Intn(100)
			fl := c17Flavors[0].name
			for _, f := range c17Flavors {
				if w < f.w {
					fl = f.name
					break
				}
				w -= f.w
			}
			failAt := 0
			if r.Chance(3, 20) {
				failAt = r.Range(1, 4)
			}
			op = c17Obs(p.NObs, fl, r.Range(1, 6), failAt)
			own[c] = append(own[c], p.NObs)
			p.NObs++
		case x < 92:
			if len(own[c]) == 0 {
				op = c17Upd(ids()...)
			} else {
				op = c17Op{Kind: "cancel", Obs: core.Pick(r, own[c])} // may hit one cancelled before
			}
		case x < 96 && hangups:
			op = c17Op{Kind: "hangup", Obs: -1}
		default:
			op = c17Upd(ids()...)
		}
		y := r.Intn(100)
		lim1, lim2 := 25, 40
		if calm {
			lim1, lim2 = 6, 10
		}
		switch {
		case y < lim1:
			op.Pre = 1
		case y < lim2:
			op.Pre = 2 + r.Intn(60)
		}
		p.Clients[c] = append(p.Clients[c], op)
	}
	return p
}

// ---------------------------------------------------------------------------------------------
// case list

func (c17) sysCases(cfg *core.Config) int {
	return cfg.Pick(c17SysQuick+c17GrpcQuick+c17WSQuick, c17SysThorough+c17GrpcThorough+c17WSThorough)
}

func (c17) randomCases(cfg *core.Config) int { return cfg.Pick(2000, 30000) }

// every core plan is run coreReps times; repetitions differ only in the (repetition-derived, seed-
// independent) Gosched/sleep perturbation of the clients, so the number of distinct acknowledged
// orders per plan measures how many interleavings the scheduler actually produced.
func (c17) coreReps(cfg *core.Config) int { return cfg.Pick(4, 20) }

func (k c17) NumCases(cfg *core.Config) int {
	return len(c17Core())*k.coreReps(cfg) + k.randomCases(cfg) + k.sysCases(cfg)
}

func (k c17) plan(cfg *core.Config, i int) c17Plan {
	coreN := len(c17Core()) * k.coreReps(cfg)
	if i < coreN {
		p := c17Core()[i%len(c17Core())]
		if rep := i / len(c17Core()); rep > 0 {
			r := core.NewRng(17, 17, uint64(rep), uint64(i%len(c17Core())))
			cl := make([][]c17Op, len(p.Clients))
			for c := range p.Clients {
				cl[c] = append([]c17Op(nil), p.Clients[c]...)
				for k := range cl[c] {
					switch y := r.Intn(100); {
					case y < 25:
						cl[c][k].Pre = 1
					case y < 45:
						cl[c][k].Pre = 2 + r.Intn(80)
					}
				}
			}
			p.Clients = cl
		}
		return p
	}
	i -= coreN
	if i < k.sysCases(cfg) { // system-layer cases early so that a worker reaches them
		return c17SysPlan(cfg, i)
	}
	return c17RandomPlan(core.NewRng(cfg.Seed, 17, uint64(i)))
}

// HangWallSeconds: histories take milliseconds; the process-level monitor is only a backstop
// (RunCase applies the logical criterion itself through core.HangProbe).
func (c17) HangWallSeconds() int { return 45 }

// SlowWallSeconds / WorkerWallMinutes: optional budgets of the main-line core (SlowBudget,
// WorkerBudget); system-layer histories on a loaded machine need more than the defaults. The
// system layers give up by themselves (inconclusive) after 105-125 s.
func (c17) SlowWallSeconds() int   { return 240 }
func (c17) WorkerWallMinutes() int { return 120 }

// ---------------------------------------------------------------------------------------------
// recording

type c17Ev struct {
	T      int    `json:"t"`
	E      string `json:"e"` // call | ret | val | close
	Client int    `json:"c"`
	Op     int    `json:"op"`
	Obs    int    `json:"obs"`
	Val    string `json:"v,omitempty"`
	Err    string `json:"err,omitempty"`
}

type c17Hist struct {
	Plan   c17Plan        `json:"plan"`
	Events []c17Ev        `json:"events"`
	Final  string         `json:"final"` // last value of the final observer on `$`
	Hang   *core.HangInfo `json:"hang,omitempty"`
	Slow   string         `json:"slow,omitempty"`
	Notes  []string       `json:"notes,omitempty"`
}

type c17Rec struct {
	mu sync.Mutex
	ev []c17Ev
}

func (r *c17Rec) add(e c17Ev) int {
	r.mu.Lock()
	e.T = len(r.ev)
	r.ev = append(r.ev, e)
	r.mu.Unlock()
	return e.T
}

func (r *c17Rec) n() int {
	r.mu.Lock()
	defer r.mu.Unlock()
	return len(r.ev)
}

func (r *c17Rec) snapshot() []c17Ev {
	r.mu.Lock()
	defer r.mu.Unlock()
	return append([]c17Ev(nil), r.ev...)
}

func c17Str(v rel.Value) (s string) {
	defer func() {
		if r := recover(); r != nil {
			s = fmt.Sprintf("<String() panicked: %v>", r)
		}
	}()
	if s = v.String(); s == "" { // the empty set renders as the empty string
		s = "{}"
	}
	return s
}

func c17ErrStr(err error) string {
	if err == nil {
		return ""
	}
	s := core.ErrText(err)
	if i := strings.IndexByte(s, '\n'); i >= 0 {
		s = s[:i]
	}
	if s == "" {
		s = "error"
	}
	return s
}

func c17Delay(pre int) {
	switch {
	case pre == 1:
		runtime.Gosched()
	case pre >= 2:
		time.Sleep(time.Duration(pre-1) * time.Microsecond)
	}
}

const c17FinalObs = -2 // observer index of the final witness

// c17Await waits for done while watching for the logical hang criterion. parked reports whether
// every unfinished client goroutine is currently inside an engine call (a client that is merely
// starved of CPU in harness code on a loaded machine is not a hang).
func c17Await(done <-chan struct{}, rec *c17Rec, h *c17Hist, parked func() bool) bool {
	last, lastChange := rec.n(), time.Now()
	start := time.Now()
	tick := time.NewTicker(2 * time.Millisecond)
	defer tick.Stop()
	for {
		select {
		case <-done:
			return true
		case <-tick.C:
		}
		if n := rec.n(); n != last {
			last, lastChange = n, time.Now()
			continue
		}
		if time.Since(lastChange) > 1200*time.Millisecond && parked() {
			if hi := core.HangProbe(1100*time.Millisecond, "engine.Start"); hi != nil && parked() {
				select {
				case <-done: // finished while we were sampling
					return true
				default:
				}
				if rec.n() == last {
					h.Hang = hi
					return false
				}
			}
			lastChange = time.Now()
		}
		if time.Since(start) > 90*time.Second {
			h.Slow = "history not finished after 90 s and the logical hang criterion is not met"
			return false
		}
	}
}

var c17LogOnce sync.Once

// c17RunEngine executes the plan against a fresh in-process engine and records the history.
func c17RunEngine(p c17Plan) *c17Hist {
	c17LogOnce.Do(func() { logrus.SetLevel(logrus.ErrorLevel) }) // the engine logs every step at Info
	h := &c17Hist{Plan: p}
	rec := &c17Rec{}
	exprs := map[string]rel.Expr{}
	for _, cl := range p.Clients {
		for _, o := range cl {
			if o.Src != "" {
				e, err := c17Expr(o)
				if err != nil {
					h.Slow = "harness: " + err.Error()
					return h
				}
				exprs[o.Src] = e
			}
		}
	}
	identity, err1 := core.Compiled("$")
	syncExpr, err2 := core.Compiled("(sync: 1).nope")
	barrier, err3 := c17Expr(c17Barrier("engine"))
	if err1 != nil || err2 != nil || err3 != nil {
		h.Slow = "harness: cannot compile helper expressions"
		return h
	}
	e := engine.Start()
	cancels := make([]func(), p.NObs) // each slot written and read only by the owning client
	mkObserver := func(obs, failAt int) (func(rel.Value) error, func(error)) {
		n := 0 // only touched by the engine's callbacks
		return func(v rel.Value) error {
				rec.add(c17Ev{E: "val", Client: -1, Op: -1, Obs: obs, Val: c17Str(v)})
				n++
				if failAt > 0 && n == failAt {
					return fmt.Errorf("observer %d refuses delivery %d", obs, n)
				}
				return nil
			}, func(err error) {
				rec.add(c17Ev{E: "close", Client: -1, Op: -1, Obs: obs, Err: c17ErrStr(err)})
			}
	}
	var wg sync.WaitGroup
	var running, inCall atomic.Int64 // unfinished clients / clients inside an engine call
	parked := func() bool { n := running.Load(); return n > 0 && inCall.Load() == n }
	running.Store(int64(len(p.Clients)))
	for c := range p.Clients {
		wg.Add(1)
		go func(c int) {
			defer wg.Done()
			defer running.Add(-1)
			for k, o := range p.Clients[c] {
				c17Delay(o.Pre)
				rec.add(c17Ev{E: "call", Client: c, Op: k, Obs: o.Obs})
				errs := ""
				inCall.Add(1)
				switch o.Kind {
				case "upd", "updfail":
					errs = c17ErrStr(e.Update(exprs[o.Src]))
				case "obs":
					onu, onc := mkObserver(o.Obs, o.FailAt)
					cancels[o.Obs] = e.Observe(exprs[o.Src], onu, onc)
				case "cancel":
					if f := cancels[o.Obs]; f != nil {
						f()
					}
				case "hangup":
					e.Hangup()
				}
				inCall.Add(-1)
				rec.add(c17Ev{E: "ret", Client: c, Op: k, Obs: o.Obs, Err: errs})
			}
		}(c)
	}
	done := make(chan struct{})
	go func() { wg.Wait(); close(done) }()
	if !c17Await(done, rec, h, parked) {
		h.Events = rec.snapshot()
		return h // wedged or slow: the engine and the blocked clients are leaked
	}
	// final phase, issued after every client has finished: a witness on `$`, a last successful update
	// (sentinel id 0, part of the judged history: every live observer must still receive it) and a
	// failing update as a sync point: the engine serves requests one at a time and calls observers
	// before taking the next request, so when the sync update is answered every delivery has happened.
	fin := make(chan struct{})
	running.Store(1)
	go func() {
		defer close(fin)
		defer running.Add(-1)
		nc := len(p.Clients)
		rec.add(c17Ev{E: "call", Client: nc, Op: 0, Obs: c17FinalObs})
		onu, onc := mkObserver(c17FinalObs, 0)
		inCall.Add(1)
		e.Observe(identity, onu, onc)
		inCall.Add(-1)
		rec.add(c17Ev{E: "ret", Client: nc, Op: 0, Obs: c17FinalObs})
		rec.add(c17Ev{E: "call", Client: nc, Op: 1, Obs: -1})
		inCall.Add(1)
		err := e.Update(barrier)
		inCall.Add(-1)
		rec.add(c17Ev{E: "ret", Client: nc, Op: 1, Obs: -1, Err: c17ErrStr(err)})
		rec.add(c17Ev{E: "call", Client: nc, Op: 2, Obs: -1})
		inCall.Add(1)
		err = e.Update(syncExpr)
		inCall.Add(-1)
		rec.add(c17Ev{E: "ret", Client: nc, Op: 2, Obs: -1, Err: c17ErrStr(err)})
	}()
	if !c17Await(fin, rec, h, parked) {
		h.Events = rec.snapshot()
		h.Notes = append(h.Notes, "wedged in the final witness/barrier phase")
		return h
	}
	h.Events = rec.snapshot()
	// an alarm is re-read after a grace period (asynchronous delivery is allowed)
	if len(c17Judge(h).Viols) > 0 {
		time.Sleep(300 * time.Millisecond)
		h.Events = rec.snapshot()
		h.Notes = append(h.Notes, "re-read after grace period")
	}
	nEv := len(h.Events)
	stopped := make(chan struct{})
	go func() { e.Stop(); close(stopped) }()
	select {
	case <-stopped:
	case <-time.After(2 * time.Second):
		h.Notes = append(h.Notes, "Stop did not return within 2 s (not judged)")
	}
	h.Events = rec.snapshot()[:nEv] // teardown closes are not part of the judged history
	return h
}

// ---------------------------------------------------------------------------------------------
// RunCase

type c17Data struct {
	Layer      string         `json:"layer"`
	Plan       string         `json:"plan,omitempty"`     // core plans only: name
	AckOrder   string         `json:"ackOrder,omitempty"` // core plans only: acknowledged order
	Order      uint64         `json:"order"`              // hash of (plan, acknowledged order)
	Ops        int            `json:"ops"`
	Acked      int            `json:"acked"`
	Failed     int            `json:"failed"`
	Observers  int            `json:"observers"`
	Deliveries int            `json:"deliveries"`
	Judged     int            `json:"judged"` // deliveries compared with the model
	Overlaps   int            `json:"overlaps"`
	OutOfCall  bool           `json:"outOfCall"` // acknowledged order differs from call order
	Tags       map[string]int `json:"tags,omitempty"`
	Hist       *c17Hist       `json:"hist,omitempty"` // sampled, for the offline re-judge in Finish
	Verdicts   []string       `json:"verdicts,omitempty"`
}

// WorkerEnv marks worker children (replay runs in the driver process and never skips).
func (k c17) WorkerEnv(cfg *core.Config, shard int) []string {
	env := []string{"C17_WORKER=1"}
	if k.sysCases(cfg) > 0 { // build the server binary in the driver, before any case runs
		bin, err := c17ArraiBinary(cfg)
		if err != nil {
			bin = "error: " + err.Error()
		}
		env = append(env, "C17_ARRAI="+bin)
	}
	return env
}

const c17MaxWedges = 12

var c17ReFatal = regexp.MustCompile(`(?m)^(panic: |fatal error: |\[signal SIG)`)

var c17FirstCase = true

// c17Wedges bounds the cost of a tree on which most histories wedge or kill the process: every
// wedge costs seconds (the logical criterion needs two samples a second apart) and every process
// death a worker restart. Wedged / in-flight cases leave marker files in the run directory; once
// c17MaxWedges of them exist the verdict is already "violated" and the remaining histories are
// reported inconclusive instead of being run. On a healthy tree no marker is ever left behind.
func c17Wedges(cfg *core.Config, i int, phase string) int {
	if os.Getenv("C17_WORKER") == "" {
		return 0
	}
	mine := filepath.Join(cfg.RunDir, fmt.Sprintf("c17-inflight-%d-%d", os.Getpid(), i))
	switch phase {
	case "begin":
		if c17FirstCase { // in-flight markers of *crashed* processes become crash markers
			c17FirstCase = false
			fs, _ := filepath.Glob(filepath.Join(cfg.RunDir, "c17-inflight-*"))
			for _, f := range fs {
				var pid, c int
				if _, err := fmt.Sscanf(filepath.Base(f), "c17-inflight-%d-%d", &pid, &c); err != nil || syscall.Kill(pid, 0) == nil {
					continue
				}
				// the marker holds the path of that worker's stderr: a process that was stopped by the
				// per-case watchdog (slow machine) dies silently, a crashed one leaves a Go fatal report
				crashed := false
				if sp, err := os.ReadFile(f); err == nil && len(sp) > 0 {
					if b, err := os.ReadFile(string(sp)); err == nil {
						crashed = c17ReFatal.Match(b)
					}
				}
				if crashed {
					os.Rename(f, filepath.Join(cfg.RunDir, fmt.Sprintf("c17-wedged-died-%d", c)))
				} else {
					os.Remove(f)
				}
			}
		}
		fs, _ := filepath.Glob(filepath.Join(cfg.RunDir, "c17-wedged-*"))
		if len(fs) < c17MaxWedges {
			stderrPath := ""
			for k, a := range os.Args {
				if a == "--out" && k+1 < len(os.Args) {
					stderrPath = os.Args[k+1] + ".stderr"
				}
			}
			os.WriteFile(mine, []byte(stderrPath), 0o644)
		}
		return len(fs)
	case "wedged":
		os.WriteFile(filepath.Join(cfg.RunDir, fmt.Sprintf("c17-wedged-hang-%d", i)), nil, 0o644)
	}
	os.Remove(mine)
	return 0
}

func (k c17) RunCase(cfg *core.Config, i int) core.CaseResult {
	p := k.plan(cfg, i)
	if f := os.Getenv("C17_DEV_LAYERS"); f != "" && !strings.Contains(f, p.Layer) {
		// development aid only (such a run ends "broken"): run just the named layers
		return core.CaseResult{Inconclusive: "filtered out by C17_DEV_LAYERS"}
	}
	if n := c17Wedges(cfg, i, "begin"); n >= c17MaxWedges {
		return core.CaseResult{Inconclusive: fmt.Sprintf("not run: %d earlier histories of this run already wedged or killed the engine (see the violations)", n)}
	}
	defer func() { c17Wedges(cfg, i, "end") }()
	var h *c17Hist
	if p.Layer != "engine" {
		h = c17RunSystem(cfg, p, i)
	} else {
		h = c17RunEngine(p)
	}
	j := c17Judge(h)
	if h.Hang != nil {
		c17Wedges(cfg, i, "wedged")
	}
	res := core.CaseResult{Key: fmt.Sprintf("%s#%s", p.key(), j.OrderKey), NonTrivial: j.Overlaps > 0 || j.AbnormalEnds > 0,
		Evals: j.Ops, Viols: j.Viols, Inconclusive: j.Inconclusive}
	for t := range j.Tags {
		res.Cover = append(res.Cover, t)
	}
	sort.Strings(res.Cover)
	if i%97 == 0 || i < 3 {
		res.Sample = c17Sample(h, &j)
	}
	d := c17Data{Layer: p.Layer, Order: core.Hash64(res.Key), Ops: j.Ops, Acked: j.Acked, Failed: j.FailedUpd, Observers: p.NObs,
		Deliveries: j.Deliveries, Judged: j.Judged, Overlaps: j.Overlaps, OutOfCall: j.OutOfCall, Tags: j.Counts}
	if strings.HasPrefix(p.Name, "core:") {
		d.Plan, d.AckOrder = p.Name, j.OrderKey
	}
	if i%50 == 0 || len(j.Viols) > 0 {
		d.Hist = h
		for _, v := range j.Viols {
			d.Verdicts = append(d.Verdicts, v.Sig.String())
		}
	}
	res.Data = d
	for n := range res.Viols {
		res.Viols[n].Replay = map[string]interface{}{"case": i, "history": h}
	}
	return res
}

func c17Sample(h *c17Hist, j *c17Verdict) string {
	var sb strings.Builder
	fmt.Fprintf(&sb, "%s/%s: ", h.Plan.Layer, h.Plan.Name)
	for c, cl := range h.Plan.Clients {
		fmt.Fprintf(&sb, "client%d[", c)
		for n, o := range cl {
			if n > 0 {
				sb.WriteString("; ")
			}
			switch o.Kind {
			case "upd", "updfail":
				fmt.Fprintf(&sb, "Update(%s)", o.Src)
			case "obs":
				fmt.Fprintf(&sb, "o%d=Observe(%s", o.Obs, o.Src)
				if o.FailAt > 0 {
					fmt.Fprintf(&sb, ", onupdate errs at #%d", o.FailAt)
				}
				sb.WriteString(")")
			case "cancel":
				fmt.Fprintf(&sb, "cancel(o%d)", o.Obs)
			case "kill":
				fmt.Fprintf(&sb, "kill(o%d)", o.Obs)
			case "resub":
				fmt.Fprintf(&sb, "o%d=replace(o%d, %s)", o.Obs, o.Old, o.Src)
			default:
				sb.WriteString(o.Kind)
			}
		}
		sb.WriteString("] ")
	}
	fmt.Fprintf(&sb, "=> final %s; %d deliveries, %d overlapping op pairs", h.Final0(), j.Deliveries, j.Overlaps)
	return sb.String()
}

// Final0 returns the last value delivered to the final witness ("" if none).
func (h *c17Hist) Final0() string {
	out := ""
	for _, e := range h.Events {
		if e.E == "val" && e.Obs == c17FinalObs {
			out = e.Val
		}
	}
	if out == "" {
		return h.Final
	}
	return out
}

// ---------------------------------------------------------------------------------------------
// Finish: offline re-judge of the forwarded histories, evidence, floors

func (k c17) Finish(cfg *core.Config, agg *core.Aggregate) {
	orders := map[uint64]struct{}{}
	coreOrders := map[string]map[string]bool{}
	tot := map[string]int{}
	layers := map[string]int{}
	rejudged, disagreements := 0, 0
	for _, dr := range agg.Data {
		var d c17Data
		if err := c17Unmarshal(dr.Data, &d); err != nil {
			agg.Fail("C17: cannot decode forwarded data of case %d: %v", dr.Case, err)
			continue
		}
		orders[d.Order] = struct{}{}
		if d.Plan != "" {
			if coreOrders[d.Plan] == nil {
				coreOrders[d.Plan] = map[string]bool{}
			}
			coreOrders[d.Plan][d.AckOrder] = true
		}
		layers[d.Layer]++
		tot["client_operations"] += d.Ops
		tot["updates_acknowledged"] += d.Acked
		tot["updates_rejected"] += d.Failed
		tot["observers"] += d.Observers
		tot["deliveries_recorded"] += d.Deliveries
		tot["deliveries_compared_with_model"] += d.Judged
		tot["overlapping_operation_pairs"] += d.Overlaps
		if d.Overlaps > 0 {
			tot["histories_with_overlap"]++
		}
		if d.OutOfCall {
			tot["histories_acknowledged_out_of_call_order"]++
		}
		for t, n := range d.Tags {
			tot[t] += n
		}
		if d.Hist != nil { // the oracle is a pure function of the recorded history: run it again here
			rejudged++
			j := c17Judge(d.Hist)
			var got []string
			for _, v := range j.Viols {
				got = append(got, v.Sig.String())
			}
			if strings.Join(got, "\n") != strings.Join(d.Verdicts, "\n") {
				disagreements++
			}
		}
	}
	agg.Extra["c17_totals"] = tot
	agg.Extra["c17_layers"] = layers
	agg.Extra["distinct_plan_x_acknowledged_order"] = len(orders)
	agg.Extra["histories_rejudged_offline"] = rejudged
	// distinct acknowledged orders seen per concurrent core plan (each run coreReps times)
	perPlan := map[string]int{}
	multi, conc := 0, 0
	for name, set := range coreOrders {
		if strings.HasSuffix(name, "+0") {
			continue // single client: one order by construction
		}
		perPlan[name] = len(set)
		conc++
		if len(set) > 1 {
			multi++
		}
	}
	agg.Extra["core_plan_distinct_acknowledged_orders"] = perPlan
	agg.Extra["core_plan_repetitions"] = k.coreReps(cfg)
	if disagreements > 0 {
		agg.Fail("C17: offline re-judge disagrees with the worker's verdict on %d forwarded histories (oracle not a pure function of the record?)", disagreements)
	}
	// race reports printed by the race detector while the histories ran (evidence for C11)
	races := map[string]int{}
	files, _ := filepath.Glob(filepath.Join(cfg.RunDir, "*.stderr"))
	for _, f := range files {
		b, err := os.ReadFile(f)
		if err != nil {
			continue
		}
		for _, blk := range strings.Split(string(b), "WARNING: DATA RACE")[1:] {
			if end := strings.Index(blk, "=================="); end >= 0 {
				blk = blk[:end]
			}
			site := "(no arrai frame)"
			for _, ln := range strings.Split(blk, "\n") {
				ln = strings.TrimSpace(ln)
				if strings.HasPrefix(ln, "github.com/arr-ai/arrai/") {
					site = core.NormFrame(strings.SplitN(ln, "(", 2)[0])
					break
				}
			}
			races[site]++
		}
	}
	agg.Extra["race_detector_reports_by_first_arrai_frame"] = races
	// floors: an empty or degenerate run is broken, not a pass
	if len(agg.Viols) > 0 {
		return // a wedging tree cannot reach the floors; the violations speak
	}
	floor := func(name string, got, want int) {
		if got < want {
			agg.Fail("C17 floor: %s = %d < %d", name, got, want)
		}
	}
	n := len(agg.Data) // (agg.Cases misses the cases of a worker that was stopped before its summary line)
	floor("histories", n, k.NumCases(cfg)*95/100)
	floor("updates_acknowledged", tot["updates_acknowledged"], 5*n)
	floor("updates_rejected", tot["updates_rejected"], n/4)
	floor("deliveries_compared_with_model", tot["deliveries_compared_with_model"], 10*n)
	floor("histories_with_overlap", tot["histories_with_overlap"], n/4)
	floor("histories_acknowledged_out_of_call_order", tot["histories_acknowledged_out_of_call_order"], n/200)
	floor("distinct_plan_x_acknowledged_order", len(orders), n/2)
	floor("concurrent core plans that showed more than one acknowledged order", multi, conc/2)
	for _, t := range []string{"end:expr-error", "end:expr-panic", "end:onupdate-error", "end:cancel", "end:hangup",
		"op:cancel-again", "op:cancel-after-end", "op:update-after-observer-ended", "porcupine:ok", "observer:live-to-end", "observer:tight-subscription-point"} {
		floor(t, tot[t], 20)
	}
	floor("system-layer histories", tot["sys:judged"], k.sysCases(cfg)/2)
	floor("sys:observer-killed", tot["sys:observer-killed"], k.sysCases(cfg)/4)
	floor("ws:observation-replaced", tot["ws:observation-replaced"], cfg.Pick(c17WSQuick, c17WSThorough)/4)
	floor("layer:ws judged", tot["ws:judged"], cfg.Pick(c17WSQuick, c17WSThorough)/2)
}
