package checks

import (
	"context"
	"fmt"
	"math"
	"strings"
	"sync"

	"verif/core"

	"github.com/arr-ai/arrai/rel"
)

// C05: keyed collections act as functions; >>, >>>, ++ and n\ keep keys right. Reference-model
// monitor on live collections realised through several construction paths.

type c05 struct{}

func init() { core.Register(c05{}) }

func (c05) ID() string    { return "C05" }
func (c05) Level() string { return "exploration" }
func (c05) Rule() string {
	return "collections: every core/random model value all of whose members are (@, x) pairs (strings, bytes, arrays with offsets/holes/superimposed indices, dicts incl. multi-valued and non-string keys, {|@,x|} relations, mixed-payload pair sets), each realised through all construction paths and deduplicated by (denotation, Go representation). Case = one collection: c(k) and c(k) ?: d for every present key, keys just outside both ends, negative, non-integer, and wrong-kind arguments; c >> f and c >>> g for 5 transformers through logging native probes (identity, +1, constant, kind-changing, failing); c ++ y and y ++ c for every same-kind sequence y of the pool; n\\c for n in {-2,-1,0,1,3,1.5}. Distinct by (operation, collection denotation+representation, argument); non-trivial when the collection is non-empty."
}
func (c05) Assumptions() []string {
	return []string{"model call: the values x of members (@: k, p: x) (two-attribute tuples); exactly one => x, else error; ?: fallback only when none",
		"model >>: every (@: k, p: x) becomes (@: k, p: f(x)); for strings/bytes only transformers that yield valid chars/bytes are judged for value, others may be rejected",
		"model ++: a | shift(b, count(a)) for two sequences of the same kind; model n\\c: every @ shifted by n"}
}

var (
	c05Once sync.Once
	c05Pool []Operand
)

func c05IsPairs(m MV) bool {
	if m.K != 's' {
		return false
	}
	for _, e := range m.S {
		if e.K != 't' || len(e.T) != 2 {
			return false
		}
		if _, ok := e.T["@"]; !ok {
			return false
		}
	}
	return true
}

func c05Collections(cfg *core.Config) []Operand {
	c05Once.Do(func() {
		seen := map[string]bool{}
		add := func(m MV) {
			if !c05IsPairs(m) {
				return
			}
			for _, p := range pathsFor(m) {
				op, _ := mkOperand(m, p)
				if !op.OK || !c05IsPairs(op.Got) {
					continue
				}
				k := op.Got.Enc + "|" + op.GoType
				if seen[k] {
					continue
				}
				seen[k] = true
				c05Pool = append(c05Pool, op)
			}
		}
		for _, m := range coreValues() {
			add(m)
		}
		// arrays with runs of holes: count < span, and shifting by count lands in a hole (no collision)
		add(seqOf("@item", 0, 1, hole, hole, 4))
		add(seqOf("@item", 0, 1, hole, hole, hole, 5, 6))
		add(seqOf("@item", 1, 1, hole, hole, 4))
		add(seqOf("@item", 0, 7))
		add(core.MStr("abcab"))
		add(core.MArr(num(1), core.MStr("x"), mset(num(2)), mtup("a", num(1))))
		add(core.MDict(core.MStr("a"), core.MArr(num(1)), core.MStr("b"), core.MStr("s"), num(3), mset()))
		add(relOf([]string{"@", "v"}, []float64{0, 5}, []float64{2, 6}, []float64{-1, 7}))
		r := core.NewRng(cfg.Seed, 505)
		for i := 0; i < cfg.Pick(80, 1500); i++ {
			add(randValue(r, i%5 < 3, 1))
		}
	})
	return c05Pool
}

func (c05) NumCases(cfg *core.Config) int { return len(c05Collections(cfg)) }

func c05Payload(t MV) (string, MV) {
	for k, v := range t.T {
		if k != "@" {
			return k, v
		}
	}
	return "", MV{}
}

// c05Call is the model of c(k): the values paired with k.
func c05Call(c, k MV) []MV {
	var out []MV
	for _, e := range c.S {
		if e.T["@"].Enc == k.Enc {
			_, v := c05Payload(e)
			out = append(out, v)
		}
	}
	return mset(out...).S
}

func c05SeqKind(m MV) string {
	if len(m.S) == 0 {
		return ""
	}
	kind := ""
	for _, e := range m.S {
		p, v := c05Payload(e)
		at := e.T["@"]
		if at.K != 'n' || at.N != math.Trunc(at.N) {
			return ""
		}
		switch p {
		case "@char", "@byte":
			if v.K != 'n' {
				return ""
			}
		case "@item":
		default:
			return ""
		}
		if kind != "" && kind != p {
			return ""
		}
		kind = p
	}
	return kind
}

func c05Shift(m MV, n float64) MV {
	var out []MV
	for _, e := range m.S {
		p, v := c05Payload(e)
		out = append(out, mpair(num(e.T["@"].N+n), p, v))
	}
	return mset(out...)
}

type c05judge struct {
	*judge
	c Operand
}

// expect compares an outcome with the model: want.K==0 means an error is expected.
func (j *c05judge) expect(clause, entry string, o core.Outcome, want MV, hz []string, desc string) {
	replay := map[string]string{"expr": desc}
	switch {
	case o.Panic != nil:
		j.report(clause, entry, "panic", o.Panic.Sig(), "", hz, desc+" => panic: "+o.Panic.Msg, replay)
	case o.Err != nil:
		if want.K != 0 {
			j.report(clause, entry, "error-for-value", "", "", hz, fmt.Sprintf("%s => error %s, want %s", desc, clipS(core.ErrText(o.Err), 120), core.Src(want)), replay)
		}
	default:
		got, pi := core.SafeDenote(o.Val)
		switch {
		case pi != nil:
			j.report(clause, entry, "panic", "enumerate: "+pi.Sig(), "", hz, desc+" => result cannot be enumerated: "+pi.Msg, replay)
		case want.K == 0:
			j.report(clause, entry, "value-for-error", "", "", hz, fmt.Sprintf("%s => %s, want an error", desc, core.Src(got)), replay)
		case got.Enc != want.Enc:
			mode, delta := "wrong-value", ""
			if got.K == 's' && want.K == 's' {
				mode, delta = diffDelta(got, want)
			}
			j.report(clause, entry, mode, "", delta, hz, fmt.Sprintf("%s => %s, want %s", desc, core.Src(got), core.Src(want)), replay)
		}
	}
}

func (c05) RunCase(cfg *core.Config, i int) core.CaseResult {
	pool := c05Collections(cfg)
	c := pool[i]
	res := core.CaseResult{Key: "c:" + c.Got.Enc + "|" + c.GoType, NonTrivial: len(c.Got.S) > 0}
	res.Evals = 0
	j := &c05judge{judge: &judge{prop: "C05", res: &res, seen: map[string]bool{}}, c: c}
	hzc := mergeHz(core.HazardList(c.Got, c.Want), repTags(c))
	res.Cover = append(res.Cover, "class:"+core.Classify(c.Got), "rep:"+c.GoType, "path:"+c.Path.Kind)

	// ---- arguments ----
	type arg struct {
		m   MV
		cls string
	}
	var args []arg
	keys := map[string]bool{}
	lo, hi := math.Inf(1), math.Inf(-1)
	for _, e := range c.Got.S {
		k := e.T["@"]
		if !keys[k.Enc] {
			keys[k.Enc] = true
			args = append(args, arg{k, "present"})
		}
		if k.K == 'n' {
			lo, hi = math.Min(lo, k.N), math.Max(hi, k.N)
		}
	}
	if !math.IsInf(lo, 0) {
		args = append(args, arg{num(lo - 1), "absent"}, arg{num(hi + 1), "absent"}, arg{num(lo + 0.5), "nonint"}, arg{num(-hi - 7), "absent"})
		for x := lo; x <= hi; x++ {
			if !keys[num(x).Enc] {
				args = append(args, arg{num(x), "hole"})
			}
		}
	}
	args = append(args, arg{num(42), "absent"}, arg{core.MStr("zz"), "wrong-kind"}, arg{mtup("a", num(1)), "wrong-kind"},
		arg{mset(num(1)), "wrong-kind"}, arg{mset(), "wrong-kind"}, arg{core.MStr("a"), "maybe"})
	dflt := num(-777)
	dv, _ := mvValue(dflt)
	for _, a := range args {
		av, ok := mvValue(a.m)
		if !ok {
			continue
		}
		vals := c05Call(c.Got, a.m)
		cls := a.cls
		if len(vals) > 0 {
			cls = "present"
		} else if cls == "present" || cls == "maybe" {
			cls = "absent"
		}
		hz := mergeHz(hzc, []string{"arg:" + cls})
		var want, wantF MV
		switch len(vals) {
		case 0:
			wantF = dflt
		case 1:
			want, wantF = vals[0], vals[0]
		}
		res.Evals += 2
		res.SubKeys = append(res.SubKeys, "call|"+c.Got.Enc+"|"+c.GoType+"|"+a.m.Enc)
		res.Cover = append(res.Cover, "call-arg:"+cls, fmt.Sprintf("call-matches:%d", min(len(vals), 2)))
		desc := fmt.Sprintf("c(%s) with c=%s [%s]", core.Src(a.m), c.Path.Src, c.Path.Kind)
		j.expect("C05.call", "call", core.EvalT("c(k)", "c", c.Val, "k", av), want, hz, desc)
		j.expect("C05.call-fallback", "call?:", core.EvalT("c(k) ?: d", "c", c.Val, "k", av, "d", dv), wantF, hz, desc+" ?: -777")
	}

	// ---- >> and >>> through logging probes ----
	type xf struct {
		name string
		f    func(MV) (MV, bool) // ok=false => the transformer fails
	}
	xfs := []xf{
		{"id", func(m MV) (MV, bool) { return m, true }},
		{"+1", func(m MV) (MV, bool) {
			if m.K == 'n' {
				return num(m.N + 1), true
			}
			return m, true
		}},
		{"const", func(MV) (MV, bool) { return num(100), true }},
		{"wrap", func(m MV) (MV, bool) { return core.MArr(m), true }},
		{"fail", func(MV) (MV, bool) { return MV{}, false }},
	}
	seqKind := c05SeqKind(c.Got)
	for _, t := range xfs {
		if t.name == "wrap" && (seqKind == "@char" || seqKind == "@byte") {
			continue // strings/bytes may legitimately reject non-char results; not judged
		}
		for _, indexed := range []bool{false, true} {
			var fedV, fedK []MV
			var want []MV
			failing := false
			for _, e := range c.Got.S {
				p, v := c05Payload(e)
				img, ok := t.f(v)
				if !ok {
					failing = true
					continue
				}
				want = append(want, mpair(e.T["@"], p, img))
			}
			apply := func(v rel.Value) (rel.Value, error) {
				d, pi := core.SafeDenote(v)
				if pi != nil {
					return nil, fmt.Errorf("verif: cannot denote argument")
				}
				fedV = append(fedV, d)
				img, ok := t.f(d)
				if !ok {
					return nil, fmt.Errorf("verif: transformer fails on purpose")
				}
				out, ok := mvValue(img)
				if !ok {
					return nil, fmt.Errorf("verif: cannot build image")
				}
				return out, nil
			}
			var fn rel.Value
			tmpl, entry, clause := `c >> \x f(x)`, ">>", "C05.seqmap"
			if indexed {
				tmpl, entry, clause = `c >>> \i \x f(i)(x)`, ">>>", "C05.seqmap-index"
				fn = rel.NewNativeFunction("verifIdx", func(_ context.Context, k rel.Value) (rel.Value, error) {
					kd, pi := core.SafeDenote(k)
					if pi == nil {
						fedK = append(fedK, kd)
					}
					return rel.NewNativeFunction("verifXf", func(_ context.Context, v rel.Value) (rel.Value, error) { return apply(v) }), nil
				})
			} else {
				fn = rel.NewNativeFunction("verifXf", func(_ context.Context, v rel.Value) (rel.Value, error) { return apply(v) })
			}
			wantSet := mset(want...)
			var wantMV MV
			if !(failing && len(c.Got.S) > 0) {
				wantMV = wantSet
			}
			hz := mergeHz(hzc, append(core.HazardList(wantSet), "xf:"+t.name))
			res.Evals++
			res.SubKeys = append(res.SubKeys, entry+"|"+t.name+"|"+c.Got.Enc+"|"+c.GoType)
			res.Cover = append(res.Cover, "xf:"+entry+":"+t.name)
			desc := fmt.Sprintf("%s with c=%s [%s], f=<%s>", tmpl, c.Path.Src, c.Path.Kind, t.name)
			o := core.EvalT(tmpl, "c", c.Val, "f", fn)
			j.expect(clause, entry, o, wantMV, hz, desc)
			if o.OK() && wantMV.K != 0 {
				// the transformer must have been fed exactly the associated values (as a multiset)
				var assoc []MV
				for _, e := range c.Got.S {
					_, v := c05Payload(e)
					assoc = append(assoc, v)
				}
				if msg := c05Multiset(fedV, assoc); msg != "" {
					j.report(clause, entry, "fed-mismatch", "", "", hz, desc+": transformer "+msg, map[string]string{"expr": desc})
				}
				if indexed {
					var ks []MV
					for _, e := range c.Got.S {
						ks = append(ks, e.T["@"])
					}
					if msg := c05Multiset(fedK, ks); msg != "" {
						j.report(clause, entry, "fed-index-mismatch", "", "", hz, desc+": index argument "+msg, map[string]string{"expr": desc})
					}
				}
			}
		}
	}

	// ---- ++ with same-kind sequences, n\c ----
	if seqKind != "" || len(c.Got.S) == 0 {
		cnt := float64(len(c.Got.S))
		n := 0
		for yi, y := range pool {
			yk := c05SeqKind(y.Got)
			if yk == "" || (seqKind != "" && yk != seqKind) {
				continue
			}
			if !cfg.Thorough() && (i+yi)%3 != 0 {
				continue
			}
			n++
			want := mUnion(c.Got, c05Shift(y.Got, cnt))
			hz := mergeHz(mergeHz(hzc, core.HazardList(y.Got, y.Want, want)), repTags(c, y))
			res.Evals++
			res.SubKeys = append(res.SubKeys, "++|"+c.Got.Enc+"|"+c.GoType+"|"+y.Got.Enc+"|"+y.GoType)
			j.expect("C05.concat", "++", core.EvalT("c ++ y", "c", c.Val, "y", y.Val), want, hz,
				fmt.Sprintf("c ++ y with c=%s [%s], y=%s [%s]", c.Path.Src, c.Path.Kind, y.Path.Src, y.Path.Kind))
		}
		res.Cover = append(res.Cover, "concat")
		for _, sh := range []float64{-2, -1, 0, 1, 3, 1.5} {
			want := c05Shift(c.Got, sh)
			hz := mergeHz(hzc, core.HazardList(want))
			if sh != math.Trunc(sh) {
				hz = mergeHz(hz, []string{"non-integer-offset"})
			}
			res.Evals++
			res.SubKeys = append(res.SubKeys, fmt.Sprintf("\\|%v|%s|%s", sh, c.Got.Enc, c.GoType))
			j.expect("C05.offset", "\\", core.EvalT("n\\c", "c", c.Val, "n", rel.NewNumber(sh)), want, hz,
				fmt.Sprintf("%v\\c with c=%s [%s]", sh, c.Path.Src, c.Path.Kind))
		}
		res.Cover = append(res.Cover, "offset")
	}
	if i%13 == 0 {
		res.Sample = fmt.Sprintf("collection %s (%s, %s via %s): %d call arguments x {c(k), c(k)?:d}, >> and >>> x 5 transformers, ++ / n\\ where sequence-shaped",
			clipS(c.Path.Src, 90), core.Classify(c.Got), c.GoType, c.Path.Kind, len(args))
	}
	return res
}

func c05Multiset(fed, want []MV) string {
	cnt := map[string]int{}
	for _, f := range fed {
		cnt[f.Enc]++
	}
	for _, w := range want {
		cnt[w.Enc]--
	}
	for k, n := range cnt {
		if n != 0 {
			what := "was fed an extra"
			if n < 0 {
				what = "was never fed"
			}
			for _, x := range append(append([]MV{}, fed...), want...) {
				if x.Enc == k {
					return fmt.Sprintf("%s %s (%+d)", what, core.Src(x), n)
				}
			}
		}
	}
	return ""
}

func (c05) Finish(cfg *core.Config, agg *core.Aggregate) {
	classes, reps := 0, 0
	for k := range agg.Cover {
		if strings.HasPrefix(k, "class:") {
			classes++
		}
		if strings.HasPrefix(k, "rep:") {
			reps++
		}
	}
	agg.Extra["collection_classes"] = classes
	agg.Extra["collection_representations"] = reps
	if classes < 8 || reps < 5 {
		agg.Fail("coverage floor: %d collection classes / %d representations (<8 / <5)", classes, reps)
	}
	for _, k := range []string{"call-arg:present", "call-arg:absent", "call-arg:nonint", "call-arg:wrong-kind", "call-matches:2", "xf:>>:+1", "xf:>>>:+1", "xf:>>:fail", "concat", "offset"} {
		if agg.Cover[k] == 0 {
			agg.Fail("coverage floor: %s never exercised", k)
		}
	}
}
