package checks

import (
	"context"
	"fmt"
	"net"
	"sync"

	"github.com/gorilla/websocket"

	"verif/core"

	"github.com/arr-ai/arrai/rel"
)

// Websocket mode of the system layer (cmd/arrai/serve_ws.go): an observer is a websocket
// connection that sent its expression as a text message; every value comes back as a JSON text
// message. Sending another expression on the same connection replaces the observation (the
// frontend cancels the old one and observes the new one). The three expressions used produce JSON
// of three different shapes, so a message can be attributed to its observation even while values
// of the replaced observation are still in flight. Updates go through gRPC as in the grpc layer.

const (
	c17WSQuick    = 40
	c17WSThorough = 400
)

var c17WSShapes = map[string]string{"str": "$", "num": "$ count", "obj": "(n: $ count, s: $)"}
var c17WSShapeNames = []string{"str", "num", "obj"}

func c17WSShape(msg string) string {
	switch {
	case msg == "":
		return "?"
	case msg[0] == '"' || msg == "false" || msg == "true":
		return "str"
	case msg[0] == '{':
		return "obj"
	case msg[0] == '-' || (msg[0] >= '0' && msg[0] <= '9'):
		return "num"
	}
	return "?"
}

// c17WSRender: what the websocket frontend sends for a value.
func c17WSRender(v rel.Value) (s string) {
	defer func() {
		if r := recover(); r != nil {
			s = fmt.Sprintf("<marshal panicked: %v>", r)
		}
	}()
	return string(rel.MarshalToJSON(v))
}

func c17WSPlan(cfg *core.Config, i int) c17Plan {
	r := core.NewRng(cfg.Seed, 1717, uint64(i))
	nc := r.Range(2, 3)
	p := c17Plan{Layer: "ws", Name: "ws-random", Clients: make([][]c17Op, nc)}
	type conn struct {
		cur    int // current observer
		shapes map[string]bool
		dead   bool
	}
	var conns []*conn
	own := make([][]int, nc) // connection indices per client
	next := 1
	ids := func() []int {
		n := 1
		if r.Chance(1, 5) {
			n = 2
		}
		out := make([]int, n)
		for k := range out {
			out[k] = next
			next++
		}
		return out
	}
	newConn := func(c int, shape string) c17Op {
		op := c17Op{Kind: "obs", Obs: p.NObs, Src: c17WSShapes[shape], Flavor: "ws-" + shape, Via: "ws", Conn: len(conns)}
		conns = append(conns, &conn{cur: p.NObs, shapes: map[string]bool{shape: true}})
		own[c] = append(own[c], op.Conn)
		p.NObs++
		return op
	}
	p.Clients[0] = append(p.Clients[0], newConn(0, "str")) // witness
	total := r.Range(10, 26)
	for n := 0; n < total; n++ {
		c := r.Intn(nc)
		x := r.Intn(100)
		var op c17Op
		pickConn := func() *int {
			if len(own[c]) == 0 {
				return nil
			}
			k := core.Pick(r, own[c])
			return &k
		}
		switch {
		case x < 40:
			op = c17SysUpd(ids()...)
		case x < 48:
			op = c17SysUpdFail(r.Intn(3), ids()...)
		case x < 66:
			op = newConn(c, core.Pick(r, c17WSShapeNames))
		case x < 72: // an observer over gRPC next to the websocket ones
			op = c17SysObs(p.NObs, "identity", 0)
			p.NObs++
		case x < 90: // replace the observation on one of this client's connections
			k := pickConn()
			if k == nil || conns[*k].dead || len(conns[*k].shapes) == len(c17WSShapeNames) {
				op = c17SysUpd(ids()...)
				break
			}
			var free []string
			for _, sh := range c17WSShapeNames {
				if !conns[*k].shapes[sh] {
					free = append(free, sh)
				}
			}
			sh := core.Pick(r, free)
			op = c17Op{Kind: "resub", Obs: p.NObs, Old: conns[*k].cur, Src: c17WSShapes[sh], Flavor: "ws-" + sh, Via: "ws", Conn: *k}
			conns[*k].shapes[sh] = true
			conns[*k].cur = p.NObs
			p.NObs++
		default:
			k := pickConn()
			if k == nil {
				op = c17SysUpd(ids()...)
				break
			}
			op = c17Op{Kind: "kill", Obs: conns[*k].cur, Via: "ws", Conn: *k}
			conns[*k].dead = true
		}
		switch y := r.Intn(100); {
		case y < 20:
			op.Pre = 1
		case y < 35:
			op.Pre = 2 + r.Intn(300)
		}
		p.Clients[c] = append(p.Clients[c], op)
	}
	c := r.Intn(nc)
	for n := 0; n < 3; n++ {
		p.Clients[c] = append(p.Clients[c], c17SysUpd(ids()...))
	}
	p.NConn = len(conns)
	return p
}

type c17WSConn struct {
	ws   *websocket.Conn
	raw  net.Conn
	mu   sync.Mutex
	obs  map[string]*c17SysObserver // shape -> observation
	idx  map[string]int             // shape -> observer index
	done chan struct{}
	dead bool
}

func (s *c17SysRun) wsDial() (*c17WSConn, error) {
	c := &c17WSConn{obs: map[string]*c17SysObserver{}, idx: map[string]int{}, done: make(chan struct{})}
	d := websocket.Dialer{NetDialContext: func(ctx context.Context, network, addr string) (net.Conn, error) {
		nc, err := (&net.Dialer{}).DialContext(ctx, network, addr)
		c.raw = nc
		return nc, err
	}}
	ws, _, err := d.Dial("ws://"+s.wsAddr+"/", nil)
	if err != nil {
		return nil, err
	}
	c.ws = ws
	s.mu.Lock()
	s.wsConns = append(s.wsConns, c)
	s.mu.Unlock()
	go func() {
		var end error
		for {
			_, msg, err := ws.ReadMessage()
			if err != nil {
				end = err
				break
			}
			text := string(msg)
			c.mu.Lock()
			sh := c17WSShape(text)
			o, i := c.obs[sh], c.idx[sh]
			c.mu.Unlock()
			if o == nil {
				s.rec.add(c17Ev{E: "stray", Client: -1, Op: -1, Obs: -1, Val: text})
				continue
			}
			s.rec.add(c17Ev{E: "val", Client: -1, Op: -1, Obs: i, Val: text})
			o.once.Do(func() { close(o.first) })
		}
		c.mu.Lock()
		c.dead = true
		for sh, o := range c.obs {
			s.rec.add(c17Ev{E: "close", Client: -1, Op: -1, Obs: c.idx[sh], Err: c17ErrStr(end)})
			o.once.Do(func() { close(o.first) })
		}
		c.mu.Unlock()
		close(c.done)
	}()
	return c, nil
}

// subscribe sends the expression; the observation counts as subscribed at its first value.
func (c *c17WSConn) subscribe(obs int, shape, src string) (*c17SysObserver, error) {
	o := &c17SysObserver{first: make(chan struct{}), done: c.done, kill: c.reset}
	c.mu.Lock()
	if c.dead {
		c.mu.Unlock()
		o.once.Do(func() { close(o.first) })
		return o, nil
	}
	c.obs[shape], c.idx[shape] = o, obs
	c.mu.Unlock()
	if err := c.ws.WriteMessage(websocket.TextMessage, []byte(src)); err != nil {
		o.once.Do(func() { close(o.first) })
	}
	return o, nil
}

func (c *c17WSConn) reset() {
	if tc, ok := c.raw.(*net.TCPConn); ok {
		tc.SetLinger(0)
	}
	c.raw.Close()
}
