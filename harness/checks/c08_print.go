package checks

import "strings"

// Printer of the C08 AST. Parentheses are decided from the precedence / associativity table below,
// which is transcribed from the DOCUMENTED grammar syntax/arrai.wbnf (rule expr, the `>` separated
// levels, lowest precedence first; docs/docs/dev/grammar.md names that file as the definition):
//
//	 1  lhs (ARROW rhs | -> \p rhs | -> rhs)*      ARROW = :> => >> where ...; rhs is the NEXT level
//	 2  @:binop=">>>"            3  unop=/{:>|=>|>>}* @          4  with without
//	 5  ||     6  &&     7  +>     8  comparison chain (n-ary, one node)     9  x if t else f
//	10  ++ + | - -%     11  &~ & ~~ <&> ...     12  // * / % \     13  ^ (right to left: arithmetic.md)
//	14  prefix - + ! * ^     15  postfix count single     16  call / .attr     17  atoms
//
// Atoms include `\p body`, `let p = e1; e2` (and `t if c else f`'s f): their last sub-expression is a
// whole expr and extends as far as possible ("right-open"), so such a construct is printed bare only
// in tail position (nothing follows it inside the enclosing delimiters).
// Same-level binops are folded left to right ("standard precedence rules", arithmetic.md; setops.md).

const (
	c08PrecArrow = 1
	c08PrecWith  = 4
	c08PrecOr    = 5
	c08PrecAnd   = 6
	c08PrecMerge = 7
	c08PrecCmp   = 8
	c08PrecIf    = 9
	c08PrecAdd   = 10
	c08PrecInter = 11
	c08PrecMul   = 12
	c08PrecPow   = 13
	c08PrecUn    = 14
	c08PrecPost  = 15
	c08PrecCall  = 16
	c08PrecAtom  = 17
)

var c08BinPrec = map[string]int{
	"with": c08PrecWith, "without": c08PrecWith, "||": c08PrecOr, "&&": c08PrecAnd, "+>": c08PrecMerge,
	"++": c08PrecAdd, "+": c08PrecAdd, "|": c08PrecAdd, "-": c08PrecAdd, "-%": c08PrecAdd,
	"&~": c08PrecInter, "&": c08PrecInter, "~~": c08PrecInter, "<&>": c08PrecInter,
	"//": c08PrecMul, "*": c08PrecMul, "/": c08PrecMul, "%": c08PrecMul,
	"^": c08PrecPow,
}

func c08Prec(n *c08N) int {
	switch n.K {
	case c08KXform, c08KArrow:
		return c08PrecArrow
	case c08KBin:
		return c08BinPrec[n.Op]
	case c08KCmp:
		return c08PrecCmp
	case c08KIf:
		return c08PrecIf
	case c08KUn:
		return c08PrecUn
	case c08KPost:
		return c08PrecPost
	case c08KCall, c08KDot:
		return c08PrecCall
	}
	return c08PrecAtom
}

// c08RightOpen: the construct's last sub-expression is a full expr that swallows what follows.
func c08RightOpen(n *c08N) bool {
	switch n.K {
	case c08KLam, c08KLet, c08KIf:
		return true
	case c08KXform:
		return n.P != nil
	}
	return false
}

type c08Tok struct {
	S    string
	NoSp bool // default rendering puts no space before this token
	COK  bool // the documented grammar has C* at the boundary before this token
	Dot  bool // the token is the variable `.` (not the dot of an attribute access)
}

type c08Printer struct {
	toks     []c08Tok
	full     bool // parenthesise every compound sub-expression (R6)
	nextNoSp bool
	nextCOK  bool
	noLead   bool // suppress the comment mark before the next bare slot (no C* between prefix operators)
}

func (p *c08Printer) tok(s string) {
	p.toks = append(p.toks, c08Tok{S: s, NoSp: p.nextNoSp || len(p.toks) == 0, COK: p.nextCOK})
	p.nextNoSp, p.nextCOK = false, false
}
func (p *c08Printer) tokL(s string)  { p.nextNoSp = true; p.tok(s) }  // glued to the previous token
func (p *c08Printer) open(s string)  { p.tok(s); p.nextNoSp = true }  // next token glued
func (p *c08Printer) openL(s string) { p.tokL(s); p.nextNoSp = true } // glued on both sides
func (p *c08Printer) comma()         { p.tokL(",") }
func (p *c08Printer) markCOK()       { p.nextCOK = true }

func c08IsLeaf(n *c08N) bool {
	switch n.K {
	case c08KNum, c08KChar, c08KStr, c08KBool, c08KVar:
		return true
	}
	return false
}

// slot prints n at an expression position of the grammar: every level of rule expr starts and ends
// with C*, so a comment may precede and follow the printed sub-expression.
func (p *c08Printer) slot(n *c08N, minPrec int, tail bool, force bool) {
	need := force || c08Prec(n) < minPrec || (c08RightOpen(n) && !tail)
	if p.full && !c08IsLeaf(n) && n.K != c08KParen {
		need = true
	}
	if !p.noLead || need {
		p.markCOK()
	}
	p.noLead = false
	if need {
		p.open("(")
		p.markCOK()
		p.node(n, true)
		p.markCOK()
		p.tokL(")")
	} else {
		p.node(n, tail)
	}
	p.markCOK()
}

func (p *c08Printer) pat(q *c08P) {
	switch q.K {
	case c08PIdent, c08PNum:
		p.tok(q.Name)
	case c08PWild:
		p.tok("_")
	case c08PArr:
		p.open("[")
		first := true
		for _, s := range q.Sub {
			if !first {
				p.comma()
			}
			first = false
			p.pat(s)
		}
		if q.Rest != "" {
			if !first {
				p.comma()
			}
			first = false
			p.tok(q.Rest)
		}
		if first {
			p.nextNoSp = true
		}
		p.tokL("]")
	case c08PTup:
		p.open("(")
		first := true
		for i, s := range q.Sub {
			if !first {
				p.comma()
			}
			first = false
			p.tok(q.Names[i])
			p.tokL(":")
			p.pat(s)
		}
		if q.Rest != "" {
			if !first {
				p.comma()
			}
			first = false
			p.tok(q.Rest)
		}
		if first {
			p.nextNoSp = true
		}
		p.tokL(")")
	}
}

func (p *c08Printer) list(openS, closeS string, items []*c08N) {
	p.open(openS)
	for i, c := range items {
		if i > 0 {
			p.comma()
		}
		p.slot(c, 0, true, false)
	}
	p.nextCOK = false
	p.tokL(closeS)
}

func (p *c08Printer) node(n *c08N, tail bool) {
	switch n.K {
	case c08KNum, c08KBool:
		p.tok(n.Op)
	case c08KVar:
		p.tok(n.Op)
		if n.Op == "." {
			p.toks[len(p.toks)-1].Dot = true
		}
	case c08KChar:
		p.tok("%" + n.Op)
	case c08KStr:
		p.tok("\"" + n.Op + "\"")
	case c08KArr:
		p.list("[", "]", n.Ch)
	case c08KSet:
		p.list("{", "}", n.Ch)
	case c08KTup:
		p.open("(")
		for i, c := range n.Ch {
			if i > 0 {
				p.comma()
			}
			p.nextCOK = false
			p.tok(n.Ops[i])
			p.tokL(":")
			p.slot(c, 0, true, false)
		}
		p.nextCOK = false
		p.tokL(")")
	case c08KDict:
		p.open("{")
		for i := 0; i+1 < len(n.Ch); i += 2 {
			if i > 0 {
				p.comma()
			}
			p.slot(n.Ch[i], 0, false, false)
			p.tokL(":")
			p.slot(n.Ch[i+1], 0, true, false)
		}
		p.nextCOK = false
		p.tokL("}")
	case c08KRel:
		p.open("{")
		p.open("|")
		for i, h := range n.Ops {
			if i > 0 {
				p.comma()
			}
			p.tok(h)
		}
		p.tokL("|")
		w := len(n.Ops)
		for r := 0; r*w < len(n.Ch); r++ {
			if r > 0 {
				p.comma()
			}
			p.open("(")
			for c := 0; c < w; c++ {
				if c > 0 {
					p.comma()
				}
				p.slot(n.Ch[r*w+c], 0, true, false)
			}
			p.nextCOK = false
			p.tokL(")")
		}
		p.tokL("}")
	case c08KParen:
		p.open("(")
		p.slot(n.Ch[0], 0, true, false)
		p.tokL(")")
	case c08KBin:
		np := c08Prec(n)
		lp, rp := np, np+1
		if n.Op == "^" {
			lp, rp = np+1, np
		}
		p.slot(n.Ch[0], lp, false, false)
		p.tok(n.Op)
		p.slot(n.Ch[1], rp, tail, false)
	case c08KUn:
		p.tok(n.Op)
		c := n.Ch[0]
		if c.K != c08KUn && c.K != c08KChar && !p.full {
			p.nextNoSp = true
		}
		p.noLead = c.K == c08KUn
		p.slot(c, c08PrecUn, tail, false)
	case c08KPost:
		p.slot(n.Ch[0], c08PrecCall, false, false)
		p.tok(n.Op)
	case c08KCmp:
		for i, c := range n.Ch {
			if i > 0 {
				p.tok(n.Ops[i-1])
			}
			p.slot(c, c08PrecCmp+1, tail && i == len(n.Ch)-1, false)
		}
	case c08KIf:
		p.slot(n.Ch[0], c08PrecIf+1, false, false)
		p.tok("if")
		p.slot(n.Ch[1], 0, false, false)
		p.tok("else")
		p.slot(n.Ch[2], 0, true, false)
	case c08KCond:
		p.tok("cond")
		p.open("{")
		for i := 0; i < len(n.Ch); i += 2 {
			if i > 0 {
				p.comma()
			}
			if n.Def && i == len(n.Ch)-1 {
				p.tok("_")
				p.tokL(":")
				p.slot(n.Ch[i], 0, true, false)
				break
			}
			p.slot(n.Ch[i], 0, false, false)
			p.tokL(":")
			p.slot(n.Ch[i+1], 0, true, false)
		}
		p.nextCOK = false
		p.tokL("}")
	case c08KCondV:
		p.tok("cond")
		// `cond {` always starts the form without a control expression (first alternative of the grammar),
		// so a control expression whose own first token is `{` has to be parenthesised
		probe := &c08Printer{full: p.full}
		probe.slot(n.Ch[0], 0, false, false)
		p.slot(n.Ch[0], 0, false, probe.toks[0].S == "{")
		p.nextCOK = false
		p.open("{")
		for i, q := range n.Ps {
			if i > 0 {
				p.comma()
			}
			p.nextCOK = false
			p.pat(q)
			p.tokL(":")
			p.slot(n.Ch[1+i], 0, true, false)
		}
		p.nextCOK = false
		p.tokL("}")
	case c08KLet:
		p.tok("let")
		p.pat(n.P)
		p.tok("=")
		p.slot(n.Ch[0], 0, true, false)
		p.tokL(";")
		p.slot(n.Ch[1], 0, true, false)
	case c08KLam:
		p.open("\\")
		p.pat(n.P)
		p.slot(n.Ch[0], 0, true, false)
	case c08KArrow:
		p.slot(n.Ch[0], c08PrecArrow, false, false)
		p.tok("->")
		if n.P != nil {
			p.markCOK()
			p.open("\\")
			p.pat(n.P)
			p.slot(n.Ch[1], c08PrecArrow+1, tail, false)
		} else {
			// a bare `\x e` here would be read as the explicit binder, not as a function-valued body
			p.slot(n.Ch[1], c08PrecArrow+1, tail, n.Ch[1].K == c08KLam)
		}
	case c08KXform:
		p.slot(n.Ch[0], c08PrecArrow, false, false)
		p.tok(n.Op)
		if n.P != nil {
			p.markCOK()
			p.open("\\")
			p.pat(n.P)
			p.slot(n.Ch[1], 0, true, false)
		} else {
			p.slot(n.Ch[1], c08PrecArrow+1, tail, n.Ch[1].K == c08KLam)
		}
	case c08KCall:
		f := n.Ch[0]
		p.slot(f, c08PrecCall, false, f.K == c08KVar && f.Op == ".")
		p.nextCOK = false // tail_op has no C* before "("
		p.openL("(")
		p.slot(n.Ch[1], 0, true, false)
		p.tokL(")")
	case c08KDot:
		s := n.Ch[0]
		if s.K == c08KVar && s.Op == "." && !p.full {
			p.open(".")
			p.tok(n.Op)
			break
		}
		// `1.a` would lex the dot into the number; `..a` is not `(.).a`
		p.slot(s, c08PrecCall, false, s.K == c08KNum || s.K == c08KVar && s.Op == ".")
		p.openL(".")
		p.tok(n.Op)
	}
}

// c08Print returns the token stream of the program (minimal or full parenthesisation).
func c08Print(root *c08N, full bool) []c08Tok {
	p := &c08Printer{full: full}
	if full && !c08IsLeaf(root) && root.K != c08KParen {
		// the root itself is left bare; its sub-expressions are all parenthesised
		p.markCOK()
		p.node(root, true)
	} else {
		p.slot(root, 0, true, false)
	}
	// exprs.md: `.attr` is shorthand for `(.).attr`, and the grammar's get rule accepts white space after
	// the dot, so the variable `.` directly followed by a name, a string, `&`, `~` or `|` would be read as
	// an attribute access / projection (`. if c else x` is `.if ...`). The documented spelling `(.)` is
	// used there.
	for i := range p.toks {
		if !p.toks[i].Dot || i+1 >= len(p.toks) {
			continue
		}
		c := p.toks[i+1].S[0]
		if c == '_' || c == '@' || c == '$' || c == '"' || c == '&' || c == '~' || c == '|' || c >= 'a' && c <= 'z' || c >= 'A' && c <= 'Z' {
			p.toks[i].S = "(.)"
		}
	}
	return p.toks
}

// c08Render joins tokens; sep overrides the separator before token i (i>=1).
func c08Render(toks []c08Tok, sep map[int]string) string {
	var sb strings.Builder
	for i, t := range toks {
		if i > 0 {
			if s, ok := sep[i]; ok {
				sb.WriteString(s)
			} else if !t.NoSp {
				sb.WriteByte(' ')
			}
		}
		sb.WriteString(t.S)
	}
	return sb.String()
}

func c08Src(root *c08N) string { return c08Render(c08Print(root, false), nil) }
