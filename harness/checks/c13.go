package checks

import (
	"fmt"
	"math"
	"math/big"
	"sort"
	"strconv"
	"strings"
	"sync"

	"verif/core"

	"github.com/arr-ai/arrai/rel"
)

// C13: data codecs round-trip — JSON, YAML, CSV, //bits and the server wire format.
//
// Oracles (all at the API boundary, by content / denotation):
//  (a) JSON  d: enc(dec(d)) parses (encoding/json, trusted) to the content of d; dec(enc(dec(d))) = dec(d).
//            strict (default) translators: exact content. non-strict: content modulo the documented
//            collapse ""/[]/{}/false -> null, plus idempotence.
//  (b) YAML  likewise with gopkg.in/yaml.v3 as the trusted parser.
//  (c) CSV   dec(enc(m)) = m for string matrices under matching options (or enc rejects what CSV
//            cannot express).
//  (d) bits  mask(set(n)) = n for integers 0 <= n < 2^53, set(mask(s)) = s for s ⊆ {0..52};
//            inputs outside that domain: error or a correct inverse, never a panic / wrong number.
//  (e) wire  UnmarshalFromJSON(MarshalToJSON(v)) = v, or rejected with an error.
//  (f) strict encoders: for every data value v, enc(v) is an error or dec(enc(v)) = v modulo the
//            strict tags (s:/a:/b:) — "rejected, not silently changed".

type c13 struct{}

func init() { core.Register(c13{}) }

func (c13) ID() string    { return "C13" }
func (c13) Level() string { return "exploration" }
func (c13) Rule() string {
	return "families json|yaml|csv|bits|wire|repr; each = seed-independent core corpus (json/yaml: every document of depth<=1 over 7 leaves x 3 keys, their single/pair containers, every corner string and number spelling, YAML hand corpus; csv: every matrix of <=2 rows x <=2 fields over 8 hostile fields x 4 option sets; bits: every n<4096, 2^k, 2^k±1, out-of-domain list; wire/repr: one value of every class) + seeded random slice (documents depth<=5, strings over C0/C1/BMP/astral ranges, number spellings, wide objects; matrices <=6x6; 53-bit integers; random data values with hostile sub-values). A sub-case is one (family, mode, document|matrix|number|value); distinct by its literal text; non-trivial when the document/value is not a bare scalar (json/yaml/wire/repr), the matrix has >=1 field (csv), n>=2 (bits)."
}
func (c13) Assumptions() []string {
	return []string{
		"encoding/json and gopkg.in/yaml.v3 are trusted as parsers of the original and the re-encoded document; content = their parse, numbers compared as float64",
		"generated objects have no duplicate keys; YAML streams hold one document; documents are non-empty (an empty arr.ai string/bytes is the empty set)",
		"non-strict translators are judged modulo the documented collapse of \"\", [], {}, false to null",
		"CSV: matching options = same comma; fieldsPerRecord=-1 for ragged matrices; comment/trimLeadingSpace/lazyQuotes unset",
		"wire format judged through rel.MarshalToJSON / rel.UnmarshalFromJSON (what serve_grpc.go / observe.go call), not through a socket",
		"invalid surrogate escapes and non-UTF-8 input are outside the quantifier (strings over Unicode scalar values)",
	}
}

// ---------------------------------------------------------------------------------------------
// case plan

type c13Seg struct {
	fam    string
	core   int // number of core cases
	random int // number of random cases
}

const (
	c13JSONBatch = 40
	c13YAMLBatch = 25
	c13CSVBatch  = 300
	c13BitsBatch = 256
	c13ValBatch  = 20
	c13RandDocs  = 20
	c13RandMats  = 25
	c13RandBits  = 60
)

var (
	c13Once     sync.Once
	c13Docs     []*c13Node
	c13Mats     [][][]string
	c13BitsCore []float64
	c13Vals     []*c13Val
)

func c13Init() {
	c13Once.Do(func() {
		c13Docs = c13CoreDocs()
		c13Mats = c13CoreMatrices()
		c13BitsCore = c13CoreBits()
		c13Vals = c13CoreVals()
	})
}

func c13Ceil(n, b int) int { return (n + b - 1) / b }

func c13Plan(cfg *core.Config) []c13Seg {
	c13Init()
	return []c13Seg{
		{"json", c13Ceil(len(c13Docs), c13JSONBatch), cfg.Pick(200, 7000)},
		{"yaml", c13Ceil(len(c13Docs), c13YAMLBatch) + c13Ceil(len(c13YAMLCorpus), c13YAMLBatch), cfg.Pick(120, 4500)},
		{"csv", c13Ceil(len(c13Mats), c13CSVBatch), cfg.Pick(150, 4000)},
		{"bits", c13Ceil(len(c13BitsCore), c13BitsBatch) + 1, cfg.Pick(60, 1500)},
		{"wire", c13Ceil(len(c13Vals), c13ValBatch), cfg.Pick(150, 5000)},
		{"repr", c13Ceil(len(c13Vals), c13ValBatch), cfg.Pick(150, 5000)},
	}
}

func (c13) NumCases(cfg *core.Config) int {
	n := 0
	for _, s := range c13Plan(cfg) {
		n += s.core + s.random
	}
	return n
}

// The plan is laid out round-robin over families so that every worker shard sees every family.
func c13Locate(cfg *core.Config, i int) (fam string, k int, random bool) {
	plan := c13Plan(cfg)
	left := make([]int, len(plan))
	for j, s := range plan {
		left[j] = s.core + s.random
	}
	// round-robin: position i is the (i/len)-th case of family (i%len) while all families last;
	// computed arithmetically to stay O(families).
	done := make([]int, len(plan))
	rem := i
	for {
		active := 0
		minLeft := math.MaxInt32
		for j := range plan {
			if left[j] > 0 {
				active++
				if left[j] < minLeft {
					minLeft = left[j]
				}
			}
		}
		if active == 0 {
			return "", 0, false
		}
		if rem < minLeft*active {
			// rotate the family order every round, so that a worker shard (cases i ≡ s mod
			// stride) is not pinned to one family when stride and the family count share a factor
			round := rem / active
			pos := (rem%active + round) % active
			for j := range plan {
				if left[j] > 0 {
					if pos == 0 {
						k = done[j] + round
						return plan[j].fam, k, k >= plan[j].core
					}
					pos--
				}
			}
		}
		rem -= minLeft * active
		for j := range plan {
			if left[j] > 0 {
				left[j] -= minLeft
				done[j] += minLeft
			}
		}
	}
}

// ---------------------------------------------------------------------------------------------
// judge

type c13J struct {
	res  *core.CaseResult
	seen map[string]bool
	fam  string
}

func (j *c13J) cover(tag string) { j.res.Cover = append(j.res.Cover, tag) }

func (j *c13J) viol(clause, entry, mode, site string, hazards []string, delta, detail string, replay map[string]string) {
	sig := core.Signature{Clause: clause, Entry: entry, Mode: mode, Site: site, Hazards: hazards, Delta: delta}
	k := sig.String()
	if j.seen[k] {
		return
	}
	j.seen[k] = true
	j.res.Viols = append(j.res.Viols, core.Violation{Sig: sig, Detail: detail, Replay: replay})
}

// failMode classifies a non-value outcome.
func c13FailMode(o core.Outcome) (mode, site, text string) {
	if o.Panic != nil {
		return "panic", o.Panic.Sig(), "panic: " + o.Panic.Msg
	}
	t := core.ErrText(o.Err)
	if i := strings.Index(t, "\n"); i > 0 {
		t = t[:i]
	}
	return "error-for-value", "", "error: " + t
}

func c13Clip(s string, n int) string {
	if len(s) > n {
		return s[:n] + "…"
	}
	return s
}

// c13BytesOf extracts the bytes a codec returned (Bytes, or the empty set for no output).
func c13BytesOf(v rel.Value) ([]byte, bool) {
	switch x := v.(type) {
	case rel.Bytes:
		return x.Bytes(), true
	case rel.String:
		return []byte(x.String()), true
	case rel.Set:
		if !x.IsTrue() {
			return []byte{}, true
		}
	}
	return nil, false
}

func (c13) RunCase(cfg *core.Config, i int) core.CaseResult {
	c13Init()
	fam, k, random := c13Locate(cfg, i)
	res := core.CaseResult{Key: fmt.Sprintf("%s#%d/%v", fam, k, random), NonTrivial: false}
	j := &c13J{res: &res, seen: map[string]bool{}, fam: fam}
	// the random stream is keyed by (family, index within the family), not by the case number
	famNo := map[string]uint64{"json": 1, "yaml": 2, "csv": 3, "bits": 4, "wire": 5, "repr": 6}[fam]
	r := core.NewRng(cfg.Seed, 13, famNo, uint64(k))
	switch fam {
	case "json":
		j.runJSON(k, random, r)
	case "yaml":
		j.runYAML(k, random, r)
	case "csv":
		j.runCSV(k, random, r)
	case "bits":
		j.runBits(k, random, r)
	case "wire":
		j.runWire(k, random, r)
	case "repr":
		j.runRepr(k, random, r)
	}
	if res.Evals == 0 {
		res.Evals = 1
	}
	return res
}

func c13Batch[T any](xs []T, k, b int) []T {
	lo, hi := k*b, (k+1)*b
	if lo > len(xs) {
		lo = len(xs)
	}
	if hi > len(xs) {
		hi = len(xs)
	}
	return xs[lo:hi]
}

// ---------------------------------------------------------------------------------------------
// (a) JSON, (b) YAML

type c13Codec struct {
	name     string // json | yaml
	dec, enc [2]string
	alt      []string // alternative encoders (strict), same content expected
	altLax   []string
	parse    func([]byte) (*c13Node, error)
}

var c13JSONCodec = c13Codec{
	name:   "json",
	dec:    [2]string{"//encoding.json.decode(d)", "//encoding.json.decoder((strict: false))(d)"},
	enc:    [2]string{"//encoding.json.encode(v)", "//encoding.json.encoder((strict: false))(v)"},
	alt:    []string{"//encoding.json.encode_indent(v)", `//encoding.json.encoder((indent: "\t", escapeHTML: true))(v)`, "//encoding.json.encoder((strict: true))(v)"},
	altLax: []string{"//encoding.json.encoder((strict: false, indent: ' ', escapeHTML: true))(v)"},
	parse:  c13ParseJSON,
}

var c13YAMLCodec = c13Codec{
	name:   "yaml",
	dec:    [2]string{"//encoding.yaml.decode(d)", "//encoding.yaml.decoder((strict: false))(d)"},
	enc:    [2]string{"//encoding.yaml.encode(v)", "//encoding.yaml.encoder((strict: false))(v)"},
	alt:    []string{"//encoding.yaml.encoder((indent: 2))(v)", "//encoding.yaml.encoder((strict: true, indent: 7))(v)"},
	altLax: []string{"//encoding.yaml.encoder((strict: false, indent: 2))(v)"},
	parse:  c13ParseYAML,
}

func c13EntryName(tmpl string) string {
	return strings.TrimSuffix(strings.TrimSuffix(tmpl, "(v)"), "(d)")
}

// roundTrip judges one document under one translator mode. want = content per the trusted parser.
//
// Idempotence: strict translators must satisfy dec(enc(dec(d))) = dec(d) outright. The non-strict
// ones are documented to collapse ""/[]/{}/false to null (and null decodes to ()), so there the
// clause is applied to the collapsed document d' = enc(dec(d)), which holds no such values
// (stage 1): enc(dec(d')) has the content of d' and dec(enc(dec(d'))) = dec(d').
func (j *c13J) roundTrip(c *c13Codec, d []byte, want *c13Node, lax int, asString bool, withAlts bool) {
	j.roundTripStage(c, d, want, lax, asString, withAlts, 0)
}

func (j *c13J) roundTripStage(c *c13Codec, d []byte, want *c13Node, lax int, asString bool, withAlts bool, stage int) {
	modeName := [2]string{"strict", "lax"}[lax]
	fam := c.name
	hz := map[string]bool{}
	c13DocHazardsFor(want, hz, fam == "yaml")
	hazards := c13HazardList(hz)
	replay := map[string]string{"family": fam, "mode": modeName, "document": string(d)}
	desc := fmt.Sprintf("%s %s document %s", fam, modeName, strconv.QuoteToASCII(c13Clip(string(d), 300)))
	if stage == 1 {
		desc = fmt.Sprintf("%s %s document (the collapsed re-encoding) %s", fam, modeName, strconv.QuoteToASCII(c13Clip(string(d), 300)))
	}
	var carrier rel.Value = rel.NewBytes(d)
	if asString {
		carrier = rel.NewString([]rune(string(d)))
		j.cover(fam + "/carrier:string")
	}
	clauseRT, clauseID := "C13."+fam+"-roundtrip", "C13."+fam+"-idempotent"

	j.res.Evals++
	o1 := core.EvalT(c.dec[lax], "d", carrier)
	if !o1.OK() {
		mode, site, text := c13FailMode(o1)
		j.viol(clauseRT, c13EntryName(c.dec[lax]), mode, site, hazards, "", desc+": decode "+text, replay)
		return
	}
	d1, pi := core.SafeDenote(o1.Val)
	if pi != nil {
		j.viol(clauseRT, c13EntryName(c.dec[lax]), "panic", "denote: "+pi.Sig(), hazards, "", desc+": decoded value cannot be enumerated: "+pi.Msg, replay)
		return
	}
	wantC := want
	if lax == 1 {
		wantC = c13Collapse(want)
	}
	encode := func(tmpl string) ([]byte, bool) {
		j.res.Evals++
		o2 := core.EvalT(tmpl, "v", o1.Val)
		if !o2.OK() {
			mode, site, text := c13FailMode(o2)
			j.viol(clauseRT, c13EntryName(tmpl), mode, site, hazards, "", desc+": re-encode of decoded value "+c13Clip(core.Src(d1), 200)+" "+text, replay)
			return nil, false
		}
		e1, ok := c13BytesOf(o2.Val)
		if !ok {
			j.viol(clauseRT, c13EntryName(tmpl), "not-bytes", "", hazards, "", desc+": encoder returned "+core.TypeName(o2.Val), replay)
			return nil, false
		}
		got, err := c.parse(e1)
		if err != nil {
			j.viol(clauseRT, c13EntryName(tmpl), "changed:unparseable-output", "", hazards, "", fmt.Sprintf("%s: re-encoded %s is rejected by the trusted parser: %v", desc, strconv.QuoteToASCII(c13Clip(string(e1), 200)), err), replay)
			return nil, false
		}
		if delta := c13Diff(wantC, got); delta != "" {
			j.viol(clauseRT, fam+"."+modeName, "changed:content", "", hazards, delta,
				fmt.Sprintf("%s: via %s re-encoded as %s; content %s, want %s", desc, c13EntryName(tmpl), strconv.QuoteToASCII(c13Clip(string(e1), 300)), c13Clip(got.enc(), 300), c13Clip(wantC.enc(), 300)), replay)
			return e1, false
		}
		return e1, true
	}
	e1, ok := encode(c.enc[lax])
	if e1 != nil && lax == 1 && stage == 0 {
		if ok && len(e1) > 0 {
			j.cover(fam + "/lax/collapsed-content-ok")
			j.roundTripStage(c, e1, wantC, lax, false, false, 1)
		}
	} else if e1 != nil {
		// idempotence is judged whether or not the content matched (separate clause)
		j.res.Evals++
		o3 := core.EvalT(c.dec[lax], "d", rel.NewBytes(e1))
		if len(e1) == 0 {
			// nothing to decode: an empty bytes value is the empty set
		} else if !o3.OK() {
			mode, site, text := c13FailMode(o3)
			if mode == "error-for-value" {
				mode = "changed:undecodable-output"
			}
			j.viol(clauseID, c13EntryName(c.dec[lax]), mode, site, hazards, "", desc+": decoding the re-encoded document "+strconv.QuoteToASCII(c13Clip(string(e1), 200))+" "+text, replay)
			ok = false
		} else if d3, pi := core.SafeDenote(o3.Val); pi != nil {
			j.viol(clauseID, c13EntryName(c.dec[lax]), "panic", "denote: "+pi.Sig(), hazards, "", desc+": "+pi.Msg, replay)
			ok = false
		} else if d3.Enc != d1.Enc {
			j.viol(clauseID, fam+"."+modeName, "changed:not-idempotent", "", hazards, c13Walk(d1, d3),
				fmt.Sprintf("%s: dec(d) = %s but dec(enc(dec(d))) = %s", desc, c13Clip(core.Src(d1), 300), c13Clip(core.Src(d3), 300)), replay)
			ok = false
		}
	}
	if ok && !(lax == 1 && stage == 0) {
		j.cover(fam + "/" + modeName + "/roundtrip-ok")
	}
	if withAlts {
		alts := c.alt
		if lax == 1 {
			alts = c.altLax
		}
		for _, a := range alts {
			if _, ok := encode(a); ok {
				j.cover(fam + "/alt-encoder-ok")
			}
		}
	}
}

func c13DocDepth(n *c13Node) int {
	d := 0
	for _, e := range n.A {
		if x := c13DocDepth(e) + 1; x > d {
			d = x
		}
	}
	for _, e := range n.Vals {
		if x := c13DocDepth(e) + 1; x > d {
			d = x
		}
	}
	return d
}

func (j *c13J) docCover(fam string, n *c13Node) {
	j.cover(fam + "/top:" + c13KindName[n.K])
	j.cover(fam + "/depth:" + strconv.Itoa(c13DocDepth(n)))
}

var c13JSONOverflowDocs = []string{"1e400", "-1e400", "[1e999]", `{"a": 1E+309}`, `[0, {"k": [2e308]}]`, "1.8e308"}

func (j *c13J) runJSON(k int, random bool, r *core.Rng) {
	var docs []*c13Node
	if !random {
		docs = c13Batch(c13Docs, k, c13JSONBatch)
	} else {
		g := &c13Gen{r: r, hostile: true, maxDepth: 5}
		for n := 0; n < c13RandDocs; n++ {
			docs = append(docs, g.randDoc(0))
		}
	}
	if !random && k == 0 {
		for _, raw := range c13JSONOverflowDocs {
			docs = append(docs, &c13Node{K: '?', S: raw})
		}
	}
	for n, T := range docs {
		// overflow spellings cannot be content: the trusted parser itself rejects them
		var d []byte
		switch {
		case T.K == '?':
			d = []byte(T.S)
		case random || n%2 == 1:
			d = c13RenderJSON(r, T)
		default:
			d = c13RenderJSON(nil, T)
		}
		want, err := c13ParseJSON(d)
		if err != nil {
			if strings.Contains(err.Error(), "cannot unmarshal number") {
				// number outside float64: not representable => decode must reject
				j.res.Evals++
				o := core.EvalT(c13JSONCodec.dec[0], "d", rel.NewBytes(d))
				switch {
				case o.Panic != nil:
					j.viol("C13.json-reject", "//encoding.json.decode", "panic", o.Panic.Sig(), []string{"number:overflow"}, "", "document "+string(d)+": "+o.Panic.Msg, map[string]string{"document": string(d)})
				case o.Err == nil:
					j.viol("C13.json-reject", "//encoding.json.decode", "value-for-error", "", []string{"number:overflow"}, "", "document "+c13Clip(string(d), 200)+" holds a number outside float64 but decoded to "+outcomeText(o), map[string]string{"document": string(d)})
				default:
					j.cover("json/rejected:number-overflow")
				}
				continue
			}
			j.res.Inconclusive = "generator produced JSON the trusted parser rejects: " + err.Error() + ": " + c13Clip(string(d), 200)
			continue
		}
		if c13Diff(T, want) != "" {
			j.res.Inconclusive = "generator self-check: rendered JSON does not parse to the intended content: " + c13Clip(string(d), 200)
			continue
		}
		if T.K == 'a' || T.K == 'o' {
			j.res.SubKeys = append(j.res.SubKeys, "json:"+string(d))
		}
		j.docCover("json", want)
		asString := n%4 == 3 && len(d) > 0
		j.roundTrip(&c13JSONCodec, d, want, 0, asString, random || n%2 == 0)
		j.roundTrip(&c13JSONCodec, d, want, 1, asString, n%5 == 0)
		if n == 0 && (k%23 == 0) {
			j.res.Sample = "json document " + strconv.QuoteToASCII(c13Clip(string(d), 160)) + " through strict and non-strict decode/encode/decode + 4 alternative encoders"
		}
	}
}

func (j *c13J) runYAML(k int, random bool, r *core.Rng) {
	type ydoc struct {
		d    []byte
		T    *c13Node // intent (nil for hand corpus)
		kind string
	}
	var docs []ydoc
	nCoreDoc := c13Ceil(len(c13Docs), c13YAMLBatch)
	switch {
	case random:
		g := &c13Gen{r: r, yaml: true, hostile: r.Chance(1, 3), maxDepth: 5}
		for n := 0; n < c13RandDocs; n++ {
			T := g.randDoc(0)
			if n%3 == 0 {
				docs = append(docs, ydoc{c13RenderYAMLFlow(r, T), T, "flow"})
			} else if b, err := c13RenderYAMLBlock(r, T); err == nil {
				docs = append(docs, ydoc{b, T, "block"})
			} else {
				j.cover("yaml/skip:emitter-refused")
			}
		}
	case k < nCoreDoc:
		for n, T := range c13Batch(c13Docs, k, c13YAMLBatch) {
			if n%2 == 0 {
				if b, err := c13RenderYAMLBlock(r, T); err == nil {
					docs = append(docs, ydoc{b, T, "block"})
					continue
				}
			}
			docs = append(docs, ydoc{c13RenderYAMLFlow(nil, T), T, "flow"})
		}
	default:
		for _, s := range c13Batch(c13YAMLCorpus, k-nCoreDoc, c13YAMLBatch) {
			docs = append(docs, ydoc{[]byte(s), nil, "hand"})
		}
	}
	for n, yd := range docs {
		want, err := c13ParseYAML(yd.d)
		if err != nil {
			j.cover("yaml/skip:trusted-parser-rejects")
			continue
		}
		if strings.Contains(want.enc(), "?") && c13HasOther(want) {
			j.cover("yaml/skip:unknown-go-type")
			continue
		}
		if yd.T != nil && c13Diff(yd.T, want) != "" {
			// the generator's intent is not the oracle; the trusted parse is. Counted only.
			j.cover("yaml/gen-intent-differs")
		}
		if len(yd.d) == 0 {
			continue
		}
		if want.K == 'a' || want.K == 'o' {
			j.res.SubKeys = append(j.res.SubKeys, "yaml:"+string(yd.d))
		}
		j.cover("yaml/style:" + yd.kind)
		j.docCover("yaml", want)
		j.roundTrip(&c13YAMLCodec, yd.d, want, 0, n%4 == 3, n%2 == 0)
		j.roundTrip(&c13YAMLCodec, yd.d, want, 1, n%4 == 3, n%5 == 0)
		if n == 1 && (k%17 == 0) {
			j.res.Sample = "yaml (" + yd.kind + ") document " + strconv.QuoteToASCII(c13Clip(string(yd.d), 160)) + " through strict and non-strict decode/encode/decode"
		}
	}
}

func c13HasOther(n *c13Node) bool {
	if n.K == '?' {
		return true
	}
	for _, e := range n.A {
		if c13HasOther(e) {
			return true
		}
	}
	for i := range n.Keys {
		if c13HasOther(n.Keys[i]) || c13HasOther(n.Vals[i]) {
			return true
		}
	}
	return false
}

// ---------------------------------------------------------------------------------------------
// (c) CSV

var c13CSVFields = []string{"", "a", ",", "\"", "\n", "\r", " ", "é;\t"}

type c13CSVOpt struct {
	comma rune
	crlf  bool
	plain bool // use //encoding.csv.encode / decode without config
}

var c13CSVCoreOpts = []c13CSVOpt{{',', false, true}, {';', false, false}, {',', true, false}, {'\t', true, false}}

func c13CoreMatrices() [][][]string {
	var rows [][]string
	rows = append(rows, []string{})
	for _, a := range c13CSVFields {
		rows = append(rows, []string{a})
	}
	for _, a := range c13CSVFields {
		for _, b := range c13CSVFields {
			rows = append(rows, []string{a, b})
		}
	}
	ms := [][][]string{{}}
	for _, a := range rows {
		ms = append(ms, [][]string{a})
	}
	for _, a := range rows {
		for _, b := range rows {
			ms = append(ms, [][]string{a, b})
		}
	}
	return ms
}

func c13ValidComma(c rune) bool {
	return c != 0 && c != '"' && c != '\r' && c != '\n' && c != 0xfffd && (c < 0xd800 || c > 0xdfff) && c <= 0x10ffff
}

func c13MatrixValue(m [][]string) rel.Value {
	rows := make([]rel.Value, len(m))
	for i, row := range m {
		fs := make([]rel.Value, len(row))
		for k, f := range row {
			fs[k] = rel.NewString([]rune(f))
		}
		rows[i] = rel.NewArray(fs...)
	}
	return rel.NewArray(rows...)
}

// c13MatrixOf reads a decoded value back as a string matrix through its denotation.
func c13MatrixOf(m core.MV) ([][]string, bool) {
	if c := c13Coarse(m); c != "arr" && c != "empty" {
		return nil, false
	}
	var out [][]string
	for _, row := range c13Items(m, "@item") {
		if c := c13Coarse(row); c != "arr" && c != "empty" {
			return nil, false
		}
		fs := []string{}
		for _, f := range c13Items(row, "@item") {
			c := c13Coarse(f)
			if c != "str" && c != "empty" {
				return nil, false
			}
			rs := make([]rune, len(f.S))
			for _, e := range f.S {
				rs[int(e.T["@"].N)] = rune(e.T["@char"].N)
			}
			fs = append(fs, string(rs))
		}
		out = append(out, fs)
	}
	return out, true
}

func (j *c13J) csvOne(m [][]string, opt c13CSVOpt) {
	hz := map[string]bool{}
	width, ragged, fields := -1, false, 0
	for _, row := range m {
		fields += len(row)
		if width >= 0 && len(row) != width {
			ragged = true
		}
		width = len(row)
		if len(row) == 0 {
			hz["row:zero-width"] = true
		}
		if len(row) == 1 && row[0] == "" {
			hz["row:lone-empty-field"] = true
		}
		for _, f := range row {
			if strings.ContainsRune(f, '\r') {
				hz["field:cr"] = true
			}
		}
	}
	if len(m) == 0 {
		hz["matrix:no-rows"] = true
	}
	if ragged {
		hz["matrix:ragged"] = true
	}
	if !c13ValidComma(opt.comma) {
		hz["comma:invalid"] = true
	}
	hazards := c13HazardList(hz)
	desc := fmt.Sprintf("csv matrix %q comma=%q crlf=%v", m, opt.comma, opt.crlf)
	replay := map[string]string{"family": "csv", "matrix": fmt.Sprintf("%q", m), "comma": string(opt.comma), "crlf": fmt.Sprint(opt.crlf)}
	mv := c13MatrixValue(m)
	var o1 core.Outcome
	j.res.Evals++
	encName := "//encoding.csv.encode"
	if opt.plain {
		o1 = core.EvalT("//encoding.csv.encode(m)", "m", mv)
	} else {
		encName = "//encoding.csv.encoder"
		o1 = core.EvalT("//encoding.csv.encoder((comma: c, crlf: k))(m)", "m", mv, "c", rel.NewNumber(float64(opt.comma)), "k", rel.NewBool(opt.crlf))
	}
	if o1.Panic != nil {
		j.viol("C13.csv-roundtrip", encName, "panic", o1.Panic.Sig(), hazards, "", desc+": "+o1.Panic.Msg, replay)
		return
	}
	if o1.Err != nil {
		if hz["comma:invalid"] || hz["row:zero-width"] {
			j.cover("csv/rejected")
			return
		}
		_, _, text := c13FailMode(o1)
		j.viol("C13.csv-roundtrip", encName, "error-for-value", "", hazards, "", desc+": encode "+text, replay)
		return
	}
	j.res.Evals++
	var o2 core.Outcome
	decName := "//encoding.csv.decode"
	fpr := 0
	if ragged {
		fpr = -1
	}
	if opt.plain && !ragged {
		o2 = core.EvalT("//encoding.csv.decode(d)", "d", o1.Val)
	} else {
		decName = "//encoding.csv.decoder"
		o2 = core.EvalT("//encoding.csv.decoder((comma: c, fieldsPerRecord: f))(d)", "d", o1.Val, "c", rel.NewNumber(float64(opt.comma)), "f", rel.NewNumber(float64(fpr)))
	}
	enc, _ := c13BytesOf(o1.Val)
	if o2.Err != nil && hz["comma:invalid"] {
		j.cover("csv/rejected")
		return
	}
	if !o2.OK() {
		mode, site, text := c13FailMode(o2)
		j.viol("C13.csv-roundtrip", decName, mode, site, hazards, "", fmt.Sprintf("%s: encoded as %q; decode %s", desc, enc, text), replay)
		return
	}
	got, pi := core.SafeDenote(o2.Val)
	if pi != nil {
		j.viol("C13.csv-roundtrip", decName, "panic", "denote: "+pi.Sig(), hazards, "", desc+": "+pi.Msg, replay)
		return
	}
	want, _ := core.SafeDenote(mv)
	if got.Enc == want.Enc {
		j.cover("csv/roundtrip-ok")
		return
	}
	delta := "not-a-string-matrix"
	if gm, ok := c13MatrixOf(got); ok {
		switch {
		case len(gm) < len(m):
			delta = "rows-missing"
		case len(gm) > len(m):
			delta = "rows-extra"
		default:
			delta = "field-differs"
			for i := range m {
				if len(gm[i]) != len(m[i]) {
					delta = "row-width"
					break
				}
			}
		}
	}
	j.viol("C13.csv-roundtrip", "csv", "changed:rows", "", hazards, delta, fmt.Sprintf("%s: encoded as %q; decoded as %s", desc, enc, c13Clip(outcomeText(o2), 300)), replay)
}

func (j *c13J) runCSV(k int, random bool, r *core.Rng) {
	if !random {
		for n, m := range c13Batch(c13Mats, k, c13CSVBatch) {
			for _, opt := range c13CSVCoreOpts {
				j.csvOne(m, opt)
			}
			if len(m) > 0 && len(m[0]) > 0 {
				j.res.SubKeys = append(j.res.SubKeys, fmt.Sprintf("csv:%q", m))
			}
			if n == 7 && k%5 == 0 {
				j.res.Sample = fmt.Sprintf("csv matrix %q encoded/decoded under comma , ; \\t and crlf on/off", m)
			}
		}
		return
	}
	g := &c13Gen{r: r}
	for n := 0; n < c13RandMats; n++ {
		rows := r.Range(0, 6)
		w := r.Range(1, 6)
		ragged := r.Chance(1, 4)
		opt := c13CSVOpt{comma: core.Pick(r, []rune{',', ',', ';', '\t', '|', ' ', ':', 'é', 0x1f600, 'a', '\'', '"', '\n', '\r', 0xfffd, 0, '#', '\\'}), crlf: r.Chance(1, 3)}
		opt.plain = opt.comma == ',' && !opt.crlf && r.Chance(1, 2)
		var m [][]string
		for i := 0; i < rows; i++ {
			ww := w
			if ragged {
				ww = r.Range(0, 6)
			}
			row := make([]string, ww)
			for c := range row {
				switch r.Intn(6) {
				case 0:
					row[c] = core.Pick(r, c13CSVFields)
				case 1:
					row[c] = string(opt.comma) + core.Pick(r, []string{"", "x", "\"", " "})
				case 2:
					row[c] = core.Pick(r, []string{"#c", " lead", "trail ", "\"q\"", "a\"b", "a\nb", "\\.", "a\r\nb", "x\r", "\rx", "\n", "''", "\ufeff", "0"})
				default:
					row[c] = g.randString()
				}
			}
			m = append(m, row)
		}
		j.csvOne(m, opt)
		if rows > 0 {
			j.res.SubKeys = append(j.res.SubKeys, fmt.Sprintf("csv:%q/%q/%v", m, opt.comma, opt.crlf))
		}
	}
}

// ---------------------------------------------------------------------------------------------
// (d) bits

func c13CoreBits() []float64 {
	var ns []float64
	for n := 0; n < 4096; n++ {
		ns = append(ns, float64(n))
	}
	seen := map[float64]bool{}
	for k := 12; k <= 53; k++ {
		p := math.Pow(2, float64(k))
		for _, x := range []float64{p - 1, p, p + 1, p + p/2, p - 2} {
			if x < 9007199254740992 && !seen[x] {
				seen[x] = true
				ns = append(ns, x)
			}
		}
	}
	return ns
}

func c13SetOfInts(m core.MV) ([]int, bool) {
	if m.K != 's' {
		return nil, false
	}
	var out []int
	for _, e := range m.S {
		if e.K != 'n' || e.N != math.Trunc(e.N) {
			return nil, false
		}
		out = append(out, int(e.N))
	}
	sort.Ints(out)
	return out, true
}

func c13IntSetValue(s []int) rel.Value {
	vs := make([]rel.Value, len(s))
	for i, x := range s {
		vs[i] = rel.NewNumber(float64(x))
	}
	return rel.MustNewSet(vs...)
}

// bitsOfNumber: n -> set -> mask, expecting the identity when inDomain; outside the domain an
// error or a correct inverse is accepted, never a panic or a different number.
func (j *c13J) bitsOfNumber(n float64, inDomain bool, hazard string) {
	var hazards []string
	if hazard != "" {
		hazards = []string{hazard}
	}
	desc := "//bits.set(" + strconv.FormatFloat(n, 'g', -1, 64) + ")"
	replay := map[string]string{"family": "bits", "n": strconv.FormatFloat(n, 'g', -1, 64)}
	j.res.Evals++
	o1 := core.EvalT("//bits.set(n)", "n", rel.NewNumber(n))
	if o1.Panic != nil {
		j.viol("C13.bits-inverse", "//bits.set", "panic", o1.Panic.Sig(), hazards, "", desc+": "+o1.Panic.Msg, replay)
		return
	}
	if o1.Err != nil {
		if inDomain {
			_, _, text := c13FailMode(o1)
			j.viol("C13.bits-inverse", "//bits.set", "error-for-value", "", hazards, "", desc+": "+text, replay)
		} else {
			j.cover("bits/set-rejected:" + hazard)
		}
		return
	}
	j.res.Evals++
	o2 := core.EvalT("//bits.mask(s)", "s", o1.Val)
	if !o2.OK() {
		mode, site, text := c13FailMode(o2)
		j.viol("C13.bits-inverse", "//bits.mask", mode, site, hazards, "", desc+" = "+outcomeText(o1)+"; mask of that: "+text, replay)
		return
	}
	back, isNum := o2.Val.(rel.Number)
	if !isNum || !(back.Float64() == n) {
		mode := "not-inverse"
		if !inDomain {
			mode = "changed:silently"
		}
		j.viol("C13.bits-inverse", "mask∘set", mode, "", hazards, "", fmt.Sprintf("%s = %s; //bits.mask of that = %s, want %s", desc, c13Clip(outcomeText(o1), 200), outcomeText(o2), strconv.FormatFloat(n, 'g', -1, 64)), replay)
		return
	}
	if inDomain {
		j.cover("bits/mask∘set-ok")
	} else {
		j.cover("bits/out-of-domain-inverse-ok:" + hazard)
	}
}

func (j *c13J) bitsOfSet(s []int) {
	sum := new(big.Int)
	inDomain := true
	for _, x := range s {
		if x < 0 {
			return // negative positions: left open by the property
		}
		if x > 52 {
			inDomain = false
		}
		sum.SetBit(sum, x, 1)
	}
	exact, acc := new(big.Float).SetInt(sum).Float64()
	representable := acc == big.Exact && !math.IsInf(exact, 0)
	var hazards []string
	if !inDomain {
		hazards = append(hazards, "bits:position>=53")
	}
	if !representable {
		hazards = append(hazards, "bits:sum-not-a-float64")
	}
	sort.Strings(hazards)
	desc := fmt.Sprintf("//bits.mask(%v)", s)
	replay := map[string]string{"family": "bits", "set": fmt.Sprint(s)}
	j.res.Evals++
	o1 := core.EvalT("//bits.mask(s)", "s", c13IntSetValue(s))
	if o1.Panic != nil {
		j.viol("C13.bits-inverse", "//bits.mask", "panic", o1.Panic.Sig(), hazards, "", desc+": "+o1.Panic.Msg, replay)
		return
	}
	if o1.Err != nil {
		if inDomain {
			_, _, text := c13FailMode(o1)
			j.viol("C13.bits-inverse", "//bits.mask", "error-for-value", "", hazards, "", desc+": "+text, replay)
		} else {
			j.cover("bits/mask-rejected")
		}
		return
	}
	if !representable {
		// the set has no float64 mask: any number is a silent change
		j.viol("C13.bits-reject", "//bits.mask", "value-for-error", "", hazards, "", desc+" = "+outcomeText(o1)+" but the exact mask "+sum.String()+" is not a float64: must be rejected", replay)
		return
	}
	if !inDomain {
		// representable sum with positions >= 53: only the produced number is judged (the inverse
		// direction is outside the stated domain)
		if n, ok := o1.Val.(rel.Number); !ok || n.Float64() != exact {
			j.viol("C13.bits-inverse", "//bits.mask", "changed:silently", "", hazards, "", fmt.Sprintf("%s = %s, exact mask is %s", desc, outcomeText(o1), sum.String()), replay)
		} else {
			j.cover("bits/mask-large-positions-exact")
		}
		return
	}
	j.res.Evals++
	o2 := core.EvalT("//bits.set(n)", "n", o1.Val)
	if !o2.OK() {
		mode, site, text := c13FailMode(o2)
		j.viol("C13.bits-inverse", "//bits.set", mode, site, hazards, "", desc+" = "+outcomeText(o1)+"; set of that: "+text, replay)
		return
	}
	d, pi := core.SafeDenote(o2.Val)
	got, ok := []int(nil), false
	if pi == nil {
		got, ok = c13SetOfInts(d)
	}
	if !ok || fmt.Sprint(got) != fmt.Sprint(append([]int{}, s...)) {
		j.viol("C13.bits-inverse", "set∘mask", "not-inverse", "", hazards, "", fmt.Sprintf("%s = %s; //bits.set of that = %s, want %v", desc, outcomeText(o1), c13Clip(outcomeText(o2), 200), s), replay)
		return
	}
	j.cover("bits/set∘mask-ok")
}

var c13BitsOutOfDomain = []struct {
	n      float64
	hazard string
}{
	{-1, "bits:negative"}, {-0.5, "bits:negative"}, {-9007199254740992, "bits:negative"}, {math.Inf(-1), "bits:negative"},
	{0.5, "bits:fractional"}, {1.5, "bits:fractional"}, {1e-300, "bits:fractional"}, {4095.25, "bits:fractional"}, {4503599627370495.5, "bits:fractional"},
	{math.NaN(), "bits:nonfinite"}, {math.Inf(1), "bits:nonfinite"},
	{9007199254740992, "bits:>=2^53"}, {9007199254740994, "bits:>=2^53"}, {72061992084439040, "bits:>=2^53"}, {4611686018427387904, "bits:>=2^53"},
	{9223372036854775808, "bits:>=2^63"}, {18446744073709551616, "bits:>=2^63"}, {1e300, "bits:>=2^63"}, {math.MaxFloat64, "bits:>=2^63"},
}

func (j *c13J) runBits(k int, random bool, r *core.Rng) {
	nCore := c13Ceil(len(c13BitsCore), c13BitsBatch)
	switch {
	case !random && k < nCore:
		for _, n := range c13Batch(c13BitsCore, k, c13BitsBatch) {
			j.bitsOfNumber(n, true, "")
			if n >= 2 {
				j.res.SubKeys = append(j.res.SubKeys, "bits:n:"+strconv.FormatFloat(n, 'g', -1, 64))
			}
			if n < 4096 { // the same bit pattern as a position set
				var s []int
				for b := 0; b < 12; b++ {
					if int(n)&(1<<b) != 0 {
						s = append(s, b*4+b%3) // spread over 0..46
					}
				}
				j.bitsOfSet(s)
			}
		}
		j.res.Sample = fmt.Sprintf("bits: mask(set(n)) for %d integers from %v; set(mask(s)) for their bit patterns spread over positions 0..46", len(c13Batch(c13BitsCore, k, c13BitsBatch)), c13Batch(c13BitsCore, k, c13BitsBatch)[0])
	case !random:
		for _, x := range c13BitsOutOfDomain {
			j.bitsOfNumber(x.n, false, x.hazard)
			j.res.SubKeys = append(j.res.SubKeys, "bits:ood:"+strconv.FormatFloat(x.n, 'g', -1, 64))
		}
		for p := 0; p <= 52; p++ {
			j.bitsOfSet([]int{p})
			if p > 0 {
				j.bitsOfSet([]int{0, p})
			}
		}
		all := make([]int, 53)
		for i := range all {
			all[i] = i
		}
		j.bitsOfSet(all)
		j.bitsOfSet([]int{})
		for _, s := range [][]int{{53}, {0, 53}, {1, 54}, {42, 56}, {0, 52, 53}, {60, 62}, {63}, {64}, {0, 64}, {100}, {1023}, {1024}, {0, 1024}, {2000}, {10, 63}, {11, 64}, {0, 1, 2, 3, 55}} {
			j.bitsOfSet(s)
			j.res.SubKeys = append(j.res.SubKeys, "bits:s:"+fmt.Sprint(s))
		}
	default:
		for n := 0; n < c13RandBits; n++ {
			x := float64(r.Next() >> uint(11+r.Intn(53)))
			j.bitsOfNumber(x, true, "")
			j.res.SubKeys = append(j.res.SubKeys, "bits:n:"+strconv.FormatFloat(x, 'g', -1, 64))
			var s []int
			den := r.Range(2, 8)
			for b := 0; b <= 52; b++ {
				if r.Chance(1, den) {
					s = append(s, b)
				}
			}
			j.bitsOfSet(s)
			j.res.SubKeys = append(j.res.SubKeys, "bits:s:"+fmt.Sprint(s))
			if n%10 == 0 {
				s2 := append(append([]int{}, s...), r.Range(53, 1100))
				sort.Ints(s2)
				j.bitsOfSet(s2)
				if y := x + core.Pick(r, []float64{0.5, 0.25, 0.125}); y != math.Trunc(y) {
					j.bitsOfNumber(y, false, "bits:fractional")
				}
				j.bitsOfNumber(-x-1, false, "bits:negative")
			}
		}
	}
}

// ---------------------------------------------------------------------------------------------
// (e) wire, (f) reject-or-represent

func c13WireHazards(m core.MV, into map[string]bool) {
	switch m.K {
	case 'n':
		if math.IsNaN(m.N) || math.IsInf(m.N, 0) {
			into["nonfinite"] = true
		}
	case 'f':
		into["fn"] = true
	case 't':
		for k, x := range m.T {
			if k == "{||}" {
				into["attr:{||}"] = true
			}
			c13WireHazards(x, into)
		}
	case 's':
		c := c13Coarse(m)
		switch c {
		case "empty", "true", "str":
		case "arr":
			for _, e := range m.S {
				c13WireHazards(e.T["@item"], into)
			}
		default:
			into["has:"+c] = true
			for _, e := range m.S {
				c13WireHazards(e, into)
			}
		}
	}
}

func (j *c13J) vals(k int, random bool, r *core.Rng, fam string) ([]*c13Val, []bool) {
	var vs []*c13Val
	var clean []bool
	if !random {
		vs = c13Batch(c13Vals, k, c13ValBatch)
		return vs, make([]bool, len(vs))
	}
	g := &c13VGen{r: r}
	for n := 0; n < c13ValBatch; n++ {
		switch {
		case fam == "wire":
			hp := 0
			if n%2 == 1 {
				hp = 3
			}
			vs = append(vs, g.data(0, hp))
			clean = append(clean, hp == 0)
		case n%3 == 0:
			vs = append(vs, g.strictImage(0))
			clean = append(clean, true)
		default:
			vs = append(vs, g.perturbed(0, 2+n%3))
			clean = append(clean, false)
		}
	}
	return vs, clean
}

func (j *c13J) runWire(k int, random bool, r *core.Rng) {
	vs, clean := j.vals(k, random, r, "wire")
	for n, v := range vs {
		val, err := v.build()
		if err != nil {
			j.cover("wire/skip:constructor-refused")
			continue
		}
		in, pi := core.SafeDenote(val)
		if pi != nil {
			j.cover("wire/skip:input-not-enumerable")
			continue
		}
		hz := map[string]bool{}
		c13WireHazards(in, hz)
		hazards := c13HazardList(hz)
		desc := "wire value " + c13Clip(v.String(), 300)
		replay := map[string]string{"family": "wire", "value": v.String(), "denotation": c13Clip(core.Src(in), 2000)}
		if in.K == 't' || in.K == 's' && len(in.S) > 0 {
			j.res.SubKeys = append(j.res.SubKeys, "wire:"+in.Enc)
		}
		j.cover("wire/top:" + c13Coarse(in))
		j.res.Evals++
		var js []byte
		om := core.Guard(func() (rel.Value, error) { js = rel.MarshalToJSON(val); return rel.None, nil })
		if om.Panic != nil {
			j.viol("C13.wire-reject", "rel.MarshalToJSON", "panic", om.Panic.Sig(), hazards, "", desc+": "+om.Panic.Msg, replay)
			continue
		}
		j.res.Evals++
		ou := core.Guard(func() (rel.Value, error) { return rel.UnmarshalFromJSON(js) })
		if ou.Panic != nil {
			j.viol("C13.wire-roundtrip", "rel.UnmarshalFromJSON", "panic", ou.Panic.Sig(), hazards, "", fmt.Sprintf("%s: marshalled as %s: %s", desc, c13Clip(string(js), 300), ou.Panic.Msg), replay)
			continue
		}
		if ou.Err != nil {
			if len(hazards) > 0 {
				j.cover("wire/rejected-on-unmarshal")
				continue
			}
			_, _, text := c13FailMode(ou)
			j.viol("C13.wire-roundtrip", "rel.UnmarshalFromJSON", "error-for-value", "", hazards, "", fmt.Sprintf("%s: marshalled as %s: %s", desc, c13Clip(string(js), 300), text), replay)
			continue
		}
		out, pi := core.SafeDenote(ou.Val)
		if pi != nil {
			j.viol("C13.wire-roundtrip", "rel.UnmarshalFromJSON", "panic", "denote: "+pi.Sig(), hazards, "", desc+": "+pi.Msg, replay)
			continue
		}
		if out.Enc != in.Enc {
			j.viol("C13.wire-roundtrip", "wire", "changed:silently", "", hazards, c13Walk(in, out),
				fmt.Sprintf("%s: marshalled as %s, unmarshalled as %s", desc, c13Clip(string(js), 300), c13Clip(outcomeText(ou), 300)), replay)
			continue
		}
		j.cover("wire/roundtrip-ok")
		if len(hazards) == 0 {
			j.cover("wire/roundtrip-ok:hazard-free")
		}
		_ = clean
		if n == 2 && k%9 == 0 {
			j.res.Sample = desc + " -> " + c13Clip(string(js), 160) + " -> back"
		}
	}
}

func (j *c13J) runRepr(k int, random bool, r *core.Rng) {
	vs, clean := j.vals(k, random, r, "repr")
	for n, v := range vs {
		val, err := v.build()
		if err != nil {
			j.cover("repr/skip:constructor-refused")
			continue
		}
		in, pi := core.SafeDenote(val)
		if pi != nil {
			j.cover("repr/skip:input-not-enumerable")
			continue
		}
		baseHz := map[string]bool{}
		c13ValHazards(in, "bare", baseHz)
		uin := c13Untag(in)
		if in.K != 'n' {
			j.res.SubKeys = append(j.res.SubKeys, "repr:"+in.Enc)
		}
		for _, c := range []*c13Codec{&c13JSONCodec, &c13YAMLCodec} {
			hz := map[string]bool{}
			for h := range baseHz {
				hz[h] = true
			}
			if c.name == "yaml" {
				c13ValYAMLHazards(in, hz)
			}
			hazards := c13HazardList(hz)
			desc := c.name + " strict encode of " + c13Clip(v.String(), 300)
			replay := map[string]string{"family": "repr", "codec": c.name, "value": v.String(), "denotation": c13Clip(core.Src(in), 2000)}
			encName, decName := c13EntryName(c.enc[0]), c13EntryName(c.dec[0])
			j.res.Evals++
			o1 := core.EvalT(c.enc[0], "v", val)
			if o1.Panic != nil {
				j.viol("C13.reject-or-represent", encName, "panic", o1.Panic.Sig(), hazards, "", desc+": "+o1.Panic.Msg, replay)
				continue
			}
			if o1.Err != nil {
				if clean[n] {
					_, _, text := c13FailMode(o1)
					j.viol("C13.reject-or-represent", encName, "error-for-value", "", hazards, "", desc+" (a value in the image of the strict decoder): "+text, replay)
				} else {
					j.cover("repr/" + c.name + "/rejected")
				}
				continue
			}
			e1, ok := c13BytesOf(o1.Val)
			if !ok {
				j.viol("C13.reject-or-represent", encName, "not-bytes", "", hazards, "", desc+": encoder returned "+core.TypeName(o1.Val), replay)
				continue
			}
			if len(e1) == 0 {
				j.viol("C13.reject-or-represent", encName, "empty-output", "", hazards, "", desc+": encoder returned no bytes", replay)
				continue
			}
			j.res.Evals++
			o2 := core.EvalT(c.dec[0], "d", rel.NewBytes(e1))
			if !o2.OK() {
				mode, site, text := c13FailMode(o2)
				if mode == "error-for-value" {
					mode = "changed:undecodable-output"
				}
				j.viol("C13.reject-or-represent", decName, mode, site, hazards, "", fmt.Sprintf("%s: encoded as %s; decode %s", desc, strconv.QuoteToASCII(c13Clip(string(e1), 200)), text), replay)
				continue
			}
			out, pi := core.SafeDenote(o2.Val)
			if pi != nil {
				j.viol("C13.reject-or-represent", decName, "panic", "denote: "+pi.Sig(), hazards, "", desc+": "+pi.Msg, replay)
				continue
			}
			uout := c13Untag(out)
			if uout.Enc != uin.Enc {
				j.viol("C13.reject-or-represent", c.name+".strict", "changed:silently", "", hazards, c13Walk(uin, uout),
					fmt.Sprintf("%s: accepted and encoded as %s, which decodes to %s", desc, strconv.QuoteToASCII(c13Clip(string(e1), 200)), c13Clip(outcomeText(o2), 300)), replay)
				continue
			}
			j.cover("repr/" + c.name + "/represented")
			if clean[n] {
				j.cover("repr/" + c.name + "/represented:strict-image")
			}
		}
		if n == 1 && k%9 == 0 {
			j.res.Sample = "strict json+yaml encode of " + c13Clip(v.String(), 200) + ": rejected, or decodes back to the same value modulo s:/a:/b: tags"
		}
	}
}

// ---------------------------------------------------------------------------------------------
// evidence

func (c13) Finish(cfg *core.Config, agg *core.Aggregate) {
	floor := func(tag string, min int) {
		if agg.Cover[tag] < min {
			agg.Fail("coverage floor: %s observed %d times, need >= %d", tag, agg.Cover[tag], min)
		}
	}
	floor("json/strict/roundtrip-ok", 2000)
	floor("json/lax/roundtrip-ok", 2000)
	floor("json/alt-encoder-ok", 2000)
	floor("yaml/alt-encoder-ok", 1000)
	floor("json/lax/collapsed-content-ok", 2000)
	floor("yaml/lax/collapsed-content-ok", 1500)
	floor("json/carrier:string", 200)
	floor("json/rejected:number-overflow", 1)
	floor("yaml/strict/roundtrip-ok", 1500)
	floor("yaml/lax/roundtrip-ok", 1500)
	floor("yaml/style:block", 500)
	floor("yaml/style:flow", 500)
	floor("yaml/style:hand", 100)
	floor("csv/roundtrip-ok", 5000)
	floor("bits/mask∘set-ok", 4000)
	floor("bits/set∘mask-ok", 3000)
	floor("wire/roundtrip-ok", 500)
	floor("wire/roundtrip-ok:hazard-free", 300)
	floor("repr/json/represented", 500)
	floor("repr/yaml/represented", 500)
	floor("repr/json/rejected", 50)
	floor("repr/yaml/rejected", 50)
	for _, d := range []string{"0", "1", "2", "3", "4", "5"} {
		min := 20
		if d == "4" {
			min = 3 // random trees that pass depth 3 mostly run on to the bound
		}
		floor("json/depth:"+d, min)
		floor("yaml/depth:"+d, min/2+1)
	}
	for _, k := range []string{"null", "bool", "number", "string", "array", "object"} {
		floor("json/top:"+k, 3)
		floor("yaml/top:"+k, 3)
	}
	sum := func(prefix string) int {
		n := 0
		for k, v := range agg.Cover {
			if strings.HasPrefix(k, prefix) {
				n += v
			}
		}
		return n
	}
	agg.Extra["documents_json"] = sum("json/top:")
	agg.Extra["documents_yaml"] = sum("yaml/top:")
	agg.Extra["csv_roundtrips_ok"] = agg.Cover["csv/roundtrip-ok"]
	agg.Extra["csv_rejected_by_encoder"] = agg.Cover["csv/rejected"]
	agg.Extra["bits_numbers_inverted"] = agg.Cover["bits/mask∘set-ok"]
	agg.Extra["bits_sets_inverted"] = agg.Cover["bits/set∘mask-ok"]
	agg.Extra["wire_values"] = sum("wire/top:")
	agg.Extra["strict_encode_rejected"] = agg.Cover["repr/json/rejected"] + agg.Cover["repr/yaml/rejected"]
	agg.Extra["strict_encode_represented"] = agg.Cover["repr/json/represented"] + agg.Cover["repr/yaml/represented"]
	agg.Extra["exhaustive_core"] = fmt.Sprintf("%d documents, %d csv matrices x %d option sets, %d integers, %d values", len(c13Docs), len(c13Mats), len(c13CSVCoreOpts), len(c13BitsCore), len(c13Vals))
}
