package checks

import (
	"archive/zip"
	"bytes"
	"context"
	"fmt"
	"io"
	"os"
	"path"
	"path/filepath"
	"regexp"
	"sort"
	"strings"
	"sync"
	"time"

	"verif/core"

	"github.com/arr-ai/arrai/pkg/arraictx"
	"github.com/arr-ai/arrai/pkg/bundle"
	"github.com/arr-ai/arrai/pkg/ctxfs"
	"github.com/arr-ai/arrai/rel"
	"github.com/arr-ai/arrai/syntax"
	"github.com/spf13/afero"
)

// ---------------------------------------------------------------------------------------------
// recording filesystem (observation point (ii)/(iii))

type c15Op struct {
	Op   string // open | stat | write:<what>
	Path string
	OK   bool
	Dir  bool
}

// c15RecFs forwards to inner and records every operation.
type c15RecFs struct {
	inner afero.Fs
	mu    sync.Mutex
	ops   []c15Op
}

func c15NewRecFs(inner afero.Fs) *c15RecFs { return &c15RecFs{inner: inner} }

func (r *c15RecFs) add(op, p string, ok, dir bool) {
	r.mu.Lock()
	r.ops = append(r.ops, c15Op{op, p, ok, dir})
	r.mu.Unlock()
}

func (r *c15RecFs) take() []c15Op {
	r.mu.Lock()
	defer r.mu.Unlock()
	o := r.ops
	r.ops = nil
	return o
}

func (r *c15RecFs) isDir(f afero.File, err error) bool {
	if err != nil || f == nil {
		return false
	}
	fi, e := f.Stat()
	return e == nil && fi.IsDir()
}

func (r *c15RecFs) Create(name string) (afero.File, error) {
	f, err := r.inner.Create(name)
	r.add("write:create", name, err == nil, false)
	return f, err
}
func (r *c15RecFs) Mkdir(name string, perm os.FileMode) error {
	err := r.inner.Mkdir(name, perm)
	r.add("write:mkdir", name, err == nil, true)
	return err
}
func (r *c15RecFs) MkdirAll(p string, perm os.FileMode) error {
	err := r.inner.MkdirAll(p, perm)
	r.add("write:mkdirall", p, err == nil, true)
	return err
}
func (r *c15RecFs) Open(name string) (afero.File, error) {
	f, err := r.inner.Open(name)
	r.add("open", name, err == nil, r.isDir(f, err))
	return f, err
}
func (r *c15RecFs) OpenFile(name string, flag int, perm os.FileMode) (afero.File, error) {
	f, err := r.inner.OpenFile(name, flag, perm)
	op := "open"
	if flag&(os.O_WRONLY|os.O_RDWR|os.O_CREATE|os.O_TRUNC|os.O_APPEND) != 0 {
		op = "write:openfile"
	}
	r.add(op, name, err == nil, r.isDir(f, err))
	return f, err
}
func (r *c15RecFs) Remove(name string) error {
	err := r.inner.Remove(name)
	r.add("write:remove", name, err == nil, false)
	return err
}
func (r *c15RecFs) RemoveAll(p string) error {
	err := r.inner.RemoveAll(p)
	r.add("write:removeall", p, err == nil, false)
	return err
}
func (r *c15RecFs) Rename(o, n string) error {
	err := r.inner.Rename(o, n)
	r.add("write:rename", o, err == nil, false)
	return err
}
func (r *c15RecFs) Stat(name string) (os.FileInfo, error) {
	fi, err := r.inner.Stat(name)
	r.add("stat", name, err == nil, err == nil && fi.IsDir())
	return fi, err
}
func (r *c15RecFs) Name() string { return "c15RecFs(" + r.inner.Name() + ")" }
func (r *c15RecFs) Chmod(name string, mode os.FileMode) error {
	err := r.inner.Chmod(name, mode)
	r.add("write:chmod", name, err == nil, false)
	return err
}
func (r *c15RecFs) Chtimes(name string, a, m time.Time) error {
	err := r.inner.Chtimes(name, a, m)
	r.add("write:chtimes", name, err == nil, false)
	return err
}

// the process-wide default filesystem of ctxfs: nothing in a bundle run may fall back to it
var (
	c15DefaultOnce sync.Once
	c15DefaultFs   *c15RecFs
)

func c15InstallDefaultFs() *c15RecFs {
	c15DefaultOnce.Do(func() {
		c15DefaultFs = c15NewRecFs(afero.NewMemMapFs())
		ctxfs.SetDefaultFs(c15DefaultFs)
	})
	return c15DefaultFs
}

// ---------------------------------------------------------------------------------------------
// outcomes and failure classes

type c15Outcome struct {
	Mode  string // value | error | panic
	Enc   string // denotation encoding (value)
	Repr  string
	Class string // failure class (error)
	Text  string // first line of the error, colour codes stripped
	Site  string // panic site
}

var (
	c15ReANSI = regexp.MustCompile("\x1b\\[[0-9;]*m")
	c15RePath = regexp.MustCompile(`(/[^\s:'"]*)+`)
)

// c15FailClass maps an error text to a coarse class; path-free first lines of evaluation errors
// are kept verbatim (they must be the same on both sides).
func c15FailClass(text string) (class, first string) {
	text = c15ReANSI.ReplaceAllString(text, "")
	first = strings.TrimSpace(text)
	if i := strings.IndexByte(first, '\n'); i >= 0 {
		first = first[:i]
	}
	low := strings.ToLower(text)
	switch {
	case strings.Contains(low, "module root not found"):
		return "no-module-root", first
	case strings.Contains(low, "sentinel does not show module path"):
		return "sentinel-without-module", first
	case strings.Contains(low, "pointing outside"):
		return "outside-module", first
	case strings.Contains(low, "does not exist") || strings.Contains(low, "no such file") ||
		strings.Contains(low, "file not found") || strings.Contains(low, "not found as a file"):
		return "file-not-found", first
	case strings.Contains(low, "not bundled properly"):
		return "not-bundled-properly", first
	case strings.Contains(text, "parser.ParseError") || strings.Contains(low, "unconsumed input"):
		return "parse", first
	}
	if strings.ContainsAny(first, "/\\") {
		return "eval:" + c15RePath.ReplaceAllString(first, "<path>"), first
	}
	return "eval:" + first, first
}

func c15FromOutcome(o core.Outcome) c15Outcome {
	switch {
	case o.Panic != nil:
		cl, first := c15FailClass(o.Panic.Msg)
		return c15Outcome{Mode: "panic", Site: o.Panic.Sig(), Text: first, Class: cl}
	case o.Err != nil:
		cl, first := c15FailClass(core.ErrText(o.Err))
		return c15Outcome{Mode: "error", Class: cl, Text: first}
	}
	mv, pi := core.SafeDenote(o.Val)
	if pi != nil {
		return c15Outcome{Mode: "panic", Site: "denote: " + pi.Sig(), Text: pi.Msg}
	}
	r, _ := core.Repr(o.Val)
	if len(r) > 300 {
		r = r[:300] + "…"
	}
	return c15Outcome{Mode: "value", Enc: mv.Enc, Repr: r}
}

func (o c15Outcome) String() string {
	switch o.Mode {
	case "value":
		return "value " + o.Repr
	case "panic":
		return "panic " + o.Text + " @ " + o.Site
	}
	return "error[" + o.Class + "] " + o.Text
}

// ---------------------------------------------------------------------------------------------
// the in-process route (the one cmd/arrai's TestRunBundle* use): MemMapFs as the source filesystem

func c15MemFs(files map[string]string) afero.Fs {
	fs := afero.NewMemMapFs()
	for p, c := range files {
		_ = fs.MkdirAll(path.Dir(p), 0o755)
		_ = afero.WriteFile(fs, p, []byte(c), 0o644)
	}
	return fs
}

// c15Ctx is a run context like the CLI's (arraictx.InitRunCtx) with both filesystems replaced.
func c15Ctx(src, rt afero.Fs) context.Context {
	ctx := arraictx.InitRunCtx(context.Background())
	ctx = ctxfs.SourceFsOnto(ctx, src)
	return ctxfs.RuntimeFsOnto(ctx, rt)
}

func c15EvalSource(ctx context.Context, mainPath string) core.Outcome {
	return core.Guard(func() (rel.Value, error) {
		buf, err := afero.ReadFile(ctxfs.SourceFsFrom(ctx), mainPath)
		if err != nil {
			return nil, err
		}
		return syntax.EvaluateExpr(ctx, mainPath, string(buf))
	})
}

func c15Bundle(ctx context.Context, mainPath string) ([]byte, core.Outcome) {
	var buf bytes.Buffer
	o := core.Guard(func() (rel.Value, error) {
		if err := bundle.BundledScripts(ctx, mainPath, &buf); err != nil {
			return nil, err
		}
		return rel.None, nil
	})
	return buf.Bytes(), o
}

// c15RunBundleInstrumented is syntax.EvaluateBundleCtx spelled out so that the archive
// filesystem it installs can be wrapped by a recorder.
func c15RunBundleInstrumented(ctx context.Context, b []byte) (core.Outcome, *c15RecFs) {
	var rec *c15RecFs
	o := core.Guard(func() (rel.Value, error) {
		ctx, err := syntax.WithBundleRun(ctx, b)
		if err != nil {
			return nil, err
		}
		rec = c15NewRecFs(ctxfs.SourceFsFrom(ctx))
		ctx = ctxfs.SourceFsOnto(ctx, rec)
		ctx, src, p := syntax.GetMainBundleSource(ctx)
		return syntax.EvaluateExpr(ctx, p, string(src))
	})
	return o, rec
}

type c15Zip struct {
	Names   []string
	Content map[string]string
	Err     string
}

func c15ReadZip(b []byte) c15Zip {
	z := c15Zip{Content: map[string]string{}}
	zr, err := zip.NewReader(bytes.NewReader(b), int64(len(b)))
	if err != nil {
		z.Err = err.Error()
		return z
	}
	for _, f := range zr.File {
		if strings.HasSuffix(f.Name, "/") {
			continue
		}
		rc, err := f.Open()
		if err != nil {
			z.Err = err.Error()
			return z
		}
		c, _ := io.ReadAll(rc)
		rc.Close()
		z.Names = append(z.Names, f.Name)
		z.Content[f.Name] = string(c)
	}
	sort.Strings(z.Names)
	return z
}

// c15Judge collects violations (one per signature per case).
type c15Judge struct {
	res  *core.CaseResult
	hz   []string
	seen map[string]bool
	rep  map[string]interface{}
}

func (j *c15Judge) viol(clause, entry, mode, site, delta, detail string) {
	sig := core.Signature{Clause: clause, Entry: entry, Mode: mode, Site: site, Hazards: j.hz, Delta: delta}
	k := sig.String()
	if j.seen[k] {
		return
	}
	j.seen[k] = true
	j.res.Viols = append(j.res.Viols, core.Violation{Sig: sig, Detail: detail, Replay: j.rep})
}

// compare judges one bundle-side outcome against the source-side outcome.
func (j *c15Judge) compare(entry string, src, got c15Outcome, ctxDesc string) {
	d := fmt.Sprintf("%s: source tree gives %s; bundle gives %s; %s", entry, src, got, ctxDesc)
	switch {
	case got.Mode == "panic":
		j.viol("C15.differential", entry, "panic", got.Site, "source:"+src.Mode, d)
	case src.Mode == "panic":
		// the source side crashed: nothing to compare the bundle with (C10's business)
		j.res.Cover = append(j.res.Cover, "source-panic")
	case src.Mode == "value" && got.Mode == "error":
		j.viol("C15.differential", entry, "error-for-value", "", got.Class, d)
	case src.Mode == "error" && got.Mode == "value":
		j.viol("C15.differential", entry, "value-for-error", "", src.Class, d)
	case src.Mode == "value" && src.Enc != got.Enc:
		j.viol("C15.differential", entry, "wrong-value", "", "", d)
	case src.Mode == "error" && src.Class != got.Class:
		cs, cg := src.Class, got.Class
		if strings.HasPrefix(cs, "eval:") {
			cs = "eval"
		}
		if strings.HasPrefix(cg, "eval:") {
			cg = "eval"
		}
		j.viol("C15.differential", entry, "different-failure", "", cg+"-instead-of-"+cs, d)
	}
}

func c15HostOps(ops []c15Op) string {
	var xs []string
	for i, o := range ops {
		if i >= 6 {
			xs = append(xs, "…")
			break
		}
		xs = append(xs, fmt.Sprintf("%s %q ok=%v", o.Op, o.Path, o.OK))
	}
	return strings.Join(xs, "; ")
}

// c15RunMem runs one layout through the in-process route and judges it.
// All layouts get a plain run (syntax.EvaluateBundleCtx) with the sources present and an
// instrumented run with the sources deleted; full adds a plain run with the sources deleted.
func c15RunMem(cfg *core.Config, l *c15Layout, full bool, res *core.CaseResult) {
	files := l.files()
	hz := l.hazards()
	j := &c15Judge{res: res, hz: hz, seen: map[string]bool{}, rep: map[string]interface{}{"main": l.mainPath(), "files": files, "route": "in-process MemMapFs"}}
	def := c15InstallDefaultFs()
	def.take()
	cover := func(t string) { res.Cover = append(res.Cover, t) }
	for _, h := range hz {
		cover("hz/" + h)
	}
	expectFail := c15ExpectFail(hz)

	cwd0, _ := os.Getwd()
	defer os.Chdir(cwd0)
	cwds := []string{"/", cfg.RunDir, filepath.Join(cfg.RunDir, "cwd", "deep")}
	_ = os.MkdirAll(cwds[2], 0o755)
	chdir := func(k int) string {
		if err := os.Chdir(cwds[k]); err != nil {
			return cwd0
		}
		return cwds[k]
	}

	mainPath := l.mainPath()

	// 1. evaluate from the source tree
	chdir(1)
	srcFs := c15MemFs(files)
	srcRec := c15NewRecFs(srcFs)
	so := c15FromOutcome(c15EvalSource(c15Ctx(srcRec, srcRec), mainPath))
	srcOps := srcRec.take()
	res.Evals++
	cover("source:" + so.Mode)
	if expectFail {
		cover("expect-fail/source:" + so.Mode)
	} else {
		cover("expect-ok/source:" + so.Mode)
	}
	if so.Mode == "error" {
		cover("source-fail/" + strings.SplitN(so.Class, ":", 2)[0])
	}

	// 2. bundle (fresh context, fresh copy of the tree: separate process in real life)
	bundleFs := c15MemFs(files)
	zipBytes, bo := c15Bundle(c15Ctx(bundleFs, bundleFs), mainPath)
	res.Evals++
	bOut := c15FromOutcome(bo)
	if bOut.Mode != "value" {
		cover("bundle-step:" + bOut.Mode)
		j.compare("bundle", so, bOut, "failed while bundling "+mainPath)
		return
	}
	cover("bundle-step:ok")
	z := c15ReadZip(zipBytes)
	if z.Err != "" {
		j.viol("C15.archive", "bundle", "unreadable-archive", "", "", "archive/zip cannot read the bundle: "+z.Err)
		return
	}
	for _, n := range z.Names {
		if strings.HasPrefix(n, "/") || strings.Contains(n, "\\") || path.Clean(n) != n || strings.HasPrefix(n, "..") {
			j.viol("C15.archive", "bundle", "entry-name-escapes-archive", "", "", fmt.Sprintf("archive entry name %q is not a clean relative path", n))
		}
	}

	// 3. run the bundle: sources still present / deleted; three working directories; host
	//    filesystems are recorders and must stay untouched
	hostFs := c15MemFs(files)
	hostRec := c15NewRecFs(hostFs)
	runtimeRec := c15NewRecFs(hostFs)
	hostCheck := func(entry string) {
		ops := append(append(hostRec.take(), runtimeRec.take()...), def.take()...)
		res.Cover = append(res.Cover, "bundle-run")
		if len(ops) > 0 {
			anyOK := false
			for _, o := range ops {
				anyOK = anyOK || o.OK
			}
			mode := "host-access-attempt"
			if anyOK {
				mode = "host-access"
			}
			j.viol("C15.host-read", entry, mode, "", ops[0].Op, fmt.Sprintf("%s touched the host filesystem (outside the archive): %s", entry, c15HostOps(ops)))
		}
	}
	wd := chdir(0)
	o := c15FromOutcome(core.Guard(func() (rel.Value, error) {
		return syntax.EvaluateBundleCtx(c15Ctx(hostRec, runtimeRec), zipBytes)
	}))
	res.Evals++
	hostCheck("run:sources-present")
	j.compare("run:sources-present", so, o, "cwd="+wd)

	// delete the source tree from the host filesystem
	for p := range files {
		_ = hostFs.Remove(p)
	}
	left := 0
	_ = afero.Walk(hostFs, "/", func(p string, fi os.FileInfo, err error) error {
		if err == nil && !fi.IsDir() {
			left++
		}
		return nil
	})
	if left != 0 {
		res.Inconclusive = fmt.Sprintf("could not delete the source tree from the MemMapFs (%d files left)", left)
		return
	}
	if full {
		wd = chdir(2)
		o = c15FromOutcome(core.Guard(func() (rel.Value, error) {
			return syntax.EvaluateBundleCtx(c15Ctx(hostRec, runtimeRec), zipBytes)
		}))
		res.Evals++
		hostCheck("run:sources-deleted")
		j.compare("run:sources-deleted", so, o, "cwd="+wd)
	}

	wd = chdir(1)
	io2, zrec := c15RunBundleInstrumented(c15Ctx(hostRec, runtimeRec), zipBytes)
	o = c15FromOutcome(io2)
	res.Evals++
	hostCheck("run:instrumented")
	j.compare("run:instrumented", so, o, "sources deleted, cwd="+wd)

	// 4. archive audit: what the source evaluation read must be in the archive, and the bundle
	//    run must have resolved to exactly that entry (contents are unique per file)
	if so.Mode != "value" || zrec == nil {
		return
	}
	zops := zrec.take()
	opened := map[string]bool{} // contents of archive entries the bundle run read
	nOpen := 0
	for _, op := range zops {
		if op.Op == "open" && op.OK && !op.Dir {
			nOpen++
			if c, ok := z.Content[strings.TrimPrefix(path.Clean(op.Path), "/")]; ok {
				opened[c] = true
			} else {
				j.viol("C15.archive", "run:instrumented", "read-of-unknown-entry", "", "", fmt.Sprintf("bundle run read %q which is not an archive entry", op.Path))
			}
		}
	}
	inArchive := map[string]string{}
	for n, c := range z.Content {
		inArchive[c] = n
	}
	srcRead, srcSent := map[string]bool{}, map[string]bool{}
	for _, op := range srcOps {
		if !op.OK || op.Dir {
			continue
		}
		if op.Op == "open" {
			srcRead[path.Clean(op.Path)] = true
		}
		if op.Op == "stat" && path.Base(op.Path) == "go.mod" {
			srcSent[path.Clean(op.Path)] = true
		}
	}
	nAudit := 0
	for p := range srcRead {
		c, ok := files[p]
		if !ok {
			continue // relative spelling of a file we cannot attribute
		}
		nAudit++
		if _, ok := inArchive[c]; !ok {
			j.viol("C15.archive-audit", "bundle", "missing-in-archive", "", "kind:"+strings.TrimPrefix(path.Ext(p), "."),
				fmt.Sprintf("source evaluation read %s but no archive entry has its content; entries: %v", p, z.Names))
		} else if !opened[c] {
			j.viol("C15.archive-audit", "run:instrumented", "not-resolved-at-run", "", "kind:"+strings.TrimPrefix(path.Ext(p), "."),
				fmt.Sprintf("source evaluation read %s (archived as %s) but the bundle run never opened that entry", p, inArchive[c]))
		}
	}
	for p := range srcSent {
		nAudit++
		if _, ok := inArchive[files[p]]; !ok {
			j.viol("C15.archive-audit", "bundle", "missing-sentinel", "", "",
				fmt.Sprintf("source evaluation found the module root sentinel %s but the archive holds no copy of it; entries: %v", p, z.Names))
		}
	}
	cover("audited")
	res.Data = c15Data{Mem: 1, SrcReads: len(srcRead), SrcSentinels: len(srcSent), ZipEntries: len(z.Names), ZipOpens: nOpen, Audited: nAudit,
		Imports: len(l.reachable()) - 1}
}

// c15Data is forwarded to Finish (evidence of observation).
type c15Data struct {
	Mem          int `json:"mem,omitempty"`
	SrcReads     int `json:"src_reads,omitempty"`
	SrcSentinels int `json:"src_sentinels,omitempty"`
	ZipEntries   int `json:"zip_entries,omitempty"`
	ZipOpens     int `json:"zip_opens,omitempty"`
	Audited      int `json:"audited,omitempty"`
	Imports      int `json:"imports,omitempty"`
	// real-binary route
	Bin          int `json:"bin,omitempty"`
	Syscalls     int `json:"syscalls,omitempty"`
	SrcRunOpens  int `json:"src_run_opens,omitempty"` // opens under the source dir seen by strace in the source run (canary)
	BundleOpens  int `json:"bundle_opens,omitempty"`  // successful opens of the .arraiz seen by strace
	OtherPaths   int `json:"other_paths,omitempty"`
	StracedRuns  int `json:"straced_runs,omitempty"`
	BinBothValue int `json:"bin_both_value,omitempty"`
}
