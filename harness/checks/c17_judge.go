package checks

import (
	"encoding/json"
	"fmt"
	"os"
	"regexp"
	"sort"
	"strconv"
	"strings"
	"time"

	"verif/core"

	"github.com/anishathalye/porcupine"
	"github.com/arr-ai/arrai/rel"
)

// c17Judge is the oracle: a pure function of the recorded history (plan + events). It is run by the
// worker right after recording and again by the driver (Finish) on forwarded histories.
//
// Clauses (each is a consequence of the property statement):
//   C17.answered           every operation issued returns (logical hang criterion otherwise)
//   C17.update-result      a valid update is acknowledged, a failing one is rejected
//   C17.final-state        the state lists exactly the acknowledged updates, each once, each block whole
//   C17.realtime-order     an update acknowledged before another was issued precedes it in the state
//   C17.observer-sequence  a live observer received its expression's value on consecutive states from
//                          its subscription point on: no gap, duplicate, reorder, stale or foreign value
//   C17.linearizable       porcupine: updates + first observations form a linearizable register history

type c17Verdict struct {
	Viols        []core.Violation
	Inconclusive string
	Tags         map[string]bool
	Counts       map[string]int
	OrderKey     string
	Ops          int
	Acked        int
	FailedUpd    int
	Deliveries   int
	Judged       int
	Overlaps     int
	OutOfCall    bool
	AbnormalEnds int
}

type c17OpRec struct {
	client, idx int
	op          c17Op
	call, ret   int // logical times; -1 = never
	err         string
	pos         int // 1-based position in the applied order; 0 = not applied
}

type c17ObsRec struct {
	idx         int
	src, flavor string
	via         string
	failAt      int
	call, ret   int
	recv        []string
	recvT       []int
	closes      []int // times of onclose
	cancelCalls []int
	killT       int
}

func c17Unmarshal(b []byte, v interface{}) error { return json.Unmarshal(b, v) }

var c17EntryNames = map[string]map[string]string{
	"engine": {"upd": "engine.Update", "updfail": "engine.Update", "obs": "engine.Observe", "cancel": "engine.Observe/cancel",
		"hangup": "engine.Hangup", "final": "engine.Observe"},
	"system": {"upd": "arrai update", "updfail": "arrai update", "obs": "arrai observe", "kill": "arrai observe/kill",
		"final": "arrai observe"},
	"ws": {"upd": "serve:Arrai/Update", "updfail": "serve:Arrai/Update", "obs": "serve:ws/observe", "resub": "serve:ws/observe",
		"kill": "serve:ws/disconnect", "final": "serve:Arrai/Observe"},
	"grpc": {"upd": "serve:Arrai/Update", "updfail": "serve:Arrai/Update", "obs": "serve:Arrai/Observe", "kill": "serve:Arrai/Observe/disconnect",
		"final": "serve:Arrai/Observe"},
}

func c17Entry(layer, kind string) string {
	if m, ok := c17EntryNames[layer]; ok {
		if s, ok := m[kind]; ok {
			return s
		}
	}
	return layer + "." + kind
}

var c17StateRe = regexp.MustCompile(`^\[\d+(, \d+)*\]$`)
var c17SysStateRe = regexp.MustCompile(`^(\d+,)+$`)

// c17ParseState parses the rendering of a state: engine layer `[1, 2, 3]` (array of ids), system
// layer `1,2,3,` (string of comma-terminated ids); the empty set is the initial state.
func c17ParseState(layer, s string) ([]int, bool) {
	if s == "{}" || s == "[]" {
		return nil, true
	}
	var fs []string
	switch {
	case layer != "engine" && c17SysStateRe.MatchString(s):
		fs = strings.Split(strings.TrimSuffix(s, ","), ",")
	case layer == "engine" && c17StateRe.MatchString(s):
		fs = strings.Split(s[1:len(s)-1], ", ")
	default:
		return nil, false
	}
	var out []int
	for _, f := range fs {
		n, err := strconv.Atoi(f)
		if err != nil {
			return nil, false
		}
		out = append(out, n)
	}
	return out, true
}

// c17Render renders a value the way the layer's observers see it.
func c17Render(layer string, v rel.Value) string {
	if layer != "engine" {
		return c17SysRender(v)
	}
	return c17Str(v)
}

const c17Fail = "\x00FAIL:"

// c17Apply evaluates an expression on a state (the sequential reference model is the evaluator
// itself, applied to one known state at a time).
func c17Apply(op c17Op, state rel.Value) (rel.Value, string) {
	e, err := c17Expr(op)
	if err != nil {
		return nil, c17Fail + "compile"
	}
	o := core.Guard(func() (rel.Value, error) { return e.Eval(core.Ctx(), rel.EmptyScope.With("$", state)) })
	switch {
	case o.Panic != nil:
		return nil, c17Fail + "panic"
	case o.Err != nil:
		return nil, c17Fail + "error"
	}
	return o.Val, ""
}

func (j *c17Verdict) tag(t string) {
	j.Tags[t] = true
	j.Counts[t]++
}

func (j *c17Verdict) viol(seen map[string]bool, sig core.Signature, detail string) {
	k := sig.String()
	if seen[k] {
		return
	}
	seen[k] = true
	j.Viols = append(j.Viols, core.Violation{Sig: sig, Detail: detail})
}

func c17Judge(h *c17Hist) c17Verdict {
	j := c17Verdict{Tags: map[string]bool{}, Counts: map[string]int{}}
	seen := map[string]bool{}
	layer := h.Plan.Layer
	j.tag("layer:" + layer)
	if strings.HasPrefix(h.Slow, "harness:") || strings.HasPrefix(h.Slow, "setup:") {
		j.Inconclusive = h.Slow
		return j
	}

	// ---- index the record ----
	var ops []*c17OpRec
	opAt := map[[2]int]*c17OpRec{}
	for c, cl := range h.Plan.Clients {
		for k, o := range cl {
			if o.Kind == "updfail" && o.Flavor == "panic" {
				// expected to fail because the evaluator panics on it today; if the evaluator ever yields a
				// value for it, the same expression is a plain valid update
				if _, fail := c17Apply(o, rel.None); fail == "" {
					o.Kind = "upd"
				} else {
					j.tag("upd:evaluation-panics")
				}
			}
			r := &c17OpRec{client: c, idx: k, op: o, call: -1, ret: -1}
			ops = append(ops, r)
			opAt[[2]int{c, k}] = r
		}
	}
	nc := len(h.Plan.Clients)
	{ // the harness's own last update (sentinel id 0) is part of the judged history
		r := &c17OpRec{client: nc, idx: 1, op: c17Barrier(layer), call: -1, ret: -1}
		ops = append(ops, r)
		opAt[[2]int{nc, 1}] = r
	}
	obs := map[int]*c17ObsRec{}
	for _, r := range ops {
		if r.op.Kind == "obs" || r.op.Kind == "resub" {
			obs[r.op.Obs] = &c17ObsRec{idx: r.op.Obs, src: r.op.Src, flavor: r.op.Flavor, via: r.op.Via, failAt: r.op.FailAt, call: -1, ret: -1, killT: -1}
		}
	}
	finalVal, finalSeen := "", false
	for _, e := range h.Events {
		switch e.E {
		case "call", "ret":
			if e.Client == nc && e.Op != 1 {
				continue // final witness / sync update: harness plumbing
			}
			r := opAt[[2]int{e.Client, e.Op}]
			if r == nil {
				continue
			}
			if e.E == "call" {
				r.call = e.T
			} else {
				r.ret, r.err = e.T, e.Err
			}
		case "val":
			if e.Obs == c17FinalObs {
				finalVal, finalSeen = e.Val, true
			} else if o := obs[e.Obs]; o != nil {
				o.recv = append(o.recv, e.Val)
				o.recvT = append(o.recvT, e.T)
			}
		case "close":
			if o := obs[e.Obs]; o != nil {
				o.closes = append(o.closes, e.T)
			}
		case "stray":
			j.viol(seen, core.Signature{Clause: "C17.observer-sequence", Entry: c17Entry(layer, "obs"), Mode: "stray-message"},
				fmt.Sprintf("a connection was sent %s, which is the value of no expression ever observed on it", c17Clip(e.Val, 100)))
		}
	}
	for _, r := range ops {
		if r.call >= 0 {
			j.Ops++
		}
		switch r.op.Kind {
		case "obs":
			o := obs[r.op.Obs]
			o.call, o.ret = r.call, r.ret
		case "resub": // replaces (cancels) the old observation on the same connection
			o := obs[r.op.Obs]
			o.call, o.ret = r.call, r.ret
			if old := obs[r.op.Old]; old != nil && r.call >= 0 && (old.killT < 0 || r.call < old.killT) {
				old.killT = r.call
				j.tag("ws:observation-replaced")
			}
		case "cancel":
			if o := obs[r.op.Obs]; o != nil && r.call >= 0 {
				o.cancelCalls = append(o.cancelCalls, r.call)
			}
		case "kill":
			if o := obs[r.op.Obs]; o != nil && r.ret >= 0 && (o.killT < 0 || r.call < o.killT) {
				if o.killT < 0 {
					j.tag("sys:observer-killed")
				}
				o.killT = r.call
			}
		}
	}
	for _, o := range obs {
		j.Deliveries += len(o.recv)
	}

	// ---- C17.answered ----
	if h.Hang != nil {
		pend := map[string]bool{}
		var pdesc []string
		for _, r := range ops {
			if r.call >= 0 && r.ret < 0 {
				pend[c17Entry(layer, r.op.Kind)] = true
				pdesc = append(pdesc, fmt.Sprintf("client%d op%d %s %s", r.client, r.idx, r.op.Kind, r.op.Src))
			}
		}
		if len(pend) == 0 {
			pend[c17Entry(layer, "final")] = true
			pdesc = append(pdesc, "final witness / barrier update after all clients had finished")
		}
		var ks []string
		for k := range pend {
			ks = append(ks, k)
		}
		sort.Strings(ks)
		j.viol(seen, core.Signature{Clause: "C17.answered", Entry: strings.Join(ks, "+"), Mode: "hang-blocked",
			Site: h.Hang.State + " @ " + core.NormFrame(strings.TrimSuffix(h.Hang.Site, "()"))},
			fmt.Sprintf("operations never answered (logical hang criterion met: every goroutine blocked, no CPU): %s; engine goroutine: %s",
				strings.Join(pdesc, " | "), strings.ReplaceAll(c17Clip(h.Hang.Stack, 500), "\n", " < ")))
		j.tag("hang")
		return j
	}
	if h.Slow != "" {
		j.Inconclusive = h.Slow
		return j
	}
	for _, r := range ops {
		if (r.op.Kind == "obs" || r.op.Kind == "resub") && strings.HasPrefix(r.err, "spawn:") {
			j.Inconclusive = "setup: observer client could not be started: " + r.err
			return j
		}
	}
	for _, r := range ops {
		if r.call < 0 || r.ret < 0 {
			j.Inconclusive = fmt.Sprintf("record incomplete: client%d op%d has call=%d ret=%d", r.client, r.idx, r.call, r.ret)
			return j
		}
	}

	// ---- overlaps (evidence of concurrency at the client boundary) ----
	for a := 0; a < len(ops); a++ {
		for b := a + 1; b < len(ops); b++ {
			if ops[a].client != ops[b].client && ops[a].call < ops[b].ret && ops[b].call < ops[a].ret {
				j.Overlaps++
			}
		}
	}

	// ---- C17.update-result ----
	byID := map[int]*c17OpRec{}
	var upds []*c17OpRec
	for _, r := range ops {
		if r.op.Kind != "upd" && r.op.Kind != "updfail" {
			continue
		}
		upds = append(upds, r)
		for _, id := range r.op.IDs {
			byID[id] = r
		}
		ok := r.err == ""
		switch {
		case r.op.Kind == "upd" && !ok:
			j.viol(seen, core.Signature{Clause: "C17.update-result", Entry: c17Entry(layer, "upd"), Mode: "error-for-valid-update"},
				fmt.Sprintf("Update(%s) was answered with error %q; the expression evaluates on every array state", r.op.Src, r.err))
		case r.op.Kind == "updfail" && ok:
			j.viol(seen, core.Signature{Clause: "C17.update-result", Entry: c17Entry(layer, "upd"), Mode: "ack-for-failing-update"},
				fmt.Sprintf("Update(%s) was acknowledged although its expression fails to evaluate", r.op.Src))
		}
		if ok {
			j.Acked++
		} else {
			j.FailedUpd++
		}
	}

	// ---- final state ----
	if !finalSeen {
		// without a final state the applied order is unknown; an engine that sends a fresh observer of
		// `$` nothing at all cannot be judged by this monitor (floors turn a run of these into "broken")
		j.Inconclusive = "final state not observable: the final witness on `$` received no value"
		return j
	}
	ids, ok := c17ParseState(layer, finalVal)
	if !ok {
		j.viol(seen, core.Signature{Clause: "C17.final-state", Entry: c17Entry(layer, "upd"), Mode: "malformed-state"},
			fmt.Sprintf("final state %s is not the array of appended ids", c17Clip(finalVal, 200)))
		return j
	}
	var applied []*c17OpRec
	structural := false
	for i := 0; i < len(ids); {
		r := byID[ids[i]]
		if r == nil {
			j.viol(seen, core.Signature{Clause: "C17.final-state", Entry: c17Entry(layer, "upd"), Mode: "unknown-id"},
				fmt.Sprintf("final state %s contains id %d that no update appended", finalVal, ids[i]))
			structural = true
			i++
			continue
		}
		whole := i+len(r.op.IDs) <= len(ids)
		for k := 0; whole && k < len(r.op.IDs); k++ {
			whole = ids[i+k] == r.op.IDs[k]
		}
		if !whole {
			j.viol(seen, core.Signature{Clause: "C17.final-state", Entry: c17Entry(layer, "upd"), Mode: "update-not-atomic"},
				fmt.Sprintf("final state %s: the ids %v of Update(%s) are not contiguous/in order", finalVal, r.op.IDs, r.op.Src))
			structural = true
			i++
			continue
		}
		if r.pos != 0 {
			j.viol(seen, core.Signature{Clause: "C17.final-state", Entry: c17Entry(layer, "upd"), Mode: "update-applied-twice"},
				fmt.Sprintf("final state %s: Update(%s) took effect more than once", finalVal, r.op.Src))
			structural = true
		} else {
			applied = append(applied, r)
			r.pos = len(applied)
		}
		if r.err != "" || r.op.Kind == "updfail" {
			j.viol(seen, core.Signature{Clause: "C17.final-state", Entry: c17Entry(layer, "upd"), Mode: "rejected-update-applied"},
				fmt.Sprintf("final state %s contains the ids of Update(%s), which was answered with error %q", finalVal, r.op.Src, r.err))
			structural = true
		}
		i += len(r.op.IDs)
	}
	for _, r := range upds {
		if r.err == "" && r.op.Kind == "upd" && r.pos == 0 {
			j.viol(seen, core.Signature{Clause: "C17.final-state", Entry: c17Entry(layer, "upd"), Mode: "acknowledged-update-lost"},
				fmt.Sprintf("Update(%s) was acknowledged but its ids are not in the final state %s", r.op.Src, finalVal))
			structural = true
		}
	}
	N := len(applied)
	var ord []string
	for _, r := range applied {
		ord = append(ord, fmt.Sprint(r.op.IDs[0]))
	}
	j.OrderKey = strings.Join(ord, ",")
	byCall := append([]*c17OpRec(nil), applied...)
	sort.Slice(byCall, func(a, b int) bool { return byCall[a].call < byCall[b].call })
	for i := range byCall {
		if byCall[i] != applied[i] {
			j.OutOfCall = true
		}
	}

	// ---- C17.realtime-order ----
	rtOK := true
	for _, a := range applied {
		for _, b := range applied {
			if a.ret < b.call && a.pos > b.pos {
				rtOK = false
				j.viol(seen, core.Signature{Clause: "C17.realtime-order", Entry: c17Entry(layer, "upd"), Mode: "reordered"},
					fmt.Sprintf("Update(%s) was acknowledged (t=%d) before Update(%s) was issued (t=%d) but comes after it in the final state %s",
						a.op.Src, a.ret, b.op.Src, b.call, finalVal))
			}
		}
	}

	// ---- C17.linearizable (porcupine cross-check) ----
	c17Porcupine(h, &j, seen, upds, obs)

	if structural || !rtOK {
		return j // the applied order is not well defined: observers cannot be judged against it
	}

	// ---- reference states S_0..S_N ----
	states := make([]rel.Value, N+1)
	states[0] = rel.None
	for k, r := range applied {
		v, fail := c17Apply(r.op, states[k])
		if fail != "" {
			j.Inconclusive = fmt.Sprintf("model: applied update %s fails on the reference state (%s)", r.op.Src, fail)
			return j
		}
		states[k+1] = v
	}
	if got := c17Render(layer, states[N]); got != finalVal && !(N == 0 && (finalVal == "{}" || finalVal == "[]")) {
		j.Inconclusive = fmt.Sprintf("model: reference final state %s differs from observed %s", got, finalVal)
		return j
	}
	lastAckedBefore := func(t int) int {
		m := 0
		for _, r := range applied {
			if r.ret < t && r.pos > m {
				m = r.pos
			}
		}
		return m
	}
	firstCalledAfter := func(t int) int {
		m := N + 1
		for _, r := range applied {
			if r.call > t && r.pos < m {
				m = r.pos
			}
		}
		return m
	}
	var hangupCalls [][2]int
	for _, r := range ops {
		if r.op.Kind == "hangup" {
			hangupCalls = append(hangupCalls, [2]int{r.call, r.ret})
		}
	}

	// ---- C17.observer-sequence ----
	var oidx []int
	for i := range obs {
		oidx = append(oidx, i)
	}
	sort.Ints(oidx)
	firstEnd := -1 // logical time of the first abnormal end, for the "later operations" evidence
	for _, i := range oidx {
		o := obs[i]
		E := make([]string, N+1)
		for k := 0; k <= N; k++ {
			v, fail := c17Apply(c17Op{Src: o.src}, states[k])
			if fail != "" {
				E[k] = fail
			} else if o.via == "ws" {
				E[k] = c17WSRender(v)
			} else {
				E[k] = c17Render(layer, v)
			}
		}
		lo, hi := lastAckedBefore(o.call), firstCalledAfter(o.ret)-1
		if lo > hi {
			continue // cannot happen when the real-time order holds
		}
		if lo == hi {
			j.tag("observer:tight-subscription-point")
		}
		// termination bound: last state the observer was certainly still live for
		term, cause := N+1, ""
		if len(o.cancelCalls) > 0 {
			term, cause = lastAckedBefore(o.cancelCalls[0]), "cancel"
		}
		if o.killT >= 0 {
			// a killed / disconnected client: values the server had sent may still have been in flight
			// when the client died, so nothing is *due*; what it did receive must still be consecutive
			term, cause = -1, "kill"
		}
		for _, hc := range hangupCalls {
			if hc[1] < o.call {
				continue // hang-up completed before this observer subscribed
			}
			if b := lastAckedBefore(hc[0]); b < term {
				term, cause = b, "hangup"
			}
		}
		// deliveries recorded before the first cancel / kill / hang-up call reached the observer while
		// it was certainly live: they must be consecutive too
		liveUntil := int(^uint(0) >> 1)
		if len(o.cancelCalls) > 0 {
			liveUntil = o.cancelCalls[0]
		}
		if o.killT >= 0 && o.killT < liveUntil {
			liveUntil = o.killT
		}
		for _, hc := range hangupCalls {
			if hc[1] >= o.call && hc[0] < liveUntil {
				liveUntil = hc[0]
			}
		}
		nLive := 0
		for _, t := range o.recvT {
			if t < liveUntil {
				nLive++
			}
		}
		matched := false
		var mEnd string
		var mJudged int
		for p := lo; p <= hi && !matched; p++ {
			for _, init := range []bool{true, false} {
				a := p
				if !init {
					a = p + 1
				}
				if ok, end, judged := c17Explain(o, E, a, term, N, nLive, cause); ok {
					matched, mEnd, mJudged = true, end, judged
					if init && len(o.recv) > 0 {
						j.tag("observer:initial-delivered")
					}
					break
				}
			}
		}
		if matched {
			j.Judged += mJudged
			switch mEnd {
			case "":
				j.tag("observer:live-to-end")
			default:
				j.tag("end:" + mEnd)
				j.AbnormalEnds++
				if len(o.recv) > mJudged {
					j.tag("unjudged:deliveries-after-end")
				}
				switch n := len(o.closes); {
				case n == 0:
					j.tag("onclose:0-after-" + mEnd)
				case n == 1:
					j.tag("onclose:1-after-" + mEnd)
				default:
					j.tag("onclose:2+-after-" + mEnd)
				}
				if len(o.closes) > 0 && (firstEnd < 0 || o.closes[0] < firstEnd) {
					firstEnd = o.closes[0]
				}
			}
			if len(o.cancelCalls) > 1 {
				j.tag("op:cancel-again")
			}
			if len(o.cancelCalls) > 0 && len(o.closes) > 0 && o.closes[0] < o.cancelCalls[0] {
				j.tag("op:cancel-after-end")
			}
			continue
		}
		mode, detail := c17Classify(o, E, lo, hi, term, N, nLive, cause)
		entry := c17Entry(layer, "obs")
		if layer == "ws" && o.via != "ws" {
			entry = c17Entry("grpc", "obs")
		}
		j.viol(seen, core.Signature{Clause: "C17.observer-sequence", Entry: entry, Mode: mode, Hazards: []string{"obs=" + o.flavor}},
			fmt.Sprintf("observer o%d on `%s` (subscribed between states %d and %d%s): %s; received %s; expression on states %d..%d = %s; final state %s",
				o.idx, o.src, lo, hi, map[bool]string{true: ", ended by " + cause + " after state " + fmt.Sprint(term), false: ""}[term <= N],
				detail, c17List(o.recv), lo, N, c17List(E[lo:]), finalVal))
	}
	if layer == "ws" {
		j.tag("ws:judged")
	}
	if layer != "engine" {
		j.tag("sys:judged")
	}
	if firstEnd >= 0 {
		for _, r := range upds {
			if r.call > firstEnd {
				j.tag("op:update-after-observer-ended")
			}
		}
	}
	return j
}

// c17Need lists what an observer subscribed at state a must receive while it stays live:
// the values on states a, a+1, ... up to the first state on which its expression fails, or up
// to and including the delivery its onupdate rejects. end names why the list stops early.
func c17Need(E []string, a, failAt int) (need []string, end string) {
	for k := a; k < len(E); k++ {
		if strings.HasPrefix(E[k], c17Fail) {
			return need, "expr-" + strings.TrimPrefix(E[k], c17Fail)
		}
		need = append(need, E[k])
		if failAt > 0 && len(need) == failAt {
			return need, "onupdate-error"
		}
	}
	return need, ""
}

// c17Explain decides whether "the observer subscribed at state a" explains what it received.
// full = what an observer that stays live receives; the obligatory part stops at the termination
// bound term (cancel / kill / hang-up: last state acknowledged before that call). Everything received
// while certainly live (the first nLive deliveries) must be consecutive as well. What a dead observer
// is sent afterwards is not judged.
func c17Explain(o *c17ObsRec, E []string, a, term, N, nLive int, cause string) (ok bool, end string, judged int) {
	full, endFull := c17Need(E, a, o.failAt)
	must, end := len(full), endFull
	if term <= N {
		if n := term - a + 1; n < must {
			if n < 0 {
				n = 0
			}
			must, end = n, cause
		} else if end == "" {
			end = cause
		}
	}
	if len(o.recv) < must {
		return false, "", 0
	}
	L := must
	if nLive > L {
		if nLive > len(full) {
			if endFull == "" {
				return false, "", 0 // more deliveries while live than there were states
			}
			L = len(full)
		} else {
			L = nLive
		}
	}
	if end == "" && len(o.recv) != len(full) {
		return false, "", 0 // live to the end: exactly one delivery per state
	}
	for i := 0; i < L; i++ {
		if o.recv[i] != full[i] {
			return false, "", 0
		}
	}
	return true, end, L
}

// c17Classify names the discrepancy (mode) for an observer no admissible subscription point explains.
func c17Classify(o *c17ObsRec, E []string, lo, hi, term, N, nLive int, cause string) (string, string) {
	// fully explained by an inadmissible subscription point?
	for a := 0; a <= N+1; a++ {
		if a >= lo && a <= hi+1 {
			continue
		}
		if len(o.recv) == 0 {
			break
		}
		if ok, _, _ := c17Explain(o, E, a, term, N, nLive, cause); ok {
			if a < lo {
				return "stale-subscription", fmt.Sprintf("the sequence starts at state %d, older than a state acknowledged before Observe was called", a)
			}
			return "missed-state-after-subscribe", fmt.Sprintf("the sequence starts at state %d; states installed after the subscription were not sent", a)
		}
	}
	// otherwise walk the best admissible alignment
	bestA, bestLen := lo, -1
	for a := lo; a <= hi+1 && a <= N; a++ {
		n := 0
		for n < len(o.recv) && a+n <= N && o.recv[n] == E[a+n] {
			n++
		}
		if n > bestLen {
			bestA, bestLen = a, n
		}
	}
	full, endFull := c17Need(E, bestA, o.failAt)
	must := len(full)
	live := endFull == "" && term > N
	if term <= N {
		if n := term - bestA + 1; n < must {
			if n < 0 {
				n = 0
			}
			must = n
		}
	}
	k := 0
	for k < len(o.recv) && k < len(full) && o.recv[k] == full[k] {
		k++
	}
	switch {
	case k >= len(full) && len(o.recv) > len(full) && (live || (endFull == "" && nLive > len(full))):
		if len(full) > 0 && o.recv[len(full)] == full[len(full)-1] {
			return "duplicate", fmt.Sprintf("delivery #%d repeats the value of the last state", len(full)+1)
		}
		return "extra-delivery", fmt.Sprintf("%d deliveries for %d states", len(o.recv), len(full))
	case k >= len(o.recv):
		return "missing-deliveries", fmt.Sprintf("only %d of the %d values due were delivered", len(o.recv), must)
	case bestA+k+1 <= N && o.recv[k] == E[bestA+k+1]:
		return "gap", fmt.Sprintf("delivery #%d skips state %d", k+1, bestA+k)
	case k > 0 && o.recv[k] == o.recv[k-1]:
		return "duplicate", fmt.Sprintf("delivery #%d repeats delivery #%d although the state changed", k+1, k)
	}
	for b := 0; b < bestA+k && b <= N; b++ {
		if o.recv[k] == E[b] {
			return "stale-or-reordered", fmt.Sprintf("delivery #%d is the value on the older state %d (expected state %d)", k+1, b, bestA+k)
		}
	}
	return "wrong-value", fmt.Sprintf("delivery #%d = %s is not the expression's value on state %d", k+1, c17Clip(o.recv[k], 80), bestA+k)
}

func c17List(xs []string) string {
	ys := make([]string, 0, len(xs))
	for i, x := range xs {
		if i >= 14 {
			ys = append(ys, fmt.Sprintf("…(%d more)", len(xs)-i))
			break
		}
		if strings.HasPrefix(x, c17Fail) {
			x = "<" + strings.TrimPrefix(x, c17Fail) + ">"
		}
		ys = append(ys, c17Clip(x, 60))
	}
	return "⟨" + strings.Join(ys, " ; ") + "⟩"
}

func c17Clip(s string, n int) string {
	if len(s) > n {
		return s[:n] + "…"
	}
	return s
}

// ---------------------------------------------------------------------------------------------
// porcupine: Update / first-observation as a register history

type c17PIn struct {
	read     bool
	ids      string
	planFail bool
}
type c17POut struct {
	ok  bool
	val string
}

var c17Model = porcupine.Model{
	Init: func() interface{} { return "" },
	Step: func(state, input, output interface{}) (bool, interface{}) {
		st, in, out := state.(string), input.(c17PIn), output.(c17POut)
		if in.read {
			return out.val == st, st
		}
		if out.ok {
			if in.planFail {
				return false, st
			}
			if st == "" {
				return true, in.ids
			}
			return true, st + ", " + in.ids
		}
		return in.planFail, st
	},
	Equal: func(a, b interface{}) bool { return a.(string) == b.(string) },
	DescribeOperation: func(input, output interface{}) string {
		return fmt.Sprintf("%+v -> %+v", input, output)
	},
}

func c17Porcupine(h *c17Hist, j *c17Verdict, seen map[string]bool, upds []*c17OpRec, obs map[int]*c17ObsRec) {
	var hist []porcupine.Operation
	for _, r := range upds {
		hist = append(hist, porcupine.Operation{ClientId: r.client, Input: c17PIn{ids: c17IDList(r.op.IDs), planFail: r.op.Kind == "updfail"},
			Call: int64(r.call), Output: c17POut{ok: r.err == ""}, Return: int64(r.ret)})
	}
	reads := 0
	var oidx []int
	for i := range obs {
		oidx = append(oidx, i)
	}
	sort.Ints(oidx)
	for _, i := range oidx {
		o := obs[i]
		if reads >= 5 { // each read is a client of its own: keep the checker's search space small
			break
		}
		if o.src != "$" || o.via == "ws" || len(o.recv) == 0 || o.call < 0 || o.ret < 0 {
			continue
		}
		// the first value an observer of `$` is sent was the state at some moment between the call of
		// Observe and (the later of its return and that delivery)
		ret := o.ret
		if o.recvT[0] > ret {
			ret = o.recvT[0]
		}
		val := "unparsable: " + o.recv[0]
		if ids, ok := c17ParseState(h.Plan.Layer, o.recv[0]); ok {
			val = c17IDList(ids)
		}
		hist = append(hist, porcupine.Operation{ClientId: len(h.Plan.Clients) + reads, Input: c17PIn{read: true}, Call: int64(o.call),
			Output: c17POut{val: val}, Return: int64(ret)})
		reads++
	}
	if len(hist) == 0 {
		return
	}
	t0 := time.Now()
	res := porcupine.CheckOperationsTimeout(c17Model, hist, 10*time.Second)
	if d := time.Since(t0); d > 500*time.Millisecond {
		j.tag("porcupine:slower-than-500ms")
		if os.Getenv("C17_DEBUG") != "" {
			fmt.Fprintf(os.Stderr, "c17: porcupine took %v on %d operations (%d reads) plan=%s\n", d, len(hist), reads, h.Plan.Name)
		}
	}
	switch res {
	case porcupine.Ok:
		j.tag("porcupine:ok")
		j.Counts["porcupine:operations"] += len(hist)
		j.Counts["porcupine:reads"] += reads
	case porcupine.Illegal:
		j.viol(seen, core.Signature{Clause: "C17.linearizable", Entry: c17Entry(h.Plan.Layer, "upd") + "+" + c17Entry(h.Plan.Layer, "obs"), Mode: "not-linearizable"},
			fmt.Sprintf("porcupine: no sequential order of the %d updates and %d first observations of `$` explains their results and real-time order", len(hist)-reads, reads))
	default:
		j.tag("porcupine:timeout")
		if j.Inconclusive == "" {
			j.Inconclusive = "porcupine: checker budget (10 s) exhausted"
		}
	}
}
