package checks

import (
	"encoding/json"
	"fmt"
	"sort"
	"strings"

	"verif/core"
)

// C08: documented source-level equivalences preserve meaning. Differential (metamorphic) monitor:
// program P (generated from the AST in c08_ast.go) and P' = one documented rewrite of P at one
// position are both run through the real parser/compiler/evaluator in this process; the outcomes
// must agree by denotation and by success/failure. Error text is never compared.

type c08 struct{}

func init() { core.Register(c08{}) }

func (c08) ID() string    { return "C08" }
func (c08) Level() string { return "exploration" }
func (c08) Rule() string {
	return "case = one program + its rewrites. Core corpus (seed-independent): all ordered pairs of the 32 operator specimens of the documented precedence table in both nestings, plus hand-built families per rewrite (binder patterns/shadowing, every literal kind in every container, every transform with ./.attr/nested/closing bodies, every lazy construct x selection); every applicable rewrite at every position. Random slice (VERIF_SEED): typed, well-scoped, mostly well-typed programs (generator depth 2..4 quick, 2..5 for a quarter of the thorough programs; source length capped at 150/260 chars because parse time grows with length); per program a seeded sample of positions per rewrite kind R1..R9. A (rewrite kind, entry, program shape) pair is non-trivial when both sides produce a value; distinct by that triple (shape = program with literals and identifiers erased)."
}
func (c08) Assumptions() []string {
	return []string{
		"precedence/associativity table transcribed from syntax/arrai.wbnf (dev/grammar.md names it the grammar): levels of rule expr, same-level binops left to right, ^ right to left (arithmetic.md), comparison chains n-ary and never re-associated",
		"comments are inserted only where that grammar has C* (before/after a complete sub-expression); whitespace is inserted between any two tokens and removed only next to brackets, commas and semicolons",
		"outcomes are compared as value(denotation) vs failure; two failures agree whatever their text; a panic on one side against a value on the other is a violation with its own mode, panic-vs-error pairs are only counted",
		"R8 decides which branch is unselected by evaluating the condition itself, closed by the enclosing let/arrow/applied-lambda bindings, with the real evaluator; conditions that depend on a transform binder, lambda parameter or cond pattern are not judged",
		"R7 inlines only let-bound literals, variables and lambdas (right-hand sides that cannot fail), and only where no capture occurs",
		"macros, expression strings, rec, imports, bytes, offset/sparse sequences, multi-valued dict keys and >>> are outside the generated fragment",
	}
}

func (c08) randomCases(cfg *core.Config) int { return cfg.Pick(1500, 10000) }

// Shards: thorough splits the case list over 4x as many worker processes as run concurrently, so that
// no single worker process comes near the driver's per-process watchdog on a loaded machine.
func (c08) Shards(cfg *core.Config) int {
	if cfg.Thorough() {
		return 4 * cfg.Workers
	}
	return cfg.Workers
}

func (c c08) NumCases(cfg *core.Config) int { return len(c08Corpus()) + c.randomCases(cfg) }

var c08Clauses = []string{"R1", "R2", "R3", "R4", "R5", "R6", "R7", "R8", "R9"}

type c08CaseData struct {
	Shape uint64 `json:"sh"`
	Pairs int    `json:"p"`
	NT    int    `json:"nt"`
}

func c08Class(o core.Outcome) (string, core.MV, *core.PanicInfo) {
	switch {
	case o.Panic != nil:
		return "P", core.MV{}, o.Panic
	case o.Err != nil:
		return "E", core.MV{}, nil
	}
	m, perr := core.SafeDenote(o.Val)
	if perr != nil {
		return "P", core.MV{}, perr
	}
	return "V", m, nil
}

func c08Delta(a, b core.MV) string {
	switch {
	case a.K != b.K:
		return "kind"
	case a.K == 'n':
		return "number"
	case a.K == 't':
		return "tuple"
	case a.K == 's':
		miss, extra := 0, 0
		for _, e := range a.S {
			if !b.Has(e) {
				miss++
			}
		}
		for _, e := range b.S {
			if !a.Has(e) {
				extra++
			}
		}
		switch {
		case miss > 0 && extra == 0:
			return "set-missing-members"
		case extra > 0 && miss == 0:
			return "set-extra-members"
		}
		return "set-altered-members"
	}
	return "other"
}

func (c c08) RunCase(cfg *core.Config, i int) core.CaseResult {
	corpus := c08Corpus()
	var root *c08N
	random := i >= len(corpus)
	typ := "corpus"
	if random {
		var t c08T
		root, t = c08RandomProgram(cfg.Seed, i-len(corpus), cfg.Thorough() && i%4 == 0)
		typ = c08TypeName[t]
	} else {
		root = corpus[i]
	}
	r := core.NewRng(cfg.Seed, 88, uint64(i))
	ev := &c08Evals{cache: map[string]core.Outcome{}}
	baseSrc := c08Src(root)
	base := ev.eval(baseSrc)
	bClass, bMV, bPanic := c08Class(base)
	shape := c08Shape(root)
	res := core.CaseResult{Key: shape, NonTrivial: bClass == "V"}
	res.Cover = append(res.Cover, "base:"+bClass, "type:"+typ)
	if bPanic != nil {
		res.Cover = append(res.Cover, "base-panic-site:"+bPanic.Sig()) // not judged here (C10); shown in evidence
	}

	// collect the rewrites: everything everywhere for the hand-built families; parenthesisation and
	// whole-program layout only for the precedence pairs; a seeded sample per kind for random programs
	var rws []c08RW
	precPart := i < c08CorpusPrecN
	tree := c08TreeRewrites(root)
	lazy := c08LazyRewrites(root, ev)
	capN := 0
	if random {
		capN = cfg.Pick(2, 4)
	}
	byClause := map[string][]c08RW{}
	for _, rw := range append(tree, lazy...) {
		byClause[rw.Clause] = append(byClause[rw.Clause], rw)
	}
	for _, cl := range c08Clauses {
		xs := byClause[cl]
		if precPart && cl != "R5" {
			continue
		}
		if capN > 0 && len(xs) > capN {
			core.Shuffle(r, xs)
			xs = xs[:capN]
		}
		rws = append(rws, xs...)
	}
	for _, rw := range c08LayoutRewrites(root, r, 1) {
		if precPart && rw.Pos >= 0 || random && rw.Pos >= 0 && r.Chance(1, 2) {
			continue
		}
		rws = append(rws, rw)
	}
	rws = append(rws, c08FullParens(root))

	seen := map[string]bool{}
	pairs, nt := 0, 0
	for _, rw := range rws {
		src := rw.Src
		if rw.Root != nil {
			src = c08Src(rw.Root)
		}
		if src == baseSrc {
			res.Cover = append(res.Cover, "identity:"+rw.Clause)
			continue
		}
		o := ev.eval(src)
		oClass, oMV, oPanic := c08Class(o)
		pairs++
		res.Cover = append(res.Cover, "applied:"+rw.Clause, "rw:"+rw.Clause+"/"+rw.Entry, "outcome:"+bClass+"/"+oClass)
		mode, site, delta := "", "", ""
		switch {
		case bClass == "V" && oClass == "V":
			nt++
			res.Cover = append(res.Cover, "nontrivial:"+rw.Clause)
			res.SubKeys = append(res.SubKeys, rw.Clause+"/"+rw.Entry+"@"+shape)
			if bMV.Enc != oMV.Enc {
				mode, delta = "wrong-value", c08Delta(bMV, oMV)
			}
		case bClass == "V" && oClass == "E":
			mode = "error-for-value"
		case bClass == "E" && oClass == "V":
			mode = "value-for-error"
		case bClass == "V" && oClass == "P":
			mode, site = "panic:rewritten", oPanic.Sig()
		case bClass == "P" && oClass == "V":
			mode, site = "panic:original", bPanic.Sig()
		}
		if mode == "" {
			continue
		}
		sig := core.Signature{Clause: "C08." + rw.Clause, Entry: rw.Entry, Mode: mode, Site: site,
			Hazards: []string{"at:" + rw.At}, Delta: delta}
		if seen[sig.String()] {
			continue
		}
		seen[sig.String()] = true
		res.Viols = append(res.Viols, core.Violation{Sig: sig,
			Detail: fmt.Sprintf("%s %s at %d: `%s` => %s   BUT   `%s` => %s", rw.Clause, rw.Entry, rw.Pos,
				baseSrc, outcomeText(base), src, outcomeText(o)),
			Replay: map[string]interface{}{"original": baseSrc, "rewritten": src, "rewrite": rw.Clause + " " + rw.Entry,
				"position": rw.Pos, "original_outcome": outcomeText(base), "rewritten_outcome": outcomeText(o)}})
	}
	res.Evals = ev.n
	res.Data = c08CaseData{Shape: core.Hash64(shape), Pairs: pairs, NT: nt}
	if i%61 == 7 && len(rws) > 0 {
		rw := rws[r.Intn(len(rws))]
		src := rw.Src
		if rw.Root != nil {
			src = c08Src(rw.Root)
		}
		res.Sample = fmt.Sprintf("[%s] %s  ~%s %s~>  %s   (base outcome %s, %d rewrites applied)", typ, baseSrc, rw.Clause, rw.Entry,
			strings.ReplaceAll(src, "\n", "⏎"), bClass, pairs)
	}
	return res
}

func (c08) Finish(cfg *core.Config, agg *core.Aggregate) {
	shapes := map[uint64]struct{}{}
	programs, pairs, nt := 0, 0, 0
	for _, d := range agg.Data {
		var cd c08CaseData
		if json.Unmarshal(d.Data, &cd) != nil {
			continue
		}
		programs++
		shapes[cd.Shape] = struct{}{}
		pairs += cd.Pairs
		nt += cd.NT
	}
	agg.Extra["programs"] = programs
	agg.Extra["rewrite_pairs_applied"] = pairs
	agg.Extra["rewrite_pairs_value_on_both_sides"] = nt
	agg.Extra["distinct_program_shapes"] = len(shapes)
	per := map[string]map[string]int{}
	for _, cl := range c08Clauses {
		per[cl] = map[string]int{"applied": agg.Cover["applied:"+cl], "value_on_both_sides": agg.Cover["nontrivial:"+cl]}
	}
	agg.Extra["per_rewrite_kind"] = per
	var entries []string
	for k := range agg.Cover {
		if strings.HasPrefix(k, "rw:") {
			entries = append(entries, k[3:])
		}
	}
	sort.Strings(entries)
	agg.Extra["distinct_rewrite_entries"] = len(entries)
	// floors: an empty or degenerate run is broken, not a pass
	lo := cfg.Pick(400, 1600)
	for _, cl := range c08Clauses {
		lo := lo
		if cl == "R7" || cl == "R6" {
			lo /= 2 // one R6 per program; R7 needs a let whose right-hand side is a value
		}
		if per[cl]["applied"] < lo {
			agg.Fail("coverage floor: rewrite %s applied %d times (< %d)", cl, per[cl]["applied"], lo)
		}
		if per[cl]["value_on_both_sides"] < lo/4 {
			agg.Fail("coverage floor: rewrite %s had a value on both sides only %d times (< %d)", cl, per[cl]["value_on_both_sides"], lo/4)
		}
	}
	if programs < len(c08Corpus()) {
		agg.Fail("coverage floor: only %d programs ran (core corpus has %d)", programs, len(c08Corpus()))
	}
	if pairs > 0 && nt*5 < pairs {
		agg.Fail("coverage floor: only %d of %d rewrite pairs had a value on both sides (< 20%%)", nt, pairs)
	}
	if len(shapes) < programs/10 {
		agg.Fail("coverage floor: %d distinct program shapes for %d programs", len(shapes), programs)
	}
	if len(entries) < 60 {
		agg.Fail("coverage floor: only %d distinct (rewrite kind, entry) pairs were applied", len(entries))
	}
}
