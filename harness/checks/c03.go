package checks

import (
	"context"
	"fmt"
	"sort"
	"strings"

	"verif/core"

	"github.com/arr-ai/arrai/rel"
)

// C03: values are immutable. History monitor: a pool of live values grows by applying operators
// to earlier members (branching: the same parent is extended many times, at the end and at the
// front — the capacity-aliasing pattern); every value is snapshotted when created and after
// EVERY later step all snapshots are re-taken and compared. Any change is a violation attributed
// to the step that caused it.

type c03 struct{}

func init() { core.Register(c03{}) }

func (c03) ID() string    { return "C03" }
func (c03) Level() string { return "exploration" }
func (c03) Rule() string {
	return "case = one branching history: seed pool of 6-10 values (strings, bytes, arrays, dicts, relations, plain sets, tuples; built by operators so backing slices have spare capacity), then N steps (quick 30, thorough 60) each applying one of ~45 operator templates (with/without at end, front, middle; ++ | & &~ ~~; >> => where via native probes; offsets; joins; +>; //seq.*; pattern match and rebuild; orderby/rank/nest; Go-level Set.With/Without/Map/Where, Concatenate) to pool members chosen with a bias towards re-using the same parent; after every step every live value's snapshot (denotation encoding, printed form, Count) is compared with the one taken at creation. Distinct by (operator template, class of parent); non-trivial when the parent already has at least one other derivative in the pool."
}
func (c03) Assumptions() []string {
	return []string{"a snapshot is (canonical encoding of Denote(v), fu.Repr(v), Count()); a value whose enumeration itself is inconsistent is the business of C01, here only CHANGE over time is judged",
		"steps that fail (error or panic) add nothing to the pool but are followed by the same snapshot comparison"}
}

func (c03) NumCases(cfg *core.Config) int { return cfg.Pick(600, 8000) }

type c03snap struct {
	enc, repr string
	count     int
	born      int // step index at which the value was created
	op        string
	src       string
}

type c03val struct {
	v    rel.Value
	s    c03snap
	kids int
}

func c03Snapshot(v rel.Value) (c03snap, bool) {
	d, pi := core.SafeDenote(v)
	if pi != nil {
		return c03snap{}, false
	}
	r, pi := core.Repr(v)
	if pi != nil {
		r = "<repr panics>"
	}
	cnt := -1
	if s, ok := v.(rel.Set); ok {
		c, pi := safeCount(s)
		if pi == nil {
			cnt = c
		}
	}
	return c03snap{enc: d.Enc, repr: r, count: cnt}, true
}

// c03Seeds are construction programs for the initial pool (some built by operators on purpose).
var c03Seeds = []string{
	`"abc"`, `"ab" ++ "c"`, `("ab" with (@:2,@char:99))`, `1\"bcd"`, `""`, `"hello world"`,
	`<<1,2,3>>`, `(<<1,2>> with (@:2,@byte:3))`, `<<97>> ++ <<98,99>>`, `2\<<5,6>>`,
	`[1,2,3]`, `[1,2] ++ [3]`, `([1,2] with (@:2,@item:3))`, `[1,,3]`, `2\[7,8]`, `[[1,2],[3]]`, `["a","b"]`, `[]`,
	`{"a":1,"b":2}`, `({"a":1} | {"b":2})`, `{1:2,3:4}`, `{"k":[1,2],"l":"xy"}`,
	`{|a,b| (1,2),(1,3),(2,3)}`, `{|b,c| (2,5),(3,6)}`, `{(a:1),(a:2)}`, `{|@,x| (0,1),(1,2)}`,
	`{1,2,3}`, `{1,{2},"a"}`, `{}`, `{()}`, `{"a","b","c"}`,
	`(a:1,b:"xy")`, `(a:[1,2],b:(c:3))`, `(@:0,@char:97)`,
	`("abc" >> \c c)`, `([1,2,3] >> \x x+1)`, `("abcd" where .@ < 3)`, `({1,2,3,4} where . < 4)`,
	`//seq.concat(["ab","cd"])`, `//seq.split(",", "a,b,c")`, `//seq.repeat(2, "ab")`, `//seq.sub("b", "xx", "abc")`,
}

type c03op struct {
	name  string
	arity int
	tmpl  string // uses a (and b); "" => native Go-level op
	goOp  func(a, b rel.Value, r *core.Rng) (rel.Value, error)
}

func c03Ops() []c03op {
	return []c03op{
		{name: "with-end", arity: 1}, {name: "with-front", arity: 1}, {name: "with-new", arity: 1}, {name: "with-existing", arity: 1},
		{name: "without-first", arity: 1}, {name: "without-last", arity: 1}, {name: "without-mid", arity: 1},
		{name: "go-with-end", arity: 1}, {name: "go-without-last", arity: 1}, {name: "go-without-first", arity: 1},
		{name: "++elem", arity: 1}, {name: "elem++", arity: 1}, {name: "++same", arity: 1, tmpl: "a ++ a"},
		{name: "++", arity: 2, tmpl: "a ++ b"}, {name: "|", arity: 2, tmpl: "a | b"}, {name: "&", arity: 2, tmpl: "a & b"},
		{name: "&~", arity: 2, tmpl: "a &~ b"}, {name: "~~", arity: 2, tmpl: "a ~~ b"},
		{name: ">>id", arity: 1, tmpl: `a >> \x x`}, {name: ">>wrap", arity: 1, tmpl: `a >> \x [x]`}, {name: ">>>", arity: 1, tmpl: `a >>> \i \x x`},
		{name: "=>id", arity: 1, tmpl: `a => .`}, {name: "=>probe", arity: 1, tmpl: `a => f(.)`},
		{name: "where-probe", arity: 1, tmpl: `a where p(.)`}, {name: "where-true", arity: 1, tmpl: `a where true`},
		{name: "offset+1", arity: 1, tmpl: `1\a`}, {name: "offset-1", arity: 1, tmpl: `(-1)\a`}, {name: "offset+0", arity: 1, tmpl: `0\a`},
		{name: "<&>fresh1", arity: 1, tmpl: "a <&> {|zq| (1)}"}, {name: "<&>fresh2", arity: 1, tmpl: "a <&> {|zr| (2), (3)}"},
		{name: "<&>", arity: 2, tmpl: "a <&> b"}, {name: "<->", arity: 2, tmpl: "a <-> b"}, {name: "-&-", arity: 2, tmpl: "a -&- b"},
		{name: "+>", arity: 2, tmpl: "a +> b"},
		{name: "seq.concat", arity: 2, tmpl: "//seq.concat([a, b])"}, {name: "seq.repeat", arity: 1, tmpl: "//seq.repeat(2, a)"},
		{name: "seq.sub", arity: 2, tmpl: "//seq.sub(b, a, a)"}, {name: "seq.split", arity: 2, tmpl: "//seq.split(b, a)"},
		{name: "seq.join", arity: 2, tmpl: "//seq.join(b, [a, a])"}, {name: "seq.trim_prefix", arity: 2, tmpl: "//seq.trim_prefix(b, a)"},
		{name: "seq.trim_suffix", arity: 2, tmpl: "//seq.trim_suffix(b, a)"},
		{name: "pat-head", arity: 1, tmpl: `let [x, ...r] = a; [x] ++ r`}, {name: "pat-last", arity: 1, tmpl: `let [...r, x] = a; r ++ [x]`},
		{name: "pat-tuple", arity: 1, tmpl: `let (a: x, ...r) = a; r +> (a: x)`},
		{name: "orderby", arity: 1, tmpl: `a orderby .`}, {name: "rank", arity: 1, tmpl: `a rank (r: .)`}, {name: "nest", arity: 1, tmpl: `a nest |b|n`},
		{name: "tuple-attr", arity: 1, tmpl: `(k: a, l: a).k`}, {name: "set-of", arity: 2, tmpl: `{a, b}`}, {name: "array-of", arity: 2, tmpl: `[a, b, a]`},
		{name: "dict-of", arity: 2, tmpl: `{a: b}`}, {name: "call", arity: 2, tmpl: `a(b)`}, {name: "count", arity: 1, tmpl: `a count`},
		{name: "go-map", arity: 1, goOp: func(a, _ rel.Value, _ *core.Rng) (rel.Value, error) {
			s, ok := a.(rel.Set)
			if !ok {
				return nil, fmt.Errorf("not a set")
			}
			return s.Map(func(v rel.Value) (rel.Value, error) { return v, nil })
		}},
		{name: "go-where", arity: 1, goOp: func(a, _ rel.Value, r *core.Rng) (rel.Value, error) {
			s, ok := a.(rel.Set)
			if !ok {
				return nil, fmt.Errorf("not a set")
			}
			k := r.Next()
			return s.Where(func(v rel.Value) (bool, error) {
				d, pi := core.SafeDenote(v)
				if pi != nil {
					return true, nil
				}
				return (core.Hash64(d.Enc)^k)&1 == 0, nil
			})
		}},
		{name: "go-concat", arity: 2, goOp: func(a, b rel.Value, _ *core.Rng) (rel.Value, error) {
			sa, ok1 := a.(rel.Set)
			sb, ok2 := b.(rel.Set)
			if !ok1 || !ok2 {
				return nil, fmt.Errorf("not sets")
			}
			return rel.Concatenate(sa, sb)
		}},
		{name: "go-union", arity: 2, goOp: func(a, b rel.Value, _ *core.Rng) (rel.Value, error) {
			sa, ok1 := a.(rel.Set)
			sb, ok2 := b.(rel.Set)
			if !ok1 || !ok2 {
				return nil, fmt.Errorf("not sets")
			}
			return rel.Union(sa, sb), nil
		}},
	}
}

// c03Element picks an element to add/remove for the with/without family, from the value's shape.
func c03Element(kind string, a rel.Value, r *core.Rng) (rel.Value, bool) {
	d, pi := core.SafeDenote(a)
	if pi != nil || d.K != 's' {
		return nil, false
	}
	var e MV
	payload := ""
	for _, p := range []string{"@char", "@byte", "@item"} {
		if si := core.SeqShape(d, p); si.N > 0 && si.N == len(d.S) {
			payload = p
		}
	}
	pv := func() MV {
		switch payload {
		case "@char", "@byte":
			return num(float64(97 + r.Intn(4)))
		}
		return num(float64(r.Intn(5)))
	}
	switch {
	case payload != "":
		si := core.SeqShape(d, payload)
		switch kind {
		case "end":
			e = mpair(num(float64(si.Hi+1)), payload, pv())
		case "front":
			e = mpair(num(float64(si.Lo-1)), payload, pv())
		case "new":
			e = mpair(num(float64(si.Hi+2+r.Intn(2))), payload, pv())
		case "existing", "first":
			e = d.S[0]
			for _, x := range d.S {
				if x.T["@"].N == float64(si.Lo) {
					e = x
				}
			}
		case "last":
			for _, x := range d.S {
				if x.T["@"].N == float64(si.Hi) {
					e = x
				}
			}
		case "mid":
			e = d.S[len(d.S)/2]
		}
	case len(d.S) == 0:
		switch r.Intn(4) {
		case 0:
			e = mpair(num(0), "@char", num(97))
		case 1:
			e = mpair(num(0), "@item", num(1))
		case 2:
			e = mpair(num(0), "@byte", num(1))
		default:
			e = num(1)
		}
		if kind != "end" && kind != "front" && kind != "new" {
			return nil, false
		}
	default:
		switch kind {
		case "end", "front", "new":
			// a fresh member shaped like an existing one
			m := d.S[r.Intn(len(d.S))]
			switch m.K {
			case 'n':
				e = num(float64(10 + r.Intn(5)))
			case 't':
				nm := map[string]MV{}
				for k, v := range m.T {
					nm[k] = v
				}
				ks := make([]string, 0, len(nm))
				for k := range nm {
					ks = append(ks, k)
				}
				sort.Strings(ks)
				if len(ks) > 0 {
					nm[ks[len(ks)-1]] = num(float64(20 + r.Intn(5)))
				}
				e = core.Tup(nm)
			default:
				e = mset(num(float64(30 + r.Intn(3))))
			}
		case "existing", "first":
			e = d.S[0]
		case "last":
			e = d.S[len(d.S)-1]
		case "mid":
			e = d.S[len(d.S)/2]
		}
	}
	if e.K == 0 {
		return nil, false
	}
	v, ok := mvValue(e)
	return v, ok
}

func (c03) RunCase(cfg *core.Config, i int) core.CaseResult {
	r := core.NewRng(cfg.Seed, 3, uint64(i))
	res := core.CaseResult{}
	res.Evals = 0
	steps := cfg.Pick(30, 60)
	var pool []*c03val
	seen := map[string]bool{}
	report := func(victim *c03val, now c03snap, step int, op, desc string) {
		mode := "changed-denotation"
		switch {
		case victim.s.enc != now.enc:
		case victim.s.repr != now.repr:
			mode = "changed-repr"
		default:
			mode = "changed-count"
		}
		d, _ := core.SafeDenote(victim.v)
		sig := core.Signature{Clause: "C03.snapshot", Entry: op, Mode: mode, Hazards: []string{"victim:" + core.Classify(d)}}
		if seen[sig.String()] {
			return
		}
		seen[sig.String()] = true
		res.Viols = append(res.Viols, core.Violation{Sig: sig,
			Detail: fmt.Sprintf("value #%d created at step %d by %s as %s (count %d) reads %s (count %d) after step %d: %s", indexOf(pool, victim), victim.s.born, victim.s.src, victim.s.repr, victim.s.count, now.repr, now.count, step, desc),
			Replay: map[string]interface{}{"history_case": i}})
	}
	checkAll := func(step int, op, desc string) {
		for _, pv := range pool {
			now, ok := c03Snapshot(pv.v)
			if !ok {
				now = c03snap{enc: "<enumeration panics>"}
			}
			if now.enc != pv.s.enc || now.repr != pv.s.repr || now.count != pv.s.count {
				report(pv, now, step, op, desc)
				pv.s.enc, pv.s.repr, pv.s.count = now.enc, now.repr, now.count // report each change once
			}
		}
	}
	add := func(v rel.Value, step int, op, src string) *c03val {
		s, ok := c03Snapshot(v)
		if !ok || len(pool) >= 40 {
			return nil
		}
		s.born, s.op, s.src = step, op, src
		pv := &c03val{v: v, s: s}
		pool = append(pool, pv)
		return pv
	}
	nSeeds := r.Range(6, 10)
	for k := 0; k < nSeeds; k++ {
		src := core.Pick(r, c03Seeds)
		o := build(src)
		res.Evals++
		if o.OK() {
			add(o.Val, -1, "seed", src)
		}
	}
	ops := c03Ops()
	var trace []string
	for step := 0; step < steps && len(pool) > 0; step++ {
		op := ops[r.Intn(len(ops))]
		// bias: re-use a recent parent repeatedly
		pick := func() *c03val {
			if r.Chance(1, 2) && len(pool) > 2 {
				return pool[len(pool)-1-r.Intn(min(3, len(pool)))]
			}
			return pool[r.Intn(len(pool))]
		}
		a := pick()
		b := pick()
		var o core.Outcome
		desc := ""
		switch {
		case strings.HasPrefix(op.name, "with-") || strings.HasPrefix(op.name, "without-"):
			kind := op.name[strings.IndexByte(op.name, '-')+1:]
			e, ok := c03Element(kind, a.v, r)
			if !ok {
				continue
			}
			verb := op.name[:strings.IndexByte(op.name, '-')]
			er, _ := core.Repr(e)
			desc = fmt.Sprintf("#%d %s %s", indexOf(pool, a), verb, er)
			o = core.EvalT("a "+verb+" e", "a", a.v, "e", e)
		case strings.HasPrefix(op.name, "go-with") || strings.HasPrefix(op.name, "go-without"):
			kind := op.name[strings.LastIndexByte(op.name, '-')+1:]
			e, ok := c03Element(kind, a.v, r)
			s, isSet := a.v.(rel.Set)
			if !ok || !isSet {
				continue
			}
			er, _ := core.Repr(e)
			desc = fmt.Sprintf("#%d.%s(%s)", indexOf(pool, a), op.name, er)
			o = core.Guard(func() (rel.Value, error) {
				if strings.HasPrefix(op.name, "go-without") {
					return s.Without(e), nil
				}
				return s.With(e), nil
			})
		case op.name == "++elem" || op.name == "elem++":
			// concatenate with a fresh one-element sequence of the same kind (the append fast-path shape)
			da, pi := core.SafeDenote(a.v)
			if pi != nil {
				continue
			}
			var esrc string
			switch cls := core.Classify(da); {
			case strings.HasPrefix(cls, "arr"):
				esrc = fmt.Sprintf("[%d]", 50+r.Intn(9))
			case strings.HasPrefix(cls, "str"):
				esrc = fmt.Sprintf("%q", string(rune('p'+r.Intn(9))))
			case strings.HasPrefix(cls, "bytes"):
				esrc = fmt.Sprintf("<<%d>>", 50+r.Intn(9))
			default:
				continue
			}
			eo := build(esrc)
			if !eo.OK() {
				continue
			}
			if op.name == "++elem" {
				desc = fmt.Sprintf("#%d ++ %s", indexOf(pool, a), esrc)
				o = core.EvalT("a ++ e", "a", a.v, "e", eo.Val)
			} else {
				desc = fmt.Sprintf("%s ++ #%d", esrc, indexOf(pool, a))
				o = core.EvalT("e ++ a", "a", a.v, "e", eo.Val)
			}
		case op.goOp != nil:
			desc = fmt.Sprintf("%s(#%d,#%d)", op.name, indexOf(pool, a), indexOf(pool, b))
			o = core.Guard(func() (rel.Value, error) { return op.goOp(a.v, b.v, r) })
		default:
			desc = fmt.Sprintf("%s with a=#%d b=#%d", op.tmpl, indexOf(pool, a), indexOf(pool, b))
			k := r.Next()
			pred := rel.NewNativeFunction("p", func(_ context.Context, v rel.Value) (rel.Value, error) {
				d, pi := core.SafeDenote(v)
				if pi != nil {
					return rel.NewBool(true), nil
				}
				return rel.NewBool((core.Hash64(d.Enc)^k)&1 == 0), nil
			})
			f := rel.NewNativeFunction("f", func(_ context.Context, v rel.Value) (rel.Value, error) { return v, nil })
			o = core.EvalT(op.tmpl, "a", a.v, "b", b.v, "p", pred, "f", f)
		}
		res.Evals++
		trace = append(trace, op.name)
		da, _ := core.SafeDenote(a.v)
		key := op.name + "|" + core.Classify(da)
		res.Cover = append(res.Cover, "op:"+op.name)
		if a.kids > 0 {
			res.SubKeys = append(res.SubKeys, key)
			res.Cover = append(res.Cover, "rederived:"+op.name)
		}
		a.kids++
		if o.OK() {
			if nv := add(o.Val, step, op.name, desc); nv != nil {
				res.Cover = append(res.Cover, "result:"+core.TypeName(o.Val))
			}
		}
		checkAll(step, op.name, desc)
	}
	res.Key = "h:" + strings.Join(trace, ",")
	res.NonTrivial = len(trace) > 5
	if i%150 == 1 {
		var ds []string
		for k, pv := range pool {
			if k > 12 {
				break
			}
			ds = append(ds, fmt.Sprintf("#%d=%s", k, clipS(pv.s.src, 60)))
		}
		res.Sample = fmt.Sprintf("history %d: %d steps [%s]; pool: %s", i, len(trace), strings.Join(trace, " "), strings.Join(ds, "; "))
	}
	return res
}

func clipS(s string, n int) string {
	if len(s) > n {
		return s[:n] + "…"
	}
	return s
}

func indexOf(pool []*c03val, v *c03val) int {
	for i, p := range pool {
		if p == v {
			return i
		}
	}
	return -1
}

func (c03) Finish(cfg *core.Config, agg *core.Aggregate) {
	low := []string{}
	nOps := 0
	for k, n := range agg.Cover {
		if strings.HasPrefix(k, "op:") {
			nOps++
			if agg.Cover["rederived:"+k[3:]] < 20 {
				low = append(low, fmt.Sprintf("%s(%d/%d)", k[3:], agg.Cover["rederived:"+k[3:]], n))
			}
		}
	}
	sort.Strings(low)
	agg.Extra["operators_applied"] = nOps
	agg.Extra["operators_below_rederive_floor"] = low
	if nOps < 40 {
		agg.Fail("coverage floor: only %d operator templates applied (<40)", nOps)
	}
	if len(low) > 6 {
		agg.Fail("coverage floor: %d operators applied <20 times to an already-derived-from parent: %v", len(low), low)
	}
}
