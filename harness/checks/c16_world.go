package checks

import (
	"context"
	"fmt"
	"os"
	"path/filepath"
	"regexp"
	"sort"
	"strings"
	"sync"

	"verif/core"

	"github.com/arr-ai/arrai/pkg/arraictx"
	"github.com/arr-ai/arrai/pkg/ctxfs"
	"github.com/arr-ai/arrai/pkg/importcache"
	"github.com/arr-ai/arrai/rel"
	"github.com/arr-ai/arrai/syntax"
	"github.com/spf13/afero"
)

// C16 world: an in-memory file tree (afero.MemMapFs) mirrored at absolute paths below a REAL
// directory B (so that relative script paths, which arrai resolves through filepath.Abs / the
// process working directory, land inside the same tree), wrapped by a recording afero.Fs.
//
//   /            secret.*, a.arrai, sub.arrai, a/, sub/ ...      decoys at the fs root
//   <ancestors of B>/   decoys in every ancestor directory up to /
//   B/                  decoys
//   B/w/                workspace: decoys, siblings sib/, a/, sub/
//   B/w/m/...           the tree scripts live in (go.mod placement depends on the layout)
//
// Every directory of the universe holds a.arrai, sub.arrai, secret.arrai and secret.json, each
// with a token that is unique to that one file, so the value of an import says which file was read.

// ---- recording filesystem ----

type c16Ev struct {
	Op    string // open | stat
	Name  string // as passed by arrai
	Abs   string // cleaned absolute path (relative names resolved against the process cwd)
	OK    bool
	Dir   bool
	Bytes int  // bytes delivered by Read/ReadAt on the opened handle
	List  bool // Readdir/Readdirnames was called on the handle
	Write bool
}

type c16Rec struct {
	mu  sync.Mutex
	evs []*c16Ev
}

func (r *c16Rec) add(e *c16Ev) *c16Ev {
	r.mu.Lock()
	r.evs = append(r.evs, e)
	r.mu.Unlock()
	return e
}

func (r *c16Rec) events() []*c16Ev {
	r.mu.Lock()
	defer r.mu.Unlock()
	return append([]*c16Ev(nil), r.evs...)
}

func c16Abs(name string) string {
	if a, err := filepath.Abs(name); err == nil {
		return filepath.Clean(a)
	}
	return filepath.Clean(name)
}

type c16RecFs struct {
	afero.Fs
	rec *c16Rec
}

func (f c16RecFs) wrap(name string, fl afero.File, err error, write bool) (afero.File, error) {
	ev := f.rec.add(&c16Ev{Op: "open", Name: name, Abs: c16Abs(name), OK: err == nil, Write: write})
	if err != nil || fl == nil {
		return fl, err
	}
	if st, serr := fl.Stat(); serr == nil && st.IsDir() {
		ev.Dir = true
	}
	return &c16File{File: fl, ev: ev, rec: f.rec}, nil
}

func (f c16RecFs) Open(name string) (afero.File, error) {
	fl, err := f.Fs.Open(name)
	return f.wrap(name, fl, err, false)
}

func (f c16RecFs) OpenFile(name string, flag int, perm os.FileMode) (afero.File, error) {
	fl, err := f.Fs.OpenFile(name, flag, perm)
	return f.wrap(name, fl, err, flag&(os.O_WRONLY|os.O_RDWR|os.O_CREATE|os.O_TRUNC|os.O_APPEND) != 0)
}

func (f c16RecFs) Create(name string) (afero.File, error) {
	fl, err := f.Fs.Create(name)
	return f.wrap(name, fl, err, true)
}

func (f c16RecFs) Stat(name string) (os.FileInfo, error) {
	st, err := f.Fs.Stat(name)
	f.rec.add(&c16Ev{Op: "stat", Name: name, Abs: c16Abs(name), OK: err == nil, Dir: err == nil && st.IsDir()})
	return st, err
}

type c16File struct {
	afero.File
	ev  *c16Ev
	rec *c16Rec
}

func (f *c16File) got(n int) {
	if n > 0 {
		f.rec.mu.Lock()
		f.ev.Bytes += n
		f.rec.mu.Unlock()
	}
}
func (f *c16File) Read(p []byte) (int, error) {
	n, err := f.File.Read(p)
	f.got(n)
	return n, err
}
func (f *c16File) ReadAt(p []byte, off int64) (int, error) {
	n, err := f.File.ReadAt(p, off)
	f.got(n)
	return n, err
}
func (f *c16File) Readdir(n int) ([]os.FileInfo, error) {
	f.rec.mu.Lock()
	f.ev.List = true
	f.rec.mu.Unlock()
	return f.File.Readdir(n)
}
func (f *c16File) Readdirnames(n int) ([]string, error) {
	f.rec.mu.Lock()
	f.ev.List = true
	f.rec.mu.Unlock()
	return f.File.Readdirnames(n)
}

// ---- layouts ----

type c16Layout struct {
	Name    string
	Mods    []string // directories (relative to B) holding a regular file go.mod
	ModDirs []string // directories holding a DIRECTORY named go.mod (not a module marker)
}

var c16Layouts = []c16Layout{
	{Name: "nomod"},
	{Name: "mod", Mods: []string{"w/m"}},
	{Name: "nested", Mods: []string{"w/m", "w/m/sub"}},
	{Name: "submod", Mods: []string{"w/m/sub"}},
	{Name: "outermod", Mods: []string{"w"}, ModDirs: []string{"w/m/sub"}},
}

// script positions: directory depth 0..3 below w/m
var c16Positions = []string{"w/m", "w/m/sub", "w/m/sub/a", "w/m/sub/a/sub"}

var c16TreeDirs = []string{"w/m", "w/m/sub", "w/m/sub/a", "w/m/sub/a/sub", "w/m/a", "w/m/a/sub", "w/m/sub/sub"}

var c16OutsideDirs = []string{"", "w", "w/sib", "w/sib/a", "w/sib/sub", "w/a", "w/sub"}

var c16RootDirs = []string{"/", "/a", "/sub", "/a/sub", "/sub/a", "/a/a", "/sub/sub"}

var c16StdFiles = []string{"a.arrai", "sub.arrai", "secret.arrai", "secret.json"}

type c16World struct {
	layout  c16Layout
	base    string // B (real directory, absolute, symlink-free)
	mem     afero.Fs
	tokPath map[string]string // token -> absolute path of the one file holding it
	pathTok map[string]string
	mods    map[string]bool // absolute dirs with a regular go.mod
	nextTok int
}

var (
	c16BaseOnce sync.Once
	c16BaseDir  string
	c16BaseErr  error
	c16Worlds   = map[string]*c16World{}
)

// c16Base creates (once per process) the real directories the cases chdir into.
func c16Base(cfg *core.Config) (string, error) {
	c16BaseOnce.Do(func() {
		b := filepath.Join(cfg.RunDir, "c16cwd")
		for _, d := range append([]string{""}, c16TreeDirs...) {
			if err := os.MkdirAll(filepath.Join(b, d), 0o755); err != nil {
				c16BaseErr = err
				return
			}
		}
		rb, err := filepath.EvalSymlinks(b)
		if err != nil {
			c16BaseErr = err
			return
		}
		c16BaseDir, c16BaseErr = filepath.Abs(rb)
	})
	return c16BaseDir, c16BaseErr
}

func c16Ancestors(dir string) []string {
	var out []string
	for d := filepath.Dir(dir); ; d = filepath.Dir(d) {
		out = append(out, d)
		if d == "/" || d == "." {
			return out
		}
	}
}

func (w *c16World) abs(rel string) string { return filepath.Join(w.base, rel) }

func (w *c16World) rel(abs string) string {
	if abs == w.base {
		return "B"
	}
	if strings.HasPrefix(abs, w.base+"/") {
		return "B/" + abs[len(w.base)+1:]
	}
	return abs
}

func (w *c16World) write(path, content string) {
	if err := afero.WriteFile(w.mem, path, []byte(content), 0o644); err != nil {
		panic(fmt.Sprintf("c16 world: write %s: %v", path, err))
	}
}

// token file content: .arrai => a tuple (tok: "..."), .json => {"tok": "..."}
func (w *c16World) putToken(path string) string {
	w.nextTok++
	tok := fmt.Sprintf("c16T%05d", w.nextTok)
	w.tokPath[tok] = path
	w.pathTok[path] = tok
	if strings.HasSuffix(path, ".json") {
		w.write(path, `{"tok": "`+tok+`"}`)
	} else {
		w.write(path, `(tok: "`+tok+`")`)
	}
	return tok
}

func c16WorldFor(cfg *core.Config, layout c16Layout) (*c16World, error) {
	if w, ok := c16Worlds[layout.Name]; ok {
		return w, nil
	}
	base, err := c16Base(cfg)
	if err != nil {
		return nil, err
	}
	w := &c16World{layout: layout, base: base, mem: afero.NewMemMapFs(), tokPath: map[string]string{},
		pathTok: map[string]string{}, mods: map[string]bool{}}
	var dirs []string
	dirs = append(dirs, c16RootDirs...)
	anc := c16Ancestors(base)
	sort.Strings(anc)
	for _, a := range anc {
		if a != "/" {
			dirs = append(dirs, a)
		}
	}
	for _, d := range c16OutsideDirs {
		dirs = append(dirs, w.abs(d))
	}
	for _, d := range c16TreeDirs {
		dirs = append(dirs, w.abs(d))
	}
	for _, d := range dirs {
		if err := w.mem.MkdirAll(d, 0o755); err != nil {
			return nil, err
		}
		for _, f := range c16StdFiles {
			w.putToken(filepath.Join(d, f))
		}
	}
	for _, m := range layout.Mods {
		w.write(filepath.Join(w.abs(m), "go.mod"), "module c16.example/m\n\ngo 1.24\n")
		w.mods[w.abs(m)] = true
	}
	for _, m := range layout.ModDirs {
		if err := w.mem.MkdirAll(filepath.Join(w.abs(m), "go.mod"), 0o755); err != nil {
			return nil, err
		}
	}
	c16Worlds[layout.Name] = w
	return w, nil
}

// root is the model's confinement root for a script in dir (absolute): the directory of the
// nearest regular go.mod at or above dir, else dir itself.
func (w *c16World) root(dir string) (root string, hasModule bool) {
	for d := dir; ; d = filepath.Dir(d) {
		if w.mods[d] {
			return d, true
		}
		if d == "/" || d == "." {
			return dir, false
		}
	}
}

func c16Beneath(p, root string) bool {
	if root == "/" {
		return true
	}
	return strings.HasPrefix(p, root+"/")
}

// where classifies an outside path relative to the allowed root (signature delta).
func c16Where(p, root string) string {
	dir := filepath.Dir(p)
	switch {
	case dir == "/":
		return "fs-root"
	case dir == root || strings.HasPrefix(root, dir+"/"):
		return "ancestor-dir"
	case filepath.Dir(dir) == filepath.Dir(root):
		return "sibling-dir"
	}
	return "elsewhere"
}

// ---- evaluation ----

type c16Run struct {
	out  core.Outcome
	evs  []*c16Ev
	text string // rendered value or error (full), for token search
}

func c16ErrFull(err error) string {
	t := core.ErrText(err)
	if !strings.HasSuffix(t, "…") {
		return t
	}
	// ErrText already established that this is not a parser.ParseError; render in full.
	defer func() { _ = recover() }()
	s := err.Error()
	if len(s) > 1<<16 {
		s = s[:1<<16]
	}
	return s
}

// c16Ctx builds a fresh run context over the recording fs. shareCache adds one import cache to
// the context (otherwise EvalWithScope creates one per evaluation).
func c16Ctx(w *c16World, rec *c16Rec, shareCache bool) context.Context {
	ctx := arraictx.InitRunCtx(context.Background())
	fs := c16RecFs{Fs: w.mem, rec: rec}
	ctx = ctxfs.SourceFsOnto(ctx, fs)
	ctx = ctxfs.RuntimeFsOnto(ctx, fs)
	if shareCache {
		ctx = importcache.WithNewImportCache(ctx)
	}
	return ctx
}

func c16Render(o core.Outcome) string {
	switch {
	case o.Panic != nil:
		return "panic: " + o.Panic.Msg
	case o.Err != nil:
		return c16ErrFull(o.Err)
	case o.Val != nil:
		s, _ := core.Repr(o.Val)
		return s
	}
	return ""
}

// c16Eval evaluates source as the script at scriptPath (as the CLI would pass it) after chdir to cwd.
func c16Eval(w *c16World, cwd, scriptPath, src string) c16Run {
	if err := os.Chdir(cwd); err != nil {
		return c16Run{out: core.Outcome{Err: fmt.Errorf("c16 harness: chdir %s: %v", cwd, err)}, text: "HARNESS"}
	}
	rec := &c16Rec{}
	ctx := c16Ctx(w, rec, false)
	o := core.Guard(func() (rel.Value, error) { return syntax.EvaluateExpr(ctx, scriptPath, src) })
	return c16Run{out: o, evs: rec.events(), text: c16Render(o)}
}

var c16TokRe = regexp.MustCompile(`c16T[0-9]{5}`)

// script addressing modes
const (
	c16ModeAbs    = "abs"    // absolute script path
	c16ModeRelB   = "relB"   // cwd = B, script path relative (SourceDir like w/m/sub)
	c16ModeRelCwd = "relcwd" // cwd = script directory, script path is a bare file name (SourceDir ".")
)

var c16Modes = []string{c16ModeAbs, c16ModeRelB, c16ModeRelCwd}

// address returns (cwd, scriptPath) for a script file name in dir (relative to B).
func (w *c16World) address(mode, dirRel, file string) (cwd, script string) {
	switch mode {
	case c16ModeRelB:
		return w.base, filepath.Join(dirRel, file)
	case c16ModeRelCwd:
		return w.abs(dirRel), file
	}
	return w.base, filepath.Join(w.abs(dirRel), file)
}

// contentReads lists the events in which file CONTENT was obtained: a successful open of a
// non-directory from which at least one byte was read.
func c16ContentReads(evs []*c16Ev) []*c16Ev {
	var out []*c16Ev
	for _, e := range evs {
		if e.Op == "open" && e.OK && !e.Dir && e.Bytes > 0 {
			out = append(out, e)
		}
	}
	return out
}
