package checks

import (
	"encoding/json"
	"fmt"
	"math"
	"sort"
	"strconv"
	"strings"
	"time"
	"unicode/utf8"

	"verif/core"

	"gopkg.in/yaml.v3"
)

// Document content model for C13 (JSON / YAML). A document's *content* is what the trusted
// parser (encoding/json, gopkg.in/yaml.v3) makes of it, normalised by c13Canon into this tree;
// numbers are float64 (arr.ai numbers are doubles). Generated documents also carry the tree they
// were rendered from, used only as a self-check of the generator.

type c13Node struct {
	K    byte // 'z' null, 'b' bool, 'n' number, 's' string, 'a' array, 'o' object, 'T' timestamp, '?' other
	B    bool
	N    float64
	Lit  string // number spelling used by the renderers ("" => shortest)
	S    string
	A    []*c13Node
	Keys []*c13Node // object keys: scalar nodes ('s' for JSON)
	Vals []*c13Node
}

var c13KindName = map[byte]string{'z': "null", 'b': "bool", 'n': "number", 's': "string", 'a': "array", 'o': "object", 'T': "timestamp", '?': "other"}

func c13Null() *c13Node             { return &c13Node{K: 'z'} }
func c13Bool(b bool) *c13Node       { return &c13Node{K: 'b', B: b} }
func c13Str(s string) *c13Node      { return &c13Node{K: 's', S: s} }
func c13Arr(a ...*c13Node) *c13Node { return &c13Node{K: 'a', A: a} }
func c13NumLit(lit string) *c13Node {
	f, err := strconv.ParseFloat(lit, 64)
	if err != nil && !math.IsInf(f, 0) {
		panic("c13NumLit: " + lit)
	}
	return &c13Node{K: 'n', N: f, Lit: lit}
}
func c13Obj(kv ...interface{}) *c13Node {
	n := &c13Node{K: 'o'}
	for i := 0; i+1 < len(kv); i += 2 {
		switch k := kv[i].(type) {
		case string:
			n.Keys = append(n.Keys, c13Str(k))
		case *c13Node:
			n.Keys = append(n.Keys, k)
		}
		n.Vals = append(n.Vals, kv[i+1].(*c13Node))
	}
	return n
}

// keyEnc is the canonical encoding of a scalar used as an object key (kind + value).
func (n *c13Node) keyEnc() string {
	switch n.K {
	case 'z':
		return "z"
	case 'b':
		return fmt.Sprint("b", n.B)
	case 'n':
		return "n" + strconv.FormatFloat(n.N, 'g', -1, 64)
	case 's':
		return "s" + n.S
	case 'T':
		return "T" + n.S
	}
	return "?" + n.enc()
}

// keyText is the key stripped of its kind (what fmt.Sprint would print).
func (n *c13Node) keyText() string {
	switch n.K {
	case 'z':
		return "<nil>"
	case 'b':
		return fmt.Sprint(n.B)
	case 'n':
		return strconv.FormatFloat(n.N, 'g', -1, 64)
	}
	return n.S
}

func (n *c13Node) sorted() *c13Node {
	if n.K != 'o' {
		return n
	}
	idx := make([]int, len(n.Keys))
	for i := range idx {
		idx[i] = i
	}
	sort.SliceStable(idx, func(a, b int) bool { return n.Keys[idx[a]].keyEnc() < n.Keys[idx[b]].keyEnc() })
	o := &c13Node{K: 'o'}
	for _, i := range idx {
		o.Keys = append(o.Keys, n.Keys[i])
		o.Vals = append(o.Vals, n.Vals[i])
	}
	return o
}

// enc is a canonical string of the content (keys sorted; -0 == 0; NaN == NaN).
func (n *c13Node) enc() string {
	var sb strings.Builder
	n.encTo(&sb)
	return sb.String()
}

func (n *c13Node) encTo(sb *strings.Builder) {
	switch n.K {
	case 'z':
		sb.WriteString("null")
	case 'b':
		fmt.Fprint(sb, n.B)
	case 'n':
		f := n.N
		if f == 0 {
			f = 0
		}
		sb.WriteString(strconv.FormatFloat(f, 'g', -1, 64))
	case 's':
		sb.WriteString(strconv.Quote(n.S))
	case 'T':
		sb.WriteString("T(" + n.S + ")")
	case 'a':
		sb.WriteByte('[')
		for i, e := range n.A {
			if i > 0 {
				sb.WriteByte(',')
			}
			e.encTo(sb)
		}
		sb.WriteByte(']')
	case 'o':
		s := n.sorted()
		sb.WriteByte('{')
		for i := range s.Keys {
			if i > 0 {
				sb.WriteByte(',')
			}
			sb.WriteString(strconv.Quote(s.Keys[i].keyEnc()))
			sb.WriteByte(':')
			s.Vals[i].encTo(sb)
		}
		sb.WriteByte('}')
	default:
		sb.WriteString("?" + n.S)
	}
}

// c13Canon normalises what a trusted parser returned.
func c13Canon(x interface{}) *c13Node {
	switch v := x.(type) {
	case nil:
		return c13Null()
	case bool:
		return c13Bool(v)
	case float64:
		return &c13Node{K: 'n', N: v}
	case float32:
		return &c13Node{K: 'n', N: float64(v)}
	case int:
		return &c13Node{K: 'n', N: float64(v)}
	case int64:
		return &c13Node{K: 'n', N: float64(v)}
	case uint64:
		return &c13Node{K: 'n', N: float64(v)}
	case uint:
		return &c13Node{K: 'n', N: float64(v)}
	case string:
		return c13Str(v)
	case []byte:
		return c13Str(string(v))
	case time.Time:
		return &c13Node{K: 'T', S: v.UTC().Format(time.RFC3339Nano)}
	case []interface{}:
		n := &c13Node{K: 'a'}
		for _, e := range v {
			n.A = append(n.A, c13Canon(e))
		}
		return n
	case map[string]interface{}:
		n := &c13Node{K: 'o'}
		for k, e := range v {
			n.Keys = append(n.Keys, c13Str(k))
			n.Vals = append(n.Vals, c13Canon(e))
		}
		return n.sorted()
	case map[interface{}]interface{}:
		n := &c13Node{K: 'o'}
		for k, e := range v {
			n.Keys = append(n.Keys, c13Canon(k))
			n.Vals = append(n.Vals, c13Canon(e))
		}
		return n.sorted()
	}
	return &c13Node{K: '?', S: fmt.Sprintf("%T", x)}
}

// c13Diff returns "" when the contents are equal, else the class of the first difference
// (depth-first, keys in canonical order). Classes carry no case data.
func c13Diff(want, got *c13Node) string {
	if want.K != got.K {
		return "kind:" + c13KindName[got.K] + "<-" + c13KindName[want.K]
	}
	switch want.K {
	case 'b':
		if want.B != got.B {
			return "bool-flipped"
		}
	case 'n':
		if !(want.N == got.N || math.IsNaN(want.N) && math.IsNaN(got.N)) {
			return "number-differs"
		}
	case 's', 'T', '?':
		if want.S != got.S {
			return c13KindName[want.K] + "-differs"
		}
	case 'a':
		if len(want.A) != len(got.A) {
			if len(got.A) < len(want.A) {
				return "array-shorter"
			}
			return "array-longer"
		}
		for i := range want.A {
			if d := c13Diff(want.A[i], got.A[i]); d != "" {
				return d
			}
		}
	case 'o':
		w, g := want.sorted(), got.sorted()
		wk, gk := map[string]int{}, map[string]int{}
		wt, gt := map[string]bool{}, map[string]bool{}
		for i, k := range w.Keys {
			wk[k.keyEnc()] = i
			wt[k.keyText()] = true
		}
		for i, k := range g.Keys {
			gk[k.keyEnc()] = i
			gt[k.keyText()] = true
		}
		missing, extra := 0, 0
		for k := range wk {
			if _, ok := gk[k]; !ok {
				missing++
			}
		}
		for k := range gk {
			if _, ok := wk[k]; !ok {
				extra++
			}
		}
		if missing+extra > 0 {
			// same keys up to their kind (1 vs "1")?
			sameText := len(wt) == len(gt)
			for k := range wt {
				if !gt[k] {
					sameText = false
				}
			}
			switch {
			case sameText && len(w.Keys) == len(g.Keys):
				return "key-kind-changed"
			case sameText:
				return "key-kind-merged"
			case extra == 0:
				return "keys-missing"
			case missing == 0:
				return "keys-extra"
			}
			return "keys-differ"
		}
		for i, k := range w.Keys {
			if d := c13Diff(w.Vals[i], g.Vals[gk[k.keyEnc()]]); d != "" {
				return d
			}
		}
	}
	return ""
}

// c13Collapse is the documented loss of the non-strict translators: "", [], {}, false -> null.
func c13Collapse(n *c13Node) *c13Node {
	switch n.K {
	case 's':
		if n.S == "" {
			return c13Null()
		}
	case 'b':
		if !n.B {
			return c13Null()
		}
	case 'a':
		if len(n.A) == 0 {
			return c13Null()
		}
		o := &c13Node{K: 'a'}
		for _, e := range n.A {
			o.A = append(o.A, c13Collapse(e))
		}
		return o
	case 'o':
		if len(n.Keys) == 0 {
			return c13Null()
		}
		o := &c13Node{K: 'o', Keys: n.Keys}
		for _, e := range n.Vals {
			o.Vals = append(o.Vals, c13Collapse(e))
		}
		return o
	}
	return n
}

// c13DocHazards lists the model-level features of a document that known findings may pin.
func c13DocHazards(n *c13Node, into map[string]bool) { c13DocHazardsFor(n, into, false) }

// c13YAMLStrHazards: string shapes that gopkg.in/yaml.v3's own emitter does not write back
// faithfully (measured: its self round trip fails only inside these classes).
func c13YAMLStrHazards(s string, into map[string]bool) {
	if strings.Contains(s, "\n") {
		if strings.ContainsAny(s[:1], " \t\n") {
			into["yaml:str-multiline-leading-ws"] = true
		}
		if strings.ContainsAny(s, "\u2028\u2029") {
			into["yaml:str-multiline-ls-ps"] = true
		}
	}
}

// c13TameYAML rewrites a string out of the classes of c13YAMLStrHazards (hazard-free slice).
func c13TameYAML(s string) string {
	if s == "<<" {
		return "<="
	}
	if strings.Contains(s, "\n") {
		if strings.ContainsAny(s[:1], " \t\n") {
			s = "x" + s
		}
		s = strings.NewReplacer("\u2028", "~", "\u2029", "~").Replace(s)
	}
	return s
}

func c13DocHazardsFor(n *c13Node, into map[string]bool, forYAML bool) {
	switch n.K {
	case 'n':
		switch {
		case math.IsNaN(n.N):
			into["number:nan"] = true
		case math.IsInf(n.N, 0):
			into["number:inf"] = true
		}
	case 's':
		if strings.ContainsRune(n.S, 0) {
			into["string:nul"] = true
		}
		if forYAML {
			c13YAMLStrHazards(n.S, into)
		}
	case 'T':
		into["timestamp"] = true
	case 'a':
		for _, e := range n.A {
			c13DocHazardsFor(e, into, forYAML)
		}
	case 'o':
		seen := map[string]bool{}
		for i, k := range n.Keys {
			if k.K != 's' {
				into["key:nonstring"] = true
				c13DocHazardsFor(k, into, forYAML)
			} else if k.S == "" {
				into["key:empty"] = true
			} else if forYAML {
				c13YAMLStrHazards(k.S, into)
				if k.S == "<<" {
					into["yaml:key-merge"] = true
				}
			}
			if seen[k.keyText()] {
				into["key:collide-by-text"] = true
			}
			seen[k.keyText()] = true
			c13DocHazardsFor(n.Vals[i], into, forYAML)
		}
	}
}

func c13HazardList(m map[string]bool) []string {
	out := make([]string, 0, len(m))
	for k := range m {
		out = append(out, k)
	}
	sort.Strings(out)
	return out
}

// ---------------------------------------------------------------------------------------------
// trusted parsing

func c13ParseJSON(b []byte) (*c13Node, error) {
	var x interface{}
	if err := json.Unmarshal(b, &x); err != nil {
		return nil, err
	}
	return c13Canon(x), nil
}

func c13ParseYAML(b []byte) (n *c13Node, err error) {
	defer func() {
		if r := recover(); r != nil {
			err = fmt.Errorf("yaml.v3 panicked: %v", r)
		}
	}()
	var x interface{}
	if err := yaml.Unmarshal(b, &x); err != nil {
		return nil, err
	}
	return c13Canon(x), nil
}

// ---------------------------------------------------------------------------------------------
// corner values

var c13CornerStrings = []string{
	"", "a", " ", "ab c", "\x00", "a\x00b", "\x01", "\x1f", "\x7f", "\u0080", "\u009f", "\"", "\\", "/", "\\u0041", "\\n", "'",
	"`", "$", "${x}", "%", "é", "e\u0301", "ß", "\u2028", "\u2029", "\ufeff", "\ufffd", "\ufffe", "\uffff", "\ud7ff", "\ue000",
	"😀", "\U0001F468\u200D\U0001F469", "\U00010000", "\U0010FFFF", "\U000E0001", "<>&", "</script>", "true", "false", "null", "~", "1", "1.5",
	"-0", "1e3", "0x1f", "{}", "[]", "()", "s", "b", "@", "@item", "@value", "@char", "{||}", "\r\n", "\n", "\r", "\t",
	" leading", "trailing ", "a: b", "- x", "#c", "a #c", "? q", "*al", "&an", "!tag", "|", ">", "%d", "@at", "`bt", "a,b", "[x", "{y", "2001-12-14", ".inf", ".nan", "<<", "=", "yes", "No", "on", "0o17", "1_000",
	"שלום", "مرحبا", "日本語", "한국어", "a\u0300\u0301\u0302", "\u202e", "\u200b", "x\ty", "line1\nline2", "line1\nline2\n", "\n\nx", "x\n\n", "  \n", "tab\t\n", strings.Repeat("ab", 150),
}

// JSON number spellings (all valid RFC 8259 numbers inside float64 range unless noted).
var c13CornerNumbers = []string{
	"0", "-0", "1", "-1", "2", "10", "0.5", "-0.5", "1.5", "0.1", "0.2", "0.30000000000000004", "1e2", "1E2", "1e+2", "1E-2", "1e-7", "1.0", "1.50", "100e-2", "-0.0", "-0e0",
	"3.141592653589793", "2.718281828459045", "123456789012345678", "9007199254740991", "9007199254740992", "9007199254740993", "-9007199254740993",
	"12345678901234567890", "9223372036854775807", "9223372036854775808", "-9223372036854775808", "-9223372036854775809", "18446744073709551615", "18446744073709551616",
	"1e21", "1e22", "1e23", "123456789e300", "1.7976931348623157e308", "2.2250738585072014e-308", "5e-324", "4.9e-324", "1e-400", "0.000001", "0.0000001", "1e15", "1e16", "999999999999999.9",
	"4294967296", "2147483648", "-2147483649", "65536", "255", "256", "0.1e1", "1234.5678e-2",
}

// ---------------------------------------------------------------------------------------------
// generators

type c13Gen struct {
	r        *core.Rng
	yaml     bool // allow YAML-only features (non-string keys, nan/inf)
	hostile  bool // allow hazard features
	maxDepth int
}

func (g *c13Gen) randString() string {
	s := g.randString0()
	if g.yaml && !g.hostile {
		s = c13TameYAML(s)
	}
	return s
}

func (g *c13Gen) randString0() string {
	r := g.r
	if r.Chance(2, 5) {
		return core.Pick(r, c13CornerStrings)
	}
	n := r.Range(0, 8)
	if r.Chance(1, 20) {
		n = r.Range(20, 80)
	}
	var sb strings.Builder
	for i := 0; i < n; i++ {
		sb.WriteRune(c13RandRune(r))
	}
	return sb.String()
}

// c13RandRune draws a Unicode scalar value (never a surrogate) over many ranges.
func c13RandRune(r *core.Rng) rune {
	switch r.Intn(12) {
	case 0:
		return rune(r.Intn(0x20)) // C0 controls
	case 1:
		return core.Pick(r, []rune{'"', '\\', '/', '\'', '`', '$', '<', '>', '&', ',', ':', '#', '-', '[', ']', '{', '}', ' ', '\n', '\r', '\t', '%', '@', '*', '!', '|', '?', '~', '=', '.'})
	case 2:
		return rune(0x7f + r.Intn(0x21)) // DEL + C1
	case 3:
		return rune(0xa0 + r.Intn(0x2ff-0xa0))
	case 4:
		return rune(0x300 + r.Intn(0xd800-0x300))
	case 5:
		return rune(0xe000 + r.Intn(0x10000-0xe000)) // private use, specials, noncharacters
	case 6:
		return rune(0x10000 + r.Intn(0x10ffff-0x10000+1))
	case 7:
		return core.Pick(r, []rune{0x2028, 0x2029, 0xfeff, 0xfffd, 0xfffe, 0xffff, 0x1f600, 0x10ffff, 0x85, 0xa0, 0x200b, 0x202e, 0xd7ff, 0xe000})
	}
	return rune(0x20 + r.Intn(0x5f))
}

func (g *c13Gen) randNumber() *c13Node {
	r := g.r
	if g.yaml && g.hostile && r.Chance(1, 25) {
		return core.Pick(r, []*c13Node{{K: 'n', N: math.Inf(1), Lit: ".inf"}, {K: 'n', N: math.Inf(-1), Lit: "-.inf"}, {K: 'n', N: math.NaN(), Lit: ".nan"}})
	}
	if r.Chance(1, 2) {
		lit := core.Pick(r, c13CornerNumbers)
		if g.yaml && !g.hostile {
			if f, _ := strconv.ParseFloat(lit, 64); f == math.Trunc(f) && math.Abs(f) >= 9223372036854775808.0 && !strings.ContainsAny(lit, "eE.") {
				lit = "42"
			}
		}
		return c13NumLit(lit)
	}
	switch r.Intn(5) {
	case 0:
		return c13NumLit(strconv.Itoa(r.Range(-1000, 1000)))
	case 1:
		return c13NumLit(strconv.FormatInt(int64(r.Next()>>uint(r.Intn(63)))-int64(r.Next()>>uint(1+r.Intn(62))), 10))
	case 2:
		f := math.Float64frombits(r.Next())
		if math.IsNaN(f) || math.IsInf(f, 0) {
			f = 1.25
		}
		return c13NumLit(strconv.FormatFloat(f, 'g', -1, 64))
	case 3:
		return c13NumLit(strconv.FormatFloat((r.Float()-0.5)*math.Pow(10, float64(r.Range(-8, 20))), core.Pick(r, []byte{'e', 'f', 'g', 'E'}), r.Range(0, 17), 64))
	}
	return c13NumLit(strconv.FormatFloat(float64(r.Range(-99999, 99999))/float64(core.Pick(r, []int{2, 4, 8, 10, 100, 1000, 3, 7})), 'g', -1, 64))
}

func (g *c13Gen) randKey(used map[string]bool) *c13Node {
	r := g.r
	for tries := 0; ; tries++ {
		var k *c13Node
		switch {
		case g.yaml && g.hostile && r.Chance(1, 10):
			k = core.Pick(r, []*c13Node{c13NumLit("1"), c13NumLit("2"), c13NumLit("1.5"), c13NumLit("-3"), c13Bool(true), c13Bool(false), c13Null()})
		case r.Chance(1, 3):
			k = c13Str(core.Pick(r, []string{"a", "b", "c", "k", "key", "id", "s", "@", "@item", "@value", "x y", "1", "true", "null", "{||}", "é", "😀", "a.b", "a/b", "\"", "\\", "\n", "\x00", " ", "A", "Z", "0"}))
		case g.hostile && r.Chance(1, 12):
			k = c13Str("")
		default:
			k = c13Str(g.randString())
			if k.S == "" && !g.hostile {
				k.S = "e"
			}
		}
		if !used[k.keyEnc()] {
			used[k.keyEnc()] = true
			return k
		}
		if tries > 20 {
			k = c13Str(fmt.Sprintf("k%d", len(used)))
			used[k.keyEnc()] = true
			return k
		}
	}
}

func (g *c13Gen) randLeaf() *c13Node {
	r := g.r
	switch r.Intn(10) {
	case 0:
		return c13Null()
	case 1:
		return c13Bool(r.Chance(1, 2))
	case 2, 3, 4:
		return g.randNumber()
	case 5:
		return core.Pick(r, []*c13Node{c13Arr(), c13Obj(), c13Str("")})
	}
	return c13Str(g.randString())
}

func (g *c13Gen) randDoc(depth int) *c13Node {
	r := g.r
	if depth >= g.maxDepth || r.Chance(1, 3+depth) {
		return g.randLeaf()
	}
	n := r.Range(0, 4)
	if r.Chance(1, 30) {
		n = r.Range(9, 40) // wide: more than one hash-trie node
	}
	if r.Chance(1, 2) {
		a := &c13Node{K: 'a'}
		for i := 0; i < n; i++ {
			a.A = append(a.A, g.randDoc(depth+1))
		}
		return a
	}
	o := &c13Node{K: 'o'}
	used := map[string]bool{}
	for i := 0; i < n; i++ {
		o.Keys = append(o.Keys, g.randKey(used))
		o.Vals = append(o.Vals, g.randDoc(depth+1))
	}
	return o
}

// c13CoreDocs is the seed-independent small-scope corpus: every document of depth <= 1 over the
// leaf set, every single-element container of those, every pair (depth-1 doc, leaf).
func c13CoreDocs() []*c13Node {
	leaves := []*c13Node{c13Null(), c13Bool(false), c13Bool(true), c13NumLit("0"), c13NumLit("1.5"), c13Str(""), c13Str("a")}
	keys := []string{"a", "b", "s"}
	d1 := append([]*c13Node{}, leaves...)
	d1 = append(d1, c13Arr(), c13Obj())
	for _, x := range leaves {
		d1 = append(d1, c13Arr(x))
		for _, k := range keys {
			d1 = append(d1, c13Obj(k, x))
		}
		for _, y := range leaves {
			d1 = append(d1, c13Arr(x, y))
			d1 = append(d1, c13Obj("a", x, "b", y), c13Obj("s", x, "a", y))
		}
	}
	out := append([]*c13Node{}, d1...)
	for _, x := range d1 {
		if x.K != 'a' && x.K != 'o' {
			continue
		}
		out = append(out, c13Arr(x), c13Obj("a", x), c13Obj("b", c13Arr(x)), c13Arr(c13Obj("k", x)))
		for _, y := range leaves {
			out = append(out, c13Arr(x, y), c13Arr(y, x), c13Obj("a", x, "b", y))
		}
	}
	// every corner string and number once, as a value and (strings) as a key
	for _, s := range c13CornerStrings {
		out = append(out, c13Str(s), c13Arr(c13Str(s), c13Str(s)))
		if s != "" {
			out = append(out, c13Obj(s, c13Str(s)))
		}
	}
	for _, l := range c13CornerNumbers {
		out = append(out, c13NumLit(l), c13Arr(c13NumLit(l)), c13Obj("n", c13NumLit(l)))
	}
	// deep nesting
	deep := c13NumLit("1")
	for i := 0; i < 5; i++ {
		if i%2 == 0 {
			deep = c13Arr(deep)
		} else {
			deep = c13Obj("d", deep, "e", c13Arr())
		}
		out = append(out, deep)
	}
	return out
}

// ---------------------------------------------------------------------------------------------
// JSON renderer (own code: the point is spelling variety the std encoder never produces)

type c13JSONStyle struct {
	r       *core.Rng // nil => compact, minimal escapes
	forYAML bool      // restrict to the subset yaml.v3 reads identically (no surrogate-pair escapes, no tabs/CR as whitespace)
}

func (st c13JSONStyle) ws(sb *strings.Builder) {
	if st.r == nil || st.r.Chance(2, 3) {
		return
	}
	if st.forYAML {
		sb.WriteString(core.Pick(st.r, []string{" ", "  "}))
		return
	}
	sb.WriteString(core.Pick(st.r, []string{" ", "\n", "\t", "\r\n", "  ", "\n  "}))
}

func (st c13JSONStyle) str(sb *strings.Builder, s string) {
	sb.WriteByte('"')
	for _, c := range s {
		esc := st.r != nil && st.r.Chance(1, 6)
		switch {
		case c == '"' || c == '\\':
			if esc && !st.forYAML {
				fmt.Fprintf(sb, "\\u%04x", c)
			} else {
				sb.WriteByte('\\')
				sb.WriteRune(c)
			}
		case c == '\n' && (esc || c < 0x20):
			sb.WriteString("\\n")
		case c == '\t':
			sb.WriteString("\\t")
		case c == '\r':
			sb.WriteString("\\r")
		case c == '\b' && esc:
			sb.WriteString("\\b")
		case c == '\f' && esc:
			sb.WriteString("\\f")
		case c == '/' && esc && !st.forYAML:
			sb.WriteString("\\/")
		case c < 0x20 || (st.forYAML && (c == 0x7f || c >= 0x80 && c < 0xa0 || c == 0xfffe || c == 0xffff || c == 0xfeff || c == 0x2028 || c == 0x2029)):
			// controls must be escaped; YAML additionally forbids a few raw code points
			if st.r != nil && st.r.Chance(1, 2) {
				fmt.Fprintf(sb, "\\u%04X", c)
			} else {
				fmt.Fprintf(sb, "\\u%04x", c)
			}
		case c == utf8.RuneError:
			sb.WriteString("\\ufffd")
		case esc && c < 0x10000:
			fmt.Fprintf(sb, "\\u%04x", c)
		case esc && !st.forYAML:
			c2 := c - 0x10000
			fmt.Fprintf(sb, "\\u%04x\\u%04X", 0xd800+(c2>>10), 0xdc00+(c2&0x3ff))
		case esc && st.forYAML:
			fmt.Fprintf(sb, "\\U%08X", c)
		default:
			sb.WriteRune(c)
		}
	}
	sb.WriteByte('"')
}

func (st c13JSONStyle) render(sb *strings.Builder, n *c13Node) {
	st.ws(sb)
	switch n.K {
	case 'z':
		sb.WriteString("null")
	case 'b':
		fmt.Fprint(sb, n.B)
	case 'n':
		if n.Lit != "" {
			sb.WriteString(n.Lit)
		} else {
			sb.WriteString(strconv.FormatFloat(n.N, 'g', -1, 64))
		}
	case 's':
		st.str(sb, n.S)
	case 'a':
		sb.WriteByte('[')
		for i, e := range n.A {
			if i > 0 {
				sb.WriteByte(',')
			}
			st.render(sb, e)
		}
		st.ws(sb)
		sb.WriteByte(']')
	case 'o':
		sb.WriteByte('{')
		for i := range n.Keys {
			if i > 0 {
				sb.WriteByte(',')
			}
			st.ws(sb)
			if n.Keys[i].K == 's' {
				st.str(sb, n.Keys[i].S)
			} else {
				st.render(sb, n.Keys[i]) // YAML flow only
			}
			st.ws(sb)
			sb.WriteByte(':')
			if st.forYAML {
				sb.WriteByte(' ')
			}
			st.render(sb, n.Vals[i])
		}
		st.ws(sb)
		sb.WriteByte('}')
	}
	st.ws(sb)
}

func c13RenderJSON(r *core.Rng, n *c13Node) []byte {
	var sb strings.Builder
	c13JSONStyle{r: r}.render(&sb, n)
	return []byte(sb.String())
}

func c13RenderYAMLFlow(r *core.Rng, n *c13Node) []byte {
	var sb strings.Builder
	c13JSONStyle{r: r, forYAML: true}.render(&sb, n)
	sb.WriteByte('\n')
	return []byte(sb.String())
}

// ---------------------------------------------------------------------------------------------
// YAML renderer through yaml.v3's own emitter (trusted) with node-level style variety

func c13YAMLNode(r *core.Rng, n *c13Node, depth int) *yaml.Node {
	switch n.K {
	case 'z':
		return &yaml.Node{Kind: yaml.ScalarNode, Tag: "!!null", Value: core.Pick(r, []string{"null", "~", "null", "Null"})}
	case 'b':
		return &yaml.Node{Kind: yaml.ScalarNode, Tag: "!!bool", Value: fmt.Sprint(n.B)}
	case 'n':
		lit := n.Lit
		tag := "!!float"
		switch {
		case math.IsNaN(n.N) || math.IsInf(n.N, 0):
		case lit == "":
			lit = strconv.FormatFloat(n.N, 'g', -1, 64)
		}
		if !strings.ContainsAny(lit, ".eEn") && math.Abs(n.N) < 9.2e18 {
			tag = "!!int"
		}
		return &yaml.Node{Kind: yaml.ScalarNode, Tag: tag, Value: lit}
	case 's':
		st := core.Pick(r, []yaml.Style{0, 0, yaml.DoubleQuotedStyle, yaml.SingleQuotedStyle, yaml.LiteralStyle, yaml.FoldedStyle})
		return &yaml.Node{Kind: yaml.ScalarNode, Tag: "!!str", Value: n.S, Style: st}
	case 'a':
		y := &yaml.Node{Kind: yaml.SequenceNode, Tag: "!!seq"}
		if r.Chance(1, 4) {
			y.Style = yaml.FlowStyle
		}
		for _, e := range n.A {
			y.Content = append(y.Content, c13YAMLNode(r, e, depth+1))
		}
		return y
	case 'o':
		y := &yaml.Node{Kind: yaml.MappingNode, Tag: "!!map"}
		if r.Chance(1, 4) {
			y.Style = yaml.FlowStyle
		}
		for i := range n.Keys {
			k := c13YAMLNode(r, n.Keys[i], depth+1)
			if k.Style == yaml.LiteralStyle || k.Style == yaml.FoldedStyle {
				k.Style = yaml.DoubleQuotedStyle
			}
			y.Content = append(y.Content, k, c13YAMLNode(r, n.Vals[i], depth+1))
		}
		return y
	}
	return &yaml.Node{Kind: yaml.ScalarNode, Tag: "!!null", Value: "null"}
}

func c13RenderYAMLBlock(r *core.Rng, n *c13Node) (b []byte, err error) {
	defer func() {
		if p := recover(); p != nil {
			err = fmt.Errorf("yaml emitter panicked: %v", p)
		}
	}()
	return yaml.Marshal(c13YAMLNode(r, n, 0))
}

// c13YAMLCorpus: hand-written YAML documents (spellings the generators do not produce).
// mayReject: yaml.v3 itself (the trusted parser) decides; documents it rejects are skipped.
var c13YAMLCorpus = []string{
	"a: 1\nb: [x, y]\nc: {d: ~}\n",
	"- 1\n- two\n- 3.0\n- [4, five]\n- {six: 6}\n",
	"a: &x [1, 2]\nb: *x\nc: *x\n",
	"base: &b {x: 1, y: 2}\nd:\n  <<: *b\n  y: 3\n",
	"k: |\n  line1\n  line2\n",
	"k: |-\n  line1\n  line2\n",
	"k: |+\n  line1\n\n",
	"k: >\n  folded\n  text\n\n  para\n",
	"k: >-\n  folded\n  text\n",
	"plain multi\n  line scalar\n",
	"# comment\na: 1 # trailing\n",
	"--- \na: 1\n...\n",
	"%YAML 1.2\n---\nx: y\n",
	"!!str 123\n", "!!int \"7\"\n", "!!float 1\n", "!!binary aGVsbG8=\n", "k: !!binary aGVsbG8gd29ybGQ=\n", "!!null ''\n", "!!bool \"true\"\n",
	"? a\n: 1\n? b\n: 2\n", "? a\n? b\n", "!!set {a, b}\n", "!!omap [a: 1, b: 2]\n", "!!pairs [a: 1, a: 2]\n",
	"~\n", "null\n", "Null\n", "NULL\n", "k:\n", "- \n- ~\n", "[~, null, ]\n",
	"true\n", "True\n", "TRUE\n", "false\n", "False\n", "yes\n", "no\n", "on\n", "off\n", "y\n", "n\n", "Yes\n",
	"0x1F\n", "0o17\n", "017\n", "0b101\n", "1_000\n", "+12\n", "-0\n", "0\n", "9223372036854775807\n", "-9223372036854775808\n",
	"9223372036854775808\n", "18446744073709551615\n", "18446744073709551616\n", "12345678901234567890\n", "[12345678901234567890, 1]\n", "{n: 9223372036854775808}\n",
	"1.\n", ".5\n", "1e3\n", "1E3\n", "1e+3\n", "6.8523015e+5\n", "685_230.15\n", "1e400\n", "-1e400\n", "1e-400\n", "-0.0\n", "190:20:30\n", "1.5e\n",
	".inf\n", "-.inf\n", "+.inf\n", ".Inf\n", ".nan\n", ".NaN\n", "[.nan]\n", "{a: .inf}\n", "{a: .nan}\n",
	"2001-12-14\n", "2001-12-14t21:59:43.10-05:00\n", "2001-12-14 21:59:43.10 -5\n", "d: 2002-12-14\n", "[2001-12-14, x]\n", "\"2001-12-14\"\n",
	"1: a\n", "1: a\n2: b\n", "1.5: d\n", "true: b\n", "~: c\n", "null: c\n", "1: a\n\"1\": b\n", "true: a\n\"true\": b\n", "{1: {2: {3: x}}}\n", "- {1: a}\n", "0x10: hex\n", "-1: neg\n",
	"? [1, 2]\n: x\n", "? {a: 1}\n: x\n",
	"\"a\\0b\\x01\\u2028 \\U0001F600 \\e \\_ \\N \\L \\P \\/ \\a\"\n", "'it''s'\n", "\"\"\n", "''\n", "\" \"\n", "' x '\n",
	"[\"\", \"true\", \"1\", \"null\", \"~\", \" x\", \"a: b\", \"#c\", \"- d\", \"1e3\", \"0x1f\", \"2001-12-14\", \"y\", \".inf\", \"<<\", \"=\"]\n",
	"[[], {}, \"\", null, false, true, 0, -0.0, 1.5, 1e300]\n",
	"\"\": 1\n", "{\"\": {\"\": \"\"}}\n", "? \"\"\n: x\n",
	"a:\n  - b:\n      - c:\n          - d:\n              e: [f, {g: h}]\n",
	"- - - - - deep\n",
	"key with spaces: value with spaces\n", "\"quoted key\": 'single'\n", "é: ü\n", "😀: 😀\n", "\"\\u00e9\": 1\n",
	"a: [\n  1,\n  2\n]\n", "{a: 1,\n b: 2}\n", "[a, b]: x\n",
	"a: 'multi\n  line'\n", "a: \"multi\n  line\"\n", "a: \"trailing\\\n  slash\"\n",
	"- ! x\n", "a: !custom b\n", "a: !!str\n", "&a a: *a\n",
	"\ufeffa: 1\n", "a:\t1\n", "a:    1   \n", "a: 1\r\nb: 2\r\n",
	"<<: {a: 1}\nb: 2\n", "<<: [{a: 1}, {a: 2, c: 3}]\nb: 2\n",
	"=: 1\n", "[=]\n",
}
