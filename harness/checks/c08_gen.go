package checks

import (
	"strconv"

	"verif/core"
)

// Typed random generator for the C08 fragment. Types only steer generation (mostly well-typed
// programs so that both sides of a rewrite usually yield a value); the oracle never looks at them.

type c08T int

const (
	c08TN   c08T = iota // number
	c08TB               // true / false
	c08TS               // string
	c08TA               // array of numbers
	c08TSet             // set of numbers
	c08TTup             // (a: N, b: N)
	c08TD               // dict string -> N
	c08TR               // relation {|a, b|} of numbers
	c08TF               // function N -> N
	c08NTypes
)

var c08TypeName = []string{"N", "B", "S", "A", "Set", "Tup", "D", "R", "F"}

type c08Bind struct {
	name string
	t    c08T
}

type c08Gen struct {
	r   *core.Rng
	env []c08Bind
}

var c08VarPool = []string{"x", "y", "z", "u", "v", "w"}

var c08NumLits = []string{"0", "1", "2", "3", "4", "5", "7", "10", "0.5", "97", "98", "1", "2", "3"}
var c08StrLits = []string{"", "a", "ab", "abc", "b a", "ba", "c"}

func (g *c08Gen) pick(ws ...int) int {
	tot := 0
	for _, w := range ws {
		tot += w
	}
	k := g.r.Intn(tot)
	for i, w := range ws {
		if k < w {
			return i
		}
		k -= w
	}
	return len(ws) - 1
}

func (g *c08Gen) randType() c08T {
	return []c08T{c08TN, c08TB, c08TSet, c08TA, c08TS, c08TTup, c08TD, c08TR, c08TF}[g.pick(30, 14, 12, 10, 8, 9, 5, 7, 5)]
}

func (g *c08Gen) varOf(t c08T) *c08N {
	var idx []int
	seen := map[string]bool{}
	for i := len(g.env) - 1; i >= 0; i-- {
		b := g.env[i]
		if seen[b.name] {
			continue // shadowed
		}
		seen[b.name] = true
		if b.t == t {
			idx = append(idx, i)
		}
	}
	if len(idx) == 0 {
		return nil
	}
	if g.r.Chance(1, 2) {
		return c08Var(g.env[idx[0]].name) // innermost
	}
	return c08Var(g.env[idx[g.r.Intn(len(idx))]].name)
}

func (g *c08Gen) numLit() *c08N {
	if g.r.Chance(1, 14) {
		return &c08N{K: c08KChar, Op: string(rune('a' + g.r.Intn(4)))}
	}
	return c08Num(core.Pick(g.r, c08NumLits))
}

// lit builds a literal of type t; elem() supplies number-typed members.
func (g *c08Gen) lit(t c08T, elem func() *c08N) *c08N {
	switch t {
	case c08TN:
		return g.numLit()
	case c08TB:
		return c08Bool(g.r.Chance(1, 2))
	case c08TS:
		return c08Str(core.Pick(g.r, c08StrLits))
	case c08TA:
		n := g.pick(1, 3, 5, 2)
		var es []*c08N
		for i := 0; i < n; i++ {
			es = append(es, elem())
		}
		return c08Arr(es...)
	case c08TSet:
		n := g.pick(1, 3, 5, 2)
		var es []*c08N
		for i := 0; i < n; i++ {
			es = append(es, elem())
		}
		return c08Set(es...)
	case c08TTup:
		return c08Tup([]string{"a", "b"}, elem(), elem())
	case c08TD:
		keys := []string{"a", "b", "c"}
		core.Shuffle(g.r, keys)
		n := g.pick(1, 3, 3)
		var kv []*c08N
		for i := 0; i < n; i++ {
			kv = append(kv, c08Str(keys[i]), elem())
		}
		return c08Dict(kv...)
	case c08TR:
		n := 1 + g.pick(4, 4, 1)
		if g.r.Chance(1, 3) {
			var rows []*c08N
			for i := 0; i < n; i++ {
				rows = append(rows, c08Tup([]string{"a", "b"}, elem(), elem()))
			}
			return c08Set(rows...)
		}
		var cells []*c08N
		for i := 0; i < 2*n; i++ {
			cells = append(cells, elem())
		}
		return c08Rel([]string{"a", "b"}, cells...)
	case c08TF:
		name := core.Pick(g.r, c08VarPool)
		g.env = append(g.env, c08Bind{name, c08TN})
		body := c08Bin(core.Pick(g.r, []string{"+", "*", "-"}), c08Var(name), g.numLit())
		if g.r.Chance(1, 3) {
			body = g.gen(c08TN, 1)
		}
		g.env = g.env[:len(g.env)-1]
		return c08Lam(c08PI(name), body)
	}
	return c08Num("0")
}

func (g *c08Gen) leaf(t c08T) *c08N {
	if g.r.Chance(3, 5) {
		if v := g.varOf(t); v != nil {
			return v
		}
	}
	return g.lit(t, g.numLit)
}

func (g *c08Gen) with(binds []c08Bind, f func() *c08N) *c08N {
	n := len(g.env)
	g.env = append(g.env, binds...)
	out := f()
	g.env = g.env[:n]
	return out
}

// binder chooses a pattern for a value of type t (whose expression is e1) and the names it binds.
func (g *c08Gen) binder(t c08T, e1 *c08N) (*c08P, []c08Bind) {
	name := func() string { return core.Pick(g.r, c08VarPool) }
	two := func() (string, string) {
		a := name()
		b := name()
		for b == a {
			b = name()
		}
		return a, b
	}
	switch {
	case t == c08TTup && g.r.Chance(1, 2):
		a, b := two()
		if g.r.Chance(1, 3) {
			return &c08P{K: c08PTup, Names: []string{"a"}, Sub: []*c08P{c08PI(a)}, Rest: "..."}, []c08Bind{{a, c08TN}}
		}
		return &c08P{K: c08PTup, Names: []string{"a", "b"}, Sub: []*c08P{c08PI(a), c08PI(b)}}, []c08Bind{{a, c08TN}, {b, c08TN}}
	case t == c08TA && e1 != nil && e1.K == c08KArr && len(e1.Ch) >= 1 && len(e1.Ch) <= 3 && g.r.Chance(2, 3):
		if g.r.Chance(1, 3) {
			a, b := two()
			return &c08P{K: c08PArr, Sub: []*c08P{c08PI(a)}, Rest: "..." + b}, []c08Bind{{a, c08TN}, {b, c08TA}}
		}
		names := append([]string(nil), c08VarPool...)
		core.Shuffle(g.r, names)
		p := &c08P{K: c08PArr}
		var bs []c08Bind
		for i := range e1.Ch {
			if g.r.Chance(1, 6) {
				p.Sub = append(p.Sub, &c08P{K: c08PWild})
				continue
			}
			p.Sub = append(p.Sub, c08PI(names[i]))
			bs = append(bs, c08Bind{names[i], c08TN})
		}
		return p, bs
	case g.r.Chance(1, 25):
		return &c08P{K: c08PWild}, nil
	case g.r.Chance(1, 25):
		return c08PI("."), []c08Bind{{".", t}}
	}
	n := name()
	return c08PI(n), []c08Bind{{n, t}}
}

// xform builds `lhs op body` with a default or explicit binder; elemT is what the binder sees.
func (g *c08Gen) xform(op string, lhs *c08N, elemT, bodyT c08T, d int) *c08N {
	var p *c08P
	var bs []c08Bind
	switch g.pick(6, 3, 1) {
	case 0:
		bs = []c08Bind{{".", elemT}}
	case 1:
		n := core.Pick(g.r, c08VarPool)
		p, bs = c08PI(n), []c08Bind{{n, elemT}}
	default:
		if elemT == c08TTup {
			p, bs = g.binder(c08TTup, nil)
		} else {
			bs = []c08Bind{{".", elemT}}
		}
	}
	body := g.with(bs, func() *c08N { return g.bodyUsing(bodyT, d, bs) })
	return c08Xform(op, p, lhs, body)
}

// bodyUsing generates a body that (usually) mentions one of the freshly bound names.
func (g *c08Gen) bodyUsing(t c08T, d int, bs []c08Bind) *c08N {
	for try := 0; try < 3; try++ {
		b := g.gen(t, d)
		fv := c08FV(b)
		for _, x := range bs {
			if fv[x.name] {
				return b
			}
		}
		if try == 2 || len(bs) == 0 {
			return b
		}
	}
	return g.gen(t, d)
}

func (g *c08Gen) gen(t c08T, d int) *c08N {
	if g.r.Chance(1, 40) {
		t = g.randType() // deliberately ill-typed now and then
	}
	if d <= 0 {
		return g.leaf(t)
	}
	sub := func(t c08T) *c08N { return g.gen(t, d-1) }
	// productions common to all types
	switch g.pick(56, 13, 4, 3, 1, 3) {
	case 1: // let / arrow / applied lambda
		bt := g.randType()
		e1 := sub(bt)
		if g.r.Chance(2, 5) {
			e1 = g.leaf(bt) // a value on the right-hand side (R7)
		}
		p, bs := g.binder(bt, e1)
		e2 := g.with(bs, func() *c08N { return g.bodyUsing(t, d-1, bs) })
		switch g.pick(5, 3, 2, 2) {
		case 0:
			return c08Let(p, e1, e2)
		case 1:
			return c08Arrow(p, e1, e2)
		case 2:
			return c08Call(c08Lam(p, e2), e1)
		default:
			bs2 := []c08Bind{{".", bt}}
			e2 = g.with(bs2, func() *c08N { return g.bodyUsing(t, d-1, bs2) })
			return c08Arrow(nil, e1, e2)
		}
	case 2: // cond {c: v, ...}
		k := 1 + g.pick(4, 3, 1)
		var ch []*c08N
		for i := 0; i < k; i++ {
			ch = append(ch, sub(c08TB), sub(t))
		}
		def := g.r.Chance(4, 5)
		if def {
			ch = append(ch, sub(t))
		}
		return c08Cond(def, ch...)
	case 3: // cond ctrl {pattern: v, ...}
		var ps []*c08P
		var vals []*c08N
		var ctrl *c08N
		switch g.pick(3, 1, 1) {
		case 0:
			ctrl = sub(c08TN)
			k := 1 + g.r.Intn(2)
			for i := 0; i < k; i++ {
				ps = append(ps, &c08P{K: c08PNum, Name: strconv.Itoa(g.r.Intn(4))})
				vals = append(vals, sub(t))
			}
			if g.r.Chance(1, 2) {
				n := core.Pick(g.r, c08VarPool)
				ps = append(ps, c08PI(n))
				vals = append(vals, g.with([]c08Bind{{n, c08TN}}, func() *c08N { return sub(t) }))
			} else if g.r.Chance(3, 4) {
				ps = append(ps, &c08P{K: c08PWild})
				vals = append(vals, sub(t))
			}
		case 1:
			ctrl = sub(c08TTup)
			p, bs := g.binder(c08TTup, nil)
			ps = append(ps, p, &c08P{K: c08PWild})
			vals = append(vals, g.with(bs, func() *c08N { return sub(t) }), sub(t))
		default:
			ctrl = g.lit(c08TA, func() *c08N { return sub(c08TN) })
			p, bs := g.binder(c08TA, ctrl)
			ps = append(ps, p, &c08P{K: c08PWild})
			vals = append(vals, g.with(bs, func() *c08N { return sub(t) }), sub(t))
		}
		return c08CondV(ctrl, ps, vals...)
	case 4:
		return c08If(sub(t), sub(c08TB), sub(t))
	case 5:
		if t != c08TF && t != c08TN {
			break
		}
		return g.leaf(t)
	}
	switch t {
	case c08TN:
		switch g.pick(10, 2, 4, 3, 3, 2, 1, 3, 2, 2) {
		case 0:
			op := core.Pick(g.r, []string{"+", "+", "-", "-", "*", "*", "/", "%", "^", "//", "-%"})
			a := sub(c08TN)
			var b *c08N
			switch {
			case op == "^":
				b = c08Num(strconv.Itoa(g.r.Intn(4)))
				if g.r.Chance(1, 4) {
					b = c08Bin("^", c08Num(strconv.Itoa(1+g.r.Intn(2))), c08Num(strconv.Itoa(g.r.Intn(3))))
				}
			case (op == "/" || op == "%" || op == "//" || op == "-%") && g.r.Chance(5, 6):
				b = c08Num(strconv.Itoa(1 + g.r.Intn(5)))
			default:
				b = sub(c08TN)
			}
			return c08Bin(op, a, b)
		case 1:
			return c08Un(core.Pick(g.r, []string{"-", "-", "+"}), sub(c08TN))
		case 2:
			return c08Count(sub(core.Pick(g.r, []c08T{c08TSet, c08TSet, c08TA, c08TS, c08TD, c08TR})))
		case 3:
			return c08Dot(sub(c08TTup), core.Pick(g.r, []string{"a", "b"}))
		case 4:
			return c08Call(sub(c08TA), c08Num(strconv.Itoa(g.r.Intn(3))))
		case 5:
			return c08Call(sub(c08TD), c08Str(core.Pick(g.r, []string{"a", "b", "c"})))
		case 6:
			return c08Call(sub(c08TS), c08Num(strconv.Itoa(g.r.Intn(2))))
		case 7:
			return c08Call(sub(c08TF), sub(c08TN))
		case 8:
			return c08Bin(core.Pick(g.r, []string{"||", "&&"}), sub(c08TN), sub(c08TN))
		default:
			return g.leaf(t)
		}
	case c08TB:
		switch g.pick(8, 3, 3, 2, 4, 2) {
		case 0:
			ops := []string{"<", "<=", ">", ">=", "=", "!="}
			if g.r.Chance(1, 3) {
				return c08Cmp([]string{core.Pick(g.r, ops), core.Pick(g.r, ops)}, sub(c08TN), sub(c08TN), sub(c08TN))
			}
			return c08Cmp([]string{core.Pick(g.r, ops)}, sub(c08TN), sub(c08TN))
		case 1:
			tt := g.randType()
			if tt == c08TF {
				tt = c08TN
			}
			return c08Cmp([]string{core.Pick(g.r, []string{"=", "=", "!="})}, sub(tt), sub(tt))
		case 2:
			if g.r.Chance(1, 3) {
				return c08Cmp([]string{"<", core.Pick(g.r, []string{"<:", "!<:"})}, sub(c08TN), sub(c08TN), sub(c08TSet))
			}
			return c08Cmp([]string{core.Pick(g.r, []string{"<:", "!<:"})}, sub(c08TN), sub(c08TSet))
		case 3:
			return c08Cmp([]string{core.Pick(g.r, []string{"(<)", "(<=)", "(>)", "(>=)", "(<>)", "(<>=)", "!(<)", "!(<=)"})}, sub(c08TSet), sub(c08TSet))
		case 4:
			return c08Bin(core.Pick(g.r, []string{"&&", "||"}), sub(c08TB), sub(c08TB))
		default:
			return c08Un("!", sub(c08TB))
		}
	case c08TS:
		switch g.pick(3, 2, 3) {
		case 0:
			return c08Bin("++", sub(c08TS), sub(c08TS))
		case 1:
			return g.xform(">>", sub(c08TS), c08TN, c08TN, min(d-1, 1))
		default:
			return g.leaf(t)
		}
	case c08TA:
		switch g.pick(3, 3, 4, 1) {
		case 0:
			return c08Bin("++", sub(c08TA), sub(c08TA))
		case 1:
			return g.xform(">>", sub(c08TA), c08TN, c08TN, d-1)
		case 2:
			return g.lit(c08TA, func() *c08N { return sub(c08TN) })
		default:
			return g.leaf(t)
		}
	case c08TSet:
		switch g.pick(4, 2, 3, 3, 2, 4, 1) {
		case 0:
			return c08Bin(core.Pick(g.r, []string{"|", "|", "&", "&~", "~~"}), sub(c08TSet), sub(c08TSet))
		case 1:
			return c08Bin(core.Pick(g.r, []string{"with", "without"}), sub(c08TSet), sub(c08TN))
		case 2:
			return g.xform("=>", sub(c08TSet), c08TN, c08TN, d-1)
		case 3:
			return g.xform("where", sub(c08TSet), c08TN, c08TB, d-1)
		case 4:
			return g.xform("=>", sub(c08TR), c08TTup, c08TN, d-1)
		case 5:
			return g.lit(c08TSet, func() *c08N { return sub(c08TN) })
		default:
			return g.leaf(t)
		}
	case c08TTup:
		switch g.pick(3, 2, 4, 1) {
		case 0:
			return g.xform(":>", sub(c08TTup), c08TN, c08TN, d-1)
		case 1:
			return c08Bin("+>", sub(c08TTup), sub(c08TTup))
		case 2:
			return g.lit(c08TTup, func() *c08N { return sub(c08TN) })
		default:
			return g.leaf(t)
		}
	case c08TD:
		switch g.pick(3, 1, 3, 1) {
		case 0:
			return g.xform(">>", sub(c08TD), c08TN, c08TN, d-1)
		case 1:
			return c08Bin("+>", sub(c08TD), sub(c08TD))
		case 2:
			return g.lit(c08TD, func() *c08N { return sub(c08TN) })
		default:
			return g.leaf(t)
		}
	case c08TR:
		switch g.pick(3, 2, 1, 3, 1) {
		case 0:
			return g.xform("where", sub(c08TR), c08TTup, c08TB, d-1)
		case 1:
			return g.xform("=>", sub(c08TR), c08TTup, c08TTup, d-1)
		case 2:
			return c08Bin("|", sub(c08TR), sub(c08TR))
		case 3:
			return g.lit(c08TR, func() *c08N { return sub(c08TN) })
		default:
			return g.leaf(t)
		}
	case c08TF:
		name := core.Pick(g.r, c08VarPool)
		bs := []c08Bind{{name, c08TN}}
		return c08Lam(c08PI(name), g.with(bs, func() *c08N { return g.bodyUsing(c08TN, d-1, bs) }))
	}
	return g.leaf(t)
}

// c08RandomProgram is the seeded random slice: one closed program per (seed, index). Parse time of
// the real parser grows with source length (~0.2 ms/char), so programs are kept under maxLen chars.
func c08RandomProgram(seed uint64, i int, deep bool) (*c08N, c08T) {
	maxLen := 150
	if deep {
		maxLen = 260
	}
	for try := 0; ; try++ {
		r := core.NewRng(seed, 8, uint64(i), uint64(try))
		g := &c08Gen{r: r}
		t := g.randType()
		d := 2 + g.pick(6, 4, 1)
		if deep {
			d = 2 + g.pick(3, 4, 2, 1)
		}
		if try > 8 {
			d = 2
		}
		n := g.gen(t, d)
		if l := len(c08Src(n)); (l <= maxLen && l >= 10 && !c08IsLeaf(n)) || try > 20 {
			return n, t
		}
	}
}
