package checks

import (
	"fmt"
	"sort"
	"strings"

	"verif/core"

	"github.com/arr-ai/arrai/rel"
)

// C04 reference model: relations are model sets (core.MV) of tuples with one heading. The join
// family is transcribed from docs/docs/lang/relops.md: A <&> B = {t+u | t in A, u in B agreeing on
// the common attributes}; every other operator is the projection of that join that drops the
// left-only attributes when '<' is replaced by '-', the common ones when '&' is replaced, the
// right-only ones when '>' is replaced. nest / unnest / rank are plain set comprehensions.

var c04JoinOps = []string{"<&>", "<->", "-&-", "---", "-&>", "<&-", "-->", "<--"}

// c04Alphabet is the attribute alphabet of the core corpus; the random slice adds @byte.
var c04Alphabet = []string{"a", "b", "c", "@", "@item", "@char", "@value"}

// c04HeadingOf returns the sorted heading of a model relation. ok=false when m is not a set of
// tuples sharing one heading. The empty set has no heading of its own (nil, true).
func c04HeadingOf(m MV) (h []string, ok bool) {
	if m.K != 's' {
		return nil, false
	}
	for i, e := range m.S {
		if e.K != 't' {
			return nil, false
		}
		if i == 0 {
			for n := range e.T {
				h = append(h, n)
			}
			sort.Strings(h)
			continue
		}
		if len(e.T) != len(h) {
			return nil, false
		}
		for _, n := range h {
			if _, has := e.T[n]; !has {
				return nil, false
			}
		}
	}
	return h, true
}

func c04NameSet(ns []string) map[string]bool {
	m := make(map[string]bool, len(ns))
	for _, n := range ns {
		m[n] = true
	}
	return m
}

// c04Partition splits two headings into left-only, common, right-only (each sorted).
func c04Partition(ha, hb []string) (x, y, z []string) {
	inB := c04NameSet(hb)
	inA := c04NameSet(ha)
	for _, n := range ha {
		if inB[n] {
			y = append(y, n)
		} else {
			x = append(x, n)
		}
	}
	for _, n := range hb {
		if !inA[n] {
			z = append(z, n)
		}
	}
	return
}

func c04Pattern(x, y, z []string) string {
	f := func(s []string) byte {
		if len(s) == 0 {
			return '0'
		}
		return '1'
	}
	return string([]byte{'x', f(x), 'y', f(y), 'z', f(z)})
}

// c04ModelJoin is the documented meaning of `a op b` for the eight join operators, written out
// plainly. The monitors use the equivalent c04JoinedRows + c04ProjectJoin (shared work per operand
// pair) and re-derive a sample of their expectations with this function as a self-check.
func c04ModelJoin(op string, a, b MV) (MV, bool) {
	ha, ok1 := c04HeadingOf(a)
	hb, ok2 := c04HeadingOf(b)
	if !ok1 || !ok2 || len(op) != 3 {
		return MV{}, false
	}
	if len(a.S) == 0 || len(b.S) == 0 {
		return core.MEmpty, true // the join is empty, so is every projection of it
	}
	x, y, z := c04Partition(ha, hb)
	keep := map[string]bool{}
	if op[0] == '<' {
		for _, n := range x {
			keep[n] = true
		}
	}
	if op[1] == '&' {
		for _, n := range y {
			keep[n] = true
		}
	}
	if op[2] == '>' {
		for _, n := range z {
			keep[n] = true
		}
	}
	var out []MV
	for _, t := range a.S {
	next:
		for _, u := range b.S {
			for _, n := range y {
				if t.T[n].Enc != u.T[n].Enc {
					continue next
				}
			}
			m := map[string]MV{}
			for n, v := range t.T {
				if keep[n] {
					m[n] = v
				}
			}
			for n, v := range u.T {
				if keep[n] {
					m[n] = v
				}
			}
			out = append(out, core.Tup(m))
		}
	}
	return mset(out...), true
}

// c04JoinedRows is the natural join as merged rows (kept as maps so that the eight projections of
// one operand pair share the work); y = common attributes.
func c04JoinedRows(a, b MV, y []string) []map[string]MV {
	var out []map[string]MV
	for _, t := range a.S {
	next:
		for _, u := range b.S {
			for _, n := range y {
				if t.T[n].Enc != u.T[n].Enc {
					continue next
				}
			}
			m := make(map[string]MV, len(t.T)+len(u.T))
			for n, v := range t.T {
				m[n] = v
			}
			for n, v := range u.T {
				m[n] = v
			}
			out = append(out, m)
		}
	}
	return out
}

// c04ProjectJoin projects the natural join the way op's spelling says (same meaning as c04ModelJoin).
func c04ProjectJoin(op string, joined []map[string]MV, x, y, z []string) MV {
	var keep []string
	if op[0] == '<' {
		keep = append(keep, x...)
	}
	if op[1] == '&' {
		keep = append(keep, y...)
	}
	if op[2] == '>' {
		keep = append(keep, z...)
	}
	out := make([]MV, 0, len(joined))
	for _, row := range joined {
		m := make(map[string]MV, len(keep))
		for _, n := range keep {
			m[n] = row[n]
		}
		out = append(out, core.Tup(m))
	}
	return mset(out...)
}

// c04PosMode replicates (as coverage evidence only) which branch of the positional join a
// Relation x Relation application is dispatched to, from the documented output partition.
func c04PosMode(op string, ha, hb []string) string {
	x, y, z := c04Partition(ha, hb)
	var lo, ro []string
	switch op {
	case "<&>":
		switch {
		case len(x) == 0:
			ro = hb
		case len(z) == 0:
			lo = ha
		default:
			lo, ro = ha, z
		}
	case "<->":
		lo, ro = x, z
	case "-&-":
		lo = y
	case "---":
	case "-&>":
		ro = hb
	case "<&-":
		lo = ha
	case "-->":
		ro = z
	case "<--":
		lo = x
	}
	key := c04NameSet(y)
	nonKey := func(s []string) bool {
		for _, n := range s {
			if !key[n] {
				return true
			}
		}
		return false
	}
	hasKey := func(s []string) bool {
		for _, n := range s {
			if key[n] {
				return true
			}
		}
		return false
	}
	l, r, both := nonKey(lo), nonKey(ro), hasKey(lo) != hasKey(ro)
	switch {
	case l && r:
		return "keep-everything"
	case l:
		return "one-side-lhs"
	case r:
		return "one-side-rhs"
	case both:
		return "common-only"
	}
	return "exists"
}

// c04ModelNest groups a by the complement of nest attributes; single=true is the `A nest a` form
// (the nested set holds the bare values of the one attribute).
func c04ModelNest(a MV, nestAttrs []string, name string, single bool) MV {
	if len(a.S) == 0 {
		return a
	}
	in := c04NameSet(nestAttrs)
	type grp struct {
		key     MV
		members []MV
	}
	groups := map[string]*grp{}
	var order []string
	for _, t := range a.S {
		km, nm := map[string]MV{}, map[string]MV{}
		for n, v := range t.T {
			if in[n] {
				nm[n] = v
			} else {
				km[n] = v
			}
		}
		k := core.Tup(km)
		g := groups[k.Enc]
		if g == nil {
			g = &grp{key: k}
			groups[k.Enc] = g
			order = append(order, k.Enc)
		}
		if single {
			g.members = append(g.members, t.T[nestAttrs[0]])
		} else {
			g.members = append(g.members, core.Tup(nm))
		}
	}
	var out []MV
	for _, k := range order {
		g := groups[k]
		m := map[string]MV{}
		for n, v := range g.key.T {
			m[n] = v
		}
		m[name] = mset(g.members...)
		out = append(out, core.Tup(m))
	}
	return mset(out...)
}

// c04ModelUnnest: {(t without attr) + u | t in r, u in t.attr}. ok=false when r is outside the
// modelled domain (attr missing, nested value not a set of tuples, or attribute clash).
func c04ModelUnnest(r MV, attr string) (MV, bool) {
	if r.K != 's' {
		return MV{}, false
	}
	var out []MV
	for _, t := range r.S {
		if t.K != 't' {
			return MV{}, false
		}
		s, has := t.T[attr]
		if !has || s.K != 's' {
			return MV{}, false
		}
		for _, u := range s.S {
			if u.K != 't' {
				return MV{}, false
			}
			m := map[string]MV{}
			for n, v := range t.T {
				if n != attr {
					m[n] = v
				}
			}
			for n, v := range u.T {
				if _, clash := m[n]; clash {
					return MV{}, false
				}
				m[n] = v
			}
			out = append(out, core.Tup(m))
		}
	}
	return mset(out...), true
}

// c04RankSpec is one `rank (...)` right-hand side with number-valued keys.
type c04RankSpec struct {
	Src  string                      // e.g. "(r: .a, s: -.b)"
	Keys map[string]func(MV) float64 // rank attribute -> key of a row
	Ord  string                      // for the orderby cross-check: key expression of the first rank attribute ("" = none)
	Ord1 string                      // its rank attribute
}

// c04ModelRank: every row gains, per rank attribute, the number of rows with a strictly smaller key.
func c04ModelRank(a MV, sp c04RankSpec) MV {
	var out []MV
	for _, t := range a.S {
		m := map[string]MV{}
		for n, v := range t.T {
			m[n] = v
		}
		for name, key := range sp.Keys {
			kt := key(t)
			cnt := 0
			for _, u := range a.S {
				if key(u) < kt {
					cnt++
				}
			}
			m[name] = num(float64(cnt))
		}
		out = append(out, core.Tup(m))
	}
	return mset(out...)
}

func c04RankSpecs(h []string) []c04RankSpec {
	get := func(n string) func(MV) float64 { return func(t MV) float64 { return t.T[n].N } }
	specs := []c04RankSpec{{Src: "(r: 7)", Keys: map[string]func(MV) float64{"r": func(MV) float64 { return 7 }}}}
	for i, n := range h {
		n := n
		specs = append(specs,
			c04RankSpec{Src: "(r: ." + n + ")", Keys: map[string]func(MV) float64{"r": get(n)}, Ord: "." + n, Ord1: "r"},
			c04RankSpec{Src: "(r: -." + n + ")", Keys: map[string]func(MV) float64{"r": func(t MV) float64 { return -t.T[n].N }}, Ord: "-." + n, Ord1: "r"},
		)
		if i+1 < len(h) {
			n2 := h[i+1]
			specs = append(specs,
				c04RankSpec{Src: "(r: ." + n + ", s: -." + n2 + ")", Keys: map[string]func(MV) float64{"r": get(n), "s": func(t MV) float64 { return -t.T[n2].N }}, Ord: "." + n, Ord1: "r"},
				c04RankSpec{Src: "(r: 3 * ." + n + " + ." + n2 + ")", Keys: map[string]func(MV) float64{"r": func(t MV) float64 { return 3*t.T[n].N + t.T[n2].N }}, Ord: "3 * ." + n + " + ." + n2, Ord1: "r"},
			)
		}
	}
	return specs
}

// ---------------------------------------------------------------------------------------------
// generators

// c04Dom is the 3-value domain of an attribute (chars need rune values; everything else 0..2).
func c04Dom(name string, i int) float64 {
	if name == "@char" {
		return float64(97 + i)
	}
	return float64(i)
}

// c04Universe: four full-width rows; every core relation holds projections of some of them (so
// that joins between any two headings are non-empty) plus heading-specific noise rows (so that
// they are not full). '@' is distinct in the first three rows (sugar-shaped projections of them
// are proper sequences); the fourth collides with the second.
var c04Universe = []map[string]int{
	{"a": 0, "b": 0, "c": 0, "@": 0, "@item": 0, "@char": 0, "@value": 0, "@byte": 1},
	{"a": 1, "b": 0, "c": 1, "@": 1, "@item": 1, "@char": 1, "@value": 0, "@byte": 1},
	{"a": 0, "b": 1, "c": 1, "@": 2, "@item": 0, "@char": 1, "@value": 1, "@byte": 2},
	{"a": 2, "b": 1, "c": 0, "@": 1, "@item": 2, "@char": 2, "@value": 1, "@byte": 0},
}

func c04URow(h []string, u int) MV {
	m := map[string]MV{}
	for _, n := range h {
		m[n] = num(c04Dom(n, c04Universe[u][n]))
	}
	return core.Tup(m)
}

func c04RandRow(r *core.Rng, h []string) MV {
	m := map[string]MV{}
	for _, n := range h {
		m[n] = num(c04Dom(n, r.Intn(3)))
	}
	return core.Tup(m)
}

// c04Subsets lists all subsets of names with at most max elements (sorted, by size then lexicographic).
func c04Subsets(names []string, max int) [][]string {
	var out [][]string
	n := len(names)
	for mask := 0; mask < 1<<n; mask++ {
		var s []string
		for i := 0; i < n; i++ {
			if mask>>i&1 == 1 {
				s = append(s, names[i])
			}
		}
		if len(s) <= max {
			sort.Strings(s)
			out = append(out, s)
		}
	}
	sort.SliceStable(out, func(i, j int) bool {
		if len(out[i]) != len(out[j]) {
			return len(out[i]) < len(out[j])
		}
		return strings.Join(out[i], ",") < strings.Join(out[j], ",")
	})
	return out
}

func c04Perms(h []string) [][]string {
	if len(h) <= 1 {
		return [][]string{append([]string{}, h...)}
	}
	var out [][]string
	for i := range h {
		rest := append(append([]string{}, h[:i]...), h[i+1:]...)
		for _, p := range c04Perms(rest) {
			out = append(out, append([]string{h[i]}, p...))
		}
	}
	return out
}

// c04Hazardous: does the hazard list contain anything besides the benign dict-nonstring-key tag
// (number-keyed dicts are ordinary operands here)?
func c04Hazardous(hz []string) bool {
	for _, h := range hz {
		if h != "dict-nonstring-key" {
			return true
		}
	}
	return false
}

// c04Model is one model relation of the pool.
type c04Model struct {
	H   []string
	M   MV
	Tag string // core | hazard | special
}

// c04CoreModels: seed-independent pool. Every heading of <=3 attributes over the alphabet, with
// `variants` row sets each (2-4 rows), hazard-free by construction; plus the empty relation, the
// empty-heading relation and a few deliberately hazardous sugar-shaped relations.
func c04CoreModels(variants int) []c04Model {
	var out []c04Model
	seen := map[string]bool{}
	add := func(h []string, m MV, tag string) {
		if seen[m.Enc] {
			return
		}
		seen[m.Enc] = true
		out = append(out, c04Model{H: h, M: m, Tag: tag})
	}
	add(nil, core.MEmpty, "special")
	for hi, h := range c04Subsets(c04Alphabet, 3) {
		if len(h) == 0 {
			add(h, core.MTrue, "special")
			continue
		}
		for v := 0; v < variants; v++ {
			r := core.NewRng(4004, uint64(hi), uint64(v))
			var rows []MV
			switch v {
			case 0:
				rows = []MV{c04URow(h, 0), c04URow(h, 1), c04URow(h, 2)}
			case 1:
				rows = []MV{c04URow(h, 0), c04URow(h, 2), c04RandRow(r, h)}
			default:
				rows = []MV{c04URow(h, 1), c04URow(h, 2), c04URow(h, 3), c04RandRow(r, h)}
			}
			m := mset(rows...)
			if c04Hazardous(core.HazardList(m)) { // keep the core pool hazard-free: fall back to proper-sequence rows
				m = mset(c04URow(h, 0), c04URow(h, 1), c04URow(h, 2))
				if v == 1 {
					m = mset(c04URow(h, 0), c04URow(h, 1))
				}
			}
			add(h, m, "core")
		}
	}
	// deliberately hazardous or shaped operands (a small minority of the pool)
	hz := []MV{
		relOf([]string{"@", "@item"}, []float64{0, 1}, []float64{0, 2}),                   // superimposed array
		relOf([]string{"@", "@char"}, []float64{0, 97}, []float64{0, 98}),                 // superimposed string
		relOf([]string{"@", "@value"}, []float64{0, 1}, []float64{0, 2}, []float64{1, 1}), // multi-valued dict key
		relOf([]string{"@", "@item"}, []float64{0, 1}, []float64{2, 0}),                   // array with a hole
		relOf([]string{"@", "@item"}, []float64{1, 1}, []float64{2, 2}),                   // offset array
		relOf([]string{"@", "@char"}, []float64{1, 98}, []float64{2, 99}),                 // offset string
	}
	for _, m := range hz {
		h, _ := c04HeadingOf(m)
		add(h, m, "hazard")
	}
	return out
}

// c04RandModel draws a relation with the given heading and 0..4 rows; with tie != nil about half
// of the rows copy the common attributes of a row of tie (so joins are neither empty nor full).
func c04RandModel(r *core.Rng, h []string, tie *MV) MV {
	n := r.Range(0, 4)
	if len(h) == 0 {
		if n == 0 {
			return core.MEmpty
		}
		return core.MTrue
	}
	var rows []MV
	for i := 0; i < n; i++ {
		row := c04RandRow(r, h)
		if tie != nil && len(tie.S) > 0 && r.Chance(1, 2) {
			src := tie.S[r.Intn(len(tie.S))]
			m := map[string]MV{}
			for k, v := range row.T {
				if sv, has := src.T[k]; has {
					v = sv
				}
				m[k] = v
			}
			row = core.Tup(m)
		}
		rows = append(rows, row)
	}
	return mset(rows...)
}

// ---------------------------------------------------------------------------------------------
// construction paths (realisations of one model relation as live values)

func c04LitSrc(m MV, order []string) string {
	rows := make([]string, 0, len(m.S))
	for _, e := range m.S {
		cells := make([]string, 0, len(order))
		for _, n := range order {
			cells = append(cells, core.Src(e.T[n]))
		}
		rows = append(rows, "("+strings.Join(cells, ", ")+")")
	}
	return "{|" + strings.Join(order, ", ") + "| " + strings.Join(rows, ", ") + "}"
}

// c04JoinChainSrc builds m through real joins over a row-number key so that the resulting
// Relation carries its attributes in the given (generally unsorted) internal order:
// (({|k,p0|..} <&> {|k,p1|..}) <&> {|k,p2|..}) <-- {|k|..}.
func c04JoinChainSrc(m MV, order []string) string {
	col := func(n string) string {
		rows := make([]string, 0, len(m.S))
		for i, e := range m.S {
			rows = append(rows, fmt.Sprintf("(%d, %s)", i, core.Src(e.T[n])))
		}
		return "{|zk, " + n + "| " + strings.Join(rows, ", ") + "}"
	}
	s := col(order[0])
	for _, n := range order[1:] {
		s = "(" + s + " <&> " + col(n) + ")"
	}
	ks := make([]string, 0, len(m.S))
	for i := range m.S {
		ks = append(ks, fmt.Sprintf("(%d)", i))
	}
	return "(" + s + " <-- {|zk| " + strings.Join(ks, ", ") + "})"
}

func c04MapSrc(m MV, h []string) string {
	rows := make([]string, 0, len(m.S))
	for _, e := range m.S {
		cells := make([]string, 0, len(h))
		for i, n := range h {
			cells = append(cells, fmt.Sprintf("x%d: %s", i, core.Src(e.T[n])))
		}
		rows = append(rows, "("+strings.Join(cells, ", ")+")")
	}
	attrs := make([]string, 0, len(h))
	for i, n := range h {
		attrs = append(attrs, fmt.Sprintf("%s: .x%d", n, i))
	}
	return "({" + strings.Join(rows, ", ") + "} => (" + strings.Join(attrs, ", ") + "))"
}

// c04Paths lists programs that by the language definition evaluate to m (h = its sorted heading):
// spelled-out tuples, sugar, the relation literal in EVERY column permutation, a computed set
// (=> over differently named tuples), union of halves, with-chain, where, and join-chains that
// yield every internal attribute order.
func c04Paths(m MV, h []string) []Path {
	ps := []Path{{"spelled", core.Src(m)}}
	if len(m.S) == 0 {
		return append(ps, Path{"false", "false"}, Path{"empty-join", "({|a| (1)} <&> {|a| (2)})"}, Path{"empty-where", "({|a| (1)} where false)"})
	}
	if len(h) == 0 {
		return append(ps, Path{"true", "true"}, Path{"exists-join", "({|a| (1)} --- {|a| (1)})"}, Path{"project-away", "({|a| (1)} => ())"})
	}
	if s, ok := sugarSrc(m); ok && s != core.Src(m) && !strings.HasPrefix(s, "{|") {
		ps = append(ps, Path{"sugar", s})
	}
	perms := c04Perms(h)
	for _, p := range perms {
		ps = append(ps, Path{"lit:" + strings.Join(p, ","), c04LitSrc(m, p)})
	}
	ps = append(ps, Path{"map", c04MapSrc(m, h)})
	n := len(m.S)
	if n >= 2 {
		ps = append(ps, Path{"union", "(" + core.Src(mset(m.S[:n/2]...)) + " | " + core.Src(mset(m.S[n/2:]...)) + ")"})
	}
	w := "{}"
	for _, e := range m.S {
		w = "(" + w + " with " + core.Src(e) + ")"
	}
	ps = append(ps, Path{"with-chain", w})
	ps = append(ps, Path{"where-true", "(" + c04LitSrc(m, h) + " where true)"})
	if len(h) >= 2 {
		for _, p := range perms {
			ps = append(ps, Path{"join-chain:" + strings.Join(p, ","), c04JoinChainSrc(m, p)})
		}
	}
	return ps
}

// c04Opnd is a live operand with its intended and actual denotation.
type c04Opnd struct {
	Operand
	Attrs string   // internal attribute order when the value is a rel.Relation (coverage only)
	Rep   string   // representation key: Go type + internal attribute order (coverage / distinctness only)
	H     []string // heading of the actual denotation
	Hz    []string // hazards of the actual and the intended denotation
	Hash  uint64   // of (actual denotation, Go type), for distinct-case counting
	IsRel bool     // Go type is rel.Relation (coverage only)
}

func c04AttrOrder(v rel.Value) string {
	if r, is := v.(rel.Relation); is {
		return strings.Join(r.AttrsName(), ",")
	}
	return ""
}

// c04Val builds a live value from a model value through the Go API (independent of the parser and
// of the evaluator's literal paths); ok=false if the constructors refuse it.
func c04Val(m MV) (v rel.Value, ok bool) {
	defer func() {
		if r := recover(); r != nil {
			v, ok = nil, false
		}
	}()
	switch m.K {
	case 'n':
		return rel.NewNumber(m.N), true
	case 't':
		names := make([]string, 0, len(m.T))
		for n := range m.T {
			names = append(names, n)
		}
		sort.Strings(names)
		attrs := make([]rel.Attr, 0, len(names))
		for _, n := range names {
			x, ok := c04Val(m.T[n])
			if !ok {
				return nil, false
			}
			attrs = append(attrs, rel.NewAttr(n, x))
		}
		return rel.NewTuple(attrs...), true
	case 's':
		vals := make([]rel.Value, 0, len(m.S))
		for _, e := range m.S {
			x, ok := c04Val(e)
			if !ok {
				return nil, false
			}
			vals = append(vals, x)
		}
		s, err := rel.NewSet(vals...)
		if err != nil {
			return nil, false
		}
		return s, true
	}
	return nil, false
}

var c04ValCache = map[string]rel.Value{}

// c04ValCached returns a Go-API-built live value that is verified to denote exactly m
// (ok=false when the constructors refuse m or build something else, e.g. superimposed sequences).
func c04ValCached(m MV) (rel.Value, bool) {
	if v, ok := c04ValCache[m.Enc]; ok {
		return v, v != nil
	}
	v, ok := c04Val(m)
	if ok {
		if d, pi := core.SafeDenote(v); pi != nil || d.Enc != m.Enc {
			ok = false
		}
	}
	if !ok {
		v = nil
	}
	c04ValCache[m.Enc] = v
	return v, ok
}
