package checks

import (
	"fmt"
	"path/filepath"
	"sort"
	"strconv"
	"strings"

	"verif/core"
)

// Clause (a) confinement: hostile import path strings evaluated at every script position of every
// layout, in three script-addressing modes, directly and through a helper file.

// core alphabet (exhaustive enumeration) and extended alphabet (random slice)
var c16Syms = []string{".", "..", "...", "a", "sub", "", " ", "\t", "%2e%2e", " ..", ".. ", "..\\"}

var c16ExtSyms = append(append([]string{}, c16Syms...),
	" a", "a ", "\\", "secret", "secret.json", "a.arrai", "\n", "..\t", "\t..", ". .", "..%2f", "%2e%2e%2f",
	"sub\\..", "....", ". ", " .", "\n..", "..\n", "  ", " \t", "a\\..\\..", "%2e.", ".%2e", "\\..", "~", "*")

// hand-written spellings evaluated in every context (regression seeds: known escapes and classics)
var c16SeedImports = []string{
	"./a", "/a", "./sub/a", "/sub/a", "./secret", "/secret", "./secret.json", "/secret.json",
	"/ /secret", "/\t/secret", "/\n/secret", "/ /a", "/  /sub/a", "/ //secret", "/ / /secret",
	"./ ../secret", "./\t../secret", "./\n../secret", "./ ../a", "./ ../sub/a", "./ ../ ../secret", "./ ../../secret",
	"./../secret", "./../../secret", "/../secret", "/../../../secret", "./a/../../secret", "./sub/../../secret",
	"./....//secret", "/....//secret", "/..././secret", "./..././secret", "/.../secret", "./.../secret",
	"/%2e%2e/secret", "./%2e%2e/secret", "/..%2fsecret", "./..\\secret", "/..\\secret", "./..\\..\\secret",
	"/a/../../..//secret", ".//../secret", ".///secret", "//secret", "./secret ", "./secret\t", "/secret ",
	"./a/.. ", "/.. ", "/.. /secret", "./.. /secret", "./ .. /secret", "/ .. / .. /secret", "./sub/../../../secret ",
	"/ /../secret", "/ /.. /secret", "./ /../../secret", "/./../secret", "./.", "/.", "./..", "/..", "./ ", "/ ",
	"./secret.json ", "/ /secret.json", "./ ../secret.json", "/ ../secret", "/ ..", "./ ..", "/\t..", "./ ../",
}

// every whitespace / control / invisible character gets the padded-segment treatment, not only
// space, tab and newline: a trim that knows one more character than the checks before it is the
// classic escape (e.g. "\r.." is an ordinary name to path.Clean and becomes ".." after a late trim)
func init() {
	for _, ws := range []string{"\r", "\v", "\f", "\u00a0", "\u2028", "\u0085", "\x00", "\ufeff", "\r\n"} {
		c16SeedImports = append(c16SeedImports,
			"./"+ws+"../secret", "./.."+ws+"/secret", "./"+ws+".."+ws+"/secret", "/"+ws+"/secret", "/"+ws+"../secret",
			"./"+ws+"../"+ws+"../secret", "./secret"+ws, "./"+ws+"../a", "./sub/"+ws+"../"+ws+"../secret", "./"+ws+"../secret.json")
		c16ExtSyms = append(c16ExtSyms, ws, ws+"..", ".."+ws)
	}
}

type c16PCtx struct {
	Layout int
	Pos    int // index into c16Positions: directory of the script holding the hostile import
	Mode   string
	Helper bool // hostile import sits in a helper file imported by a main script in w/m
}

func (c c16PCtx) String() string {
	h := "direct"
	if c.Helper {
		h = "via-helper"
	}
	return fmt.Sprintf("layout=%s dir=B/%s mode=%s %s", c16Layouts[c.Layout].Name, c16Positions[c.Pos], c.Mode, h)
}

var c16PCtxs = func() []c16PCtx {
	var out []c16PCtx
	for _, helper := range []bool{false, true} {
		for l := range c16Layouts {
			for p := range c16Positions {
				for _, m := range c16Modes {
					out = append(out, c16PCtx{Layout: l, Pos: p, Mode: m, Helper: helper})
				}
			}
		}
	}
	return out
}()

func (c c16PCtx) tag() string {
	return "ctx/" + c16Layouts[c.Layout].Name + "/depth" + strconv.Itoa(c.Pos) + "/" + c.Mode + map[bool]string{false: "/direct", true: "/helper"}[c.Helper]
}

// principal contexts get one more exhaustive length in the quick tier
func (c c16PCtx) principal() bool {
	n := c16Layouts[c.Layout].Name
	return !c.Helper && c.Pos == 1 && (n == "mod" || n == "nested" || n == "nomod") && c.Mode != c16ModeRelB
}

func c16Pow(b, e int) int {
	r := 1
	for ; e > 0; e-- {
		r *= b
	}
	return r
}

// number of exhaustive strings with 1..maxLen segments, two forms (./ and /) each
func c16EnumCount(maxLen int) int {
	n := 0
	for l := 1; l <= maxLen; l++ {
		n += c16Pow(len(c16Syms), l)
	}
	return 2 * n
}

// c16EnumImport decodes enumeration index idx into (import string, segments, dot form).
func c16EnumImport(idx int) (string, []string, bool) {
	dot := idx%2 == 0
	k := idx / 2
	l := 1
	for {
		n := c16Pow(len(c16Syms), l)
		if k < n {
			break
		}
		k -= n
		l++
	}
	segs := make([]string, l)
	for i := l - 1; i >= 0; i-- {
		segs[i] = c16Syms[k%len(c16Syms)]
		k /= len(c16Syms)
	}
	return c16Spell(segs, dot), segs, dot
}

func c16Spell(segs []string, dot bool) string {
	s := "/" + strings.Join(segs, "/")
	if dot {
		s = "." + s
	}
	return s
}

func c16RandImport(r *core.Rng) (string, []string, bool) {
	l := r.Range(3, 6)
	segs := make([]string, l)
	for i := range segs {
		if r.Chance(2, 3) {
			segs[i] = core.Pick(r, c16Syms)
		} else {
			segs[i] = core.Pick(r, c16ExtSyms)
		}
	}
	// bias the last segment towards names that exist as files so that escapes become reads
	if r.Chance(1, 2) {
		segs[l-1] = core.Pick(r, []string{"a", "sub", "secret", "secret.json", "a.arrai", "a ", " a"})
	}
	dot := r.Chance(1, 2)
	return c16Spell(segs, dot), segs, dot
}

func c16SegsOf(imp string) ([]string, bool) {
	dot := strings.HasPrefix(imp, ".")
	s := strings.TrimPrefix(imp, ".")
	s = strings.TrimPrefix(s, "/")
	return strings.Split(s, "/"), dot
}

// hazards: model-level features of the import string and its context (fixed vocabulary)
func c16PathHazards(segs []string, cx c16PCtx) []string {
	hz := map[string]bool{}
	for _, s := range segs {
		t := strings.Trim(s, " \t\n")
		switch {
		case s == "":
			hz["empty-seg"] = true
		case t == "":
			hz["ws-only-seg"] = true
		case t != s:
			hz["ws-padded-seg"] = true
		}
		if s == ".." {
			hz["dotdot"] = true
		} else if t == ".." {
			hz["dotdot-ws"] = true
		}
		if strings.Contains(s, "\\") {
			hz["backslash"] = true
		}
		if strings.Contains(s, "%") {
			hz["pct"] = true
		}
		if strings.HasPrefix(t, "...") {
			hz["dots3"] = true
		}
	}
	if cx.Mode == c16ModeAbs {
		hz["srcdir-abs"] = true
	} else {
		hz["srcdir-rel"] = true
	}
	var out []string
	for k := range hz {
		out = append(out, k)
	}
	sort.Strings(out)
	return out
}

type c16Stats map[string]int

func c16ErrClass(text string) string {
	switch {
	case strings.Contains(text, "can not be pointing outside"):
		return "rejected-outside"
	case strings.Contains(text, "must name a file"):
		return "rejected-directory"
	case strings.Contains(text, "module root not found"):
		return "no-module-root"
	case strings.Contains(text, "file does not exist") || strings.Contains(text, "no such file"):
		return "not-found"
	case strings.Contains(text, "is a directory"):
		return "is-directory"
	case strings.Contains(text, "import cycle"):
		return "import-cycle"
	case strings.Contains(text, "invalid; no local context"):
		return "no-local-context"
	case strings.Contains(text, "ParseError"):
		return "parse-error"
	}
	return "other-error"
}

// c16JudgeConfined applies clause (a) to one evaluation. roots: the allowed root for every read other
// than exempt (the helper file, which is judged against the main script's root).
func c16JudgeConfined(w *c16World, res *core.CaseResult, seen map[string]bool, st c16Stats, run c16Run,
	root string, exempt map[string]string, entry string, hazards []string, replay map[string]string) (outside bool) {
	emit := func(mode, delta, detail string) {
		outside = true
		sig := core.Signature{Clause: "C16.confinement", Entry: entry, Mode: mode, Hazards: hazards, Delta: delta}
		k := sig.String()
		if seen[k] {
			return
		}
		seen[k] = true
		res.Viols = append(res.Viols, core.Violation{Sig: sig, Detail: detail, Replay: replay})
	}
	for _, e := range c16ContentReads(run.evs) {
		allowed := root
		if r, ok := exempt[e.Abs]; ok {
			allowed = r
		}
		if e.Write {
			emit("write", "", fmt.Sprintf("import %s opened %s for writing", replay["import"], w.rel(e.Abs)))
		}
		if c16Beneath(e.Abs, allowed) {
			st["reads-inside-root"]++
			continue
		}
		st["reads-OUTSIDE-root"]++
		emit("read-outside-root", c16Where(e.Abs, allowed), fmt.Sprintf(
			"%s: import %s read %d bytes of %s (opened as %q), which is not beneath the importing script's root %s",
			replay["context"], strconv.Quote(replay["import"]), e.Bytes, w.rel(e.Abs), e.Name, w.rel(allowed)))
	}
	for _, tok := range c16TokRe.FindAllString(run.text, -1) {
		p, ok := w.tokPath[tok]
		if !ok {
			continue
		}
		allowed := root
		if r, ok := exempt[p]; ok {
			allowed = r
		}
		if !c16Beneath(p, allowed) {
			st["tokens-OUTSIDE-root"]++
			emit("token-leak", c16Where(p, allowed), fmt.Sprintf(
				"%s: import %s produced %s whose token belongs to %s, not beneath the importing script's root %s",
				replay["context"], strconv.Quote(replay["import"]), c16Clip(run.text, 120), w.rel(p), w.rel(allowed)))
		}
	}
	return outside
}

func c16Clip(s string, n int) string {
	if len(s) > n {
		return s[:n] + "…"
	}
	return s
}

// c16RunHostile evaluates the given import strings in one context.
func c16RunHostile(cfg *core.Config, res *core.CaseResult, st c16Stats, cx c16PCtx, imports []string) {
	w, err := c16WorldFor(cfg, c16Layouts[cx.Layout])
	if err != nil {
		res.Inconclusive = "c16 world: " + err.Error()
		return
	}
	seen := map[string]bool{}
	dirRel := c16Positions[cx.Pos]
	dirAbs := w.abs(dirRel)
	root, hasMod := w.root(dirAbs)
	res.Cover = append(res.Cover, cx.tag())
	st[cx.tag()]++
	exempt := map[string]string{}
	var cwd, script string
	helperPath := filepath.Join(dirAbs, "c16h.arrai")
	if cx.Helper {
		cwd, script = w.address(cx.Mode, "w/m", "c16main.arrai")
		mainRoot, _ := w.root(w.abs("w/m"))
		exempt[helperPath] = mainRoot
	} else {
		cwd, script = w.address(cx.Mode, dirRel, "c16main.arrai")
	}
	for _, imp := range imports {
		segs, dot := c16SegsOf(imp)
		src := "//{" + imp + "}"
		if cx.Helper {
			w.write(helperPath, src)
			relp, _ := filepath.Rel(w.abs("w/m"), helperPath)
			src = "//{./" + strings.TrimSuffix(relp, ".arrai") + "}"
		}
		run := c16Eval(w, cwd, script, src)
		res.Evals++
		if run.text == "HARNESS" {
			res.Inconclusive = core.ErrText(run.out.Err)
			return
		}
		entry := "//{/…}"
		if dot {
			entry = "//{./…}"
		}
		replay := map[string]string{"context": cx.String(), "import": imp, "script": script, "cwd": w.rel(cwd),
			"root": w.rel(root), "has_module": strconv.FormatBool(hasMod)}
		out := c16JudgeConfined(w, res, seen, st, run, root, exempt, entry, c16PathHazards(segs, cx), replay)
		st["hostile-evals"]++
		switch {
		case run.out.Panic != nil:
			st["hostile-panic"]++
		case run.out.Err != nil:
			st["hostile-"+c16ErrClass(run.text)]++
		default:
			st["hostile-value"]++
			if !out {
				res.SubKeys = append(res.SubKeys, "h|"+cx.String()+"|"+imp)
			}
		}
		for _, e := range run.evs {
			if e.Op == "stat" {
				st["stat-events"]++
			} else {
				st["open-events"]++
				if e.OK && e.Dir {
					st["dir-opens"]++
				}
			}
		}
	}
	if cx.Helper {
		_ = w.mem.Remove(helperPath)
	}
}
