package checks

import (
	"fmt"
	"os"
	"sort"
	"strings"
	"sync"
	"time"

	"verif/core"

	"github.com/arr-ai/arrai/rel"
)

// C06 value universe: model values of every kind (numbers, tuples incl. @neg wrappers and sugar
// tuples, every set form, nested), each realised through several construction paths. The list of
// slots (model value x path) is a function of (tier, seed) only; a slot whose program does not
// evaluate is kept (dead) so that case indices never depend on the implementation.

type c06Op struct {
	Idx    int
	Want   MV
	Path   Path
	OK     bool
	Val    rel.Value
	Got    MV
	GoType string
	Class  string // c06Class(Got): model-level kind
	Dead   string // why the slot is dead
}

func (o *c06Op) src() string { return o.Path.Src }

// c06Class is the model-level kind used in kind-pair hazards (from the denotation, never Go types).
func c06Class(m MV) string {
	switch m.K {
	case 'n':
		return "num"
	case 't':
		if len(m.T) == 1 {
			if _, ok := m.T["@neg"]; ok {
				return "neg"
			}
		}
		return "tuple"
	case 'f':
		return "fn"
	}
	c := core.Classify(m)
	if i := strings.IndexByte(c, '+'); i >= 0 {
		c = c[:i]
	}
	return c
}

func c06Tuples() []MV {
	n := num
	return []MV{
		mtup(), mtup("a", n(1)), mtup("a", n(2)), mtup("b", n(1)), mtup("a", n(-1)),
		mtup("a", n(1), "b", n(2)), mtup("a", n(1), "b", n(3)), mtup("a", n(2), "b", n(1)),
		mtup("a", n(1), "b", n(2), "c", n(3)), mtup("a", n(1), "c", n(2)), mtup("b", n(1), "c", n(2)),
		mtup("a", mset()), mtup("a", mset(mtup())), mtup("a", mtup("b", n(1))), mtup("a", mtup()),
		mtup("a", core.MStr("x")), mtup("a", core.MStr("y")), mtup("a", core.MArr(n(1))), mtup("a", mset(n(1), n(2))),
		mtup("a", relOf([]string{"a"}, []float64{1})), mtup("a", core.MStrOff("x", 2)),
		mtup("@", n(0)), mtup("@", n(0), "x", n(1)), mtup("x y", n(1)), mtup("A", n(1)), mtup("_", n(1)),
		mtup("a", n(1), "x y", n(2), "@", n(3), "B", n(4)),
		// sugar tuples
		mpair(n(0), "@char", n(97)), mpair(n(1), "@char", n(97)), mpair(n(0), "@char", n(98)),
		mpair(n(0), "@item", n(1)), mpair(n(1), "@item", n(1)), mpair(n(0), "@item", core.MStr("a")),
		mpair(n(0), "@item", mtup("a", n(1))), mpair(n(0), "@item", mset()),
		mpair(n(0), "@byte", n(97)), mpair(n(1), "@byte", n(97)), mpair(n(0), "@byte", n(98)),
		mpair(n(0), "@value", n(1)), mpair(n(0), "@value", n(2)), mpair(core.MStr("a"), "@value", n(1)),
		mpair(core.MStr("b"), "@value", n(1)), mpair(mtup("k", n(1)), "@value", mset()),
		mpair(n(0.5), "@char", n(97)), mpair(n(0), "@char", core.MStr("a")),
	}
}

func c06Negs() []MV {
	neg := func(x MV) MV { return mtup("@neg", x) }
	n := num
	return []MV{
		neg(n(1)), neg(n(2)), neg(n(-1)), neg(core.MStr("a")), neg(core.MStr("b")), neg(core.MStrOff("a", 2)),
		neg(mtup("a", n(1))), neg(mtup("a", n(2))), neg(mtup()), neg(mset()), neg(mset(mtup())),
		neg(core.MArr(n(1), n(2))), neg(core.MArr(n(1), n(3))), neg(mset(n(1), n(2))), neg(mset(n(1), n(3))),
		neg(core.MDict(n(1), n(2))), neg(relOf([]string{"a"}, []float64{1})), neg(relOf([]string{"a"}, []float64{2})),
		neg(core.MBytesOff(0, 1, 2)),
		neg(neg(n(1))), neg(neg(mtup("a", n(1)))), neg(neg(core.MStr("a"))), neg(neg(neg(n(1)))),
		neg(mpair(n(0), "@char", n(97))),
	}
}

func c06ExtraSets() []MV {
	n := num
	return []MV{
		// relations differing only in heading / same heading
		relOf([]string{"a", "b"}, []float64{2, 1}, []float64{1, 2}),
		relOf([]string{"a", "b"}, []float64{1, 2}, []float64{2, 0}),
		relOf([]string{"a", "c"}, []float64{1, 2}), relOf([]string{"a", "c"}, []float64{1, 2}, []float64{1, 3}),
		relOf([]string{"b", "c"}, []float64{1, 2}), relOf([]string{"c"}, []float64{1}, []float64{2}),
		relOf([]string{"a", "b", "c"}, []float64{1, 2, 3}), relOf([]string{"a", "b", "c"}, []float64{1, 2, 3}, []float64{3, 2, 1}),
		relOf([]string{"b"}, []float64{1}, []float64{2}), relOf([]string{"b"}, []float64{0}),
		mset(mtup("a", core.MStr("x")), mtup("a", core.MStr("y"))), mset(mtup("a", mset()), mtup("a", mset(mtup()))),
		mset(mtup("a", n(1)), mtup("b", n(2))), mset(mtup("a", n(2)), mtup("b", n(1))), // mixed headings
		mset(mtup("a", n(1)), mtup("b", n(1)), mtup("c", n(1))),
		// strings equal up to offset, empty-ish, unicode
		core.MStrOff("a", 3), core.MStrOff("a", -1), core.MStr("b"), core.MStr("ab"), core.MStrOff("ab", 1), core.MStr("B"),
		core.MStr("é"), core.MStr("a b"), core.MStr("it's"),
		core.MBytesOff(0, 0), core.MBytesOff(0, 255), core.MBytesOff(3, 97), core.MBytesOff(0, 97, 98, 99),
		core.MArrOff(3, n(97)), core.MArrOff(0, n(1), MV{}, n(3)), core.MArrOff(0, n(1), MV{}, n(4)),
		core.MArr(mset(), mset(mtup())), core.MArr(mtup("a", n(1)), mtup("a", n(2))), core.MArr(core.MStr("a"), core.MStr("b")),
		core.MArr(n(1), n(2)), core.MArr(n(2), n(1)), core.MArr(n(1)), core.MArr(n(2)),
		// nested sets
		mset(mset(n(1)), mset(n(2))), mset(mset(n(1), n(2))), mset(core.MStr("a"), core.MStr("b")),
		mset(core.MArr(n(1)), core.MArr(n(2))), mset(mtup("a", mset(n(1)))), mset(mset(mset())),
		mset(mset(mtup("a", n(1))), mset(mtup("b", n(1)))), mset(n(1), core.MStr("a"), mtup("a", n(1)), mset()),
		mset(n(1), mset()), mset(n(1), mset(mtup())), mset(mtup(), mtup("a", n(1))), mset(mset(), mtup("a", n(1))),
		mset(mtup("@neg", n(1)), n(1)), mset(mtup("@neg", n(1)), mtup("@neg", n(2))),
		mset(n(-1), n(0), n(1)), mset(n(3)), mset(n(0)),
		core.MDict(core.MStr("a"), mset()), core.MDict(core.MStr("a"), mset(mtup())), core.MDict(core.MStr("b"), n(1)),
		core.MDict(core.MStr("a"), n(1), core.MStr("b"), n(1)), core.MDict(n(1), n(2), n(2), n(1)), core.MDict(n(2), n(1)),
		core.MDict(mset(), n(1)), core.MDict(mtup("a", n(1)), n(1)),
	}
}

func c06Models(cfg *core.Config) []MV {
	var u []MV
	for _, f := range []float64{0, 1, 2, 3, -1, 0.5, -0.5, 97, 255, 1e9, -3.25} {
		u = append(u, num(f))
	}
	u = append(u, c06Tuples()...)
	u = append(u, c06Negs()...)
	u = append(u, coreValues()...)
	u = append(u, c06ExtraSets()...)
	r := core.NewRng(cfg.Seed, 6, 1)
	nr := cfg.Pick(24, 260)
	for i := 0; i < nr; i++ {
		var m MV
		switch i % 6 {
		case 0: // tuple over random values
			m = mtup("a", randValue(r, true, 0), "b", num(float64(r.Intn(3))))
		case 1:
			m = mtup("@neg", randValue(r, true, 1))
		case 2: // set of sets
			m = mset(randValue(r, true, 0), randValue(r, true, 0))
		default:
			m = randValue(r, i%5 < 3, 1)
		}
		u = append(u, m)
	}
	seen := map[string]bool{}
	out := u[:0:0]
	for _, m := range u {
		if seen[m.Enc] || m.ContainsFn() {
			continue
		}
		seen[m.Enc] = true
		out = append(out, m)
	}
	return out
}

// c06Paths lists the construction programs used for m. Quick: spelled, sugar, reversed relation
// literal and one further path rotating with the slot number; thorough: every path.
func c06Paths(m MV, k int, thorough bool) []Path {
	all := pathsFor(m)
	if m.K == 't' && len(m.T) == 1 {
		if x, ok := m.T["@neg"]; ok && x.K != 'n' {
			if s, ok := sugarSrc(x); ok {
				all = append(all, Path{"negate", "(-" + s + ")"})
			} else {
				all = append(all, Path{"negate", "(-" + core.Src(x) + ")"})
			}
		}
	}
	if m.K == 't' {
		if s, _ := sugarSrc(m); s != core.Src(m) {
			all = append(all, Path{"sugar-attrs", s})
		}
	}
	if thorough {
		return all
	}
	var out, rest []Path
	for _, p := range all {
		switch p.Kind {
		case "spelled", "sugar", "rel-literal-rev", "negate", "sugar-attrs", "+>":
			out = append(out, p)
		default:
			rest = append(rest, p)
		}
	}
	if len(rest) > 0 {
		out = append(out, rest[k%len(rest)])
	}
	return out
}

type c06World struct {
	ops   []*c06Op
	live  []int // indices of OK operands
	n     int
	cells map[int]*c06Cell // ordered pair i*n+j -> observations (lazy)
	sites map[int]string
	pairF map[int]string // cache: unordered pair -> trichotomy failure tag ("" = holds)
}

var (
	c06Once sync.Once
	c06W    *c06World
	c06Key  string
)

func c06Slots(cfg *core.Config) []*c06Op {
	var ops []*c06Op
	seen := map[string]bool{}
	for k, m := range c06Models(cfg) {
		for _, p := range c06Paths(m, k, cfg.Thorough()) {
			if seen[p.Src] {
				continue
			}
			seen[p.Src] = true
			ops = append(ops, &c06Op{Idx: len(ops), Want: m, Path: p})
		}
	}
	return ops
}

// c06GetWorld builds (once per process) every operand; comparisons are evaluated on demand.
func c06GetWorld(cfg *core.Config) *c06World {
	key := fmt.Sprintf("%s/%d", cfg.Tier, cfg.Seed)
	c06Once.Do(func() {
		c06Key = key
		t0 := time.Now()
		w := &c06World{ops: c06Slots(cfg), sites: map[int]string{}, pairF: map[int]string{}, cells: map[int]*c06Cell{}}
		for _, op := range w.ops {
			o := build(op.Path.Src)
			switch {
			case o.Panic != nil:
				op.Dead = "panic: " + o.Panic.Sig()
			case o.Err != nil:
				op.Dead = "error"
			default:
				d, pi := core.SafeDenote(o.Val)
				if pi != nil {
					op.Dead = "denote-panic: " + pi.Sig()
				} else if d.ContainsFn() {
					op.Dead = "function"
				} else {
					op.OK, op.Val, op.Got, op.GoType, op.Class = true, o.Val, d, core.TypeName(o.Val), c06Class(d)
					w.live = append(w.live, op.Idx)
				}
			}
		}
		w.n = len(w.ops)
		if os.Getenv("C06_DEBUG") != "" {
			fmt.Fprintf(os.Stderr, "c06: %d slots (%d live) built in %v\n", w.n, len(w.live), time.Since(t0))
		}
		c06W = w
	})
	if c06Key != key {
		panic("c06: world requested for two configurations in one process")
	}
	return c06W
}

// observation states per operator: 0 false, 1 true, 2 panic, 3 error / non-boolean
type c06Cell struct {
	v [6]uint8 // a<b, a=b, a<=b, a>b, a>=b, b<a
}

var c06OpNames = [6]string{"<", "=", "<=", ">", ">=", "swapped <"}
var c06OpSrcs = [6]string{"a < b", "a = b", "a <= b", "a > b", "a >= b", "b < a"}

const c06Combined = "(lt: a < b, eq: a = b, le: a <= b, gt: a > b, ge: a >= b, rl: b < a)"

var c06CombAttrs = [6]string{"lt", "eq", "le", "gt", "ge", "rl"}

func c06BoolState(v rel.Value) uint8 {
	switch v.(type) {
	case rel.EmptySet:
		return 0
	case rel.TrueSet:
		return 1
	}
	d, pi := core.SafeDenote(v)
	if pi != nil {
		return 3
	}
	switch d.Enc {
	case core.MTrue.Enc:
		return 1
	case core.MEmpty.Enc:
		return 0
	}
	return 3
}

// cellGet evaluates (once per process) all six comparisons of the ordered pair (i,j) on live values.
func (w *c06World) cellGet(i, j int) *c06Cell {
	k := i*w.n + j
	if c, ok := w.cells[k]; ok {
		return c
	}
	c := w.evalCell(i, j)
	w.cells[k] = c
	return c
}

func (w *c06World) evalCell(i, j int) *c06Cell {
	a, b := w.ops[i].Val, w.ops[j].Val
	c := &c06Cell{}
	o := core.EvalT(c06Combined, "a", a, "b", b)
	if o.OK() {
		if t, ok := o.Val.(rel.Tuple); ok {
			good := true
			for k, n := range c06CombAttrs {
				x, has := t.Get(n)
				if !has {
					good = false
					break
				}
				c.v[k] = c06BoolState(x)
			}
			if good {
				return c
			}
		}
	}
	for k, src := range c06OpSrcs {
		o := core.EvalT(src, "a", a, "b", b)
		switch {
		case o.Panic != nil:
			c.v[k] = 2
			w.sites[(i*w.n+j)*6+k] = o.Panic.Sig()
		case o.Err != nil:
			c.v[k] = 3
			w.sites[(i*w.n+j)*6+k] = "error: " + clipS(core.ErrText(o.Err), 60)
		default:
			c.v[k] = c06BoolState(o.Val)
		}
	}
	return c
}

func (w *c06World) lt(i, j int) uint8 { return w.cellGet(i, j).v[0] }
func (w *c06World) site(i, j, k int) string {
	return w.sites[(i*w.n+j)*6+k]
}

// ---------------------------------------------------------------------------------------------
// kind-pair hazards (model level)

func c06Times(a, b string) string {
	if a > b {
		a, b = b, a
	}
	return a + "×" + b
}

func c06SeqText(m MV, payload string) (string, int, bool) {
	si := core.SeqShape(m, payload)
	if si.N == 0 || si.Holes || si.Super || si.NonInt {
		return "", 0, false
	}
	parts := make([]string, si.N)
	for _, e := range m.S {
		parts[int(e.T["@"].N)-si.Lo] = e.T[payload].Enc
	}
	return strings.Join(parts, ","), si.Lo, true
}

// c06TopHz: hazards of the pair (a,b) themselves.
func c06TopHz(a, b MV) []string {
	ca, cb := c06Class(a), c06Class(b)
	hz := []string{c06Times(ca, cb)}
	if ca == cb {
		switch ca {
		case "rel":
			if core.Heading(a.S[0]) != core.Heading(b.S[0]) {
				hz = append(hz, "rel×rel:headings-differ")
			} else {
				hz = append(hz, "rel×rel:same-heading")
			}
		case "str", "bytes", "arr":
			p := map[string]string{"str": "@char", "bytes": "@byte", "arr": "@item"}[ca]
			ta, oa, ok1 := c06SeqText(a, p)
			tb, ob, ok2 := c06SeqText(b, p)
			if ok1 && ok2 && ta == tb && oa != ob {
				hz = append(hz, ca+"×"+ca+":offset-only")
			}
		case "tuples-mixed-headings":
			hz = append(hz, "tuples-mixed-headings×same")
		}
	}
	return hz
}

func c06Subs(m MV, into *[]MV, depth int) {
	*into = append(*into, m)
	if depth > 6 {
		return
	}
	switch m.K {
	case 't':
		ks := make([]string, 0, len(m.T))
		for k := range m.T {
			ks = append(ks, k)
		}
		sort.Strings(ks)
		for _, k := range ks {
			c06Subs(m.T[k], into, depth+1)
		}
	case 's':
		for _, e := range m.S {
			c06Subs(e, into, depth+1)
		}
	}
}

// c06PairHz: top-level kind-pair hazards plus "in:"-prefixed hazards of every pair of values
// nested anywhere inside a and b (coarse on purpose: which nested values an implementation
// aligns is its own business; the vocabulary stays small and seed-stable).
func c06PairHz(a, b MV) []string {
	set := map[string]bool{}
	for _, h := range c06TopHz(a, b) {
		set[h] = true
	}
	var sa, sb []MV
	c06Subs(a, &sa, 0)
	c06Subs(b, &sb, 0)
	if len(sa)*len(sb) <= 4096 {
		for i, x := range sa {
			for j, y := range sb {
				if i == 0 && j == 0 {
					continue
				}
				if x.K == 'n' && y.K == 'n' {
					continue
				}
				for _, h := range c06TopHz(x, y) {
					if c06Dangerous(h) {
						set["in:"+h] = true
					}
				}
			}
		}
	} else {
		set["in:large"] = true
	}
	out := make([]string, 0, len(set))
	for h := range set {
		out = append(out, h)
	}
	sort.Strings(out)
	return out
}

// c06PairHzOps: hazards of a pair of operands = kind-pair hazards of their actual denotations,
// plus "built-wrong:<hazard>" when an operand's program does not denote what it evaluates to
// (the constructor already went wrong; its hazards come from the intended denotation), plus
// "singleton-nesting" when one side holds, as a nested set member, the singleton {x} of a set x
// that the other side holds as a nested member.
func c06PairHzOps(a, b *c06Op) []string {
	key := [2]int{a.Idx, b.Idx}
	if a.Idx > b.Idx {
		key = [2]int{b.Idx, a.Idx}
	}
	if hz, ok := c06HzMemo[key]; ok {
		return hz
	}
	hz := c06PairHzOpsU(a, b)
	c06HzMemo[key] = hz
	return hz
}

var c06HzMemo = map[[2]int][]string{}

func c06PairHzOpsU(a, b *c06Op) []string {
	hz := c06PairHz(a.Got, b.Got)
	set := map[string]bool{}
	for _, h := range hz {
		set[h] = true
	}
	for _, o := range []*c06Op{a, b} {
		if o.Got.Enc != o.Want.Enc {
			hs := core.HazardList(o.Want)
			if len(hs) == 0 {
				set["built-wrong:plain"] = true
			}
			for _, h := range hs {
				set["built-wrong:"+h] = true
			}
		}
	}
	if c06SingletonNesting(a.Got, b.Got) {
		set["singleton-nesting"] = true
	}
	out := make([]string, 0, len(set))
	for h := range set {
		out = append(out, h)
	}
	sort.Strings(out)
	return out
}

// c06NestedSets collects every set that occurs as a member of a set anywhere inside m.
func c06NestedSets(m MV, into map[string]MV, depth int) {
	if depth > 6 {
		return
	}
	switch m.K {
	case 't':
		for _, v := range m.T {
			c06NestedSets(v, into, depth+1)
		}
	case 's':
		for _, e := range m.S {
			if e.K == 's' {
				into[e.Enc] = e
			}
			c06NestedSets(e, into, depth+1)
		}
	}
}

func c06SingletonNesting(a, b MV) bool {
	na, nb := map[string]MV{}, map[string]MV{}
	c06NestedSets(a, na, 0)
	c06NestedSets(b, nb, 0)
	for _, x := range na {
		if _, ok := nb[mset(x).Enc]; ok {
			return true
		}
	}
	for _, y := range nb {
		if _, ok := na[mset(y).Enc]; ok {
			return true
		}
	}
	return false
}

// c06Dangerous limits nested hazards to the vocabulary used by known findings.
func c06Dangerous(h string) bool {
	switch h {
	case "bytes×bytes", "empty×tuple", "true×tuple", "empty×neg", "neg×true", "rel×rel:headings-differ", "rel×rel:same-heading",
		"str×str:offset-only", "bytes×bytes:offset-only", "tuples-mixed-headings×same",
		"tuples-mixed-headings×tuples-mixed-headings", "mixed×mixed", "mixed×tuples-mixed-headings", "neg×neg", "neg×num":
		return true
	}
	return false
}
